/-
Helper lemmas for C09cCP (conditional complete positivity of the cumulant function / of Lindblad
generators, in the index conventions of `superoperator.liouville_to_choi` and
`superoperator.liouville_is_cCP`):

* `Spec.liouFun`, `Spec.choiMap`, `Spec.vecOp`, `Spec.projQ` — Liouville matrix of a linear map,
  its Choi matrix in the code's conventions (row `(a, c)`, column `(b, e)`: `Φ(E_ab)_{ce}`), the
  vectorisation `|A⟫_{(a,c)} = A_{ca}` and the projector `Q = 1 - |Ω⟩⟨Ω|`;
* `Spec.choi_of_liouFun` — for a complete basis the model's `liouvilleToChoi` of the Liouville
  matrix of a linear map is that Choi matrix;
* `Spec.choiMap_gks` — Choi matrix of `ρ ↦ Σ_kl W_kl A_k ρ A_l† + G ρ + ρ G'`;
* `Spec.projQ_mul_choi_gks_mul_projQ` — the `G`-terms are annihilated by `Q`;
* access lemmas for the model (`Model.projQ_toMatrix`, `Model.projectedChoi_toMatrix`, verdict).
-/
import Mathlib.LinearAlgebra.Matrix.PosDef
import Mathlib.Tactic.Ring
import Mathlib.Tactic.Abel
import Mathlib.Tactic.NormNum
import Mathlib.Tactic.LinearCombination
import FFVerif.Lemmas.BasisAux
import FFVerif.Lemmas.CumulantAux
import FFVerif.Lemmas.PauliAux
import FFVerif.Model.Superop

namespace FFVerif
open Matrix
open scoped ComplexOrder

namespace Spec

variable {N d : Nat}

/-- Liouville matrix of a map `Φ` on operators: `S_ij = tr(C_i Φ(C_j))` -/
def liouFun (C : Fin N → Matrix (Fin d) (Fin d) ℂ)
    (Φ : Matrix (Fin d) (Fin d) ℂ → Matrix (Fin d) (Fin d) ℂ) : Matrix (Fin N) (Fin N) ℂ :=
  fun i j => trace (C i * Φ (C j))

/-- Choi matrix of `Φ` in the conventions of `liouville_to_choi`: entry at row `(a, c)`, column
`(b, e)` (row-major flattening) is `Φ(E_ab)_{ce}`, i.e. `Σ_ab E_ab ⊗ Φ(E_ab)`. -/
def choiMap (Φ : Matrix (Fin d) (Fin d) ℂ → Matrix (Fin d) (Fin d) ℂ) :
    Matrix (Fin (d * d)) (Fin (d * d)) ℂ :=
  fun r s => Φ (Matrix.single (Fin.hi r) (Fin.hi s) 1) (Fin.lo r) (Fin.lo s)

/-- vectorisation matching `choiMap`: `|A⟫_{(a,c)} = A_{ca}` -/
def vecOp (A : Matrix (Fin d) (Fin d) ℂ) : Fin (d * d) → ℂ := fun r => A (Fin.lo r) (Fin.hi r)

/-- `Q = 1 - |Ω⟩⟨Ω|`, `|Ω⟩ = |1⟫/√d` (for `d = 0` the index type is empty) -/
noncomputable def projQ (d : Nat) : Matrix (Fin (d * d)) (Fin (d * d)) ℂ :=
  1 - ((d : ℂ)⁻¹) • vecMulVec (vecOp (1 : Matrix (Fin d) (Fin d) ℂ)) (star (vecOp 1))

/-! ### the basis sums of a complete family -/

variable {C : Fin N → Matrix (Fin d) (Fin d) ℂ}

/-- `Σ_j (C_j)_{ba} C_j = E_ab` for a complete family -/
theorem basis_sum_single (hC : IsComplete C) (a b : Fin d) :
    ∑ j, C j b a • C j = Matrix.single a b (1 : ℂ) := by
  have h := hC (Matrix.single a b (1 : ℂ))
  simp only [trace_single_mul'] at h
  exact h.symm

/-- **Choi matrix from the Liouville matrix.** For a complete family `C` and a linear map `Φ`, the
double sum `Σ_ij S_ij (C_j)_{ba} (C_i)_{ce}` formed by `liouville_to_choi` from
`S_ij = tr(C_i Φ(C_j))` is `Φ(E_ab)_{ce}`. -/
theorem choi_sum_liouFun (hC : IsComplete C)
    (Φ : Matrix (Fin d) (Fin d) ℂ →ₗ[ℂ] Matrix (Fin d) (Fin d) ℂ) (a b c e : Fin d) :
    ∑ i, ∑ j, trace (C i * Φ (C j)) * C j b a * C i c e = Φ (Matrix.single a b 1) c e := by
  have h1 : ∀ i, ∑ j, trace (C i * Φ (C j)) * C j b a * C i c e
      = trace (Φ (Matrix.single a b 1) * C i) * C i c e := by
    intro i
    rw [← Finset.sum_mul]
    congr 1
    rw [← basis_sum_single hC a b, map_sum, Matrix.sum_mul, trace_sum]
    refine Finset.sum_congr rfl fun j _ => ?_
    rw [map_smul, Matrix.smul_mul, trace_smul, smul_eq_mul, trace_mul_comm, mul_comm]
  simp only [h1]
  exact (complete_apply hC _ _ _).symm

/-! ### Choi matrices of the elementary maps -/

theorem mul_single_mul_apply (A B : Matrix (Fin d) (Fin d) ℂ) (a b c e : Fin d) :
    (A * Matrix.single a b (1 : ℂ) * B) c e = A c a * B b e := by
  simp [Matrix.mul_apply, Matrix.single_apply, Finset.sum_ite_eq, ite_and]

theorem single_mul_apply' (B : Matrix (Fin d) (Fin d) ℂ) (a b c e : Fin d) :
    (Matrix.single a b (1 : ℂ) * B) c e = (if c = a then 1 else 0) * B b e := by
  have h := mul_single_mul_apply 1 B a b c e
  rw [Matrix.one_mul] at h
  rw [h, Matrix.one_apply]

theorem mul_single_apply' (A : Matrix (Fin d) (Fin d) ℂ) (a b c e : Fin d) :
    (A * Matrix.single a b (1 : ℂ)) c e = A c a * (if b = e then 1 else 0) := by
  have h := mul_single_mul_apply A 1 a b c e
  rw [Matrix.mul_one] at h
  rw [h, Matrix.one_apply]

theorem vecOp_one_apply (r : Fin (d * d)) :
    vecOp (1 : Matrix (Fin d) (Fin d) ℂ) r = if Fin.lo r = Fin.hi r then 1 else 0 := by
  simp only [vecOp, Matrix.one_apply]

theorem star_vecOp_one : star (vecOp (1 : Matrix (Fin d) (Fin d) ℂ)) = vecOp 1 := by
  funext r
  simp only [Pi.star_apply, vecOp_one_apply]
  split_ifs <;> simp

/-- the matrix whose columns are the vectorised operators `A_k` -/
def vecOps {M : Nat} (A : Fin M → Matrix (Fin d) (Fin d) ℂ) : Matrix (Fin (d * d)) (Fin M) ℂ :=
  fun r k => vecOp (A k) r

/-- the generalised Gorini–Kossakowski–Sudarshan form
`ρ ↦ Σ_kl W_kl A_k ρ A_l† + G ρ + ρ G'` -/
def gksMap {M : Nat} (W : Matrix (Fin M) (Fin M) ℂ) (A : Fin M → Matrix (Fin d) (Fin d) ℂ)
    (G G' : Matrix (Fin d) (Fin d) ℂ) (ρ : Matrix (Fin d) (Fin d) ℂ) : Matrix (Fin d) (Fin d) ℂ :=
  ∑ k, ∑ l, W k l • (A k * ρ * (A l)ᴴ) + G * ρ + ρ * G'

/-- `gksMap` as a linear map -/
def gksLin {M : Nat} (W : Matrix (Fin M) (Fin M) ℂ) (A : Fin M → Matrix (Fin d) (Fin d) ℂ)
    (G G' : Matrix (Fin d) (Fin d) ℂ) :
    Matrix (Fin d) (Fin d) ℂ →ₗ[ℂ] Matrix (Fin d) (Fin d) ℂ where
  toFun := gksMap W A G G'
  map_add' x y := by
    simp only [gksMap, Matrix.mul_add, Matrix.add_mul, smul_add, Finset.sum_add_distrib]
    abel
  map_smul' c x := by
    simp only [gksMap, Matrix.mul_smul, Matrix.smul_mul, RingHom.id_apply, smul_add,
      Finset.smul_sum]
    congr 2
    refine Finset.sum_congr rfl fun k _ => Finset.sum_congr rfl fun l _ => ?_
    rw [smul_comm]

@[simp] theorem gksLin_apply {M : Nat} (W : Matrix (Fin M) (Fin M) ℂ)
    (A : Fin M → Matrix (Fin d) (Fin d) ℂ) (G G' ρ : Matrix (Fin d) (Fin d) ℂ) :
    gksLin W A G G' ρ = gksMap W A G G' ρ := rfl

/-- **Choi matrix of the GKS form**:
`Σ_kl W_kl |A_k⟫⟨⟨A_l| + |G⟫⟨⟨1| + |1⟫⟨⟨G'†|`. -/
theorem choiMap_gks {M : Nat} (W : Matrix (Fin M) (Fin M) ℂ)
    (A : Fin M → Matrix (Fin d) (Fin d) ℂ) (G G' : Matrix (Fin d) (Fin d) ℂ) :
    choiMap (gksMap W A G G')
      = vecOps A * W * (vecOps A)ᴴ + vecMulVec (vecOp G) (star (vecOp 1))
        + vecMulVec (vecOp 1) (star (vecOp G'ᴴ)) := by
  ext r s
  have hL : choiMap (gksMap W A G G') r s
      = ∑ k, ∑ l, W k l * (vecOp (A k) r * star (vecOp (A l) s))
        + vecOp G r * vecOp 1 s + vecOp 1 r * G' (Fin.hi s) (Fin.lo s) := by
    simp only [choiMap, gksMap, Matrix.add_apply, Matrix.sum_apply, Matrix.smul_apply,
      smul_eq_mul, mul_single_mul_apply, single_mul_apply', mul_single_apply',
      Matrix.conjTranspose_apply, vecOp, Matrix.one_apply]
    simp only [eq_comm]
  have hR : (vecOps A * W * (vecOps A)ᴴ) r s
      = ∑ k, ∑ l, W k l * (vecOp (A k) r * star (vecOp (A l) s)) := by
    simp only [Matrix.mul_apply, vecOps, Matrix.conjTranspose_apply, Finset.sum_mul]
    rw [Finset.sum_comm]
    refine Finset.sum_congr rfl fun k _ => Finset.sum_congr rfl fun l _ => ?_
    ring
  rw [hL, Matrix.add_apply, Matrix.add_apply, hR, vecMulVec_apply, vecMulVec_apply,
    star_vecOp_one]
  simp only [Pi.star_apply, vecOp, Matrix.conjTranspose_apply, star_star]

/-! ### the projector `Q` -/

theorem vecOp_one_dot_self :
    vecOp (1 : Matrix (Fin d) (Fin d) ℂ) ⬝ᵥ vecOp 1 = (d : ℂ) := by
  simp only [dotProduct, vecOp_one_apply]
  rw [sum_split]
  simp only [Fin.hi_flat, Fin.lo_flat, mul_ite, mul_one, mul_zero, ← ite_and, and_self,
    Finset.sum_ite_eq', Finset.mem_univ, if_true, Finset.sum_const, Finset.card_univ,
    Fintype.card_fin, nsmul_eq_mul]

theorem projQ_mulVec_one : projQ d *ᵥ vecOp (1 : Matrix (Fin d) (Fin d) ℂ) = 0 := by
  rcases Nat.eq_zero_or_pos d with rfl | hd
  · funext r; exact absurd r.2 (by simp)
  · have hd' : (d : ℂ) ≠ 0 := Nat.cast_ne_zero.mpr (Nat.pos_iff_ne_zero.mp hd)
    rw [projQ, Matrix.sub_mulVec, Matrix.one_mulVec, Matrix.smul_mulVec, vecMulVec_mulVec,
      star_vecOp_one, vecOp_one_dot_self, op_smul_eq_smul, smul_smul, inv_mul_cancel₀ hd',
      one_smul, sub_self]

theorem one_vecMul_projQ : vecOp (1 : Matrix (Fin d) (Fin d) ℂ) ᵥ* projQ d = 0 := by
  rcases Nat.eq_zero_or_pos d with rfl | hd
  · funext r; exact absurd r.2 (by simp)
  · have hd' : (d : ℂ) ≠ 0 := Nat.cast_ne_zero.mpr (Nat.pos_iff_ne_zero.mp hd)
    rw [projQ, Matrix.vecMul_sub, Matrix.vecMul_one, Matrix.vecMul_smul, vecMul_vecMulVec,
      star_vecOp_one, vecOp_one_dot_self, smul_smul, inv_mul_cancel₀ hd', one_smul, sub_self]

theorem projQ_conjTranspose : (projQ d)ᴴ = projQ d := by
  rw [projQ, conjTranspose_sub, conjTranspose_one, conjTranspose_smul, conjTranspose_vecMulVec,
    star_star, star_inv₀, star_natCast]

/-- **The `G`-terms of a GKS form are annihilated by `Q`**:
`Q choi(Σ W_kl A_k · A_l† + G · + · G') Q = (Q V) W (Q V)†`, `V` the matrix with columns `|A_k⟫`. -/
theorem projQ_mul_choi_gks_mul_projQ {M : Nat} (W : Matrix (Fin M) (Fin M) ℂ)
    (A : Fin M → Matrix (Fin d) (Fin d) ℂ) (G G' : Matrix (Fin d) (Fin d) ℂ) :
    projQ d * choiMap (gksMap W A G G') * projQ d
      = (projQ d * vecOps A) * W * (projQ d * vecOps A)ᴴ := by
  rw [choiMap_gks, Matrix.mul_add, Matrix.mul_add, Matrix.add_mul, Matrix.add_mul,
    mul_vecMulVec (projQ d) (vecOp 1), projQ_mulVec_one, zero_vecMulVec, Matrix.zero_mul,
    add_zero, Matrix.mul_assoc (projQ d) (vecMulVec _ _), vecMulVec_mul, star_vecOp_one,
    one_vecMul_projQ, vecMulVec_zero, Matrix.mul_zero, add_zero, conjTranspose_mul,
    projQ_conjTranspose]
  simp only [Matrix.mul_assoc]

/-- the projected Choi matrix of a GKS form with positive-semidefinite weight matrix is
positive semidefinite -/
theorem projQ_choi_gks_posSemidef {M : Nat} (W : Matrix (Fin M) (Fin M) ℂ) (hW : W.PosSemidef)
    (A : Fin M → Matrix (Fin d) (Fin d) ℂ) (G G' : Matrix (Fin d) (Fin d) ℂ) :
    (projQ d * choiMap (gksMap W A G G') * projQ d).PosSemidef := by
  rw [projQ_mul_choi_gks_mul_projQ]
  exact hW.mul_mul_conjTranspose_same _

/-- the projected Choi matrix of `ρ ↦ G ρ + ρ G'` vanishes -/
theorem projQ_choi_commutator_like (G G' : Matrix (Fin d) (Fin d) ℂ) :
    projQ d * choiMap (gksMap (0 : Matrix (Fin 0) (Fin 0) ℂ) (fun _ => 0) G G') * projQ d = 0 := by
  rw [projQ_mul_choi_gks_mul_projQ]
  ext r s
  simp [Matrix.mul_apply]

/-! ### the cumulant function as a map on operators -/

/-- first-order cumulant map `ρ ↦ -½ Σ_kl Γ_kl [C_k, [C_l, ρ]]` -/
noncomputable def K1Map (C : Fin N → Matrix (Fin d) (Fin d) ℂ) (Γ : Fin N → Fin N → ℂ)
    (ρ : Matrix (Fin d) (Fin d) ℂ) : Matrix (Fin d) (Fin d) ℂ :=
  -(1 / 2 : ℂ) • ∑ k, ∑ l, Γ k l • comm (C k) (comm (C l) ρ)

/-- the operator `X = -½ Σ_kl Δ_kl [C_k, C_l]` of the second-order contribution -/
noncomputable def K2Op (C : Fin N → Matrix (Fin d) (Fin d) ℂ) (Δ : Fin N → Fin N → ℂ) :
    Matrix (Fin d) (Fin d) ℂ :=
  -(1 / 2 : ℂ) • ∑ k, ∑ l, Δ k l • comm (C k) (C l)

theorem K1_eq_trace_K1Map (Γ : Fin N → Fin N → ℂ) (i j : Fin N) :
    K1 C Γ i j = trace (C i * K1Map C Γ (C j)) := by
  unfold K1 K1Map
  simp only [Matrix.mul_smul, trace_smul, Matrix.mul_sum, trace_sum, smul_eq_mul]

/-- the second-order contribution is the Liouville matrix of `ρ ↦ [X, ρ]` -/
theorem K2_eq_trace_comm (Δ : Fin N → Fin N → ℂ) (i j : Fin N) :
    K2 C Δ i j = trace (C i * comm (K2Op C Δ) (C j)) := by
  unfold K2 K2Op comm
  simp only [Matrix.smul_mul, Matrix.mul_smul, Matrix.sum_mul, Matrix.mul_sum, ← smul_sub,
    ← Finset.sum_sub_distrib, trace_smul, trace_sum, smul_eq_mul]

/-- **The first-order cumulant map in GKS form**: for Hermitian basis elements
`-½ Σ Γ_kl [C_k,[C_l,ρ]] = Σ_kl Γˢ_kl C_k ρ C_l† + G ρ + ρ G'` with `Γˢ = (Γ + Γᵀ)/2`,
`G = -½ Σ Γ_kl C_k C_l`, `G' = -½ Σ Γ_kl C_l C_k`. -/
theorem K1Map_eq_gks (hH : ∀ i, (C i)ᴴ = C i) (Γ : Fin N → Fin N → ℂ)
    (ρ : Matrix (Fin d) (Fin d) ℂ) :
    K1Map C Γ ρ = gksMap (Matrix.of fun k l => (Γ k l + Γ l k) / 2) C
      (-(1 / 2 : ℂ) • ∑ k, ∑ l, Γ k l • (C k * C l))
      (-(1 / 2 : ℂ) • ∑ k, ∑ l, Γ k l • (C l * C k)) ρ := by
  have hsw : ∑ k, ∑ l, Γ l k • (C k * ρ * C l) = ∑ k, ∑ l, Γ k l • (C l * ρ * C k) :=
    Finset.sum_comm
  have hW : ∑ k, ∑ l, ((Γ k l + Γ l k) / 2) • (C k * ρ * C l)
      = (1 / 2 : ℂ) • ∑ k, ∑ l, Γ k l • (C k * ρ * C l)
        + (1 / 2 : ℂ) • ∑ k, ∑ l, Γ k l • (C l * ρ * C k) := by
    rw [← hsw, Finset.smul_sum, Finset.smul_sum, ← Finset.sum_add_distrib]
    refine Finset.sum_congr rfl fun k _ => ?_
    rw [Finset.smul_sum, Finset.smul_sum, ← Finset.sum_add_distrib]
    refine Finset.sum_congr rfl fun l _ => ?_
    module
  unfold K1Map gksMap
  simp only [Matrix.of_apply, hH]
  rw [hW]
  simp only [Matrix.smul_mul, Matrix.mul_smul, Matrix.sum_mul, Matrix.mul_sum, Finset.smul_sum,
    ← Finset.sum_add_distrib]
  refine Finset.sum_congr rfl fun k _ => Finset.sum_congr rfl fun l _ => ?_
  unfold comm
  simp only [Matrix.mul_sub, Matrix.sub_mul, Matrix.mul_assoc]
  module

/-- adding a commutator `[X, ρ]` only changes the `G`-terms of a GKS form -/
theorem gksMap_add_comm {M : Nat} (W : Matrix (Fin M) (Fin M) ℂ)
    (A : Fin M → Matrix (Fin d) (Fin d) ℂ) (G G' X ρ : Matrix (Fin d) (Fin d) ℂ) :
    gksMap W A G G' ρ + comm X ρ = gksMap W A (G + X) (G' - X) ρ := by
  unfold gksMap comm
  rw [Matrix.add_mul, Matrix.mul_sub]
  abel

/-- `[X, ρ]` alone as a GKS form without jump terms -/
theorem comm_eq_gks (X ρ : Matrix (Fin d) (Fin d) ℂ) :
    comm X ρ = gksMap (0 : Matrix (Fin 0) (Fin 0) ℂ) (fun _ => 0) X (-X) ρ := by
  unfold gksMap comm
  simp [sub_eq_add_neg]

/-- for real `Δ` and Hermitian basis elements `X = -½ Σ Δ_kl [C_k, C_l]` is anti-Hermitian -/
theorem K2Op_conjTranspose (hH : ∀ i, (C i)ᴴ = C i) (Δ : Fin N → Fin N → ℂ)
    (hΔ : ∀ k l, starRingEnd ℂ (Δ k l) = Δ k l) : (K2Op C Δ)ᴴ = -K2Op C Δ := by
  unfold K2Op comm
  rw [conjTranspose_smul, conjTranspose_sum, ← smul_neg, ← Finset.sum_neg_distrib]
  congr 1
  · simp
  · refine Finset.sum_congr rfl fun k _ => ?_
    rw [conjTranspose_sum, ← Finset.sum_neg_distrib]
    refine Finset.sum_congr rfl fun l _ => ?_
    rw [conjTranspose_smul, conjTranspose_sub, conjTranspose_mul, conjTranspose_mul, hH, hH,
      ← smul_neg, neg_sub]
    congr 1
    exact hΔ k l

/-! ### eigenvalues of a positive-semidefinite matrix -/

/-- every eigenvalue of a positive-semidefinite matrix is non-negative -/
theorem eigenvalue_nonneg_of_posSemidef {n : Nat} {M : Matrix (Fin n) (Fin n) ℂ}
    (hM : M.PosSemidef) (v : Fin n → ℂ) (hv : v ≠ 0) (μ : ℝ) (h : M *ᵥ v = (μ : ℂ) • v) :
    0 ≤ μ := by
  have h1 := hM.dotProduct_mulVec_nonneg v
  rw [h, dotProduct_smul, smul_eq_mul] at h1
  have h2 : 0 < star v ⬝ᵥ v := dotProduct_star_self_pos_iff.mpr hv
  have h3 : 0 ≤ μ * (star v ⬝ᵥ v).re := by
    have := (Complex.nonneg_iff.mp h1).1
    rwa [Complex.re_ofReal_mul] at this
  exact nonneg_of_mul_nonneg_left h3 (Complex.pos_iff.mp h2).1

/-- for an index `r = (a, c)` off the diagonal (`a ≠ c`) the projection does not change the
diagonal entry: `(Q X Q)_rr = X_rr` -/
theorem projQ_mul_mul_projQ_offdiag (X : Matrix (Fin (d * d)) (Fin (d * d)) ℂ) (r : Fin (d * d))
    (hr : Fin.lo r ≠ Fin.hi r) : (projQ d * X * projQ d) r r = X r r := by
  have hu : vecOp (1 : Matrix (Fin d) (Fin d) ℂ) r = 0 := by
    rw [vecOp_one_apply, if_neg hr]
  have hrow : ∀ s, projQ d r s = (1 : Matrix (Fin (d * d)) (Fin (d * d)) ℂ) r s := by
    intro s
    simp only [projQ, Matrix.sub_apply, Matrix.smul_apply, vecMulVec_apply, hu, zero_mul,
      smul_zero, sub_zero]
  have hcol : ∀ s, projQ d s r = (1 : Matrix (Fin (d * d)) (Fin (d * d)) ℂ) s r := by
    intro s
    simp only [projQ, Matrix.sub_apply, Matrix.smul_apply, vecMulVec_apply, star_vecOp_one, hu,
      mul_zero, smul_zero, sub_zero]
  rw [Matrix.mul_apply]
  simp only [hcol, Matrix.mul_apply, hrow, Matrix.one_apply]
  simp

/-! ### a generator with a negative rate (`d = 2`) -/

theorem sigma1_sq : sigma 1 * sigma 1 = 1 := by
  ext a b
  fin_cases a <;> fin_cases b <;> simp [sigma, Matrix.mul_apply, Fin.sum_univ_two]

/-- `ρ - σ_x ρ σ_x` moves population from `|0⟩` to `|1⟩` at the rate `-1` -/
theorem flip_entry :
    ((Matrix.single (0 : Fin 2) (0 : Fin 2) (1 : ℂ)
      - sigma 1 * Matrix.single (0 : Fin 2) (0 : Fin 2) (1 : ℂ) * sigma 1 :
        Matrix (Fin 2) (Fin 2) ℂ)) 1 1 = -1 := by
  rw [Matrix.sub_apply, mul_single_mul_apply]
  simp [sigma]

theorem nested_comm_sigma1 (ρ : Matrix (Fin 2) (Fin 2) ℂ) :
    comm (sigma 1) (comm (sigma 1) ρ) = (2 : ℂ) • (ρ - sigma 1 * ρ * sigma 1) := by
  have e1 : sigma 1 * (sigma 1 * ρ) = ρ := by rw [← Matrix.mul_assoc, sigma1_sq, Matrix.one_mul]
  have e2 : ρ * sigma 1 * sigma 1 = ρ := by rw [Matrix.mul_assoc, sigma1_sq, Matrix.mul_one]
  unfold comm
  rw [Matrix.mul_sub, Matrix.sub_mul, e1, e2, ← Matrix.mul_assoc]
  module

/-- the first-order cumulant map of the Pauli basis for `Γ = -e_1 e_1ᵀ` is `½(ρ - σ_x ρ σ_x)`
with the sign of a NEGATIVE rate -/
theorem K1Map_pauli_neg (ρ : Matrix (Fin 2) (Fin 2) ℂ) :
    K1Map pauliBasis (fun k l => if k = 1 ∧ l = 1 then -1 else 0) ρ
      = (1 / 2 : ℂ) • (ρ - sigma 1 * ρ * sigma 1) := by
  have hsum : ∀ f : Fin 4 → Fin 4 → Matrix (Fin 2) (Fin 2) ℂ,
      ∑ k, ∑ l, (if k = 1 ∧ l = 1 then (-1 : ℂ) else 0) • f k l = -(f 1 1) := by
    intro f
    rw [Finset.sum_eq_single 1, Finset.sum_eq_single 1]
    · simp
    · intro l _ hl; simp [hl]
    · intro h; exact absurd (Finset.mem_univ _) h
    · intro k _ hk; simp [hk]
    · intro h; exact absurd (Finset.mem_univ _) h
  unfold K1Map
  rw [hsum]
  unfold pauliBasis
  rw [comm_smul_left, comm_smul_left, comm_smul_right, smul_smul, invSqrt2_sq,
    nested_comm_sigma1]
  module

/-- the "Lindblad form" with jump operator `σ_x` and rate `-1` -/
theorem negrate_map (ρ : Matrix (Fin 2) (Fin 2) ℂ) :
    -Complex.I • ((0 : Matrix (Fin 2) (Fin 2) ℂ) * ρ - ρ * 0)
      + ∑ _m : Fin 1, (((-1 : ℝ) : ℂ)) • (sigma 1 * ρ * (sigma 1)ᴴ
          - (1 / 2 : ℂ) • ((sigma 1)ᴴ * sigma 1 * ρ + ρ * ((sigma 1)ᴴ * sigma 1)))
      = ρ - sigma 1 * ρ * sigma 1 := by
  rw [sigma_herm, sigma1_sq, Matrix.zero_mul, Matrix.mul_zero, sub_zero, smul_zero, zero_add,
    Matrix.one_mul, Matrix.mul_one, Finset.univ_unique, Finset.sum_singleton]
  push_cast
  module

end Spec

/-! ### Unfolding the model -/

namespace Model
open FFVerif.Spec

variable {N d : Nat}

/-- the stride test `r % (d+1) = 0` of `Omega[::d+1]` selects the flattened diagonal -/
theorem mod_succ_eq_zero_iff (r : Fin (d * d)) :
    r.1 % (d + 1) = 0 ↔ Fin.lo r = Fin.hi r := by
  have hdm := Nat.div_add_mod r.1 d
  have hlo : (Fin.lo r).1 = r.1 % d := rfl
  have hhi : (Fin.hi r).1 = r.1 / d := rfl
  have hc : r.1 % d < d := (Fin.lo r).2
  have ha : r.1 / d < d := (Fin.hi r).2
  rw [Fin.ext_iff, hlo, hhi]
  generalize r.1 / d = a at *
  generalize r.1 % d = c at *
  rcases le_or_gt a c with hac | hac
  · have e : r.1 = (d + 1) * a + (c - a) := by
      have : (d + 1) * a = d * a + a := by ring
      omega
    rw [e, Nat.mul_add_mod, Nat.mod_eq_of_lt (by omega)]
    omega
  · obtain ⟨a', rfl⟩ : ∃ a', a = a' + 1 := ⟨a - 1, by omega⟩
    have e : r.1 = (d + 1) * a' + (d + 1 - (a' + 1 - c)) := by
      have h1 : (d + 1) * a' = d * a' + a' := by ring
      have h2 : d * (a' + 1) = d * a' + d := by ring
      omega
    rw [e, Nat.mul_add_mod, Nat.mod_eq_of_lt (by omega)]
    omega

/-- the real array `Q` of `liouville_is_cCP`, promoted to complex, is `1 - |Ω⟩⟨Ω|` -/
theorem projQ_toMatrix :
    (Mat.map (CplxOps.ofReal (R := ℝ) (K := ℂ)) (Model.projQ (R := ℝ) d)).toMatrix
      = Spec.projQ d := by
  ext r s
  have hsq : (1 / Real.sqrt (d : ℝ)) * (1 / Real.sqrt (d : ℝ)) = ((d : ℝ))⁻¹ := by
    rw [← one_div, div_mul_div_comm, one_mul, Real.mul_self_sqrt (Nat.cast_nonneg d)]
  simp only [Mat.map, Model.projQ, Model.omegaState, Model.omegaVec, Mat.toMatrix_apply,
    Mat.ofFn_getElem, Fin.getElem_fin, Vector.getElem_ofFn, Fin.eta, mod_succ_eq_zero_iff,
    ropsSqrt,
    copsOfReal, Spec.projQ, Matrix.sub_apply, Matrix.one_apply, Matrix.smul_apply,
    vecMulVec_apply, star_vecOp_one, vecOp_one_apply, smul_eq_mul]
  by_cases h1 : Fin.lo r = Fin.hi r <;> by_cases h2 : Fin.lo s = Fin.hi s <;>
    by_cases h3 : r = s <;>
    simp only [h1, h2, h3, if_true, if_false, mul_zero, zero_mul, sub_zero, mul_one,
      Complex.ofReal_sub, Complex.ofReal_one, Complex.ofReal_zero, hsq, Complex.ofReal_inv,
      Complex.ofReal_natCast]

/-- `Q @ choi @ Q` of the model as a product of Mathlib matrices -/
theorem projectedChoi_toMatrix (S : Mat ℂ N N) (C : Vector (Mat ℂ d d) N) :
    (Model.projectedChoi (R := ℝ) S C).toMatrix
      = Spec.projQ d * (Model.liouvilleToChoi S C).toMatrix * Spec.projQ d := by
  unfold Model.projectedChoi
  simp only [Mat.toMatrix_mul, projQ_toMatrix]

/-- **`liouville_to_choi` of the Liouville matrix of a linear map is its Choi matrix**
(complete basis). -/
theorem liouvilleToChoi_of_liouFun (C : Vector (Mat ℂ d d) N)
    (hC : Spec.IsComplete (Spec.basisOf C))
    (Φ : Matrix (Fin d) (Fin d) ℂ →ₗ[ℂ] Matrix (Fin d) (Fin d) ℂ) (S : Mat ℂ N N)
    (hS : ∀ i j : Fin N, S[i][j] = trace (Spec.basisOf C i * Φ (Spec.basisOf C j))) :
    (Model.liouvilleToChoi S C).toMatrix = Spec.choiMap Φ := by
  ext r s
  rw [Mat.toMatrix_apply, Model.choi_getElem]
  simp only [hS]
  exact Spec.choi_sum_liouFun hC Φ (Fin.hi r) (Fin.hi s) (Fin.lo r) (Fin.lo s)

/-! ### the verdict -/

theorem cpVerdictB_iff {n : Nat} (D : Vec ℝ n) (atol : ℝ) :
    Model.cpVerdictB D atol = true ↔ ∀ i : Fin n, -atol ≤ D[i] := by
  unfold Model.cpVerdictB
  rw [Vector.all_eq_true]
  simp only [ropsLe, decide_eq_true_eq]
  exact ⟨fun h i => h i.1 i.2, fun h i hi => h ⟨i, hi⟩⟩

theorem defaultAtol_nonneg {n : Nat} (basisAtol : ℝ) (hb : 0 ≤ basisAtol) (D : Vec ℝ n) :
    0 ≤ Model.defaultAtol basisAtol D := by
  unfold Model.defaultAtol
  simp only [ropsLt]
  apply mul_nonneg hb
  split_ifs with h
  · exact le_of_lt (lt_trans one_pos (of_decide_eq_true h))
  · exact zero_le_one

end Model
end FFVerif
