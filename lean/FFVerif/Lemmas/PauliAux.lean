/-
Helper lemmas for C09 (single-qubit shortcut): multiplication table of the Pauli matrices, the
trace tensor of the normalised Pauli basis, the documented cumulant formula evaluated on it, and
entry lemmas for `Model.cumulantSingleQubit`.
-/
import Mathlib.Tactic.FinCases
import FFVerif.Lemmas.CumulantAux

namespace FFVerif.Spec
open Matrix Complex

/-- index of the product of two Pauli matrices (`σ_a σ_b ∝ σ_{a xor b}`) -/
def pm : Fin 4 → Fin 4 → Fin 4 :=
  ![![0, 1, 2, 3], ![1, 0, 3, 2], ![2, 3, 0, 1], ![3, 2, 1, 0]]

/-- phase of the product of two Pauli matrices -/
def ph : Fin 4 → Fin 4 → ℂ :=
  ![![1, 1, 1, 1], ![1, 1, I, -I], ![1, -I, 1, I], ![1, I, -I, 1]]

theorem sigma_mul (a b : Fin 4) : sigma a * sigma b = ph a b • sigma (pm a b) := by
  fin_cases a <;> fin_cases b <;>
    simp [sigma, pm, ph, Matrix.smul_of, Matrix.smul_cons]

theorem trace_sigma (a : Fin 4) : trace (sigma a) = if a = 0 then 2 else 0 := by
  fin_cases a
  · simp [sigma, Matrix.trace_fin_two_of]; norm_num
  · simp [sigma, Matrix.trace_fin_two_of]
  · simp [sigma, Matrix.trace_fin_two_of]
  · simp [sigma, Matrix.trace_fin_two_of]

theorem sigma_herm (a : Fin 4) : (sigma a)ᴴ = sigma a := by
  fin_cases a <;> ext i j <;> fin_cases i <;> fin_cases j <;> simp [sigma]

theorem invSqrt2_sq : invSqrt2 * invSqrt2 = 1 / 2 := by
  unfold invSqrt2
  rw [← Complex.ofReal_mul, ← mul_inv, Real.mul_self_sqrt (by norm_num)]
  norm_num

theorem invSqrt2_conj : starRingEnd ℂ invSqrt2 = invSqrt2 := by
  unfold invSqrt2; exact Complex.conj_ofReal _

theorem trace_sigma4 (a b c e : Fin 4) :
    trace (sigma a * sigma b * sigma c * sigma e)
      = ph a b * ph (pm a b) c * ph (pm (pm a b) c) e * trace (sigma (pm (pm (pm a b) c) e)) := by
  rw [sigma_mul, Matrix.smul_mul, sigma_mul, Matrix.smul_mul, Matrix.smul_mul, sigma_mul]
  simp only [smul_smul, trace_smul, smul_eq_mul, mul_assoc]

/-- trace tensor of the normalised Pauli basis -/
theorem T4_pauli (a b c e : Fin 4) :
    T4 pauliBasis a b c e
      = 1 / 4 * (ph a b * ph (pm a b) c * ph (pm (pm a b) c) e
          * (if pm (pm (pm a b) c) e = 0 then 2 else 0)) := by
  unfold T4 pauliBasis
  simp only [Matrix.smul_mul, Matrix.mul_smul, smul_smul, trace_smul, smul_eq_mul, trace_sigma4,
    trace_sigma]
  have h : invSqrt2 * (invSqrt2 * (invSqrt2 * invSqrt2)) = 1 / 4 := by
    rw [invSqrt2_sq, ← mul_assoc, invSqrt2_sq]; norm_num
  rw [h]

set_option maxHeartbeats 1000000 in
/-- the documented first-order formula on the normalised Pauli basis -/
theorem K1_pauli (Γ : Fin 4 → Fin 4 → ℂ) (i j : Fin 4) :
    K1 pauliBasis Γ i j
      = if i = 0 ∨ j = 0 then 0
        else if i = j then -∑ k, (if k = 0 ∨ k = i then 0 else Γ k k)
        else Γ j i := by
  rw [K1_eq_T4]
  fin_cases i <;> fin_cases j <;>
    simp [Fin.sum_univ_four, T4_pauli, pm, ph] <;> ring

set_option maxHeartbeats 1000000 in
/-- the documented second-order formula on the normalised Pauli basis -/
theorem K2_pauli (Δ : Fin 4 → Fin 4 → ℂ) (i j : Fin 4) :
    K2 pauliBasis Δ i j = if i = 0 ∨ j = 0 then 0 else -Δ i j + Δ j i := by
  rw [K2_eq_T4]
  fin_cases i <;> fin_cases j <;>
    simp [Fin.sum_univ_four, T4_pauli, pm, ph] <;> ring

/-- the normalised Pauli basis is Hermitian and orthonormal -/
theorem pauliBasis_orthoHerm : IsOrthoHerm pauliBasis where
  herm i := by
    unfold pauliBasis
    rw [Matrix.conjTranspose_smul, sigma_herm]
    congr 1
    exact invSqrt2_conj
  ortho i j := by
    unfold pauliBasis
    rw [Matrix.smul_mul, Matrix.mul_smul, smul_smul, trace_smul, invSqrt2_sq, sigma_mul,
      trace_smul, trace_sigma]
    fin_cases i <;> fin_cases j <;> simp [pm, ph]

end FFVerif.Spec

namespace FFVerif.Model
open FFVerif

theorem cumulantSingleQubit_none_getElem (Γ : Mat ℂ 4 4) (i j : Fin 4) :
    (cumulantSingleQubit Γ none)[i][j]
      = if i = 0 ∨ j = 0 then 0
        else if i = j then -∑ k : Fin 4, (if k = 0 ∨ k = i then 0 else Γ[k][k])
        else Γ[j][i] := by
  unfold cumulantSingleQubit
  simp only [Mat.ofFn_get]
  fin_cases i <;> fin_cases j <;>
    simp [diagIdx, diagDeque, dequeRotate, fsum_eq_sum, Fin.sum_univ_four]

theorem cumulantSingleQubit_some_getElem (Γ Δ : Mat ℂ 4 4) (i j : Fin 4) :
    (cumulantSingleQubit Γ (some Δ))[i][j]
      = (cumulantSingleQubit Γ none)[i][j]
        + (if i = 0 ∨ j = 0 then 0 else -Δ[i][j] + Δ[j][i]) := by
  unfold cumulantSingleQubit
  simp only [Mat.ofFn_get]
  fin_cases i <;> fin_cases j <;> simp <;> ring

end FFVerif.Model

/-! ### A non-traceless orthonormal Hermitian basis for `d = 2` -/

namespace FFVerif.Spec
open Matrix Complex

/-- a complete orthonormal Hermitian basis for `d = 2` that is not traceless:
`(diag(1,0), diag(0,1), σx/√2, σy/√2)` -/
noncomputable def unitBasis : Fin 4 → Matrix (Fin 2) (Fin 2) ℂ :=
  ![!![1, 0; 0, 0], !![0, 0; 0, 1], invSqrt2 • sigma 1, invSqrt2 • sigma 2]

theorem comm_smul_smul (s t : ℂ) (A B : Matrix (Fin 2) (Fin 2) ℂ) :
    comm (s • A) (t • B) = (s * t) • comm A B := by
  unfold comm
  simp only [Matrix.smul_mul, Matrix.mul_smul, smul_smul, smul_sub, mul_comm]

theorem comm_smul_left (s : ℂ) (A B : Matrix (Fin 2) (Fin 2) ℂ) :
    comm (s • A) B = s • comm A B := by
  unfold comm
  simp only [Matrix.smul_mul, Matrix.mul_smul, smul_sub]

theorem comm_smul_right (s : ℂ) (A B : Matrix (Fin 2) (Fin 2) ℂ) :
    comm A (s • B) = s • comm A B := by
  unfold comm
  simp only [Matrix.smul_mul, Matrix.mul_smul, smul_sub]

theorem K1_unitBasis_00 :
    K1 unitBasis (fun k l => if k = 2 ∧ l = 2 then 1 else 0) 0 0 = -(1 / 2) := by
  unfold K1
  simp [Fin.sum_univ_four, unitBasis, comm_smul_left, comm_smul_right, smul_smul, invSqrt2_sq]
  simp [comm, sigma, Matrix.trace, Fin.sum_univ_two]
  norm_num
  
end FFVerif.Spec

namespace FFVerif.Spec
open Matrix Complex

theorem unitBasis_orthoHerm : IsOrthoHerm unitBasis where
  herm i := by
    fin_cases i <;> ext a b <;> fin_cases a <;> fin_cases b <;>
      simp [unitBasis, sigma, invSqrt2_conj]
  ortho i j := by
    have h := invSqrt2_sq
    fin_cases i <;> fin_cases j <;>
      simp [unitBasis, sigma, Matrix.trace, Fin.sum_univ_two, ← mul_assoc, h,
        mul_comm _ invSqrt2] <;>
      (try simp only [mul_assoc, Complex.I_mul_I]) <;> norm_num

theorem unitBasis_complete : IsComplete unitBasis := by
  apply FFVerif.C15.complete_of_swap
  intro a b c e
  have h := invSqrt2_sq
  fin_cases a <;> fin_cases b <;> fin_cases c <;> fin_cases e <;>
    simp [unitBasis, sigma, Fin.sum_univ_four, ← mul_assoc, h, mul_comm _ invSqrt2] <;>
    (try simp only [mul_assoc, Complex.I_mul_I]) <;> norm_num

theorem pauliBasis_complete : IsComplete pauliBasis := by
  apply FFVerif.C15.complete_of_swap
  intro a b c e
  have h := invSqrt2_sq
  fin_cases a <;> fin_cases b <;> fin_cases c <;> fin_cases e <;>
    simp [pauliBasis, sigma, Fin.sum_univ_four, ← mul_assoc, h, mul_comm _ invSqrt2] <;>
    (try simp only [mul_assoc, Complex.I_mul_I]) <;> norm_num
end FFVerif.Spec
