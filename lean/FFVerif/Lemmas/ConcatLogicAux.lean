/-
Helper lemmas for `Props/C03d` (decision logic of `concatenate`, model `Model/ConcatLogic`):
the list helpers of the model (`compress`, `tobytesAll`, `allArrayEqual`, `firstTrue`) in
declarative form, the vocabulary of the property theorems (`sel`, `Agree`, `BadCache`, …) and the
complete case analysis of `chooseOmega`.
-/
import FFVerif.Model.ConcatLogic

namespace FFVerif.Model.ConcatLogic

/-- outcomes can be compared (for the `decide` examples) -/
instance : DecidableEq (Except Err Decision) := fun a b =>
  match a, b with
  | .ok x, .ok y => if h : x = y then isTrue (by rw [h]) else isFalse (fun h' => h (by cases h'; rfl))
  | .error x, .error y =>
    if h : x = y then isTrue (by rw [h]) else isFalse (fun h' => h (by cases h'; rfl))
  | .ok _, .error _ => isFalse (fun h' => by cases h')
  | .error _, .ok _ => isFalse (fun h' => by cases h')

/-! ### vocabulary -/

/-- the pulses whose cached frequencies `concatenate` compares when `omega` is not passed: the
ones with a cached control matrix if there is any, else the ones with cached frequencies -/
def sel (ps : List PulseState) : List PulseState :=
  if ps.any (·.cmCached) then ps.filter (·.cmCached) else ps.filter (·.omega.isSome)

/-- "the cached grids agree" in the sense of the code (`equal_omega`), on grid `g`: the compared
pulses (`sel`) are not none and all of them have grid `g` cached -/
def Agree (ps : List PulseState) (g : Nat) : Prop :=
  sel ps ≠ [] ∧ ∀ p ∈ sel ps, p.omega = some g

/-- some pulse has a control matrix cached but no frequencies (`pulse.omega = None` assigned
after `cache_control_matrix`; not producible by the caching methods and `cleanup`) -/
def BadCache (ps : List PulseState) : Prop :=
  ∃ p ∈ ps, p.cmCached = true ∧ p.omega = none

instance (ps : List PulseState) : Decidable (BadCache ps) := by unfold BadCache; infer_instance

/-- `calc_filter_function is False and not calc_pulse_correlation_FF` -/
def Disabled (o : Opts) : Prop := o.calcFF = some false ∧ o.calcPc = false

/-- `calc_filter_function is None and not calc_pulse_correlation_FF` -/
def Auto (o : Opts) : Prop := o.calcFF = none ∧ o.calcPc = false

/-- `calc_filter_function` is truthy or `calc_pulse_correlation_FF` -/
def Forced (o : Opts) : Prop := o.calcFF = some true ∨ o.calcPc = true

/-- the grid of a computation -/
def FFKind.grid? : FFKind → Option Nat
  | .none => Option.none
  | .fromScratch g => some g
  | .pcFromScratch g => some g
  | .fromAtomic g _ => some g

/-- a filter function is computed -/
def FFKind.Computed (k : FFKind) : Prop := k ≠ .none

/-- pulse correlation quantities are computed -/
def FFKind.PcComputed : FFKind → Prop
  | .pcFromScratch _ => True
  | .fromAtomic _ pc => pc = true
  | _ => False

/-! ### list helpers -/

theorem compress_map {α : Type} (f : α → Bool) (l : List α) :
    compress l (l.map f) = l.filter f := by
  induction l with
  | nil => rfl
  | cons x xs ih => by_cases h : f x <;> simp [compress, h, ih]

theorem tobytesAll_ok_of {l : List PulseState} (h : ∀ p ∈ l, p.omega ≠ none) :
    ∃ bs, tobytesAll l = .ok bs ∧ l.map (·.omega) = bs.map some := by
  induction l with
  | nil => exact ⟨[], rfl, rfl⟩
  | cons p ps ih =>
    obtain ⟨bs, h1, h2⟩ := ih (fun q hq => h q (List.mem_cons_of_mem _ hq))
    have hp := h p List.mem_cons_self
    cases hpo : p.omega with
    | none => exact absurd hpo hp
    | some g => exact ⟨g :: bs, by simp [tobytesAll, hpo, h1], by simp [hpo, h2]⟩

theorem tobytesAll_error_of {l : List PulseState} (h : ∃ p ∈ l, p.omega = none) :
    tobytesAll l = .error .attributeError := by
  induction l with
  | nil => simp at h
  | cons p ps ih =>
    cases hpo : p.omega with
    | none => simp [tobytesAll, hpo]
    | some g =>
      have : ∃ q ∈ ps, q.omega = none := by
        obtain ⟨q, hq, hqo⟩ := h
        rcases List.mem_cons.mp hq with rfl | hq
        · simp [hpo] at hqo
        · exact ⟨q, hq, hqo⟩
      simp [tobytesAll, hpo, ih this]

theorem eraseDups_eq_nil {l : List Nat} : l.eraseDups = [] ↔ l = [] := by
  cases l with
  | nil => simp
  | cons x xs => simp [List.eraseDups_cons]

/-- `len(set(...)) == 1`: not empty and all entries equal -/
theorem allArrayEqual_iff {l : List Nat} :
    allArrayEqual l = true ↔ ∃ g, g ∈ l ∧ ∀ x ∈ l, x = g := by
  cases l with
  | nil => simp [allArrayEqual]
  | cons a as =>
    simp only [allArrayEqual, List.eraseDups_cons, List.length_cons, beq_iff_eq,
      Nat.add_eq_right, List.length_eq_zero_iff, eraseDups_eq_nil, List.filter_eq_nil_iff]
    constructor
    · intro h
      refine ⟨a, List.mem_cons_self, fun x hx => ?_⟩
      rcases List.mem_cons.mp hx with rfl | hx
      · rfl
      · simpa using h x hx
    · rintro ⟨g, _, hg⟩ x hx
      have h1 := hg a List.mem_cons_self
      have h2 := hg x (List.mem_cons_of_mem _ hx)
      simp [h1, h2]

theorem allArrayEqual_of_map {l : List PulseState} {bs : List Nat}
    (h : l.map (·.omega) = bs.map some) :
    allArrayEqual bs = true ↔ ∃ g, l ≠ [] ∧ ∀ p ∈ l, p.omega = some g := by
  rw [allArrayEqual_iff]
  have hmem : ∀ x, x ∈ bs ↔ ∃ p ∈ l, p.omega = some x := by
    intro x
    have : some x ∈ bs.map some ↔ some x ∈ l.map (·.omega) := by rw [h]
    simpa [List.mem_map] using this
  constructor
  · rintro ⟨g, hg, hall⟩
    refine ⟨g, ?_, fun p hp => ?_⟩
    · obtain ⟨p, hp, _⟩ := (hmem g).mp hg
      exact List.ne_nil_of_mem hp
    · have : p.omega ∈ bs.map some := by rw [← h]; exact List.mem_map_of_mem hp
      obtain ⟨x, hx, hxe⟩ := List.mem_map.mp this
      rw [← hxe, hall x hx]
  · rintro ⟨g, hne, hall⟩
    obtain ⟨p, hp⟩ := List.exists_mem_of_ne_nil l hne
    refine ⟨g, (hmem g).mpr ⟨p, hp, hall p hp⟩, fun x hx => ?_⟩
    obtain ⟨q, hq, hqo⟩ := (hmem x).mp hx
    have := hall q hq
    rw [hqo] at this
    exact Option.some.inj this

theorem firstTrue_map_none {l : List PulseState} {f : PulseState → Bool} :
    firstTrue (l.map f) = none ↔ ∀ p ∈ l, f p = false := by
  induction l with
  | nil => simp [firstTrue]
  | cons x xs ih => by_cases h : f x <;> simp [firstTrue, h, ih]

theorem firstTrue_map_some {l : List PulseState} {f : PulseState → Bool} {i : Nat}
    (h : firstTrue (l.map f) = some i) : ∃ p, l[i]? = some p ∧ p ∈ l ∧ f p = true := by
  induction l generalizing i with
  | nil => simp [firstTrue] at h
  | cons x xs ih =>
    by_cases hx : f x
    · simp [firstTrue, hx] at h
      subst h
      exact ⟨x, by simp, List.mem_cons_self, hx⟩
    · simp [firstTrue, hx] at h
      obtain ⟨j, hj, rfl⟩ := h
      obtain ⟨p, hp1, hp2, hp3⟩ := ih hj
      exact ⟨p, by simpa using hp1, List.mem_cons_of_mem _ hp2, hp3⟩

/-! ### `sel` -/

theorem sel_sublist (ps : List PulseState) : ∀ p ∈ sel ps, p ∈ ps := by
  intro p hp
  unfold sel at hp
  split at hp <;> exact (List.mem_filter.mp hp).1

theorem sel_omega_ne_none {ps : List PulseState} (h : ¬ BadCache ps) :
    ∀ p ∈ sel ps, p.omega ≠ none := by
  intro p hp hpo
  unfold sel at hp
  split at hp
  · obtain ⟨h1, h2⟩ := List.mem_filter.mp hp
    exact h ⟨p, h1, h2, hpo⟩
  · obtain ⟨_, h2⟩ := List.mem_filter.mp hp
    simp [hpo] at h2

theorem badCache_any {ps : List PulseState} (h : BadCache ps) : ps.any (·.cmCached) = true := by
  obtain ⟨p, hp, hc, _⟩ := h
  exact List.any_eq_true.mpr ⟨p, hp, hc⟩

theorem any_map_id {α : Type} (f : α → Bool) (l : List α) : (l.map f).any id = l.any f := by
  induction l with
  | nil => rfl
  | cons x xs ih => simp [ih]

/-- `chooseOmega` without `omega=`, with the masks and `compress` of the source replaced by
`sel` / `List.any` -/
theorem chooseOmega_none_eq {ps : List PulseState} {o : Opts} (hg : o.omegaGiven = none) :
    chooseOmega ps o =
      match tobytesAll (sel ps) with
      | .error e => .error e
      | .ok bs =>
        if !allArrayEqual bs then
          (if o.calcFF == some true then .error .valueError
           else if o.calcPc then .error .valueError else .ok none)
        else if o.calcFF == none && !o.calcPc &&
            (!o.equalNOpers || !ps.any (fun p => p.cmCached)) then .ok none
        else
          match firstTrue (if ps.any (fun p => p.cmCached) then ps.map (fun p => p.cmCached)
              else ps.map (fun p => p.omega.isSome)) with
          | none => .error .indexError
          | some ind =>
            match ps[ind]? with
            | none => .error .indexError
            | some p =>
              match p.omega with
              | some g => .ok (some g)
              | none => .error .typeError := by
  unfold chooseOmega sel
  simp only [hg, any_map_id, compress_map]
  rfl

theorem agree_unique {ps : List PulseState} {g g' : Nat} (h : Agree ps g) (h' : Agree ps g') :
    g = g' := by
  obtain ⟨p, hp⟩ := List.exists_mem_of_ne_nil _ h.1
  have h1 := h.2 p hp
  have h2 := h'.2 p hp
  rw [h1] at h2
  exact Option.some.inj h2

/-! ### `chooseOmega`: complete case analysis -/

theorem chooseOmega_given {ps : List PulseState} {o : Opts} {g : Nat}
    (hg : o.omegaGiven = some g) : chooseOmega ps o = .ok (some g) := by
  simp [chooseOmega, hg]

instance (o : Opts) : Decidable (Disabled o) := by unfold Disabled; infer_instance
instance (o : Opts) : Decidable (Auto o) := by unfold Auto; infer_instance
instance (o : Opts) : Decidable (Forced o) := by unfold Forced; infer_instance

/-- a control matrix without frequencies: `None.tobytes()` -/
theorem chooseOmega_badCache {ps : List PulseState} {o : Opts}
    (hg : o.omegaGiven = none) (hb : BadCache ps) :
    chooseOmega ps o = .error .attributeError := by
  have hany := badCache_any hb
  have : tobytesAll (sel ps) = .error .attributeError := by
    apply tobytesAll_error_of
    obtain ⟨p, hp, hc, ho⟩ := hb
    refine ⟨p, ?_, ho⟩
    unfold sel
    rw [if_pos hany]
    exact List.mem_filter.mpr ⟨hp, hc⟩
  rw [chooseOmega_none_eq hg, this]

/-- the compared grids do not agree: error if a calculation was requested, else nothing -/
theorem chooseOmega_disagree {ps : List PulseState} {o : Opts}
    (hg : o.omegaGiven = none) (hb : ¬ BadCache ps) (hd : ∀ g, ¬ Agree ps g) :
    chooseOmega ps o =
      if Forced o then (.error .valueError : Except Err (Option Nat)) else .ok none := by
  obtain ⟨bs, hbs, hmap⟩ := tobytesAll_ok_of (sel_omega_ne_none hb)
  have heq : allArrayEqual bs = false := by
    rw [Bool.eq_false_iff]
    intro h
    obtain ⟨g, h1, h2⟩ := (allArrayEqual_of_map hmap).mp h
    exact hd g ⟨h1, h2⟩
  rw [chooseOmega_none_eq hg, hbs]
  simp only [heq, Forced]
  obtain ⟨pc, cf, og, en, bc⟩ := o
  cases cf with
  | none => cases pc <;> simp
  | some b => cases b <;> cases pc <;> simp

/-- the compared grids agree on `g`: computed on `g`, except in automatic mode without a shared
noise operator or without any cached control matrix -/
theorem chooseOmega_agree {ps : List PulseState} {o : Opts} {g : Nat}
    (hg : o.omegaGiven = none) (hb : ¬ BadCache ps) (ha : Agree ps g) :
    chooseOmega ps o =
      if Auto o ∧ (o.equalNOpers = false ∨ ps.any (fun p => p.cmCached) = false) then
        (.ok none : Except Err (Option Nat))
      else .ok (some g) := by
  obtain ⟨bs, hbs, hmap⟩ := tobytesAll_ok_of (sel_omega_ne_none hb)
  have heq : allArrayEqual bs = true := (allArrayEqual_of_map hmap).mpr ⟨g, ha.1, ha.2⟩
  -- the index stolen from
  have hidx : ∃ i p, firstTrue (if ps.any (fun p => p.cmCached) then ps.map (fun p => p.cmCached)
        else ps.map (fun p => p.omega.isSome)) = some i ∧ ps[i]? = some p ∧ p.omega = some g := by
    obtain ⟨q, hq⟩ := List.exists_mem_of_ne_nil _ ha.1
    by_cases hc : ps.any (fun p => p.cmCached) = true
    · rw [if_pos hc]
      have hsel : sel ps = ps.filter (fun p => p.cmCached) := by unfold sel; rw [if_pos hc]
      cases hft : firstTrue (ps.map (fun p => p.cmCached)) with
      | none =>
        rw [firstTrue_map_none] at hft
        rw [hsel] at hq
        obtain ⟨h1, h2⟩ := List.mem_filter.mp hq
        rw [hft q h1] at h2
        exact absurd h2 (by decide)
      | some i =>
        obtain ⟨p, hp1, hp2, hp3⟩ := firstTrue_map_some hft
        refine ⟨i, p, rfl, hp1, ha.2 p ?_⟩
        rw [hsel]
        exact List.mem_filter.mpr ⟨hp2, hp3⟩
    · rw [if_neg hc]
      have hsel : sel ps = ps.filter (fun p => p.omega.isSome) := by unfold sel; rw [if_neg hc]
      cases hft : firstTrue (ps.map (fun p => p.omega.isSome)) with
      | none =>
        rw [firstTrue_map_none] at hft
        rw [hsel] at hq
        obtain ⟨h1, h2⟩ := List.mem_filter.mp hq
        rw [hft q h1] at h2
        exact absurd h2 (by decide)
      | some i =>
        obtain ⟨p, hp1, hp2, hp3⟩ := firstTrue_map_some hft
        refine ⟨i, p, rfl, hp1, ha.2 p ?_⟩
        rw [hsel]
        exact List.mem_filter.mpr ⟨hp2, hp3⟩
  obtain ⟨i, p, h1, h2, h3⟩ := hidx
  rw [chooseOmega_none_eq hg, hbs]
  simp only [heq, h1, h2, h3, Auto]
  obtain ⟨pc, cf, og, en, bc⟩ := o
  cases cf with
  | none => cases pc <;> cases en <;> cases ps.any (fun p => p.cmCached) <;> simp
  | some b => cases b <;> simp

/-! ### `compute` and `concatLogic` -/

/-- `all(pls.is_cached('total_propagator') for pls in pulses)` -/
def allTp (ps : List PulseState) : Bool := ps.all (fun p => p.tpCached)

/-- `result.is_cached('total_propagator')` after the call: set by `concatenate` (`tpSet`) or, when
a filter function was computed from scratch, by `diagonalize()` of the result as a side effect
(observed by the cross-check script; not a statement of `concatenate`). -/
def Decision.tpAfter (d : Decision) : Bool := d.tpSet || d.ff != .none

theorem compute_eq (a : Bool) (o : Opts) (g : Nat) :
    compute a o g =
      if (o.equalNOpers = false ∨ o.basisComplete = false) ∧ o.calcPc = false then
        ⟨a, .fromScratch g⟩
      else if o.basisComplete = false then ⟨a, .pcFromScratch g⟩
      else ⟨true, .fromAtomic g o.calcPc⟩ := by
  obtain ⟨pc, cf, og, en, bc⟩ := o
  cases pc <;> cases en <;> cases bc <;> simp [compute]

/-- the single-pulse shortcut is taken: one pulse, nothing forced, no correlations -/
def Copied (ps : List PulseState) (o : Opts) : Prop := ps.length = 1 ∧ ¬ Forced o

instance (ps : List PulseState) (o : Opts) : Decidable (Copied ps o) := by
  unfold Copied; infer_instance

/-- the general path is taken: at least one pulse and not the shortcut -/
def General (ps : List PulseState) (o : Opts) : Prop := ps ≠ [] ∧ ¬ Copied ps o

theorem concatGeneral_eq {ps : List PulseState} {o : Opts} (h : ps ≠ []) :
    concatGeneral ps o =
      if Disabled o then .ok ⟨allTp ps, .none⟩
      else
        match chooseOmega ps o with
        | .error e => .error e
        | .ok none => .ok ⟨allTp ps, .none⟩
        | .ok (some g) => .ok (compute (allTp ps) o g) := by
  match ps, h with
  | a :: t, _ =>
    obtain ⟨pc, cf, og, en, bc⟩ := o
    cases cf with
    | none => simp [concatGeneral, Disabled, allTp]; rfl
    | some v => cases v <;> cases pc <;> simp [concatGeneral, Disabled, allTp] <;> rfl

theorem allTp_single (p : PulseState) : allTp [p] = p.tpCached := by simp [allTp]

/-- `concatenate`: the shortcut or the general path -/
theorem concatLogic_eq (ps : List PulseState) (o : Opts) :
    concatLogic ps o =
      if Copied ps o then .ok ⟨allTp ps, .none⟩ else concatGeneral ps o := by
  match ps with
  | [] => simp [concatLogic, Copied]
  | [p] =>
    obtain ⟨pc, cf, og, en, bc⟩ := o
    cases cf with
    | none => cases pc <;> simp [concatLogic, Copied, Forced, allTp_single]
    | some v => cases v <;> cases pc <;> simp [concatLogic, Copied, Forced, allTp_single]
  | a :: b :: t => simp [concatLogic, Copied]

/-- The nine ways through `concatenate` (mutually exclusive, exhaustive). -/
inductive Branch (ps : List PulseState) (o : Opts) : Except Err Decision → Prop
  /-- empty tuple: `concatenate_without_filter_function` raises -/
  | empty : ps = [] → Branch ps o (.error .valueError)
  /-- one pulse, nothing forced: deep copy -/
  | copied : Copied ps o → Branch ps o (.ok ⟨allTp ps, .none⟩)
  /-- `calc_filter_function=False`, no correlations: nothing computed -/
  | disabled : General ps o → Disabled o → Branch ps o (.ok ⟨allTp ps, .none⟩)
  /-- `omega=` passed -/
  | given (g : Nat) : General ps o → ¬ Disabled o → o.omegaGiven = some g →
      Branch ps o (.ok (compute (allTp ps) o g))
  /-- control matrix cached without frequencies -/
  | bad : General ps o → ¬ Disabled o → o.omegaGiven = none → BadCache ps →
      Branch ps o (.error .attributeError)
  /-- cached grids do not agree, calculation requested -/
  | disagreeForced : General ps o → ¬ Disabled o → o.omegaGiven = none → ¬ BadCache ps →
      (∀ g, ¬ Agree ps g) → Forced o → Branch ps o (.error .valueError)
  /-- cached grids do not agree, automatic mode -/
  | disagreeAuto : General ps o → ¬ Disabled o → o.omegaGiven = none → ¬ BadCache ps →
      (∀ g, ¬ Agree ps g) → ¬ Forced o → Branch ps o (.ok ⟨allTp ps, .none⟩)
  /-- automatic mode, grids agree, but nothing to gain -/
  | autoSkip (g : Nat) : General ps o → ¬ Disabled o → o.omegaGiven = none → ¬ BadCache ps →
      Agree ps g → Auto o → (o.equalNOpers = false ∨ ps.any (fun p => p.cmCached) = false) →
      Branch ps o (.ok ⟨allTp ps, .none⟩)
  /-- grids agree on `g`, computed on `g` -/
  | agree (g : Nat) : General ps o → ¬ Disabled o → o.omegaGiven = none → ¬ BadCache ps →
      Agree ps g →
      ¬ (Auto o ∧ (o.equalNOpers = false ∨ ps.any (fun p => p.cmCached) = false)) →
      Branch ps o (.ok (compute (allTp ps) o g))

theorem concatLogic_branch (ps : List PulseState) (o : Opts) :
    Branch ps o (concatLogic ps o) := by
  rw [concatLogic_eq]
  by_cases hcp : Copied ps o
  · rw [if_pos hcp]; exact .copied hcp
  rw [if_neg hcp]
  by_cases hne : ps = []
  · subst hne; exact .empty rfl
  have hG : General ps o := ⟨hne, hcp⟩
  rw [concatGeneral_eq hne]
  by_cases hd : Disabled o
  · rw [if_pos hd]; exact .disabled hG hd
  rw [if_neg hd]
  cases hg : o.omegaGiven with
  | some g => rw [chooseOmega_given hg]; exact .given g hG hd hg
  | none =>
    by_cases hb : BadCache ps
    · rw [chooseOmega_badCache hg hb]; exact .bad hG hd hg hb
    by_cases ha : ∃ g, Agree ps g
    · obtain ⟨g, ha⟩ := ha
      rw [chooseOmega_agree hg hb ha]
      by_cases hc : Auto o ∧ (o.equalNOpers = false ∨ ps.any (fun p => p.cmCached) = false)
      · rw [if_pos hc]; exact .autoSkip g hG hd hg hb ha hc.1 hc.2
      · rw [if_neg hc]; exact .agree g hG hd hg hb ha hc
    · have ha' : ∀ g, ¬ Agree ps g := fun g hg' => ha ⟨g, hg'⟩
      rw [chooseOmega_disagree hg hb ha']
      by_cases hf : Forced o
      · rw [if_pos hf]; exact .disagreeForced hG hd hg hb ha' hf
      · rw [if_neg hf]; exact .disagreeAuto hG hd hg hb ha' hf

/-- a forced call never takes the shortcut -/
theorem forced_not_copied {ps : List PulseState} {o : Opts} (h : Forced o) : ¬ Copied ps o :=
  fun hc => hc.2 h

/-- at least two pulses never take the shortcut -/
theorem two_not_copied {ps : List PulseState} {o : Opts} (h : 2 ≤ ps.length) : ¬ Copied ps o :=
  fun hc => by have := hc.1; omega

theorem forced_not_disabled {o : Opts} (h : Forced o) : ¬ Disabled o := by
  rintro ⟨h1, h2⟩
  rcases h with h | h
  · rw [h1] at h; exact absurd h (by decide)
  · rw [h2] at h; exact absurd h (by decide)

theorem auto_not_disabled {o : Opts} (h : Auto o) : ¬ Disabled o := by
  rintro ⟨h1, _⟩
  rw [h.1] at h1; exact absurd h1 (by decide)

theorem auto_not_forced {o : Opts} (h : Auto o) : ¬ Forced o := by
  rintro (h1 | h1)
  · rw [h.1] at h1; exact absurd h1 (by decide)
  · rw [h.2] at h1; exact absurd h1 (by decide)

/-- `Agree` spelled out over the input list -/
theorem agree_iff {ps : List PulseState} {g : Nat} :
    Agree ps g ↔
      ((∃ p ∈ ps, p.cmCached = true) ∧ ∀ p ∈ ps, p.cmCached = true → p.omega = some g) ∨
      ((∀ p ∈ ps, p.cmCached = false) ∧ (∃ p ∈ ps, p.omega.isSome = true) ∧
        ∀ p ∈ ps, p.omega.isSome = true → p.omega = some g) := by
  unfold Agree sel
  by_cases hc : ps.any (fun p => p.cmCached) = true
  · rw [if_pos hc]
    have hex : ∃ p ∈ ps, p.cmCached = true := by simpa using hc
    constructor
    · rintro ⟨_, h2⟩
      exact .inl ⟨hex, fun p hp hpc => h2 p (List.mem_filter.mpr ⟨hp, hpc⟩)⟩
    · rintro (⟨_, h2⟩ | ⟨h1, _⟩)
      · obtain ⟨p, hp, hpc⟩ := hex
        exact ⟨List.ne_nil_of_mem (List.mem_filter.mpr ⟨hp, hpc⟩),
          fun q hq => h2 q (List.mem_filter.mp hq).1 (List.mem_filter.mp hq).2⟩
      · obtain ⟨p, hp, hpc⟩ := hex
        rw [h1 p hp] at hpc; exact absurd hpc (by decide)
  · rw [if_neg hc]
    have hall : ∀ p ∈ ps, p.cmCached = false := by simpa using hc
    constructor
    · rintro ⟨h1, h2⟩
      obtain ⟨p, hp⟩ := List.exists_mem_of_ne_nil _ h1
      exact .inr ⟨hall, ⟨p, (List.mem_filter.mp hp).1, (List.mem_filter.mp hp).2⟩,
        fun q hq hqo => h2 q (List.mem_filter.mpr ⟨hq, hqo⟩)⟩
    · rintro (⟨⟨p, hp, hpc⟩, _⟩ | ⟨_, ⟨p, hp, hpo⟩, h3⟩)
      · rw [hall p hp] at hpc; exact absurd hpc (by decide)
      · exact ⟨List.ne_nil_of_mem (List.mem_filter.mpr ⟨hp, hpo⟩),
          fun q hq => h3 q (List.mem_filter.mp hq).1 (List.mem_filter.mp hq).2⟩

/-- agreement on a grid excludes a control matrix without frequencies when a control matrix is
cached -/
theorem agree_cm_not_bad {ps : List PulseState} {g : Nat} (ha : Agree ps g) : ¬ BadCache ps := by
  rintro ⟨p, hp, hpc, hpo⟩
  rcases agree_iff.mp ha with ⟨_, h2⟩ | ⟨h1, _⟩
  · rw [h2 p hp hpc] at hpo; exact absurd hpo (by simp)
  · rw [h1 p hp] at hpc; exact absurd hpc (by decide)

/-! ### small inputs, and facts about `compute` -/

theorem concatLogic_nil (o : Opts) : concatLogic [] o = .error .valueError := rfl

theorem compute_grid (a : Bool) (o : Opts) (g : Nat) : (compute a o g).ff.grid? = some g := by
  obtain ⟨pc, cf, og, en, bc⟩ := o
  cases pc <;> cases en <;> cases bc <;> simp [compute, FFKind.grid?]

theorem compute_computed (a : Bool) (o : Opts) (g : Nat) : (compute a o g).ff.Computed := by
  obtain ⟨pc, cf, og, en, bc⟩ := o
  cases pc <;> cases en <;> cases bc <;> simp [compute, FFKind.Computed]

theorem compute_pc (a : Bool) {o : Opts} (g : Nat) (h : o.calcPc = true) :
    (compute a o g).ff.PcComputed := by
  obtain ⟨pc, cf, og, en, bc⟩ := o
  simp only at h; subst h
  cases en <;> cases bc <;> simp [compute, FFKind.PcComputed]

theorem compute_tpSet (a : Bool) (o : Opts) (g : Nat) :
    (compute a o g).tpSet = true ↔ a = true ∨ ∃ g' pc, (compute a o g).ff = .fromAtomic g' pc := by
  obtain ⟨pc, cf, og, en, bc⟩ := o
  cases pc <;> cases en <;> cases bc <;> simp [compute]

/-- which of the three calculations `compute` performs -/
theorem compute_kind (a : Bool) (o : Opts) (g : Nat) :
    ((compute a o g).ff = .fromAtomic g o.calcPc ↔
        o.basisComplete = true ∧ (o.equalNOpers = true ∨ o.calcPc = true)) ∧
    ((compute a o g).ff = .pcFromScratch g ↔ o.basisComplete = false ∧ o.calcPc = true) ∧
    ((compute a o g).ff = .fromScratch g ↔
        o.calcPc = false ∧ (o.equalNOpers = false ∨ o.basisComplete = false)) ∧
    ((compute a o g).ff = .fromAtomic g o.calcPc ∨ (compute a o g).ff = .pcFromScratch g ∨
        (compute a o g).ff = .fromScratch g) := by
  obtain ⟨pc, cf, og, en, bc⟩ := o
  cases pc <;> cases en <;> cases bc <;> simp [compute]

end FFVerif.Model.ConcatLogic
