/-
Helper lemmas for `FFVerif.Props.C04Tile` (propagators, times and Hamiltonians of appended and tiled
pulses): index arithmetic for `np.tile`, access lemmas for `tileVec` / `tileCoeffs` /
`appendCoeffs`, correctness of the model of `numpy.linalg.matrix_power` and of `util.mdot`, and the
two "block" lemmas (a run of segments of a long pulse that repeats the segments of a short pulse).
-/
import FFVerif.Lemmas.PropagatorInvAux
import FFVerif.Model.Tile
import FFVerif.Props.C04
import FFVerif.Props.C15

namespace FFVerif.TileAux
open FFVerif FFVerif.Model FFVerif.C02 FFVerif.PropInvAux Matrix Complex

/-! ### index arithmetic -/

theorem tile_idx_lt {G n k j : Nat} (hk : k < G) (hj : j < n) : k * n + j < G * n :=
  calc k * n + j < k * n + n := by omega
    _ = (k + 1) * n := by rw [Nat.add_mul, Nat.one_mul]
    _ ≤ G * n := Nat.mul_le_mul_right n hk

theorem tile_idx_le {G n k j : Nat} (hk : k < G) (hj : j ≤ n) : k * n + j ≤ G * n :=
  calc k * n + j ≤ k * n + n := by omega
    _ = (k + 1) * n := by rw [Nat.add_mul, Nat.one_mul]
    _ ≤ G * n := Nat.mul_le_mul_right n hk

theorem tile_mul_le {G n k : Nat} (hk : k ≤ G) : k * n ≤ G * n := Nat.mul_le_mul_right n hk

/-! ### `np.tile`, `np.concatenate` of coefficient rows -/

section tile
variable {α : Type}

theorem tileVec_getElem {n : Nat} (G : Nat) (v : Vector α n) (r : Nat) (hr : r < G * n) :
    (tileVec G v)[r] = v[r % n]'(Nat.mod_lt _ (Nat.pos_of_ne_zero fun h => by simp [h] at hr)) := by
  simp only [tileVec, Vector.getElem_ofFn]
  rfl

/-- entry `k·n + j` of `np.tile(v, G)` is `v[j]` -/
theorem tileVec_getElem_block {n : Nat} (G : Nat) (v : Vector α n) (k j : Nat) (hj : j < n)
    (h : k * n + j < G * n) : (tileVec G v)[k * n + j] = v[j] := by
  rw [tileVec_getElem]
  exact vec_get_congr v _ _ _ hj (by rw [Nat.add_comm, Nat.add_mul_mod_self_right, Nat.mod_eq_of_lt hj])

theorem tileCoeffs_getElem_block {nC n : Nat} (G : Nat) (c : Mat α nC n) (i : Nat) (hi : i < nC)
    (k j : Nat) (hj : j < n) (h : k * n + j < G * n) :
    (tileCoeffs G c)[i][k * n + j] = c[i][j] := by
  simp only [tileCoeffs, Vector.getElem_map]
  exact tileVec_getElem_block G c[i] k j hj h

theorem appendCoeffs_getElem_left {nC n1 n2 : Nat} (c1 : Mat α nC n1) (c2 : Mat α nC n2)
    (i : Nat) (hi : i < nC) (g : Nat) (hg : g < n1) :
    (appendCoeffs c1 c2)[i][g] = c1[i][g] := by
  simp only [appendCoeffs, Vector.getElem_ofFn]
  exact Vector.getElem_append_left hg

theorem appendCoeffs_getElem_right {nC n1 n2 : Nat} (c1 : Mat α nC n1) (c2 : Mat α nC n2)
    (i : Nat) (hi : i < nC) (g : Nat) (hg : g < n2) :
    (appendCoeffs c1 c2)[i][n1 + g] = c2[i][g] := by
  simp only [appendCoeffs, Vector.getElem_ofFn]
  rw [Vector.getElem_append_right (by omega) (by omega)]
  simp

end tile

/-! ### `numpy.linalg.matrix_power`, `util.mdot` -/

section power
variable {d : Nat}

/-- value of the accumulator `result` of `matrix_power` (`None` = nothing multiplied in yet) -/
noncomputable def optM (r : Option (Mat ℂ d d)) : Matrix (Fin d) (Fin d) ℂ :=
  match r with
  | none => 1
  | some M => M.toMatrix

theorem matrixPowerLoop_spec : ∀ (fuel : Nat) (z : Mat ℂ d d) (n : Nat) (result : Option (Mat ℂ d d)),
    0 < n → n ≤ fuel →
    ∃ M, matrixPowerLoop fuel z n result = some M ∧ M.toMatrix = optM result * z.toMatrix ^ n
  | 0, _, n, _, hn, hf => by omega
  | fuel + 1, z, n, result, hn, hf => by
    have hdm := Nat.div_add_mod n 2
    -- the accumulator after the `if bit:` statement
    have hacc : (accMul result z).toMatrix = optM result * z.toMatrix := by
      cases result with
      | none => simp [optM, accMul]
      | some r => simp [optM, accMul, Mat.toMatrix_mul]
    have hres : optM (if n % 2 = 1 then some (accMul result z) else result)
          = optM result * z.toMatrix ^ (n % 2) := by
      by_cases h : n % 2 = 1
      · rw [if_pos h, h, pow_one]
        exact hacc
      · have : n % 2 = 0 := by omega
        rw [if_neg h, this, pow_zero, Matrix.mul_one]
    unfold matrixPowerLoop
    by_cases h2 : n / 2 = 0
    · simp only [h2, if_true]
      have hn1 : n = 1 := by omega
      subst hn1
      exact ⟨accMul result z, by simp, by rw [hacc, pow_one]⟩
    · simp only [h2, if_false]
      obtain ⟨M, hM, hMm⟩ := matrixPowerLoop_spec fuel (Mat.mul z z) (n / 2) _
        (Nat.pos_of_ne_zero h2) (by omega)
      refine ⟨M, hM, ?_⟩
      rw [hMm, hres, Mat.toMatrix_mul, ← pow_two, ← pow_mul, Matrix.mul_assoc,
        ← pow_add]
      congr 2
      omega

/-- **the model of `numpy.linalg.matrix_power` computes the matrix power** (every size, every
exponent `n ≥ 0`, every matrix) -/
theorem matrixPower_toMatrix (a : Mat ℂ d d) (n : Nat) :
    (matrixPower a n).toMatrix = a.toMatrix ^ n := by
  unfold matrixPower
  by_cases h0 : n = 0
  · simp [h0, Mat.toMatrix_one]
  by_cases h1 : n = 1
  · simp [h1]
  by_cases h2 : n = 2
  · simp [h2, Mat.toMatrix_mul, pow_two]
  by_cases h3 : n = 3
  · subst h3
    simp [Mat.toMatrix_mul, pow_succ]
  simp only [h0, h1, h2, h3, if_false]
  obtain ⟨M, hM, hMm⟩ := matrixPowerLoop_spec n a n none (by omega) (Nat.le_refl _)
  rw [hM, Option.getD_some, hMm]
  simp [optM]

/-- the sequential power `Mat.pow` (`FFVerif.Model.Periodic`) is the same matrix -/
theorem matrixPower_eq_pow (a : Mat ℂ d d) (n : Nat) : matrixPower a n = Mat.pow a n := by
  apply Mat.ext'
  rw [matrixPower_toMatrix, C04.toMatrix_pow]

theorem foldl_mul_toMatrix (xs : List (Mat ℂ d d)) (x : Mat ℂ d d) :
    (xs.foldl Mat.mul x).toMatrix = x.toMatrix * (xs.map Mat.toMatrix).prod := by
  induction xs generalizing x with
  | nil => simp
  | cons y ys ih => rw [List.foldl_cons, ih, Mat.toMatrix_mul, List.map_cons, List.prod_cons,
      Matrix.mul_assoc]

/-- `util.mdot` = `functools.reduce(np.matmul, ·)` is the ordered product, for a non-empty list -/
theorem mdot_toMatrix (xs : List (Mat ℂ d d)) (h : xs ≠ []) :
    ∃ M, mdot xs = some M ∧ M.toMatrix = (xs.map Mat.toMatrix).prod := by
  cases xs with
  | nil => exact absurd rfl h
  | cons x xs =>
    refine ⟨_, rfl, ?_⟩
    rw [foldl_mul_toMatrix, List.map_cons, List.prod_cons]

theorem mdot_eq_none (xs : List (Mat ℂ d d)) : mdot xs = none ↔ xs = [] := by
  cases xs <;> simp [mdot]

end power

/-- Python's `sum(…)` of the durations -/
theorem concatTau_eq_sum (taus : List ℝ) : concatTau taus = taus.sum := by
  unfold concatTau
  have : ∀ (l : List ℝ) (a : ℝ), l.foldl (· + ·) a = a + l.sum := by
    intro l
    induction l with
    | nil => intro a; simp
    | cons x xs ih => intro a; rw [List.foldl_cons, ih, List.sum_cons, add_assoc]
  rw [this, zero_add]

/-! ### a block of a long pulse that repeats a short pulse -/

section block

/-- **times over a block**: if the durations `p, …, p + n - 1` of a long pulse are the durations of
a short pulse, the times of the long pulse over the block are those of the short pulse shifted by
the time at which the block starts. -/
theorem times_block {N n : Nat} (dtc : Vec ℝ N) (dt : Vec ℝ n) (p : Nat) (hp : p + n ≤ N)
    (h : ∀ (j : Nat) (hj : j < n), dtc[p + j] = dt[j]) (j : Nat) (hj : j ≤ n) :
    (times dtc)[p + j] = (times dtc)[p] + (times dt)[j] := by
  induction j with
  | zero =>
    show (times dtc)[p] = (times dtc)[p] + (times dt)[0]
    rw [times_zero, add_zero]
  | succ j ih =>
    show (times dtc)[p + j + 1] = _
    rw [times_succ dtc (p + j) (by omega), ih (Nat.le_of_succ_le hj), times_succ dt j hj, h j hj,
      add_assoc]

variable {N n d : Nat}
  (evc : Mat ℝ N d) (Vc : Vector (Mat ℂ d d) N) (dtc : Vec ℝ N)
  (ev : Mat ℝ n d) (V : Vector (Mat ℂ d d) n) (dt : Vec ℝ n)

/-- **propagators over a block**: if the factors `p, …, p + n - 1` of a long pulse are the factors
of a short pulse, the cumulative propagators of the long pulse over the block are those of the
short pulse multiplied from the right by the propagator at which the block starts. -/
theorem propagators_block (p : Nat) (hp : p + n ≤ N)
    (hstep : ∀ (j : Nat) (hj : j < n),
      stepMat evc Vc dtc (p + j) (by omega) = stepMat ev V dt j hj)
    (j : Nat) (hj : j ≤ n) :
    (propagators evc Vc dtc)[p + j].toMatrix
      = (propagators ev V dt)[j].toMatrix * (propagators evc Vc dtc)[p].toMatrix := by
  induction j with
  | zero =>
    show (propagators evc Vc dtc)[p].toMatrix = (propagators ev V dt)[0].toMatrix * _
    rw [propagators_zero, Matrix.one_mul]
  | succ j ih =>
    show (propagators evc Vc dtc)[p + j + 1].toMatrix = _
    rw [propagators_step evc Vc dtc (p + j) (by omega), hstep j hj, ih (Nat.le_of_succ_le hj),
      propagators_step ev V dt j hj, Matrix.mul_assoc]

/-- the hypothesis of `propagators_block` from the `eigh` contracts of the two pulses: same
Hamiltonian and duration on corresponding segments (the eigen-data may differ) -/
theorem stepMat_eq_of_eigh (Hc : Matrix (Fin d) (Fin d) ℂ) (g : Nat) (hg : g < N) (j : Nat)
    (hj : j < n) (hEc : IsEigh Hc (fun m => evc[g][m]) Vc[g].toMatrix)
    (hE : IsEigh Hc (fun m => ev[j][m]) V[j].toMatrix) (hdt : dtc[g] = dt[j]) :
    stepMat evc Vc dtc g hg = stepMat ev V dt j hj := by
  rw [stepMat_eq_expSeg _ _ _ Hc g hg hEc, stepMat_eq_expSeg _ _ _ Hc j hj hE, hdt]

end block

/-! ### appended vectors -/

theorem getElem_append_right' {α : Type} {n m : Nat} (xs : Vector α n) (ys : Vector α m) (j : Nat)
    (hj : j < m) : (xs ++ ys)[n + j] = ys[j] := by
  rw [Vector.getElem_append_right (by omega) (by omega)]
  simp


/-! ### ordered product of the total propagators of a family of pulses -/

section nary
variable {P d : Nat} (n : Fin P → Nat)
  (ev : (p : Fin P) → Mat ℝ (n p) d) (V : (p : Fin P) → Vector (Mat ℂ d d) (n p))
  (dt : (p : Fin P) → Vec ℝ (n p))

/-- `Q^{(p-1)}_tot ⋯ Q^{(1)}_tot Q^{(0)}_tot`: the ordered product (later pulses to the left) of the
total propagators of the first `p` pulses, each computed by the model of `diagonalize` from the
pulse's own `eigh` output -/
noncomputable def prodTotal (p : Nat) (hp : p ≤ P) : Matrix (Fin d) (Fin d) ℂ :=
  (List.ofFn fun q : Fin p =>
    (totalPropagator (ev ⟨q.1, Nat.lt_of_lt_of_le q.2 hp⟩) (V ⟨q.1, Nat.lt_of_lt_of_le q.2 hp⟩)
      (dt ⟨q.1, Nat.lt_of_lt_of_le q.2 hp⟩)).toMatrix).reverse.prod

theorem prodTotal_zero : prodTotal n ev V dt 0 (Nat.zero_le _) = 1 := by
  simp [prodTotal]

theorem prodTotal_succ (p : Nat) (hp : p < P) :
    prodTotal n ev V dt (p + 1) hp
      = (totalPropagator (ev ⟨p, hp⟩) (V ⟨p, hp⟩) (dt ⟨p, hp⟩)).toMatrix
        * prodTotal n ev V dt p (Nat.le_of_lt hp) := by
  unfold prodTotal
  rw [List.ofFn_succ', List.concat_eq_append, List.reverse_append, List.reverse_singleton,
    List.singleton_append, List.prod_cons]
  rfl

/-- offsets given by the recurrence `off (p+1) = off p + n_p` are monotone -/
theorem off_mono (off : Nat → Nat) (hoffS : ∀ p : Fin P, off (p.1 + 1) = off p.1 + n p)
    (p q : Nat) (hpq : p ≤ q) (hq : q ≤ P) : off p ≤ off q := by
  induction q, hpq using Nat.le_induction with
  | base => exact Nat.le_refl _
  | succ q hpq ih =>
    have := hoffS ⟨q, hq⟩
    have := ih (Nat.le_of_succ_le hq)
    simp only at *
    omega

end nary

/-! ### Liouville representation of a power -/

section liouville
variable {N d : Nat}

/-- the model of `liouville_representation` as a Mathlib matrix: `L(U)_{ij} = tr(C_i U C_j U†)` -/
theorem liouville_toMatrix (U : Mat ℂ d d) (C : Vector (Mat ℂ d d) N) :
    (liouville U C false).toMatrix = Spec.liou (Spec.basisOf C) U.toMatrix := by
  ext i j
  exact C15.liouville_entries U C i j

/-- `L(U^G) = L(U)^G` for a complete family and `G ≥ 1` (every matrix `U`) -/
theorem liou_pow {C : Fin N → Matrix (Fin d) (Fin d) ℂ} (hC : Spec.IsComplete C)
    (U : Matrix (Fin d) (Fin d) ℂ) (G : Nat) (hG : 1 ≤ G) :
    Spec.liou C (U ^ G) = Spec.liou C U ^ G := by
  induction G, hG using Nat.le_induction with
  | base => rw [pow_one, pow_one]
  | succ G hG ih => rw [pow_succ, C15.liou_mul hC, ih, pow_succ]

/-- … and for `G = 0` when the family is orthonormal (`L(1) = 1`) -/
theorem liou_pow' {C : Fin N → Matrix (Fin d) (Fin d) ℂ} (hC : Spec.IsComplete C)
    (hH : Spec.IsOrthoHerm C) (U : Matrix (Fin d) (Fin d) ℂ) (G : Nat) :
    Spec.liou C (U ^ G) = Spec.liou C U ^ G := by
  rcases Nat.eq_zero_or_pos G with h0 | hpos
  · subst h0
    rw [pow_zero, pow_zero, C15.liou_one hH]
  · exact liou_pow hC U G hpos

end liouville

end FFVerif.TileAux
