/-
Helper lemmas for `Props/C18.lean`: last / head element of the raise-point traces of
`Model/CacheTrace.lean`, coherence of every trace state of the sub-routines, and the counting lemma
of the effect model `Model/Effects.lean`.  Core Lean, no Mathlib.
-/
import FFVerif.Model.CacheTrace
import FFVerif.Model.Effects
import FFVerif.Props.C07

namespace FFVerif.C18
open FFVerif FFVerif.Model.Cache FFVerif.C07

/-! ### the trace ends where the step model ends -/

theorem getLast?_append_of {α} (l₁ l₂ : List α) (x : α) (h : l₂.getLast? = some x) :
    (l₁ ++ l₂).getLast? = some x := by
  rw [List.getLast?_append, h]; rfl

theorem getLast?_cons_of {α} (a : α) (l : List α) (x : α) (h : l.getLast? = some x) :
    (a :: l).getLast? = some x := getLast?_append_of [a] l x h

theorem diagonalizeT_last (s : Obj) : (diagonalizeT s).getLast? = some (diagonalize s) := rfl

theorem needTotPropT_last (s : Obj) : (needTotPropT s).getLast? = some (needTotProp s) := by
  unfold needTotPropT needTotProp; split <;> rfl

theorem needEigT_last (s : Obj) : (needEigT s).getLast? = some (needEig s) := by
  unfold needEigT needEig; split <;> rfl

theorem cachePhasesT_last (g : Grid) (s : Obj) :
    (cachePhasesT g s).getLast? = some (cachePhases g s) := rfl

theorem totPropLT_last (s : Obj) : (totPropLT s).getLast? = some (totPropLGet s) := by
  unfold totPropLT totPropLGet; split
  · rfl
  · exact getLast?_append_of _ _ _ rfl

theorem cacheCMbodyT_last (g : Grid) (pc : Bool) (s : Obj) :
    (cacheCMbodyT g pc { invalidate g s with omega := some g }).getLast?
      = some (cacheCM g pc s) := by
  unfold cacheCMbodyT
  exact getLast?_append_of _ _ _ (totPropLT_last _)

theorem cacheCMT_last (g : Grid) (pc : Bool) (s : Obj) :
    (cacheCMT g pc s).getLast? = some (cacheCM g pc s) :=
  getLast?_append_of _ _ _ (cacheCMbodyT_last g pc s)

theorem computeCMT_last (g : Grid) (ci : Bool) (s : Obj) :
    (computeCMT g ci s).getLast? = some (computeCM g ci s) := by
  unfold computeCMT computeCM
  exact getLast?_append_of _ _ _ (cacheCMbodyT_last g false _)

theorem getCMT_last (g : Grid) (ci : Bool) (s : Obj) :
    (getCMT g ci s).getLast? = some (getCM g ci s).1 := by
  unfold getCMT getCM
  by_cases he : eqOmega s g = true
  · simp only [he, ↓reduceIte]
    cases hcm : s.cm with
    | some h => rfl
    | none =>
      cases hpc : s.cmPc with
      | some h => rfl
      | none => exact getLast?_cons_of _ _ _ (computeCMT_last g ci s)
  · have he' : eqOmega s g = false := by simpa using he
    simp only [he', Bool.false_eq_true, ↓reduceIte]
    exact getLast?_cons_of _ _ _ (getLast?_cons_of _ _ _ (computeCMT_last g ci _))

/-! unconditional facts about the tag `omega` needed to compare the statement order of the source
(`get_control_matrix` first, `_invalidate_frequency_dependent` inside `cache_filter_function`
second) with the order of the step model -/

theorem invalidate_of_some (g : Grid) (s : Obj) (h : s.omega = some g) : invalidate g s = s := by
  unfold invalidate; rw [h]; simp

theorem invalidate_of_none (g : Grid) (s : Obj) (h : s.omega = none) : invalidate g s = s := by
  unfold invalidate; rw [h]

theorem totPropLGet_omega (s : Obj) : (totPropLGet s).omega = s.omega := by
  unfold totPropLGet; split
  · rfl
  · exact needTotProp_omega s

theorem cacheCM_omega (g : Grid) (pc : Bool) (s : Obj) : (cacheCM g pc s).omega = some g := by
  show (totPropLGet _).omega = some g
  rw [totPropLGet_omega]; rfl

theorem getCM_omega (g : Grid) (ci : Bool) (s : Obj) : (getCM g ci s).1.omega = some g := by
  unfold getCM
  by_cases he : eqOmega s g = true
  · have ho : s.omega = some g := by simpa [eqOmega] using he
    simp only [he, ↓reduceIte]
    cases hcm : s.cm with
    | some h => exact ho
    | none =>
      cases hpc : s.cmPc with
      | some h => exact ho
      | none => exact cacheCM_omega g false _
  · have he' : eqOmega s g = false := by simpa using he
    simp only [he', Bool.false_eq_true, ↓reduceIte]
    exact cacheCM_omega g false _

theorem cleanup_freq_omega (s : Obj) : (cleanup .freq s).omega = none := by
  rw [cleanup_freq]

theorem setFFT_last (g : Grid) (w : Which) (s : Obj) :
    (setFFT g w s).getLast? = some (setFF g w s) := rfl

theorem order2T_last (g : Grid) (s : Obj) :
    (order2T g s).getLast?
      = some { needEig s with omega := some g, ff2 := some (g, ff2Fresh g (needEig s)) } :=
  getLast?_append_of _ _ _ rfl

theorem cacheFFcomputedT_last (g : Grid) (w : Which) (o2 ci : Bool) (s : Obj) :
    (cacheFFcomputedT g w o2 ci s).getLast? = some (cacheFFcomputed g w o2 ci s) := by
  unfold cacheFFcomputedT cacheFFcomputed
  cases o2
  · exact getLast?_append_of _ _ _ (setFFT_last g w _)
  · exact getLast?_append_of _ _ _ (order2T_last g _)

theorem getFFmissT_last (g : Grid) (w : Which) (o2 ci : Bool) (s : Obj)
    (h : s.omega = some g ∨ s.omega = none) :
    (getFFmissT g w o2 ci s).getLast? = some (cacheFFcomputed g w o2 ci s) := by
  have hi : invalidate g s = s := by
    rcases h with h | h
    · exact invalidate_of_some g s h
    · exact invalidate_of_none g s h
  unfold getFFmissT cacheFFcomputed
  cases o2
  · simp only [Bool.false_eq_true, ↓reduceIte]
    refine getLast?_append_of _ _ _ ?_
    unfold cacheFFwithCMT
    refine getLast?_cons_of _ _ _ (getLast?_append_of _ _ _ ?_)
    rw [hi, invalidate_of_some g _ (getCM_omega g ci s)]
    rfl
  · simp only [↓reduceIte]
    exact getLast?_append_of _ _ _ (order2T_last g _)

theorem getFFT_last (g : Grid) (w : Which) (o2 ci : Bool) (s : Obj) :
    (getFFT g w o2 ci s).getLast? = some (getFF g w o2 ci s).1 := by
  unfold getFFT getFF
  by_cases he : eqOmega s g = true
  · have ho : s.omega = some g := by simpa [eqOmega] using he
    simp only [he, ↓reduceIte]
    cases ht : ffTag w o2 s with
    | some p => rfl
    | none => exact getLast?_cons_of _ _ _ (getFFmissT_last g w o2 ci s (Or.inl ho))
  · have he' : eqOmega s g = false := by simpa using he
    simp only [he', Bool.false_eq_true, ↓reduceIte]
    exact getLast?_cons_of _ _ _ (getLast?_cons_of _ _ _
      (getFFmissT_last g w o2 ci _ (Or.inr (cleanup_freq_omega s))))

theorem getPcFFT_last (w : Which) (s : Obj) :
    (getPcFFT w s).getLast? = some (getPcFF w s).1 := by
  unfold getPcFFT
  cases w <;> simp only [] <;> split <;> rename_i h1
  all_goals first
    | (split <;> rename_i h2 <;> simp [getPcFF, h1, h2])
    | simp [getPcFF, h1]

theorem getPhasesT_last (g : Grid) (s : Obj) :
    (getPhasesT g s).getLast? = some (getPhases g s).1 := by
  unfold getPhasesT getPhases
  by_cases he : eqOmega s g = true
  · simp only [he, ↓reduceIte]
    cases hp : s.phases <;> rfl
  · have he' : eqOmega s g = false := by simpa using he
    simp only [he', Bool.false_eq_true, ↓reduceIte]
    rfl

theorem decayAmpsT_last (g : Grid) (corr ci : Bool) (s : Obj) :
    (decayAmpsT g corr ci s).getLast? = some (decayAmps g corr ci s).1 := by
  unfold decayAmpsT
  cases corr
  · simp only [Bool.false_eq_true, ↓reduceIte]
    split
    · rename_i h
      refine getLast?_cons_of _ _ _ (getLast?_append_of _ _ _ ?_)
      simp [decayAmps, h]
    · rename_i h
      refine getLast?_cons_of _ _ _ (getLast?_append_of _ _ _ ?_)
      simp [decayAmps, h]
  · rfl

/-! ### the trace starts in the entry state -/

theorem diagonalizeT_head (s : Obj) : (diagonalizeT s).head? = some s := rfl

theorem needTotPropT_head (s : Obj) : (needTotPropT s).head? = some s := by
  unfold needTotPropT; split <;> rfl

theorem needEigT_head (s : Obj) : (needEigT s).head? = some s := by
  unfold needEigT; split <;> rfl

theorem head?_append_of {α} (l₁ l₂ : List α) (x : α) (h : l₁.head? = some x) :
    (l₁ ++ l₂).head? = some x := by
  rw [List.head?_append, h]; rfl

theorem getCMT_head (g : Grid) (ci : Bool) (s : Obj) : (getCMT g ci s).head? = some s := by
  unfold getCMT
  split
  · split
    · rfl
    · split <;> rfl
  · rfl

/-! ### every raise point is cache-coherent -/

/-- `s'` differs from `s` at most in the frequency-independent flags -/
def SameFreq (s s' : Obj) : Prop :=
  s'.omega = s.omega ∧ s'.phases = s.phases ∧ s'.cm = s.cm ∧ s'.cmPc = s.cmPc ∧ s'.ff = s.ff ∧
  s'.ffGen = s.ffGen ∧ s'.ffPc = s.ffPc ∧ s'.ffPcGen = s.ffPcGen ∧ s'.ff2 = s.ff2 ∧
  s'.iPhase = s.iPhase ∧ s'.iFoInt = s.iFoInt ∧ s'.iCmStep = s.iCmStep

theorem SameFreq.refl (s : Obj) : SameFreq s s := by simp [SameFreq]

theorem SameFreq.inv {s s' : Obj} (h : SameFreq s s') (hi : Inv s) : Inv s' := by
  obtain ⟨h1, h2, h3, h4, h5, h6, h7, h8, h9, h10, h11, h12⟩ := h
  unfold C07.Inv at *
  rw [h1, h2, h3, h4, h5, h6, h7, h8, h9, h10, h11, h12]
  exact hi

theorem SameFreq.at {g : Grid} {s s' : Obj} (h : SameFreq s s') (hi : At g s) : At g s' :=
  ⟨h.inv hi.1, h.1.trans hi.2⟩

theorem diagonalizeT_same (s : Obj) : ∀ s' ∈ diagonalizeT s, SameFreq s s' := by
  intro s' hs
  unfold diagonalizeT at hs
  simp only [List.mem_cons, List.not_mem_nil, or_false] at hs
  rcases hs with rfl | rfl | rfl
  · exact SameFreq.refl _
  · split <;> simp [SameFreq]
  · split <;> simp [SameFreq]

theorem needTotPropT_same (s : Obj) : ∀ s' ∈ needTotPropT s, SameFreq s s' := by
  intro s' hs
  unfold needTotPropT at hs
  split at hs
  · simp only [List.mem_singleton] at hs; subst hs; exact SameFreq.refl _
  · exact diagonalizeT_same s s' hs

theorem needEigT_same (s : Obj) : ∀ s' ∈ needEigT s, SameFreq s s' := by
  intro s' hs
  unfold needEigT at hs
  split at hs
  · simp only [List.mem_singleton] at hs; subst hs; exact SameFreq.refl _
  · exact diagonalizeT_same s s' hs

theorem needTotProp_same (s : Obj) : SameFreq s (needTotProp s) :=
  needTotPropT_same s _ (List.mem_of_getLast? (needTotPropT_last s))

theorem needEig_same (s : Obj) : SameFreq s (needEig s) :=
  needEigT_same s _ (List.mem_of_getLast? (needEigT_last s))

theorem totPropLT_same (s : Obj) : ∀ s' ∈ totPropLT s, SameFreq s s' := by
  intro s' hs
  unfold totPropLT at hs
  split at hs
  · simp only [List.mem_singleton] at hs; subst hs; exact SameFreq.refl _
  · simp only [List.mem_append, List.mem_singleton] at hs
    rcases hs with hs | rfl
    · exact needTotPropT_same s s' hs
    · exact needTotProp_same s

theorem cachePhasesT_inv (g : Grid) (s : Obj) (h : Inv s) : ∀ s' ∈ cachePhasesT g s, Inv s' := by
  intro s' hs
  unfold cachePhasesT at hs
  simp only [List.mem_cons, List.not_mem_nil, or_false] at hs
  rcases hs with rfl | rfl | rfl
  · exact h
  · exact (pre_invalidate g _ h).1
  · exact (at_cachePhases g _ h).1

theorem cachePhasesT_at (g : Grid) (s : Obj) (h : At g s) : ∀ s' ∈ cachePhasesT g s, At g s' := by
  intro s' hs
  unfold cachePhasesT at hs
  simp only [List.mem_cons, List.not_mem_nil, or_false] at hs
  rcases hs with rfl | rfl | rfl
  · exact h
  · rw [at_invalidate g _ h]; exact h
  · exact at_cachePhases g _ h.1

/-- inside `cache_control_matrix`, once `omega` is set every raise point is tagged and coherent -/
theorem cacheCMbodyT_at (g : Grid) (pc : Bool) (s : Obj) (h : At g s) :
    ∀ s' ∈ cacheCMbodyT g pc s, At g s' := by
  have h3 : At g (if pc = true then { s with cmPc := some g } else { s with cm := some g }) := by
    have hc := compat_of_at g s h
    have ho := h.2
    cases pc <;> at_close
  intro s' hs
  unfold cacheCMbodyT at hs
  simp only [List.mem_append, List.mem_cons, List.not_mem_nil, or_false] at hs
  rcases hs with ((rfl | rfl) | hs) | hs
  · exact h
  · exact h3
  · exact cachePhasesT_at g _ h3 s' hs
  · exact (totPropLT_same _ s' hs).at (at_cachePhases g _ h3.1)

theorem cacheCMT_inv (g : Grid) (pc : Bool) (s : Obj) (h : Inv s) :
    ∀ s' ∈ cacheCMT g pc s, Inv s' := by
  intro s' hs
  unfold cacheCMT at hs
  simp only [List.mem_append, List.mem_cons, List.not_mem_nil, or_false] at hs
  rcases hs with (rfl | rfl) | hs
  · exact h
  · exact (pre_invalidate g _ h).1
  · exact (cacheCMbodyT_at g pc _ (at_set_omega g _ (pre_invalidate g s h)) s' hs).1

theorem computeCMT_inv (g : Grid) (ci : Bool) (s : Obj) (h : Pre g s) :
    ∀ s' ∈ computeCMT g ci s, Inv s' := by
  intro s' hs
  unfold computeCMT at hs
  simp only [List.mem_append] at hs
  rcases hs with hs | hs
  · exact (diagonalizeT_same s s' hs).inv h.1
  · refine (cacheCMbodyT_at g false _ ?_ s' hs).1
    have hd := (diagonalize_freq s).mpr h.1
    have hdo := diagonalize_omega s
    have ho := h.2
    generalize diagonalize s = sd at *
    have hcd : Compat g sd := compat_of_pre g sd ⟨hd, by rw [hdo]; exact ho⟩
    cases ci
    · simp only [Bool.false_eq_true, ↓reduceIte]
      rw [compat_invalidate g sd hcd]
      exact at_of_compat g sd hcd
    · simp only [↓reduceIte]
      have hci : Compat g { sd with iNOps := true, iBasis := true, iPhase := some g, iFoInt := some g, iCmStep := some g } := by
        unfold Compat okTag okFF2 at *; simp_all
      rw [compat_invalidate g _ hci]
      exact at_of_compat g _ hci

theorem getCMT_inv (g : Grid) (ci : Bool) (s : Obj) (h : Inv s) :
    ∀ s' ∈ getCMT g ci s, Inv s' := by
  intro s' hs
  unfold getCMT at hs
  by_cases he : eqOmega s g = true
  · have ho : s.omega = some g := by simpa [eqOmega] using he
    simp only [he, ↓reduceIte] at hs
    cases hcm : s.cm with
    | some h' =>
      rw [hcm] at hs
      simp only [List.mem_singleton] at hs; subst hs; exact h
    | none =>
      rw [hcm] at hs
      cases hpc : s.cmPc with
      | some h' =>
        rw [hpc] at hs
        simp only [List.mem_cons, List.not_mem_nil, or_false] at hs
        rcases hs with rfl | rfl
        · exact h
        · have := (getCM_spec g ci s h).1.1
          unfold getCM at this
          simpa [he, hcm, hpc] using this
      | none =>
        rw [hpc] at hs
        simp only [List.mem_cons] at hs
        rcases hs with rfl | hs
        · exact h
        · exact computeCMT_inv g ci s ⟨h, Or.inl ho⟩ s' hs
  · have he' : eqOmega s g = false := by simpa using he
    simp only [he', Bool.false_eq_true, ↓reduceIte, List.mem_cons] at hs
    rcases hs with rfl | rfl | hs
    · exact h
    · exact (pre_cleanup_freq g s).1
    · exact computeCMT_inv g ci _ (pre_cleanup_freq g s) s' hs

theorem setFFT_inv (g : Grid) (w : Which) (s : Obj) (h : At g s) :
    ∀ s' ∈ setFFT g w s, Inv s' := by
  intro s' hs
  unfold setFFT at hs
  simp only [List.mem_cons, List.not_mem_nil, or_false] at hs
  rcases hs with rfl | rfl
  · exact h.1
  · exact (at_setFF g w _ h).1

theorem at_reset_omega (g : Grid) (s : Obj) (h : At g s) : At g { s with omega := some g } := by
  have hc := compat_of_at g s h
  have ho := h.2
  at_close

theorem cacheFFwithCMT_inv (g : Grid) (w : Which) (s : Obj) (h : Inv s) :
    ∀ s' ∈ cacheFFwithCMT g w s, Inv s' := by
  intro s' hs
  unfold cacheFFwithCMT at hs
  simp only [List.mem_cons, List.mem_append] at hs
  have hp := pre_invalidate g s h
  rcases hs with rfl | hs | hs
  · exact h
  · exact cacheCMT_inv g false _ hp.1 s' hs
  · exact setFFT_inv g w _ (at_reset_omega g _ (at_cacheCM g false _ hp.1)) s' hs

theorem order2T_inv (g : Grid) (s : Obj) (h : Pre g s) : ∀ s' ∈ order2T g s, Inv s' := by
  intro s' hs
  unfold order2T at hs
  simp only [List.mem_append, List.mem_singleton] at hs
  rcases hs with hs | rfl
  · exact (needEigT_same s s' hs).inv h.1
  · have hi := (needEig_inv s).mpr h.1
    have ho := needEig_omega s
    have hpo := h.2
    generalize needEig s = s2 at *
    have hc : Compat g s2 := compat_of_pre g s2 ⟨hi, by rw [ho]; exact hpo⟩
    have hfr : ff2Fresh g s2 = true := by
      have := hc.2.2.2.2.2.2.2.2.2.2.1
      unfold ff2Fresh okTag at *
      split
      · rcases this with h | h <;> simp [h]
      · rfl
    rw [hfr]
    have : At g { s2 with omega := some g, ff2 := some (g, true) } := by at_close
    exact this.1

theorem cacheFFcomputedT_inv (g : Grid) (w : Which) (o2 ci : Bool) (s : Obj) (h : Inv s) :
    ∀ s' ∈ cacheFFcomputedT g w o2 ci s, Inv s' := by
  intro s' hs
  unfold cacheFFcomputedT at hs
  have hp := pre_invalidate g s h
  cases o2
  · simp only [Bool.false_eq_true, ↓reduceIte, List.mem_append, List.mem_cons, List.not_mem_nil,
      or_false] at hs
    have h2 := (getCM_spec g ci _ hp.1).1
    rcases hs with (((rfl | rfl) | hs) | hs) | hs
    · exact h
    · exact hp.1
    · exact getCMT_inv g ci _ hp.1 s' hs
    · exact cacheCMT_inv g false _ h2.1 s' hs
    · exact setFFT_inv g w _ (at_reset_omega g _ (at_cacheCM g false _ h2.1)) s' hs
  · simp only [↓reduceIte, List.mem_append, List.mem_cons, List.not_mem_nil, or_false] at hs
    rcases hs with (rfl | rfl) | hs
    · exact h
    · exact hp.1
    · exact order2T_inv g _ hp s' hs

theorem getFFmissT_inv (g : Grid) (w : Which) (o2 ci : Bool) (s : Obj) (h : Inv s) :
    ∀ s' ∈ getFFmissT g w o2 ci s, Inv s' := by
  intro s' hs
  unfold getFFmissT at hs
  cases o2
  · simp only [Bool.false_eq_true, ↓reduceIte, List.mem_append] at hs
    rcases hs with hs | hs
    · exact getCMT_inv g ci s h s' hs
    · exact cacheFFwithCMT_inv g w _ (getCM_spec g ci s h).1.1 s' hs
  · simp only [↓reduceIte, List.mem_append, List.mem_cons, List.not_mem_nil, or_false] at hs
    rcases hs with (rfl | rfl) | hs
    · exact h
    · exact (pre_invalidate g _ h).1
    · exact order2T_inv g _ (pre_invalidate g _ h) s' hs

theorem getFFT_inv (g : Grid) (w : Which) (o2 ci : Bool) (s : Obj) (h : Inv s) :
    ∀ s' ∈ getFFT g w o2 ci s, Inv s' := by
  intro s' hs
  unfold getFFT at hs
  by_cases he : eqOmega s g = true
  · simp only [he, ↓reduceIte] at hs
    cases ht : ffTag w o2 s with
    | some p =>
      rw [ht] at hs
      simp only [List.mem_singleton] at hs; subst hs; exact h
    | none =>
      rw [ht] at hs
      simp only [List.mem_cons] at hs
      rcases hs with rfl | hs
      · exact h
      · exact getFFmissT_inv g w o2 ci s h s' hs
  · have he' : eqOmega s g = false := by simpa using he
    simp only [he', Bool.false_eq_true, ↓reduceIte, List.mem_cons] at hs
    rcases hs with rfl | rfl | hs
    · exact h
    · exact (pre_cleanup_freq g s).1
    · exact getFFmissT_inv g w o2 ci _ (pre_cleanup_freq g s).1 s' hs

theorem getPcFFT_inv (w : Which) (s : Obj) (h : Inv s) : ∀ s' ∈ getPcFFT w s, Inv s' := by
  intro s' hs
  have hf := inv_getPcFF w s h
  unfold getPcFFT at hs
  cases w <;> simp only [] at hs <;> split at hs <;>
    (try (simp only [List.mem_singleton] at hs; subst hs; exact h)) <;> split at hs <;>
    simp only [List.mem_cons, List.not_mem_nil, or_false] at hs
  all_goals first
    | (rcases hs with rfl | rfl
       · exact h
       · exact hf)
    | (subst hs; exact h)

theorem getPhasesT_inv (g : Grid) (s : Obj) (h : Inv s) : ∀ s' ∈ getPhasesT g s, Inv s' := by
  intro s' hs
  unfold getPhasesT at hs
  by_cases he : eqOmega s g = true
  · simp only [he, ↓reduceIte] at hs
    cases hp : s.phases with
    | some p =>
      rw [hp] at hs
      simp only [List.mem_singleton] at hs; subst hs; exact h
    | none =>
      rw [hp] at hs
      simp only [List.mem_cons] at hs
      rcases hs with rfl | hs
      · exact h
      · exact cachePhasesT_inv g s h s' hs
  · have he' : eqOmega s g = false := by simpa using he
    simp only [he', Bool.false_eq_true, ↓reduceIte, List.mem_cons] at hs
    rcases hs with rfl | rfl | hs
    · exact h
    · exact (pre_cleanup_freq g s).1
    · exact cachePhasesT_inv g _ (pre_cleanup_freq g s).1 s' hs

theorem decayAmpsT_inv (g : Grid) (corr ci : Bool) (s : Obj) (h : Inv s) :
    ∀ s' ∈ decayAmpsT g corr ci s, Inv s' := by
  intro s' hs
  unfold decayAmpsT at hs
  cases corr
  · simp only [Bool.false_eq_true, ↓reduceIte] at hs
    split at hs
    · simp only [List.mem_cons, List.mem_append, List.not_mem_nil, or_false] at hs
      rcases hs with rfl | hs | rfl
      · exact h
      · exact getFFT_inv g _ _ _ s h s' hs
      · exact (getFF_spec g _ _ _ s h).1.1
    · simp only [List.mem_cons, List.mem_append, List.not_mem_nil, or_false] at hs
      rcases hs with rfl | hs | rfl
      · exact h
      · exact getCMT_inv g ci s h s' hs
      · exact (getCM_spec g ci s h).1.1
  · simp only [↓reduceIte, List.mem_cons, List.not_mem_nil, or_false] at hs
    rcases hs with rfl | rfl
    · exact h
    · rw [decayAmps_corr_state]; exact h

theorem at_pcFF (g : Grid) (w : Which) (pc : Bool) (s2 : Obj) (h2 : At g s2) :
    At g (if pc = true then
        (match w with
         | .fidelity => { s2 with ffPc := some g }
         | .generalized => { s2 with ffPc := some g, ffPcGen := some g })
        else s2) := by
  have hc := compat_of_at g s2 h2
  have ho := h2.2
  cases pc
  · exact h2
  · cases w <;> at_close


/-! ### the effect model -/

section Frame
open FFVerif.Model.Effects

theorem apply_eq (w : World) (op : EOp) (i : Nat) :
    apply w op i = w i + (if op.writes.contains i then 1 else 0) := by
  unfold apply; split <;> rfl

/-- the content version of a cell after a history is its initial version plus the number of
operations that wrote it -/
theorem run_eq_count (h : List EOp) (w : World) (i : Nat) :
    Model.Effects.run w h i = w i + writeCount i h := by
  induction h generalizing w with
  | nil => rfl
  | cons op ops ih =>
    show Model.Effects.run (apply w op) ops i = _
    rw [ih, apply_eq]
    unfold writeCount
    rw [List.countP_cons]
    omega

theorem run_append (w : World) (h₁ h₂ : List EOp) :
    Model.Effects.run w (h₁ ++ h₂) = Model.Effects.run (Model.Effects.run w h₁) h₂ := by
  unfold Model.Effects.run; rw [List.foldl_append]


end Frame

end FFVerif.C18
