/-
Helper lemmas for `FFVerif/Props/C09EtmFnCross.lean`: the trapezoidal integral of a pointwise
positive-semidefinite matrix-valued integrand is positive semidefinite (sorted grid), and the
pointwise quadratic form `Re(Bᴴ S B)` of a positive-semidefinite cross-spectral matrix.
-/
import FFVerif.Lemmas.EtmFnShapesAux

namespace FFVerif.Model.EtmFn
open FFVerif FFVerif.Model Matrix
open scoped ComplexOrder

variable {N nO m : Nat}

/-- **Trapezoid of a pointwise PSD integrand.**  If the real integrands `f k l` are, at every grid
point `o`, the entries of a positive-semidefinite matrix `Q o`, then on a sorted grid the matrix of
the integrals `∫ f k l dω / 2π` is positive semidefinite (non-negative trapezoid weights). -/
theorem trapz_matrix_posSemidef (ω : Vec ℝ nO) (hω : ∀ i j : Fin nO, i ≤ j → ω[i] ≤ ω[j])
    (Q : Fin nO → Matrix (Fin N) (Fin N) ℂ) (hQ : ∀ o, (Q o).PosSemidef)
    (f : Fin N → Fin N → Vec ℝ nO)
    (hf : ∀ (k l : Fin N) (o : Fin nO), (((f k l)[o] : ℝ) : ℂ) = Q o k l) :
    (Matrix.of fun k l : Fin N =>
      ((integrateR ω (f k l) / (2 * Real.pi) : ℝ) : ℂ)).PosSemidef := by
  have key : (Matrix.of fun k l : Fin N => ((integrateR ω (f k l) / (2 * Real.pi) : ℝ) : ℂ))
      = ∑ i : Fin (nO - 1),
        ((ω[(⟨i.1 + 1, by have := i.2; omega⟩ : Fin nO)] - ω[(⟨i.1, by have := i.2; omega⟩ : Fin nO)])
          / 2 / (2 * Real.pi)) •
        (Q ⟨i.1, by have := i.2; omega⟩ + Q ⟨i.1 + 1, by have := i.2; omega⟩) := by
    ext k l
    rw [Matrix.of_apply, integrateR_eq_trapz, Matrix.sum_apply]
    unfold Spec.trapz
    rw [Finset.sum_div, Complex.ofReal_sum]
    refine Finset.sum_congr rfl fun i _ => ?_
    simp only [Matrix.smul_apply, Matrix.add_apply, Complex.real_smul]
    rw [← hf k l ⟨i.1, by have := i.2; omega⟩, ← hf k l ⟨i.1 + 1, by have := i.2; omega⟩]
    simp only [Fin.getElem_fin]
    push_cast
    ring
  rw [key]
  refine posSemidef_sum _ fun i _ => PosSemidef.smul ((hQ _).add (hQ _)) ?_
  have h := hω ⟨i.1, by have := i.2; omega⟩ ⟨i.1 + 1, by have := i.2; omega⟩ (by simp [Fin.le_def])
  have hpi := Real.pi_pos
  have : 0 ≤ ω[(⟨i.1 + 1, by have := i.2; omega⟩ : Fin nO)] - ω[(⟨i.1, by have := i.2; omega⟩ : Fin nO)] :=
    sub_nonneg.mpr h
  positivity

/-- the real part (entrywise) of the congruence `Bᴴ S B` -/
noncomputable def crossBlock (S : Matrix (Fin m) (Fin m) ℂ) (Bm : Matrix (Fin m) (Fin N) ℂ) :
    Matrix (Fin N) (Fin N) ℂ :=
  (1 / 2 : ℝ) • (Bmᴴ * S * Bm + (Bmᴴ * S * Bm)ᴴᵀ)

/-- **Pointwise quadratic form**: for a positive-semidefinite cross-spectral matrix `S` the matrix
`Re(Bᴴ S B)` — entries `Re Σ_ab conj(B_ak) S_ab B_bl` — is positive semidefinite. -/
theorem crossBlock_posSemidef (S : Matrix (Fin m) (Fin m) ℂ) (hS : S.PosSemidef)
    (Bm : Matrix (Fin m) (Fin N) ℂ) : (crossBlock S Bm).PosSemidef :=
  ((hS.conjTranspose_mul_mul_same Bm).add
    (hS.conjTranspose_mul_mul_same Bm).conjTranspose.transpose).smul
    (by norm_num : (0 : ℝ) ≤ 1 / 2)

theorem crossBlock_apply (S : Matrix (Fin m) (Fin m) ℂ) (Bm : Matrix (Fin m) (Fin N) ℂ)
    (k l : Fin N) :
    crossBlock S Bm k l
      = ((∑ a : Fin m, ∑ b : Fin m, (starRingEnd ℂ (Bm a k) * S a b * Bm b l).re : ℝ) : ℂ) := by
  have hM : (Bmᴴ * S * Bm) k l = ∑ a : Fin m, ∑ b : Fin m, starRingEnd ℂ (Bm a k) * S a b * Bm b l := by
    rw [Matrix.mul_apply]
    simp only [Matrix.mul_apply, Matrix.conjTranspose_apply, RCLike.star_def, Finset.sum_mul]
    exact Finset.sum_comm
  have hre : (∑ a : Fin m, ∑ b : Fin m, (starRingEnd ℂ (Bm a k) * S a b * Bm b l).re)
      = ((Bmᴴ * S * Bm) k l).re := by
    rw [hM, Complex.re_sum]
    exact Finset.sum_congr rfl fun a _ => (Complex.re_sum _ _).symm
  rw [hre, Complex.re_eq_add_conj]
  simp only [crossBlock, Matrix.smul_apply, Matrix.add_apply, Matrix.transpose_apply,
    Matrix.conjTranspose_apply, Complex.real_smul, RCLike.star_def]
  push_cast
  ring

end FFVerif.Model.EtmFn
