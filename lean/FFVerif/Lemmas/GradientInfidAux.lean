/-
Helper lemmas for C11Infid: the trapezoid integral `infidelity_derivative` differentiates, the
composition lemma (control matrix ↦ filter function ↦ trapezoid), selection lemmas for the
control-matrix derivative, the identity row of the control matrix.
-/
import FFVerif.Props.C11AsmDeriv
import FFVerif.Props.C13
import FFVerif.Props.C08Inv
import FFVerif.Model.GradientInfid

namespace FFVerif.GradientInfidAux
open FFVerif FFVerif.Model FFVerif.GradientAux FFVerif.GradientAsmAux Matrix Complex
open scoped Matrix

/-! ### the quantity `infidelity_derivative` differentiates -/

/-- **The modelled infidelity that `infidelity_derivative` differentiates**, for ONE noise operator:
`util.integrate(S · F, ω) / (2π·dim)` with the fidelity filter function `F(ω_o) = Σ_k |B_k(ω_o)|²`
summed over ALL basis indices `k` (no identity-component correction).  `B` is the row of the control
matrix that belongs to the noise operator, `S` its spectrum on the grid `ω`. -/
noncomputable def fidelityIntegral {nK nO : Nat} (dim : Nat) (omega S : Vec ℝ nO) (B : Mat ℂ nK nO) : ℝ :=
  integrate (Vector.ofFn fun o : Fin nO => S[o] * ∑ k : Fin nK, Complex.normSq B[k][o]) omega
    / (2 * Real.pi * dim)

/-- `x[idx]` entry, for `Fin`-indexed access in both positions -/
theorem selectRows_get' {α : Type} {n k : Nat} (idx : Vector (Fin n) k) (v : Vector α n)
    (i : Fin k) : (selectRows idx v)[i] = v[idx[i]] := selectRows_get idx v i

/-! ### composition: control matrix ↦ filter function ↦ trapezoid rule -/

/-- If the rows `n_idx` of a `u`-dependent control matrix have at `u = 0` the derivatives stored in
`dB[h][o][g'][a][k]`, then the trapezoid integrals of both spectrum shapes have the derivatives
computed by `infidelityDerivative1/0 ∘ getFilterFunctionDerivative`. -/
theorem infid_hasDerivAt_of_cm {nAll nA nK nO nH nG : Nat} (dim : Nat) (omega : Vec ℝ nO)
    (Bfull : ℝ → Ten3 ℂ nAll nK nO) (dB : Vector (Vector (Vector (Mat ℂ nA nK) nG) nO) nH)
    (nIdx : Vector (Fin nAll) nA) (a : Fin nA) (g' : Fin nG) (h : Fin nH)
    (hB : ∀ (o : Fin nO) (k : Fin nK),
      HasDerivAt (fun u : ℝ => (Bfull u)[nIdx[a]][k][o]) dB[h][o][g'][a][k] 0) :
    (∀ S1 : Mat ℝ nA nO,
      HasDerivAt (fun u : ℝ => fidelityIntegral dim omega S1[a] (Bfull u)[nIdx[a]])
        (infidelityDerivative1 dim omega S1
          (getFilterFunctionDerivative (R := ℝ) nIdx (Bfull 0) dB))[a][g'][h] 0) ∧
    (∀ S0 : Vec ℝ nO,
      HasDerivAt (fun u : ℝ => fidelityIntegral dim omega S0 (Bfull u)[nIdx[a]])
        (infidelityDerivative0 dim omega S0
          (getFilterFunctionDerivative (R := ℝ) nIdx (Bfull 0) dB))[a][g'][h] 0) := by
  have hF : ∀ o : Fin nO,
      HasDerivAt (fun u : ℝ => ∑ k : Fin nK, Complex.normSq (Bfull u)[nIdx[a]][k][o])
        (getFilterFunctionDerivative (R := ℝ) nIdx (Bfull 0) dB)[a][g'][h][o] 0 := by
    intro o
    have h1 := C11.ff_derivative_is_derivative (fun u : ℝ => selectRows nIdx (Bfull u)) dB 0 a g' h o
      (fun k => by
        have e : (fun v : ℝ => (selectRows nIdx (Bfull v))[a][k][o])
            = fun v : ℝ => (Bfull v)[nIdx[a]][k][o] := by
          funext v
          rw [selectRows_get]
        rw [e]
        exact hB o k)
    have e : (fun v : ℝ => ∑ k : Fin nK, Complex.normSq (selectRows nIdx (Bfull v))[a][k][o])
        = fun u : ℝ => ∑ k : Fin nK, Complex.normSq (Bfull u)[nIdx[a]][k][o] := by
      funext v
      rw [selectRows_get]
    rw [e] at h1
    exact h1
  refine ⟨fun S1 => ?_, fun S0 => ?_⟩
  · exact (C11.infidelity_derivative_linear dim omega (Vector.ofFn fun _ => 0) S1
      (getFilterFunctionDerivative (R := ℝ) nIdx (Bfull 0) dB) a g' h).2.2.1
      (fun o u => ∑ k : Fin nK, Complex.normSq (Bfull u)[nIdx[a]][k][o]) 0 hF
  · exact (C11.infidelity_derivative_linear dim omega S0 (Vector.ofFn fun _ => Vector.ofFn fun _ => 0)
      (getFilterFunctionDerivative (R := ℝ) nIdx (Bfull 0) dB) a g' h).2.2.2
      (fun o u => ∑ k : Fin nK, Complex.normSq (Bfull u)[nIdx[a]][k][o]) 0 hF

/-! ### selection of noise operators in the control matrix -/

/-- `calculate_control_matrix_from_scratch` with `n_opers[n_idx]`, `n_coeffs[n_idx]` returns the
rows `n_idx` of the full control matrix -/
theorem cm_selectRows {nG d nO nAll nA nK : Nat} (kind : MaskKind) (thr : ℝ)
    (eigvals : Mat ℝ nG d) (eigvecs props : Vector (Mat ℂ d d) nG)
    (omega : Vec ℝ nO) (basis : Vector (Mat ℂ d d) nK) (nOpers : Vector (Mat ℂ d d) nAll)
    (nCoeffs : Mat ℝ nAll nG) (dt t : Vec ℝ nG) (nIdx : Vector (Fin nAll) nA)
    (a : Fin nA) (k : Fin nK) (o : Fin nO) :
    (controlMatrixFromScratch kind thr eigvals eigvecs props omega basis
        (selectRows nIdx nOpers) (selectRows nIdx nCoeffs) dt t)[a][k][o]
      = (controlMatrixFromScratch kind thr eigvals eigvecs props omega basis nOpers nCoeffs dt
          t)[nIdx[a]][k][o] :=
  C13.cm_perm_opers kind thr eigvals eigvecs props omega basis nOpers nCoeffs dt t
    (fun i => nIdx[i]) a k o

/-! ### the one-parameter family of pulses; hypotheses restated for the sliced arrays -/

/-- **The family of perturbed pulses**: the Hamiltonian of segment `g'` is `H_{g'} + u·C` (the
amplitude of the control operator `C` shifted by `u` in that segment), all other segments keep `H_g`;
for every real `u` the arrays `eigvals u`, `eigvecs u` satisfy the `eigh` contract for these
Hamiltonians (they are NOT assumed to depend continuously on `u`). -/
def AmplitudeFamily {nG d : Nat} (H : Fin nG → Matrix (Fin d) (Fin d) ℂ) (C : Mat ℂ d d)
    (g' : Fin nG) (eigvals : ℝ → Mat ℝ nG d) (eigvecs : ℝ → Vector (Mat ℂ d d) nG) : Prop :=
  ∀ (u : ℝ) (g : Fin nG),
    C02.IsEigh (H g + (if g.1 = g'.1 then (u : ℂ) • C.toMatrix else 0))
      (fun j => (eigvals u)[g.1][j]) (eigvecs u)[g.1].toMatrix

/-- **A sensitivity that depends on the varied amplitude locally**: `s u` is the row of
`n_coeffs` of one noise operator for the pulse with parameter `u`; only its entry on segment `g'`
depends on `u`, it is differentiable at `u = 0` with derivative `ds` (the entry of `n_coeffs_deriv`),
and `s(0)[g'] ≠ 0` (the code divides by it). -/
def LocalSensitivity {nG : Nat} (s : ℝ → Vec ℝ nG) (g' : Fin nG) (ds : ℝ) : Prop :=
  (∀ (u : ℝ) (g : Fin nG), g ≠ g' → (s u)[g] = (s 0)[g]) ∧
  HasDerivAt (fun u : ℝ => (s u)[g']) ds 0 ∧ (s 0)[g'] ≠ 0

theorem isEigh_family_select {nG d nCAll nH : Nat} (cOpers : Vector (Mat ℂ d d) nCAll)
    (cIdx : Vector (Fin nCAll) nH) (H : Fin nG → Matrix (Fin d) (Fin d) ℂ) (h : Fin nH)
    (g' : Fin nG) (eigvals : ℝ → Mat ℝ nG d) (eigvecs : ℝ → Vector (Mat ℂ d d) nG)
    (hE : AmplitudeFamily H cOpers[cIdx[h]] g' eigvals eigvecs) :
    ∀ (u : ℝ) (g : Fin nG),
      C02.IsEigh (H g + (if g.1 = g'.1 then (u : ℂ) • (selectRows cIdx cOpers)[h].toMatrix else 0))
        (fun j => (eigvals u)[g.1][j]) (eigvecs u)[g.1].toMatrix := by
  rw [selectRows_get]
  exact hE

theorem sens_select {nG nAll nA : Nat} (nC : ℝ → Mat ℝ nAll nG) (nIdx : Vector (Fin nAll) nA)
    (a : Fin nA) (g' : Fin nG) (D : ℝ)
    (hs : LocalSensitivity (fun u => (nC u)[nIdx[a]]) g' D) :
    (∀ (u : ℝ) (g : Fin nG), g ≠ g' →
      ((fun u => selectRows nIdx (nC u)) u)[a][g] = ((fun u => selectRows nIdx (nC u)) 0)[a][g]) ∧
    HasDerivAt (fun u : ℝ => ((fun u => selectRows nIdx (nC u)) u)[a][g']) D 0 ∧
    ((fun u => selectRows nIdx (nC u)) (0 : ℝ))[a][g'] ≠ 0 := by
  obtain ⟨hconst, hds, hnc⟩ := hs
  have hrow : ∀ (u : ℝ) (g : Fin nG), (selectRows nIdx (nC u))[a][g] = (nC u)[nIdx[a]][g] :=
    fun u g => by rw [selectRows_get]
  refine ⟨fun u g hg => ?_, ?_, ?_⟩
  · show (selectRows nIdx (nC u))[a][g] = (selectRows nIdx (nC 0))[a][g]
    rw [hrow, hrow]; exact hconst u g hg
  · have e : (fun u : ℝ => ((fun u => selectRows nIdx (nC u)) u)[a][g'])
        = fun u : ℝ => (nC u)[nIdx[a]][g'] := funext fun u => hrow u g'
    rw [e]; exact hds
  · show (selectRows nIdx (nC 0))[a][g'] ≠ 0
    rw [hrow]; exact hnc

/-! ### selection of noise operators / control operators in the control-matrix derivative -/

/-- `n_coeffs_deriv_full[n_idx][:, c_idx]`: the `n_coeffs_deriv` array of a selection in terms of the
one for all operators (`None` stays `None`) -/
def selectNcd {nG nAll nCAll nA nH : Nat} (nIdx : Vector (Fin nAll) nA)
    (cIdx : Vector (Fin nCAll) nH) (D : Option (Vector (Mat ℝ nCAll nG) nAll)) :
    Option (Vector (Mat ℝ nH nG) nA) :=
  D.map fun D => Vector.ofFn fun i => Vector.ofFn fun h => D[nIdx[i]][cIdx[h]]

section select
variable {nG d nO nAll nCAll nA nH nK : Nat}

theorem opersTransformed_select (V : Mat ℂ d d) (cOpers : Vector (Mat ℂ d d) nCAll)
    (cIdx : Vector (Fin nCAll) nH) (h : Fin nH) :
    (opersTransformed V (selectRows cIdx cOpers))[h] = (opersTransformed V cOpers)[cIdx[h]] := by
  unfold opersTransformed
  rw [vget, vget, selectRows_get]

theorem nOpersTransformed_select (V : Mat ℂ d d) (nOpers : Vector (Mat ℂ d d) nAll)
    (nIdx : Vector (Fin nAll) nA) (nc : Vec ℝ nAll) (ncS : Vec ℝ nA)
    (hnc : ∀ i : Fin nA, ncS[i] = nc[nIdx[i]]) (i : Fin nA) :
    (nOpersTransformed V (selectRows nIdx nOpers) ncS)[i]
      = (nOpersTransformed V nOpers nc)[nIdx[i]] := by
  unfold nOpersTransformed
  rw [vget, vget, selectRows_get, hnc]

theorem ctrlmatStepM_select (Bt : Vector (Mat ℂ d d) nAll) (BtS : Vector (Mat ℂ d d) nA)
    (Ct : Vector (Mat ℂ d d) nCAll) (CtS : Vector (Mat ℂ d d) nH)
    (DI : Vector (Ten4 ℂ d d d d) nO) (nIdx : Vector (Fin nAll) nA) (cIdx : Vector (Fin nCAll) nH)
    (hB : ∀ i : Fin nA, BtS[i] = Bt[nIdx[i]]) (hC : ∀ h : Fin nH, CtS[h] = Ct[cIdx[h]])
    (i : Fin nA) (h : Fin nH) (o : Fin nO) (u v : Fin d) :
    (ctrlmatStepM BtS CtS DI)[i][h][o][u][v] = (ctrlmatStepM Bt Ct DI)[nIdx[i]][cIdx[h]][o][u][v] := by
  rw [ctrlmatStepM_get, ctrlmatStepM_get, hB, hC]

variable (kind : MaskKind) (thrF thrD : ℝ) (omega : Vec ℝ nO) (ev : Vec ℝ d) (V : Mat ℂ d d)
  (basis : Vector (Mat ℂ d d) nK) (tg dtg : ℝ) (nOpers : Vector (Mat ℂ d d) nAll)
  (cOpers : Vector (Mat ℂ d d) nCAll) (nIdx : Vector (Fin nAll) nA) (cIdx : Vector (Fin nCAll) nH)

theorem cmdStep_select_fst (nc : Vec ℝ nAll) (ncS : Vec ℝ nA)
    (hnc : ∀ i : Fin nA, ncS[i] = nc[nIdx[i]]) (ncd : Option (Mat ℝ nAll nCAll))
    (ncdS : Option (Mat ℝ nA nH)) (i : Fin nA) (j : Fin nK) (o : Fin nO) :
    (cmdStep kind thrF thrD omega ev V basis tg dtg (selectRows nIdx nOpers) ncS
        (selectRows cIdx cOpers) ncdS).1[i][j][o]
      = (cmdStep kind thrF thrD omega ev V basis tg dtg nOpers nc cOpers ncd).1[nIdx[i]][j][o] := by
  unfold cmdStep
  simp only []
  rw [ctrlmatStep_get, ctrlmatStep_get, nOpersTransformed_select V nOpers nIdx nc ncS hnc]

theorem cmdStep_select_snd_none (nc : Vec ℝ nAll) (ncS : Vec ℝ nA)
    (hnc : ∀ i : Fin nA, ncS[i] = nc[nIdx[i]]) (i : Fin nA) (j : Fin nK) (h : Fin nH)
    (o : Fin nO) :
    (cmdStep kind thrF thrD omega ev V basis tg dtg (selectRows nIdx nOpers) ncS
        (selectRows cIdx cOpers) none).2[i][j][h][o]
      = (cmdStep kind thrF thrD omega ev V basis tg dtg nOpers nc cOpers none).2[nIdx[i]][j][cIdx[h]][o] := by
  unfold cmdStep
  simp only []
  rw [ctrlmatStepDeriv_get_none, ctrlmatStepDeriv_get_none]
  refine Finset.sum_congr rfl fun n _ => Finset.sum_congr rfl fun k _ => ?_
  rw [ctrlmatStepM_select (nOpersTransformed V nOpers nc) _ (opersTransformed V cOpers) _ _ nIdx cIdx
    (nOpersTransformed_select V nOpers nIdx nc ncS hnc) (opersTransformed_select V cOpers cIdx)]

theorem cmdStep_select_snd_some (nc : Vec ℝ nAll) (ncS : Vec ℝ nA)
    (hnc : ∀ i : Fin nA, ncS[i] = nc[nIdx[i]]) (ds : Mat ℝ nAll nCAll) (dsS : Mat ℝ nA nH)
    (hds : ∀ (i : Fin nA) (h : Fin nH), dsS[i][h] = ds[nIdx[i]][cIdx[h]])
    (i : Fin nA) (j : Fin nK) (h : Fin nH) (o : Fin nO) :
    (cmdStep kind thrF thrD omega ev V basis tg dtg (selectRows nIdx nOpers) ncS
        (selectRows cIdx cOpers) (some dsS)).2[i][j][h][o]
      = (cmdStep kind thrF thrD omega ev V basis tg dtg nOpers nc cOpers
          (some ds)).2[nIdx[i]][j][cIdx[h]][o] := by
  have h1 := cmdStep_select_snd_none kind thrF thrD omega ev V basis tg dtg nOpers cOpers nIdx cIdx
    nc ncS hnc i j h o
  have h2 := cmdStep_select_fst kind thrF thrD omega ev V basis tg dtg nOpers cOpers nIdx cIdx
    nc ncS hnc none none i j o
  rw [CmDerivAux.cmdStep_snd_some, CmDerivAux.cmdStep_snd_some, h1, h2, hds, hnc]

end select

section selectAll
variable {nG d nO nAll nCAll nA nH nK : Nat}
  (kind : MaskKind) (thrF thrD thrA : ℝ) (castReal : Bool) (omega : Vec ℝ nO)
  (props : Vector (Mat ℂ d d) (nG + 1)) (eigvals : Mat ℝ nG d) (eigvecs : Vector (Mat ℂ d d) nG)
  (basis : Vector (Mat ℂ d d) nK) (t : Vec ℝ (nG + 1)) (dt : Vec ℝ nG)
  (nOpers : Vector (Mat ℂ d d) nAll) (nCoeffs : Mat ℝ nAll nG) (cOpers : Vector (Mat ℂ d d) nCAll)
  (nIdx : Vector (Fin nAll) nA) (cIdx : Vector (Fin nCAll) nH)
  (D : Option (Vector (Mat ℝ nCAll nG) nAll))

theorem cmdSteps_select_fst (g : Nat) (hg : g < nG) (i : Fin nA) (j : Fin nK) (o : Fin nO) :
    ((cmdSteps kind thrF thrD omega eigvals eigvecs basis t dt (selectRows nIdx nOpers)
        (selectRows nIdx nCoeffs) (selectRows cIdx cOpers) (selectNcd nIdx cIdx D))[g]'hg).1[i][j][o]
      = ((cmdSteps kind thrF thrD omega eigvals eigvecs basis t dt nOpers nCoeffs cOpers
          D)[g]'hg).1[nIdx[i]][j][o] := by
  unfold cmdSteps
  rw [Vector.getElem_ofFn, Vector.getElem_ofFn]
  exact cmdStep_select_fst kind thrF thrD omega _ _ basis _ _ nOpers cOpers nIdx cIdx _ _
    (fun i => by rw [vget, vget, selectRows_get]) _ _ i j o

theorem cmdSteps_select_snd (g : Fin nG) (i : Fin nA) (j : Fin nK) (h : Fin nH) (o : Fin nO) :
    ((cmdSteps kind thrF thrD omega eigvals eigvecs basis t dt (selectRows nIdx nOpers)
        (selectRows nIdx nCoeffs) (selectRows cIdx cOpers) (selectNcd nIdx cIdx D))[g]).2[i][j][h][o]
      = ((cmdSteps kind thrF thrD omega eigvals eigvecs basis t dt nOpers nCoeffs cOpers
          D)[g]).2[nIdx[i]][j][cIdx[h]][o] := by
  unfold cmdSteps
  rw [vget, vget]
  cases D with
  | none =>
    simp only [selectNcd, Option.map_none]
    exact cmdStep_select_snd_none kind thrF thrD omega _ _ basis _ _ nOpers cOpers nIdx cIdx _ _
      (fun i => by rw [vget, vget, selectRows_get]) i j h o
  | some D =>
    simp only [selectNcd, Option.map_some]
    exact cmdStep_select_snd_some kind thrF thrD omega _ _ basis _ _ nOpers cOpers nIdx cIdx _ _
      (fun i => by rw [vget, vget, selectRows_get]) _ _
      (fun i h => by rw [Mat.ofFn_get, Mat.ofFn_get, vget, vget]) i j h o

theorem cOpersTransformedAll_select (s : Fin nG) (h : Fin nH) :
    (cOpersTransformedAll eigvecs (selectRows cIdx cOpers))[s][h]
      = (cOpersTransformedAll eigvecs cOpers)[s][cIdx[h]] := by
  unfold cOpersTransformedAll
  rw [vget, vget, opersTransformed_select]

theorem liouvilleDerivative_select (tt : Fin (nG - 1)) (h : Fin nH) (s : Fin nG) (j k : Fin nK) :
    (liouvilleDerivative thrA dt props basis eigvecs eigvals
        (cOpersTransformedAll eigvecs (selectRows cIdx cOpers)))[tt][h][s][j][k]
      = (liouvilleDerivative thrA dt props basis eigvecs eigvals
          (cOpersTransformedAll eigvecs cOpers))[tt][cIdx[h]][s][j][k] := by
  rw [liouvilleDerivative_get, liouvilleDerivative_get, liouvillePD_toMatrix, liouvillePD_toMatrix,
    cOpersTransformedAll_select]

/-- **The control-matrix derivative of a selection is the slice of the full one**:
`calculate_derivative_of_control_matrix_from_scratch(…, n_opers[n_idx], n_coeffs[n_idx],
c_opers[c_idx], n_coeffs_deriv_full[n_idx][:, c_idx])[h, o, g, i, k]
 = calculate_derivative_of_control_matrix_from_scratch(…, n_opers, n_coeffs, c_opers,
n_coeffs_deriv_full)[c_idx[h], o, g, n_idx[i], k]`, from the array model (every step is row-wise
in the noise operator and in the control operator). -/
theorem cmDeriv_select (h : Fin nH) (o : Fin nO) (g : Fin nG) (i : Fin nA) (k : Fin nK) :
    (controlMatrixDerivFromScratch kind thrF thrD thrA castReal omega props eigvals eigvecs basis t
        dt (selectRows nIdx nOpers) (selectRows nIdx nCoeffs) (selectRows cIdx cOpers)
        (selectNcd nIdx cIdx D))[h][o][g][i][k]
      = (controlMatrixDerivFromScratch kind thrF thrD thrA castReal omega props eigvals eigvecs basis
          t dt nOpers nCoeffs cOpers D)[cIdx[h]][o][g][nIdx[i]][k] := by
  rw [controlMatrixDerivFromScratch_get, controlMatrixDerivFromScratch_get]
  refine congrArg₂ (· + ·) (Finset.sum_congr rfl fun j _ => ?_)
    (Finset.sum_congr rfl fun tt _ => Finset.sum_congr rfl fun j _ => ?_)
  · rw [cmdSteps_select_snd]
  · rw [cmdSteps_select_fst, liouvilleDerivative_select]

end selectAll

/-! ### unfolding the end-to-end model -/

section unfold
variable {nG d nO nAll nCAll nA nH nK : Nat} (kind : MaskKind) (thrF thrD thrA : ℝ)
  (castReal : Bool) (dim : Nat) (omega : Vec ℝ nO) (props : Vector (Mat ℂ d d) (nG + 1))
  (eigvals : Mat ℝ nG d) (eigvecs : Vector (Mat ℂ d d) nG) (basis : Vector (Mat ℂ d d) nK)
  (t : Vec ℝ (nG + 1)) (dt : Vec ℝ nG) (nOpers : Vector (Mat ℂ d d) nAll)
  (nCoeffs : Mat ℝ nAll nG) (cOpers : Vector (Mat ℂ d d) nCAll)
  (nIdx : Vector (Fin nAll) nA) (cIdx : Vector (Fin nCAll) nH)
  (ncd : Option (Vector (Mat ℝ nH nG) nA))

theorem pulseFilterFunctionDerivative_eq :
    pulseFilterFunctionDerivative kind thrF thrD thrA castReal omega props eigvals eigvecs basis t dt
        nOpers nCoeffs cOpers nIdx cIdx ncd
      = getFilterFunctionDerivative (R := ℝ) nIdx
          (controlMatrixFromScratch kind thrF eigvals eigvecs (dropLast props) omega basis nOpers
            nCoeffs dt (dropLast t))
          (controlMatrixDerivFromScratch kind thrF thrD thrA castReal omega props eigvals eigvecs
            basis t dt (selectRows nIdx nOpers) (selectRows nIdx nCoeffs) (selectRows cIdx cOpers)
            ncd) := rfl

theorem infidFilterFunctionDeriv_none :
    infidFilterFunctionDeriv kind thrF thrD thrA castReal dim omega props eigvals eigvecs basis t dt
        nOpers nCoeffs cOpers nIdx cIdx none
      = pulseFilterFunctionDerivative kind thrF thrD thrA castReal omega props eigvals eigvecs basis t
          dt nOpers nCoeffs cOpers nIdx cIdx none := rfl

theorem infidFilterFunctionDeriv_some (D : Vector (Mat ℝ nH nG) nA) :
    infidFilterFunctionDeriv kind thrF thrD thrA castReal dim omega props eigvals eigvecs basis t dt
        nOpers nCoeffs cOpers nIdx cIdx (some D)
      = identityCorrectedFFD (K := ℂ)
          (pulseFilterFunctionDerivative kind thrF thrD thrA castReal omega props eigvals eigvecs basis
            t dt nOpers nCoeffs cOpers nIdx cIdx (some D))
          (identityComponent (identityTraces dim (selectRows nIdx nOpers)) (selectRows nIdx nCoeffs)
            (identitySegmentIntegral kind thrF omega t dt))
          (identityComponentDeriv (identityTraces dim (selectRows nIdx nOpers)) D
            (identitySegmentIntegral kind thrF omega t dt)) := rfl

theorem pulseInfidelityDerivative1_def (S : Mat ℝ nA nO) :
    pulseInfidelityDerivative1 kind thrF thrD thrA castReal dim omega props eigvals eigvecs basis t dt
        nOpers nCoeffs cOpers nIdx cIdx ncd S
      = infidelityDerivative1 dim omega S
          (infidFilterFunctionDeriv kind thrF thrD thrA castReal dim omega props eigvals eigvecs basis
            t dt nOpers nCoeffs cOpers nIdx cIdx ncd) := rfl

theorem pulseInfidelityDerivative0_def (S : Vec ℝ nO) :
    pulseInfidelityDerivative0 kind thrF thrD thrA castReal dim omega props eigvals eigvecs basis t dt
        nOpers nCoeffs cOpers nIdx cIdx ncd S
      = infidelityDerivative0 dim omega S
          (infidFilterFunctionDeriv kind thrF thrD thrA castReal dim omega props eigvals eigvecs basis
            t dt nOpers nCoeffs cOpers nIdx cIdx ncd) := rfl

/-- without `n_coeffs_deriv` the output is the trapezoid integral of the filter-function derivative -/
theorem pulseInfidelityDerivative1_eq (S : Mat ℝ nA nO) :
    pulseInfidelityDerivative1 kind thrF thrD thrA castReal dim omega props eigvals eigvecs basis t dt
        nOpers nCoeffs cOpers nIdx cIdx none S
      = infidelityDerivative1 dim omega S
          (getFilterFunctionDerivative (R := ℝ) nIdx
            (controlMatrixFromScratch kind thrF eigvals eigvecs (dropLast props) omega basis nOpers
              nCoeffs dt (dropLast t))
            (controlMatrixDerivFromScratch kind thrF thrD thrA castReal omega props eigvals eigvecs
              basis t dt (selectRows nIdx nOpers) (selectRows nIdx nCoeffs)
              (selectRows cIdx cOpers) none)) := rfl

theorem pulseInfidelityDerivative0_eq (S : Vec ℝ nO) :
    pulseInfidelityDerivative0 kind thrF thrD thrA castReal dim omega props eigvals eigvecs basis t dt
        nOpers nCoeffs cOpers nIdx cIdx none S
      = infidelityDerivative0 dim omega S
          (getFilterFunctionDerivative (R := ℝ) nIdx
            (controlMatrixFromScratch kind thrF eigvals eigvecs (dropLast props) omega basis nOpers
              nCoeffs dt (dropLast t))
            (controlMatrixDerivFromScratch kind thrF thrD thrA castReal omega props eigvals eigvecs
              basis t dt (selectRows nIdx nOpers) (selectRows nIdx nCoeffs)
              (selectRows cIdx cOpers) none)) := rfl

end unfold

/-! ### the full derivative (`identifiers = None`) and its slices -/

theorem allIdx_get (n : Nat) (i : Fin n) : (allIdx n)[i] = i := by
  unfold allIdx
  rw [vget]

theorem selectRows_allIdx {α : Type} {n : Nat} (v : Vector α n) : selectRows (allIdx n) v = v := by
  apply Vector.ext
  intro i hi
  simp only [selectRows, allIdx, Vector.getElem_ofFn, Fin.getElem_fin]

section slices
variable {nG d nO nAll nCAll nA nH nK : Nat} (kind : MaskKind) (thrF thrD thrA : ℝ)
  (castReal : Bool) (dim : Nat) (omega : Vec ℝ nO) (props : Vector (Mat ℂ d d) (nG + 1))
  (eigvals : Mat ℝ nG d) (eigvecs : Vector (Mat ℂ d d) nG) (basis : Vector (Mat ℂ d d) nK)
  (t : Vec ℝ (nG + 1)) (dt : Vec ℝ nG) (nOpers : Vector (Mat ℂ d d) nAll)
  (nCoeffs : Mat ℝ nAll nG) (cOpers : Vector (Mat ℂ d d) nCAll)
  (nIdx : Vector (Fin nAll) nA) (cIdx : Vector (Fin nCAll) nH)
  (D : Option (Vector (Mat ℝ nCAll nG) nAll))

theorem pulseFFD_select (i : Fin nA) (g : Fin nG) (h : Fin nH) (o : Fin nO) :
    (pulseFilterFunctionDerivative kind thrF thrD thrA castReal omega props eigvals eigvecs basis t
        dt nOpers nCoeffs cOpers nIdx cIdx (selectNcd nIdx cIdx D))[i][g][h][o]
      = (pulseFilterFunctionDerivative kind thrF thrD thrA castReal omega props eigvals eigvecs basis
          t dt nOpers nCoeffs cOpers (allIdx nAll) (allIdx nCAll) D)[nIdx[i]][g][cIdx[h]][o] := by
  rw [pulseFilterFunctionDerivative_eq, pulseFilterFunctionDerivative_eq]
  unfold getFilterFunctionDerivative
  rw [ffDerivative_get, ffDerivative_get, selectRows_allIdx, selectRows_allIdx, selectRows_allIdx,
    selectRows_allIdx, selectRows_get]
  congr 2
  refine Finset.sum_congr rfl fun k _ => ?_
  rw [cmDeriv_select]

end slices

end FFVerif.GradientInfidAux
