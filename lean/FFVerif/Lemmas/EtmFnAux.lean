/-
Helper lemmas for `FFVerif/Props/C09EtmFn.lean`: `Stack` (arrays with a run-time list of leading
axes), the success cases of `Model.EtmFn.cumulantFunction`, entries of the argument of `expm`.
-/
import FFVerif.Model.EtmFn
import FFVerif.Lemmas.Inst
import FFVerif.Lemmas.Bridge
import FFVerif.Lemmas.MatBridge

namespace FFVerif.Model.EtmFn
open FFVerif FFVerif.Model

namespace Stack
variable {α β γ : Type}

theorem sum_one [AddCommMonoid β] (f : α → β) (m : Nat) (x : Vector α m) :
    Stack.sum f [m] (x : Stack α [m]) = ∑ a : Fin m, f x[a] := by
  show fsum m (fun i => f x[i]) = _
  rw [fsum_eq_sum]

theorem sum_two [AddCommMonoid β] (f : α → β) (m n : Nat) (x : Vector (Vector α n) m) :
    Stack.sum f [m, n] (x : Stack α [m, n]) = ∑ a : Fin m, ∑ b : Fin n, f x[a][b] := by
  show fsum m (fun i => fsum n fun j => f x[i][j]) = _
  rw [fsum_eq_sum]
  exact Finset.sum_congr rfl fun a _ => fsum_eq_sum _ _

theorem sum_map_map_one {δ : Type} [AddCommMonoid δ] (h : γ → δ) (F : β → γ) (G : α → β)
    (m : Nat) (x : Vector α m) :
    Stack.sum h [m] (Stack.map F [m] (Stack.map G [m] (x : Stack α [m])))
      = ∑ a : Fin m, h (F (G x[a])) := by
  show fsum m (fun i => h ((Vector.map F (Vector.map G x))[i])) = _
  rw [fsum_eq_sum]
  refine Finset.sum_congr rfl fun a _ => ?_
  simp only [Fin.getElem_fin, Vector.getElem_map]

theorem sum_zipWith_map_map_one {α' β' δ : Type} [AddCommMonoid δ] (h : γ → δ) (F : β → β' → γ)
    (G : α → β) (G' : α' → β') (m : Nat) (x : Vector α m) (y : Vector α' m) :
    Stack.sum h [m] (Stack.zipWith F [m] (Stack.map G [m] (x : Stack α [m]))
        (Stack.map G' [m] (y : Stack α' [m])))
      = ∑ a : Fin m, h (F (G x[a]) (G' y[a])) := by
  show fsum m (fun i => h ((Vector.ofFn fun k : Fin m =>
    F ((Vector.map G x)[k]) ((Vector.map G' y)[k]))[i])) = _
  rw [fsum_eq_sum]
  refine Finset.sum_congr rfl fun a _ => ?_
  simp only [Fin.getElem_fin, Vector.getElem_map, Vector.getElem_ofFn]

end Stack

/-- entries of `.real` -/
theorem re2_get {a b : Nat} (M : Mat ℂ a b) (i : Fin a) (j : Fin b) :
    (re2 M : Mat ℝ a b)[i][j] = (M[i][j]).re := by
  simp only [re2, Fin.getElem_fin, Vector.getElem_map, copsRe]

/-- the sum over one leading axis, entrywise -/
theorem sumLeading_one {r c m : Nat} (X : Vector (Mat ℝ r c) m) :
    sumLeading [m] (X : Stack (Mat ℝ r c) [m]) = Mat.ofFn fun i j => ∑ a : Fin m, X[a][i][j] := by
  unfold sumLeading
  congr 1
  funext i j
  exact Stack.sum_one _ _ _

/-- the sum over two leading axes, entrywise -/
theorem sumLeading_two {r c m n : Nat} (X : Vector (Vector (Mat ℝ r c) n) m) :
    sumLeading [m, n] (X : Stack (Mat ℝ r c) [m, n])
      = Mat.ofFn fun i j => ∑ a : Fin m, ∑ b : Fin n, X[a][b][i][j] := by
  unfold sumLeading
  congr 1
  funext i j
  exact Stack.sum_two _ _ _ _

end FFVerif.Model.EtmFn
