/-
Helper lemmas for C09Exp: matrices with a vanishing row and column `i0` (the shape of the cumulant
function when basis element `i0` is a multiple of the identity), their powers, sums and matrix
exponential; Liouville matrix of a linear map on matrices.
-/
import Mathlib.Analysis.Normed.Algebra.MatrixExponential
import Mathlib.Analysis.Complex.Basic
import Mathlib.Data.Matrix.Basis
import FFVerif.Spec.Basis
import FFVerif.Lemmas.LiouvilleAux

namespace FFVerif.Spec
open Matrix

section rowcol
variable {n : Type} {𝔸 : Type}

/-- row `i0` and column `i0` of `M` vanish -/
def RowColZero [Zero 𝔸] (i0 : n) (M : Matrix n n 𝔸) : Prop :=
  (∀ j, M i0 j = 0) ∧ (∀ j, M j i0 = 0)

/-- row `i0` and column `i0` of `M` are the unit vector `e_{i0}` -/
def RowColUnit [DecidableEq n] [Zero 𝔸] [One 𝔸] (i0 : n) (M : Matrix n n 𝔸) : Prop :=
  (∀ j, M i0 j = if j = i0 then 1 else 0) ∧ (∀ j, M j i0 = if j = i0 then 1 else 0)

/-- vanishing row and column `i0` in terms of the matrix unit `E = e_{i0} e_{i0}ᵀ`:
`E M = 0` and `M E = 0` -/
theorem rowColZero_iff [Fintype n] [DecidableEq n] [NonAssocSemiring 𝔸] (i0 : n) (M : Matrix n n 𝔸) :
    RowColZero i0 M ↔ Matrix.single i0 i0 (1 : 𝔸) * M = 0 ∧ M * Matrix.single i0 i0 (1 : 𝔸) = 0 := by
  constructor
  · rintro ⟨hr, hc⟩
    constructor
    · ext a b
      by_cases h : a = i0
      · subst h; simp [hr]
      · simp [Matrix.single_mul_apply_of_ne, h]
    · ext a b
      by_cases h : b = i0
      · subst h; simp [hc]
      · simp [Matrix.mul_single_apply_of_ne, h]
  · rintro ⟨h1, h2⟩
    constructor
    · intro j
      have := congrFun (congrFun h1 i0) j
      simpa using this
    · intro j
      have := congrFun (congrFun h2 j) i0
      simpa using this

/-- unit row and column `i0` in terms of the matrix unit `E`: `E M = E` and `M E = E` -/
theorem rowColUnit_iff [Fintype n] [DecidableEq n] [NonAssocSemiring 𝔸] (i0 : n) (M : Matrix n n 𝔸) :
    RowColUnit i0 M ↔ Matrix.single i0 i0 (1 : 𝔸) * M = Matrix.single i0 i0 (1 : 𝔸)
      ∧ M * Matrix.single i0 i0 (1 : 𝔸) = Matrix.single i0 i0 (1 : 𝔸) := by
  constructor
  · rintro ⟨hr, hc⟩
    constructor
    · ext a b
      by_cases h : a = i0
      · subst h; simp [hr, Matrix.single_apply, eq_comm]
      · simp [Matrix.single_mul_apply_of_ne, h, Ne.symm h]
    · ext a b
      by_cases h : b = i0
      · subst h; simp [hc, Matrix.single_apply, eq_comm]
      · simp [Matrix.mul_single_apply_of_ne, h, Ne.symm h]
  · rintro ⟨h1, h2⟩
    constructor
    · intro j
      have := congrFun (congrFun h1 i0) j
      simpa [Matrix.single_apply, eq_comm] using this
    · intro j
      have := congrFun (congrFun h2 j) i0
      simpa [Matrix.single_apply, eq_comm] using this

theorem RowColZero.zero [Zero 𝔸] (i0 : n) : RowColZero i0 (0 : Matrix n n 𝔸) :=
  ⟨fun _ => rfl, fun _ => rfl⟩

theorem RowColZero.add [AddZeroClass 𝔸] {i0 : n} {A B : Matrix n n 𝔸} (hA : RowColZero i0 A)
    (hB : RowColZero i0 B) : RowColZero i0 (A + B) :=
  ⟨fun j => by rw [Matrix.add_apply, hA.1, hB.1, add_zero],
   fun j => by rw [Matrix.add_apply, hA.2, hB.2, add_zero]⟩

theorem RowColZero.sum [AddCommMonoid 𝔸] {ι : Type} {i0 : n} (s : Finset ι)
    (f : ι → Matrix n n 𝔸) (h : ∀ a ∈ s, RowColZero i0 (f a)) : RowColZero i0 (∑ a ∈ s, f a) := by
  constructor
  · intro j
    rw [Matrix.sum_apply]
    exact Finset.sum_eq_zero fun a ha => (h a ha).1 j
  · intro j
    rw [Matrix.sum_apply]
    exact Finset.sum_eq_zero fun a ha => (h a ha).2 j

/-- the product of a matrix with vanishing row `i0` and one with vanishing column `i0` has both -/
theorem RowColZero.mul [Fintype n] [NonUnitalNonAssocSemiring 𝔸] {i0 : n} {A B : Matrix n n 𝔸}
    (hA : ∀ j, A i0 j = 0) (hB : ∀ j, B j i0 = 0) : RowColZero i0 (A * B) :=
  ⟨fun j => by simp [Matrix.mul_apply, hA], fun j => by simp [Matrix.mul_apply, hB]⟩

theorem RowColZero.pow [Fintype n] [DecidableEq n] [Semiring 𝔸] {i0 : n} {M : Matrix n n 𝔸} (hM : RowColZero i0 M) :
    ∀ k : ℕ, 1 ≤ k → RowColZero i0 (M ^ k)
  | 0, h => absurd h (by omega)
  | 1, _ => by rw [pow_one]; exact hM
  | k + 2, _ => by
      have ih := RowColZero.pow hM (k + 1) (by omega)
      rw [pow_succ]
      exact RowColZero.mul ih.1 hM.2

end rowcol

section liouMap
variable {N d : Nat} {C : Fin N → Matrix (Fin d) (Fin d) ℂ}

/-- Liouville (transfer) matrix of a linear map `Φ` on `d × d` matrices with respect to the family
`C`: `U_ij = tr(C_i Φ(C_j))`. -/
def liouMap (C : Fin N → Matrix (Fin d) (Fin d) ℂ)
    (Φ : Matrix (Fin d) (Fin d) ℂ →ₗ[ℂ] Matrix (Fin d) (Fin d) ℂ) : Matrix (Fin N) (Fin N) ℂ :=
  fun i j => trace (C i * Φ (C j))

/-- the linear map `X ↦ U X U†` -/
def conjMap (U : Matrix (Fin d) (Fin d) ℂ) :
    Matrix (Fin d) (Fin d) ℂ →ₗ[ℂ] Matrix (Fin d) (Fin d) ℂ :=
  (LinearMap.mulLeft ℂ U).comp (LinearMap.mulRight ℂ Uᴴ)

theorem conjMap_apply (U X : Matrix (Fin d) (Fin d) ℂ) : conjMap U X = U * X * Uᴴ := by
  simp [conjMap, Matrix.mul_assoc]

/-- `Spec.liou C U` is the Liouville matrix of the map `X ↦ U X U†` -/
theorem liou_eq_liouMap (U : Matrix (Fin d) (Fin d) ℂ) : liou C U = liouMap C (conjMap U) := by
  ext i j
  simp only [liou, liouMap, conjMap_apply, Matrix.mul_assoc]

/-- an orthonormal family cannot contain `0 • 1` -/
theorem identity_coeff_ne_zero (hO : IsOrthoHerm C) (i0 : Fin N) (c : ℂ)
    (h0 : C i0 = c • (1 : Matrix (Fin d) (Fin d) ℂ)) : c ≠ 0 := by
  rintro rfl
  have h := hO.ortho i0 i0
  rw [h0] at h
  simp at h

/-- two matrices with the same expansion coefficients `tr(C_i M)` in a complete family agree -/
theorem eq_of_coeffs_eq (hC : IsComplete C) (A B : Matrix (Fin d) (Fin d) ℂ)
    (h : ∀ i, trace (C i * A) = trace (C i * B)) : A = B := by
  rw [hC A, hC B]
  refine Finset.sum_congr rfl fun j _ => ?_
  rw [trace_mul_comm A, trace_mul_comm B, h j]

end liouMap

section exp
open NormedSpace
variable {n : Type} [Fintype n] [DecidableEq n] {𝔸 : Type}
  [NormedRing 𝔸] [NormedAlgebra ℚ 𝔸] [CompleteSpace 𝔸]

set_option backward.isDefEq.respectTransparency false in
/-- `X A = B X` implies `X exp(A) = exp(B) X` for matrices (Mathlib's `SemiconjBy.exp_right` with
the norm hidden in the proof, as in `Matrix.exp_add_of_commute`). -/
theorem semiconjBy_exp {X A B : Matrix n n 𝔸} (h : SemiconjBy X A B) :
    SemiconjBy X (exp A) (exp B) :=
  open scoped Matrix.Norms.Operator in h.exp_right

/-- **The exponential of a matrix with vanishing row and column `i0` has the unit vector `e_{i0}`
as row and column `i0`.** -/
theorem RowColZero.exp {i0 : n} {M : Matrix n n 𝔸} (hM : RowColZero i0 M) :
    RowColUnit i0 (exp M) := by
  rw [rowColZero_iff] at hM
  rw [rowColUnit_iff]
  constructor
  · -- E M = 0 = 0 E, hence E exp M = exp 0 E = E
    have h : SemiconjBy (Matrix.single i0 i0 (1 : 𝔸)) M 0 := by
      rw [SemiconjBy, hM.1, zero_mul]
    have h' := semiconjBy_exp h
    rw [SemiconjBy, exp_zero, one_mul] at h'
    exact h'
  · -- E 0 = 0 = M E, hence E = E exp 0 = exp M E
    have h : SemiconjBy (Matrix.single i0 i0 (1 : 𝔸)) 0 M := by
      rw [SemiconjBy, hM.2, mul_zero]
    have h' := semiconjBy_exp h
    rw [SemiconjBy, exp_zero, mul_one] at h'
    exact h'.symm

end exp

end FFVerif.Spec
