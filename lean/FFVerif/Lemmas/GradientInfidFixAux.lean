/-
Helper lemmas for C11Infid, part 4: the identity-component correction of `infidelity_derivative`
(repair of finding F49; model `identitySegmentIntegral`, `identityTraces`, `identityComponent`,
`identityComponentDeriv`, `identityCorrectedFFD` in `Model/GradientInfid.lean`).
-/
import FFVerif.Lemmas.GradientInfidGapAux

namespace FFVerif.GradientInfidAux
open FFVerif FFVerif.Model FFVerif.GradientAux FFVerif.GradientAsmAux Matrix Complex
open scoped Matrix

/-! ### entries of the correction arrays -/

section entries
variable {nG d nO nA nH : Nat}

theorem identitySegmentIntegral_get (kind : MaskKind) (thrF : ℝ) (omega : Vec ℝ nO)
    (t : Vec ℝ (nG + 1)) (dt : Vec ℝ nG) (g : Fin nG) (o : Fin nO) :
    (identitySegmentIntegral (K := ℂ) kind thrF omega t dt)[g][o]
      = (firstOrderEntry kind thrF omega[o] dt[g] : ℂ)
        * Complex.exp (Complex.I * (((t[g.1]'(by omega)) : ℂ) * (omega[o] : ℂ))) := by
  unfold identitySegmentIntegral
  rw [Mat.ofFn_get, C01.firstOrderIntegral_get, copsExpI]
  have e : (#v[(0 : ℝ)] : Vec ℝ 1)[(0 : Fin 1)] = 0 := rfl
  rw [e, sub_self, add_zero]
  push_cast
  rfl

theorem identityTraces_get (dim : Nat) (ops : Vector (Mat ℂ d d) nA) (a : Fin nA) :
    (identityTraces (R := ℝ) dim ops)[a] = (trace ops[a].toMatrix).re / Real.sqrt (dim : ℝ) := by
  unfold identityTraces
  rw [vget, copsRe, fsum_eq_sum, ropsSqrt]
  simp only [Matrix.trace, Matrix.diag_apply, Mat.toMatrix_apply]

theorem identityComponent_get (traces : Vec ℝ nA) (nc : Mat ℝ nA nG) (seg : Mat ℂ nG nO)
    (a : Fin nA) (o : Fin nO) :
    (identityComponent traces nc seg)[a][o]
      = (traces[a] : ℂ) * ∑ g : Fin nG, (nc[a][g] : ℂ) * seg[g][o] := by
  unfold identityComponent
  rw [Mat.ofFn_get, fsum_eq_sum]
  simp only [copsOfReal]

theorem identityComponentDeriv_get (traces : Vec ℝ nA) (D : Vector (Mat ℝ nH nG) nA)
    (seg : Mat ℂ nG nO) (a : Fin nA) (tt : Fin nG) (h : Fin nH) (o : Fin nO) :
    (identityComponentDeriv traces D seg)[a][tt][h][o]
      = ((traces[a] * D[a][h][tt] : ℝ) : ℂ) * seg[tt][o] := by
  unfold identityComponentDeriv
  rw [vget, vget, vget, vget, copsOfReal]

theorem identityCorrectedFFD_get (ffd : Vector (Vector (Vector (Vector ℝ nO) nH) nG) nA)
    (ic : Mat ℂ nA nO) (icd : Vector (Vector (Vector (Vec ℂ nO) nH) nG) nA)
    (a : Fin nA) (tt : Fin nG) (h : Fin nH) (o : Fin nO) :
    (identityCorrectedFFD ffd ic icd)[a][tt][h][o]
      = ffd[a][tt][h][o] - 2 * (starRingEnd ℂ ic[a][o] * icd[a][tt][h][o]).re := by
  unfold identityCorrectedFFD
  rw [vget, vget, vget, vget, copsRe, copsConj]
  norm_num

/-- the trapezoid integral of the corrected filter-function derivative = the one of the uncorrected
minus the one of the correction; both spectrum shapes -/
theorem infidelityDerivative_corrected (dim : Nat) (omega : Vec ℝ nO)
    (ffd : Vector (Vector (Vector (Vector ℝ nO) nH) nG) nA)
    (ic : Mat ℂ nA nO) (icd : Vector (Vector (Vector (Vec ℂ nO) nH) nG) nA)
    (a : Fin nA) (tt : Fin nG) (h : Fin nH) :
    (∀ S1 : Mat ℝ nA nO,
      (infidelityDerivative1 dim omega S1 (identityCorrectedFFD ffd ic icd))[a][tt][h]
        = (infidelityDerivative1 dim omega S1 ffd)[a][tt][h]
          - integrate (Vector.ofFn fun o : Fin nO =>
              S1[a][o] * (2 * (starRingEnd ℂ ic[a][o] * icd[a][tt][h][o]).re)) omega
            / (2 * Real.pi * dim)) ∧
    (∀ S0 : Vec ℝ nO,
      (infidelityDerivative0 dim omega S0 (identityCorrectedFFD ffd ic icd))[a][tt][h]
        = (infidelityDerivative0 dim omega S0 ffd)[a][tt][h]
          - integrate (Vector.ofFn fun o : Fin nO =>
              S0[o] * (2 * (starRingEnd ℂ ic[a][o] * icd[a][tt][h][o]).re)) omega
            / (2 * Real.pi * dim)) := by
  constructor
  · intro S1
    rw [infidelityDerivative1_get, infidelityDerivative1_get, ← sub_div, ← integrate_sub]
    have e : (fun o : Fin nO => S1[a][o] * (identityCorrectedFFD ffd ic icd)[a][tt][h][o])
        = fun o : Fin nO => (Vector.ofFn fun o : Fin nO => S1[a][o] * ffd[a][tt][h][o])[o]
          - (Vector.ofFn fun o : Fin nO =>
              S1[a][o] * (2 * (starRingEnd ℂ ic[a][o] * icd[a][tt][h][o]).re))[o] := by
      funext o
      rw [identityCorrectedFFD_get, vget, vget]
      ring
    rw [e]
  · intro S0
    rw [infidelityDerivative0_get, infidelityDerivative0_get, ← sub_div, ← integrate_sub]
    have e : (fun o : Fin nO => S0[o] * (identityCorrectedFFD ffd ic icd)[a][tt][h][o])
        = fun o : Fin nO => (Vector.ofFn fun o : Fin nO => S0[o] * ffd[a][tt][h][o])[o]
          - (Vector.ofFn fun o : Fin nO =>
              S0[o] * (2 * (starRingEnd ℂ ic[a][o] * icd[a][tt][h][o]).re))[o] := by
      funext o
      rw [identityCorrectedFFD_get, vget, vget]
      ring
    rw [e]

end entries

/-! ### the identity component along the family of perturbed pulses -/

section family
variable {nG nO nAll nA nH : Nat}

/-- derivative of the identity component (as computed by the repaired `infidelity_derivative`) for a
sensitivity row that depends on `u` locally: the entry of `identity_component_deriv` -/
theorem identityComponent_hasDerivAt (traces : Vec ℝ nA) (nC : ℝ → Mat ℝ nAll nG)
    (nIdx : Vector (Fin nAll) nA) (D : Vector (Mat ℝ nH nG) nA) (seg : Mat ℂ nG nO)
    (a : Fin nA) (g' : Fin nG) (h : Fin nH)
    (hs : LocalSensitivity (fun u => (nC u)[nIdx[a]]) g' D[a][h][g']) (o : Fin nO) :
    HasDerivAt (fun u : ℝ => (identityComponent traces (selectRows nIdx (nC u)) seg)[a][o])
      ((identityComponentDeriv traces D seg)[a][g'][h][o]) 0 := by
  obtain ⟨hconst, hds, -⟩ := hs
  have hfun : (fun u : ℝ => (identityComponent traces (selectRows nIdx (nC u)) seg)[a][o])
      = fun u : ℝ => (traces[a] : ℂ) * ∑ g : Fin nG, ((nC u)[nIdx[a]][g] : ℂ) * seg[g][o] := by
    funext u
    rw [identityComponent_get, selectRows_get]
  rw [hfun, identityComponentDeriv_get]
  have hg : ∀ g : Fin nG, HasDerivAt (fun u : ℝ => (nC u)[nIdx[a]][g])
      (if g = g' then D[a][h][g'] else 0) 0 := by
    intro g
    by_cases hgg : g = g'
    · subst hgg
      rw [if_pos rfl]
      exact hds
    · rw [if_neg hgg]
      have e : (fun u : ℝ => (nC u)[nIdx[a]][g]) = fun _ : ℝ => (nC 0)[nIdx[a]][g] :=
        funext fun u => hconst u g hgg
      rw [e]
      exact hasDerivAt_const _ _
  have hsum := (HasDerivAt.fun_sum (u := Finset.univ) (fun (g : Fin nG) _ =>
    ((hg g).ofReal_comp).mul_const (seg[g][o]))).const_mul (traces[a] : ℂ)
  refine hsum.congr_deriv ?_
  rw [Finset.sum_eq_single g']
  · rw [if_pos rfl]
    push_cast
    ring
  · intro g _ hgg
    rw [if_neg hgg]
    simp
  · intro hn
    exact absurd (Finset.mem_univ g') hn

end family

/-! ### the correction in terms of the identity row of the control matrix -/

/-- `(Re tr B / √dim)² = |c|² |tr B|²` when `|c|² dim = 1` and `tr B` is real -/
theorem kappa_sq (dim : Nat) (c trB : ℂ) (hc : Complex.normSq c * (dim : ℝ) = 1) (htr : trB.im = 0) :
    (trB.re / Real.sqrt (dim : ℝ)) * (trB.re / Real.sqrt (dim : ℝ))
      = Complex.normSq c * Complex.normSq trB := by
  have hd : (dim : ℝ) ≠ 0 := by
    intro h0
    rw [h0, mul_zero] at hc
    exact zero_ne_one hc
  have hpos : (0 : ℝ) ≤ (dim : ℝ) := Nat.cast_nonneg _
  have hn : Complex.normSq trB = trB.re * trB.re := by
    rw [Complex.normSq_apply, htr, mul_zero, add_zero]
  have hcn : Complex.normSq c = 1 / (dim : ℝ) := by
    field_simp
    exact hc
  rw [div_mul_div_comm, Real.mul_self_sqrt hpos, hn, hcn]
  ring

/-- the identity row of the control matrix in terms of `segment_integral`:
`B[a][k0](ω_o) = c · tr(B_a) · Σ_g s_a^{(g)} segment_integral[g][o]` -/
theorem identity_row_eq_seg {nG d nO nA nK : Nat} (kind : MaskKind) (thr : ℝ)
    (eigvals : Mat ℝ nG d) (eigvecs props : Vector (Mat ℂ d d) nG)
    (omega : Vec ℝ nO) (basis : Vector (Mat ℂ d d) nK) (nOpers : Vector (Mat ℂ d d) nA)
    (nCoeffs : Mat ℝ nA nG) (dt : Vec ℝ nG) (t : Vec ℝ (nG + 1)) (k0 : Fin nK) (c : ℂ)
    (h0 : basis[k0].toMatrix = c • (1 : Matrix (Fin d) (Fin d) ℂ))
    (hV : ∀ g : Fin nG, (eigvecs[g].toMatrix)ᴴ * eigvecs[g].toMatrix = 1)
    (hQ : ∀ g : Fin nG, (props[g].toMatrix)ᴴ * props[g].toMatrix = 1)
    (a : Fin nA) (o : Fin nO) :
    (controlMatrixFromScratch kind thr eigvals eigvecs props omega basis nOpers nCoeffs dt
        (dropLast t))[a][k0][o]
      = c * trace nOpers[a].toMatrix
        * ∑ g : Fin nG, (nCoeffs[a][g] : ℂ) * (identitySegmentIntegral (K := ℂ) kind thr omega t dt)[g][o] := by
  rw [cm_identity_row kind thr eigvals eigvecs props omega basis nOpers nCoeffs dt (dropLast t) k0 c
    h0 hV hQ a o, Finset.mul_sum]
  refine Finset.sum_congr rfl fun g _ => ?_
  rw [identitySegmentIntegral_get, dropLast_get, mul_comm (omega[o] : ℂ)]
  ring

/-- two rows with entrywise equal moduli have the same `fidelityIntegral` -/
theorem fidelityIntegral_row_congr {nO : Nat} (dim : Nat) (omega S : Vec ℝ nO) (R R' : Vec ℂ nO)
    (h : ∀ o : Fin nO, Complex.normSq R[o] = Complex.normSq R'[o]) :
    fidelityIntegral dim omega S (#v[R] : Mat ℂ 1 nO) = fidelityIntegral dim omega S (#v[R'] : Mat ℂ 1 nO) := by
  unfold fidelityIntegral
  have e : (fun o : Fin nO => S[o] * ∑ k : Fin 1, Complex.normSq (#v[R] : Mat ℂ 1 nO)[k][o])
      = fun o : Fin nO => S[o] * ∑ k : Fin 1, Complex.normSq (#v[R'] : Mat ℂ 1 nO)[k][o] := by
    funext o
    rw [Fin.sum_univ_one, Fin.sum_univ_one]
    show S[o] * Complex.normSq R[o] = S[o] * Complex.normSq R'[o]
    rw [h o]
  rw [e]

/-- moduli: `|κ Σ|² = |c · tr B · Σ|²` for `κ = Re tr B/√dim`, `|c|² dim = 1`, `tr B` real -/
theorem normSq_kappa_eq (dim : Nat) (c trB sig : ℂ) (hc : Complex.normSq c * (dim : ℝ) = 1)
    (htr : trB.im = 0) :
    Complex.normSq (((trB.re / Real.sqrt (dim : ℝ) : ℝ) : ℂ) * sig)
      = Complex.normSq (c * trB * sig) := by
  rw [Complex.normSq_mul, Complex.normSq_mul, Complex.normSq_mul, Complex.normSq_ofReal,
    kappa_sq dim c trB hc htr]

/-- the integrand of the correction = the integrand of `identityGap` -/
theorem correction_integrand_eq (dim : Nat) (c trB sig e fo : ℂ) (D : ℝ)
    (hc : Complex.normSq c * (dim : ℝ) = 1) (htr : trB.im = 0) :
    starRingEnd ℂ (((trB.re / Real.sqrt (dim : ℝ) : ℝ) : ℂ) * sig)
        * (((trB.re / Real.sqrt (dim : ℝ) * D : ℝ) : ℂ) * (fo * e))
      = starRingEnd ℂ (c * trB * sig) * (e * (D : ℂ) * fo * c * trB) := by
  have hk : (((trB.re / Real.sqrt (dim : ℝ)) * (trB.re / Real.sqrt (dim : ℝ)) : ℝ) : ℂ)
      = (starRingEnd ℂ c * c) * (starRingEnd ℂ trB * trB) := by
    rw [kappa_sq dim c trB hc htr, Complex.ofReal_mul, Complex.normSq_eq_conj_mul_self,
      Complex.normSq_eq_conj_mul_self]
  rw [map_mul, map_mul, map_mul, Complex.conj_ofReal]
  have : ((trB.re / Real.sqrt (dim : ℝ) : ℝ) : ℂ) * starRingEnd ℂ sig
        * (((trB.re / Real.sqrt (dim : ℝ) * D : ℝ) : ℂ) * (fo * e))
      = (((trB.re / Real.sqrt (dim : ℝ)) * (trB.re / Real.sqrt (dim : ℝ)) : ℝ) : ℂ)
        * ((D : ℂ) * starRingEnd ℂ sig * (fo * e)) := by
    push_cast
    ring
  rw [this, hk]
  ring

/-! ### selections -/

section slices
variable {nG d nO nAll nCAll nA nH nK : Nat} (kind : MaskKind) (thrF thrD thrA : ℝ)
  (castReal : Bool) (dim : Nat) (omega : Vec ℝ nO) (props : Vector (Mat ℂ d d) (nG + 1))
  (eigvals : Mat ℝ nG d) (eigvecs : Vector (Mat ℂ d d) nG) (basis : Vector (Mat ℂ d d) nK)
  (t : Vec ℝ (nG + 1)) (dt : Vec ℝ nG) (nOpers : Vector (Mat ℂ d d) nAll)
  (nCoeffs : Mat ℝ nAll nG) (cOpers : Vector (Mat ℂ d d) nCAll)
  (nIdx : Vector (Fin nAll) nA) (cIdx : Vector (Fin nCAll) nH)

/-- the variable `filter_function_deriv` of `infidelity_derivative` (identity correction included)
of a selection is the slice of the full one -/
theorem infidFFD_select (D : Option (Vector (Mat ℝ nCAll nG) nAll)) (i : Fin nA) (g : Fin nG)
    (h : Fin nH) (o : Fin nO) :
    (infidFilterFunctionDeriv kind thrF thrD thrA castReal dim omega props eigvals eigvecs basis t
        dt nOpers nCoeffs cOpers nIdx cIdx (selectNcd nIdx cIdx D))[i][g][h][o]
      = (infidFilterFunctionDeriv kind thrF thrD thrA castReal dim omega props eigvals eigvecs basis
          t dt nOpers nCoeffs cOpers (allIdx nAll) (allIdx nCAll) D)[nIdx[i]][g][cIdx[h]][o] := by
  have hff := pulseFFD_select kind thrF thrD thrA castReal omega props eigvals eigvecs basis t dt
    nOpers nCoeffs cOpers nIdx cIdx D i g h o
  cases D with
  | none =>
    have e : selectNcd nIdx cIdx (none : Option (Vector (Mat ℝ nCAll nG) nAll)) = none := rfl
    rw [e] at hff ⊢
    rw [infidFilterFunctionDeriv_none, infidFilterFunctionDeriv_none]
    exact hff
  | some D =>
    have e : selectNcd nIdx cIdx (some D)
        = some (Vector.ofFn fun i => Vector.ofFn fun h => D[nIdx[i]][cIdx[h]]) := rfl
    rw [e] at hff ⊢
    rw [infidFilterFunctionDeriv_some, infidFilterFunctionDeriv_some, identityCorrectedFFD_get,
      identityCorrectedFFD_get, hff, identityComponent_get, identityComponent_get,
      identityComponentDeriv_get, identityComponentDeriv_get, identityTraces_get, identityTraces_get,
      selectRows_allIdx, selectRows_allIdx, selectRows_get, selectRows_get, vget, vget]

end slices

/-- the model of `numeric.infidelity` (traceless-basis branch, identity element `k0`) in terms of a
row `ι` whose moduli agree with those of the identity row of the control matrix -/
theorem numeric_eq_corrected {nAll nA nK nO : Nat} (dim : Nat) (omega : Vec ℝ nO)
    (B : Ten3 ℂ nAll nK nO) (T : Ten4 ℂ nK nK nK nK) (k0 : Fin nK) (nIdx : Vector (Fin nAll) nA)
    (S1 : Mat ℝ nA nO) (a : Fin nA) (ic : Vec ℂ nO)
    (hrow : ∀ o : Fin nO, Complex.normSq B[nIdx[a]][k0][o] = Complex.normSq ic[o]) :
    (infidelityFromCM2 true dim omega B T #v[k0] nIdx (ofRealSpec S1))[a]
      = fidelityIntegral dim omega S1[a] B[nIdx[a]]
        - fidelityIntegral dim omega S1[a] (#v[ic] : Mat ℂ 1 nO) := by
  rw [(infidelityFromCM2_fidelityIntegral dim omega B T nIdx S1 a).2 k0,
    fidelityIntegral_row_congr dim omega S1[a] _ _ hrow]

/-- along the family of perturbed pulses the identity row of the control matrix and the array
`identity_component` of the repaired `infidelity_derivative` have the same moduli -/
theorem family_identity_row_normSq {nG d nO nAll nA nK : Nat} (kind : MaskKind) (thr : ℝ) (dim : Nat)
    (omega : Vec ℝ nO) (basis : Vector (Mat ℂ d d) nK) (t : Vec ℝ (nG + 1)) (dt : Vec ℝ nG)
    (nOpers : Vector (Mat ℂ d d) nAll) (nIdx : Vector (Fin nAll) nA)
    {H : Fin nG → Matrix (Fin d) (Fin d) ℂ} {C : Mat ℂ d d} {g' : Fin nG}
    {eigvals : ℝ → Mat ℝ nG d} {eigvecs : ℝ → Vector (Mat ℂ d d) nG}
    (hE : AmplitudeFamily H C g' eigvals eigvecs) (nC : ℝ → Mat ℝ nAll nG)
    (k0 : Fin nK) (c : ℂ) (h0 : basis[k0].toMatrix = c • (1 : Matrix (Fin d) (Fin d) ℂ))
    (hc : Complex.normSq c * (dim : ℝ) = 1) (a : Fin nA)
    (htr : (trace nOpers[nIdx[a]].toMatrix).im = 0) (u : ℝ) (o : Fin nO) :
    Complex.normSq (controlMatrixFromScratch kind thr (eigvals u) (eigvecs u)
        (dropLast (propagators (eigvals u) (eigvecs u) dt)) omega basis nOpers (nC u) dt
        (dropLast t))[nIdx[a]][k0][o]
      = Complex.normSq ((identityComponent (identityTraces dim (selectRows nIdx nOpers))
          (selectRows nIdx (nC u)) (identitySegmentIntegral (K := ℂ) kind thr omega t dt))[a])[o] := by
  rw [identity_row_eq_seg kind thr (eigvals u) (eigvecs u) _ omega basis nOpers (nC u) dt t k0 c h0
      (family_unitary hE dt u).1 (family_unitary hE dt u).2 nIdx[a] o,
    identityComponent_get, identityTraces_get, selectRows_get]
  have hrow : ∀ g : Fin nG, (selectRows nIdx (nC u))[a][g] = (nC u)[nIdx[a]][g] :=
    fun g => by rw [selectRows_get]
  simp only [hrow]
  exact (normSq_kappa_eq dim c (trace nOpers[nIdx[a]].toMatrix) _ hc htr).symm

end FFVerif.GradientInfidAux
