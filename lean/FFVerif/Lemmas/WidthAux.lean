/-
Helper lemmas and vocabulary for C19Width: the control matrix computed by the model of
`numeric.calculate_control_matrix_from_scratch` for a pulse made of free-evolution segments
(`H = 0`) interleaved with rectangular π pulses of finite width `w` about `σ_x`, compared with the
sign-flip pulse of C19Engine.

Contents
* `segOp_free`        a segment with zero eigenvalues contributes `I(ω, dt) · Q†BQ` (toggling frame)
* `E`, `norm_E_sub_le` the scalar integrals `∫_a^b e^{iωu} du` and their dependence on the end points
* `piX`, `segProp_pi`  the propagator of a rectangular π pulse is `-iσ_x` for every width
* `FiniteWidth`        the inputs of the model for the finite-width pulse (eigh contract per segment)
* parity bookkeeping (`sum_range_even`, `sum_range_odd`, …)
-/
import Mathlib.Topology.Algebra.Order.LiminfLimsup
import Mathlib.Topology.Algebra.Monoid
import Mathlib.Analysis.Complex.Basic
import FFVerif.Lemmas.BoundAux
import FFVerif.Lemmas.EngineAux
import FFVerif.Props.C02

namespace FFVerif.WidthAux
open FFVerif FFVerif.Model FFVerif.BoundAux FFVerif.EngineAux Complex Matrix MeasureTheory
  intervalIntegral

/-! ### 1. a segment without control in the toggling frame -/

section generic
variable {d : Nat}

/-- a segment whose eigenvalues are all `0` (free evolution) and whose eigenvector matrix is unitary
contributes `I(ω, dt) · Q†BQ`: the noise operator in the frame of the cumulative propagator `Q`,
times the scalar written by `_first_order_integral` (either branch). -/
theorem segOp_free (kind : MaskKind) (thr : ℝ) (lam : Fin d → ℝ)
    (V Q B : Matrix (Fin d) (Fin d) ℂ) (ω dt : ℝ) (hlam : ∀ m, lam m = 0) (hV : V * Vᴴ = 1) :
    segOp kind thr lam V Q B ω dt = (firstOrderEntry kind thr ω dt : ℂ) • (Qᴴ * B * Q) := by
  unfold segOp
  have h : (Matrix.of fun m n => (Vᴴ * B * V) m n *
      (firstOrderEntry kind thr (ω + (lam m - lam n)) dt : ℂ))
      = (firstOrderEntry kind thr ω dt : ℂ) • (Vᴴ * B * V) := by
    ext m n
    simp [hlam, mul_comm]
  rw [h, Matrix.conjTranspose_mul, Matrix.conjTranspose_conjTranspose, Matrix.mul_smul,
    Matrix.smul_mul]
  congr 1
  calc Qᴴ * V * (Vᴴ * B * V) * (Vᴴ * Q) = Qᴴ * (V * Vᴴ) * B * (V * Vᴴ) * Q := by
        simp only [Matrix.mul_assoc]
    _ = Qᴴ * B * Q := by rw [hV]; simp

/-- eigenvalues returned by `eigh` for `H = 0` are `0` (contract `IsEigh`) -/
theorem eigvals_zero_of_eigh_zero {D : Fin d → ℝ} {V : Matrix (Fin d) (Fin d) ℂ}
    (h : C02.IsEigh (0 : Matrix (Fin d) (Fin d) ℂ) D V) (j : Fin d) : D j = 0 := by
  have h1 : V * diagonal (fun i => (D i : ℂ)) = 0 := by rw [← h.eig, Matrix.zero_mul]
  have h2 : diagonal (fun i => (D i : ℂ)) = 0 := by
    have := congrArg (fun M => Vᴴ * M) h1
    simpa [← Matrix.mul_assoc, h.left] using this
  have h3 := congrFun (congrFun h2 j) j
  simpa using h3

end generic

/-! ### 2. the scalar integrals `∫_a^b e^{iωu} du` -/

/-- `E ω a b = ∫_a^b e^{iωu} du` -/
noncomputable def E (ω a b : ℝ) : ℂ := ∫ u in a..b, Complex.exp (Complex.I * ω * u)

theorem E_intervalIntegrable (ω a b : ℝ) :
    IntervalIntegrable (fun u : ℝ => Complex.exp (Complex.I * ω * u)) volume a b := by
  apply Continuous.intervalIntegrable
  fun_prop

theorem norm_E_le (ω a b : ℝ) : ‖E ω a b‖ ≤ |b - a| := by
  unfold E
  have h := intervalIntegral.norm_integral_le_of_norm_le_const (a := a) (b := b) (C := 1)
    (f := fun s : ℝ => Complex.exp (Complex.I * ω * s)) (fun s _ => by
      rw [mul_assoc, norm_expI_mul])
  simpa using h

/-- `∫_{a'}^{b'} = ∫_{a'}^{a} + ∫_a^b + ∫_b^{b'}` -/
theorem E_split (ω a' a b b' : ℝ) : E ω a' b' = E ω a' a + E ω a b + E ω b b' := by
  unfold E
  rw [intervalIntegral.integral_add_adjacent_intervals (E_intervalIntegrable ω a' a)
      (E_intervalIntegrable ω a b),
    intervalIntegral.integral_add_adjacent_intervals (E_intervalIntegrable ω a' b)
      (E_intervalIntegrable ω b b')]

/-- moving the end points of the integral by `|a − a'|`, `|b − b'|` changes it by at most that -/
theorem norm_E_sub_le (ω a' a b b' : ℝ) : ‖E ω a b - E ω a' b'‖ ≤ |a - a'| + |b' - b| := by
  rw [E_split ω a' a b b']
  have : E ω a b - (E ω a' a + E ω a b + E ω b b') = -(E ω a' a + E ω b b') := by ring
  rw [this, norm_neg]
  exact (norm_add_le _ _).trans (add_le_add (norm_E_le ω a' a) (norm_E_le ω b b'))

/-- the term of segment `(t, dt)` in the control matrix of a pulse without control is the integral
over the segment -/
theorem expI_mul_segIntegral (ω t dt : ℝ) :
    Complex.exp (Complex.I * ((ω : ℂ) * (t : ℂ))) * C01.segIntegral ω dt = E ω t (t + dt) := by
  unfold C01.segIntegral E
  rw [← intervalIntegral.integral_const_mul]
  have h := intervalIntegral.integral_comp_add_right (a := 0) (b := dt)
    (fun u : ℝ => Complex.exp (Complex.I * ω * u)) t
  rw [zero_add, add_comm dt t] at h
  rw [← h]
  refine intervalIntegral.integral_congr fun s _ => ?_
  show _ * _ = _
  rw [← Complex.exp_add]
  congr 1
  push_cast
  ring

/-! ### 3. the rectangular π pulse about `x` -/

/-- `-iσ_x`: the propagator of a π rotation about `x` -/
noncomputable def piX : Matrix (Fin 2) (Fin 2) ℂ := (-Complex.I) • Spec.sigma 1

/-- Hamiltonian of a rectangular π pulse of width `w` about `x`: amplitude `π/w` on the control
operator `σ_x/2` -/
noncomputable def piH (w : ℝ) : Matrix (Fin 2) (Fin 2) ℂ :=
  ((Real.pi / w : ℝ) : ℂ) • ((1 / 2 : ℂ) • Spec.sigma 1)

theorem sigma1_sq : Spec.sigma 1 * Spec.sigma 1 = 1 := by
  ext i j
  fin_cases i <;> fin_cases j <;> simp [Spec.sigma, Matrix.mul_apply, Fin.sum_univ_two]

theorem piH_eq (w : ℝ) : piH w = ((Real.pi / (2 * w) : ℝ) : ℂ) • Spec.sigma 1 := by
  unfold piH
  rw [smul_smul]
  congr 1
  push_cast
  ring

theorem piH_sq (w : ℝ) : piH w * piH w = (((Real.pi / (2 * w)) ^ 2 : ℝ) : ℂ) • 1 := by
  rw [piH_eq, Matrix.smul_mul, Matrix.mul_smul, sigma1_sq, smul_smul]
  congr 1
  push_cast
  ring

/-- every eigenvalue returned by `eigh` for the π-pulse Hamiltonian squares to `(π/2w)²` -/
theorem eig_sq_pi {w : ℝ} {D : Fin 2 → ℝ} {V : Matrix (Fin 2) (Fin 2) ℂ}
    (h : C02.IsEigh (piH w) D V) (j : Fin 2) : D j ^ 2 = (Real.pi / (2 * w)) ^ 2 := by
  have h1 : piH w * piH w * V = V * (diagonal (fun i => (D i : ℂ)) * diagonal (fun i => (D i : ℂ))) := by
    rw [Matrix.mul_assoc, h.eig, ← Matrix.mul_assoc, h.eig, Matrix.mul_assoc]
  rw [piH_sq, Matrix.smul_mul, Matrix.one_mul, Matrix.diagonal_mul_diagonal] at h1
  have h2 := congrArg (fun M => Vᴴ * M) h1
  simp only [Matrix.mul_smul, ← Matrix.mul_assoc, h.left, Matrix.one_mul] at h2
  have h3 := congrFun (congrFun h2 j) j
  simp only [Matrix.smul_apply, Matrix.one_apply_eq, Matrix.diagonal_apply_eq, smul_eq_mul,
    mul_one] at h3
  have h4 : (((Real.pi / (2 * w)) ^ 2 : ℝ) : ℂ) = ((D j ^ 2 : ℝ) : ℂ) := by
    rw [h3]; push_cast; ring
  exact (Complex.ofReal_injective h4).symm

theorem exp_neg_I_half_pi : Complex.exp (-(Complex.I * ((Real.pi / 2 : ℝ) : ℂ))) = -Complex.I := by
  have h := Complex.exp_neg_pi_div_two_mul_I
  rw [← h]
  congr 1
  push_cast
  ring

theorem exp_I_half_pi : Complex.exp (Complex.I * ((Real.pi / 2 : ℝ) : ℂ)) = Complex.I := by
  have h := Complex.exp_pi_div_two_mul_I
  convert h using 2
  push_cast
  ring

/-- **A rectangular π pulse is a π rotation for every width**: under the `eigh` contract for
`H = (π/w) σ_x/2`, the segment propagator `V diag(e^{-iλw}) V†` the code evaluates for the duration
`w` is `-iσ_x`, whatever eigenvalue order and eigenvector phases `eigh` returns. -/
theorem segProp_pi {w : ℝ} (hw : w ≠ 0) {D : Fin 2 → ℝ} {V : Matrix (Fin 2) (Fin 2) ℂ}
    (h : C02.IsEigh (piH w) D V) : C02.segProp D V w = piX := by
  have hc : Real.pi / (2 * w) ≠ 0 := div_ne_zero Real.pi_ne_zero (mul_ne_zero two_ne_zero hw)
  have hcC : ((Real.pi / (2 * w) : ℝ) : ℂ) ≠ 0 := by exact_mod_cast hc
  have hwC : (w : ℂ) ≠ 0 := by exact_mod_cast hw
  have hfun : (fun j => Complex.exp (-(Complex.I * ((w : ℂ) * (D j : ℂ)))))
      = fun j => (-Complex.I / ((Real.pi / (2 * w) : ℝ) : ℂ)) * (D j : ℂ) := by
    funext j
    rcases sq_eq_sq_iff_eq_or_eq_neg.mp (eig_sq_pi h j) with hj | hj
    · have e : (w : ℂ) * (D j : ℂ) = ((Real.pi / 2 : ℝ) : ℂ) := by
        rw [hj, ← Complex.ofReal_mul]; congr 1; field_simp
      rw [e, exp_neg_I_half_pi, hj]
      field_simp
    · have e : -(Complex.I * ((w : ℂ) * (D j : ℂ))) = Complex.I * ((Real.pi / 2 : ℝ) : ℂ) := by
        rw [hj, ← Complex.ofReal_mul, ← mul_neg, ← Complex.ofReal_neg]; congr 2; field_simp
      rw [e, exp_I_half_pi, hj]
      push_cast
      field_simp
  unfold C02.segProp
  rw [hfun]
  have hd : diagonal (fun j => (-Complex.I / ((Real.pi / (2 * w) : ℝ) : ℂ)) * (D j : ℂ))
      = (-Complex.I / ((Real.pi / (2 * w) : ℝ) : ℂ)) • diagonal (fun j => (D j : ℂ)) := by
    rw [← Matrix.diagonal_smul]; rfl
  rw [hd, Matrix.mul_smul, Matrix.smul_mul, ← h.spectral, piH_eq, smul_smul, piX]
  congr 1
  field_simp

/-- the segment propagator of a free segment is the identity -/
theorem segProp_free {d : Nat} {D : Fin d → ℝ} {V : Matrix (Fin d) (Fin d) ℂ}
    (h : C02.IsEigh (0 : Matrix (Fin d) (Fin d) ℂ) D V) (s : ℝ) : C02.segProp D V s = 1 := by
  rw [C02.piecewise_is_exp h, smul_zero, NormedSpace.exp_zero]

theorem piX_conj_sigmaZ : piXᴴ * Spec.sigma 3 * piX = -Spec.sigma 3 := by
  unfold piX
  ext i j
  fin_cases i <;> fin_cases j <;>
    simp [Spec.sigma, Matrix.mul_apply, Fin.sum_univ_two, Matrix.conjTranspose_apply]

/-- **Toggling frame**: after `j` π rotations about `x`, `σ_z ↦ (-1)^j σ_z` -/
theorem piX_pow_conj_sigmaZ (j : ℕ) :
    (piX ^ j)ᴴ * Spec.sigma 3 * piX ^ j = ((-1 : ℂ) ^ j) • Spec.sigma 3 := by
  induction j with
  | zero => simp
  | succ j ih =>
    rw [pow_succ, Matrix.conjTranspose_mul]
    calc piXᴴ * (piX ^ j)ᴴ * Spec.sigma 3 * (piX ^ j * piX)
        = piXᴴ * ((piX ^ j)ᴴ * Spec.sigma 3 * piX ^ j) * piX := by simp only [Matrix.mul_assoc]
      _ = ((-1 : ℂ) ^ (j + 1)) • Spec.sigma 3 := by
        rw [ih, Matrix.mul_smul, Matrix.smul_mul, piX_conj_sigmaZ, pow_succ, smul_neg]
        simp [neg_smul]

theorem piX_unitary : piXᴴ * piX = 1 := by
  unfold piX
  ext i j
  fin_cases i <;> fin_cases j <;>
    simp [Spec.sigma, Matrix.mul_apply, Fin.sum_univ_two, Matrix.conjTranspose_apply]

/-! ### 4. the finite-width pulse: inputs of the model -/

/-- Hamiltonian of segment `g` of the finite-width pulse: even segments are free evolution
(`H = 0`), odd segments rectangular π pulses of width `w` about `x` -/
noncomputable def widthH (w : ℝ) (g : ℕ) : Matrix (Fin 2) (Fin 2) ℂ :=
  if g % 2 = 0 then 0 else piH w

/-- **Inputs of the control-matrix model for `n` rectangular π pulses of width `w`**: `2n + 1`
segments, the even ones free evolution, the odd ones `H = (π/w) σ_x/2` for the duration `w`;
`eigvals`, `eigvecs` ANY output of `eigh` satisfying its contract for these Hamiltonians; `props` the
cumulative propagators and `t` the start times as the model of `numeric.diagonalize` /
`PulseSequence.t` computes them; all durations non-negative.  Placement: the `j`-th ideal flip time
`θ_j` (`j = 1 … n`) lies anywhere INSIDE the `j`-th pulse `[t_{2j-1}, t_{2j-1} + w]` (centred pulses,
pulses starting or ending at the flip times are all covered); `θ_0 = 0` and `θ_{n+1}` is the total
duration. -/
structure FiniteWidth {nG : Nat} (n : ℕ) (w : ℝ) (θ : ℕ → ℝ) (eigvals : Mat ℝ nG 2)
    (eigvecs props : Vector (Mat ℂ 2 2) nG) (dt t : Vec ℝ nG) : Prop where
  len : nG = 2 * n + 1
  width_pos : 0 < w
  eigh : ∀ g : Fin nG, C02.IsEigh (widthH w g.1) (fun m => eigvals[g][m]) eigvecs[g].toMatrix
  props_eq : ∀ g : Fin nG, props[g] = (propagators eigvals eigvecs dt)[g.1]'(Nat.lt_succ_of_lt g.2)
  time : ∀ g : Fin nG, t[g] = (times dt)[g.1]'(Nat.lt_succ_of_lt g.2)
  dur_nonneg : ∀ g : Fin nG, 0 ≤ dt[g]
  pulse_dur : ∀ g : Fin nG, g.1 % 2 = 1 → dt[g] = w
  flip_in : ∀ g : Fin nG, g.1 % 2 = 1 →
    t[g] ≤ θ ((g.1 + 1) / 2) ∧ θ ((g.1 + 1) / 2) ≤ t[g] + w
  start : θ 0 = 0
  total : (times dt)[nG] = θ (n + 1)

section fw
variable {nG : Nat} {n : ℕ} {w : ℝ} {θ : ℕ → ℝ} {eigvals : Mat ℝ nG 2}
  {eigvecs props : Vector (Mat ℂ 2 2) nG} {dt t : Vec ℝ nG}

/-- **Cumulative propagators of the finite-width pulse**: `Q_g = (-iσ_x)^{⌊g/2⌋}` exactly, for every
width (the number of completed π pulses before segment `g`). -/
theorem propagators_width (hF : FiniteWidth n w θ eigvals eigvecs props dt t) :
    ∀ (g : Nat) (hg : g ≤ nG),
      ((propagators eigvals eigvecs dt)[g]'(Nat.lt_succ_of_le hg)).toMatrix = piX ^ (g / 2) := by
  intro g
  induction g with
  | zero => intro _; rw [C02.propagators_zero]; simp
  | succ g ih =>
    intro hg
    have hg' : g < nG := hg
    rw [C02.propagators_succ eigvals eigvecs dt g hg', ih (Nat.le_of_lt hg')]
    have hE : C02.IsEigh (widthH w g) (fun j => eigvals[g][j]) eigvecs[g].toMatrix :=
      hF.eigh ⟨g, hg'⟩
    rcases Nat.mod_two_eq_zero_or_one g with h0 | h1
    · have hH : widthH w g = 0 := by simp [widthH, h0]
      rw [hH] at hE
      rw [segProp_free hE, Matrix.one_mul]
      congr 1
      omega
    · have hH : widthH w g = piH w := by simp [widthH, h1]
      rw [hH] at hE
      have hd : dt[g] = w := hF.pulse_dur ⟨g, hg'⟩ h1
      rw [hd, segProp_pi (ne_of_gt hF.width_pos) hE, ← pow_succ']
      congr 1
      omega

theorem props_width (hF : FiniteWidth n w θ eigvals eigvecs props dt t) (g : Fin nG) :
    props[g].toMatrix = piX ^ (g.1 / 2) := by
  rw [hF.props_eq g]
  exact propagators_width hF g.1 (Nat.le_of_lt g.2)

theorem piX_pow_unitary (j : ℕ) : (piX ^ j)ᴴ * piX ^ j = 1 := by
  induction j with
  | zero => simp
  | succ j ih =>
    rw [pow_succ, Matrix.conjTranspose_mul]
    calc piXᴴ * (piX ^ j)ᴴ * (piX ^ j * piX) = piXᴴ * ((piX ^ j)ᴴ * piX ^ j) * piX := by
          simp only [Matrix.mul_assoc]
      _ = 1 := by rw [ih, Matrix.mul_one, piX_unitary]

/-- the noise operator `σ_z/2` in the frame of the cumulative propagator before segment `g` -/
theorem props_conj_sigmaZ (hF : FiniteWidth n w θ eigvals eigvecs props dt t) (g : Fin nG) :
    (props[g].toMatrix)ᴴ * ((1 / 2 : ℂ) • Spec.sigma 3) * props[g].toMatrix
      = ((-1 : ℂ) ^ (g.1 / 2)) • ((1 / 2 : ℂ) • Spec.sigma 3) := by
  rw [props_width hF g, Matrix.mul_smul, Matrix.smul_mul, piX_pow_conj_sigmaZ, smul_comm]

theorem widthH_even {w : ℝ} {g : ℕ} (h : g % 2 = 0) : widthH w g = 0 := by simp [widthH, h]

end fw

/-! ### 5. parity bookkeeping -/

theorem sum_range_even {M : Type} [AddCommMonoid M] (n : ℕ) (F : ℕ → M) :
    ∑ g ∈ Finset.range (2 * n + 1), (if g % 2 = 0 then F g else 0)
      = ∑ j ∈ Finset.range (n + 1), F (2 * j) := by
  induction n with
  | zero => simp
  | succ n ih =>
    rw [show 2 * (n + 1) + 1 = (2 * n + 1) + 1 + 1 by ring, Finset.sum_range_succ,
      Finset.sum_range_succ, ih, Finset.sum_range_succ _ (n + 1)]
    have h1 : (2 * n + 1) % 2 = 1 := by omega
    have h2 : (2 * n + 1 + 1) % 2 = 0 := by omega
    rw [if_neg (by omega), if_pos h2, add_zero]
    congr 2

theorem sum_range_odd {M : Type} [AddCommMonoid M] (n : ℕ) (F : ℕ → M) :
    ∑ g ∈ Finset.range (2 * n + 1), (if g % 2 = 1 then F g else 0)
      = ∑ j ∈ Finset.range n, F (2 * j + 1) := by
  induction n with
  | zero => simp
  | succ n ih =>
    rw [show 2 * (n + 1) + 1 = (2 * n + 1) + 1 + 1 by ring, Finset.sum_range_succ,
      Finset.sum_range_succ, ih, Finset.sum_range_succ _ n]
    have h1 : (2 * n + 1) % 2 = 1 := by omega
    rw [if_pos h1, if_neg (by omega), add_zero]

/-- **Timing lemma.**  `T_g` the start times of the `2n + 1` segments of the finite-width pulse
(`T_{2n+1}` the total duration), `θ_j` the ideal flip times, each inside its pulse
`[T_{2j+1}, T_{2j+2}]` of width `w`: the alternating sums of the integrals `∫ e^{iωu} du` over the
free segments and over the ideal periods differ by at most `n · w`. -/
theorem timing_bound (n : ℕ) (w ω : ℝ) (T θ : ℕ → ℝ) (h0 : T 0 = θ 0)
    (hend : T (2 * n + 1) = θ (n + 1))
    (hflip : ∀ j < n, T (2 * j + 1) ≤ θ (j + 1) ∧ θ (j + 1) ≤ T (2 * j + 2))
    (hw : ∀ j < n, T (2 * j + 2) = T (2 * j + 1) + w) :
    ‖∑ j ∈ Finset.range (n + 1), ((-1 : ℂ) ^ j) * E ω (T (2 * j)) (T (2 * j + 1))
        - ∑ j ∈ Finset.range (n + 1), ((-1 : ℂ) ^ j) * E ω (θ j) (θ (j + 1))‖ ≤ n * w := by
  rw [← Finset.sum_sub_distrib]
  have hterm : ∀ j ∈ Finset.range (n + 1),
      ‖((-1 : ℂ) ^ j) * E ω (T (2 * j)) (T (2 * j + 1)) - ((-1 : ℂ) ^ j) * E ω (θ j) (θ (j + 1))‖
        ≤ |T (2 * j) - θ j| + |θ (j + 1) - T (2 * j + 1)| := by
    intro j _
    rw [← mul_sub, norm_mul, norm_pow, norm_neg, norm_one, one_pow, one_mul]
    exact norm_E_sub_le ω (θ j) (T (2 * j)) (T (2 * j + 1)) (θ (j + 1))
  refine (norm_sum_le _ _).trans ((Finset.sum_le_sum hterm).trans (le_of_eq ?_))
  rw [Finset.sum_add_distrib, Finset.sum_range_succ' (fun j => |T (2 * j) - θ j|),
    Finset.sum_range_succ (fun j => |θ (j + 1) - T (2 * j + 1)|)]
  have e0 : |T (2 * 0) - θ 0| = 0 := by simp [h0]
  have en : |θ (n + 1) - T (2 * n + 1)| = 0 := by simp [hend]
  rw [e0, en, add_zero, add_zero, ← Finset.sum_add_distrib]
  have hsum : ∀ j ∈ Finset.range n,
      |T (2 * (j + 1)) - θ (j + 1)| + |θ (j + 1) - T (2 * j + 1)| = w := by
    intro j hj
    have hj' : j < n := Finset.mem_range.mp hj
    obtain ⟨h1, h2⟩ := hflip j hj'
    have h3 := hw j hj'
    rw [show 2 * (j + 1) = 2 * j + 2 by ring, abs_of_nonneg (by linarith),
      abs_of_nonneg (by linarith)]
    linarith
  rw [Finset.sum_congr rfl hsum, Finset.sum_const, Finset.card_range, nsmul_eq_mul]

/-! ### 6. start times as a total function, sums over the segments -/

/-- the cumulative times `Model.times dt` as a total function of the index (`0` beyond the end) -/
noncomputable def timesFn {nG : Nat} (dt : Vec ℝ nG) (x : ℕ) : ℝ :=
  if h : x < nG + 1 then (times dt)[x] else 0

theorem timesFn_of_le {nG : Nat} (dt : Vec ℝ nG) (x : ℕ) (h : x ≤ nG) :
    timesFn dt x = (times dt)[x]'(Nat.lt_succ_of_le h) := by
  unfold timesFn
  rw [dif_pos (Nat.lt_succ_of_le h)]

theorem timesFn_succ {nG : Nat} (dt : Vec ℝ nG) (x : ℕ) (h : x < nG) :
    timesFn dt (x + 1) = timesFn dt x + dt[x] := by
  rw [timesFn_of_le dt (x + 1) h, timesFn_of_le dt x (Nat.le_of_lt h), times_getElem_succ dt x h]

/-- sum over the even-indexed segments of a `2n+1`-segment pulse -/
theorem sum_fin_even {M : Type} [AddCommMonoid M] (n : ℕ) (F : ℕ → M) :
    ∑ g ∈ (Finset.univ.filter fun g : Fin (2 * n + 1) => g.1 % 2 = 1)ᶜ, F g.1
      = ∑ j ∈ Finset.range (n + 1), F (2 * j) := by
  have hP : (Finset.univ.filter fun g : Fin (2 * n + 1) => g.1 % 2 = 1)ᶜ
      = Finset.univ.filter fun g : Fin (2 * n + 1) => g.1 % 2 = 0 := by
    ext g
    simp only [Finset.mem_compl, Finset.mem_filter, Finset.mem_univ, true_and]
    omega
  rw [hP, Finset.sum_filter, Fin.sum_univ_eq_sum_range (fun x => if x % 2 = 0 then F x else 0),
    sum_range_even]

/-- sum over the odd-indexed segments of a `2n+1`-segment pulse -/
theorem sum_fin_odd {M : Type} [AddCommMonoid M] (n : ℕ) (F : ℕ → M) :
    ∑ g ∈ Finset.univ.filter fun g : Fin (2 * n + 1) => g.1 % 2 = 1, F g.1
      = ∑ j ∈ Finset.range n, F (2 * j + 1) := by
  rw [Finset.sum_filter, Fin.sum_univ_eq_sum_range (fun x => if x % 2 = 1 then F x else 0),
    sum_range_odd]

/-- the exact sensitivity integral of a sign sequence as a sum of integrals over the periods -/
theorem sensInt_signSequence {nG : Nat} {δ σ : ℕ → ℝ} {τ : ℝ} {s dt t : Vec ℝ nG}
    (h : SignSequence δ σ τ s dt t) (hδ0 : δ 0 = 0) (ω : ℝ) :
    sensInt ω s dt t
      = ∑ j ∈ Finset.range nG, (σ j : ℂ) * E ω (δ j * τ) (δ (j + 1) * τ) := by
  unfold sensInt
  rw [Finset.sum_range]
  refine Finset.sum_congr rfl fun g _ => ?_
  have hs := h.sens g
  have ht : t[g] = δ g.1 * τ := by
    rw [h.time g]; exact times_signSequence h hδ0 g.1 (Nat.le_of_lt g.2)
  have hd := h.dur g
  rw [mul_assoc, expI_mul_segIntegral, hs, ht, hd]
  congr 2
  ring

/-- the timing lemma for the finite-width pulse -/
theorem finiteWidth_timing {nG : Nat} {n : ℕ} {w : ℝ} {θ : ℕ → ℝ} {eigvals : Mat ℝ nG 2}
    {eigvecs props : Vector (Mat ℂ 2 2) nG} {dt t : Vec ℝ nG}
    (hF : FiniteWidth n w θ eigvals eigvecs props dt t) (ω : ℝ) :
    ‖∑ j ∈ Finset.range (n + 1), ((-1 : ℂ) ^ j) * E ω (timesFn dt (2 * j)) (timesFn dt (2 * j + 1))
        - ∑ j ∈ Finset.range (n + 1), ((-1 : ℂ) ^ j) * E ω (θ j) (θ (j + 1))‖ ≤ n * w := by
  have hlen := hF.len
  subst hlen
  have hpulse : ∀ j < n, timesFn dt (2 * j + 2) = timesFn dt (2 * j + 1) + w := by
    intro j hj
    have hlt : 2 * j + 1 < 2 * n + 1 := by omega
    rw [timesFn_succ dt (2 * j + 1) hlt]
    congr 1
    exact hF.pulse_dur ⟨2 * j + 1, hlt⟩ (by show (2 * j + 1) % 2 = 1; omega)
  refine timing_bound n w ω (timesFn dt) θ ?_ ?_ ?_ hpulse
  · rw [timesFn_of_le dt 0 (Nat.zero_le _), times_getElem_zero, hF.start]
  · rw [timesFn_of_le dt (2 * n + 1) (Nat.le_refl _)]; exact hF.total
  · intro j hj
    have hlt : 2 * j + 1 < 2 * n + 1 := by omega
    have h := hF.flip_in ⟨2 * j + 1, hlt⟩ (by show (2 * j + 1) % 2 = 1; omega)
    have e : (2 * j + 1 + 1) / 2 = j + 1 := by omega
    have ht : t[(⟨2 * j + 1, hlt⟩ : Fin (2 * n + 1))] = timesFn dt (2 * j + 1) := by
      rw [hF.time ⟨2 * j + 1, hlt⟩, timesFn_of_le dt (2 * j + 1) (Nat.le_of_lt hlt)]
    simp only [e, ht] at h
    rw [hpulse j hj]
    exact h

/-- start and end of the `j`-th free segment relative to the ideal flip times:
`θ_j ≤ T_{2j} ≤ θ_j + w` and `θ_{j+1} − w ≤ T_{2j+1} ≤ θ_{j+1}` -/
theorem finiteWidth_free_ends {nG : Nat} {n : ℕ} {w : ℝ} {θ : ℕ → ℝ} {eigvals : Mat ℝ nG 2}
    {eigvecs props : Vector (Mat ℂ 2 2) nG} {dt t : Vec ℝ nG}
    (hF : FiniteWidth n w θ eigvals eigvecs props dt t) (j : ℕ) (hj : j ≤ n) :
    (θ j ≤ timesFn dt (2 * j) ∧ timesFn dt (2 * j) ≤ θ j + w)
    ∧ (θ (j + 1) - w ≤ timesFn dt (2 * j + 1) ∧ timesFn dt (2 * j + 1) ≤ θ (j + 1)) := by
  have hlen := hF.len
  subst hlen
  have hw := hF.width_pos
  have key : ∀ i < n, timesFn dt (2 * i + 1) ≤ θ (i + 1) ∧ θ (i + 1) ≤ timesFn dt (2 * i + 1) + w
      ∧ timesFn dt (2 * i + 2) = timesFn dt (2 * i + 1) + w := by
    intro i hi
    have hlt : 2 * i + 1 < 2 * n + 1 := by omega
    have h := hF.flip_in ⟨2 * i + 1, hlt⟩ (by show (2 * i + 1) % 2 = 1; omega)
    have e : (2 * i + 1 + 1) / 2 = i + 1 := by omega
    have ht : t[(⟨2 * i + 1, hlt⟩ : Fin (2 * n + 1))] = timesFn dt (2 * i + 1) := by
      rw [hF.time ⟨2 * i + 1, hlt⟩, timesFn_of_le dt (2 * i + 1) (Nat.le_of_lt hlt)]
    simp only [e, ht] at h
    refine ⟨h.1, h.2, ?_⟩
    rw [timesFn_succ dt (2 * i + 1) hlt]
    congr 1
    exact hF.pulse_dur ⟨2 * i + 1, hlt⟩ (by show (2 * i + 1) % 2 = 1; omega)
  constructor
  · cases j with
    | zero =>
      rw [timesFn_of_le dt (2 * 0) (Nat.zero_le _)]
      simp only [Nat.mul_zero, times_getElem_zero, hF.start]
      exact ⟨le_refl _, by linarith⟩
    | succ i =>
      obtain ⟨h1, h2, h3⟩ := key i (by omega)
      rw [show 2 * (i + 1) = 2 * i + 2 by ring, h3]
      constructor <;> linarith
  · rcases Nat.lt_or_ge j n with hlt | hge
    · obtain ⟨h1, h2, _⟩ := key j hlt
      constructor <;> linarith
    · have hjn : j = n := le_antisymm hj hge
      subst hjn
      rw [timesFn_of_le dt (2 * j + 1) (Nat.le_refl _), hF.total]
      constructor <;> linarith

/-- duration of a free segment of the finite-width pulse versus the ideal period:
`dt'_j − 2w ≤ dt_{2j} ≤ dt'_j` -/
theorem finiteWidth_free_dur {nG : Nat} {n : ℕ} {w : ℝ} {θ : ℕ → ℝ} {eigvals : Mat ℝ nG 2}
    {eigvecs props : Vector (Mat ℂ 2 2) nG} {dt t : Vec ℝ nG}
    (hF : FiniteWidth n w θ eigvals eigvecs props dt t) (g : Fin nG) (hg : g.1 % 2 = 0) :
    dt[g] ≤ θ (g.1 / 2 + 1) - θ (g.1 / 2) ∧ θ (g.1 / 2 + 1) - θ (g.1 / 2) - 2 * w ≤ dt[g] := by
  have hlen := hF.len
  have hjn : g.1 / 2 ≤ n := by have := g.2; omega
  obtain ⟨⟨h1, h2⟩, ⟨h3, h4⟩⟩ := finiteWidth_free_ends hF (g.1 / 2) hjn
  have e : 2 * (g.1 / 2) = g.1 := by omega
  rw [e] at h1 h2 h3 h4
  have hd : timesFn dt (g.1 + 1) = timesFn dt g.1 + dt[g] := timesFn_succ dt g.1 g.2
  constructor <;> linarith

/-! ### 7. from an `O(w)` bound on the control matrix to the limit of the filter function -/

open Filter Topology in
/-- if every entry `X_w k` is within `w · C_k` of `Y_k` for small `w > 0`, the fidelity filter
function `Σ_k conj(X_w k) X_w k` tends to `Σ_k conj(Y_k) Y_k` as `w → 0⁺` -/
theorem tendsto_ff_of_cm {nK : Nat} (X : ℝ → Fin nK → ℂ) (Y : Fin nK → ℂ) (C : Fin nK → ℝ)
    (hb : ∀ᶠ w in 𝓝[>] (0 : ℝ), ∀ k, ‖X w k - Y k‖ ≤ w * C k) :
    Tendsto (fun w => ∑ k, starRingEnd ℂ (X w k) * X w k) (𝓝[>] (0 : ℝ))
      (𝓝 (∑ k, starRingEnd ℂ (Y k) * Y k)) := by
  have hk : ∀ k, Tendsto (fun w => X w k) (𝓝[>] (0 : ℝ)) (𝓝 (Y k)) := by
    intro k
    rw [tendsto_iff_norm_sub_tendsto_zero]
    refine squeeze_zero' (Eventually.of_forall fun _ => norm_nonneg _) (hb.mono fun w h => h k) ?_
    have h0 : Tendsto (fun w : ℝ => w * C k) (𝓝 0) (𝓝 0) := by
      have hc : Continuous fun w : ℝ => w * C k := by fun_prop
      have := hc.tendsto 0
      simpa using this
    exact h0.mono_left nhdsWithin_le_nhds
  exact tendsto_finsetSum _ fun k _ =>
    ((Complex.continuous_conj.tendsto _).comp (hk k)).mul (hk k)

/-! ### 8. a concrete spin echo with a centred π pulse of width `w` (non-vacuity witness)

`τ = 1`, three segments `dt = (1/2 − w/2, w, 1/2 − w/2)`, Hamiltonians `0, (π/w) σ_x/2, 0`; `eigh`
output: eigenvalues `(0,0), (−π/2w, π/2w), (0,0)`, eigenvector matrices `1, (1/√2)[[1,1],[−1,1]], 1`;
propagators and times as the model computes them; sensitivity `1` on all three segments. -/

namespace SEW

noncomputable def r : ℂ := (((Real.sqrt 2)⁻¹ : ℝ) : ℂ)

theorem r_sq : r * r = 1 / 2 := by
  unfold r
  rw [← Complex.ofReal_mul, ← mul_inv, Real.mul_self_sqrt (by norm_num)]
  push_cast; ring

theorem r_conj : (starRingEnd ℂ) r = r := by unfold r; exact Complex.conj_ofReal _

noncomputable def hadM : Matrix (Fin 2) (Fin 2) ℂ := !![r, r; -r, r]

noncomputable def eigvals (w : ℝ) : Mat ℝ 3 2 :=
  #v[#v[0, 0], #v[-(Real.pi / (2 * w)), Real.pi / (2 * w)], #v[0, 0]]
noncomputable def eigvecs : Vector (Mat ℂ 2 2) 3 := #v[Mat.one, Mat.ofFn fun i j => hadM i j, Mat.one]
noncomputable def dt (w : ℝ) : Vec ℝ 3 := #v[1 / 2 - w / 2, w, 1 / 2 - w / 2]
noncomputable def props (w : ℝ) : Vector (Mat ℂ 2 2) 3 :=
  Vector.ofFn fun g : Fin 3 => (propagators (eigvals w) eigvecs (dt w))[g.1]'(Nat.lt_succ_of_lt g.2)
noncomputable def t (w : ℝ) : Vec ℝ 3 :=
  Vector.ofFn fun g : Fin 3 => (times (dt w))[g.1]'(Nat.lt_succ_of_lt g.2)
noncomputable def coeffs : Mat ℝ 1 3 := #v[#v[1, 1, 1]]

theorem had_eigh (w : ℝ) :
    C02.IsEigh (piH w) (fun m => (eigvals w)[(1 : Fin 3)][m]) hadM := by
  refine ⟨?_, ?_, ?_⟩
  · rw [piH_eq]
    ext i j
    fin_cases i <;> fin_cases j <;>
      simp [hadM, eigvals, Spec.sigma, Matrix.mul_apply, Fin.sum_univ_two] <;> ring
  · ext i j
    fin_cases i <;> fin_cases j <;>
      simp [hadM, Matrix.mul_apply, Fin.sum_univ_two, Matrix.conjTranspose_apply, r_conj] <;>
      linear_combination 2 * r_sq
  · ext i j
    fin_cases i <;> fin_cases j <;>
      simp [hadM, Matrix.mul_apply, Fin.sum_univ_two, Matrix.conjTranspose_apply, r_conj] <;>
      linear_combination 2 * r_sq

theorem times1 (w : ℝ) : (times (dt w))[1] = 1 / 2 - w / 2 := by
  have h := times_getElem_succ (dt w) 0 (by norm_num)
  simp only [zero_add] at h
  rw [h, times_getElem_zero]
  simp [dt]

theorem times2 (w : ℝ) : (times (dt w))[2] = 1 / 2 + w / 2 := by
  have h := times_getElem_succ (dt w) 1 (by norm_num)
  rw [h, times1]
  simp [dt]; ring

theorem times3 (w : ℝ) : (times (dt w))[3] = 1 := by
  have h := times_getElem_succ (dt w) 2 (by norm_num)
  rw [h, times2]
  simp [dt]; ring

/-- the witness is a `FiniteWidth` pulse for every width `0 < w ≤ 1` (one centred π pulse, flip
time `1/2`, total duration `1`) -/
theorem finiteWidth (w : ℝ) (hw0 : 0 < w) (hw1 : w ≤ 1) :
    FiniteWidth 1 w (fun j => (j : ℝ) / 2 * 1) (eigvals w) eigvecs (props w) (dt w) (t w) where
  len := rfl
  width_pos := hw0
  eigh := by
    intro g
    fin_cases g
    · have h : widthH w 0 = 0 := by simp [widthH]
      show C02.IsEigh (widthH w 0) (fun m => (eigvals w)[(0 : Fin 3)][m])
        (eigvecs[(0 : Fin 3)]).toMatrix
      have hD : (fun m : Fin 2 => (eigvals w)[(0 : Fin 3)][m]) = fun _ => 0 := by
        funext m; fin_cases m <;> simp [eigvals]
      have hV : (eigvecs[(0 : Fin 3)]).toMatrix = 1 := by
        simp [eigvecs, Mat.toMatrix_one]
      rw [h, hD, hV]
      exact ⟨by simp, by simp, by simp⟩
    · have h : widthH w 1 = piH w := by simp [widthH]
      show C02.IsEigh (widthH w 1) _ _
      rw [h]
      have hV : (eigvecs[(1 : Fin 3)]).toMatrix = hadM := by
        simp only [eigvecs]
        show (Mat.ofFn fun i j => hadM i j).toMatrix = hadM
        rw [Mat.toMatrix_ofFn]
        rfl
      show C02.IsEigh (piH w) (fun m => (eigvals w)[(1 : Fin 3)][m]) (eigvecs[(1 : Fin 3)]).toMatrix
      rw [hV]
      exact had_eigh w
    · have h : widthH w 2 = 0 := by simp [widthH]
      show C02.IsEigh (widthH w 2) (fun m => (eigvals w)[(2 : Fin 3)][m])
        (eigvecs[(2 : Fin 3)]).toMatrix
      have hD : (fun m : Fin 2 => (eigvals w)[(2 : Fin 3)][m]) = fun _ => 0 := by
        funext m; fin_cases m <;> simp [eigvals]
      have hV : (eigvecs[(2 : Fin 3)]).toMatrix = 1 := by
        simp [eigvecs, Mat.toMatrix_one]
      rw [h, hD, hV]
      exact ⟨by simp, by simp, by simp⟩
  props_eq := fun g => C01.vec_ofFn_get _ g
  time := fun g => C01.vec_ofFn_get _ g
  dur_nonneg := by
    intro g
    fin_cases g <;> simp [dt] <;> linarith
  pulse_dur := by
    intro g hg
    fin_cases g <;> simp at hg
    simp [dt]
  flip_in := by
    intro g hg
    fin_cases g <;> simp at hg
    have ht : (t w)[(1 : Fin 3)] = 1 / 2 - w / 2 := by
      rw [show (t w)[(1 : Fin 3)] = (times (dt w))[1] from C01.vec_ofFn_get _ (1 : Fin 3), times1]
    show (t w)[(1 : Fin 3)] ≤ _ ∧ _ ≤ (t w)[(1 : Fin 3)] + w
    rw [ht]
    norm_num
    constructor <;> linarith
  start := by simp
  total := by rw [times3]; norm_num

end SEW

end FFVerif.WidthAux
