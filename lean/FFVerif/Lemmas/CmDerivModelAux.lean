/-
Helper lemmas for C11Asm, stage 3: identification of the pieces of the array model
(`Model/GradientAsm.lean`) with the analytic quantities of `Lemmas/CmDerivAux.lean`.
-/
import FFVerif.Lemmas.CmDerivAux
import FFVerif.Lemmas.GradientAsmAux
import FFVerif.Props.C15

namespace FFVerif.CmDerivAux
open FFVerif FFVerif.Model FFVerif.GradientAsmAux Matrix Complex MeasureTheory intervalIntegral
open FFVerif.C02 (IsEigh segProp piecewise_is_exp)
open FFVerif.C11 (dkA)
open FFVerif.C01 (segIntegral segIntegrand Useg)
open FFVerif.GradientAux (nestedIntegral continuous_segIntegral Sharp)
open FFVerif.ExpDerivAux
open scoped Matrix

/-! ### 1. one pass of the loop -/

section model
variable {d nO nA nH nK : ℕ}

theorem opersTransformed_get {n : Nat} (V : Mat ℂ d d) (ops : Vector (Mat ℂ d d) n) (j : Fin n)
    (m n' : Fin d) :
    (opersTransformed V ops)[j][m][n'] = ((V.toMatrix)ᴴ * ops[j].toMatrix * V.toMatrix) m n' := by
  unfold opersTransformed
  rw [vget, C01.transformByUnitary_getElem]

theorem nOpersTransformed_get (V : Mat ℂ d d) (nOpers : Vector (Mat ℂ d d) nA) (nc : Vec ℝ nA)
    (a : Fin nA) (m n : Fin d) :
    (nOpersTransformed V nOpers nc)[a][m][n]
      = (nc[a] : ℂ) * ((V.toMatrix)ᴴ * nOpers[a].toMatrix * V.toMatrix) m n := by
  unfold nOpersTransformed
  rw [vget, smul_get, C01.transformByUnitary_getElem, copsOfReal]

/-- `ctrlmat_step[g][a][j][o]` of the model is the defining integral of the control matrix on the
segment with the identity as cumulative propagator (first-order masks not in the truncated
branch). -/
theorem cmdStep_fst_eq_integral (kind : MaskKind) (thrF thrD : ℝ) (hthr : 0 ≤ thrF)
    (omega : Vec ℝ nO) (ev : Vec ℝ d) (V : Mat ℂ d d) (basis : Vector (Mat ℂ d d) nK)
    (tg dtg : ℝ) (nOpers : Vector (Mat ℂ d d) nA) (nc : Vec ℝ nA) (cOpers : Vector (Mat ℂ d d) nH)
    (ncd : Option (Mat ℝ nA nH)) (a : Fin nA) (j : Fin nK) (o : Fin nO)
    (hmask : ∀ m n : Fin d, firstOrderMask kind thrF (omega[o] + (ev[m] - ev[n])) dtg = true) :
    (cmdStep kind thrF thrD omega ev V basis tg dtg nOpers nc cOpers ncd).1[a][j][o]
      = ∫ s in (0:ℝ)..dtg, segIntegrand (fun m => ev[m]) V.toMatrix 1 nOpers[a].toMatrix
          basis[j].toMatrix omega[o] tg nc[a] s := by
  rw [C01.segment_trace_integral]
  unfold cmdStep
  simp only []
  rw [ctrlmatStep_get, Finset.sum_comm]
  refine Finset.sum_congr rfl fun m _ => Finset.sum_congr rfl fun n _ => ?_
  rw [vget, opersTransformed_get, nOpersTransformed_get, C01.firstOrderIntegral_get,
    C01.firstOrderEntry_exact kind thrF _ _ hthr (hmask m n), copsExpI,
    Matrix.conjTranspose_one, Matrix.one_mul]
  push_cast
  ring

theorem dkSum_rearrange (ph sa : ℂ) (Yb Cb Bb : Matrix (Fin d) (Fin d) ℂ)
    (N1 N2 : Fin d → Fin d → Fin d → ℂ) :
    (∑ n, ∑ k, ph * (I * Yb n k) * (sa * ((∑ m, Cb k m * Bb m n * N1 k m n)
        - ∑ n', Bb k n' * Cb n' n * N2 k n' n)))
      = ph * sa * (I * ((∑ k, ∑ m, ∑ n, (Cb k m * Bb m n * Yb n k) * N1 k m n)
          - ∑ k, ∑ n', ∑ n, (Bb k n' * Cb n' n * Yb n k) * N2 k n' n)) := by
  have h1 : ∀ k, (∑ m, ∑ n, (Cb k m * Bb m n * Yb n k) * N1 k m n)
      = ∑ n, Yb n k * ∑ m, Cb k m * Bb m n * N1 k m n := by
    intro k
    rw [Finset.sum_comm]
    refine Finset.sum_congr rfl fun n _ => ?_
    rw [Finset.mul_sum]
    refine Finset.sum_congr rfl fun m _ => ?_
    ring
  have h2 : ∀ k, (∑ n', ∑ n, (Bb k n' * Cb n' n * Yb n k) * N2 k n' n)
      = ∑ n, Yb n k * ∑ n', Bb k n' * Cb n' n * N2 k n' n := by
    intro k
    rw [Finset.sum_comm]
    refine Finset.sum_congr rfl fun n _ => ?_
    rw [Finset.mul_sum]
    refine Finset.sum_congr rfl fun n' _ => ?_
    ring
  simp only [h1, h2]
  rw [← Finset.sum_sub_distrib, Finset.mul_sum, Finset.mul_sum, Finset.sum_comm]
  refine Finset.sum_congr rfl fun k _ => ?_
  rw [← Finset.sum_sub_distrib, Finset.mul_sum, Finset.mul_sum]
  refine Finset.sum_congr rfl fun n _ => ?_
  ring

theorem derivativeIntegral_eq_nested (thr : ℝ) (hthr : 0 < thr) (omega : Vec ℝ nO) (ev : Vec ℝ d)
    (dt : ℝ) (o : Fin nO)
    (hS : ∀ p q m n : Fin d, Sharp thr (ev[p] - ev[q]) ∧ Sharp thr (omega[o] + (ev[m] - ev[n]))
      ∧ Sharp thr (omega[o] + (ev[m] - ev[n]) + (ev[p] - ev[q]))) (p q m n : Fin d) :
    (derivativeIntegral (K := ℂ) thr omega ev dt)[o][p][q][m][n]
      = nestedIntegral (omega[o] + (ev[m] - ev[n])) (ev[p] - ev[q]) dt := by
  rw [C11.derivativeIntegral_get,
    C11.derivativeIntegral_exact thr _ _ _ dt hthr (hS p q m n).1 (hS p q m n).2.1 (hS p q m n).2.2]
  rfl

/-- `ctrlmat_step_deriv[a][j][h][o]` of the model (no `n_coeffs_deriv`) in closed form: the
nested integrals of `_derivative_integral` are exact (`Sharp`: no masked quantity in a grey
zone). -/
theorem cmdStep_snd_eq_dkSum (kind : MaskKind) (thrF thrD : ℝ) (hthrD : 0 < thrD)
    (omega : Vec ℝ nO) (ev : Vec ℝ d) (V : Mat ℂ d d) (basis : Vector (Mat ℂ d d) nK)
    (tg dtg : ℝ) (nOpers : Vector (Mat ℂ d d) nA) (nc : Vec ℝ nA) (cOpers : Vector (Mat ℂ d d) nH)
    (a : Fin nA) (j : Fin nK) (h : Fin nH) (o : Fin nO)
    (hS : ∀ p q m n : Fin d, Sharp thrD (ev[p] - ev[q]) ∧ Sharp thrD (omega[o] + (ev[m] - ev[n]))
      ∧ Sharp thrD (omega[o] + (ev[m] - ev[n]) + (ev[p] - ev[q]))) :
    (cmdStep kind thrF thrD omega ev V basis tg dtg nOpers nc cOpers none).2[a][j][h][o]
      = (Complex.exp (I * ((omega[o] : ℂ) * (tg : ℂ))) * (nc[a] : ℂ))
        * (I * dkSum (fun m => ev[m]) ((V.toMatrix)ᴴ * cOpers[h].toMatrix * V.toMatrix)
            ((V.toMatrix)ᴴ * nOpers[a].toMatrix * V.toMatrix)
            ((V.toMatrix)ᴴ * basis[j].toMatrix * V.toMatrix) omega[o] dtg) := by
  unfold cmdStep
  simp only []
  rw [ctrlmatStepDeriv_get_none, vget, copsExpI]
  unfold dkSum
  set Cb := (V.toMatrix)ᴴ * cOpers[h].toMatrix * V.toMatrix with hCb
  set Bb := (V.toMatrix)ᴴ * nOpers[a].toMatrix * V.toMatrix with hBb
  set Yb := (V.toMatrix)ᴴ * basis[j].toMatrix * V.toMatrix with hYb
  set ph : ℂ := Complex.exp (I * ((omega[o] * tg : ℝ) : ℂ)) with hph
  have hph' : Complex.exp (I * ((omega[o] : ℂ) * (tg : ℂ))) = ph := by rw [hph]; push_cast; rfl
  rw [hph']
  have hM : ∀ k n : Fin d,
      (ctrlmatStepM (nOpersTransformed V nOpers nc) (opersTransformed V cOpers)
        (derivativeIntegral (K := ℂ) thrD omega ev dtg))[a][h][o][k][n]
      = (nc[a] : ℂ) * ((∑ m, Cb k m * Bb m n
            * nestedIntegral (omega[o] + (ev[m] - ev[n])) (ev[k] - ev[m]) dtg)
          - ∑ n', Bb k n' * Cb n' n
            * nestedIntegral (omega[o] + (ev[k] - ev[n'])) (ev[n'] - ev[n]) dtg) := by
    intro k n
    rw [ctrlmatStepM_get, mul_sub, Finset.mul_sum, Finset.mul_sum]
    congr 1
    · refine Finset.sum_congr rfl fun m _ => ?_
      rw [opersTransformed_get, nOpersTransformed_get,
        derivativeIntegral_eq_nested thrD hthrD omega ev dtg o hS]
      ring
    · refine Finset.sum_congr rfl fun n' _ => ?_
      rw [opersTransformed_get, nOpersTransformed_get,
        derivativeIntegral_eq_nested thrD hthrD omega ev dtg o hS]
      ring
  simp only [hM, opersTransformed_get]
  rw [← hYb]
  exact dkSum_rearrange ph (nc[a] : ℂ) Yb Cb Bb _ _

end model
/-! ### 2. the one-parameter family of pulses -/

section family
variable {nG d nH N : ℕ}

theorem cOpersTransformedAll_toMatrix (eigvecs : Vector (Mat ℂ d d) nG)
    (cOpers : Vector (Mat ℂ d d) nH) (g : Fin nG) (h : Fin nH) :
    ((cOpersTransformedAll eigvecs cOpers)[g][h]).toMatrix
      = (eigvecs[g].toMatrix)ᴴ * cOpers[h].toMatrix * eigvecs[g].toMatrix := by
  unfold cOpersTransformedAll opersTransformed
  rw [vget, vget, C01.transformByUnitary_toMatrix]

/-- **The array model of `_liouville_derivative` is the derivative of the Liouville representation
of the cumulative propagators** (entry `[tt][h][g'][j][k]`: `Q_{tt+1}`, amplitude of `C_h` in
segment `g'`), for a Hermitian basis, under the `eigh` contract for the one-parameter family and
with no pair of levels of segment `g'` in the grey zone of the `A_mat` mask. -/
theorem liouvilleDerivative_hasDerivAt (dt : Vec ℝ nG)
    (H : Fin nG → Matrix (Fin d) (Fin d) ℂ) (cOpers : Vector (Mat ℂ d d) nH) (h : Fin nH)
    (g' : Fin nG) (eigvals : ℝ → Mat ℝ nG d) (eigvecs : ℝ → Vector (Mat ℂ d d) nG)
    (hE : ∀ (u : ℝ) (g : Fin nG),
      IsEigh (H g + (if g.1 = g'.1 then (u : ℂ) • cOpers[h].toMatrix else 0))
        (fun j => (eigvals u)[g.1][j]) (eigvecs u)[g.1].toMatrix)
    (thrA : ℝ) (hthr : 0 < thrA)
    (hsharp : ∀ m n : Fin d,
      gradMask thrA (((eigvals 0)[g'][m] - (eigvals 0)[g'][n]) * dt[g']) = false
        ∨ (eigvals 0)[g'][m] = (eigvals 0)[g'][n])
    (basis : Vector (Mat ℂ d d) N) (hherm : ∀ i, (Spec.basisOf basis i)ᴴ = Spec.basisOf basis i)
    (tt : Fin (nG - 1)) (j k : Fin N) :
    HasDerivAt
      (fun u : ℝ => Spec.liou (Spec.basisOf basis)
        ((propagators (eigvals u) (eigvecs u) dt)[tt.1 + 1]'(by omega)).toMatrix j k)
      ((((liouvilleDerivative thrA dt (propagators (eigvals 0) (eigvecs 0) dt) basis (eigvecs 0)
          (eigvals 0) (cOpersTransformedAll (eigvecs 0) cOpers))[tt][h][g'][j][k] : ℝ)) : ℂ) 0 := by
  have hQ := C11.cumulative_propagator_derivative_model dt H cOpers[h].toMatrix g'.1 g'.2 eigvals
    eigvecs hE thrA hthr hsharp (tt.1 + 1) (by omega)
  have hL := C11.liouville_derivative_entry (Spec.basisOf basis) hherm hQ j k
  refine hL.congr_deriv ?_
  rw [liouvilleDerivative_get, liouvillePD_toMatrix]
  have hV : ∀ (g : Nat) (hg : g < nG),
      (((eigvecs 0)[g]).toMatrix)ᴴ * ((eigvecs 0)[g]).toMatrix = 1 :=
    fun g hg => (hE 0 ⟨g, hg⟩).left
  have hratio := C11.segment_propagator_eq_ratio (eigvals 0) (eigvecs 0) dt hV g'.1 g'.2
  by_cases hlt : g'.1 < tt.1 + 1
  · have hle : g'.1 ≤ tt.1 := by omega
    rw [if_pos hlt, if_pos hle, cOpersTransformedAll_toMatrix]
    simp only [Fin.getElem_fin] at hratio ⊢
    rw [hratio]
    simp only [Spec.basisOf, Fin.getElem_fin, Matrix.mul_assoc]
  · have hle : ¬ g'.1 ≤ tt.1 := by omega
    rw [if_neg hlt, if_neg hle]
    simp only [Matrix.conjTranspose_zero, Matrix.zero_mul, Matrix.trace_zero]

end family
section family2
variable {nG d nH N nA nO : ℕ}

/-- the eigh contract of the family, read off for a segment other than the varied one -/
theorem family_other {H : Fin nG → Matrix (Fin d) (Fin d) ℂ} {C : Matrix (Fin d) (Fin d) ℂ}
    {g' : Nat} {eigvals : ℝ → Mat ℝ nG d} {eigvecs : ℝ → Vector (Mat ℂ d d) nG}
    (hE : ∀ (u : ℝ) (g : Fin nG), IsEigh (H g + (if g.1 = g' then (u : ℂ) • C else 0))
        (fun j => (eigvals u)[g.1][j]) (eigvecs u)[g.1].toMatrix)
    (u : ℝ) (g : Fin nG) (hg : g.1 ≠ g') :
    IsEigh (H g) (fun j => (eigvals u)[g.1][j]) (eigvecs u)[g.1].toMatrix := by
  have h := hE u g
  rw [if_neg hg, add_zero] at h
  exact h

/-- … and for the varied segment -/
theorem family_self {H : Fin nG → Matrix (Fin d) (Fin d) ℂ} {C : Matrix (Fin d) (Fin d) ℂ}
    {g' : Nat} {eigvals : ℝ → Mat ℝ nG d} {eigvecs : ℝ → Vector (Mat ℂ d d) nG}
    (hE : ∀ (u : ℝ) (g : Fin nG), IsEigh (H g + (if g.1 = g' then (u : ℂ) • C else 0))
        (fun j => (eigvals u)[g.1][j]) (eigvecs u)[g.1].toMatrix)
    (u : ℝ) (g : Fin nG) (hg : g.1 = g') :
    IsEigh (H g + (u : ℂ) • C) (fun j => (eigvals u)[g.1][j]) (eigvecs u)[g.1].toMatrix := by
  have h := hE u g
  rw [if_pos hg] at h
  exact h

/-- the cumulative propagators up to (and including) `Q_{g'}` do not depend on the amplitude varied
in segment `g'` -/
theorem propagators_const_of_le {H : Fin nG → Matrix (Fin d) (Fin d) ℂ}
    {C : Matrix (Fin d) (Fin d) ℂ} {g' : Nat} {eigvals : ℝ → Mat ℝ nG d}
    {eigvecs : ℝ → Vector (Mat ℂ d d) nG} (dt : Vec ℝ nG)
    (hE : ∀ (u : ℝ) (g : Fin nG), IsEigh (H g + (if g.1 = g' then (u : ℂ) • C else 0))
        (fun j => (eigvals u)[g.1][j]) (eigvecs u)[g.1].toMatrix)
    (u : ℝ) (g : Nat) (hg : g ≤ nG) (hgg : g ≤ g') :
    (propagators (eigvals u) (eigvecs u) dt)[g].toMatrix
      = (propagators (eigvals 0) (eigvecs 0) dt)[g].toMatrix := by
  induction g with
  | zero => rw [C02.propagators_zero, C02.propagators_zero]
  | succ g ih =>
    have hg' : g < nG := hg
    have hne : (⟨g, hg'⟩ : Fin nG).1 ≠ g' := by simp only; omega
    rw [C02.propagators_succ_exp (eigvals u) (eigvecs u) dt (H ⟨g, hg'⟩) g hg'
        (family_other hE u ⟨g, hg'⟩ hne),
      C02.propagators_succ_exp (eigvals 0) (eigvecs 0) dt (H ⟨g, hg'⟩) g hg'
        (family_other hE 0 ⟨g, hg'⟩ hne),
      ih (Nat.le_of_succ_le hg) (Nat.le_of_succ_le hgg)]

end family2
section family3
variable {d nH nK nA nO : ℕ}

/-- **One pass of the loop: `ctrlmat_step_deriv` is the derivative of the step control matrix.**
`u ↦ ∫₀^dt e^{iω(t_g+s)} s_a tr(U(u,s)† B_a U(u,s) C_j) ds`, `U(u,s) = exp(-i s (H + u C_h))`
(written with `eigh` data of `H + u C_h` for every `u`), has at `u = 0` the derivative
`ctrlmat_step_deriv[a][j][h][o]` computed by the model from the `eigh` data at `u = 0`
(no `n_coeffs_deriv`; the nested integrals outside the grey zones of their masks). -/
theorem step_control_matrix_hasDerivAt_aux (kind : MaskKind) (thrF thrD : ℝ) (hthrD : 0 < thrD)
    (omega : Vec ℝ nO) (ev : Vec ℝ d) (Vm : Mat ℂ d d) (basis : Vector (Mat ℂ d d) nK)
    (tg dtg : ℝ) (nOpers : Vector (Mat ℂ d d) nA) (nc : Vec ℝ nA) (cOpers : Vector (Mat ℂ d d) nH)
    (a : Fin nA) (j : Fin nK) (h : Fin nH) (o : Fin nO)
    {H : Matrix (Fin d) (Fin d) ℂ} (lam : ℝ → Fin d → ℝ) (V : ℝ → Matrix (Fin d) (Fin d) ℂ)
    (hE : ∀ u : ℝ, IsEigh (H + (u : ℂ) • cOpers[h].toMatrix) (lam u) (V u))
    (hlam : lam 0 = fun m => ev[m]) (hV : V 0 = Vm.toMatrix)
    (hS : ∀ p q m n : Fin d, Sharp thrD (ev[p] - ev[q]) ∧ Sharp thrD (omega[o] + (ev[m] - ev[n]))
      ∧ Sharp thrD (omega[o] + (ev[m] - ev[n]) + (ev[p] - ev[q]))) :
    HasDerivAt (fun u : ℝ => ∫ s in (0:ℝ)..dtg,
        segIntegrand (lam u) (V u) 1 nOpers[a].toMatrix basis[j].toMatrix omega[o] tg nc[a] s)
      ((cmdStep kind thrF thrD omega ev Vm basis tg dtg nOpers nc cOpers none).2[a][j][h][o]) 0 := by
  have h1 := step_integral_hasDerivAt lam V hE 1 nOpers[a].toMatrix basis[j].toMatrix omega[o] tg
    nc[a] dtg
  refine h1.congr_deriv ?_
  rw [cmdStep_snd_eq_dkSum kind thrF thrD hthrD omega ev Vm basis tg dtg nOpers nc cOpers a j h o hS,
    hlam, hV, Matrix.one_mul, Matrix.conjTranspose_one, Matrix.mul_one]

end family3
/-! ### 3. pieces of the assembly -/

section assembly
variable {nG d nO nA nH nK : ℕ}
variable (kind : MaskKind) (thrF thrD thrA : ℝ) (omega : Vec ℝ nO) (basis : Vector (Mat ℂ d d) nK)
  (t : Vec ℝ (nG + 1)) (dt : Vec ℝ nG) (nOpers : Vector (Mat ℂ d d) nA) (nCoeffs : Mat ℝ nA nG)
  (cOpers : Vector (Mat ℂ d d) nH) (H : Fin nG → Matrix (Fin d) (Fin d) ℂ) (h : Fin nH)
  (g' : Fin nG) (eigvals : ℝ → Mat ℝ nG d) (eigvecs : ℝ → Vector (Mat ℂ d d) nG)
  (a : Fin nA) (o : Fin nO)

/-- the step control matrix `B^{(g)}_{aj}(ω_o)` of the pulse with parameter `u`, as the defining
integral (identity as cumulative propagator) -/
noncomputable def betaInt (g : Fin nG) (j : Fin nK) (u : ℝ) : ℂ :=
  ∫ s in (0:ℝ)..dt[g], segIntegrand (fun m => (eigvals u)[g][m]) (eigvecs u)[g].toMatrix 1
    nOpers[a].toMatrix (Spec.basisOf basis j) omega[o] (t[g.1]'(by omega)) nCoeffs[a][g] s

variable (hE : ∀ (u : ℝ) (g : Fin nG),
      IsEigh (H g + (if g.1 = g'.1 then (u : ℂ) • cOpers[h].toMatrix else 0))
        (fun j => (eigvals u)[g.1][j]) (eigvecs u)[g.1].toMatrix)

include hE in
theorem betaInt_const (g : Fin nG) (hg : g.1 ≠ g'.1) (j : Fin nK) (u : ℝ) :
    betaInt omega basis t dt nOpers nCoeffs eigvals eigvecs a o g j u
      = betaInt omega basis t dt nOpers nCoeffs eigvals eigvecs a o g j 0 := by
  unfold betaInt
  refine intervalIntegral.integral_congr fun s _ => ?_
  exact segIntegrand_indep (family_other hE u g hg) (family_other hE 0 g hg) _ _ _ _ _ _ _

include hE in
theorem betaInt_hasDerivAt (hthrD : 0 < thrD) (j : Fin nK)
    (hS : ∀ p q m n : Fin d, Sharp thrD ((eigvals 0)[g'][p] - (eigvals 0)[g'][q])
      ∧ Sharp thrD (omega[o] + ((eigvals 0)[g'][m] - (eigvals 0)[g'][n]))
      ∧ Sharp thrD (omega[o] + ((eigvals 0)[g'][m] - (eigvals 0)[g'][n])
          + ((eigvals 0)[g'][p] - (eigvals 0)[g'][q]))) (g : Fin nG) :
    HasDerivAt (betaInt omega basis t dt nOpers nCoeffs eigvals eigvecs a o g j)
      (if g = g' then
        (cmdStep kind thrF thrD omega (eigvals 0)[g'] (eigvecs 0)[g'] basis (t[g'.1]'(by omega))
          dt[g'] nOpers (Vector.ofFn fun a => nCoeffs[a][g']) cOpers none).2[a][j][h][o]
       else 0) 0 := by
  by_cases hg : g = g'
  · subst hg
    rw [if_pos rfl]
    have := step_control_matrix_hasDerivAt_aux kind thrF thrD hthrD omega (eigvals 0)[g]
      (eigvecs 0)[g] basis (t[g.1]'(by omega)) dt[g] nOpers (Vector.ofFn fun a => nCoeffs[a][g])
      cOpers a j h o (H := H g) (fun u m => (eigvals u)[g][m]) (fun u => (eigvecs u)[g].toMatrix)
      (fun u => family_self hE u g rfl) rfl rfl hS
    rw [vget] at this
    exact this
  · rw [if_neg hg]
    have hne : g.1 ≠ g'.1 := fun e => hg (Fin.ext e)
    have hc : betaInt omega basis t dt nOpers nCoeffs eigvals eigvecs a o g j
        = fun _ => betaInt omega basis t dt nOpers nCoeffs eigvals eigvecs a o g j 0 :=
      funext fun u => betaInt_const omega basis t dt nOpers nCoeffs cOpers H h g' eigvals eigvecs a
        o hE g hne j u
    rw [hc]
    exact hasDerivAt_const _ _

include hE in
theorem liouInt_hasDerivAt (hthrA : 0 < thrA)
    (hsharpA : ∀ m n : Fin d,
      gradMask thrA (((eigvals 0)[g'][m] - (eigvals 0)[g'][n]) * dt[g']) = false
        ∨ (eigvals 0)[g'][m] = (eigvals 0)[g'][n])
    (hherm : ∀ i, (Spec.basisOf basis i)ᴴ = Spec.basisOf basis i) (g : Fin nG) (j k : Fin nK) :
    HasDerivAt
      (fun u : ℝ => Spec.liou (Spec.basisOf basis)
        ((propagators (eigvals u) (eigvecs u) dt)[g.1]'(by omega)).toMatrix j k)
      (if hlt : g'.1 < g.1 then
        ((((liouvilleDerivative thrA dt (propagators (eigvals 0) (eigvecs 0) dt) basis (eigvecs 0)
          (eigvals 0) (cOpersTransformedAll (eigvecs 0) cOpers))[g.1 - 1]'(by omega))[h][g'][j][k]
            : ℝ) : ℂ)
       else 0) 0 := by
  by_cases hlt : g'.1 < g.1
  · rw [dif_pos hlt]
    rcases g with ⟨_ | n, gp⟩
    · exact absurd hlt (Nat.not_lt_zero _)
    · have hn : n < nG - 1 := by omega
      have := liouvilleDerivative_hasDerivAt dt H cOpers h g' eigvals eigvecs hE thrA hthrA hsharpA
        basis hherm ⟨n, hn⟩ j k
      simp only [Nat.add_sub_cancel]
      exact this
  · rw [dif_neg hlt]
    have hle : g.1 ≤ g'.1 := by omega
    have hc : (fun u : ℝ => Spec.liou (Spec.basisOf basis)
        ((propagators (eigvals u) (eigvecs u) dt)[g.1]'(by omega)).toMatrix j k)
        = fun _ => Spec.liou (Spec.basisOf basis)
        ((propagators (eigvals 0) (eigvecs 0) dt)[g.1]'(by omega)).toMatrix j k := by
      funext u
      rw [propagators_const_of_le dt hE u g.1 (by omega) hle]
    rw [hc]
    exact hasDerivAt_const _ _

end assembly
section assembly2
variable {nG d nO nA nH nK : ℕ}
variable (kind : MaskKind) (thrF thrD thrA : ℝ) (omega : Vec ℝ nO) (basis : Vector (Mat ℂ d d) nK)
  (t : Vec ℝ (nG + 1)) (dt : Vec ℝ nG) (nOpers : Vector (Mat ℂ d d) nA) (nCoeffs : Mat ℝ nA nG)
  (cOpers : Vector (Mat ℂ d d) nH) (H : Fin nG → Matrix (Fin d) (Fin d) ℂ) (h : Fin nH)
  (g' : Fin nG) (eigvals : ℝ → Mat ℝ nG d) (eigvecs : ℝ → Vector (Mat ℂ d d) nG)
  (a : Fin nA) (o : Fin nO)

/-- the defining integral of the control matrix of the pulse with parameter `u` (segment form,
`C01.cm_segment_form`) -/
noncomputable def cmIntegral (k : Fin nK) (u : ℝ) : ℂ :=
  ∑ g : Fin nG, ∫ s in (0:ℝ)..dt[g],
    segIntegrand (fun m => (eigvals u)[g][m]) (eigvecs u)[g].toMatrix
      ((propagators (eigvals u) (eigvecs u) dt)[g.1]'(by omega)).toMatrix
      nOpers[a].toMatrix basis[k].toMatrix omega[o] (t[g.1]'(by omega)) nCoeffs[a][g] s

/-- `L(Q_g(u))_{jk}` -/
noncomputable def liouInt (g : Fin nG) (j k : Fin nK) (u : ℝ) : ℂ :=
  Spec.liou (Spec.basisOf basis)
    ((propagators (eigvals u) (eigvecs u) dt)[g.1]'(by omega)).toMatrix j k

theorem cmIntegral_eq_sum (hBc : Spec.IsComplete (Spec.basisOf basis)) (k : Fin nK) (u : ℝ) :
    cmIntegral omega basis t dt nOpers nCoeffs eigvals eigvecs a o k u
      = ∑ g : Fin nG, ∑ j : Fin nK,
          betaInt omega basis t dt nOpers nCoeffs eigvals eigvecs a o g j u
            * liouInt basis dt eigvals eigvecs g j k u := by
  unfold cmIntegral betaInt liouInt
  refine Finset.sum_congr rfl fun g _ => ?_
  exact segment_integral_liou (Spec.basisOf basis) hBc _ _ _ _ k _ _ _ _

/-- derivative of the step control matrix `B^{(g)}_{aj}` with respect to the amplitude of `C_h` in
segment `g'`: `ctrlmat_step_deriv` of the model for `g = g'`, zero otherwise -/
noncomputable def dBeta (g : Fin nG) (j : Fin nK) : ℂ :=
  if g = g' then
    (cmdStep kind thrF thrD omega (eigvals 0)[g'] (eigvecs 0)[g'] basis (t[g'.1]'(by omega))
      dt[g'] nOpers (Vector.ofFn fun a => nCoeffs[a][g']) cOpers none).2[a][j][h][o]
  else 0

/-- derivative of `L(Q_g)_{jk}`: the entry `[g-1][h][g']` of the model of `_liouville_derivative`
for `g > g'`, zero otherwise -/
noncomputable def dLiou (g : Fin nG) (j k : Fin nK) : ℂ :=
  if hlt : g'.1 < g.1 then
    ((((liouvilleDerivative thrA dt (propagators (eigvals 0) (eigvecs 0) dt) basis (eigvecs 0)
      (eigvals 0) (cOpersTransformedAll (eigvecs 0) cOpers))[g.1 - 1]'(by omega))[h][g'][j][k]
        : ℝ) : ℂ)
  else 0

variable (hE : ∀ (u : ℝ) (g : Fin nG),
      IsEigh (H g + (if g.1 = g'.1 then (u : ℂ) • cOpers[h].toMatrix else 0))
        (fun j => (eigvals u)[g.1][j]) (eigvecs u)[g.1].toMatrix)

include hE in
/-- **product rule for the defining integral of the control matrix** -/
theorem cmIntegral_hasDerivAt_sum (hthrD : 0 < thrD) (hthrA : 0 < thrA)
    (hBc : Spec.IsComplete (Spec.basisOf basis))
    (hherm : ∀ i, (Spec.basisOf basis i)ᴴ = Spec.basisOf basis i)
    (hsharpA : ∀ m n : Fin d,
      gradMask thrA (((eigvals 0)[g'][m] - (eigvals 0)[g'][n]) * dt[g']) = false
        ∨ (eigvals 0)[g'][m] = (eigvals 0)[g'][n])
    (hS : ∀ p q m n : Fin d, Sharp thrD ((eigvals 0)[g'][p] - (eigvals 0)[g'][q])
      ∧ Sharp thrD (omega[o] + ((eigvals 0)[g'][m] - (eigvals 0)[g'][n]))
      ∧ Sharp thrD (omega[o] + ((eigvals 0)[g'][m] - (eigvals 0)[g'][n])
          + ((eigvals 0)[g'][p] - (eigvals 0)[g'][q]))) (k : Fin nK) :
    HasDerivAt (cmIntegral omega basis t dt nOpers nCoeffs eigvals eigvecs a o k)
      (∑ g : Fin nG, ∑ j : Fin nK,
        (dBeta kind thrF thrD omega basis t dt nOpers nCoeffs cOpers h g' eigvals eigvecs a o g j
            * liouInt basis dt eigvals eigvecs g j k 0
          + betaInt omega basis t dt nOpers nCoeffs eigvals eigvecs a o g j 0
            * dLiou thrA basis dt cOpers h g' eigvals eigvecs g j k)) 0 := by
  have hfun : cmIntegral omega basis t dt nOpers nCoeffs eigvals eigvecs a o k
      = fun u => ∑ g : Fin nG, ∑ j : Fin nK,
          betaInt omega basis t dt nOpers nCoeffs eigvals eigvecs a o g j u
            * liouInt basis dt eigvals eigvecs g j k u :=
    funext fun u => cmIntegral_eq_sum omega basis t dt nOpers nCoeffs eigvals eigvecs a o hBc k u
  rw [hfun]
  refine HasDerivAt.fun_sum fun g _ => HasDerivAt.fun_sum fun j _ => ?_
  have h1 : HasDerivAt (betaInt omega basis t dt nOpers nCoeffs eigvals eigvecs a o g j)
      (dBeta kind thrF thrD omega basis t dt nOpers nCoeffs cOpers h g' eigvals eigvecs a o g j) 0 :=
    betaInt_hasDerivAt kind thrF thrD omega basis t dt nOpers nCoeffs cOpers H h g' eigvals
      eigvecs a o hE hthrD j hS g
  have h2 : HasDerivAt (liouInt basis dt eigvals eigvecs g j k)
      (dLiou thrA basis dt cOpers h g' eigvals eigvecs g j k) 0 :=
    liouInt_hasDerivAt thrA basis dt cOpers H h g' eigvals eigvecs hE hthrA hsharpA hherm g j k
  exact h1.mul h2

end assembly2
section assembly3
variable {nG d nO nA nH nK : ℕ}
variable (kind : MaskKind) (thrF thrD thrA : ℝ) (omega : Vec ℝ nO) (basis : Vector (Mat ℂ d d) nK)
  (t : Vec ℝ (nG + 1)) (dt : Vec ℝ nG) (nOpers : Vector (Mat ℂ d d) nA) (nCoeffs : Mat ℝ nA nG)
  (cOpers : Vector (Mat ℂ d d) nH) (h : Fin nH)
  (g' : Fin nG) (eigvals : ℝ → Mat ℝ nG d) (eigvecs : ℝ → Vector (Mat ℂ d d) nG)
  (a : Fin nA) (o : Fin nO)

theorem cmdSteps_get (ev : Mat ℝ nG d) (V : Vector (Mat ℂ d d) nG) (g : Fin nG) :
    (cmdSteps kind thrF thrD omega ev V basis t dt nOpers nCoeffs cOpers none)[g]
      = cmdStep kind thrF thrD omega ev[g] V[g] basis (t[g.1]'(by omega)) dt[g] nOpers
          (Vector.ofFn fun a => nCoeffs[a][g]) cOpers none := by
  unfold cmdSteps
  rw [vget]
  rfl

theorem liouville_model_entry (castReal : Bool) (hB : Spec.IsOrthoHerm (Spec.basisOf basis))
    (U : Mat ℂ d d) (j k : Fin nK) :
    (liouville U basis castReal)[j][k] = Spec.liou (Spec.basisOf basis) U.toMatrix j k := by
  cases castReal
  · exact C15.liouville_entries U basis j k
  · rw [C15.liouville_castReal U basis hB]
    exact C15.liouville_entries U basis j k

theorem sum_dBeta (castReal : Bool) (hB : Spec.IsOrthoHerm (Spec.basisOf basis)) (k : Fin nK) :
    (∑ g : Fin nG, ∑ j : Fin nK,
        dBeta kind thrF thrD omega basis t dt nOpers nCoeffs cOpers h g' eigvals eigvecs a o g j
          * liouInt basis dt eigvals eigvecs g j k 0)
      = ∑ j : Fin nK,
          ((cmdSteps kind thrF thrD omega (eigvals 0) (eigvecs 0) basis t dt nOpers nCoeffs cOpers
              none)[g']).2[a][j][h][o]
            * (liouville ((propagators (eigvals 0) (eigvecs 0) dt)[g'.1]'(by omega)) basis
                castReal)[j][k] := by
  rw [Finset.sum_eq_single g']
  · refine Finset.sum_congr rfl fun j _ => ?_
    rw [cmdSteps_get, liouville_model_entry basis castReal hB]
    unfold dBeta liouInt
    rw [if_pos rfl]
  · intro g _ hg
    refine Finset.sum_eq_zero fun j _ => ?_
    unfold dBeta
    rw [if_neg hg, zero_mul]
  · intro hn
    exact absurd (Finset.mem_univ g') hn

theorem sum_dLiou (hthrF : 0 ≤ thrF) (k : Fin nK)
    (hmask : ∀ g : Fin nG, g'.1 < g.1 → ∀ m n : Fin d,
      firstOrderMask kind thrF (omega[o] + ((eigvals 0)[g][m] - (eigvals 0)[g][n])) dt[g] = true) :
    (∑ g : Fin nG, ∑ j : Fin nK,
        betaInt omega basis t dt nOpers nCoeffs eigvals eigvecs a o g j 0
          * dLiou thrA basis dt cOpers h g' eigvals eigvecs g j k)
      = ∑ tt : Fin (nG - 1), ∑ j : Fin nK,
          ((cmdSteps kind thrF thrD omega (eigvals 0) (eigvecs 0) basis t dt nOpers nCoeffs cOpers
              none)[tt.1 + 1]'(by omega)).1[a][j][o]
            * (((liouvilleDerivative thrA dt (propagators (eigvals 0) (eigvecs 0) dt) basis
                (eigvecs 0) (eigvals 0) (cOpersTransformedAll (eigvecs 0) cOpers))[tt][h][g'][j][k]
                  : ℝ) : ℂ) := by
  symm
  refine Fintype.sum_of_injective (fun tt : Fin (nG - 1) => (⟨tt.1 + 1, by omega⟩ : Fin nG))
    (fun x y hxy => Fin.ext (by simpa using congrArg Fin.val hxy)) _ _ ?_ ?_
  · -- indices outside the range (`g = 0`): `dLiou` vanishes
    intro g hg
    have hg0 : g.1 = 0 := by
      by_contra hne
      exact hg ⟨⟨g.1 - 1, by omega⟩, Fin.ext (by simp only; omega)⟩
    refine Finset.sum_eq_zero fun j _ => ?_
    unfold dLiou
    rw [dif_neg (by omega), mul_zero]
  · intro tt
    refine Finset.sum_congr rfl fun j _ => ?_
    by_cases hlt : g'.1 < tt.1 + 1
    · have hst := cmdSteps_get kind thrF thrD omega basis t dt nOpers nCoeffs cOpers (eigvals 0)
        (eigvecs 0) (⟨tt.1 + 1, by omega⟩ : Fin nG)
      have hb := cmdStep_fst_eq_integral kind thrF thrD hthrF omega
        ((eigvals 0)[(⟨tt.1 + 1, by omega⟩ : Fin nG)]) ((eigvecs 0)[(⟨tt.1 + 1, by omega⟩ : Fin nG)])
        basis (t[tt.1 + 1]'(by omega)) dt[(⟨tt.1 + 1, by omega⟩ : Fin nG)] nOpers
        (Vector.ofFn fun a => nCoeffs[a][(⟨tt.1 + 1, by omega⟩ : Fin nG)]) cOpers none a j o
        (hmask ⟨tt.1 + 1, by omega⟩ hlt)
      simp only [Fin.getElem_fin] at hst hb
      unfold dLiou betaInt
      rw [dif_pos hlt]
      simp only [Fin.getElem_fin, Nat.add_sub_cancel, hst, hb, Vector.getElem_ofFn, Spec.basisOf]
    · unfold dLiou
      rw [dif_neg hlt, mul_zero,
        liouvilleDerivative_eq_zero_of_lt _ _ _ _ _ _ _ tt h g' j k (by omega)]
      simp

end assembly3
/-! ### 4. the model of `calculate_control_matrix_from_scratch` and the defining integral -/

theorem cm_model_eq_cmIntegral {nG d nO nA nK : Nat} (kind : MaskKind) (thrF : ℝ) (hthrF : 0 ≤ thrF)
    (omega : Vec ℝ nO) (basis : Vector (Mat ℂ d d) nK) (t : Vec ℝ (nG + 1)) (dt : Vec ℝ nG)
    (nOpers : Vector (Mat ℂ d d) nA) (nCoeffs : Mat ℝ nA nG) (eigvals : ℝ → Mat ℝ nG d)
    (eigvecs : ℝ → Vector (Mat ℂ d d) nG) (a : Fin nA) (k : Fin nK) (o : Fin nO) (u : ℝ)
    (hu : ∀ (g : Fin nG) (m n : Fin d),
      firstOrderMask kind thrF (omega[o] + ((eigvals u)[g][m] - (eigvals u)[g][n])) dt[g] = true) :
    (controlMatrixFromScratch kind thrF (eigvals u) (eigvecs u)
        (dropLast (propagators (eigvals u) (eigvecs u) dt)) omega basis nOpers nCoeffs dt
        (dropLast t))[a][k][o]
      = cmIntegral omega basis t dt nOpers nCoeffs eigvals eigvecs a o k u := by
  rw [C01.cm_segment_form kind thrF hthrF _ _ _ _ _ _ _ _ _ a k o hu]
  unfold cmIntegral dropLast
  refine Finset.sum_congr rfl fun g _ => ?_
  rw [vget, vget]

end FFVerif.CmDerivAux
