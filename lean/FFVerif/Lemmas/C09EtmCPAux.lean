/-
Helper lemmas for C09EtmCP (complete positivity of `exp(K)`):

* `Spec.CPCone P` — the closure properties of the cone of Liouville matrices of completely positive
  maps that are used (unit, sums, non-negative multiples, products, limits);
* `Spec.tendsto_pow_exp_matrix` — the product formula `X_nⁿ → exp K` of `ExpProductAux` for complex
  matrices in the entrywise topology;
* `Spec.liou_one_add_real_smul` — `L(1 + tG) = 1 + t L(G· + ·G†) + t² L(G·G†)` for an orthonormal family;
* `Spec.exists_factor_of_posSemidef`, `Spec.liouMap_psd_sandwich_eq_sum` — a positive-semidefinite
  weight matrix turns `Σ_kl W_kl A_k ρ A_l†` into a sum of maps `ρ ↦ BρB†`;
* `Spec.exp_mem_cone_of_gks` — `exp` of the Liouville matrix of a Hermiticity-preserving GKS form
  lies in every such cone that contains the maps `ρ ↦ AρA†`.
-/
import Mathlib.Analysis.Matrix.Normed
import Mathlib.Analysis.Matrix.Order
import Mathlib.Analysis.Normed.Algebra.MatrixExponential
import FFVerif.Lemmas.ExpProductAux
import FFVerif.Lemmas.C09cCPAux

namespace FFVerif.Spec
open Matrix NormedSpace Filter Topology
open scoped ComplexOrder

variable {N d : Nat}

/-- **The closure properties of the completely-positive cone that `etm_completely_positive` uses**,
for a predicate `P` on Liouville matrices (intended: `P S ↔ Choi(S) ⪰ 0`, equivalently `S` is the
Liouville matrix of a map with a Kraus form): it contains the identity, is closed under sums,
non-negative multiples, products (composition of maps) and limits. -/
structure CPCone (P : Matrix (Fin N) (Fin N) ℂ → Prop) : Prop where
  one : P 1
  add : ∀ {S T}, P S → P T → P (S + T)
  smul_nonneg : ∀ (c : ℝ) {S}, 0 ≤ c → P S → P ((c : ℂ) • S)
  mul : ∀ {S T}, P S → P T → P (S * T)
  closed : IsClosed {S | P S}

namespace CPCone
variable {P : Matrix (Fin N) (Fin N) ℂ → Prop}

theorem zero (hP : CPCone P) : P 0 := by
  have h := hP.smul_nonneg 0 le_rfl hP.one
  simpa using h

theorem sum (hP : CPCone P) {ι : Type} (s : Finset ι) (f : ι → Matrix (Fin N) (Fin N) ℂ)
    (h : ∀ i ∈ s, P (f i)) : P (∑ i ∈ s, f i) := by
  classical
  induction s using Finset.induction_on with
  | empty => simpa using hP.zero
  | insert a s ha ih =>
    rw [Finset.sum_insert ha]
    exact hP.add (h a (Finset.mem_insert_self a s))
      (ih fun i hi => h i (Finset.mem_insert_of_mem hi))

theorem pow (hP : CPCone P) {S : Matrix (Fin N) (Fin N) ℂ} (hS : P S) (n : ℕ) : P (S ^ n) := by
  induction n with
  | zero => simpa using hP.one
  | succ n ih => rw [pow_succ]; exact hP.mul ih hS

end CPCone

/-! ### the product formula for matrices -/

set_option backward.isDefEq.respectTransparency false in
/-- **Product formula for complex matrices** (entrywise topology): if
`X_n = 1 + K/n + E/n²` then `X_nⁿ → exp K`. -/
theorem tendsto_pow_exp_matrix (K E : Matrix (Fin N) (Fin N) ℂ)
    (X : ℕ → Matrix (Fin N) (Fin N) ℂ)
    (hX : ∀ n : ℕ, 1 ≤ n → X n = 1 + ((n : ℝ)⁻¹) • K + (((n : ℝ)⁻¹) ^ 2) • E) :
    Tendsto (fun n => X n ^ n) atTop (𝓝 (exp K)) := by
  rcases Nat.eq_zero_or_pos N with rfl | hN
  · have hs : ∀ A B : Matrix (Fin 0) (Fin 0) ℂ, A = B := fun A B => by
      ext i; exact i.elim0
    have : (fun n => X n ^ n) = fun _ => exp K := funext fun n => hs _ _
    rw [this]
    exact tendsto_const_nhds
  · have : Nonempty (Fin N) := ⟨⟨0, hN⟩⟩
    open scoped Matrix.Norms.Operator in
    refine tendsto_pow_exp K X ‖E‖ fun n hn => ?_
    have hn0 : (0 : ℝ) < n := Nat.cast_pos.mpr hn
    rw [hX n hn, add_sub_cancel_left, norm_smul, Real.norm_of_nonneg (sq_nonneg _), inv_pow,
      div_eq_inv_mul]

/-! ### algebra of Liouville matrices -/

variable {C : Fin N → Matrix (Fin d) (Fin d) ℂ}

theorem real_smul_eq (t : ℝ) (M : Matrix (Fin N) (Fin N) ℂ) : t • M = (t : ℂ) • M := by
  ext i j
  simp only [Matrix.smul_apply, Complex.real_smul, smul_eq_mul]

/-- `L(1 + tG) = 1 + t·L(G· + ·G†) + t²·L(G·G†)` for an orthonormal family and real `t` -/
theorem liou_one_add_real_smul (hO : ∀ i j, trace (C i * C j) = if i = j then 1 else 0) (t : ℝ)
    (G : Matrix (Fin d) (Fin d) ℂ) :
    liou C (1 + (t : ℂ) • G)
      = 1 + (t : ℂ) • liouFun C (fun ρ => G * ρ + ρ * Gᴴ) + ((t : ℂ) ^ 2) • liou C G := by
  ext i j
  simp only [liou, liouFun, Matrix.add_apply, Matrix.smul_apply, smul_eq_mul, Matrix.one_apply,
    conjTranspose_add, conjTranspose_one, conjTranspose_smul, Complex.star_def, Complex.conj_ofReal,
    Matrix.mul_add, Matrix.add_mul, Matrix.mul_one, Matrix.mul_smul, Matrix.smul_mul, trace_add,
    trace_smul, hO, Matrix.mul_assoc]
  ring

/-! ### positive-semidefinite weights -/

open scoped MatrixOrder in
/-- a positive-semidefinite matrix factors as `B† B` -/
theorem exists_factor_of_posSemidef {M : Nat} (W : Matrix (Fin M) (Fin M) ℂ)
    (hW : W.PosSemidef) : ∃ B : Matrix (Fin M) (Fin M) ℂ, W = Bᴴ * B := by
  obtain ⟨X, hX, -, hXX⟩ :=
    CFC.exists_sqrt_of_isSelfAdjoint_of_quasispectrumRestricts (a := W) hW.isHermitian
      (QuasispectrumRestricts.nnreal_of_nonneg hW.nonneg)
  refine ⟨X, ?_⟩
  rw [← Matrix.star_eq_conjTranspose, hX.star_eq, hXX]

/-- the Liouville matrix of `ρ ↦ Σ_kl W_kl A_k ρ A_l†` with `W = B†B` is the sum of the
Liouville matrices of the sandwiches with `D_m = Σ_k conj(B_mk) A_k` -/
theorem liouFun_factor_eq_sum {M : Nat} (B : Matrix (Fin M) (Fin M) ℂ)
    (A : Fin M → Matrix (Fin d) (Fin d) ℂ) :
    liouFun C (fun ρ => ∑ k, ∑ l, (Bᴴ * B) k l • (A k * ρ * (A l)ᴴ))
      = ∑ m, liou C (∑ k, star (B m k) • A k) := by
  ext i j
  have h1 : ∀ m, liou C (∑ k, star (B m k) • A k) i j
      = ∑ k, ∑ l, star (B m k) * B m l * trace (C i * A k * C j * (A l)ᴴ) := by
    intro m
    simp only [liou, conjTranspose_sum, conjTranspose_smul, star_star, Matrix.mul_sum,
      Matrix.sum_mul, Matrix.mul_smul, Matrix.smul_mul, trace_sum, trace_smul, smul_eq_mul]
    rw [Finset.sum_comm]
    refine Finset.sum_congr rfl fun k _ => ?_
    rw [Finset.mul_sum]
    refine Finset.sum_congr rfl fun l _ => ?_
    ring
  have h2 : liouFun C (fun ρ => ∑ k, ∑ l, (Bᴴ * B) k l • (A k * ρ * (A l)ᴴ)) i j
      = ∑ k, ∑ l, ∑ m, star (B m k) * B m l * trace (C i * A k * C j * (A l)ᴴ) := by
    simp only [liouFun, Matrix.mul_sum, Matrix.mul_smul, trace_sum, trace_smul, smul_eq_mul,
      Matrix.mul_apply, Matrix.conjTranspose_apply, Finset.sum_mul, ← Matrix.mul_assoc]
  rw [h2, Matrix.sum_apply]
  simp only [h1]
  exact (Finset.sum_congr rfl fun k _ => Finset.sum_comm).trans Finset.sum_comm

/-! ### `exp K` lies in the cone -/

/-- **`exp` of a Hermiticity-preserving GKS generator lies in the CP cone.**  Let `C` be an
orthonormal family, `P` a predicate with the closure properties `CPCone` that holds for the
Liouville matrices `L(A)_ij = tr(C_i A C_j A†)` of all maps `ρ ↦ AρA†`.  If `K` is the Liouville
matrix of `Φ(ρ) = Σ_kl W_kl A_k ρ A_l† + Gρ + ρG†` with `W ⪰ 0`, then `P (exp K)`.
(`exp K = lim X_nⁿ`, `X_n = L_Ψ/n + L(1 + G/n) = 1 + K/n + L(G)/n²` with `L_Ψ` a sum of
sandwiches.) -/
theorem exp_mem_cone_of_gks {P : Matrix (Fin N) (Fin N) ℂ → Prop} (hP : CPCone P)
    (hO : ∀ i j, trace (C i * C j) = if i = j then 1 else 0)
    (hsand : ∀ A : Matrix (Fin d) (Fin d) ℂ, P (liou C A)) {M : Nat}
    (W : Matrix (Fin M) (Fin M) ℂ) (hW : W.PosSemidef) (A : Fin M → Matrix (Fin d) (Fin d) ℂ)
    (G : Matrix (Fin d) (Fin d) ℂ) (K : Matrix (Fin N) (Fin N) ℂ)
    (hK : ∀ i j, K i j = trace (C i * gksMap W A G Gᴴ (C j))) : P (exp K) := by
  obtain ⟨B, rfl⟩ := exists_factor_of_posSemidef W hW
  -- the jump part and the `G` part
  set LΨ : Matrix (Fin N) (Fin N) ℂ :=
    liouFun C (fun ρ => ∑ k, ∑ l, (Bᴴ * B) k l • (A k * ρ * (A l)ᴴ)) with hLΨ
  set LG : Matrix (Fin N) (Fin N) ℂ := liouFun C (fun ρ => G * ρ + ρ * Gᴴ) with hLG
  have hKsum : K = LΨ + LG := by
    ext i j
    rw [hK, hLΨ, hLG]
    simp only [gksMap, liouFun, Matrix.add_apply, Matrix.mul_add, trace_add, add_assoc]
  have hPΨ : P LΨ := by
    rw [hLΨ, liouFun_factor_eq_sum]
    exact hP.sum _ _ fun m _ => hsand _
  -- the approximants
  let X : ℕ → Matrix (Fin N) (Fin N) ℂ := fun n =>
    (((n : ℝ)⁻¹ : ℝ) : ℂ) • LΨ + liou C (1 + (((n : ℝ)⁻¹ : ℝ) : ℂ) • G)
  have hPX : ∀ n, P (X n) := fun n =>
    hP.add (hP.smul_nonneg _ (inv_nonneg.mpr (Nat.cast_nonneg n)) hPΨ) (hsand _)
  have hlim : Tendsto (fun n => X n ^ n) atTop (𝓝 (exp K)) := by
    refine tendsto_pow_exp_matrix K (liou C G) X fun n _ => ?_
    simp only [X]
    rw [liou_one_add_real_smul hO, hKsum, real_smul_eq, real_smul_eq, ← hLG, smul_add]
    push_cast
    abel
  exact hP.closed.mem_of_tendsto hlim (Eventually.of_forall fun n => hP.pow (hPX n) n)

end FFVerif.Spec
