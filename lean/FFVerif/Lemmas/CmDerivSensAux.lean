/-
Helper lemmas for C11Asm, stage 3, control-dependent sensitivities (`n_coeffs_deriv`): the defining
integral of the control matrix is linear in the sensitivity of the varied segment; the model with
`n_coeffs_deriv` is the model without it plus the sensitivity term.
-/
import FFVerif.Lemmas.CmDerivModelAux

namespace FFVerif.CmDerivAux
open FFVerif FFVerif.Model FFVerif.GradientAsmAux Matrix Complex MeasureTheory intervalIntegral
open FFVerif.C02 (IsEigh)
open FFVerif.C01 (segIntegral segIntegrand Useg)
open scoped Matrix

section sens
variable {nG d nO nA nH nK : ℕ}

theorem segIntegrand_smul (lam : Fin d → ℝ) (V Q B C : Matrix (Fin d) (Fin d) ℂ)
    (ω t0 sa s : ℝ) :
    segIntegrand lam V Q B C ω t0 sa s = (sa : ℂ) * segIntegrand lam V Q B C ω t0 1 s := by
  unfold segIntegrand
  push_cast
  ring

theorem integral_segIntegrand_smul (lam : Fin d → ℝ) (V Q B C : Matrix (Fin d) (Fin d) ℂ)
    (ω t0 sa dt : ℝ) :
    ∫ s in (0:ℝ)..dt, segIntegrand lam V Q B C ω t0 sa s
      = (sa : ℂ) * ∫ s in (0:ℝ)..dt, segIntegrand lam V Q B C ω t0 1 s := by
  rw [← intervalIntegral.integral_const_mul]
  exact intervalIntegral.integral_congr fun s _ => segIntegrand_smul lam V Q B C ω t0 sa s

/-- sensitivities `1` in segment `g'`, `0` elsewhere -/
def unitCoeffs (g' : Fin nG) : Mat ℝ nA nG := Mat.ofFn fun _ g => if g = g' then 1 else 0

variable (omega : Vec ℝ nO) (basis : Vector (Mat ℂ d d) nK)
  (t : Vec ℝ (nG + 1)) (dt : Vec ℝ nG) (nOpers : Vector (Mat ℂ d d) nA)
  (g' : Fin nG) (eigvals : ℝ → Mat ℝ nG d) (eigvecs : ℝ → Vector (Mat ℂ d d) nG)
  (a : Fin nA) (o : Fin nO)

/-- the defining integral of the control matrix is linear in the sensitivity of the varied
segment -/
theorem cmIntegral_sens_split (nC0 nCu : Mat ℝ nA nG)
    (hconst : ∀ g : Fin nG, g ≠ g' → nCu[a][g] = nC0[a][g]) (k : Fin nK) (u : ℝ) :
    cmIntegral omega basis t dt nOpers nCu eigvals eigvecs a o k u
      = cmIntegral omega basis t dt nOpers nC0 eigvals eigvecs a o k u
        + ((nCu[a][g'] - nC0[a][g'] : ℝ) : ℂ)
          * cmIntegral omega basis t dt nOpers (unitCoeffs (nA := nA) g') eigvals eigvecs a o k u := by
  unfold cmIntegral
  rw [Finset.mul_sum, ← Finset.sum_add_distrib]
  refine Finset.sum_congr rfl fun g _ => ?_
  rw [integral_segIntegrand_smul _ _ _ _ _ _ _ (nCu[a][g]),
    integral_segIntegrand_smul _ _ _ _ _ _ _ (nC0[a][g]),
    integral_segIntegrand_smul _ _ _ _ _ _ _ ((unitCoeffs (nA := nA) g')[a][g])]
  have hu : (unitCoeffs (nA := nA) g')[a][g] = if g = g' then (1 : ℝ) else 0 := by
    simp only [unitCoeffs, Mat.ofFn_get]
  rw [hu]
  by_cases hg : g = g'
  · subst hg
    rw [if_pos rfl]
    push_cast
    ring
  · rw [if_neg hg, hconst g hg]
    push_cast
    ring

variable (kind : MaskKind) (thrF thrD thrA : ℝ) (nCoeffs : Mat ℝ nA nG)
  (cOpers : Vector (Mat ℂ d d) nH) (h : Fin nH)

theorem cmdStep_fst_indep (ev : Vec ℝ d) (V : Mat ℂ d d) (tg dtg : ℝ) (nc : Vec ℝ nA)
    (ncd ncd' : Option (Mat ℝ nA nH)) :
    (cmdStep kind thrF thrD omega ev V basis tg dtg nOpers nc cOpers ncd).1
      = (cmdStep kind thrF thrD omega ev V basis tg dtg nOpers nc cOpers ncd').1 := by
  unfold cmdStep
  rfl

theorem cmdStep_snd_some (ev : Vec ℝ d) (V : Mat ℂ d d) (tg dtg : ℝ) (nc : Vec ℝ nA)
    (ds : Mat ℝ nA nH) (j : Fin nK) :
    (cmdStep kind thrF thrD omega ev V basis tg dtg nOpers nc cOpers (some ds)).2[a][j][h][o]
      = (cmdStep kind thrF thrD omega ev V basis tg dtg nOpers nc cOpers none).2[a][j][h][o]
        + ((ds[a][h] / nc[a] : ℝ) : ℂ)
          * (cmdStep kind thrF thrD omega ev V basis tg dtg nOpers nc cOpers none).1[a][j][o] := by
  unfold cmdStep
  simp only []
  rw [ctrlmatStepDeriv_get_some, ctrlmatStepDeriv_get_none]

/-- the model with `n_coeffs_deriv` = the model without + the sensitivity term -/
theorem controlMatrixDerivFromScratch_some (castReal : Bool) (props : Vector (Mat ℂ d d) (nG + 1))
    (ev : Mat ℝ nG d) (V : Vector (Mat ℂ d d) nG) (D : Vector (Mat ℝ nH nG) nA) (g : Fin nG)
    (k : Fin nK) :
    (controlMatrixDerivFromScratch kind thrF thrD thrA castReal omega props ev V basis t dt nOpers
        nCoeffs cOpers (some D))[h][o][g][a][k]
      = (controlMatrixDerivFromScratch kind thrF thrD thrA castReal omega props ev V basis t dt
          nOpers nCoeffs cOpers none)[h][o][g][a][k]
        + ∑ j : Fin nK, ((D[a][h][g] / nCoeffs[a][g] : ℝ) : ℂ)
            * ((cmdSteps kind thrF thrD omega ev V basis t dt nOpers nCoeffs cOpers none)[g]).1[a][j][o]
            * (liouville (props[g.1]'(by omega)) basis castReal)[j][k] := by
  have hfst : ∀ (g : Nat) (hg : g < nG),
      ((cmdSteps kind thrF thrD omega ev V basis t dt nOpers nCoeffs cOpers (some D))[g]'hg).1
        = ((cmdSteps kind thrF thrD omega ev V basis t dt nOpers nCoeffs cOpers none)[g]'hg).1 := by
    intro g hg
    unfold cmdSteps
    rw [Vector.getElem_ofFn, Vector.getElem_ofFn]
    exact cmdStep_fst_indep omega basis nOpers kind thrF thrD cOpers _ _ _ _ _ _ _
  rw [controlMatrixDerivFromScratch_get, controlMatrixDerivFromScratch_get, add_right_comm,
    ← Finset.sum_add_distrib]
  simp only [hfst]
  congr 1
  refine Finset.sum_congr rfl fun j _ => ?_
  have e : ((cmdSteps kind thrF thrD omega ev V basis t dt nOpers nCoeffs cOpers (some D))[g]).2[a][j][h][o]
      = ((cmdSteps kind thrF thrD omega ev V basis t dt nOpers nCoeffs cOpers none)[g]).2[a][j][h][o]
        + ((D[a][h][g] / nCoeffs[a][g] : ℝ) : ℂ)
          * ((cmdSteps kind thrF thrD omega ev V basis t dt nOpers nCoeffs cOpers none)[g]).1[a][j][o] := by
    unfold cmdSteps
    rw [vget, vget]
    simp only [Option.map_some, Option.map_none]
    rw [cmdStep_snd_some, Mat.ofFn_get, vget]
  rw [e]
  ring

/-- with unit sensitivity in segment `g'` only, the defining integral is the contribution of that
segment -/
theorem cmIntegral_unit (k : Fin nK) (u : ℝ) :
    cmIntegral omega basis t dt nOpers (unitCoeffs (nA := nA) g') eigvals eigvecs a o k u
      = ∫ s in (0:ℝ)..dt[g'],
          segIntegrand (fun m => (eigvals u)[g'][m]) (eigvecs u)[g'].toMatrix
            ((propagators (eigvals u) (eigvecs u) dt)[g'.1]'(by omega)).toMatrix
            nOpers[a].toMatrix basis[k].toMatrix omega[o] (t[g'.1]'(by omega)) 1 s := by
  unfold cmIntegral
  rw [Finset.sum_eq_single g']
  · have hu : (unitCoeffs (nA := nA) g')[a][g'] = (1 : ℝ) := by
      simp only [unitCoeffs, Mat.ofFn_get, if_true]
    rw [hu]
  · intro g _ hg
    have hu : (unitCoeffs (nA := nA) g')[a][g] = (0 : ℝ) := by
      simp only [unitCoeffs, Mat.ofFn_get, if_neg hg]
    rw [hu, integral_segIntegrand_smul]
    simp
  · intro hn
    exact absurd (Finset.mem_univ g') hn

/-- the sensitivity term of the model is `∂s · (contribution of segment g' with unit sensitivity)` -/
theorem sens_term_eq (castReal : Bool) (hthrF : 0 ≤ thrF)
    (hB : Spec.IsOrthoHerm (Spec.basisOf basis)) (hBc : Spec.IsComplete (Spec.basisOf basis))
    (ds : ℝ) (hnc : nCoeffs[a][g'] ≠ 0) (k : Fin nK)
    (hmask : ∀ m n : Fin d, firstOrderMask kind thrF
      (omega[o] + ((eigvals 0)[g'][m] - (eigvals 0)[g'][n])) dt[g'] = true) :
    (∑ j : Fin nK, ((ds / nCoeffs[a][g'] : ℝ) : ℂ)
        * ((cmdSteps kind thrF thrD omega (eigvals 0) (eigvecs 0) basis t dt nOpers nCoeffs cOpers
            none)[g']).1[a][j][o]
        * (liouville ((propagators (eigvals 0) (eigvecs 0) dt)[g'.1]'(by omega)) basis
            castReal)[j][k])
      = (ds : ℂ) * cmIntegral omega basis t dt nOpers (unitCoeffs (nA := nA) g') eigvals eigvecs a o
          k 0 := by
  rw [cmIntegral_unit]
  have hl := segment_integral_liou (Spec.basisOf basis) hBc (fun m => (eigvals 0)[g'][m])
    (eigvecs 0)[g'].toMatrix ((propagators (eigvals 0) (eigvecs 0) dt)[g'.1]'(by omega)).toMatrix
    nOpers[a].toMatrix k omega[o] (t[g'.1]'(by omega)) 1 dt[g']
  have hl' : ∫ s in (0:ℝ)..dt[g'],
          segIntegrand (fun m => (eigvals 0)[g'][m]) (eigvecs 0)[g'].toMatrix
            ((propagators (eigvals 0) (eigvecs 0) dt)[g'.1]'(by omega)).toMatrix
            nOpers[a].toMatrix basis[k].toMatrix omega[o] (t[g'.1]'(by omega)) 1 s
      = _ := hl
  rw [hl', Finset.mul_sum]
  refine Finset.sum_congr rfl fun j _ => ?_
  rw [cmdSteps_get, liouville_model_entry basis castReal hB,
    cmdStep_fst_eq_integral kind thrF thrD hthrF omega _ _ basis _ _ nOpers _ cOpers none a j o hmask,
    vget, integral_segIntegrand_smul _ _ _ _ _ _ _ (nCoeffs[a][g'])]
  have hc : (nCoeffs[a][g'] : ℂ) ≠ 0 := by exact_mod_cast hnc
  have e : ((ds / nCoeffs[a][g'] : ℝ) : ℂ) * (nCoeffs[a][g'] : ℂ) = (ds : ℂ) := by
    push_cast
    field_simp
  calc _ = (((ds / nCoeffs[a][g'] : ℝ) : ℂ) * (nCoeffs[a][g'] : ℂ))
        * ((∫ s in (0:ℝ)..dt[g'], segIntegrand (fun m => (eigvals 0)[g'][m]) (eigvecs 0)[g'].toMatrix 1
            nOpers[a].toMatrix basis[j].toMatrix omega[o] (t[g'.1]'(by omega)) 1 s)
          * Spec.liou (Spec.basisOf basis)
            ((propagators (eigvals 0) (eigvecs 0) dt)[g'.1]'(by omega)).toMatrix j k) := by ring
    _ = _ := by rw [e]; rfl

end sens
end FFVerif.CmDerivAux
