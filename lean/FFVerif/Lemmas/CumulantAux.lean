/-
Helper lemmas for C09 / C08: algebra of the documented cumulant formula (`Spec.K1`, `Spec.K2`) in
terms of the trace tensor, completeness sums of the trace tensor, and access lemmas that unfold the
executable model `FFVerif.Model.Cumulant`.
-/
import Mathlib.Tactic.LinearCombination
import Mathlib.Tactic.Ring
import Mathlib.Tactic.Abel
import Mathlib.Tactic.NormNum
import FFVerif.Spec.Cumulant
import FFVerif.Model.Cumulant
import FFVerif.Lemmas.MatBridge
import FFVerif.Props.C15

namespace FFVerif.Spec
open Matrix

variable {N d : Nat}

/-! ### Trace cyclicity and the nested commutators -/

theorem trace_cycle4 (A B C D : Matrix (Fin d) (Fin d) ℂ) :
    trace (A * B * C * D) = trace (B * C * D * A) := by
  rw [Matrix.mul_assoc, Matrix.mul_assoc, trace_mul_comm]
  simp only [Matrix.mul_assoc]

theorem trace_mul4_apply (A B C D : Matrix (Fin d) (Fin d) ℂ) :
    trace (A * B * C * D) = ∑ a, ∑ b, ∑ c, ∑ e, A a b * B b c * C c e * D e a := by
  simp only [Matrix.mul_assoc]
  simp only [Matrix.trace, Matrix.diag_apply, Matrix.mul_apply, Finset.mul_sum, mul_assoc]

/-- nested commutator of the first-order formula in terms of the trace tensor -/
theorem trace_comm_first (C : Fin N → Matrix (Fin d) (Fin d) ℂ) (i j k l : Fin N) :
    trace (C i * comm (C k) (comm (C l) (C j)))
      = T4 C k l j i - T4 C k j l i - T4 C k i l j + T4 C k i j l := by
  unfold comm T4
  simp only [Matrix.mul_sub, Matrix.sub_mul, trace_sub, ← Matrix.mul_assoc]
  have h1 := trace_cycle4 (C i) (C k) (C l) (C j)
  have h2 := trace_cycle4 (C i) (C k) (C j) (C l)
  have h3 := trace_cycle4 (C k) (C i) (C l) (C j)
  have h4 := trace_cycle4 (C k) (C i) (C j) (C l)
  linear_combination h1 - h2 + h3 - h4

/-- nested commutator of the second-order formula in terms of the trace tensor -/
theorem trace_comm_second (C : Fin N → Matrix (Fin d) (Fin d) ℂ) (i j k l : Fin N) :
    trace (C i * comm (comm (C k) (C l)) (C j))
      = T4 C k l j i - T4 C l k j i - T4 C k l i j + T4 C l k i j := by
  unfold comm T4
  simp only [Matrix.mul_sub, Matrix.sub_mul, trace_sub, ← Matrix.mul_assoc]
  have h1 := trace_cycle4 (C i) (C k) (C l) (C j)
  have h2 := trace_cycle4 (C i) (C l) (C k) (C j)
  have h3 := trace_cycle4 (C i) (C j) (C k) (C l)
  have h3' := trace_cycle4 (C j) (C k) (C l) (C i)
  have h4 := trace_cycle4 (C i) (C j) (C l) (C k)
  have h4' := trace_cycle4 (C j) (C l) (C k) (C i)
  linear_combination h1 - h2 - h3 - h3' + h4 + h4'

theorem K1_eq_T4 (C : Fin N → Matrix (Fin d) (Fin d) ℂ) (Γ : Fin N → Fin N → ℂ) (i j : Fin N) :
    K1 C Γ i j = -((∑ k, ∑ l, Γ k l * T4 C k l j i) - (∑ k, ∑ l, Γ k l * T4 C k j l i)
      - (∑ k, ∑ l, Γ k l * T4 C k i l j) + (∑ k, ∑ l, Γ k l * T4 C k i j l)) / 2 := by
  unfold K1
  simp only [trace_comm_first, mul_sub, mul_add, Finset.sum_sub_distrib, Finset.sum_add_distrib]
  ring

theorem K2_eq_T4 (C : Fin N → Matrix (Fin d) (Fin d) ℂ) (Δ : Fin N → Fin N → ℂ) (i j : Fin N) :
    K2 C Δ i j = -(((∑ k, ∑ l, Δ k l * T4 C k l j i) - (∑ k, ∑ l, Δ k l * T4 C l k j i)
      - (∑ k, ∑ l, Δ k l * T4 C k l i j) + (∑ k, ∑ l, Δ k l * T4 C l k i j)) / 2) := by
  unfold K2
  simp only [trace_comm_second, mul_sub, mul_add, Finset.sum_sub_distrib, Finset.sum_add_distrib]
  ring

/-! ### Symmetry -/

theorem comm_swap (A B : Matrix (Fin d) (Fin d) ℂ) : comm A B = -comm B A := by
  unfold comm; abel

/-- `tr(A [X, B]) = - tr(B [X, A])` -/
theorem trace_mul_comm_antisymm (A X B : Matrix (Fin d) (Fin d) ℂ) :
    trace (A * comm X B) = -trace (B * comm X A) := by
  unfold comm
  simp only [Matrix.mul_sub, trace_sub, ← Matrix.mul_assoc]
  have h1 : trace (A * X * B) = trace (B * A * X) := by
    rw [trace_mul_comm, Matrix.mul_assoc]
  have h2 : trace (A * B * X) = trace (B * X * A) := by
    rw [Matrix.mul_assoc, trace_mul_comm]
  rw [h1, h2]; ring

/-- `tr(A [B, Y]) = tr([A, B] Y)` -/
theorem trace_mul_comm_move (A B Y : Matrix (Fin d) (Fin d) ℂ) :
    trace (A * comm B Y) = trace (comm A B * Y) := by
  unfold comm
  simp only [Matrix.mul_sub, Matrix.sub_mul, trace_sub, ← Matrix.mul_assoc]
  congr 1
  rw [trace_mul_comm (A * Y) B, Matrix.mul_assoc]

theorem K2_antisymm (C : Fin N → Matrix (Fin d) (Fin d) ℂ) (Δ : Fin N → Fin N → ℂ) (i j : Fin N) :
    K2 C Δ i j = -K2 C Δ j i := by
  unfold K2
  rw [← mul_neg, ← Finset.sum_neg_distrib]
  congr 1
  refine Finset.sum_congr rfl fun k _ => ?_
  rw [← Finset.sum_neg_distrib]
  refine Finset.sum_congr rfl fun l _ => ?_
  rw [trace_mul_comm_antisymm, mul_neg]

theorem K2_diag (C : Fin N → Matrix (Fin d) (Fin d) ℂ) (Δ : Fin N → Fin N → ℂ) (i : Fin N) :
    K2 C Δ i i = 0 :=
  self_eq_neg.mp (K2_antisymm C Δ i i)

/-- first order: `K1(Γ)_ij = K1(Γᵀ)_ji` -/
theorem K1_transpose (C : Fin N → Matrix (Fin d) (Fin d) ℂ) (Γ : Fin N → Fin N → ℂ) (i j : Fin N) :
    K1 C Γ i j = K1 C (fun k l => Γ l k) j i := by
  unfold K1
  congr 1
  rw [Finset.sum_comm]
  refine Finset.sum_congr rfl fun l _ => Finset.sum_congr rfl fun k _ => ?_
  congr 1
  rw [trace_mul_comm_move (C i) (C k), trace_mul_comm_move (C j) (C l),
    trace_mul_comm (comm (C j) (C l)), comm_swap (C k) (C i), comm_swap (C j) (C l)]
  simp

/-! ### An element commuting with everything gives a zero row and column -/

theorem trace_central_mul_comm (Z A B : Matrix (Fin d) (Fin d) ℂ) (hZ : ∀ M, Z * M = M * Z) :
    trace (Z * comm A B) = 0 := by
  unfold comm
  rw [Matrix.mul_sub, trace_sub, ← Matrix.mul_assoc, ← Matrix.mul_assoc, hZ A, Matrix.mul_assoc,
    trace_mul_comm, sub_self]

theorem comm_central (Z A : Matrix (Fin d) (Fin d) ℂ) (hZ : ∀ M, Z * M = M * Z) :
    comm A Z = 0 := by
  unfold comm; rw [hZ A, sub_self]

theorem comm_zero_right (A : Matrix (Fin d) (Fin d) ℂ) : comm A 0 = 0 := by
  unfold comm; simp

theorem K1_row_zero (C : Fin N → Matrix (Fin d) (Fin d) ℂ) (Γ : Fin N → Fin N → ℂ) (i0 j : Fin N)
    (hZ : ∀ M, C i0 * M = M * C i0) : K1 C Γ i0 j = 0 := by
  unfold K1
  simp only [trace_central_mul_comm _ _ _ hZ, mul_zero, Finset.sum_const_zero]

theorem K1_col_zero (C : Fin N → Matrix (Fin d) (Fin d) ℂ) (Γ : Fin N → Fin N → ℂ) (i j0 : Fin N)
    (hZ : ∀ M, C j0 * M = M * C j0) : K1 C Γ i j0 = 0 := by
  unfold K1
  simp only [comm_central _ _ hZ, comm_zero_right, mul_zero, trace_zero, Finset.sum_const_zero]

theorem K2_row_zero (C : Fin N → Matrix (Fin d) (Fin d) ℂ) (Δ : Fin N → Fin N → ℂ) (i0 j : Fin N)
    (hZ : ∀ M, C i0 * M = M * C i0) : K2 C Δ i0 j = 0 := by
  unfold K2
  simp only [trace_central_mul_comm _ _ _ hZ, mul_zero, Finset.sum_const_zero]

theorem K2_col_zero (C : Fin N → Matrix (Fin d) (Fin d) ℂ) (Δ : Fin N → Fin N → ℂ) (i j0 : Fin N)
    (hZ : ∀ M, C j0 * M = M * C j0) : K2 C Δ i j0 = 0 := by
  unfold K2
  simp only [comm_central _ _ hZ, trace_zero, mul_zero, Finset.sum_const_zero]

/-! ### Completeness sums of the trace tensor -/

/-- `Σ_i C_i M C_i = tr(M) 1` for a complete family -/
theorem sum_conj_basis {C : Fin N → Matrix (Fin d) (Fin d) ℂ} (hC : IsComplete C)
    (M : Matrix (Fin d) (Fin d) ℂ) :
    ∑ i, C i * M * C i = trace M • (1 : Matrix (Fin d) (Fin d) ℂ) := by
  ext a e
  simp only [Matrix.sum_apply, Matrix.mul_apply, Finset.sum_mul, Matrix.smul_apply,
    Matrix.one_apply, smul_eq_mul]
  have h1 : ∀ i, ∑ c, ∑ b, C i a b * M b c * C i c e = ∑ c, ∑ b, M b c * (C i a b * C i c e) := by
    intro i
    exact Finset.sum_congr rfl fun c _ => Finset.sum_congr rfl fun b _ => by ring
  simp only [h1]
  rw [Finset.sum_comm]
  have h2 : ∀ c, ∑ i, ∑ b, M b c * (C i a b * C i c e) = if a = e then M c c else 0 := by
    intro c
    rw [Finset.sum_comm]
    simp only [← Finset.mul_sum, FFVerif.C15.swap_identity hC]
    simp [ite_and]
  simp only [h2]
  by_cases h : a = e
  · simp [h, Matrix.trace]
  · simp [h]

/-- `Σ_i T_{k l i i} = d δ_kl` -/
theorem sum_T4_klii {C : Fin N → Matrix (Fin d) (Fin d) ℂ} (hC : IsComplete C)
    (hH : IsOrthoHerm C) (k l : Fin N) :
    ∑ i, T4 C k l i i = (d : ℂ) * (if k = l then 1 else 0) := by
  unfold T4
  have h : ∀ i, trace (C k * C l * C i * C i) = trace (C k * C l * (C i * 1 * C i)) := by
    intro i; simp only [Matrix.mul_one, Matrix.mul_assoc]
  simp only [h]
  rw [← trace_sum, ← Matrix.mul_sum, sum_conj_basis hC]
  simp [hH.ortho]

/-- `Σ_i T_{k i l i} = tr C_k · tr C_l` -/
theorem sum_T4_kili {C : Fin N → Matrix (Fin d) (Fin d) ℂ} (hC : IsComplete C) (k l : Fin N) :
    ∑ i, T4 C k i l i = trace (C k) * trace (C l) := by
  unfold T4
  have h : ∀ i, trace (C k * C i * C l * C i) = trace (C k * (C i * C l * C i)) := by
    intro i; simp only [Matrix.mul_assoc]
  simp only [h]
  rw [← trace_sum, ← Matrix.mul_sum, sum_conj_basis hC]
  simp [mul_comm]

/-- `Σ_i T_{k i i l} = d δ_kl` -/
theorem sum_T4_kiil {C : Fin N → Matrix (Fin d) (Fin d) ℂ} (hC : IsComplete C)
    (hH : IsOrthoHerm C) (k l : Fin N) :
    ∑ i, T4 C k i i l = (d : ℂ) * (if k = l then 1 else 0) := by
  unfold T4
  have h : ∀ i, trace (C k * C i * C i * C l) = trace (C k * (C i * 1 * C i) * C l) := by
    intro i; simp only [Matrix.mul_one, Matrix.mul_assoc]
  simp only [h]
  rw [← trace_sum, ← Matrix.sum_mul, ← Matrix.mul_sum, sum_conj_basis hC]
  simp only [trace_one, Fintype.card_fin, Matrix.mul_smul, Matrix.mul_one, Matrix.smul_mul,
    trace_smul, hH.ortho, smul_eq_mul]

/-- the weight `d δ_kl - tr C_k tr C_l` of `Γ_kl` in the infidelity -/
noncomputable def tdiag (C : Fin N → Matrix (Fin d) (Fin d) ℂ) (k l : Fin N) : ℂ :=
  (d : ℂ) * (if k = l then 1 else 0) - trace (C k) * trace (C l)

theorem sum_K1_diag {C : Fin N → Matrix (Fin d) (Fin d) ℂ} (hC : IsComplete C)
    (hH : IsOrthoHerm C) (Γ : Fin N → Fin N → ℂ) :
    ∑ i, K1 C Γ i i = -∑ k, ∑ l, Γ k l * tdiag C k l := by
  simp only [K1_eq_T4]
  rw [← Finset.sum_div, Finset.sum_neg_distrib]
  simp only [Finset.sum_add_distrib, Finset.sum_sub_distrib]
  have sw : ∀ g : Fin N → Fin N → Fin N → ℂ,
      ∑ i, ∑ k, ∑ l, Γ k l * g i k l = ∑ k, ∑ l, Γ k l * ∑ i, g i k l := by
    intro g
    rw [Finset.sum_comm]
    refine Finset.sum_congr rfl fun k _ => ?_
    rw [Finset.sum_comm]
    exact Finset.sum_congr rfl fun l _ => (Finset.mul_sum _ _ _).symm
  rw [sw (fun i k l => T4 C k l i i), sw (fun i k l => T4 C k i l i),
    sw (fun i k l => T4 C k i i l)]
  simp only [sum_T4_klii hC hH, sum_T4_kili hC, sum_T4_kiil hC hH, tdiag]
  simp only [mul_sub, Finset.sum_sub_distrib]
  ring

/-! ### Traceless bases, reality of the weights -/

/-- traces of the elements of a basis whose element `k0` is a multiple of the identity -/
theorem trace_of_identity_element {C : Fin N → Matrix (Fin d) (Fin d) ℂ} (hH : IsOrthoHerm C)
    (k0 : Fin N) (c : ℂ) (h0 : C k0 = c • (1 : Matrix (Fin d) (Fin d) ℂ)) (k l : Fin N) :
    trace (C k) * trace (C l) = if k = k0 ∧ l = k0 then (d : ℂ) else 0 := by
  have hk : ∀ k, c * trace (C k) = if k = k0 then 1 else 0 := by
    intro k
    have h := hH.ortho k k0
    rw [h0, Matrix.mul_smul, Matrix.mul_one, trace_smul, smul_eq_mul] at h
    exact h
  have hc : c * c * (d : ℂ) = 1 := by
    have h := hk k0
    rw [h0, trace_smul, trace_one, Fintype.card_fin, smul_eq_mul, if_pos rfl] at h
    rw [← h]; ring
  have hc0 : c ≠ 0 := by
    rintro rfl
    simp at hc
  have htr : ∀ k, trace (C k) = if k = k0 then c * (d : ℂ) else 0 := by
    intro k
    by_cases h : k = k0
    · subst h
      rw [if_pos rfl, h0, trace_smul, trace_one, Fintype.card_fin, smul_eq_mul]
    · have := hk k
      rw [if_neg h] at this ⊢
      exact (mul_eq_zero.mp this).resolve_left hc0
  rw [htr, htr]
  by_cases h1 : k = k0 <;> by_cases h2 : l = k0 <;> simp [h1, h2]
  linear_combination (d : ℂ) * hc

/-- `tdiag` is real for a Hermitian family -/
theorem tdiag_real {C : Fin N → Matrix (Fin d) (Fin d) ℂ} (hH : ∀ i, (C i)ᴴ = C i) (k l : Fin N) :
    tdiag C k l = (((d : ℝ) * (if k = l then 1 else 0) - (trace (C k)).re * (trace (C l)).re : ℝ) : ℂ) := by
  have hr : ∀ k, ((trace (C k)).re : ℂ) = trace (C k) := by
    intro k
    apply Complex.conj_eq_iff_re.mp
    rw [starRingEnd_apply, ← trace_conjTranspose, hH]
  unfold tdiag
  push_cast
  rw [hr, hr]
  split_ifs <;> simp


/-! ### Reality -/

/-- `tr(A X)` is real for Hermitian `A`, `X` -/
theorem trace_mul_herm_conj (A X : Matrix (Fin d) (Fin d) ℂ) (hA : Aᴴ = A) (hX : Xᴴ = X) :
    starRingEnd ℂ (trace (A * X)) = trace (A * X) := by
  rw [starRingEnd_apply, ← trace_conjTranspose, conjTranspose_mul, hA, hX, trace_mul_comm]

theorem conj_neg_half : starRingEnd ℂ (-(1 / 2)) = -(1 / 2) := by
  rw [map_neg, map_div₀, map_one, map_ofNat]

theorem nested_comm_first_herm (A B D : Matrix (Fin d) (Fin d) ℂ) (hA : Aᴴ = A) (hB : Bᴴ = B)
    (hD : Dᴴ = D) : (comm A (comm B D))ᴴ = comm A (comm B D) := by
  simp only [comm, conjTranspose_sub, conjTranspose_mul, hA, hB, hD, Matrix.mul_sub,
    Matrix.sub_mul, Matrix.mul_assoc]
  abel

theorem nested_comm_second_herm (A B D : Matrix (Fin d) (Fin d) ℂ) (hA : Aᴴ = A) (hB : Bᴴ = B)
    (hD : Dᴴ = D) : (comm (comm A B) D)ᴴ = comm (comm A B) D := by
  simp only [comm, conjTranspose_sub, conjTranspose_mul, hA, hB, hD, Matrix.mul_sub,
    Matrix.sub_mul, Matrix.mul_assoc]
  abel

theorem K1_conj (C : Fin N → Matrix (Fin d) (Fin d) ℂ) (hH : ∀ i, (C i)ᴴ = C i)
    (Γ : Fin N → Fin N → ℂ) (hΓ : ∀ k l, starRingEnd ℂ (Γ k l) = Γ k l) (i j : Fin N) :
    starRingEnd ℂ (K1 C Γ i j) = K1 C Γ i j := by
  unfold K1
  rw [map_mul, map_sum, conj_neg_half]
  congr 1
  refine Finset.sum_congr rfl fun k _ => ?_
  rw [map_sum]
  refine Finset.sum_congr rfl fun l _ => ?_
  rw [map_mul, hΓ, trace_mul_herm_conj _ _ (hH i)
    (nested_comm_first_herm _ _ _ (hH k) (hH l) (hH j))]

theorem K2_conj (C : Fin N → Matrix (Fin d) (Fin d) ℂ) (hH : ∀ i, (C i)ᴴ = C i)
    (Δ : Fin N → Fin N → ℂ) (hΔ : ∀ k l, starRingEnd ℂ (Δ k l) = Δ k l) (i j : Fin N) :
    starRingEnd ℂ (K2 C Δ i j) = K2 C Δ i j := by
  unfold K2
  rw [map_mul, map_sum, conj_neg_half]
  congr 1
  refine Finset.sum_congr rfl fun k _ => ?_
  rw [map_sum]
  refine Finset.sum_congr rfl fun l _ => ?_
  rw [map_mul, hΔ, trace_mul_herm_conj _ _ (hH i)
    (nested_comm_second_herm _ _ _ (hH k) (hH l) (hH j))]
end FFVerif.Spec

/-! ### Unfolding the model -/

namespace FFVerif.Model
open Matrix FFVerif

variable {N d : Nat}

/-- NOTE for integration: when the body of `Model.fourElementTraces` is swapped to the generated
`Gen.basis_Basis_four_element_traces_0 C C C C`, add that name to this `simp only` set. -/
theorem fourElementTraces_getElem (C : Vector (Mat ℂ d d) N) (i j k l : Fin N) :
    (fourElementTraces C)[i][j][k][l]
      = ∑ a : Fin d, ∑ b : Fin d, ∑ c : Fin d, ∑ e : Fin d,
          C[i][a][b] * C[j][b][c] * C[k][c][e] * C[l][e][a] := by
  simp only [fourElementTraces, Gen.basis_Basis_four_element_traces_0, Fin.getElem_fin, Vector.getElem_ofFn, fsum_eq_sum]

theorem fourElementTraces_eq (C : Vector (Mat ℂ d d) N) (i j k l : Fin N) :
    (fourElementTraces C)[i][j][k][l] = Spec.T4 (Spec.basisOf C) i j k l := by
  rw [fourElementTraces_getElem, Spec.T4, Spec.trace_mul4_apply]
  rfl

theorem cumulantFirst_getElem (Γ : Mat ℂ N N) (T : Ten4 ℂ N N N N) (i j : Fin N) :
    (cumulantFirst Γ T)[i][j]
      = -((∑ k : Fin N, ∑ l : Fin N, Γ[k][l] * T[k][l][j][i])
        - (∑ k : Fin N, ∑ l : Fin N, Γ[k][l] * T[k][j][l][i])
        - (∑ k : Fin N, ∑ l : Fin N, Γ[k][l] * T[k][i][l][j])
        + (∑ k : Fin N, ∑ l : Fin N, Γ[k][l] * T[k][i][j][l])) / 2 := by
  unfold cumulantFirst
  rw [Mat.ofFn_get]
  simp only [Gen.numeric_calculate_cumulant_function_0_e0,
    Gen.numeric_calculate_cumulant_function_1_e0, Gen.numeric_calculate_cumulant_function_2_e0,
    Gen.numeric_calculate_cumulant_function_3_e0, Fin.getElem_fin, Vector.getElem_ofFn,
    fsum_eq_sum, twoK, copsOfReal]
  norm_num

theorem cumulantSecondTerm_getElem (Δ : Mat ℂ N N) (T : Ten4 ℂ N N N N) (i j : Fin N) :
    (cumulantSecondTerm Δ T)[i][j]
      = ((∑ k : Fin N, ∑ l : Fin N, Δ[k][l] * T[k][l][j][i])
        - (∑ k : Fin N, ∑ l : Fin N, Δ[k][l] * T[l][k][j][i])
        - (∑ k : Fin N, ∑ l : Fin N, Δ[k][l] * T[k][l][i][j])
        + (∑ k : Fin N, ∑ l : Fin N, Δ[k][l] * T[l][k][i][j])) / 2 := by
  unfold cumulantSecondTerm
  rw [Mat.ofFn_get]
  simp only [Gen.numeric_calculate_cumulant_function_4_e0,
    Gen.numeric_calculate_cumulant_function_5_e0, Gen.numeric_calculate_cumulant_function_6_e0,
    Gen.numeric_calculate_cumulant_function_7_e0, Fin.getElem_fin, Vector.getElem_ofFn,
    fsum_eq_sum, twoK, copsOfReal]
  norm_num

theorem cumulantGeneral_none (Γ : Mat ℂ N N) (T : Ten4 ℂ N N N N) :
    cumulantGeneral Γ none T = cumulantFirst Γ T := rfl

theorem cumulantGeneral_some_getElem (Γ Δ : Mat ℂ N N) (T : Ten4 ℂ N N N N) (i j : Fin N) :
    (cumulantGeneral Γ (some Δ) T)[i][j]
      = (cumulantFirst Γ T)[i][j] - (cumulantSecondTerm Δ T)[i][j] := by
  unfold cumulantGeneral
  simp only [Mat.ofFn_get]

end FFVerif.Model
