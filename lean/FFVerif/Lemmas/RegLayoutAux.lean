/-
The concrete register layout of `extend` for C05Nfold: row-major flattening of digit tuples
(`rm`), the Pauli basis `Basis.pauli(n)` as a Kronecker product of one-qubit elements indexed by
digit tuples, regrouping of an `N`-fold Kronecker product by parties, and the resulting
flattenings `regEquiv` of Hilbert-space / basis-label tuples for parties sitting on arbitrary
(interleaved) qubit subsets.
-/
import Mathlib.Algebra.BigOperators.Fin
import FFVerif.Lemmas.NfoldAux
import FFVerif.Lemmas.BasisAux
import FFVerif.Lemmas.LiouvilleAux
import FFVerif.Props.C16

set_option linter.unusedSectionVars false

namespace FFVerif.RegLayout
open Matrix Complex FFVerif.KronAux FFVerif.NfoldAux FFVerif.Model FFVerif.Model.Tensor
  FFVerif.TensorAux
open scoped Kronecker

/-! ### row-major flattening of digit tuples -/

/-- `np.ravel_multi_index(a, (b,)*n)`: digit `0` is the most significant one.  The recursion splits
off the LAST digit, `r = b · rm(init a) + a(last)`, as `Model.pauliRaw` does. -/
def rm (b : ℕ) : (n : ℕ) → (Fin n → Fin b) ≃ Fin (b ^ n)
  | 0 =>
    { toFun := fun _ => ⟨0, by simp⟩
      invFun := fun _ i => i.elim0
      left_inv := fun a => by funext i; exact i.elim0
      right_inv := fun r => by
        apply Fin.ext
        have := r.2
        simp only [Nat.pow_zero] at this
        simp only []
        omega }
  | n + 1 =>
    { toFun := fun a => (Fin.flat (rm b n (Fin.init a)) (a (Fin.last n)) : Fin (b ^ n * b))
      invFun := fun r =>
        Fin.snoc ((rm b n).symm (Fin.hi (n := b) (r : Fin (b ^ n * b))))
          (Fin.lo (m := b ^ n) (r : Fin (b ^ n * b)))
      left_inv := fun a => by
        simp only [Fin.hi_flat, Fin.lo_flat, Equiv.symm_apply_apply, Fin.snoc_init_self]
      right_inv := fun r => by
        simp only [Fin.init_snoc, Fin.snoc_last, Equiv.apply_symm_apply]
        exact Fin.flat_hi_lo (m := b ^ n) (n := b) r }

theorem rm_succ_val (b n : ℕ) (a : Fin (n + 1) → Fin b) :
    (rm b (n + 1) a).1 = (rm b n (Fin.init a)).1 * b + (a (Fin.last n)).1 := rfl

theorem rm_succ_hi (b n : ℕ) (a : Fin (n + 1) → Fin b) :
    Fin.hi (m := b ^ n) (n := b) (rm b (n + 1) a) = rm b n (Fin.init a) :=
  Fin.hi_flat _ _

theorem rm_succ_lo (b n : ℕ) (a : Fin (n + 1) → Fin b) :
    Fin.lo (m := b ^ n) (n := b) (rm b (n + 1) a) = a (Fin.last n) :=
  Fin.lo_flat _ _

/-- `rm` is `mixedRadixEncode` with all radices equal to `b` -/
theorem rm_val (b n : ℕ) (a : Fin n → Fin b) :
    (rm b n a).1 = mixedRadixEncode (List.replicate n b) (List.ofFn fun i => (a i).1) := by
  induction n with
  | zero => rfl
  | succ n ih =>
    rw [rm_succ_val, ih, List.ofFn_succ', List.concat_eq_append, List.replicate_succ',
      encode_append (by simp)]
    simp [mixedRadixEncode, prod, Fin.init]

theorem ofFn_val_inBounds (b n : ℕ) (a : Fin n → Fin b) :
    inBounds (List.replicate n b) (List.ofFn fun i => (a i).1) = true := by
  rw [inBounds_replicate_iff]
  refine ⟨List.length_ofFn, fun x hx => ?_⟩
  rw [List.mem_ofFn] at hx
  obtain ⟨i, rfl⟩ := hx
  exact (a i).2

/-- `np.unravel_index` of a flattened index gives back the digits -/
theorem decode_rm (b n : ℕ) (r : Fin (b ^ n)) :
    mixedRadixDecode (List.replicate n b) r.1 = List.ofFn fun t => ((rm b n).symm r t).1 := by
  have h := rm_val b n ((rm b n).symm r)
  rw [Equiv.apply_symm_apply] at h
  rw [h, decode_encode (ofFn_val_inBounds b n _)]

/-- the zero tuple is flattened to `0` -/
theorem rm_symm_zero (b n : ℕ) (hb : 0 < b) (t : Fin n) :
    (rm b n).symm ⟨0, Nat.pow_pos hb⟩ t = ⟨0, hb⟩ := by
  have h0 : rm b n (fun _ => ⟨0, hb⟩) = ⟨0, Nat.pow_pos hb⟩ := by
    apply Fin.ext
    rw [rm_val]
    simp only [List.ofFn_const]
    exact encode_zeros n b
  rw [← h0, Equiv.symm_apply_apply]

/-! ### `Basis.pauli(n)` element by element -/

/-- **Every element of `Basis.pauli(n)` is the Kronecker product of one-qubit elements** (entrywise):
the element whose label has the base-4 digits `a` (first qubit most significant), at the row /
column with binary digits `x` / `y`, is `∏_i (σ_{a_i}/√2)[x_i][y_i]`. -/
theorem pauliBasis_entry (n : ℕ) (a : Fin n → Fin 4) (x y : Fin n → Fin 2) :
    Spec.basisOf (pauliBasis (K := ℂ) n) (rm 4 n a) (rm 2 n x) (rm 2 n y)
      = ∏ i, Spec.basisOf (pauli1 (K := ℂ)) (a i) (x i) (y i) := by
  induction n with
  | zero => rw [pauliBasis_zero_apply]; simp
  | succ n ih =>
    have h4 := rm_succ_hi 4 n a
    have h2x := rm_succ_hi 2 n x
    have h2y := rm_succ_hi 2 n y
    have l4 := rm_succ_lo 4 n a
    have l2x := rm_succ_lo 2 n x
    have l2y := rm_succ_lo 2 n y
    rw [basisOf_pauliBasis_succ]
    calc Spec.kronFamily (Spec.basisOf (pauliBasis (K := ℂ) n)) (Spec.basisOf (pauli1 (K := ℂ)))
          (rm 4 (n + 1) a) (rm 2 (n + 1) x) (rm 2 (n + 1) y)
        = Spec.basisOf (pauliBasis (K := ℂ) n) (Fin.hi (m := 4 ^ n) (n := 4) (rm 4 (n + 1) a))
            (Fin.hi (m := 2 ^ n) (n := 2) (rm 2 (n + 1) x))
            (Fin.hi (m := 2 ^ n) (n := 2) (rm 2 (n + 1) y))
          * Spec.basisOf (pauli1 (K := ℂ)) (Fin.lo (m := 4 ^ n) (n := 4) (rm 4 (n + 1) a))
            (Fin.lo (m := 2 ^ n) (n := 2) (rm 2 (n + 1) x))
            (Fin.lo (m := 2 ^ n) (n := 2) (rm 2 (n + 1) y)) := rfl
      _ = _ := by
        rw [h4, h2x, h2y, l4, l2x, l2y, ih, Fin.prod_univ_castSucc]
        rfl

/-- the same as a matrix identity: `C_{rm a} = reindex rm (⊗_i σ_{a_i}/√2)` -/
theorem pauliBasis_eq_piKron (n : ℕ) (a : Fin n → Fin 4) :
    Spec.basisOf (pauliBasis (K := ℂ) n) (rm 4 n a)
      = Matrix.reindex (rm 2 n) (rm 2 n)
          (piKron fun i => Spec.basisOf (pauli1 (K := ℂ)) (a i)) := by
  ext r c
  obtain ⟨x, rfl⟩ := (rm 2 n).surjective r
  obtain ⟨y, rfl⟩ := (rm 2 n).surjective c
  rw [pauliBasis_entry]
  simp [piKron]

/-! ### regrouping an `N`-fold product by parties -/

section merge
variable {P : Type*} [Fintype P] [DecidableEq P] {n : P → ℕ} {N : ℕ} {ι : Type*}

/-- the digit tuple of the register from the digit tuples of the parties: qubit `σ ⟨q, j⟩` of the
register is the `j`-th qubit of party `q` -/
def mergeEquiv (σ : (Σ q, Fin (n q)) ≃ Fin N) (ι : Type*) :
    (∀ q, Fin (n q) → ι) ≃ (Fin N → ι) where
  toFun x i := x (σ.symm i).1 (σ.symm i).2
  invFun y q j := y (σ ⟨q, j⟩)
  left_inv x := by
    funext q j
    have : ∀ s : (Σ q, Fin (n q)), s = ⟨q, j⟩ → x s.1 s.2 = x q j := by rintro _ rfl; rfl
    exact this _ (σ.symm_apply_apply _)
  right_inv y := by
    funext i
    simp only [Sigma.eta, Equiv.apply_symm_apply]

theorem mergeEquiv_apply_sigma (σ : (Σ q, Fin (n q)) ≃ Fin N) (x : ∀ q, Fin (n q) → ι) (q : P)
    (j : Fin (n q)) : mergeEquiv σ ι x (σ ⟨q, j⟩) = x q j :=
  congrFun (congrFun ((mergeEquiv σ ι).left_inv x) q) j

/-- **regrouping**: the product over the `N` qubits is the (re-indexed) product over the parties of
the products over each party's qubits -/
theorem piKron_regroup (σ : (Σ q, Fin (n q)) ≃ Fin N) (A : Fin N → Matrix ι ι ℂ) :
    piKron A = Matrix.reindex (mergeEquiv σ ι) (mergeEquiv σ ι)
      (piKronH fun q => piKron fun j : Fin (n q) => A (σ ⟨q, j⟩)) := by
  ext x y
  simp only [piKron, piKronH, Matrix.reindex_apply, Matrix.submatrix_apply]
  rw [← Fintype.prod_sigma'
    (fun q j => A (σ ⟨q, j⟩) (((mergeEquiv σ ι).symm x) q j) (((mergeEquiv σ ι).symm y) q j))]
  exact (Fintype.prod_equiv σ _ _ fun s => by
    obtain ⟨q, j⟩ := s
    rfl).symm

end merge

/-- re-indexing every factor re-indexes the product -/
theorem piKronH_reindex {P : Type*} [Fintype P] {ι κ : P → Type*} (E : ∀ q, ι q ≃ κ q)
    (M : ∀ q, Matrix (ι q) (ι q) ℂ) :
    piKronH (fun q => Matrix.reindex (E q) (E q) (M q))
      = Matrix.reindex (Equiv.piCongrRight E) (Equiv.piCongrRight E) (piKronH M) := by
  ext x y
  simp only [piKronH, Matrix.reindex_apply, Matrix.submatrix_apply]
  rfl

/-! ### the flattenings of `extend` -/

section reg
variable {P : Type*} [Fintype P] [DecidableEq P] {n : P → ℕ} {N : ℕ}

/-- **The flattening of party-index tuples to the register index** (`b = 2`: Hilbert space, `b = 4`:
Pauli labels): each party index is expanded into its base-`b` digits (one per qubit, first qubit of
the party most significant), the digits are put at the positions `σ ⟨q, j⟩` of the party's qubits in
the register, and the `N` digits are flattened row-major.  For interleaved parties this is not a
product of `finProdFinEquiv`s. -/
def regEquiv (b : ℕ) (σ : (Σ q, Fin (n q)) ≃ Fin N) : (∀ q, Fin (b ^ n q)) ≃ Fin (b ^ N) :=
  (Equiv.piCongrRight fun q => (rm b (n q)).symm).trans ((mergeEquiv σ (Fin b)).trans (rm b N))

theorem regEquiv_apply (b : ℕ) (σ : (Σ q, Fin (n q)) ≃ Fin N) (k : ∀ q, Fin (b ^ n q)) :
    regEquiv b σ k = rm b N (mergeEquiv σ (Fin b) fun q => (rm b (n q)).symm (k q)) := rfl

/-- **`Basis.pauli(N)` is the product of the parties' Pauli bases in the layout `σ`**: the element
with the flattened label tuple `regEquiv 4 σ k` is the `regEquiv 2 σ`-flattened Kronecker product of
the elements `k_q` of `Basis.pauli(n_q)` — the hypothesis `hC` of `extend_control_matrix_nfold` for
the Pauli bases, for every placement of the parties' qubits. -/
theorem pauliBasis_regEquiv (σ : (Σ q, Fin (n q)) ≃ Fin N) (k : ∀ q, Fin (4 ^ n q)) :
    Spec.basisOf (pauliBasis (K := ℂ) N) (regEquiv 4 σ k)
      = Matrix.reindex (regEquiv 2 σ) (regEquiv 2 σ)
          (piKronH fun q => Spec.basisOf (pauliBasis (K := ℂ) (n q)) (k q)) := by
  have hq : ∀ q, piKron (fun j : Fin (n q) =>
        Spec.basisOf (pauli1 (K := ℂ)) ((rm 4 (n q)).symm (k q) j))
      = Matrix.reindex (rm 2 (n q)).symm (rm 2 (n q)).symm
          (Spec.basisOf (pauliBasis (K := ℂ) (n q)) (k q)) := by
    intro q
    have h := pauliBasis_eq_piKron (n q) ((rm 4 (n q)).symm (k q))
    rw [Equiv.apply_symm_apply] at h
    rw [h]
    ext x y
    simp
  rw [regEquiv_apply, pauliBasis_eq_piKron, piKron_regroup σ]
  simp only [mergeEquiv_apply_sigma, hq]
  rw [piKronH_reindex]
  ext x y
  rfl

end reg

/-! ### `equivalent_pauli_basis_elements` in the layout `σ` -/

section idx
variable {P : Type*} [Fintype P] [DecidableEq P] {N : ℕ}

/-- the identity label of every party -/
def zeroLabel (idx : P → List ℕ) : ∀ q, Fin (4 ^ (idx q).length) :=
  fun _ => ⟨0, Nat.pow_pos (by norm_num)⟩

/-- **`equivalent_pauli_basis_elements(ind_p, N)` lists the flattened label tuples that are the
identity outside party `p`** — for ANY placement of the parties on the register: party `q` sits on
the strictly ascending qubit tuple `idx q`, `σ ⟨q, j⟩` is the register position `idx q [j]`.  The
`j`-th entry of the list is `regEquiv 4 σ (update 0 p j)`. -/
theorem equivalentPauli_regEquiv (idx : P → List ℕ) (σ : (Σ q, Fin (idx q).length) ≃ Fin N)
    (hσ : ∀ (q : P) (j : Fin (idx q).length), (σ ⟨q, j⟩).1 = (idx q)[j])
    (hs : ∀ q, (idx q).Pairwise (· < ·)) (p : P) :
    equivalentPauli (idx p) N
      = List.ofFn fun j : Fin (4 ^ (idx p).length) =>
          (regEquiv 4 σ (Function.update (zeroLabel idx) p j)).1 := by
  have hlt : ∀ i ∈ idx p, i < N := by
    intro i hi
    obtain ⟨t, ht, rfl⟩ := List.getElem_of_mem hi
    have h := (σ ⟨p, ⟨t, ht⟩⟩).2
    rw [hσ] at h
    exact h
  have hnd : (idx p).Nodup := (hs p).imp (fun h => Nat.ne_of_lt h)
  rw [C16.equivalentPauli_spec _ _ (hs p) hlt]
  apply List.ext_getElem
  · simp
  · intro j h1 h2
    have hj : j < 4 ^ (idx p).length := by simpa using h1
    simp only [List.getElem_map, List.getElem_range, List.getElem_ofFn]
    rw [regEquiv_apply, rm_val]
    congr 1
    rw [decode_rm 4 (idx p).length ⟨j, hj⟩]
    -- digit by digit
    apply List.ext_getElem
    · simp [scatterAt]
    · intro i hi1 hi2
      have hi : i < N := by simpa [scatterAt] using hi1
      simp only [scatterAt, List.getElem_map, List.getElem_range, List.getElem_ofFn]
      have key : ∀ s : (Σ q, Fin (idx q).length),
          (if (σ s).1 ∈ idx p then
              (List.ofFn fun t => ((rm 4 (idx p).length).symm ⟨j, hj⟩ t).1).getD
                ((idx p).idxOf (σ s).1) 0
            else 0)
          = (mergeEquiv σ (Fin 4) (fun q => (rm 4 (idx q).length).symm
              (Function.update (zeroLabel idx) p ⟨j, hj⟩ q)) (σ s)).1 := by
        rintro ⟨q, t⟩
        rw [mergeEquiv_apply_sigma, hσ q t]
        simp only [Fin.getElem_fin]
        by_cases hq : q = p
        · subst hq
          rw [Function.update_self, if_pos (List.getElem_mem t.2), hnd.idxOf_getElem t.1 t.2,
            List.getD_eq_getElem?_getD, List.getElem?_ofFn]
          simp
        · rw [Function.update_of_ne hq]
          have hnot : (idx q)[t.1] ∉ idx p := by
            intro hmem
            obtain ⟨t', ht', he⟩ := List.getElem_of_mem hmem
            have h1 : σ ⟨p, ⟨t', ht'⟩⟩ = σ ⟨q, t⟩ := Fin.ext (by rw [hσ, hσ]; exact he)
            exact hq (congrArg Sigma.fst (σ.injective h1)).symm
          rw [if_neg hnot]
          exact (congrArg Fin.val (rm_symm_zero 4 (idx q).length (by norm_num) t)).symm
      have hs' := key (σ.symm ⟨i, hi⟩)
      simp only [Equiv.apply_symm_apply] at hs'
      exact hs'

end idx

end FFVerif.RegLayout
