/-
Helper lemmas for `FFVerif.Props.C10Shifts`: the second-order filter function (`Model.secondOrderFF`,
`Model.secondOrderFFFromScratch`) under a real-linear change of the operator basis.
-/
import FFVerif.Lemmas.SecondOrderScratch
import FFVerif.Lemmas.InvarianceAux
import FFVerif.Props.C12

namespace FFVerif.SecondOrderAsm
open FFVerif FFVerif.Model Complex Finset Matrix

/-- four nested sums over `Fin d` as one sum over the product -/
theorem sum4_prod {d : ℕ} (g : Fin d → Fin d → Fin d → Fin d → ℂ) :
    (∑ i, ∑ j, ∑ m, ∑ n, g i j m n)
      = ∑ q : Fin d × Fin d × Fin d × Fin d, g q.1 q.2.1 q.2.2.1 q.2.2.2 := by
  simp only [Fintype.sum_prod_type]

/-- expansion of a product of two linear combinations -/
theorem bilin_expand {N : ℕ} (A s s' : ℂ) (c e x y : Fin N → ℂ) :
    A * (s * ∑ k', c k' * x k') * (s' * ∑ l', e l' * y l')
      = ∑ k', ∑ l', c k' * (A * (s * x k') * (s' * y l')) * e l' := by
  have h : A * (s * ∑ k', c k' * x k') * (s' * ∑ l', e l' * y l')
      = (A * s * s') * ((∑ k', c k' * x k') * ∑ l', e l' * y l') := by ring
  rw [h, Finset.sum_mul_sum, Finset.mul_sum]
  refine Finset.sum_congr rfl fun k' _ => ?_
  rw [Finset.mul_sum]
  exact Finset.sum_congr rfl fun l' _ => by ring

/-- the "last interval" term of the second-order filter function is bilinear in the two transformed
basis elements -/
theorem quad_step_mix {d N : ℕ} (J : Fin d → Fin d → Fin d → Fin d → ℂ) (s s' : Fin d → Fin d → ℂ)
    (t : Fin N → Fin d → Fin d → ℂ) (c e : Fin N → ℂ) :
    (∑ i, ∑ j, ∑ m, ∑ n, J i j m n * (s i j * ∑ k', c k' * t k' j i)
        * (s' m n * ∑ l', e l' * t l' n m))
      = ∑ k', ∑ l', c k' * (∑ i, ∑ j, ∑ m, ∑ n, J i j m n * (s i j * t k' j i)
          * (s' m n * t l' n m)) * e l' := by
  rw [sum4_prod]
  simp only [bilin_expand]
  rw [Finset.sum_comm]
  refine Finset.sum_congr rfl fun k' _ => ?_
  rw [Finset.sum_comm]
  refine Finset.sum_congr rfl fun l' _ => ?_
  rw [sum4_prod, Finset.mul_sum, Finset.sum_mul]

/-- the "all intervals up to last" term under a real mixing of the rows -/
theorem cross_mix {N n : ℕ} (c e : Fin N → ℝ) (x : Fin N → ℂ) (y : Fin n → Fin N → ℂ) :
    (starRingEnd ℂ) (∑ k', (c k' : ℂ) * x k') * ∑ g' : Fin n, ∑ l', (e l' : ℂ) * y g' l'
      = ∑ k', ∑ l', (c k' : ℂ) * ((starRingEnd ℂ) (x k') * ∑ g' : Fin n, y g' l') * (e l' : ℂ) := by
  rw [map_sum, Finset.sum_comm, Finset.sum_mul_sum]
  refine Finset.sum_congr rfl fun k' _ => Finset.sum_congr rfl fun l' _ => ?_
  rw [map_mul, Complex.conj_ofReal, ← Finset.mul_sum]
  ring

/-- the loop of `calculate_second_order_filter_function` depends on the entries of its per-segment
inputs only -/
theorem secondOrderFF_congr {nG d nO nA N : ℕ} (ints : Vector (Vector (Ten4 ℂ d d d d) nO) nG)
    (nT nT' : Vector (Ten3 ℂ nA d d) nG) (bT bT' : Vector (Ten3 ℂ N d d) nG)
    (cm cm' : Vector (Ten3 ℂ nA N nO) nG)
    (hnT : ∀ (g : Fin nG) (a : Fin nA) (i j : Fin d), nT[g][a][i][j] = nT'[g][a][i][j])
    (hbT : ∀ (g : Fin nG) (k : Fin N) (i j : Fin d), bT[g][k][i][j] = bT'[g][k][i][j])
    (hcm : ∀ (g : Fin nG) (a : Fin nA) (k : Fin N) (o : Fin nO), cm[g][a][k][o] = cm'[g][a][k][o])
    (a b : Fin nA) (k l : Fin N) (o : Fin nO) :
    (secondOrderFF ints nT bT cm)[a][b][k][l][o] = (secondOrderFF ints nT' bT' cm')[a][b][k][l][o] := by
  have hcm' : ∀ (i : ℕ) (hi : i < nG) (a : Fin nA) (k : Fin N) (o : Fin nO),
      (cm[i]'hi)[a][k][o] = (cm'[i]'hi)[a][k][o] := fun i hi a k o => hcm ⟨i, hi⟩ a k o
  rw [secondOrderFF_get, secondOrderFF_get]
  refine Finset.sum_congr rfl fun g _ => ?_
  rw [secondOrderStep_get, secondOrderStep_get, secondOrderCross_get, secondOrderCross_get, hcm]
  simp only [hnT, hbT, hcm']

/-- rotation of three nested sums -/
theorem sum3_rot {α β γ : Type} [Fintype α] [Fintype β] [Fintype γ] (f : α → β → γ → ℂ) :
    (∑ g, ∑ k, ∑ l, f g k l) = ∑ k, ∑ l, ∑ g, f g k l :=
  Finset.sum_comm.trans (Finset.sum_congr rfl fun _ _ => Finset.sum_comm)

/-- **The loop of `calculate_second_order_filter_function` under a real mixing of the basis.**  If
the transformed basis elements and the per-segment control-matrix contributions of a second basis
are the combinations `Σ_l O_kl (…)_l` of those of the first one with a REAL matrix `O` (rectangular
allowed, no orthogonality needed), then for all other inputs the same
`F2'[a,b,k,l,o] = Σ_{k'l'} O_kk' F2[a,b,k',l',o] O_ll'`. -/
theorem secondOrderFF_mix {nG d nO nA N N' : ℕ} (ints : Vector (Vector (Ten4 ℂ d d d d) nO) nG)
    (nT : Vector (Ten3 ℂ nA d d) nG) (bT : Vector (Ten3 ℂ N d d) nG)
    (bT' : Vector (Ten3 ℂ N' d d) nG) (cm : Vector (Ten3 ℂ nA N nO) nG)
    (cm' : Vector (Ten3 ℂ nA N' nO) nG) (O : Matrix (Fin N') (Fin N) ℝ)
    (hbT : ∀ (g : Fin nG) (k : Fin N') (i j : Fin d),
      bT'[g][k][i][j] = ∑ l : Fin N, (O k l : ℂ) * bT[g][l][i][j])
    (hcm : ∀ (g : Fin nG) (a : Fin nA) (k : Fin N') (o : Fin nO),
      cm'[g][a][k][o] = ∑ l : Fin N, (O k l : ℂ) * cm[g][a][l][o])
    (a b : Fin nA) (k l : Fin N') (o : Fin nO) :
    (secondOrderFF ints nT bT' cm')[a][b][k][l][o]
      = ∑ k' : Fin N, ∑ l' : Fin N,
          (O k k' : ℂ) * (secondOrderFF ints nT bT cm)[a][b][k'][l'][o] * (O l l' : ℂ) := by
  have hstep : ∀ g : Fin nG, (secondOrderStep ints[g] nT[g] bT'[g])[a][b][k][l][o]
      = ∑ k' : Fin N, ∑ l' : Fin N,
          (O k k' : ℂ) * (secondOrderStep ints[g] nT[g] bT[g])[a][b][k'][l'][o] * (O l l' : ℂ) := by
    intro g
    rw [secondOrderStep_get]
    simp only [secondOrderStep_get, hbT]
    exact quad_step_mix (fun i j m n => ints[g][o][i][j][m][n]) (fun i j => nT[g][a][i][j])
      (fun m n => nT[g][b][m][n]) (fun k' j i => bT[g][k'][j][i]) (fun k' => (O k k' : ℂ))
      (fun l' => (O l l' : ℂ))
  have hcm' : ∀ (i : ℕ) (hi : i < nG) (a : Fin nA) (k : Fin N') (o : Fin nO),
      (cm'[i]'hi)[a][k][o] = ∑ l : Fin N, (O k l : ℂ) * (cm[i]'hi)[a][l][o] :=
    fun i hi a k o => hcm ⟨i, hi⟩ a k o
  have hcross : ∀ g : Fin nG, (secondOrderCross cm' g)[a][b][k][l][o]
      = ∑ k' : Fin N, ∑ l' : Fin N,
          (O k k' : ℂ) * (secondOrderCross cm g)[a][b][k'][l'][o] * (O l l' : ℂ) := by
    intro g
    rw [secondOrderCross_get, hcm]
    simp only [secondOrderCross_get, hcm']
    exact cross_mix (fun k' => O k k') (fun l' => O l l') (fun k' => cm[g][a][k'][o])
      (fun (g' : Fin g.1) l' => (cm[g'.1]'(Nat.lt_trans g'.2 g.2))[b][l'][o])
  rw [secondOrderFF_get]
  simp only [secondOrderFF_get ints nT bT cm, hstep, hcross, Finset.mul_sum, Finset.sum_mul]
  rw [← sum3_rot]
  refine Finset.sum_congr rfl fun g _ => ?_
  rw [← Finset.sum_add_distrib]
  refine Finset.sum_congr rfl fun k' _ => ?_
  rw [← Finset.sum_add_distrib]
  refine Finset.sum_congr rfl fun l' _ => ?_
  ring

/-- `_transform_by_unitary` is linear in the transformed operator -/
theorem transformByUnitary_mix {d N N' : ℕ} (U : Mat ℂ d d) (basis : Vector (Mat ℂ d d) N)
    (basis' : Vector (Mat ℂ d d) N') (O : Matrix (Fin N') (Fin N) ℝ)
    (hO : ∀ k : Fin N', basis'[k].toMatrix = ∑ l : Fin N, ((O k l : ℝ) : ℂ) • basis[l].toMatrix)
    (k : Fin N') (i j : Fin d) :
    (transformByUnitary U basis'[k])[i][j]
      = ∑ l : Fin N, (O k l : ℂ) * (transformByUnitary U basis[l])[i][j] := by
  rw [C01.transformByUnitary_getElem, hO k, InvAux.sandwich_sum]
  refine Finset.sum_congr rfl fun l _ => ?_
  rw [C01.transformByUnitary_getElem]

/-- the one-segment control-matrix call of the second-order routine under a real mixing of the
basis (`C12.cm_basis_change` for one segment) -/
theorem cm_single_mix {d nO nA N N' : ℕ} (kind : MaskKind) (thr : ℝ) (ev : Vec ℝ d)
    (V Q : Mat ℂ d d) (omega : Vec ℝ nO) (basis : Vector (Mat ℂ d d) N)
    (basis' : Vector (Mat ℂ d d) N') (nOpers : Vector (Mat ℂ d d) nA) (c : Vector (Vec ℝ 1) nA)
    (dt t : ℝ) (O : Matrix (Fin N') (Fin N) ℝ)
    (hO : ∀ k : Fin N', basis'[k].toMatrix = ∑ l : Fin N, ((O k l : ℝ) : ℂ) • basis[l].toMatrix)
    (a : Fin nA) (k : Fin N') (o : Fin nO) :
    (controlMatrixFromScratch kind thr #v[ev] #v[V] #v[Q] omega basis' nOpers c #v[dt] #v[t])[a][k][o]
      = ∑ l : Fin N, (O k l : ℂ)
          * (controlMatrixFromScratch kind thr #v[ev] #v[V] #v[Q] omega basis nOpers c #v[dt]
              #v[t])[a][l][o] :=
  C12.cm_basis_change kind thr #v[ev] #v[V] #v[Q] omega basis basis' nOpers c #v[dt] #v[t]
    (Matrix.of fun k l => ((O k l : ℝ) : ℂ)) hO a k o

/-- **`calculate_second_order_filter_function` (no cached intermediates) under a real-linear change
of the operator basis**: if `C'_k = Σ_l O_kl C_l` with real coefficients (any two lengths, no
orthogonality), then `F2'[a,b,k,l,o] = Σ_{k'l'} O_kk' F2[a,b,k',l',o] O_ll'` for every guard of
`_first_order_integral`, all pulse data and every frequency. -/
theorem secondOrderFFFromScratch_mix {nG d nO nA N N' : ℕ} (kind : MaskKind) (thr : ℝ)
    (eigvals : Mat ℝ nG d) (eigvecs props : Vector (Mat ℂ d d) nG) (omega : Vec ℝ nO)
    (basis : Vector (Mat ℂ d d) N) (basis' : Vector (Mat ℂ d d) N')
    (nOpers : Vector (Mat ℂ d d) nA) (nCoeffs : Mat ℝ nA nG) (dt t : Vec ℝ nG)
    (O : Matrix (Fin N') (Fin N) ℝ)
    (hO : ∀ k : Fin N', basis'[k].toMatrix = ∑ l : Fin N, ((O k l : ℝ) : ℂ) • basis[l].toMatrix)
    (a b : Fin nA) (k l : Fin N') (o : Fin nO) :
    (secondOrderFFFromScratch kind thr eigvals eigvecs props omega basis' nOpers nCoeffs dt
        t)[a][b][k][l][o]
      = ∑ k' : Fin N, ∑ l' : Fin N, (O k k' : ℂ)
          * (secondOrderFFFromScratch kind thr eigvals eigvecs props omega basis nOpers nCoeffs dt
              t)[a][b][k'][l'][o] * (O l l' : ℂ) := by
  have key := secondOrderFF_mix
    (Vector.ofFn fun g : Fin nG => (secondOrderIntegral omega eigvals[g] dt[g] :
      Vector (Ten4 ℂ d d d d) nO))
    (Vector.ofFn fun g : Fin nG => Vector.ofFn fun a : Fin nA =>
      Mat.smul (CplxOps.ofReal nCoeffs[a][g]) (transformByUnitary eigvecs[g] nOpers[a]))
    (Vector.ofFn fun g : Fin nG => Vector.ofFn fun k : Fin N =>
      transformByUnitary
        ((Vector.ofFn fun g : Fin nG => Mat.mul (Mat.adjoint props[g]) eigvecs[g])[g]) basis[k])
    (Vector.ofFn fun g : Fin nG => Vector.ofFn fun k : Fin N' =>
      transformByUnitary
        ((Vector.ofFn fun g : Fin nG => Mat.mul (Mat.adjoint props[g]) eigvecs[g])[g]) basis'[k])
    (Vector.ofFn fun g : Fin nG => controlMatrixFromScratch kind thr #v[eigvals[g]] #v[eigvecs[g]]
      #v[props[g]] omega basis nOpers (Vector.ofFn fun a => #v[nCoeffs[a][g]]) #v[dt[g]] #v[t[g]])
    (Vector.ofFn fun g : Fin nG => controlMatrixFromScratch kind thr #v[eigvals[g]] #v[eigvecs[g]]
      #v[props[g]] omega basis' nOpers (Vector.ofFn fun a => #v[nCoeffs[a][g]]) #v[dt[g]] #v[t[g]])
    O
    (by
      intro g k i j
      rw [vec_ofFn_get, vec_ofFn_get, transformByUnitary_mix _ basis basis' O hO k i j]
      refine Finset.sum_congr rfl fun l _ => ?_
      rw [vec_ofFn_get, vec_ofFn_get, vec_ofFn_get, vec_ofFn_get])
    (by
      intro g a k o
      rw [vec_ofFn_get]
      rw [cm_single_mix kind thr _ _ _ omega basis basis' nOpers _ _ _ O hO a k o]
      refine Finset.sum_congr rfl fun l _ => ?_
      rw [vec_ofFn_get])
    a b k l o
  unfold secondOrderFFFromScratch
  exact key

end FFVerif.SecondOrderAsm
