/-
Cutting one segment in two, per-segment level: the control-matrix contribution, its conjugate for
Hermitian operators, and the "last interval" number of the second-order filter function
(two triangles plus the rectangle).  Helpers for `Props/C13Second.lean`.
-/
import FFVerif.Lemmas.SecondOrderInvAux

namespace FFVerif.SecondOrderInv
open FFVerif FFVerif.Model FFVerif.SecondOrderAux FFVerif.SecondOrderAsm Complex Finset Matrix

variable {d : ℕ}

/-! ### Hermiticity of the transformed operators -/

theorem nMat_herm (V B : Mat ℂ d d) (s : ℝ)
    (hB : ∀ i j : Fin d, (starRingEnd ℂ) B[i][j] = B[j][i]) (i j : Fin d) :
    (starRingEnd ℂ) (nMat V B s i j) = nMat V B s j i := by
  rw [← nT_entry, ← nT_entry, C01.smul_getElem, C01.smul_getElem, map_mul,
    transformByUnitary_herm _ _ hB, copsOfReal, Complex.conj_ofReal]

theorem bMat_herm (V Q C : Mat ℂ d d)
    (hC : ∀ i j : Fin d, (starRingEnd ℂ) C[i][j] = C[j][i]) (i j : Fin d) :
    (starRingEnd ℂ) (bMat V Q C i j) = bMat V Q C j i := by
  rw [← bT_entry, ← bT_entry]
  exact transformByUnitary_herm _ _ hC i j

/-- the transformed basis element of the SECOND piece of a cut segment (cumulative propagator
`V e^{-iλτ} V† Q`): the entries pick up the phases `e^{-iλ_n τ} · e^{iλ_m τ}` -/
theorem bMat_cut (ev : Fin d → ℝ) (V Q Q' C : Mat ℂ d d) (τ : ℝ)
    (hQ' : Q'.toMatrix = C01.Useg ev V.toMatrix Q.toMatrix τ)
    (hV : (V.toMatrix)ᴴ * V.toMatrix = 1) (n m : Fin d) :
    bMat V Q' C n m
      = (starRingEnd ℂ) (Complex.exp (Complex.I * ((ev n : ℂ) * (τ : ℂ)))) * bMat V Q C n m
        * Complex.exp (Complex.I * ((ev m : ℂ) * (τ : ℂ))) := by
  unfold bMat
  rw [hQ', C01.Useg_conjTranspose, InvAux.diag_phase_sandwich _ _ _ _ hV]

/-! ### exactness of the first-order entries used by a segment -/

/-- all entries of `_first_order_integral` of a segment with level energies `ev`, at frequency `ω`
and duration `τ`, are the segment integrals (no entry is replaced by the truncated value) -/
def ExactAt (kind : MaskKind) (thr : ℝ) (ev : Fin d → ℝ) (ω τ : ℝ) : Prop :=
  ∀ m n : Fin d, (firstOrderEntry kind thr (ω + (ev m - ev n)) τ : ℂ) = segI (ω + (ev m - ev n)) τ

/-- with the exact guard every entry is exact -/
theorem exactAt_neZero (thr : ℝ) (ev : Fin d → ℝ) (ω τ : ℝ) : ExactAt .neZero thr ev ω τ :=
  fun _ _ => firstOrderEntry_neZero thr _ τ

/-- with any guard and `thr ≥ 0` the entries whose mask holds are exact -/
theorem exactAt_of_mask (kind : MaskKind) (thr : ℝ) (hthr : 0 ≤ thr) (ev : Fin d → ℝ) (ω τ : ℝ)
    (hm : ∀ m n : Fin d, firstOrderMask kind thr (ω + (ev m - ev n)) τ = true) :
    ExactAt kind thr ev ω τ :=
  fun m n => C01.firstOrderEntry_exact kind thr _ τ hthr (hm m n)

/-! ### the control-matrix contribution of a cut segment -/

/-- `segCm` of the whole segment = `segCm` of the first piece + `segCm` of the second piece
(start time `t + τ₁`, basis entries with the phases of `bMat_cut`), provided the first-order
entries for the three durations are exact. -/
theorem segCm_cut (kind : MaskKind) (thr : ℝ) (ev : Fin d → ℝ) (ω t τ₁ τ₂ : ℝ)
    (N T T' : Matrix (Fin d) (Fin d) ℂ)
    (hT' : ∀ n m, T' n m = (starRingEnd ℂ) (Complex.exp (Complex.I * ((ev n : ℂ) * (τ₁ : ℂ))))
      * T n m * Complex.exp (Complex.I * ((ev m : ℂ) * (τ₁ : ℂ))))
    (h1 : ExactAt kind thr ev ω τ₁) (h2 : ExactAt kind thr ev ω τ₂)
    (h12 : ExactAt kind thr ev ω (τ₁ + τ₂)) :
    segCm kind thr ev ω τ₁ t N T + segCm kind thr ev ω τ₂ (t + τ₁) N T'
      = segCm kind thr ev ω (τ₁ + τ₂) t N T := by
  unfold segCm
  rw [← Finset.sum_add_distrib]
  refine Finset.sum_congr rfl fun m _ => ?_
  rw [← Finset.sum_add_distrib]
  refine Finset.sum_congr rfl fun n _ => ?_
  rw [hT', h1 m n, h2 m n, h12 m n, segI_add]
  have hph := InvAux.cut_phase ω t τ₁ (ev m) (ev n)
  have e1 : Complex.exp (Complex.I * ((ω * (t + τ₁) : ℝ) : ℂ))
      = Complex.exp (Complex.I * ((ω : ℂ) * ((t + τ₁ : ℝ) : ℂ))) := by push_cast; rfl
  have e2 : Complex.exp (Complex.I * ((ω * t : ℝ) : ℂ))
      = Complex.exp (Complex.I * ((ω : ℂ) * (t : ℂ))) := by push_cast; rfl
  rw [e1, e2]
  linear_combination (N m n * segI (ω + (ev m - ev n)) τ₂ * T n m) * hph

/-- conjugate of the control-matrix contribution for Hermitian `N`, `T` (exact entries):
`conj B = Σ_ij e^{-iωt} N_ij T_ji ∫₀^dt e^{i(Ω_ij - ω)s} ds` -/
theorem conj_segCm (kind : MaskKind) (thr : ℝ) (ev : Fin d → ℝ) (ω dt t : ℝ)
    (N T : Matrix (Fin d) (Fin d) ℂ)
    (hN : ∀ i j, (starRingEnd ℂ) (N i j) = N j i) (hT : ∀ i j, (starRingEnd ℂ) (T i j) = T j i)
    (hx : ExactAt kind thr ev ω dt) :
    (starRingEnd ℂ) (segCm kind thr ev ω dt t N T)
      = ∑ i, ∑ j, (starRingEnd ℂ) (Complex.exp (Complex.I * ((ω * t : ℝ) : ℂ))) * (N i j * T j i)
          * segI (ev i - ev j - ω) dt := by
  unfold segCm
  rw [map_sum, Finset.sum_comm]
  refine Finset.sum_congr rfl fun i _ => ?_
  rw [map_sum]
  refine Finset.sum_congr rfl fun j _ => ?_
  rw [map_mul, map_mul, map_mul, hN, hT, hx i j, segI_conj]
  have e : -(ω + (ev i - ev j)) = ev j - ev i - ω := by ring
  rw [e]
  ring

/-- Hermiticity is preserved by the phases of `bMat_cut` -/
theorem phase_herm (e : Fin d → ℂ) (T T' : Matrix (Fin d) (Fin d) ℂ)
    (hT : ∀ i j, (starRingEnd ℂ) (T i j) = T j i)
    (hT' : ∀ n m, T' n m = (starRingEnd ℂ) (e n) * T n m * e m) (i j : Fin d) :
    (starRingEnd ℂ) (T' i j) = T' j i := by
  rw [hT', hT', map_mul, map_mul, Complex.conj_conj, hT]
  ring

/-! ### the "last interval" number of a cut segment -/

theorem cut_term (J1 J2 J12 Sa2 Sb1 Ea Eb u ub na tk nb tl cj ei cn em php ph : ℂ)
    (hJ : J12 = J1 + Ea * Sa2 * Sb1 + Ea * Eb * J2)
    (h1 : cj * ei = Ea * u) (h2 : cn * em = Eb * ub) (h3 : php * ph = ub) (hu : u * ub = 1) :
    J1 * (na * tk) * (nb * tl) + J2 * (na * (cj * tk * ei)) * (nb * (cn * tl * em))
        + (php * (na * (cj * tk * ei)) * Sa2) * (ph * nb * Sb1 * tl)
      = J12 * (na * tk) * (nb * tl) := by
  linear_combination (-(na * tk * nb * tl)) * hJ
    + (na * tk * nb * tl) * J2 * ((cn * em) * h1 + Ea * u * h2 + Ea * Eb * hu)
    + (na * tk * nb * tl) * Sa2 * Sb1 * ((cj * ei) * h3 + ub * h1 + Ea * hu)

theorem exp_phase1 (ω τ li lj : ℝ) :
    (starRingEnd ℂ) (Complex.exp (Complex.I * ((lj : ℂ) * (τ : ℂ))))
        * Complex.exp (Complex.I * ((li : ℂ) * (τ : ℂ)))
      = Complex.exp (Complex.I * ((li - lj - ω : ℝ) : ℂ) * (τ : ℂ))
        * Complex.exp (Complex.I * ((ω * τ : ℝ) : ℂ)) := by
  rw [← Complex.exp_conj, ← Complex.exp_add, ← Complex.exp_add]
  congr 1
  simp only [map_mul, Complex.conj_I, Complex.conj_ofReal]
  push_cast
  ring

theorem exp_phase2 (ω τ lm ln : ℝ) :
    (starRingEnd ℂ) (Complex.exp (Complex.I * ((ln : ℂ) * (τ : ℂ))))
        * Complex.exp (Complex.I * ((lm : ℂ) * (τ : ℂ)))
      = Complex.exp (Complex.I * ((lm - ln + ω : ℝ) : ℂ) * (τ : ℂ))
        * (starRingEnd ℂ) (Complex.exp (Complex.I * ((ω * τ : ℝ) : ℂ))) := by
  rw [← Complex.exp_conj, ← Complex.exp_conj, ← Complex.exp_add, ← Complex.exp_add]
  congr 1
  simp only [map_mul, Complex.conj_I, Complex.conj_ofReal]
  push_cast
  ring

theorem exp_phase3 (ω t τ : ℝ) :
    (starRingEnd ℂ) (Complex.exp (Complex.I * ((ω * (t + τ) : ℝ) : ℂ)))
        * Complex.exp (Complex.I * ((ω * t : ℝ) : ℂ))
      = (starRingEnd ℂ) (Complex.exp (Complex.I * ((ω * τ : ℝ) : ℂ))) := by
  rw [← Complex.exp_conj, ← Complex.exp_conj, ← Complex.exp_add]
  congr 1
  simp only [map_mul, Complex.conj_I, Complex.conj_ofReal]
  push_cast
  ring

theorem exp_unimod (x : ℝ) :
    Complex.exp (Complex.I * (x : ℂ)) * (starRingEnd ℂ) (Complex.exp (Complex.I * (x : ℂ))) = 1 := by
  rw [← Complex.exp_conj, ← Complex.exp_add]
  simp

/-- the kernel of `_second_order_integral` under a split of the duration -/
theorem secondOrderEntry_add (E Oij Omn τ₁ τ₂ : ℝ) :
    (secondOrderEntry E Oij Omn (τ₁ + τ₂) : ℂ)
      = secondOrderEntry E Oij Omn τ₁
        + Complex.exp (Complex.I * ((Oij - E : ℝ) : ℂ) * (τ₁ : ℂ)) * segI (Oij - E) τ₂
            * segI (Omn + E) τ₁
        + Complex.exp (Complex.I * ((Oij - E : ℝ) : ℂ) * (τ₁ : ℂ))
            * Complex.exp (Complex.I * ((Omn + E : ℝ) : ℂ) * (τ₁ : ℂ))
            * secondOrderEntry E Oij Omn τ₂ := by
  rw [C10.secondOrderEntry_eq_nested, C10.secondOrderEntry_eq_nested,
    C10.secondOrderEntry_eq_nested, C10.nested_eq_nested2, C10.nested_eq_nested2,
    C10.nested_eq_nested2]
  exact nested2_add _ _ _ _

/-- product of two double sums as a four-fold sum -/
theorem sum2_mul_sum2 (A B : Fin d → Fin d → ℂ) :
    (∑ i, ∑ j, A i j) * (∑ m, ∑ n, B m n) = ∑ i, ∑ j, ∑ m, ∑ n, A i j * B m n := by
  rw [Finset.sum_mul]; refine Finset.sum_congr rfl fun i _ => ?_
  rw [Finset.sum_mul]; refine Finset.sum_congr rfl fun j _ => ?_
  rw [Finset.mul_sum]; refine Finset.sum_congr rfl fun m _ => ?_
  rw [Finset.mul_sum]

/-- **The "last interval" number of a cut segment**: first triangle + second triangle (basis
entries with the phases of the second piece) + the rectangle, which is exactly the cross term
`conj(cm₂[a,k]) · cm₁[b,l]` that the loop adds for the second piece.  Exact first-order entries
for the two pieces, Hermitian `N_a`, `T_k` (needed to identify the conjugated control-matrix
entry). -/
theorem segStep_cut (kind : MaskKind) (thr : ℝ) (ev : Fin d → ℝ) (ω t τ₁ τ₂ : ℝ)
    (Na Nb Tk Tl Tk' Tl' : Matrix (Fin d) (Fin d) ℂ)
    (hNa : ∀ i j, (starRingEnd ℂ) (Na i j) = Na j i)
    (hTk : ∀ i j, (starRingEnd ℂ) (Tk i j) = Tk j i)
    (hTk' : ∀ n m, Tk' n m = (starRingEnd ℂ) (Complex.exp (Complex.I * ((ev n : ℂ) * (τ₁ : ℂ))))
      * Tk n m * Complex.exp (Complex.I * ((ev m : ℂ) * (τ₁ : ℂ))))
    (hTl' : ∀ n m, Tl' n m = (starRingEnd ℂ) (Complex.exp (Complex.I * ((ev n : ℂ) * (τ₁ : ℂ))))
      * Tl n m * Complex.exp (Complex.I * ((ev m : ℂ) * (τ₁ : ℂ))))
    (h1 : ExactAt kind thr ev ω τ₁) (h2 : ExactAt kind thr ev ω τ₂) :
    segStep ev ω τ₁ Na Nb Tk Tl + segStep ev ω τ₂ Na Nb Tk' Tl'
        + (starRingEnd ℂ) (segCm kind thr ev ω τ₂ (t + τ₁) Na Tk')
          * segCm kind thr ev ω τ₁ t Nb Tl
      = segStep ev ω (τ₁ + τ₂) Na Nb Tk Tl := by
  rw [conj_segCm kind thr ev ω τ₂ (t + τ₁) Na Tk' hNa
    (phase_herm (fun n => Complex.exp (Complex.I * ((ev n : ℂ) * (τ₁ : ℂ)))) Tk Tk' hTk hTk') h2]
  unfold segStep segCm
  rw [sum2_mul_sum2]
  simp only [← Finset.sum_add_distrib]
  refine Finset.sum_congr rfl fun i _ => Finset.sum_congr rfl fun j _ =>
    Finset.sum_congr rfl fun m _ => Finset.sum_congr rfl fun n _ => ?_
  rw [hTk', hTl', h1 m n]
  have hb : ω + (ev m - ev n) = ev m - ev n + ω := by ring
  have ha : ev i - ev j - ω = ev i - ev j - ω := rfl
  rw [hb]
  exact cut_term _ _ _ _ _ _ _ _ _ _ _ _ _ _ _ _ _ _ _
    (secondOrderEntry_add ω (ev i - ev j) (ev m - ev n) τ₁ τ₂)
    (exp_phase1 ω τ₁ (ev i) (ev j)) (exp_phase2 ω τ₁ (ev m) (ev n)) (exp_phase3 ω t τ₁)
    (exp_unimod (ω * τ₁))

end FFVerif.SecondOrderInv
