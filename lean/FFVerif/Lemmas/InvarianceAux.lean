/-
Helper lemmas for the invariance theorems C12 / C13: vector access, matrix sandwiches, sums.
-/
import Mathlib.LinearAlgebra.Matrix.Trace
import Mathlib.LinearAlgebra.Matrix.ConjTranspose
import Mathlib.Analysis.Complex.Basic
import Mathlib.Analysis.Complex.Exponential
import FFVerif.Lemmas.Inst
import FFVerif.Lemmas.Bridge
import FFVerif.Lemmas.MatBridge

namespace FFVerif.InvAux
open FFVerif Matrix

/-! ### access lemmas -/

theorem vec_map_get {α β : Type} {n : Nat} (f : α → β) (v : Vector α n) (i : Fin n) :
    (v.map f)[i] = f v[i] := by
  simp only [Fin.getElem_fin, Vector.getElem_map]

theorem vec_ofFn_get {α : Type} {n : Nat} (F : Fin n → α) (i : Fin n) : (Vector.ofFn F)[i] = F i := by
  simp only [Fin.getElem_fin, Vector.getElem_ofFn]

theorem toMatrix_add {m k : Nat} (A B : Mat ℂ m k) :
    (Mat.add A B).toMatrix = A.toMatrix + B.toMatrix := by
  ext i j; simp [Mat.add, Mat.toMatrix]

/-! ### matrix sandwiches -/

variable {d : Nat}

/-- a unit-modulus scalar on the cumulative propagator drops out of `(Q†V)† C (Q†V)` -/
theorem phase_sandwich (u : ℂ) (hu : ‖u‖ = 1) (Q V C : Matrix (Fin d) (Fin d) ℂ) :
    ((u • Q)ᴴ * V)ᴴ * C * ((u • Q)ᴴ * V) = (Qᴴ * V)ᴴ * C * (Qᴴ * V) := by
  have h1 : u * (starRingEnd ℂ) u = 1 := by
    rw [Complex.mul_conj', hu]; norm_num
  simp only [Matrix.conjTranspose_smul, Matrix.conjTranspose_mul, Matrix.conjTranspose_conjTranspose,
    Matrix.smul_mul, Matrix.mul_smul, smul_smul, RCLike.star_def, Complex.conj_conj]
  rw [mul_comm, h1, one_smul]

/-- `(WV)† (W B W†) (WV) = V† B V` for an isometry `W` -/
theorem frame_sandwich_noise (W V B : Matrix (Fin d) (Fin d) ℂ) (hW : Wᴴ * W = 1) :
    (W * V)ᴴ * (W * B * Wᴴ) * (W * V) = Vᴴ * B * V := by
  have hW' : ∀ X : Matrix (Fin d) (Fin d) ℂ, Wᴴ * (W * X) = X := by
    intro X; rw [← Matrix.mul_assoc, hW, Matrix.one_mul]
  simp only [Matrix.conjTranspose_mul, Matrix.mul_assoc, hW']

/-- `((W Q W†)† W V)† (W C W†) ((W Q W†)† W V) = (Q†V)† C (Q†V)` for an isometry `W` -/
theorem frame_sandwich_basis (W V Q C : Matrix (Fin d) (Fin d) ℂ) (hW : Wᴴ * W = 1) :
    ((W * Q * Wᴴ)ᴴ * (W * V))ᴴ * (W * C * Wᴴ) * ((W * Q * Wᴴ)ᴴ * (W * V))
      = (Qᴴ * V)ᴴ * C * (Qᴴ * V) := by
  have hW' : ∀ X : Matrix (Fin d) (Fin d) ℂ, Wᴴ * (W * X) = X := by
    intro X; rw [← Matrix.mul_assoc, hW, Matrix.one_mul]
  simp only [Matrix.conjTranspose_mul, Matrix.conjTranspose_conjTranspose, Matrix.mul_assoc, hW']

/-- linearity of the sandwich `A† C A` in `C`, entrywise -/
theorem sandwich_sum {nK : Nat} (A : Matrix (Fin d) (Fin d) ℂ) (c : Fin nK → ℂ)
    (C : Fin nK → Matrix (Fin d) (Fin d) ℂ) (n m : Fin d) :
    (Aᴴ * (∑ l, c l • C l) * A) n m = ∑ l, c l * (Aᴴ * C l * A) n m := by
  rw [Matrix.mul_sum, Matrix.sum_mul, Matrix.sum_apply]
  refine Finset.sum_congr rfl fun l _ => ?_
  rw [Matrix.mul_smul, Matrix.smul_mul, Matrix.smul_apply, smul_eq_mul]

/-- the phases `diag e` picked up by the cumulative propagator inside a segment appear as
`conj (e n) · e m` on the entries of `(Q†V)† C (Q†V)` (needs `V†V = 1`) -/
theorem diag_phase_sandwich (V Q C : Matrix (Fin d) (Fin d) ℂ) (e : Fin d → ℂ) (hV : Vᴴ * V = 1)
    (n m : Fin d) :
    (((Qᴴ * V * Matrix.diagonal e * Vᴴ) * V)ᴴ * C * ((Qᴴ * V * Matrix.diagonal e * Vᴴ) * V)) n m
      = starRingEnd ℂ (e n) * ((Qᴴ * V)ᴴ * C * (Qᴴ * V)) n m * e m := by
  have h1 : (Qᴴ * V * Matrix.diagonal e * Vᴴ) * V = (Qᴴ * V) * Matrix.diagonal e := by
    rw [Matrix.mul_assoc _ Vᴴ V, hV, Matrix.mul_one]
  rw [h1, Matrix.conjTranspose_mul, Matrix.diagonal_conjTranspose]
  have h2 : Matrix.diagonal (star e) * (Qᴴ * V)ᴴ * C * (Qᴴ * V * Matrix.diagonal e)
      = Matrix.diagonal (star e) * ((Qᴴ * V)ᴴ * C * (Qᴴ * V)) * Matrix.diagonal e := by
    simp only [Matrix.mul_assoc]
  rw [h2, Matrix.mul_diagonal, Matrix.diagonal_mul]
  simp

/-- phase bookkeeping for the second piece of a cut segment -/
theorem cut_phase (ω t τ lm ln : ℝ) :
    Complex.exp (Complex.I * ((ω : ℂ) * ((t + τ : ℝ) : ℂ))) *
        (starRingEnd ℂ (Complex.exp (Complex.I * ((ln : ℂ) * (τ : ℂ)))) *
          Complex.exp (Complex.I * ((lm : ℂ) * (τ : ℂ))))
      = Complex.exp (Complex.I * ((ω : ℂ) * (t : ℂ))) *
          Complex.exp (Complex.I * ((ω + (lm - ln) : ℝ) : ℂ) * (τ : ℂ)) := by
  rw [← Complex.exp_conj, ← Complex.exp_add, ← Complex.exp_add, ← Complex.exp_add]
  congr 1
  simp only [map_mul, Complex.conj_I, Complex.conj_ofReal]
  push_cast
  ring

theorem cut_algebra (P P0 Px cn em sN E1 E2 X : ℂ) (h : P * (cn * em) = P0 * Px) :
    P * sN * E2 * (cn * X * em) + P0 * sN * E1 * X = P0 * sN * (E1 + Px * E2) * X := by
  linear_combination (sN * E2 * X) * h

theorem cut_algebra' (P P0 Px cn em sN E1 E2 E12 X : ℂ) (h : P * (cn * em) = P0 * Px) :
    P * sN * E2 * (cn * X * em) + P0 * sN * E1 * X
      = P0 * sN * E12 * X + P0 * sN * (E1 + Px * E2 - E12) * X := by
  linear_combination (sN * E2 * X) * h

/-! ### sums -/

/-- mixing two coefficient vectors with the same isometry preserves their Hermitian product -/
theorem unitary_mix_sum {nK nK' : Nat} (O : Matrix (Fin nK') (Fin nK) ℂ) (hO : Oᴴ * O = 1)
    (x y : Fin nK → ℂ) :
    ∑ k, starRingEnd ℂ (∑ l, O k l * x l) * (∑ l, O k l * y l) = ∑ l, starRingEnd ℂ (x l) * y l := by
  have h : star (O *ᵥ x) ⬝ᵥ (O *ᵥ y) = star x ⬝ᵥ y := by
    rw [Matrix.star_mulVec, Matrix.dotProduct_mulVec, Matrix.vecMul_vecMul, hO, Matrix.vecMul_one]
  simpa [dotProduct, Matrix.mulVec] using h

/-- a sum over the larger index set reduces to the sum over an embedded smaller one when the
summand vanishes outside the image -/
theorem sum_of_injective {n n' : Nat} (ι : Fin n' → Fin n) (hι : Function.Injective ι)
    (F : Fin n → ℂ) (h0 : ∀ g, (∀ g', ι g' ≠ g) → F g = 0) :
    ∑ g, F g = ∑ g', F (ι g') := by
  rw [← Finset.sum_image (f := F) (g := ι) (s := Finset.univ) (fun a _ b _ hab => hι hab)]
  symm
  apply Finset.sum_subset (Finset.subset_univ _)
  intro g _ hg
  apply h0
  intro g' hgg
  exact hg (Finset.mem_image.mpr ⟨g', Finset.mem_univ _, hgg⟩)

end FFVerif.InvAux
