/-
Finite-sum algebra of the loop of `calculate_second_order_filter_function`
(`result += step_g + conj(cm_g) · Σ_{g'<g} cm_g'`) under re-segmentation: the value of the loop as
a function of the per-segment numbers, dropping segments that contribute nothing (strictly monotone
re-indexing), and replacing one segment by two consecutive ones.
Helpers for `Props/C13Second.lean`.
-/
import Mathlib.Algebra.BigOperators.Fin
import Mathlib.Algebra.BigOperators.Ring.Finset
import Mathlib.Data.Complex.BigOperators
import Mathlib.Order.Fin.Basic
import Mathlib.Tactic.LinearCombination
import FFVerif.Lemmas.InvarianceAux

namespace FFVerif.SecondOrderInv
open FFVerif Finset

/-- time-ordered double sum `Σ_{g'<g} x_g y_g'` -/
noncomputable def dsum (n : ℕ) (x y : Fin n → ℂ) : ℂ :=
  ∑ i, ∑ i', if i' < i then x i * y i' else 0

/-- value of the loop: `Σ_g (s_g + x_g Σ_{g'<g} y_g')` -/
noncomputable def loopSum (n : ℕ) (s x y : Fin n → ℂ) : ℂ :=
  ∑ g, (s g + x g * ∑ g' : Fin g.1, y ⟨g'.1, Nat.lt_trans g'.2 g.2⟩)

/-- the running sum `ctrlmat_step_cumulative` as a masked sum over all segments -/
theorem prefix_sum_eq (n : ℕ) (y : Fin n → ℂ) (g : Fin n) :
    (∑ g' : Fin g.1, y ⟨g'.1, Nat.lt_trans g'.2 g.2⟩) = ∑ g' : Fin n, if g' < g then y g' else 0 := by
  rw [InvAux.sum_of_injective (Fin.castLE (Nat.le_of_lt g.2)) (Fin.castLE_injective _)
    (fun g' => if g' < g then y g' else 0)]
  · refine Finset.sum_congr rfl fun g' _ => ?_
    have h : Fin.castLE (Nat.le_of_lt g.2) g' < g := by
      rw [Fin.lt_def]; exact g'.2
    rw [if_pos h]
    rfl
  · intro g' hg'
    refine if_neg fun hlt => ?_
    exact hg' ⟨g'.1, hlt⟩ (Fin.ext rfl)

theorem loopSum_eq (n : ℕ) (s x y : Fin n → ℂ) :
    loopSum n s x y = (∑ g, s g) + dsum n x y := by
  unfold loopSum dsum
  rw [Finset.sum_add_distrib]
  congr 1
  refine Finset.sum_congr rfl fun g _ => ?_
  rw [prefix_sum_eq, Finset.mul_sum]
  refine Finset.sum_congr rfl fun g' _ => ?_
  rw [mul_ite, mul_zero]

/-- **Dropping segments that contribute nothing**: if `s`, `x`, `y` vanish outside the image of a
strictly monotone `ι`, the loop over the long list equals the loop over the short list. -/
theorem loopSum_strictMono {n n' : ℕ} (ι : Fin n' → Fin n) (hι : StrictMono ι)
    (s x y : Fin n → ℂ)
    (hs : ∀ g, (∀ g', ι g' ≠ g) → s g = 0) (hx : ∀ g, (∀ g', ι g' ≠ g) → x g = 0)
    (hy : ∀ g, (∀ g', ι g' ≠ g) → y g = 0) :
    loopSum n s x y = loopSum n' (fun i => s (ι i)) (fun i => x (ι i)) (fun i => y (ι i)) := by
  rw [loopSum_eq, loopSum_eq]
  unfold dsum
  rw [InvAux.sum_of_injective ι hι.injective s hs,
    InvAux.sum_of_injective ι hι.injective (fun i => ∑ i', if i' < i then x i * y i' else 0)]
  · congr 1
    refine Finset.sum_congr rfl fun i _ => ?_
    rw [InvAux.sum_of_injective ι hι.injective (fun i' => if i' < ι i then x (ι i) * y i' else 0)]
    · refine Finset.sum_congr rfl fun i' _ => ?_
      simp only [hι.lt_iff_lt]
    · intro g hg
      rw [hy g hg, mul_zero, ite_self]
  · intro g hg
    refine Finset.sum_eq_zero fun i' _ => ?_
    rw [hx g hg, zero_mul, ite_self]

/-- decomposition of the time-ordered double sum at a position `p` -/
theorem dsum_succAbove (n : ℕ) (p : Fin (n + 1)) (x y : Fin (n + 1) → ℂ) :
    dsum (n + 1) x y
      = x p * (∑ i, if p.succAbove i < p then y (p.succAbove i) else 0)
        + (∑ i, if p < p.succAbove i then x (p.succAbove i) else 0) * y p
        + dsum n (fun i => x (p.succAbove i)) (fun i => y (p.succAbove i)) := by
  unfold dsum
  rw [Fin.sum_univ_succAbove _ p, Fin.sum_univ_succAbove _ p, if_neg (lt_irrefl p), zero_add]
  have h1 : (∑ i, if p.succAbove i < p then x p * y (p.succAbove i) else 0)
      = x p * ∑ i, if p.succAbove i < p then y (p.succAbove i) else 0 := by
    rw [Finset.mul_sum]
    refine Finset.sum_congr rfl fun i _ => ?_
    rw [mul_ite, mul_zero]
  have h2 : ∀ i : Fin n, (∑ i' : Fin (n + 1),
        if i' < p.succAbove i then x (p.succAbove i) * y i' else 0)
      = (if p < p.succAbove i then x (p.succAbove i) else 0) * y p
        + ∑ i' : Fin n, if i' < i then x (p.succAbove i) * y (p.succAbove i') else 0 := by
    intro i
    rw [Fin.sum_univ_succAbove _ p, ite_mul, zero_mul]
    congr 1
    refine Finset.sum_congr rfl fun i' _ => ?_
    simp only [Fin.succAbove_lt_succAbove_iff]
  rw [h1, Finset.sum_congr rfl fun i _ => h2 i, Finset.sum_add_distrib, ← Finset.sum_mul]
  ring

/-- the double sum is linear in the first sequence (subtraction of a multiple) -/
theorem dsum_sub_left (n : ℕ) (x e y : Fin n → ℂ) (c : ℂ) :
    dsum n (fun i => x i - c * e i) y = dsum n x y - c * dsum n e y := by
  unfold dsum
  rw [Finset.mul_sum, ← Finset.sum_sub_distrib]
  refine Finset.sum_congr rfl fun i _ => ?_
  rw [Finset.mul_sum, ← Finset.sum_sub_distrib]
  refine Finset.sum_congr rfl fun i' _ => ?_
  split_ifs <;> ring

theorem dsum_sub_right (n : ℕ) (x y e : Fin n → ℂ) (c : ℂ) :
    dsum n x (fun i => y i - c * e i) = dsum n x y - c * dsum n x e := by
  unfold dsum
  rw [Finset.mul_sum, ← Finset.sum_sub_distrib]
  refine Finset.sum_congr rfl fun i _ => ?_
  rw [Finset.mul_sum, ← Finset.sum_sub_distrib]
  refine Finset.sum_congr rfl fun i' _ => ?_
  split_ifs <;> ring

theorem dsum_delta_left (n : ℕ) (g₀ : Fin n) (y : Fin n → ℂ) :
    dsum n (fun i => if i = g₀ then 1 else 0) y = ∑ i', if i' < g₀ then y i' else 0 := by
  unfold dsum
  rw [Finset.sum_eq_single g₀]
  · refine Finset.sum_congr rfl fun i' _ => ?_
    dsimp only
    rw [if_pos rfl, one_mul]
  · intro i _ hi
    refine Finset.sum_eq_zero fun i' _ => ?_
    dsimp only
    rw [if_neg hi, zero_mul, ite_self]
  · intro h; exact absurd (Finset.mem_univ _) h

theorem dsum_delta_right (n : ℕ) (g₀ : Fin n) (x : Fin n → ℂ) :
    dsum n x (fun i => if i = g₀ then 1 else 0) = ∑ i, if g₀ < i then x i else 0 := by
  unfold dsum
  refine Finset.sum_congr rfl fun i _ => ?_
  rw [Finset.sum_eq_single g₀]
  · dsimp only
    rw [if_pos rfl, mul_one]
  · intro i' _ hi'
    dsimp only
    rw [if_neg hi', mul_zero, ite_self]
  · intro h; exact absurd (Finset.mem_univ _) h

theorem dsum_delta_delta (n : ℕ) (g₀ : Fin n) :
    dsum n (fun i => if i = g₀ then 1 else 0) (fun i => if i = g₀ then (1 : ℂ) else 0) = 0 := by
  rw [dsum_delta_left]
  refine Finset.sum_eq_zero fun i' _ => ?_
  split_ifs with h1 h2
  · exact absurd h2 (ne_of_lt h1)
  · rfl
  · rfl

/-- **Replacing one segment by two consecutive ones.**  The fine lists (one entry more) carry
the coarse entries along `g₀.succ.succAbove` except at `g₀`; the two pieces (positions
`g₀.castSucc = g₀.succ.succAbove g₀` and `g₀.succ`) satisfy `x₁ + x₂ = x_{g₀}`,
`y₁ + y₂ = y_{g₀}` and `s₁ + s₂ + x₂ y₁ = s_{g₀}` (the rectangle term).  Then the loop gives the
same value. -/
theorem loopSum_split (n : ℕ) (g₀ : Fin n) (s x y : Fin n → ℂ) (s' x' y' : Fin (n + 1) → ℂ)
    (hs : ∀ i, i ≠ g₀ → s' (g₀.succ.succAbove i) = s i)
    (hx : ∀ i, i ≠ g₀ → x' (g₀.succ.succAbove i) = x i)
    (hy : ∀ i, i ≠ g₀ → y' (g₀.succ.succAbove i) = y i)
    (hx0 : x' (g₀.succ.succAbove g₀) + x' g₀.succ = x g₀)
    (hy0 : y' (g₀.succ.succAbove g₀) + y' g₀.succ = y g₀)
    (hs0 : s' (g₀.succ.succAbove g₀) + s' g₀.succ + x' g₀.succ * y' (g₀.succ.succAbove g₀)
      = s g₀) :
    loopSum (n + 1) s' x' y' = loopSum n s x y := by
  have hxf : (fun i => x' (g₀.succ.succAbove i))
      = fun i => x i - x' g₀.succ * (if i = g₀ then 1 else 0) := by
    funext i
    by_cases h : i = g₀
    · subst h; rw [if_pos rfl, mul_one, ← hx0]; ring
    · rw [if_neg h, mul_zero, sub_zero, hx i h]
  have hyf : (fun i => y' (g₀.succ.succAbove i))
      = fun i => y i - y' g₀.succ * (if i = g₀ then 1 else 0) := by
    funext i
    by_cases h : i = g₀
    · subst h; rw [if_pos rfl, mul_one, ← hy0]; ring
    · rw [if_neg h, mul_zero, sub_zero, hy i h]
  have hssum : (∑ l, s' l) = (∑ i, s i) - x' g₀.succ * y' (g₀.succ.succAbove g₀) := by
    rw [Fin.sum_univ_succAbove _ g₀.succ,
      ← Finset.add_sum_erase Finset.univ _ (Finset.mem_univ g₀),
      ← Finset.add_sum_erase Finset.univ s (Finset.mem_univ g₀),
      Finset.sum_congr rfl fun i hi => hs i (Finset.ne_of_mem_erase hi), ← hs0]
    ring
  have hlt : ∀ i : Fin n, (g₀.succ.succAbove i < g₀.succ) ↔ i ≤ g₀ := by
    intro i
    rw [Fin.succAbove_lt_iff_castSucc_lt, Fin.castSucc_lt_succ_iff]
  have hgt : ∀ i : Fin n, (g₀.succ < g₀.succ.succAbove i) ↔ g₀ < i := by
    intro i
    rw [Fin.lt_succAbove_iff_le_castSucc, Fin.succ_le_castSucc_iff]
  have hT1 : (∑ i, if g₀.succ.succAbove i < g₀.succ then y' (g₀.succ.succAbove i) else 0)
      = (∑ i, if i < g₀ then y i else 0) + y' (g₀.succ.succAbove g₀) := by
    rw [← Finset.add_sum_erase Finset.univ _ (Finset.mem_univ g₀), if_pos ((hlt g₀).2 le_rfl),
      ← Finset.add_sum_erase Finset.univ (fun i => if i < g₀ then y i else 0) (Finset.mem_univ g₀),
      if_neg (lt_irrefl g₀), zero_add, add_comm]
    congr 1
    refine Finset.sum_congr rfl fun i hi => ?_
    have hne := Finset.ne_of_mem_erase hi
    simp only [hlt, hy i hne, le_iff_lt_or_eq, hne, or_false]
  have hT2 : (∑ i, if g₀.succ < g₀.succ.succAbove i then x' (g₀.succ.succAbove i) else 0)
      = ∑ i, if g₀ < i then x i else 0 := by
    refine Finset.sum_congr rfl fun i _ => ?_
    simp only [hgt]
    split_ifs with h
    · exact hx i (ne_of_gt h)
    · rfl
  rw [loopSum_eq, loopSum_eq, hssum, dsum_succAbove n g₀.succ, hT1, hT2, hxf, dsum_sub_left,
    hyf, dsum_sub_right, dsum_sub_right, dsum_delta_left, dsum_delta_right, dsum_delta_delta]
  have e := congrFun hyf g₀
  simp only [if_pos, mul_one] at e
  ring

/-- homogeneity: `s ↦ cd·s`, `x ↦ c·x`, `y ↦ d·y` multiplies the loop value by `cd` -/
theorem loopSum_smul (n : ℕ) (s x y : Fin n → ℂ) (c e : ℂ) :
    loopSum n (fun g => c * e * s g) (fun g => c * x g) (fun g => e * y g)
      = c * e * loopSum n s x y := by
  unfold loopSum
  rw [Finset.mul_sum]
  refine Finset.sum_congr rfl fun g _ => ?_
  rw [← Finset.mul_sum]
  ring

/-- additivity in the pair (`s`, `x`) with `y` fixed -/
theorem loopSum_linear_left (n : ℕ) (s₁ s₂ x₁ x₂ y : Fin n → ℂ) (c : ℂ) :
    loopSum n (fun g => c * s₁ g + s₂ g) (fun g => c * x₁ g + x₂ g) y
      = c * loopSum n s₁ x₁ y + loopSum n s₂ x₂ y := by
  unfold loopSum
  rw [Finset.mul_sum, ← Finset.sum_add_distrib]
  refine Finset.sum_congr rfl fun g _ => ?_
  ring

/-- additivity in the pair (`s`, `y`) with `x` fixed -/
theorem loopSum_linear_right (n : ℕ) (s₁ s₂ x y₁ y₂ : Fin n → ℂ) (c : ℂ) :
    loopSum n (fun g => c * s₁ g + s₂ g) x (fun g => c * y₁ g + y₂ g)
      = c * loopSum n s₁ x y₁ + loopSum n s₂ x y₂ := by
  unfold loopSum
  rw [Finset.mul_sum, ← Finset.sum_add_distrib]
  refine Finset.sum_congr rfl fun g _ => ?_
  rw [Finset.sum_add_distrib, ← Finset.mul_sum]
  ring

end FFVerif.SecondOrderInv
