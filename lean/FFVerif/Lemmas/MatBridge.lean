/-
Refinement of the model's data-backed matrices (`Mat K m n`, nested `Vector`) to Mathlib's
`Matrix (Fin m) (Fin n) K`.
-/
import Mathlib.LinearAlgebra.Matrix.Trace
import Mathlib.LinearAlgebra.Matrix.ConjTranspose
import Mathlib.Analysis.Complex.Basic
import FFVerif.Lemmas.Bridge
import FFVerif.Lemmas.Inst

namespace FFVerif
open Matrix

/-- view a model matrix as a Mathlib matrix -/
def Mat.toMatrix {K : Type} {m n : Nat} (A : Mat K m n) : Matrix (Fin m) (Fin n) K :=
  fun i j => A[i][j]

@[simp] theorem Mat.toMatrix_apply {K : Type} {m n : Nat} (A : Mat K m n) (i : Fin m) (j : Fin n) :
    A.toMatrix i j = A[i][j] := rfl

@[simp] theorem Mat.toMatrix_ofFn {K : Type} {m n : Nat} (f : Fin m → Fin n → K) :
    (Mat.ofFn f).toMatrix = Matrix.of f := by
  ext i j; simp [Mat.toMatrix]

theorem Mat.toMatrix_mul {K : Type} [NonUnitalNonAssocSemiring K] {m n p : Nat} (A : Mat K m n)
    (B : Mat K n p) : (Mat.mul A B).toMatrix = A.toMatrix * B.toMatrix := by
  ext i k
  simp [Mat.mul, Mat.toMatrix, Matrix.mul_apply, fsum_eq_sum]

theorem Mat.toMatrix_one {K : Type} [Zero K] [One K] {n : Nat} :
    (Mat.one : Mat K n n).toMatrix = (1 : Matrix (Fin n) (Fin n) K) := by
  ext i j
  simp [Mat.one, Mat.toMatrix, Matrix.one_apply]

theorem Mat.toMatrix_adjoint {m n : Nat} (A : Mat ℂ m n) :
    (Mat.adjoint A).toMatrix = A.toMatrixᴴ := by
  ext i j
  simp [Mat.adjoint, Mat.toMatrix, Matrix.conjTranspose_apply]

theorem Mat.toMatrix_smul {K : Type} [Mul K] {m n : Nat} (c : K) (A : Mat K m n) :
    (Mat.smul c A).toMatrix = c • A.toMatrix := by
  ext i j
  simp [Mat.smul, Mat.toMatrix]

theorem Mat.trace_eq {K : Type} [AddCommMonoid K] {n : Nat} (A : Mat K n n) :
    Mat.trace A = Matrix.trace A.toMatrix := by
  simp [Mat.trace, Matrix.trace, fsum_eq_sum, Mat.toMatrix]

theorem Mat.ext' {K : Type} {m n : Nat} {A B : Mat K m n} (h : A.toMatrix = B.toMatrix) :
    A = B := by
  apply Vector.ext; intro i hi
  apply Vector.ext; intro j hj
  exact congrFun (congrFun h ⟨i, hi⟩) ⟨j, hj⟩

end FFVerif
