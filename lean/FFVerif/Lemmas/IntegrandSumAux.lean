/-
Helper lemmas for `FFVerif.Props.C08Integrand`, third part: sums over pulse pairs of the
`correlations` integrands and decay amplitudes, and the tail of `infidelity`.
-/
import Mathlib.Tactic.Ring
import FFVerif.Lemmas.IntegrandPathAux

namespace FFVerif.Model.IntegrandAux
open FFVerif

variable {G nA m N Nl M nO : Nat}

/-! ### integrands -/

theorem cmCorrFid2_sum (P : Vector (Ten3 ℂ nA N nO) G) (idx : Vec (Fin nA) m) (S : Mat ℂ m nO)
    (a : Fin m) (o : Fin nO) :
    ∑ g : Fin G, ∑ h : Fin G,
        (cmIntegrandCorrFid2 P P idx S : Vector (Vector (Mat ℝ m nO) G) G)[g][h][a][o]
      = (cmIntegrandTotalFid2 (totalControlMatrix P) (totalControlMatrix P) idx S
          : Mat ℝ m nO)[a][o] := by
  simp only [cmIntegrandCorrFid2_get]
  rw [cmIntegrandTotalFid2_get]
  simp only [totalControlMatrix_getElem]
  exact sum_pairs_fid (fun g k => P[g][idx[a]][k][o]) (fun h k => P[h][idx[a]][k][o]) S[a][o]

theorem cmCorrFid3_sum (P : Vector (Ten3 ℂ nA N nO) G) (idx : Vec (Fin nA) m) (S : Ten3 ℂ m m nO)
    (a b : Fin m) (o : Fin nO) :
    ∑ g : Fin G, ∑ h : Fin G,
        (cmIntegrandCorrFid3 P P idx S : Vector (Vector (Ten3 ℝ m m nO) G) G)[g][h][a][b][o]
      = (cmIntegrandTotalFid3 (totalControlMatrix P) (totalControlMatrix P) idx S
          : Ten3 ℝ m m nO)[a][b][o] := by
  simp only [cmIntegrandCorrFid3_get]
  rw [cmIntegrandTotalFid3_get]
  simp only [totalControlMatrix_getElem]
  exact sum_pairs_fid (fun g k => P[g][idx[a]][k][o]) (fun h k => P[h][idx[b]][k][o]) S[a][b][o]

theorem cmCorrGen2_sum (P : Vector (Ten3 ℂ nA N nO) G) (idx : Vec (Fin nA) m) (S : Mat ℂ m nO)
    (a : Fin m) (k l : Fin N) (o : Fin nO) :
    ∑ g : Fin G, ∑ h : Fin G,
        (cmIntegrandCorrGen2 P P idx S : Vector (Vector (Ten4 ℝ m N N nO) G) G)[g][h][a][k][l][o]
      = (cmIntegrandTotalGen2 (totalControlMatrix P) (totalControlMatrix P) idx S
          : Ten4 ℝ m N N nO)[a][k][l][o] := by
  simp only [cmIntegrandCorrGen2_get]
  rw [cmIntegrandTotalGen2_get]
  simp only [totalControlMatrix_getElem]
  exact sum_pairs_gen (fun g => P[g][idx[a]][k][o]) (fun h => P[h][idx[a]][l][o]) S[a][o]

theorem cmCorrGen3_sum (P : Vector (Ten3 ℂ nA N nO) G) (idx : Vec (Fin nA) m) (S : Ten3 ℂ m m nO)
    (a b : Fin m) (k l : Fin N) (o : Fin nO) :
    ∑ g : Fin G, ∑ h : Fin G,
        (cmIntegrandCorrGen3 P P idx S
          : Vector (Vector (Ten5 ℝ m m N N nO) G) G)[g][h][a][b][k][l][o]
      = (cmIntegrandTotalGen3 (totalControlMatrix P) (totalControlMatrix P) idx S
          : Ten5 ℝ m m N N nO)[a][b][k][l][o] := by
  simp only [cmIntegrandCorrGen3_get]
  rw [cmIntegrandTotalGen3_get]
  simp only [totalControlMatrix_getElem]
  exact sum_pairs_gen (fun g => P[g][idx[a]][k][o]) (fun h => P[h][idx[b]][l][o]) S[a][b][o]

/-! ### `F_pc.sum(axis=(0, 1))` on the filter-function path -/

theorem pcSumGen_get (F : Vector (Vector (Ten5 ℂ nA nA N N nO) G) G) (a b : Fin nA) (k l : Fin N)
    (o : Fin nO) :
    (pcSumGen F)[a][b][k][l][o] = ∑ g : Fin G, ∑ h : Fin G, F[g][h][a][b][k][l][o] := by
  unfold pcSumGen
  rw [ofFn_get', ofFn_get', ofFn_get', ofFn_get', ofFn_get', fsum_eq_sum]
  exact Finset.sum_congr rfl fun g _ => fsum_eq_sum _ _

theorem pcSumFid_get (F : Vector (Vector (Ten3 ℂ nA nA nO) G) G) (a b : Fin nA) (o : Fin nO) :
    (pcSumFid F)[a][b][o] = ∑ g : Fin G, ∑ h : Fin G, F[g][h][a][b][o] := by
  unfold pcSumFid
  rw [ofFn_get', ofFn_get', ofFn_get', fsum_eq_sum]
  exact Finset.sum_congr rfl fun g _ => fsum_eq_sum _ _

theorem re_sum_pairs_mul (f : Fin G → Fin G → ℂ) (s : ℂ) :
    ((∑ g, ∑ h, f g h) * s).re = ∑ g, ∑ h, (f g h * s).re := by
  rw [Finset.sum_mul, Complex.re_sum]
  refine Finset.sum_congr rfl fun g _ => ?_
  rw [Finset.sum_mul, Complex.re_sum]

/-! ### integration -/

/-- the trapezoid is additive over a double sum of integrands -/
theorem integrateR_sum_pairs (ω : Vec ℝ nO) (f : Fin G → Fin G → Vec ℝ nO) (tot : Vec ℝ nO)
    (h : ∀ o : Fin nO, tot[o] = ∑ g, ∑ h, (f g h)[o]) :
    integrateR ω tot = ∑ g, ∑ h, integrateR ω (f g h) := by
  simp only [integrateR_eq_trapz]
  have e : (fun i : Fin nO => tot[i]) = fun i => ∑ g, ∑ h, (f g h)[i] := funext h
  rw [e, Spec.trapz_sum]
  refine Finset.sum_congr rfl fun g _ => ?_
  rw [Spec.trapz_sum]

theorem decayAmplitudesCorr2_sum (ω : Vec ℝ nO) (P : Vector (Ten3 ℂ nA N nO) G)
    (idx : Vec (Fin nA) m) (S : Mat ℂ m nO) (a : Fin m) (k l : Fin N) :
    ∑ g : Fin G, ∑ h : Fin G, (decayAmplitudesCorr2 ω P idx S)[g][h][a][k][l]
      = (decayAmplitudes2 ω (totalControlMatrix P) idx S)[a][k][l] := by
  rw [decayAmplitudes2_eq_integ, integ4_get]
  have e : ∀ g h : Fin G, (decayAmplitudesCorr2 ω P idx S)[g][h][a][k][l]
      = integrateR ω (cmIntegrandCorrGen2 P P idx S
          : Vector (Vector (Ten4 ℝ m N N nO) G) G)[g][h][a][k][l] / (2 * Real.pi) := by
    intro g h
    unfold decayAmplitudesCorr2
    rw [map_get', map_get', integ4_get]
  simp only [e]
  simp only [← Finset.sum_div]
  congr 1
  symm
  exact integrateR_sum_pairs ω _ _ fun o => (cmCorrGen2_sum P idx S a k l o).symm

theorem decayAmplitudesCorr3_sum (ω : Vec ℝ nO) (P : Vector (Ten3 ℂ nA N nO) G)
    (idx : Vec (Fin nA) m) (S : Ten3 ℂ m m nO) (a b : Fin m) (k l : Fin N) :
    ∑ g : Fin G, ∑ h : Fin G, (decayAmplitudesCorr3 ω P idx S)[g][h][a][b][k][l]
      = (decayAmplitudes3 ω (totalControlMatrix P) idx S)[a][b][k][l] := by
  rw [decayAmplitudes3_eq_integ, integ5_get]
  have e : ∀ g h : Fin G, (decayAmplitudesCorr3 ω P idx S)[g][h][a][b][k][l]
      = integrateR ω (cmIntegrandCorrGen3 P P idx S
          : Vector (Vector (Ten5 ℝ m m N N nO) G) G)[g][h][a][b][k][l] / (2 * Real.pi) := by
    intro g h
    unfold decayAmplitudesCorr3
    rw [map_get', map_get', integ5_get]
  simp only [e]
  simp only [← Finset.sum_div]
  congr 1
  symm
  exact integrateR_sum_pairs ω _ _ fun o => (cmCorrGen3_sum P idx S a b k l o).symm

/-! ### the tail of `infidelity` -/

theorem infidelityTail2_eq_diag (ω : Vec ℝ nO) (F : Ten3 ℂ nA nA nO) (idx : Vec (Fin nA) m)
    (S : Mat ℂ m nO) (d : Nat) : infidelityTail2 ω F idx S d = infidelityDiag ω F idx S d := by
  refine vec_ext_fin fun a => ?_
  unfold infidelityTail2 infidelityDiag
  rw [map_get', ofFn_get']
  congr 2
  refine vec_ext_fin fun o => ?_
  rw [ffIntegrandFid2_get, ofFn_get', copsRe]

theorem infidelityTail3_eq_full (ω : Vec ℝ nO) (F : Ten3 ℂ nA nA nO) (idx : Vec (Fin nA) m)
    (S : Ten3 ℂ m m nO) (d : Nat) : infidelityTail3 ω F idx S d = infidelityFull ω F idx S d := by
  refine vec_ext_fin fun a => vec_ext_fin fun b => ?_
  unfold infidelityTail3 infidelityFull
  rw [map_get', map_get', ofFn_get', ofFn_get']
  congr 2
  refine vec_ext_fin fun o => ?_
  rw [ffIntegrandFid3_get, ofFn_get', copsRe]

theorem ffTraceGen_filterFunctionGen (B : Ten3 ℂ nA N nO) :
    ffTraceGen (filterFunctionGen B) = filterFunctionFid B := by
  refine vec_ext_fin fun a => vec_ext_fin fun b => vec_ext_fin fun o => ?_
  unfold ffTraceGen
  rw [ofFn_get', ofFn_get', ofFn_get', fsum_eq_sum, filterFunctionFid_get]
  exact Finset.sum_congr rfl fun k _ => filterFunctionGen_get B a b k k o

end FFVerif.Model.IntegrandAux
