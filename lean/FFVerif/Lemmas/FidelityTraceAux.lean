/-
Helper lemmas for C08 that combine the trace-tensor algebra (CumulantAux) with the infidelity
model (InfidelityAux): `traces_diag` of a complete basis and the two branches of `infidelity`
expressed through the model's decay amplitudes.
-/
import FFVerif.Lemmas.InfidelityAux
import FFVerif.Lemmas.CumulantAux

namespace FFVerif.Spec
open Matrix
variable {N d : Nat}

/-- `Σ_j (tr C_j)² = d` for a complete family -/
theorem sum_sq_traces {C : Fin N → Matrix (Fin d) (Fin d) ℂ} (hC : IsComplete C) :
    ∑ j, trace (C j) * trace (C j) = (d : ℂ) := by
  have h := trace_expand hC (1 : Matrix (Fin d) (Fin d) ℂ) 1 1
  simp only [Matrix.one_mul, Matrix.mul_one, trace_one, Fintype.card_fin] at h
  exact h.symm

/-- Gram property of the weights `t_kl = d δ_kl - τ_k τ_l` when `Σ τ² = d`: `d t = t tᵀ` -/
theorem gram_of_weights (τ : Fin N → ℝ) (D : ℝ) (hτ : ∑ j, τ j * τ j = D) (k l : Fin N) :
    D * (D * (if k = l then 1 else 0) - τ k * τ l)
      = ∑ m, (D * (if k = m then 1 else 0) - τ k * τ m) * (D * (if l = m then 1 else 0) - τ l * τ m) := by
  have e : ∀ m, (D * (if k = m then 1 else 0) - τ k * τ m) * (D * (if l = m then 1 else 0) - τ l * τ m)
      = D * D * ((if k = m then 1 else 0) * (if l = m then 1 else 0))
        - D * τ l * ((if k = m then 1 else 0) * τ m)
        - D * τ k * ((if l = m then 1 else 0) * τ m) + τ k * τ l * (τ m * τ m) := by
    intro m; ring
  simp only [e, Finset.sum_add_distrib, Finset.sum_sub_distrib, ← Finset.mul_sum, hτ]
  have h1 : ∑ m, ((if k = m then (1 : ℝ) else 0) * (if l = m then 1 else 0))
      = if k = l then 1 else 0 := by
    simp [Finset.sum_ite_eq]
  have h2 : ∀ k : Fin N, ∑ m, (if k = m then (1 : ℝ) else 0) * τ m = τ k := by
    intro k; simp [Finset.sum_ite_eq]
  rw [h1, h2, h2]
  ring

end FFVerif.Spec

namespace FFVerif.Model
open FFVerif Matrix

variable {nA m N nO q : Nat}

/-- `traces_diag` of the true trace tensor of a complete orthonormal Hermitian basis -/
theorem tracesDiag_fourElementTraces {d : Nat} (C : Vector (Mat ℂ d d) N)
    (hC : Spec.IsComplete (Spec.basisOf C)) (hH : Spec.IsOrthoHerm (Spec.basisOf C))
    (k l : Fin N) :
    (tracesDiag (fourElementTraces C))[k][l] = Spec.tdiag (Spec.basisOf C) k l := by
  rw [tracesDiag_getElem]
  simp only [fourElementTraces_eq]
  rw [Spec.sum_T4_klii hC hH, Spec.sum_T4_kili hC, Spec.tdiag]

/-- `gammaEntry` written with the model's decay amplitudes -/
theorem decayAmplitudes3_eq_gammaEntry (ω : Vec ℝ nO) (B : Ten3 ℂ nA N nO) (idx : Vec (Fin nA) m)
    (S : Ten3 ℂ m m nO) (a b : Fin m) (k l : Fin N) :
    (decayAmplitudes3 ω B idx S)[a][b][k][l] = gammaEntry ω B[idx[a]] B[idx[b]] S[a][b] k l :=
  decayAmplitudes3_getElem ω B idx S a b k l

theorem decayAmplitudes2_eq_gammaEntry (ω : Vec ℝ nO) (B : Ten3 ℂ nA N nO) (idx : Vec (Fin nA) m)
    (S : Mat ℂ m nO) (a : Fin m) (k l : Fin N) :
    (decayAmplitudes2 ω B idx S)[a][k][l] = gammaEntry ω B[idx[a]] B[idx[a]] S[a] k l :=
  decayAmplitudes2_getElem ω B idx S a k l

/-- trace-tensor branch of `infidelity` through the decay amplitudes (cross-spectral matrix) -/
theorem infidelityFromCM3_false (ω : Vec ℝ nO) (B : Ten3 ℂ nA N nO) (T : Ten4 ℂ N N N N)
    (idIdx : Vec (Fin N) q) (idx : Vec (Fin nA) m) (S : Ten3 ℂ m m nO) (d : Nat)
    (t : Fin N → Fin N → ℝ) (ht : ∀ k l : Fin N, (tracesDiag T)[k][l] = (t k l : ℂ))
    (a b : Fin m) :
    (infidelityFromCM3 false d ω B T idIdx idx S)[a][b]
      = (1 : ℝ) / (d : ℝ) ^ 2 * ∑ k : Fin N, ∑ l : Fin N, (decayAmplitudes3 ω B idx S)[a][b][k][l] * t k l := by
  unfold infidelityFromCM3
  rw [infidelityFull_getElem]
  simp only [decayAmplitudes3_eq_gammaEntry]
  apply infidEntry_weighted
  intro o
  rw [fidelityFF_false_getElem]
  simp only [ht]

theorem infidelityFromCM2_false (ω : Vec ℝ nO) (B : Ten3 ℂ nA N nO) (T : Ten4 ℂ N N N N)
    (idIdx : Vec (Fin N) q) (idx : Vec (Fin nA) m) (S : Mat ℂ m nO) (d : Nat)
    (t : Fin N → Fin N → ℝ) (ht : ∀ k l : Fin N, (tracesDiag T)[k][l] = (t k l : ℂ))
    (a : Fin m) :
    (infidelityFromCM2 false d ω B T idIdx idx S)[a]
      = (1 : ℝ) / (d : ℝ) ^ 2 * ∑ k : Fin N, ∑ l : Fin N, (decayAmplitudes2 ω B idx S)[a][k][l] * t k l := by
  unfold infidelityFromCM2
  rw [infidelityDiag_getElem]
  simp only [decayAmplitudes2_eq_gammaEntry]
  apply infidEntry_weighted
  intro o
  rw [fidelityFF_false_getElem]
  simp only [ht]

/-- traceless branch of `infidelity` through the decay amplitudes -/
theorem infidelityFromCM3_true (ω : Vec ℝ nO) (B : Ten3 ℂ nA N nO) (T : Ten4 ℂ N N N N)
    (idIdx : Vec (Fin N) q) (idx : Vec (Fin nA) m) (S : Ten3 ℂ m m nO) (d : Nat) (a b : Fin m) :
    (infidelityFromCM3 true d ω B T idIdx idx S)[a][b]
      = (1 : ℝ) / (d : ℝ) * ((∑ k : Fin N, (decayAmplitudes3 ω B idx S)[a][b][k][k])
          - ∑ r : Fin q, (decayAmplitudes3 ω B idx S)[a][b][idIdx[r]][idIdx[r]]) := by
  unfold infidelityFromCM3
  rw [infidelityFull_getElem]
  simp only [decayAmplitudes3_eq_gammaEntry]
  apply infidEntry_traceless
  intro o
  rw [fidelityFF_true_getElem]

theorem infidelityFromCM2_true (ω : Vec ℝ nO) (B : Ten3 ℂ nA N nO) (T : Ten4 ℂ N N N N)
    (idIdx : Vec (Fin N) q) (idx : Vec (Fin nA) m) (S : Mat ℂ m nO) (d : Nat) (a : Fin m) :
    (infidelityFromCM2 true d ω B T idIdx idx S)[a]
      = (1 : ℝ) / (d : ℝ) * ((∑ k : Fin N, (decayAmplitudes2 ω B idx S)[a][k][k])
          - ∑ r : Fin q, (decayAmplitudes2 ω B idx S)[a][idIdx[r]][idIdx[r]]) := by
  unfold infidelityFromCM2
  rw [infidelityDiag_getElem]
  simp only [decayAmplitudes2_eq_gammaEntry]
  apply infidEntry_traceless
  intro o
  rw [fidelityFF_true_getElem]

/-! ### Positivity -/

theorem sum3_rot {α β γ M : Type} [Fintype α] [Fintype β] [Fintype γ] [AddCommMonoid M]
    (f : α → β → γ → M) : ∑ j, ∑ k, ∑ l, f j k l = ∑ k, ∑ l, ∑ j, f j k l := by
  rw [Finset.sum_comm]
  exact Finset.sum_congr rfl fun k _ => Finset.sum_comm

/-- a positive-semidefinite spectrum weighted by a Gram matrix of real weights gives a
non-negative total -/
theorem psd_weighted_nonneg (S : Fin m → Fin m → ℂ)
    (hS : ∀ v : Fin m → ℂ, 0 ≤ (∑ a, ∑ b, starRingEnd ℂ (v a) * S a b * v b).re)
    (X : Fin m → Fin N → ℂ) (t p : Fin N → Fin N → ℝ) (c : ℝ) (hc : 0 ≤ c)
    (ht : ∀ k l, t k l = c * ∑ j, p k j * p l j) :
    0 ≤ ∑ a, ∑ b, ((∑ k, ∑ l, starRingEnd ℂ (X a k) * X b l * (t k l : ℂ)) * S a b).re := by
  let w : Fin m → Fin N → ℂ := fun a j => ∑ k, X a k * (p k j : ℂ)
  have hw : ∀ a j, starRingEnd ℂ (w a j) = ∑ k, starRingEnd ℂ (X a k) * (p k j : ℂ) := by
    intro a j
    simp only [w, map_sum, map_mul, Complex.conj_ofReal]
  have e : ∀ a b, (∑ k, ∑ l, starRingEnd ℂ (X a k) * X b l * (t k l : ℂ))
      = (c : ℂ) * ∑ j, starRingEnd ℂ (w a j) * w b j := by
    intro a b
    have r : ∀ j, starRingEnd ℂ (w a j) * w b j
        = ∑ k, ∑ l, starRingEnd ℂ (X a k) * (p k j : ℂ) * (X b l * (p l j : ℂ)) := by
      intro j
      rw [hw, Finset.sum_mul_sum]
    simp only [r]
    rw [sum3_rot, Finset.mul_sum]
    refine Finset.sum_congr rfl fun k _ => ?_
    rw [Finset.mul_sum]
    refine Finset.sum_congr rfl fun l _ => ?_
    rw [ht]
    push_cast
    rw [Finset.mul_sum, Finset.mul_sum, Finset.mul_sum]
    refine Finset.sum_congr rfl fun j _ => ?_
    ring
  simp only [e]
  have e2 : ∀ a b, ((c : ℂ) * (∑ j, starRingEnd ℂ (w a j) * w b j) * S a b).re
      = c * ∑ j, (starRingEnd ℂ (w a j) * S a b * w b j).re := by
    intro a b
    rw [mul_assoc, Complex.re_ofReal_mul, Finset.sum_mul, Complex.re_sum]
    congr 1
    refine Finset.sum_congr rfl fun j _ => ?_
    congr 1
    ring
  simp only [e2, ← Finset.mul_sum]
  refine mul_nonneg hc ?_
  have e3 : ∑ a, ∑ b, ∑ j, (starRingEnd ℂ (w a j) * S a b * w b j).re
      = ∑ j, (∑ a, ∑ b, starRingEnd ℂ (w a j) * S a b * w b j).re := by
    simp only [Complex.re_sum]
    exact (sum3_rot fun j a b => (starRingEnd ℂ (w a j) * S a b * w b j).re).symm
  rw [e3]
  exact Finset.sum_nonneg fun j _ => hS fun a => w a j

/-- total of the infidelity tail over all pairs for a positive-semidefinite spectrum -/
theorem infid_total_nonneg {nO : Nat} (ω : Vec ℝ nO) (hω : ∀ i j : Fin nO, i ≤ j → ω[i] ≤ ω[j])
    (Bs : Fin m → Mat ℂ N nO) (S F : Fin m → Fin m → Vec ℂ nO)
    (hS : ∀ (o : Fin nO) (v : Fin m → ℂ),
      0 ≤ (∑ a, ∑ b, starRingEnd ℂ (v a) * (S a b)[o] * v b).re)
    (d e : Nat) (t p : Fin N → Fin N → ℝ) (c : ℝ) (hc : 0 ≤ c)
    (ht : ∀ k l, t k l = c * ∑ j, p k j * p l j)
    (hF : ∀ (a b : Fin m) (o : Fin nO), (F a b)[o]
      = (∑ k : Fin N, ∑ l : Fin N,
          starRingEnd ℂ (Bs a)[k][o] * (Bs b)[l][o] * (t k l : ℂ)) / (e : ℂ)) :
    0 ≤ ∑ a, ∑ b, infidEntry ω (F a b) (S a b) d := by
  unfold infidEntry
  simp only [← Finset.sum_div]
  refine div_nonneg ?_ (by positivity)
  let f : Fin m × Fin m → Vec ℝ nO := fun q =>
    Vector.ofFn fun o => ((F q.1 q.2)[o] * (S q.1 q.2)[o]).re
  have h1 : ∑ a, ∑ b, integrateR ω (Vector.ofFn fun o => ((F a b)[o] * (S a b)[o]).re)
      = ∑ q ∈ (Finset.univ : Finset (Fin m × Fin m)), (1 : ℝ) * integrateR ω (f q) := by
    rw [Fintype.sum_prod_type]
    simp only [one_mul, f]
  rw [h1, ← integrateR_linear]
  rw [integrateR_eq_trapz]
  refine Spec.trapz_nonneg _ hω _ fun o => ?_
  simp only [Fin.getElem_fin, Vector.getElem_ofFn, f, one_mul]
  rw [Fintype.sum_prod_type]
  have h2 : ∀ a b : Fin m, ((F a b)[o.1] * (S a b)[o.1]).re
      = (1 / (e : ℝ)) * ((∑ k : Fin N, ∑ l : Fin N,
          starRingEnd ℂ (Bs a)[k][o] * (Bs b)[l][o] * (t k l : ℂ)) * (S a b)[o]).re := by
    intro a b
    have := hF a b o
    simp only [Fin.getElem_fin] at this ⊢
    rw [this, ← Complex.re_ofReal_mul]
    congr 1
    push_cast
    ring
  simp only [h2, ← Finset.mul_sum]
  refine mul_nonneg (by positivity) ?_
  exact psd_weighted_nonneg (fun a b => (S a b)[o]) (hS o) (fun a k => (Bs a)[k][o]) t p c hc ht

end FFVerif.Model
