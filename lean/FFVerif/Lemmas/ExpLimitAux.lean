/-
Euler limit of the exponential in a Banach algebra: `n (T_n - 1) → L` implies `T_n ^ n → exp L`
(used for "the exponential of a generator of Lindblad form is completely positive", C15CP).
-/
import Mathlib.Analysis.SpecialFunctions.Exponential
import Mathlib.Analysis.SpecificLimits.Basic
import Mathlib.Analysis.Calculus.Deriv.Slope

open Filter Topology NormedSpace

namespace FFVerif
variable {𝔸 : Type*} [NormedRing 𝔸] [NormOneClass 𝔸]

/-- telescoping bound for powers of non-commuting elements -/
theorem norm_pow_sub_pow_le (a b : 𝔸) (M : ℝ) (hM : 1 ≤ M) (ha : ‖a‖ ≤ M) (hb : ‖b‖ ≤ M) (n : ℕ) :
    ‖a ^ n - b ^ n‖ ≤ n * M ^ n * ‖a - b‖ := by
  have hM0 : 0 ≤ M := le_trans zero_le_one hM
  induction n with
  | zero => simp
  | succ n ih =>
    have hsplit : a ^ (n + 1) - b ^ (n + 1) = a * (a ^ n - b ^ n) + (a - b) * b ^ n := by
      rw [pow_succ', pow_succ']; noncomm_ring
    have hbn : ‖b ^ n‖ ≤ M ^ n := le_trans (norm_pow_le b n) (pow_le_pow_left₀ (norm_nonneg _) hb n)
    have hMn : M ^ n ≤ M ^ (n + 1) := pow_le_pow_right₀ hM (Nat.le_succ n)
    have hMn0 : 0 ≤ M ^ n := pow_nonneg hM0 n
    calc ‖a ^ (n + 1) - b ^ (n + 1)‖
        ≤ ‖a‖ * ‖a ^ n - b ^ n‖ + ‖a - b‖ * ‖b ^ n‖ := by
          rw [hsplit]
          exact le_trans (norm_add_le _ _) (add_le_add (norm_mul_le _ _) (norm_mul_le _ _))
      _ ≤ M * (n * M ^ n * ‖a - b‖) + ‖a - b‖ * M ^ n := by
          gcongr
      _ = (n + 1) * M ^ n * ‖a - b‖ * 1 + n * M ^ n * ‖a - b‖ * (M - 1) := by ring
      _ ≤ ((n + 1 : ℕ) : ℝ) * M ^ (n + 1) * ‖a - b‖ := by
          push_cast
          have h1 : (n : ℝ) * M ^ n * ‖a - b‖ * (M - 1)
              ≤ ((n : ℝ) + 1) * M ^ n * ‖a - b‖ * (M - 1) := by
            have : (0 : ℝ) ≤ M ^ n * ‖a - b‖ * (M - 1) :=
              mul_nonneg (mul_nonneg hMn0 (norm_nonneg _)) (by linarith)
            nlinarith
          calc (↑n + 1) * M ^ n * ‖a - b‖ * 1 + ↑n * M ^ n * ‖a - b‖ * (M - 1)
              ≤ (↑n + 1) * M ^ n * ‖a - b‖ * 1 + (↑n + 1) * M ^ n * ‖a - b‖ * (M - 1) := by
                linarith
            _ = (↑n + 1) * M ^ (n + 1) * ‖a - b‖ := by ring

end FFVerif

namespace FFVerif
variable {𝔸 : Type*} [NormedRing 𝔸] [NormOneClass 𝔸] [NormedAlgebra ℝ 𝔸] [CompleteSpace 𝔸]

omit [NormOneClass 𝔸] in
/-- `n (exp(L/n) - 1) → L` -/
theorem tendsto_nsmul_exp_sub_one (L : 𝔸) :
    Tendsto (fun n : ℕ => (n : ℝ) • (exp ((n : ℝ)⁻¹ • L) - 1)) atTop (𝓝 L) := by
  have hd := (hasDerivAt_exp_smul_const (𝕂 := ℝ) L (0 : ℝ)).tendsto_slope_zero
  simp only [zero_smul, exp_zero, one_mul, zero_add] at hd
  have hinv : Tendsto (fun n : ℕ => ((n : ℝ))⁻¹) atTop (𝓝[≠] (0 : ℝ)) := by
    refine tendsto_nhdsWithin_iff.mpr ⟨tendsto_inv_atTop_nhds_zero_nat, ?_⟩
    filter_upwards [eventually_gt_atTop 0] with n hn
    have : (0 : ℝ) < n := by exact_mod_cast hn
    exact (inv_pos.mpr this).ne'
  have h := hd.comp hinv
  refine h.congr fun n => ?_
  simp only [Function.comp_apply, inv_inv]

/-- **Euler limit in a Banach algebra**: `n (T_n - 1) → L` implies `T_n ^ n → exp L`. -/
theorem tendsto_pow_exp_of_slope (L : 𝔸) (T : ℕ → 𝔸)
    (hT : Tendsto (fun n : ℕ => (n : ℝ) • (T n - 1)) atTop (𝓝 L)) :
    Tendsto (fun n => T n ^ n) atTop (𝓝 (exp L)) := by
  set B : ℕ → 𝔸 := fun n => exp ((n : ℝ)⁻¹ • L) with hBdef
  have hB := tendsto_nsmul_exp_sub_one L
  -- `n (T_n - B_n) → 0`
  have hD : Tendsto (fun n : ℕ => ‖(n : ℝ) • (T n - B n)‖) atTop (𝓝 0) := by
    have h := (hT.sub hB).norm
    simp only [sub_self, norm_zero] at h
    refine h.congr fun n => ?_
    congr 1
    rw [← smul_sub]
    congr 1
    abel
  set c : ℝ := ‖L‖ + 1 with hc
  have hc0 : 0 ≤ c := by positivity
  -- eventual bounds
  have hT1 : ∀ᶠ n : ℕ in atTop, ‖(n : ℝ) • (T n - 1)‖ ≤ c :=
    (hT.norm.eventually (gt_mem_nhds (lt_add_one ‖L‖))).mono fun n hn => le_of_lt hn
  have hB1 : ∀ᶠ n : ℕ in atTop, ‖(n : ℝ) • (B n - 1)‖ ≤ c :=
    (hB.norm.eventually (gt_mem_nhds (lt_add_one ‖L‖))).mono fun n hn => le_of_lt hn
  rw [tendsto_iff_norm_sub_tendsto_zero]
  refine squeeze_zero' (Eventually.of_forall fun n => norm_nonneg _) ?_
    (by simpa using hD.const_mul (Real.exp c))
  filter_upwards [hT1, hB1, eventually_gt_atTop 0] with n hTn hBn hn
  have hn0 : (0 : ℝ) < n := by exact_mod_cast hn
  have hBpow : B n ^ n = exp L := by
    let _i : NormedAlgebra ℚ 𝔸 := NormedAlgebra.restrictScalars ℚ ℝ 𝔸
    rw [hBdef, ← exp_nsmul, ← Nat.cast_smul_eq_nsmul ℝ, smul_smul, mul_inv_cancel₀ hn0.ne',
      one_smul]
  set M : ℝ := 1 + c / n with hMdef
  have hM1 : 1 ≤ M := by
    have : 0 ≤ c / n := div_nonneg hc0 hn0.le
    linarith
  have hbound : ∀ X : 𝔸, ‖(n : ℝ) • (X - 1)‖ ≤ c → ‖X‖ ≤ M := by
    intro X hX
    rw [norm_smul, Real.norm_of_nonneg hn0.le] at hX
    have h1 : ‖X - 1‖ ≤ c / n := by
      rw [le_div_iff₀ hn0]; linarith [mul_comm (n : ℝ) ‖X - 1‖]
    calc ‖X‖ = ‖1 + (X - 1)‖ := by congr 1; abel
      _ ≤ ‖(1 : 𝔸)‖ + ‖X - 1‖ := norm_add_le _ _
      _ ≤ M := by rw [norm_one]; linarith
  have hMn : M ^ n ≤ Real.exp c := by
    have h1 : M ≤ Real.exp (c / n) := by
      have := Real.add_one_le_exp (c / n)
      linarith
    calc M ^ n ≤ Real.exp (c / n) ^ n := pow_le_pow_left₀ (le_trans zero_le_one hM1) h1 n
      _ = Real.exp c := by
        rw [← Real.exp_nat_mul, mul_div_cancel₀ _ hn0.ne']
  calc ‖T n ^ n - exp L‖ = ‖T n ^ n - B n ^ n‖ := by rw [hBpow]
    _ ≤ n * M ^ n * ‖T n - B n‖ := norm_pow_sub_pow_le _ _ M hM1 (hbound _ hTn) (hbound _ hBn) n
    _ = M ^ n * ‖(n : ℝ) • (T n - B n)‖ := by
        rw [norm_smul, Real.norm_of_nonneg hn0.le]; ring
    _ ≤ Real.exp c * ‖(n : ℝ) • (T n - B n)‖ :=
        mul_le_mul_of_nonneg_right hMn (norm_nonneg _)

end FFVerif
