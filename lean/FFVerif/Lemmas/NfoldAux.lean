/-
Helper vocabulary and lemmas for C05Nfold (`extend` with any number of pulses): Kronecker products
of a finite *family* of matrices with factor-dependent index types, the split of such a product at
one factor (which reduces the `n`-fold statements to the binary rule of `Props/C05` plus a
re-indexing in the sense of `Props/C06`), and the generic (index-type independent) forms of the
triple-sum lemmas `KronAux.cm_sum_kron` / `KronAux.cm_sum_reindex`.
-/
import Mathlib.Algebra.BigOperators.Ring.Finset
import Mathlib.Algebra.BigOperators.GroupWithZero.Finset
import Mathlib.Data.Fintype.BigOperators
import Mathlib.Logic.Equiv.Prod
import FFVerif.Lemmas.KronAux

set_option linter.unusedSectionVars false

namespace FFVerif.NfoldAux
open Matrix Complex FFVerif.KronAux
open scoped Kronecker

/-! ### Kronecker product of a family -/

section piH
variable {P : Type*} [Fintype P] [DecidableEq P] {ι : P → Type*} [∀ q, Fintype (ι q)]
  [∀ q, DecidableEq (ι q)]

/-- `⊗_q A_q`, indexed by the dependent tuples `x : ∀ q, ι q` (digit `x q` belongs to factor `q`).
Which flattening of the tuples is the NumPy index is a separate re-indexing `e`. -/
def piKronH (A : ∀ q, Matrix (ι q) (ι q) ℂ) : Matrix (∀ q, ι q) (∀ q, ι q) ℂ :=
  fun x y => ∏ q, A q (x q) (y q)

omit [DecidableEq P] [∀ q, DecidableEq (ι q)] in
theorem piKronH_apply (A : ∀ q, Matrix (ι q) (ι q) ℂ) (x y : ∀ q, ι q) :
    piKronH A x y = ∏ q, A q (x q) (y q) := rfl

omit [∀ q, DecidableEq (ι q)] in
theorem piKronH_mul (A B : ∀ q, Matrix (ι q) (ι q) ℂ) :
    piKronH A * piKronH B = piKronH fun q => A q * B q := by
  ext x y
  simp only [piKronH, Matrix.mul_apply]
  rw [Finset.prod_univ_sum, Fintype.piFinset_univ]
  exact Finset.sum_congr rfl fun z _ => Finset.prod_mul_distrib.symm

omit [∀ q, DecidableEq (ι q)] in
theorem trace_piKronH (A : ∀ q, Matrix (ι q) (ι q) ℂ) :
    Matrix.trace (piKronH A) = ∏ q, Matrix.trace (A q) := by
  simp only [Matrix.trace, Matrix.diag_apply, piKronH]
  rw [Finset.prod_univ_sum, Fintype.piFinset_univ]

omit [DecidableEq P] [∀ q, DecidableEq (ι q)] in
theorem piKronH_conjTranspose (A : ∀ q, Matrix (ι q) (ι q) ℂ) :
    (piKronH A)ᴴ = piKronH fun q => (A q)ᴴ := by
  ext x y
  simp only [piKronH, Matrix.conjTranspose_apply, star_prod]

omit [DecidableEq P] in
theorem piKronH_one : piKronH (fun q => (1 : Matrix (ι q) (ι q) ℂ)) = 1 := by
  ext x y
  simp only [piKronH, Matrix.one_apply, Fintype.prod_boole, funext_iff]

omit [∀ q, DecidableEq (ι q)] in
/-- **split at the factor `p`**: re-indexed by `x ↦ (x p, x restricted to q ≠ p)` the product of
the family is the binary Kronecker product of `A_p` with the product of the remaining factors. -/
theorem piKronH_split (p : P) (A : ∀ q, Matrix (ι q) (ι q) ℂ) :
    Matrix.reindex (Equiv.piSplitAt p ι) (Equiv.piSplitAt p ι) (piKronH A)
      = A p ⊗ₖ piKronH (fun q : {q // q ≠ p} => A q.1) := by
  ext ⟨i, x⟩ ⟨j, y⟩
  simp only [Matrix.reindex_apply, Matrix.submatrix_apply, kroneckerMap_apply, piKronH]
  rw [Fintype.prod_eq_mul_prod_subtype_ne _ p]
  congr 1
  · simp [Equiv.piSplitAt]
  · refine Finset.prod_congr rfl fun q _ => ?_
    simp [Equiv.piSplitAt, q.2]

/-- `Σ_q l_q(x_q)`: the eigenvalue of `Σ_q 1 ⊗ ⋯ ⊗ H_q ⊗ ⋯ ⊗ 1` at the tuple `x`
(`eigvals += tensor(ones, …, eigvals_q, …, ones)` in `extend`) -/
def piSum (l : ∀ q, ι q → ℝ) (x : ∀ q, ι q) : ℝ := ∑ q, l q (x q)

theorem piSum_split (p : P) (l : ∀ q, ι q → ℝ) :
    piSum l ∘ (Equiv.piSplitAt p ι).symm
      = kronSum (l p) (piSum fun q : {q // q ≠ p} => l q.1) := by
  funext ⟨i, x⟩
  simp only [Function.comp_apply, piSum, kronSum]
  rw [Fintype.sum_eq_add_sum_subtype_ne _ p]
  congr 1
  · simp [Equiv.piSplitAt]
  · refine Finset.sum_congr rfl fun q _ => ?_
    simp [Equiv.piSplitAt, q.2]

theorem update_one_rest (p : P) (X : Matrix (ι p) (ι p) ℂ) :
    (fun q : {q // q ≠ p} =>
        Function.update (fun q => (1 : Matrix (ι q) (ι q) ℂ)) p X q.1)
      = fun _ => 1 := by
  funext q
  exact Function.update_of_ne q.2 _ _

end piH

/-! ### the triple sum of `C01.cm_entry`, index-type generic -/

section sums
variable {ι κ : Type*} [Fintype ι] [DecidableEq ι] [Fintype κ] [DecidableEq κ]

/-- `KronAux.cm_sum_kron` over product index types: the `m, n` double sum of one segment of
`calculate_control_matrix_from_scratch` for a transformed noise operator `X ⊗ 1`, eigenvalues
`λ¹_i + λ²_j` and transformed basis element `Y₁ ⊗ Y₂` is `tr(Y₂)` times the double sum of the first
factor, for an arbitrary kernel `f` (exact or truncated segment integral). -/
theorem cm_sum_kronG (c s : ℂ) (X Y₁ : Matrix ι ι ℂ) (Y₂ : Matrix κ κ ℂ) (f : ℝ → ℂ)
    (l₁ : ι → ℝ) (l₂ : κ → ℝ) (ω : ℝ) :
    ∑ m : ι × κ, ∑ n : ι × κ,
        c * (s * (X ⊗ₖ (1 : Matrix κ κ ℂ)) m n) * f (ω + (kronSum l₁ l₂ m - kronSum l₁ l₂ n))
          * (Y₁ ⊗ₖ Y₂) n m
      = Matrix.trace Y₂ * ∑ m₁, ∑ n₁, c * (s * X m₁ n₁) * f (ω + (l₁ m₁ - l₁ n₁)) * Y₁ n₁ m₁ := by
  simp only [Fintype.sum_prod_type, kroneckerMap_apply, kronSum, Matrix.one_apply, Finset.mul_sum]
  refine Finset.sum_congr rfl fun m₁ _ => ?_
  rw [Finset.sum_comm]
  refine Finset.sum_congr rfl fun n₁ _ => ?_
  simp only [mul_ite, ite_mul, mul_one, mul_zero, zero_mul, Finset.sum_ite_eq, Finset.mem_univ,
    if_true, add_sub_add_right_eq_sub]
  rw [Matrix.trace, Finset.sum_mul]
  refine Finset.sum_congr rfl fun m₂ _ => ?_
  rw [Matrix.diag_apply]
  ring

/-- `KronAux.cm_sum_reindex` for an equivalence of arbitrary finite index types -/
theorem cm_sum_reindexG (e : ι ≃ κ) (c s : ℂ) (X Y : Matrix ι ι ℂ) (f : ℝ → ℂ) (D : ι → ℝ)
    (ω : ℝ) :
    ∑ m : κ, ∑ n : κ,
        c * (s * Matrix.reindex e e X m n) * f (ω + ((D ∘ e.symm) m - (D ∘ e.symm) n))
          * Matrix.reindex e e Y n m
      = ∑ m : ι, ∑ n : ι, c * (s * X m n) * f (ω + (D m - D n)) * Y n m := by
  refine Fintype.sum_equiv e.symm _ _ fun m => ?_
  refine Fintype.sum_equiv e.symm _ _ fun n => ?_
  rfl

end sums

section piSum
variable {P : Type*} [Fintype P] [DecidableEq P] {ι : P → Type*} [∀ q, Fintype (ι q)]
  [∀ q, DecidableEq (ι q)]

/-- **the `n`-fold triple sum**: for a transformed noise operator that is `X` on factor `p` and the
identity on all other factors, eigenvalues `Σ_q λ^q_{x_q}` and a transformed basis element
`⊗_q Y_q`, the `m, n` double sum of one segment collapses to `∏_{q ≠ p} tr(Y_q)` times the double
sum of factor `p` alone.  By splitting the family at `p` (`piKronH_split`, a re-indexing) and the
binary rule `cm_sum_kronG`. -/
theorem cm_sum_piKron (p : P) (c s : ℂ) (X : Matrix (ι p) (ι p) ℂ)
    (Y : ∀ q, Matrix (ι q) (ι q) ℂ) (f : ℝ → ℂ) (l : ∀ q, ι q → ℝ) (ω : ℝ) :
    ∑ m : ∀ q, ι q, ∑ n : ∀ q, ι q,
        c * (s * piKronH (Function.update (fun q => (1 : Matrix (ι q) (ι q) ℂ)) p X) m n)
          * f (ω + (piSum l m - piSum l n)) * piKronH Y n m
      = (∏ q : {q // q ≠ p}, Matrix.trace (Y q.1))
          * ∑ m₁, ∑ n₁, c * (s * X m₁ n₁) * f (ω + (l p m₁ - l p n₁)) * Y p n₁ m₁ := by
  rw [← cm_sum_reindexG (Equiv.piSplitAt p ι) c s _ (piKronH Y) f (piSum l) ω, piKronH_split,
    piKronH_split, piSum_split, Function.update_self, update_one_rest, piKronH_one, cm_sum_kronG,
    trace_piKronH]

/-- conjugating with `Q† V` (both unitary) does not change the trace -/
theorem trace_conj_unitary {κ : Type*} [Fintype κ] [DecidableEq κ] (Qm Vm C : Matrix κ κ ℂ)
    (hV : Vmᴴ * Vm = 1) (hQ : Qmᴴ * Qm = 1) :
    Matrix.trace ((Qmᴴ * Vm)ᴴ * C * (Qmᴴ * Vm)) = Matrix.trace C := by
  have hW : (Qmᴴ * Vm) * (Qmᴴ * Vm)ᴴ = 1 := by
    rw [Matrix.conjTranspose_mul, Matrix.conjTranspose_conjTranspose, Matrix.mul_assoc,
      ← Matrix.mul_assoc Vm, mul_eq_one_comm.mp hV, Matrix.one_mul, hQ]
  rw [Matrix.trace_mul_comm, ← Matrix.mul_assoc, hW, Matrix.one_mul]

/-- the noise operator `B` on party `p`, identity elsewhere, transformed factor by factor with
unitaries `V_q` (`q ≠ p`), is `V_p† B V_p` on party `p` and the identity elsewhere -/
theorem conj_update_one (p : P) (Vm : ∀ q, Matrix (ι q) (ι q) ℂ) (B : Matrix (ι p) (ι p) ℂ)
    (hVu : ∀ q, q ≠ p → (Vm q)ᴴ * Vm q = 1) :
    (fun q => (Vm q)ᴴ * Function.update (fun q => (1 : Matrix (ι q) (ι q) ℂ)) p B q * Vm q)
      = Function.update (fun q => (1 : Matrix (ι q) (ι q) ℂ)) p ((Vm p)ᴴ * B * Vm p) := by
  funext q
  by_cases hq : q = p
  · subst hq
    rw [Function.update_self, Function.update_self]
  · rw [Function.update_of_ne hq, Function.update_of_ne hq, Matrix.mul_one, hVu q hq]

/-- **one segment of `calculate_control_matrix_from_scratch` on `n`-fold Kronecker-product data**
(flattened by an arbitrary `e`): the `m, n` double sum is `∏_{q≠p} tr(C_q)` times the double sum of
party `p` alone. -/
theorem cm_segment_piKron {κ : Type*} [Fintype κ] [DecidableEq κ] (e : (∀ q, ι q) ≃ κ) (p : P)
    (c s : ℂ) (f : ℝ → ℂ) (ω : ℝ) (Vm Qm C : ∀ q, Matrix (ι q) (ι q) ℂ)
    (B : Matrix (ι p) (ι p) ℂ) (l : ∀ q, ι q → ℝ)
    (hVu : ∀ q, q ≠ p → (Vm q)ᴴ * Vm q = 1) (hQu : ∀ q, q ≠ p → (Qm q)ᴴ * Qm q = 1) :
    ∑ m : κ, ∑ n : κ,
        c * (s * ((Matrix.reindex e e (piKronH Vm))ᴴ
              * Matrix.reindex e e (piKronH
                  (Function.update (fun q => (1 : Matrix (ι q) (ι q) ℂ)) p B))
              * Matrix.reindex e e (piKronH Vm)) m n)
          * f (ω + ((piSum l ∘ e.symm) m - (piSum l ∘ e.symm) n))
          * (((Matrix.reindex e e (piKronH Qm))ᴴ * Matrix.reindex e e (piKronH Vm))ᴴ
              * Matrix.reindex e e (piKronH C)
              * ((Matrix.reindex e e (piKronH Qm))ᴴ * Matrix.reindex e e (piKronH Vm))) n m
      = (∏ q : {q // q ≠ p}, Matrix.trace (C q.1))
          * ∑ m₁, ∑ n₁, c * (s * ((Vm p)ᴴ * B * Vm p) m₁ n₁) * f (ω + (l p m₁ - l p n₁))
              * (((Qm p)ᴴ * Vm p)ᴴ * C p * ((Qm p)ᴴ * Vm p)) n₁ m₁ := by
  simp only [reindex_conjTranspose, ← reindex_mul, piKronH_conjTranspose, piKronH_mul]
  rw [cm_sum_reindexG, conj_update_one p Vm B hVu, cm_sum_piKron,
    Finset.prod_congr rfl fun q _ => trace_conj_unitary (Qm q.1) (Vm q.1) (C q.1) (hVu q.1 q.2)
      (hQu q.1 q.2)]

end piSum

/-! ### `n`-fold eigen-decomposition and propagators -/

section eigh
variable {P : Type*} [Fintype P] [DecidableEq P] {ι : P → Type*} [∀ q, Fintype (ι q)]
  [∀ q, DecidableEq (ι q)]

theorem piKronH_diagonal (a : ∀ q, ι q → ℂ) :
    piKronH (fun q => diagonal (a q)) = diagonal fun x => ∏ q, a q (x q) := by
  ext x y
  simp only [piKronH, diagonal_apply]
  by_cases h : x = y
  · subst h; simp
  · rw [if_neg h]
    obtain ⟨q, hq⟩ := Function.ne_iff.mp h
    exact Finset.prod_eq_zero (Finset.mem_univ q) (if_neg hq)

/-- `1 ⊗ ⋯ ⊗ X ⊗ ⋯ ⊗ 1` with `X` at party `p` -/
def embedAt (p : P) (X : Matrix (ι p) (ι p) ℂ) : Matrix (∀ q, ι q) (∀ q, ι q) ℂ :=
  piKronH (Function.update (fun q => (1 : Matrix (ι q) (ι q) ℂ)) p X)

theorem embedAt_mul_piKronH (p : P) (X : Matrix (ι p) (ι p) ℂ) (V : ∀ q, Matrix (ι q) (ι q) ℂ) :
    embedAt p X * piKronH V = piKronH (Function.update V p (X * V p)) := by
  rw [embedAt, piKronH_mul]
  congr 1
  funext q
  by_cases hq : q = p
  · subst hq; rw [Function.update_self, Function.update_self]
  · rw [Function.update_of_ne hq, Function.update_of_ne hq, Matrix.one_mul]

theorem piKronH_mul_embedAt (p : P) (X : Matrix (ι p) (ι p) ℂ) (V : ∀ q, Matrix (ι q) (ι q) ℂ) :
    piKronH V * embedAt p X = piKronH (Function.update V p (V p * X)) := by
  rw [embedAt, piKronH_mul]
  congr 1
  funext q
  by_cases hq : q = p
  · subst hq; rw [Function.update_self, Function.update_self]
  · rw [Function.update_of_ne hq, Function.update_of_ne hq, Matrix.mul_one]

theorem embedAt_diagonal (p : P) (d : ι p → ℂ) :
    embedAt (ι := ι) p (diagonal d) = diagonal fun x => d (x p) := by
  have h : Function.update (fun q => (1 : Matrix (ι q) (ι q) ℂ)) p (diagonal d)
      = fun q => diagonal (Function.update (fun q (_ : ι q) => (1 : ℂ)) p d q) := by
    funext q
    by_cases hq : q = p
    · subst hq; rw [Function.update_self, Function.update_self]
    · rw [Function.update_of_ne hq, Function.update_of_ne hq]; exact diagonal_one.symm
  rw [embedAt, h, piKronH_diagonal]
  congr 1
  funext x
  rw [Finset.prod_eq_single p (fun q _ hq => by rw [Function.update_of_ne hq])
    (fun hp => absurd (Finset.mem_univ p) hp), Function.update_self]

/-- **`n`-fold `eigh` contract**: if `(D_q, V_q)` diagonalises `H_q` for every party, then `⊗_q V_q`
diagonalises `Σ_q 1 ⊗ ⋯ ⊗ H_q ⊗ ⋯ ⊗ 1` with the eigenvalues `Σ_q D_q(x_q)`, and is unitary. -/
theorem piKron_isEighG {H : ∀ q, Matrix (ι q) (ι q) ℂ} {D : ∀ q, ι q → ℝ}
    {V : ∀ q, Matrix (ι q) (ι q) ℂ} (h : ∀ q, IsEighG (H q) (D q) (V q)) :
    IsEighG (∑ q, embedAt q (H q)) (piSum D) (piKronH V) := by
  refine ⟨?_, ?_, ?_⟩
  · have hd : (diagonal fun x : ∀ q, ι q => ((piSum D x : ℝ) : ℂ))
        = ∑ q, embedAt q (diagonal fun i => (D q i : ℂ)) := by
      simp only [embedAt_diagonal]
      ext x y
      rw [Matrix.sum_apply]
      simp only [diagonal_apply]
      by_cases hxy : x = y
      · simp [hxy, piSum]
      · simp [hxy]
    rw [hd, Finset.sum_mul, Finset.mul_sum]
    refine Finset.sum_congr rfl fun q _ => ?_
    rw [embedAt_mul_piKronH, piKronH_mul_embedAt, (h q).eig]
  · rw [piKronH_conjTranspose, piKronH_mul]
    simp only [(h _).left, piKronH_one]
  · rw [piKronH_conjTranspose, piKronH_mul]
    simp only [(h _).right, piKronH_one]

theorem piKron_segPropG (D : ∀ q, ι q → ℝ) (V : ∀ q, Matrix (ι q) (ι q) ℂ) (s : ℝ) :
    segPropG (piSum D) (piKronH V) s = piKronH fun q => segPropG (D q) (V q) s := by
  unfold segPropG
  rw [← piKronH_mul, ← piKronH_mul, piKronH_diagonal, piKronH_conjTranspose]
  congr 3
  funext x
  rw [← Complex.exp_sum]
  congr 1
  simp only [piSum, Complex.ofReal_sum, Finset.mul_sum, Finset.sum_neg_distrib]

theorem piKron_cumProp (Pr : ∀ q, ℕ → Matrix (ι q) (ι q) ℂ) (g : ℕ) :
    cumProp (fun l => piKronH fun q => Pr q l) g = piKronH fun q => cumProp (Pr q) g := by
  induction g with
  | zero => simp only [cumProp, piKronH_one]
  | succ g ih => simp only [cumProp, ih, piKronH_mul]

end eigh
/-! ### sums over label tuples that are fixed outside one party -/

section labels
variable {P : Type*} [Fintype P] [DecidableEq P] {α : P → Type*}
  [∀ q, DecidableEq (α q)] [∀ q, Fintype (α q)]

/-- the tuples that agree with `z` outside `p` are the tuples `update z p j` -/
theorem agree_off_iff (p : P) (z k : ∀ q, α q) :
    (∀ q, q ≠ p → k q = z q) ↔ k = Function.update z p (k p) := by
  constructor
  · intro h
    funext q
    by_cases hq : q = p
    · subst hq; rw [Function.update_self]
    · rw [Function.update_of_ne hq, h q hq]
  · intro h q hq
    rw [h, Function.update_of_ne hq]

theorem update_agree_off (p : P) (z : ∀ q, α q) (j : α p) :
    ∀ q, q ≠ p → Function.update z p j q = z q :=
  fun _ hq => Function.update_of_ne hq _ _

/-- a sum over all label tuples of a function supported on the tuples that agree with `z` outside
`p` is the sum over the labels of party `p` -/
theorem sum_agree_off {M : Type*} [AddCommMonoid M] (p : P) (z : ∀ q, α q)
    (G : (∀ q, α q) → M) :
    (∑ k, if ∀ q, q ≠ p → k q = z q then G k else 0) = ∑ j, G (Function.update z p j) := by
  rw [← Finset.sum_filter]
  refine Finset.sum_bij' (fun k _ => k p) (fun j _ => Function.update z p j) (fun _ _ => Finset.mem_univ _)
    (fun j _ => ?_) (fun k hk => ?_) (fun j _ => Function.update_self _ _ _) (fun k hk => ?_)
  · exact Finset.mem_filter.mpr ⟨Finset.mem_univ _, update_agree_off p z j⟩
  · exact ((agree_off_iff p z k).mp (Finset.mem_filter.mp hk).2).symm
  · exact congrArg G ((agree_off_iff p z k).mp (Finset.mem_filter.mp hk).2)

/-- two different parties: a tuple that agrees with `z` outside `p` and outside `p' ≠ p` is `z` -/
theorem agree_off_two (p p' : P) (hpp : p ≠ p') (z k : ∀ q, α q)
    (h : ∀ q, q ≠ p → k q = z q) (h' : ∀ q, q ≠ p' → k q = z q) : k = z := by
  funext q
  by_cases hq : q = p
  · exact h' q (hq ▸ hpp)
  · exact h q hq

end labels

end FFVerif.NfoldAux
