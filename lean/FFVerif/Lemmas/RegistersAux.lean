/-
Helper lemmas for `Props/C05e` (register bookkeeping of `extend`): binary search on sorted lists,
`insort`, the factor order of a merge at `bisect` positions, and the loops of `extend`.
-/
import FFVerif.Model.Registers
import FFVerif.Props.C16

namespace FFVerif.RegistersAux
open FFVerif.Model.Tensor FFVerif.Model.Registers FFVerif.TensorAux

/-- number of elements `≤ x` -/
def countLE (l : List Nat) (x : Nat) : Nat := l.countP fun y => decide (y ≤ x)

theorem countLE_le_length (l : List Nat) (x : Nat) : countLE l x ≤ l.length := List.countP_le_length

/-! ### binary search -/

/-- the result of the loop lies in `[lo, hi]`, for ANY list -/
theorem bisectLoop_bounds (a : List Nat) (x : Nat) :
    ∀ fuel lo hi, lo ≤ hi → lo ≤ bisectLoop a x fuel lo hi ∧ bisectLoop a x fuel lo hi ≤ hi := by
  intro fuel
  induction fuel with
  | zero => intro lo hi h; simp [bisectLoop, h]
  | succ n ih =>
    intro lo hi h
    simp only [bisectLoop]
    split
    · rename_i hlt
      split
      · have := ih lo ((lo + hi) / 2) (by omega); omega
      · have := ih ((lo + hi) / 2 + 1) hi (by omega); omega
    · omega

/-- `bisect a x ≤ len(a)` for ANY list (the position is always admissible for `tensor_insert` /
`tensor_merge`) -/
theorem bisect_le_length (a : List Nat) (x : Nat) : bisect a x ≤ a.length :=
  (bisectLoop_bounds a x a.length 0 a.length (Nat.zero_le _)).2

theorem getD_lt {a : List Nat} {i : Nat} (h : i < a.length) : a.getD i 0 = a[i] := by
  simp [List.getD_eq_getElem?_getD, h]

theorem getD_mono {a : List Nat} (hs : a.Pairwise (· ≤ ·)) {i j : Nat} (hij : i ≤ j)
    (hj : j < a.length) : a.getD i 0 ≤ a.getD j 0 := by
  have hi : i < a.length := by omega
  rw [getD_lt hi, getD_lt hj]
  rcases Nat.lt_or_eq_of_le hij with h | h
  · exact (List.pairwise_iff_getElem.1 hs) i j hi hj h
  · subst h; exact Nat.le_refl _

/-- loop invariant of `bisect_right` on a sorted list: everything left of `lo` is `≤ x`,
everything from `hi` on is `> x` -/
theorem bisectLoop_spec (a : List Nat) (x : Nat) (hs : a.Pairwise (· ≤ ·)) :
    ∀ fuel lo hi, lo ≤ hi → hi ≤ a.length → hi - lo ≤ fuel →
      (∀ i, i < lo → a.getD i 0 ≤ x) → (∀ i, hi ≤ i → i < a.length → x < a.getD i 0) →
      (∀ i, i < bisectLoop a x fuel lo hi → a.getD i 0 ≤ x) ∧
      (∀ i, bisectLoop a x fuel lo hi ≤ i → i < a.length → x < a.getD i 0) := by
  intro fuel
  induction fuel with
  | zero =>
    intro lo hi h1 _ h3 hl hh
    have : lo = hi := by omega
    subst this
    simpa [bisectLoop] using ⟨hl, hh⟩
  | succ n ih =>
    intro lo hi h1 h2 h3 hl hh
    simp only [bisectLoop]
    split
    · rename_i hlt
      have hm1 : lo ≤ (lo + hi) / 2 := by omega
      have hm2 : (lo + hi) / 2 < hi := by omega
      split
      · rename_i hx
        apply ih lo ((lo + hi) / 2) hm1 (by omega) (by omega) hl
        intro i hi1 hi2
        exact Nat.lt_of_lt_of_le hx (getD_mono hs hi1 hi2)
      · rename_i hx
        apply ih ((lo + hi) / 2 + 1) hi (by omega) h2 (by omega) _ hh
        intro i hi1
        have hmid : a.getD ((lo + hi) / 2) 0 ≤ x := by omega
        have hle : i ≤ (lo + hi) / 2 := by omega
        have hlen : (lo + hi) / 2 < a.length := by omega
        exact Nat.le_trans (getD_mono hs hle hlen) hmid
    · have : lo = hi := by omega
      subst this
      exact ⟨hl, hh⟩

theorem countLE_of_split (a : List Nat) (x r : Nat) (hr : r ≤ a.length)
    (h1 : ∀ i, i < r → a.getD i 0 ≤ x) (h2 : ∀ i, r ≤ i → i < a.length → x < a.getD i 0) :
    countLE a x = r := by
  unfold countLE
  conv => lhs; rw [← List.take_append_drop r a]
  rw [List.countP_append]
  have e1 : (a.take r).countP (fun y => decide (y ≤ x)) = (a.take r).length := by
    rw [List.countP_eq_length]
    intro y hy
    obtain ⟨i, hi, rfl⟩ := List.mem_take_iff_getElem.1 hy
    have := h1 i (by omega)
    rw [getD_lt (by omega)] at this
    simpa using this
  have e2 : (a.drop r).countP (fun y => decide (y ≤ x)) = 0 := by
    rw [List.countP_eq_zero]
    intro y hy
    obtain ⟨i, hi, rfl⟩ := List.mem_drop_iff_getElem.1 hy
    have := h2 (r + i) (by omega) (by omega)
    rw [getD_lt (by omega)] at this
    simpa using this
  rw [e1, e2, List.length_take]
  omega

/-- on a sorted list `bisect` counts the elements `≤ x` -/
theorem bisect_eq_countLE (a : List Nat) (x : Nat) (hs : a.Pairwise (· ≤ ·)) :
    bisect a x = countLE a x := by
  have h := bisectLoop_spec a x hs a.length 0 a.length (Nat.zero_le _) (Nat.le_refl _)
    (by omega) (by intro i hi; omega) (by intro i h1 h2; omega)
  exact (countLE_of_split a x _ (bisect_le_length a x) h.1 h.2).symm

/-! ### `insort` -/

theorem insertAt_succ_cons {α} (b : α) (t : List α) (n : Nat) (x : α) :
    insertAt (b :: t) (n + 1) x = b :: insertAt t n x := by
  simp [insertAt]

theorem insertAt_zero {α} (l : List α) (x : α) : insertAt l 0 x = x :: l := by
  simp [insertAt]

theorem insertAt_countLE_sorted (l : List Nat) (x : Nat) (hs : l.Pairwise (· ≤ ·)) :
    (insertAt l (countLE l x) x).Pairwise (· ≤ ·) := by
  induction l with
  | nil => simp [insertAt, countLE]
  | cons b t ih =>
    rw [List.pairwise_cons] at hs
    by_cases hb : b ≤ x
    · have : countLE (b :: t) x = countLE t x + 1 := by
        unfold countLE; rw [List.countP_cons_of_pos (by simpa using hb)]
      rw [this, insertAt_succ_cons, List.pairwise_cons]
      refine ⟨?_, ih hs.2⟩
      intro y hy
      rcases List.mem_cons.1 ((insertAt_perm t _ x).mem_iff.1 hy) with rfl | hy
      · exact hb
      · exact hs.1 y hy
    · have h0 : countLE (b :: t) x = 0 := by
        unfold countLE
        rw [List.countP_eq_zero]
        intro y hy
        rcases List.mem_cons.1 hy with rfl | hy
        · simpa using hb
        · have := hs.1 y hy
          simp; omega
      rw [h0, insertAt_zero, List.pairwise_cons]
      refine ⟨?_, List.pairwise_cons.2 hs⟩
      intro y hy
      rcases List.mem_cons.1 hy with rfl | hy
      · omega
      · have := hs.1 y hy; omega

theorem strict_of_le_of_nodup {l : List Nat} (h1 : l.Pairwise (· ≤ ·)) (h2 : l.Nodup) :
    l.Pairwise (· < ·) :=
  (h1.and h2).imp (fun h => Nat.lt_of_le_of_ne h.1 h.2)

theorem le_of_strict {l : List Nat} (h : l.Pairwise (· < ·)) : l.Pairwise (· ≤ ·) :=
  h.imp Nat.le_of_lt

theorem nodup_of_strict {l : List Nat} (h : l.Pairwise (· < ·)) : l.Nodup :=
  h.imp Nat.ne_of_lt

/-- `insort` on a sorted list: sorted again, and exactly `x` has been added -/
theorem insort_sorted (l : List Nat) (x : Nat) (hs : l.Pairwise (· ≤ ·)) :
    (insort l x).Pairwise (· ≤ ·) ∧ (insort l x).Perm (x :: l) := by
  unfold insort
  rw [bisect_eq_countLE l x hs]
  exact ⟨insertAt_countLE_sorted l x hs, insertAt_perm l _ x⟩

theorem insort_strict (l : List Nat) (x : Nat) (hs : l.Pairwise (· < ·)) (hx : x ∉ l) :
    (insort l x).Pairwise (· < ·) ∧ (insort l x).Perm (x :: l) := by
  have h := insort_sorted l x (le_of_strict hs)
  refine ⟨strict_of_le_of_nodup h.1 ?_, h.2⟩
  rw [h.2.nodup_iff, List.nodup_cons]
  exact ⟨hx, nodup_of_strict hs⟩

theorem insortAll_strict (qubits regs : List Nat) (hs : regs.Pairwise (· < ·))
    (hn : (regs ++ qubits).Nodup) :
    (insortAll regs qubits).Pairwise (· < ·) ∧ (insortAll regs qubits).Perm (regs ++ qubits) := by
  induction qubits generalizing regs with
  | nil => simpa [insortAll] using hs
  | cons q qs ih =>
    have hq : q ∉ regs := by
      intro h
      have := (List.nodup_append.1 hn).2.2 q h q (by simp)
      exact this rfl
    have h1 := insort_strict regs q hs hq
    have hp : (insort regs q ++ qs).Perm (regs ++ q :: qs) :=
      (h1.2.append_right qs).trans List.perm_middle.symm
    have h2 := ih (insort regs q) h1.1 (hp.nodup_iff.2 hn)
    exact ⟨h2.1, h2.2.trans hp⟩

/-- two strictly increasing lists with the same elements are equal -/
theorem eq_of_strict_of_perm {l₁ l₂ : List Nat} (h1 : l₁.Pairwise (· < ·))
    (h2 : l₂.Pairwise (· < ·)) (hp : l₁.Perm l₂) : l₁ = l₂ :=
  hp.eq_of_pairwise (fun _ _ _ _ hab hba => absurd hab (Nat.lt_asymm hba)) h1 h2

/-! ### the factor order of a merge at the `bisect` positions -/

theorem argsAt_map_key (f : Nat → Nat) (k : Nat) (qs : List Nat) :
    argsAt k (qs.map fun q => (f q, q)) = qs.filter fun q => f q == k := by
  induction qs with
  | nil => rfl
  | cons q qs ih =>
    unfold argsAt at ih ⊢
    by_cases h : f q = k <;> simp [h, ih]

theorem zip_map_self {α β} (f : α → β) (l : List α) :
    (l.map f).zip l = l.map fun q => (f q, q) := by
  induction l with
  | nil => rfl
  | cons a l ih => simp [ih]

/-- in a strictly increasing list `pre ++ cs`, a new element with exactly `|pre|` elements `≤` it
lies strictly between `pre` and `cs` -/
theorem between_of_countLE {pre cs : List Nat} {y : Nat} (hs : (pre ++ cs).Pairwise (· < ·))
    (hy : y ∉ pre ++ cs) (hc : countLE (pre ++ cs) y = pre.length) :
    (∀ z ∈ pre, z < y) ∧ (∀ z ∈ cs, y < z) := by
  unfold countLE at hc
  rw [List.countP_append] at hc
  have hcross := (List.pairwise_append.1 hs).2.2
  have hcs : ∀ z ∈ cs, y < z := by
    intro z hz
    by_contra hzy
    have hzy : z ≤ y := by omega
    have e1 : pre.countP (fun w => decide (w ≤ y)) = pre.length := by
      rw [List.countP_eq_length]
      intro w hw
      have := hcross w hw z hz
      simp; omega
    have e2 : 0 < cs.countP (fun w => decide (w ≤ y)) :=
      List.countP_pos_iff.2 ⟨z, hz, by simpa using hzy⟩
    omega
  refine ⟨?_, hcs⟩
  have e2 : cs.countP (fun w => decide (w ≤ y)) = 0 := by
    rw [List.countP_eq_zero]
    intro z hz
    have := hcs z hz
    simp; omega
  rw [e2, Nat.add_zero, List.countP_eq_length] at hc
  intro z hz
  have h1 := hc z hz
  have h2 : z ≠ y := by
    rintro rfl
    exact hy (List.mem_append_left _ hz)
  have h1 : z ≤ y := by simpa using h1
  omega

/-- the positions list of `_merge_attrs` in normalised form -/
def keyed (regs qubits : List Nat) : List (Nat × Nat) := qubits.map fun q => (countLE regs q, q)

/-- **Core of `merge_step`.**  For a strictly increasing `regs = pre ++ cs` and a strictly
increasing block of new qubits, the `numpy.insert` specification with every qubit at the position
"number of registers `≤` it" is strictly increasing. -/
theorem insertSpec_sorted (regs qubits : List Nat) (hs : regs.Pairwise (· < ·))
    (hq : qubits.Pairwise (· < ·)) (hd : ∀ q ∈ qubits, q ∉ regs) :
    ∀ cs pre, regs = pre ++ cs →
      (insertSpec pre.length cs (keyed regs qubits)).Pairwise (· < ·) ∧
      ∀ y ∈ insertSpec pre.length cs (keyed regs qubits), ∀ z ∈ pre, z < y := by
  have hA : ∀ pre cs, regs = pre ++ cs → ∀ y ∈ argsAt pre.length (keyed regs qubits),
      (∀ z ∈ pre, z < y) ∧ (∀ z ∈ cs, y < z) := by
    intro pre cs h y hy
    unfold keyed at hy
    rw [argsAt_map_key, List.mem_filter] at hy
    subst h
    exact between_of_countLE hs (hd y hy.1) (by simpa using hy.2)
  have hAs : ∀ k, (argsAt k (keyed regs qubits)).Pairwise (· < ·) := by
    intro k
    unfold keyed
    rw [argsAt_map_key]
    exact hq.filter _
  intro cs
  induction cs with
  | nil =>
    intro pre h
    simp only [insertSpec]
    exact ⟨hAs _, fun y hy => (hA pre [] h y hy).1⟩
  | cons c cs ih =>
    intro pre h
    have h' : regs = (pre ++ [c]) ++ cs := by simp [h]
    have ihc := ih (pre ++ [c]) h'
    rw [List.length_append, List.length_singleton] at ihc
    have hpc : ∀ z ∈ pre, z < c := by
      intro z hz
      rw [h] at hs
      exact (List.pairwise_append.1 hs).2.2 z hz c (by simp)
    simp only [insertSpec]
    constructor
    · rw [List.pairwise_append]
      refine ⟨hAs _, ?_, ?_⟩
      · rw [List.pairwise_cons]
        exact ⟨fun y hy => ihc.2 y hy c (by simp), ihc.1⟩
      · intro a ha b hb
        have hac := (hA pre (c :: cs) h a ha).2 c (by simp)
        rcases List.mem_cons.1 hb with rfl | hb
        · exact hac
        · exact Nat.lt_trans hac (ihc.2 b hb c (by simp))
    · intro y hy z hz
      rcases List.mem_append.1 hy with hy | hy
      · exact (hA pre (c :: cs) h y hy).1 z hz
      · rcases List.mem_cons.1 hy with rfl | hy
        · exact hpc z hz
        · exact ihc.2 y hy z (by simp [hz])

theorem insertSpec_perm {α : Type} (chain : List α) (ps : List (Nat × α))
    (hadm : ∀ x ∈ ps, x.1 ≤ chain.length) :
    (insertSpec 0 chain ps).Perm (chain ++ ps.map (·.2)) := by
  rw [← insertSlot_eq_spec chain ps hadm]
  exact (insertLoop_perm 0 chain _).trans
    (List.Perm.append_left _ ((sortByPos_perm ps).map _))

theorem keyed_snd (regs qubits : List Nat) : (keyed regs qubits).map (·.2) = qubits := by
  unfold keyed; simp [Function.comp_def]

theorem keyed_adm (regs qubits : List Nat) : ∀ x ∈ keyed regs qubits, x.1 ≤ regs.length := by
  intro x hx
  unfold keyed at hx
  obtain ⟨q, _, rfl⟩ := List.mem_map.1 hx
  exact countLE_le_length regs q

theorem normNat_natCast (n k : Nat) : normNat n (k : Int) = k := by
  unfold normNat; simp

/-- the `tensor_merge` call of `_merge_attrs` on a sorted register list: the factor order is the
`numpy.insert` specification with the positions `bisect(registers, q)` — positions that refer to
the chain BEFORE the merge. -/
theorem mergeResult_keyed (chain regs qubits : List Nat) (hs : regs.Pairwise (· ≤ ·))
    (hlen : chain.length = regs.length) (hlet : (qubits.length + regs.length) * 2 ≤ 52) :
    mergeResult chain qubits (mergePositions regs qubits) 2
      = .ok (insertSpec 0 chain (keyed regs qubits)) := by
  rw [C16.mergeResult_spec chain qubits _ 2 (by omega) (by simp [mergePositions])
    (by
      intro p hp
      obtain ⟨q, _, rfl⟩ := List.mem_map.1 hp
      have := bisect_le_length regs q
      omega)
    (by omega)]
  congr 2
  unfold mergePositions keyed
  rw [List.map_map]
  have : ((fun p : Int => normNat chain.length p) ∘ fun q => (bisect regs q : Int))
      = fun q => countLE regs q := by
    funext q
    simp [normNat_natCast, bisect_eq_countLE regs q hs]
  rw [this, zip_map_self]

/-! ### states -/

/-- `registers` of a state (`[]` for `registers is None`) -/
def regsOf : State → List Nat
  | none => []
  | some (_, r) => r

/-- the invariant of the loops of `extend`: the chain is labelled exactly like `registers`, which is
strictly increasing -/
def Inv (st : State) : Prop :=
  ∀ c r, st = some (c, r) → c = r ∧ r.Pairwise (· < ·)

theorem inv_none : Inv none := by intro c r h; cases h

theorem mergeAttrs_some (regs qubits : List Nat) (hs : regs.Pairwise (· < ·))
    (hq : qubits.Pairwise (· < ·)) (hd : ∀ q ∈ qubits, q ∉ regs)
    (hlet : (qubits.length + regs.length) * 2 ≤ 52) :
    mergeAttrs (some (regs, regs)) qubits
        = .ok (some (insertSpec 0 regs (keyed regs qubits), insortAll regs qubits)) ∧
      insertSpec 0 regs (keyed regs qubits) = insortAll regs qubits ∧
      (insortAll regs qubits).Pairwise (· < ·) ∧
      (insortAll regs qubits).Perm (regs ++ qubits) := by
  have hn : (regs ++ qubits).Nodup := by
    rw [List.nodup_append]
    refine ⟨nodup_of_strict hs, nodup_of_strict hq, ?_⟩
    intro a ha b hb hab
    subst hab
    exact hd a hb ha
  have hR := insortAll_strict qubits regs hs hn
  have hL := insertSpec_sorted regs qubits hs hq hd regs [] rfl
  have hP := insertSpec_perm regs (keyed regs qubits) (keyed_adm regs qubits)
  rw [keyed_snd] at hP
  refine ⟨?_, eq_of_strict_of_perm hL.1 hR.1 (hP.trans hR.2.symm), hR⟩
  unfold mergeAttrs
  simp only [ne_eq, not_true_eq_false, if_false]
  rw [mergeResult_keyed regs regs qubits (le_of_strict hs) rfl hlet]

/-- one `_merge_attrs` step on a state satisfying the invariant -/
theorem mergeAttrs_inv (st : State) (qubits : List Nat) (hi : Inv st)
    (hq : qubits.Pairwise (· < ·)) (hd : ∀ q ∈ qubits, q ∉ regsOf st)
    (hlet : (qubits.length + (regsOf st).length) * 2 ≤ 52) :
    ∃ r, mergeAttrs st qubits = .ok (some (r, r)) ∧ r.Pairwise (· < ·) ∧
      r.Perm (regsOf st ++ qubits) := by
  cases st with
  | none => exact ⟨qubits, rfl, hq, by simp [regsOf]⟩
  | some p =>
    obtain ⟨c, r⟩ := p
    obtain ⟨rfl, hs⟩ := hi c r rfl
    have h := mergeAttrs_some c qubits hs hq hd hlet
    refine ⟨insortAll c qubits, ?_, h.2.2⟩
    rw [h.1, h.2.1]

/-- `_insert_attrs` keeps "chain = registers" for ANY register list (sorted or not) -/
theorem insertAttrs_some (regs : List Nat) (q : Nat) :
    insertAttrs (some (regs, regs)) q = .ok (some (insort regs q, insort regs q)) := by
  unfold insertAttrs
  simp only [ne_eq, not_true_eq_false, if_false]
  have hb := bisect_le_length regs q
  rw [C16.insertResultInt_spec regs [q] _ (by simp) (by omega), normNat_natCast]
  simp [insort, insertAt]

theorem insertAttrs_inv (st : State) (q : Nat) (hi : Inv st) (hd : q ∉ regsOf st) :
    ∃ r, insertAttrs st q = .ok (some (r, r)) ∧ r.Pairwise (· < ·) ∧
      r.Perm (regsOf st ++ [q]) := by
  cases st with
  | none => exact ⟨[q], rfl, by simp, by simp [regsOf]⟩
  | some p =>
    obtain ⟨c, r⟩ := p
    obtain ⟨rfl, hs⟩ := hi c r rfl
    have h := insort_strict c q hs hd
    exact ⟨insort c q, insertAttrs_some c q, h.1, h.2.trans (by simpa [regsOf] using
      (List.perm_append_singleton q c).symm)⟩

theorem inv_some {r : List Nat} (h : r.Pairwise (· < ·)) : Inv (some (r, r)) := by
  intro c r' e
  cases e
  exact ⟨rfl, h⟩

/-! ### the loops -/

theorem mergeAll_inv (blocks : List (List Nat)) (st : State) (hi : Inv st)
    (hb : ∀ b ∈ blocks, b.Pairwise (· < ·)) (hn : (regsOf st ++ blocks.flatten).Nodup)
    (hlet : ((regsOf st).length + blocks.flatten.length) * 2 ≤ 52) :
    ∃ st', mergeAll st blocks = .ok st' ∧ Inv st' ∧
      (regsOf st').Perm (regsOf st ++ blocks.flatten) := by
  induction blocks generalizing st with
  | nil => exact ⟨st, rfl, hi, by simp⟩
  | cons b bs ih =>
    simp only [List.flatten_cons, List.length_append] at hn hlet
    have hd : ∀ q ∈ b, q ∉ regsOf st := by
      intro q hq hr
      exact (List.nodup_append.1 hn).2.2 q hr q (by simp [hq]) rfl
    obtain ⟨r, h1, h2, h3⟩ := mergeAttrs_inv st b hi (hb b (by simp)) hd (by omega)
    have hp : (r ++ bs.flatten).Perm (regsOf st ++ (b ++ bs.flatten)) := by
      rw [← List.append_assoc]; exact h3.append_right _
    obtain ⟨st', h4, h5, h6⟩ := ih (some (r, r)) (inv_some h2)
      (fun b' hb' => hb b' (by simp [hb'])) (hp.nodup_iff.2 hn)
      (by
        have := h3.length_eq
        rw [List.length_append] at this
        show (r.length + bs.flatten.length) * 2 ≤ 52
        omega)
    refine ⟨st', ?_, h5, ?_⟩
    · simp only [mergeAll, h1, h4]
    · simpa [regsOf] using h6.trans hp

theorem insertAll_inv (qs : List Nat) (st : State) (hi : Inv st)
    (hn : (regsOf st ++ qs).Nodup) :
    ∃ st', insertAll st qs = .ok st' ∧ Inv st' ∧ (regsOf st').Perm (regsOf st ++ qs) := by
  induction qs generalizing st with
  | nil => exact ⟨st, rfl, hi, by simp⟩
  | cons q qs ih =>
    have hd : q ∉ regsOf st := by
      intro hr
      exact (List.nodup_append.1 hn).2.2 q hr q (by simp) rfl
    obtain ⟨r, h1, h2, h3⟩ := insertAttrs_inv st q hi hd
    have hp : (r ++ qs).Perm (regsOf st ++ q :: qs) := by
      have := h3.append_right qs
      simpa using this
    obtain ⟨st', h4, h5, h6⟩ := ih (some (r, r)) (inv_some h2) (hp.nodup_iff.2 hn)
    refine ⟨st', ?_, h5, ?_⟩
    · simp only [insertAll, h1, h4]
    · simpa [regsOf] using h6.trans hp

/-! ### the whole bookkeeping of `extend` -/

theorem idle_facts (active : List Nat) (N : Nat) (hn : active.Nodup) (hlt : ∀ q ∈ active, q < N) :
    (idleQubits active N).Pairwise (· < ·) ∧ (∀ q ∈ idleQubits active N, q ∉ active) ∧
      (active ++ idleQubits active N).Perm (List.range N) := by
  have hmem : ∀ q, q ∈ idleQubits active N ↔ q < N ∧ q ∉ active := by
    intro q; simp [idleQubits]
  have hs : (idleQubits active N).Pairwise (· < ·) := List.pairwise_lt_range.filter _
  refine ⟨hs, fun q hq => ((hmem q).1 hq).2, ?_⟩
  rw [List.perm_ext_iff_of_nodup _ List.nodup_range]
  · intro q
    rw [List.mem_append, hmem, List.mem_range]
    constructor
    · rintro (h | h)
      · exact hlt q h
      · exact h.1
    · intro h
      by_cases ha : q ∈ active
      · exact Or.inl ha
      · exact Or.inr ⟨h, ha⟩
  · rw [List.nodup_append]
    exact ⟨hn, nodup_of_strict hs, fun a ha b hb hab => ((hmem b).1 hb).2 (hab ▸ ha)⟩

theorem length_le_of_nodup_lt (l : List Nat) (N : Nat) (hn : l.Nodup) (hlt : ∀ q ∈ l, q < N) :
    l.length ≤ N := by
  have := (List.subperm_of_subset hn (fun x hx => List.mem_range.2 (hlt x hx))).length_le
  simpa using this

/-- the two loops over the mapped pulses -/
theorem extend_prefix (multi : List (List Nat)) (single : List Nat)
    (hb : ∀ b ∈ multi, b.Pairwise (· < ·)) (hn : (multi.flatten ++ single).Nodup)
    (hlet : (multi.flatten ++ single).length ≤ 26) :
    ∃ s1 s2, mergeAll none multi = .ok s1 ∧ insertAll s1 single = .ok s2 ∧ Inv s2 ∧
      (regsOf s2).Perm (multi.flatten ++ single) := by
  rw [List.length_append] at hlet
  obtain ⟨s1, h1, h2, h3⟩ := mergeAll_inv multi none inv_none hb
    (by simpa [regsOf] using (List.nodup_append.1 hn).1)
    (by simp only [regsOf, List.length_nil]; omega)
  simp only [regsOf, List.nil_append] at h3
  have hp : (regsOf s1 ++ single).Perm (multi.flatten ++ single) := h3.append_right _
  obtain ⟨s2, h4, h5, h6⟩ := insertAll_inv single s1 h2 (hp.nodup_iff.2 hn)
  exact ⟨s1, s2, h1, h4, h5, h6.trans hp⟩

theorem argsAt_map_key2 {β : Type} (g : Nat → Nat) (h : Nat → β) (k : Nat) (qs : List Nat) :
    argsAt k (qs.map fun q => (g q, h q)) = (qs.filter fun q => g q == k).map h := by
  induction qs with
  | nil => rfl
  | cons q qs ih =>
    unfold argsAt at ih ⊢
    by_cases hq : g q = k <;> simp [hq, ih]

/-- **The order in which the idle qubits are listed does not matter.**  Merging a block whose
factors are indistinguishable (`f` sends all its labels to one value `c` — the identity block of
`extend`) into a chain labelled like its strictly increasing registers: whatever the order of
`qubits`, the registers come out sorted and the chain, read through `f`, is the sorted chain. -/
theorem mergeAttrs_collapse (regs qubits : List Nat) (hs : regs.Pairwise (· < ·))
    (hn : qubits.Nodup) (hd : ∀ q ∈ qubits, q ∉ regs)
    (hlet : (qubits.length + regs.length) * 2 ≤ 52) (f : Nat → Nat) (c : Nat)
    (hf : ∀ q ∈ qubits, f q = c) :
    ∃ chain, mergeAttrs (some (regs, regs)) qubits = .ok (some (chain, insortAll regs qubits)) ∧
      chain.map f = (insortAll regs qubits).map f ∧
      (insortAll regs qubits).Pairwise (· < ·) ∧ (insortAll regs qubits).Perm (regs ++ qubits) := by
  -- the sorted version of the block
  obtain ⟨hq's, hq'p⟩ := insortAll_strict qubits [] (by simp) (by simpa using hn)
  simp only [List.nil_append] at hq'p
  generalize insortAll [] qubits = qs' at hq's hq'p
  have hd' : ∀ q ∈ qs', q ∉ regs := fun q hq => hd q (hq'p.mem_iff.1 hq)
  have hlet' : (qs'.length + regs.length) * 2 ≤ 52 := by rw [hq'p.length_eq]; exact hlet
  obtain ⟨_, e2, e3, e4⟩ := mergeAttrs_some regs qs' hs hq's hd' hlet'
  have hnn : (regs ++ qubits).Nodup := by
    rw [List.nodup_append]
    exact ⟨nodup_of_strict hs, hn, fun a ha b hb hab => hd b hb (hab ▸ ha)⟩
  obtain ⟨r1, r2⟩ := insortAll_strict qubits regs hs hnn
  have er : insortAll regs qs' = insortAll regs qubits :=
    eq_of_strict_of_perm e3 r1 (e4.trans ((hq'p.append_left regs).trans r2.symm))
  refine ⟨insertSpec 0 regs (keyed regs qubits), ?_, ?_, r1, r2⟩
  · unfold mergeAttrs
    simp only [ne_eq, not_true_eq_false, if_false]
    rw [mergeResult_keyed regs regs qubits (le_of_strict hs) rfl hlet]
  · rw [← er, ← e2, map_insertSpec, map_insertSpec]
    apply insertSpec_congr
    intro k
    unfold keyed
    simp only [List.map_map, Function.comp_def]
    rw [argsAt_map_key2 (fun q => countLE regs q) f, argsAt_map_key2 (fun q => countLE regs q) f]
    have hrep : ∀ l : List Nat, (∀ q ∈ l, q ∈ qubits) →
        (l.filter fun q => countLE regs q == k).map f
          = List.replicate (l.filter fun q => countLE regs q == k).length c := by
      intro l hl
      rw [List.eq_replicate_iff]
      refine ⟨by simp, ?_⟩
      intro b hb
      obtain ⟨q, hq, rfl⟩ := List.mem_map.1 hb
      exact hf q (hl q (List.mem_filter.1 hq).1)
    rw [hrep qubits (fun q hq => hq), hrep qs' (fun q hq => hq'p.mem_iff.1 hq),
      (hq'p.filter _).length_eq]

end FFVerif.RegistersAux
