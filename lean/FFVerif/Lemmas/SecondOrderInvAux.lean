/-
Entry form of `Model.secondOrderFFFromScratch` as the loop value (`SecondOrderInv.loopSum`) of
per-segment numbers (`segStep`, `segCm`), and the behaviour of these per-segment numbers under a
change of the time unit, at duration zero and under a cut of the segment.
Helpers for `Props/C13Second.lean`.
-/
import FFVerif.Props.C10Asm
import FFVerif.Lemmas.SecondOrderKernelInvAux
import FFVerif.Lemmas.SecondOrderLoopAux

namespace FFVerif.SecondOrderInv
open FFVerif FFVerif.Model FFVerif.SecondOrderAux FFVerif.SecondOrderAsm Complex Finset Matrix

variable {d : ℕ}

/-- transformed and scaled noise operator of a segment, `s · V† B V` (`n_opers_transformed`) -/
noncomputable def nMat (V B : Mat ℂ d d) (s : ℝ) : Matrix (Fin d) (Fin d) ℂ :=
  (s : ℂ) • ((V.toMatrix)ᴴ * B.toMatrix * V.toMatrix)

/-- transformed basis element of a segment, `(Q†V)† C (Q†V)` (`basis_transformed`) -/
noncomputable def bMat (V Q C : Mat ℂ d d) : Matrix (Fin d) (Fin d) ℂ :=
  ((Q.toMatrix)ᴴ * V.toMatrix)ᴴ * C.toMatrix * ((Q.toMatrix)ᴴ * V.toMatrix)

/-- the "last interval" number of one segment:
`Σ_ijmn int_buf[i,j,m,n] (N_a)_ij (T_k)_ji (N_b)_mn (T_l)_nm` -/
noncomputable def segStep (ev : Fin d → ℝ) (ω dt : ℝ) (Na Nb Tk Tl : Matrix (Fin d) (Fin d) ℂ) : ℂ :=
  ∑ i, ∑ j, ∑ m, ∑ n, (secondOrderEntry ω (ev i - ev j) (ev m - ev n) dt : ℂ)
    * (Na i j * Tk j i) * (Nb m n * Tl n m)

/-- the control-matrix contribution of one segment:
`Σ_mn e^{iωt} N_mn I¹(ω + λ_m - λ_n) T_nm` -/
noncomputable def segCm (kind : MaskKind) (thr : ℝ) (ev : Fin d → ℝ) (ω dt t : ℝ)
    (N T : Matrix (Fin d) (Fin d) ℂ) : ℂ :=
  ∑ m, ∑ n, Complex.exp (Complex.I * ((ω * t : ℝ) : ℂ)) * N m n
    * (firstOrderEntry kind thr (ω + (ev m - ev n)) dt : ℂ) * T n m

theorem nT_entry (V B : Mat ℂ d d) (s : ℝ) (m n : Fin d) :
    (Mat.smul (CplxOps.ofReal s) (transformByUnitary V B))[m][n] = nMat V B s m n := by
  rw [C01.smul_getElem, C01.transformByUnitary_getElem, copsOfReal]
  rfl

theorem bT_entry (V Q C : Mat ℂ d d) (n m : Fin d) :
    (transformByUnitary (Mat.mul (Mat.adjoint Q) V) C)[n][m] = bMat V Q C n m := by
  rw [C01.transformByUnitary_getElem, Mat.toMatrix_mul, Mat.toMatrix_adjoint]
  rfl

/-- one-segment control-matrix call of the loop = `segCm` -/
theorem cm_single_eq_segCm {nO nA nK : ℕ} (kind : MaskKind) (thr : ℝ) (ev : Vec ℝ d)
    (V Q : Mat ℂ d d) (omega : Vec ℝ nO) (basis : Vector (Mat ℂ d d) nK)
    (nOpers : Vector (Mat ℂ d d) nA) (c : Fin nA → ℝ) (dt t : ℝ)
    (a : Fin nA) (k : Fin nK) (o : Fin nO) :
    (controlMatrixFromScratch kind thr #v[ev] #v[V] #v[Q] omega basis nOpers
        (Vector.ofFn fun a => #v[c a]) #v[dt] #v[t])[a][k][o]
      = segCm kind thr (fun i => ev[i]) omega[o] dt t (nMat V nOpers[a] (c a))
          (bMat V Q basis[k]) := by
  rw [cm_single_entry]
  unfold segCm
  refine Finset.sum_congr rfl fun m _ => Finset.sum_congr rfl fun n _ => ?_
  rw [nT_entry, bT_entry, copsExpI]

/-- `n_opers_transformed` of the model, all segments -/
noncomputable def nTvec {nG nA : ℕ} (eigvecs : Vector (Mat ℂ d d) nG)
    (nOpers : Vector (Mat ℂ d d) nA) (nCoeffs : Mat ℝ nA nG) : Vector (Ten3 ℂ nA d d) nG :=
  Vector.ofFn fun g => Vector.ofFn fun a =>
    Mat.smul (CplxOps.ofReal nCoeffs[a][g]) (transformByUnitary eigvecs[g] nOpers[a])

/-- `basis_transformed` of the model, all segments -/
noncomputable def bTvec {nG nK : ℕ} (eigvecs props : Vector (Mat ℂ d d) nG)
    (basis : Vector (Mat ℂ d d) nK) : Vector (Ten3 ℂ nK d d) nG :=
  Vector.ofFn fun g => Vector.ofFn fun k =>
    transformByUnitary
      ((Vector.ofFn fun g => Mat.mul (Mat.adjoint props[g]) eigvecs[g] : Vector (Mat ℂ d d) nG)[g])
      basis[k]

/-- the one-segment control matrices of the model, all segments -/
noncomputable def cmVec {nG nO nA nK : ℕ} (kind : MaskKind) (thr : ℝ)
    (eigvals : Mat ℝ nG d) (eigvecs props : Vector (Mat ℂ d d) nG) (omega : Vec ℝ nO)
    (basis : Vector (Mat ℂ d d) nK) (nOpers : Vector (Mat ℂ d d) nA) (nCoeffs : Mat ℝ nA nG)
    (dt t : Vec ℝ nG) : Vector (Ten3 ℂ nA nK nO) nG :=
  Vector.ofFn fun g =>
    controlMatrixFromScratch kind thr #v[eigvals[g]] #v[eigvecs[g]] #v[props[g]] omega basis
      nOpers (Vector.ofFn fun a => #v[nCoeffs[a][g]]) #v[dt[g]] #v[t[g]]

theorem nTvec_get {nG nA : ℕ} (eigvecs : Vector (Mat ℂ d d) nG)
    (nOpers : Vector (Mat ℂ d d) nA) (nCoeffs : Mat ℝ nA nG) (g : Fin nG) (a : Fin nA)
    (i j : Fin d) :
    (nTvec eigvecs nOpers nCoeffs)[g][a][i][j] = nMat eigvecs[g] nOpers[a] nCoeffs[a][g] i j := by
  unfold nTvec
  rw [vec_ofFn_get, vec_ofFn_get, nT_entry]

theorem bTvec_get {nG nK : ℕ} (eigvecs props : Vector (Mat ℂ d d) nG)
    (basis : Vector (Mat ℂ d d) nK) (g : Fin nG) (k : Fin nK) (i j : Fin d) :
    (bTvec eigvecs props basis)[g][k][i][j] = bMat eigvecs[g] props[g] basis[k] i j := by
  unfold bTvec
  rw [vec_ofFn_get, vec_ofFn_get, vec_ofFn_get, bT_entry]

theorem cmVec_get {nG nO nA nK : ℕ} (kind : MaskKind) (thr : ℝ)
    (eigvals : Mat ℝ nG d) (eigvecs props : Vector (Mat ℂ d d) nG) (omega : Vec ℝ nO)
    (basis : Vector (Mat ℂ d d) nK) (nOpers : Vector (Mat ℂ d d) nA) (nCoeffs : Mat ℝ nA nG)
    (dt t : Vec ℝ nG) (g : Fin nG) (a : Fin nA) (k : Fin nK) (o : Fin nO) :
    (cmVec kind thr eigvals eigvecs props omega basis nOpers nCoeffs dt t)[g][a][k][o]
      = segCm kind thr (fun i => eigvals[g][i]) omega[o] dt[g] t[g]
          (nMat eigvecs[g] nOpers[a] nCoeffs[a][g]) (bMat eigvecs[g] props[g] basis[k]) := by
  unfold cmVec
  rw [vec_ofFn_get, cm_single_eq_segCm]

theorem secondOrderFFFromScratch_eq {nG nO nA nK : ℕ} (kind : MaskKind) (thr : ℝ)
    (eigvals : Mat ℝ nG d) (eigvecs props : Vector (Mat ℂ d d) nG) (omega : Vec ℝ nO)
    (basis : Vector (Mat ℂ d d) nK) (nOpers : Vector (Mat ℂ d d) nA) (nCoeffs : Mat ℝ nA nG)
    (dt t : Vec ℝ nG) :
    secondOrderFFFromScratch kind thr eigvals eigvecs props omega basis nOpers nCoeffs dt t
      = secondOrderFF (Vector.ofFn fun g => secondOrderIntegral omega eigvals[g] dt[g])
          (nTvec eigvecs nOpers nCoeffs) (bTvec eigvecs props basis)
          (cmVec kind thr eigvals eigvecs props omega basis nOpers nCoeffs dt t) := rfl

/-- **Entry form of the second-order filter function (no cached intermediates).** -/
theorem F2_entry {nG nO nA nK : ℕ} (kind : MaskKind) (thr : ℝ)
    (eigvals : Mat ℝ nG d) (eigvecs props : Vector (Mat ℂ d d) nG) (omega : Vec ℝ nO)
    (basis : Vector (Mat ℂ d d) nK) (nOpers : Vector (Mat ℂ d d) nA) (nCoeffs : Mat ℝ nA nG)
    (dt t : Vec ℝ nG) (a b : Fin nA) (k l : Fin nK) (o : Fin nO) :
    (secondOrderFFFromScratch kind thr eigvals eigvecs props omega basis nOpers nCoeffs dt
        t)[a][b][k][l][o]
      = loopSum nG
          (fun g => segStep (fun i => eigvals[g][i]) omega[o] dt[g]
            (nMat eigvecs[g] nOpers[a] nCoeffs[a][g]) (nMat eigvecs[g] nOpers[b] nCoeffs[b][g])
            (bMat eigvecs[g] props[g] basis[k]) (bMat eigvecs[g] props[g] basis[l]))
          (fun g => (starRingEnd ℂ) (segCm kind thr (fun i => eigvals[g][i]) omega[o] dt[g] t[g]
            (nMat eigvecs[g] nOpers[a] nCoeffs[a][g]) (bMat eigvecs[g] props[g] basis[k])))
          (fun g => segCm kind thr (fun i => eigvals[g][i]) omega[o] dt[g] t[g]
            (nMat eigvecs[g] nOpers[b] nCoeffs[b][g]) (bMat eigvecs[g] props[g] basis[l])) := by
  rw [secondOrderFFFromScratch_eq, C10.secondOrderFF_entry]
  unfold loopSum
  refine Finset.sum_congr rfl fun g _ => ?_
  refine congrArg₂ (· + ·) ?_ ?_
  · unfold segStep
    refine Finset.sum_congr rfl fun i _ => Finset.sum_congr rfl fun j _ =>
      Finset.sum_congr rfl fun m _ => Finset.sum_congr rfl fun n _ => ?_
    rw [vec_ofFn_get, secondOrderIntegral_get, nTvec_get, nTvec_get, bTvec_get, bTvec_get]
  · rw [cmVec_get]
    refine congrArg₂ (· * ·) rfl ?_
    refine Finset.sum_congr rfl fun g' _ => ?_
    exact cmVec_get kind thr eigvals eigvecs props omega basis nOpers nCoeffs dt t
      ⟨g'.1, Nat.lt_trans g'.2 g.2⟩ b l o

/-- the "last interval" number of segment `g` for the entry `[a][b][k][l][o]` -/
noncomputable def stepOf {nG nO nA nK : ℕ} (eigvals : Mat ℝ nG d)
    (eigvecs props : Vector (Mat ℂ d d) nG) (omega : Vec ℝ nO) (basis : Vector (Mat ℂ d d) nK)
    (nOpers : Vector (Mat ℂ d d) nA) (nCoeffs : Mat ℝ nA nG) (dt : Vec ℝ nG)
    (a b : Fin nA) (k l : Fin nK) (o : Fin nO) (g : Fin nG) : ℂ :=
  segStep (fun i => eigvals[g][i]) omega[o] dt[g]
    (nMat eigvecs[g] nOpers[a] nCoeffs[a][g]) (nMat eigvecs[g] nOpers[b] nCoeffs[b][g])
    (bMat eigvecs[g] props[g] basis[k]) (bMat eigvecs[g] props[g] basis[l])

/-- the control-matrix contribution of segment `g` for the entry `[a][k][o]` -/
noncomputable def cmOf {nG nO nA nK : ℕ} (kind : MaskKind) (thr : ℝ) (eigvals : Mat ℝ nG d)
    (eigvecs props : Vector (Mat ℂ d d) nG) (omega : Vec ℝ nO) (basis : Vector (Mat ℂ d d) nK)
    (nOpers : Vector (Mat ℂ d d) nA) (nCoeffs : Mat ℝ nA nG) (dt t : Vec ℝ nG)
    (a : Fin nA) (k : Fin nK) (o : Fin nO) (g : Fin nG) : ℂ :=
  segCm kind thr (fun i => eigvals[g][i]) omega[o] dt[g] t[g]
    (nMat eigvecs[g] nOpers[a] nCoeffs[a][g]) (bMat eigvecs[g] props[g] basis[k])

/-- `F2_entry` with the per-segment numbers named -/
theorem F2_entry' {nG nO nA nK : ℕ} (kind : MaskKind) (thr : ℝ)
    (eigvals : Mat ℝ nG d) (eigvecs props : Vector (Mat ℂ d d) nG) (omega : Vec ℝ nO)
    (basis : Vector (Mat ℂ d d) nK) (nOpers : Vector (Mat ℂ d d) nA) (nCoeffs : Mat ℝ nA nG)
    (dt t : Vec ℝ nG) (a b : Fin nA) (k l : Fin nK) (o : Fin nO) :
    (secondOrderFFFromScratch kind thr eigvals eigvecs props omega basis nOpers nCoeffs dt
        t)[a][b][k][l][o]
      = loopSum nG (stepOf eigvals eigvecs props omega basis nOpers nCoeffs dt a b k l o)
          (fun g => (starRingEnd ℂ)
            (cmOf kind thr eigvals eigvecs props omega basis nOpers nCoeffs dt t a k o g))
          (cmOf kind thr eigvals eigvecs props omega basis nOpers nCoeffs dt t b l o) :=
  F2_entry kind thr eigvals eigvecs props omega basis nOpers nCoeffs dt t a b k l o

/-! ### the per-segment numbers at duration zero -/

theorem secondOrderEntry_zero_dt (E Oij Omn : ℝ) : (secondOrderEntry E Oij Omn 0 : ℂ) = 0 := by
  rw [C10.secondOrderEntry_eq_nested, C10.nested_eq_nested2, nested2_zero_dt]

theorem segStep_zero_dt (ev : Fin d → ℝ) (ω : ℝ) (Na Nb Tk Tl : Matrix (Fin d) (Fin d) ℂ) :
    segStep ev ω 0 Na Nb Tk Tl = 0 := by
  unfold segStep
  simp only [secondOrderEntry_zero_dt, zero_mul, Finset.sum_const_zero]

theorem segCm_zero_dt (kind : MaskKind) (thr : ℝ) (ev : Fin d → ℝ) (ω t : ℝ)
    (N T : Matrix (Fin d) (Fin d) ℂ) : segCm kind thr ev ω 0 t N T = 0 := by
  unfold segCm
  simp only [C01.firstOrderEntry_zero_dt, mul_zero, zero_mul, Finset.sum_const_zero]

/-! ### change of the time unit -/

theorem secondOrderEntry_scale' (E Oij Omn dt lam : ℝ) (hl : lam ≠ 0) :
    (secondOrderEntry (E / lam) (Oij / lam) (Omn / lam) (lam * dt) : ℂ)
      = (lam : ℂ) ^ 2 * secondOrderEntry E Oij Omn dt := by
  rw [C10.secondOrderEntry_eq_nested, C10.secondOrderEntry_eq_nested, C10.nested_eq_nested2,
    C10.nested_eq_nested2, ← nested2_scale _ _ _ _ hl]
  congr 1 <;> ring

theorem segStep_scale (ev : Fin d → ℝ) (ω dt lam : ℝ) (hl : lam ≠ 0)
    (Na Nb Tk Tl : Matrix (Fin d) (Fin d) ℂ) :
    segStep (fun i => ev i / lam) (ω / lam) (lam * dt) Na Nb Tk Tl
      = (lam : ℂ) ^ 2 * segStep ev ω dt Na Nb Tk Tl := by
  unfold segStep
  simp only [Finset.mul_sum]
  refine Finset.sum_congr rfl fun i _ => Finset.sum_congr rfl fun j _ =>
    Finset.sum_congr rfl fun m _ => Finset.sum_congr rfl fun n _ => ?_
  rw [← sub_div, ← sub_div, secondOrderEntry_scale' _ _ _ _ _ hl]
  ring

theorem segCm_scale (kind : MaskKind) (thr : ℝ) (ev : Fin d → ℝ) (ω dt t lam : ℝ)
    (N T : Matrix (Fin d) (Fin d) ℂ)
    (hI : ∀ x : ℝ, (firstOrderEntry kind thr (x / lam) (lam * dt) : ℂ)
      = (lam : ℂ) * firstOrderEntry kind thr x dt) (hl : lam ≠ 0) :
    segCm kind thr (fun i => ev i / lam) (ω / lam) (lam * dt) (lam * t) N T
      = (lam : ℂ) * segCm kind thr ev ω dt t N T := by
  unfold segCm
  simp only [Finset.mul_sum]
  refine Finset.sum_congr rfl fun m _ => Finset.sum_congr rfl fun n _ => ?_
  have hx : ω / lam + (ev m / lam - ev n / lam) = (ω + (ev m - ev n)) / lam := by ring
  have hp : ω / lam * (lam * t) = ω * t := by field_simp
  rw [hx, hI, hp]
  ring

end FFVerif.SecondOrderInv
