/-
Helper vocabulary and lemmas for C05 (`extend`) and C06 (`remap`): Kronecker products and
re-indexing of Mathlib matrices over arbitrary finite index types.

* `IsEighG`, `segPropG`, `liouG` are the index-type-generic forms of `C02.IsEigh`, `C02.segProp`,
  `Spec.liou` (they coincide definitionally on `Fin d`, see `isEigh_iff`, `segProp_eq`, `liou_eq`).
* `kronFin A B` is `util.tensor(A, B)`: the Kronecker product flattened row-major with
  `finProdFinEquiv` (`(i, j) ↦ i * d₂ + j`).
* `cumProp P g = P_{g-1} ⋯ P_1 P_0` : cumulative propagators of a list of segment propagators.
-/
import Mathlib.LinearAlgebra.Matrix.Kronecker
import Mathlib.LinearAlgebra.Matrix.Reindex
import Mathlib.LinearAlgebra.Matrix.Trace
import Mathlib.LinearAlgebra.Matrix.ConjTranspose
import Mathlib.Analysis.SpecialFunctions.Exponential
import Mathlib.Logic.Equiv.Fin.Basic
import Mathlib.Data.List.Sort
import Mathlib.Algebra.BigOperators.Fin
import FFVerif.Props.C02
import FFVerif.Props.C01Seg
import FFVerif.Lemmas.LiouvilleAux
import FFVerif.Lemmas.TensorAux
import Mathlib.Data.List.Basic
import FFVerif.Spec.Basis

namespace FFVerif.KronAux
open Matrix Complex
open scoped Kronecker

/-! ### generic index types -/

section generic
variable {ι κ : Type*} [Fintype ι] [DecidableEq ι] [Fintype κ] [DecidableEq κ]

/-- contract of `eigh` over an arbitrary finite index type: `H V = V diag(D)`, `V` unitary. -/
structure IsEighG (H : Matrix ι ι ℂ) (D : ι → ℝ) (V : Matrix ι ι ℂ) : Prop where
  eig : H * V = V * diagonal (fun i => (D i : ℂ))
  left : Vᴴ * V = 1
  right : V * Vᴴ = 1

/-- `P(s) = V diag(e^{-i s λ}) V†` over an arbitrary finite index type. -/
noncomputable def segPropG (D : ι → ℝ) (V : Matrix ι ι ℂ) (s : ℝ) : Matrix ι ι ℂ :=
  V * diagonal (fun j => Complex.exp (-(I * ((s : ℂ) * (D j : ℂ))))) * Vᴴ

/-- Liouville representation `tr(C_i U C_j U†)` over arbitrary finite index types. -/
noncomputable def liouG {α : Type*} (C : α → Matrix ι ι ℂ) (U : Matrix ι ι ℂ) (i j : α) : ℂ :=
  Matrix.trace (C i * U * C j * Uᴴ)

/-- cumulative propagators `Q_0 = 1`, `Q_{g+1} = P_g Q_g` -/
def cumProp (P : ℕ → Matrix ι ι ℂ) : ℕ → Matrix ι ι ℂ
  | 0 => 1
  | g + 1 => P g * cumProp P g

omit [DecidableEq ι] [DecidableEq κ] in
theorem trace_reindex (e : ι ≃ κ) (M : Matrix ι ι ℂ) :
    Matrix.trace (Matrix.reindex e e M) = Matrix.trace M := by
  simp only [Matrix.trace, Matrix.diag_apply, Matrix.reindex_apply, Matrix.submatrix_apply]
  exact e.symm.sum_comp fun i => M i i

omit [DecidableEq ι] [DecidableEq κ] in
theorem reindex_mul (e : ι ≃ κ) (M N : Matrix ι ι ℂ) :
    Matrix.reindex e e (M * N) = Matrix.reindex e e M * Matrix.reindex e e N := by
  simp only [Matrix.reindex_apply, Matrix.submatrix_mul_equiv]

omit [Fintype ι] [Fintype κ] in
theorem reindex_one (e : ι ≃ κ) : Matrix.reindex e e (1 : Matrix ι ι ℂ) = 1 := by
  simp only [Matrix.reindex_apply, Matrix.submatrix_one_equiv]

omit [Fintype ι] [Fintype κ] in
theorem reindex_diagonal (e : ι ≃ κ) (a : ι → ℂ) :
    Matrix.reindex e e (diagonal a) = diagonal (a ∘ e.symm) := by
  simp only [Matrix.reindex_apply, Matrix.submatrix_diagonal_equiv]

omit [Fintype ι] [DecidableEq ι] [Fintype κ] [DecidableEq κ] in
theorem reindex_conjTranspose (e : ι ≃ κ) (M : Matrix ι ι ℂ) :
    (Matrix.reindex e e M)ᴴ = Matrix.reindex e e Mᴴ :=
  (Matrix.conjTranspose_reindex e e M).symm

end generic

theorem isEigh_iff {d : ℕ} (H : Matrix (Fin d) (Fin d) ℂ) (D : Fin d → ℝ)
    (V : Matrix (Fin d) (Fin d) ℂ) : C02.IsEigh H D V ↔ IsEighG H D V :=
  ⟨fun h => ⟨h.eig, h.left, h.right⟩, fun h => ⟨h.eig, h.left, h.right⟩⟩

theorem segProp_eq {d : ℕ} (D : Fin d → ℝ) (V : Matrix (Fin d) (Fin d) ℂ) (s : ℝ) :
    C02.segProp D V s = segPropG D V s := rfl

theorem liou_eq {N d : ℕ} (C : Fin N → Matrix (Fin d) (Fin d) ℂ) (U : Matrix (Fin d) (Fin d) ℂ)
    (i j : Fin N) : Spec.liou C U i j = liouG C U i j := rfl

/-! ### re-indexing carries the eigen-decomposition and the propagators -/

section reindex
variable {ι κ : Type*} [Fintype ι] [DecidableEq ι] [Fintype κ] [DecidableEq κ]

theorem IsEighG.reindex {H : Matrix ι ι ℂ} {D : ι → ℝ} {V : Matrix ι ι ℂ} (h : IsEighG H D V)
    (e : ι ≃ κ) :
    IsEighG (Matrix.reindex e e H) (D ∘ e.symm) (Matrix.reindex e e V) := by
  refine ⟨?_, ?_, ?_⟩
  · rw [← reindex_mul, h.eig, reindex_mul, reindex_diagonal]
    rfl
  · rw [reindex_conjTranspose, ← reindex_mul, h.left, reindex_one]
  · rw [reindex_conjTranspose, ← reindex_mul, h.right, reindex_one]

theorem segPropG_reindex (e : ι ≃ κ) (D : ι → ℝ) (V : Matrix ι ι ℂ) (s : ℝ) :
    segPropG (D ∘ e.symm) (Matrix.reindex e e V) s = Matrix.reindex e e (segPropG D V s) := by
  unfold segPropG
  rw [reindex_mul, reindex_mul, reindex_diagonal, reindex_conjTranspose]
  rfl

theorem cumProp_reindex (e : ι ≃ κ) (P : ℕ → Matrix ι ι ℂ) (g : ℕ) :
    cumProp (fun l => Matrix.reindex e e (P l)) g = Matrix.reindex e e (cumProp P g) := by
  induction g with
  | zero => simp only [cumProp, reindex_one]
  | succ g ih => simp only [cumProp, ih, reindex_mul]

end reindex

/-! ### Kronecker products -/

section kron
variable {ι κ : Type*} [Fintype ι] [DecidableEq ι] [Fintype κ] [DecidableEq κ]

/-- eigenvalues of `H₁ ⊗ 1 + 1 ⊗ H₂`: `tensor(eigvals₁, ones) + tensor(ones, eigvals₂)` -/
def kronSum (D₁ : ι → ℝ) (D₂ : κ → ℝ) : ι × κ → ℝ := fun p => D₁ p.1 + D₂ p.2

omit [Fintype ι] [Fintype κ] in
theorem diagonal_kronSum (D₁ : ι → ℝ) (D₂ : κ → ℝ) :
    (diagonal fun p : ι × κ => ((kronSum D₁ D₂ p : ℝ) : ℂ))
      = diagonal (fun i => (D₁ i : ℂ)) ⊗ₖ (1 : Matrix κ κ ℂ)
        + (1 : Matrix ι ι ℂ) ⊗ₖ diagonal (fun j => (D₂ j : ℂ)) := by
  rw [← diagonal_one (n := κ), ← diagonal_one (n := ι), diagonal_kronecker_diagonal,
    diagonal_kronecker_diagonal, diagonal_add]
  congr 1
  funext p
  simp only [kronSum, Complex.ofReal_add, mul_one, one_mul]

theorem kron_isEighG {H₁ : Matrix ι ι ℂ} {D₁ : ι → ℝ} {V₁ : Matrix ι ι ℂ}
    {H₂ : Matrix κ κ ℂ} {D₂ : κ → ℝ} {V₂ : Matrix κ κ ℂ}
    (h₁ : IsEighG H₁ D₁ V₁) (h₂ : IsEighG H₂ D₂ V₂) :
    IsEighG (H₁ ⊗ₖ (1 : Matrix κ κ ℂ) + (1 : Matrix ι ι ℂ) ⊗ₖ H₂) (kronSum D₁ D₂) (V₁ ⊗ₖ V₂) := by
  refine ⟨?_, ?_, ?_⟩
  · rw [diagonal_kronSum, Matrix.add_mul, Matrix.mul_add, ← mul_kronecker_mul,
      ← mul_kronecker_mul, ← mul_kronecker_mul, ← mul_kronecker_mul, h₁.eig, h₂.eig,
      Matrix.one_mul, Matrix.one_mul, Matrix.mul_one, Matrix.mul_one]
  · rw [conjTranspose_kronecker, ← mul_kronecker_mul, h₁.left, h₂.left, one_kronecker_one]
  · rw [conjTranspose_kronecker, ← mul_kronecker_mul, h₁.right, h₂.right, one_kronecker_one]

theorem kron_segPropG (D₁ : ι → ℝ) (V₁ : Matrix ι ι ℂ) (D₂ : κ → ℝ) (V₂ : Matrix κ κ ℂ) (s : ℝ) :
    segPropG (kronSum D₁ D₂) (V₁ ⊗ₖ V₂) s = segPropG D₁ V₁ s ⊗ₖ segPropG D₂ V₂ s := by
  unfold segPropG
  rw [mul_kronecker_mul, mul_kronecker_mul, diagonal_kronecker_diagonal, conjTranspose_kronecker]
  congr 3
  funext p
  rw [← Complex.exp_add]
  congr 1
  simp only [kronSum, Complex.ofReal_add]
  ring

theorem kron_cumProp (P₁ : ℕ → Matrix ι ι ℂ) (P₂ : ℕ → Matrix κ κ ℂ) (g : ℕ) :
    cumProp (fun l => P₁ l ⊗ₖ P₂ l) g = cumProp P₁ g ⊗ₖ cumProp P₂ g := by
  induction g with
  | zero => simp only [cumProp, one_kronecker_one]
  | succ g ih => simp only [cumProp, ih, mul_kronecker_mul]

omit [Fintype ι] [DecidableEq ι] [Fintype κ] [DecidableEq κ] in
/-- swapping the two tensor factors: `(A ⊗ B)` re-indexed by `(i, j) ↦ (j, i)` is `B ⊗ A`. -/
theorem swap_kron (A : Matrix ι ι ℂ) (B : Matrix κ κ ℂ) :
    Matrix.reindex (Equiv.prodComm ι κ) (Equiv.prodComm ι κ) (A ⊗ₖ B) = B ⊗ₖ A := by
  ext ⟨j, i⟩ ⟨l, k⟩
  simp only [Matrix.reindex_apply, Matrix.submatrix_apply, Equiv.prodComm_symm,
    Equiv.prodComm_apply, Prod.swap_prod_mk, kronecker_apply, mul_comm]

omit [DecidableEq ι] [DecidableEq κ] in
/-- trace of a conjugated product operator against a product basis element factorises. -/
theorem trace_kron_conj (U₁ B₁ C₁ : Matrix ι ι ℂ) (U₂ B₂ C₂ : Matrix κ κ ℂ) :
    Matrix.trace ((U₁ ⊗ₖ U₂)ᴴ * (B₁ ⊗ₖ B₂) * (U₁ ⊗ₖ U₂) * (C₁ ⊗ₖ C₂))
      = Matrix.trace (U₁ᴴ * B₁ * U₁ * C₁) * Matrix.trace (U₂ᴴ * B₂ * U₂ * C₂) := by
  rw [conjTranspose_kronecker, ← mul_kronecker_mul, ← mul_kronecker_mul, ← mul_kronecker_mul,
    trace_kronecker]

end kron

/-! ### flattened (row-major) Kronecker product = `util.tensor` -/

section fin
variable {d₁ d₂ : ℕ}

/-- `util.tensor(A, B)` : the Kronecker product with rows/columns flattened row-major,
`(i, j) ↦ i * d₂ + j`. -/
def kronFin (A : Matrix (Fin d₁) (Fin d₁) ℂ) (B : Matrix (Fin d₂) (Fin d₂) ℂ) :
    Matrix (Fin (d₁ * d₂)) (Fin (d₁ * d₂)) ℂ :=
  Matrix.reindex finProdFinEquiv finProdFinEquiv (A ⊗ₖ B)

/-- `tensor(x, y, rank=1)` for real vectors combined with `+` (the eigenvalue bookkeeping of
`extend`): entry `i * d₂ + j` is `x_i + y_j`. -/
def kronSumFin (D₁ : Fin d₁ → ℝ) (D₂ : Fin d₂ → ℝ) : Fin (d₁ * d₂) → ℝ :=
  kronSum D₁ D₂ ∘ finProdFinEquiv.symm

theorem kronFin_apply (A : Matrix (Fin d₁) (Fin d₁) ℂ) (B : Matrix (Fin d₂) (Fin d₂) ℂ)
    (i k : Fin d₁) (j l : Fin d₂) :
    kronFin A B (finProdFinEquiv (i, j)) (finProdFinEquiv (k, l)) = A i k * B j l := by
  simp only [kronFin, Matrix.reindex_apply, Matrix.submatrix_apply, Equiv.symm_apply_apply,
    kronecker_apply]

theorem kronSumFin_apply (D₁ : Fin d₁ → ℝ) (D₂ : Fin d₂ → ℝ) (i : Fin d₁) (j : Fin d₂) :
    kronSumFin D₁ D₂ (finProdFinEquiv (i, j)) = D₁ i + D₂ j := by
  simp only [kronSumFin, Function.comp_apply, Equiv.symm_apply_apply, kronSum]

theorem kronFin_mul (A A' : Matrix (Fin d₁) (Fin d₁) ℂ) (B B' : Matrix (Fin d₂) (Fin d₂) ℂ) :
    kronFin A B * kronFin A' B' = kronFin (A * A') (B * B') := by
  unfold kronFin
  rw [← reindex_mul, ← mul_kronecker_mul]

theorem kronFin_one : kronFin (1 : Matrix (Fin d₁) (Fin d₁) ℂ) (1 : Matrix (Fin d₂) (Fin d₂) ℂ) = 1 := by
  unfold kronFin
  rw [one_kronecker_one, reindex_one]

theorem kronFin_conjTranspose (A : Matrix (Fin d₁) (Fin d₁) ℂ) (B : Matrix (Fin d₂) (Fin d₂) ℂ) :
    (kronFin A B)ᴴ = kronFin Aᴴ Bᴴ := by
  unfold kronFin
  rw [reindex_conjTranspose, conjTranspose_kronecker]

theorem trace_kronFin (A : Matrix (Fin d₁) (Fin d₁) ℂ) (B : Matrix (Fin d₂) (Fin d₂) ℂ) :
    Matrix.trace (kronFin A B) = Matrix.trace A * Matrix.trace B := by
  unfold kronFin
  rw [trace_reindex, trace_kronecker]

theorem kronFin_add_left (A A' : Matrix (Fin d₁) (Fin d₁) ℂ) (B : Matrix (Fin d₂) (Fin d₂) ℂ) :
    kronFin (A + A') B = kronFin A B + kronFin A' B := by
  unfold kronFin
  rw [add_kronecker]
  rfl

theorem kronFin_smul_left (c : ℂ) (A : Matrix (Fin d₁) (Fin d₁) ℂ) (B : Matrix (Fin d₂) (Fin d₂) ℂ) :
    kronFin (c • A) B = c • kronFin A B := by
  unfold kronFin
  rw [smul_kronecker]
  rfl

theorem kronFin_smul_right (c : ℂ) (A : Matrix (Fin d₁) (Fin d₁) ℂ) (B : Matrix (Fin d₂) (Fin d₂) ℂ) :
    kronFin A (c • B) = c • kronFin A B := by
  unfold kronFin
  rw [kronecker_smul]
  rfl

/-- sums over the flattened index are double sums -/
theorem sum_finProd {M : Type*} [AddCommMonoid M] (f : Fin (d₁ * d₂) → M) :
    ∑ r, f r = ∑ i : Fin d₁, ∑ j : Fin d₂, f (finProdFinEquiv (i, j)) := by
  rw [← (finProdFinEquiv (m := d₁) (n := d₂)).sum_comp, Fintype.sum_prod_type]

end fin

/-! ### the in-segment propagator `C01.Useg` -/

section useg
variable {d₁ d₂ : ℕ}

theorem Useg_eq {d : ℕ} (lam : Fin d → ℝ) (V Q : Matrix (Fin d) (Fin d) ℂ) (s : ℝ) :
    C01.Useg lam V Q s = C02.segProp lam V s * Q := by
  unfold C01.Useg C02.segProp
  congr 4
  funext m
  rw [mul_comm ((lam m : ℝ) : ℂ)]

/-- the in-segment propagator of the register pulse is the Kronecker product of the factors' -/
theorem Useg_kronFin (l₁ : Fin d₁ → ℝ) (V₁ Q₁ : Matrix (Fin d₁) (Fin d₁) ℂ) (l₂ : Fin d₂ → ℝ)
    (V₂ Q₂ : Matrix (Fin d₂) (Fin d₂) ℂ) (s : ℝ) :
    C01.Useg (kronSumFin l₁ l₂) (kronFin V₁ V₂) (kronFin Q₁ Q₂) s
      = kronFin (C01.Useg l₁ V₁ Q₁ s) (C01.Useg l₂ V₂ Q₂ s) := by
  rw [Useg_eq, Useg_eq, Useg_eq, segProp_eq, segProp_eq, segProp_eq, ← kronFin_mul]
  congr 1
  unfold kronSumFin kronFin
  rw [segPropG_reindex, kron_segPropG]

theorem Useg_unitary {d : ℕ} (lam : Fin d → ℝ) (V Q : Matrix (Fin d) (Fin d) ℂ) (s : ℝ)
    (hV : Vᴴ * V = 1) (hQ : Qᴴ * Q = 1) : (C01.Useg lam V Q s)ᴴ * C01.Useg lam V Q s = 1 := by
  rw [Useg_eq, Matrix.conjTranspose_mul, Matrix.mul_assoc, ← Matrix.mul_assoc _ _ Q,
    (C02.segProp_unitary lam V hV s).1, Matrix.one_mul, hQ]

end useg

/-! ### the triple sum of `C01.cm_entry` for Kronecker-product data -/

/-- the `m, n` double sum of one segment of `calculate_control_matrix_from_scratch`, for a
transformed noise operator `X ⊗ 1`, eigenvalues `λ¹_i + λ²_j` and transformed basis element
`Y₁ ⊗ Y₂`, collapses to `tr(Y₂)` times the double sum of the first factor — for an arbitrary
function `f` of the frequency argument (exact or truncated segment integral). -/
theorem cm_sum_kron {d₁ d₂ : ℕ} (c s : ℂ) (X Y₁ : Matrix (Fin d₁) (Fin d₁) ℂ)
    (Y₂ : Matrix (Fin d₂) (Fin d₂) ℂ) (f : ℝ → ℂ) (l₁ : Fin d₁ → ℝ) (l₂ : Fin d₂ → ℝ) (ω : ℝ) :
    ∑ m : Fin (d₁ * d₂), ∑ n : Fin (d₁ * d₂),
        c * (s * kronFin X 1 m n) * f (ω + (kronSumFin l₁ l₂ m - kronSumFin l₁ l₂ n))
          * kronFin Y₁ Y₂ n m
      = Matrix.trace Y₂ * ∑ m₁, ∑ n₁, c * (s * X m₁ n₁) * f (ω + (l₁ m₁ - l₁ n₁)) * Y₁ n₁ m₁ := by
  simp only [sum_finProd (d₁ := d₁) (d₂ := d₂), kronFin_apply, kronSumFin_apply, Matrix.one_apply,
    Finset.mul_sum]
  refine Finset.sum_congr rfl fun m₁ _ => ?_
  rw [Finset.sum_comm]
  refine Finset.sum_congr rfl fun n₁ _ => ?_
  simp only [mul_ite, ite_mul, mul_one, mul_zero, zero_mul, Finset.sum_ite_eq, Finset.mem_univ,
    if_true, add_sub_add_right_eq_sub]
  rw [Matrix.trace, Finset.sum_mul]
  refine Finset.sum_congr rfl fun m₂ _ => ?_
  rw [Matrix.diag_apply]
  ring

/-! ### flattened indices of the model (`Fin.flat`) -/

theorem flat_eq_finProd {m n : ℕ} (i : Fin m) (j : Fin n) :
    Fin.flat i j = finProdFinEquiv (i, j) := by
  apply Fin.ext
  simp only [Fin.flat, finProdFinEquiv_apply_val]
  rw [Nat.mul_comm, Nat.add_comm]

theorem finProd_symm_eq {m n : ℕ} (r : Fin (m * n)) :
    finProdFinEquiv.symm r = (Fin.hi r, Fin.lo r) := by
  rw [Equiv.symm_apply_eq, ← flat_eq_finProd, FFVerif.Fin.flat_hi_lo]

/-! ### trace of the elements of an orthonormal family containing a multiple of the identity -/

theorem trace_of_ortho_identity {κ β : Type*} [Fintype κ] [DecidableEq κ] [DecidableEq β]
    (C : β → Matrix κ κ ℂ) (z : β) (c : ℂ) (hz : C z = c • (1 : Matrix κ κ ℂ))
    (ortho : ∀ l, Matrix.trace (C z * C l) = if z = l then 1 else 0) (l : β) :
    Matrix.trace (C l) = if l = z then c⁻¹ else 0 := by
  have key : ∀ l, c * Matrix.trace (C l) = if z = l then 1 else 0 := by
    intro l
    have h := ortho l
    rwa [hz, Matrix.smul_mul, Matrix.one_mul, Matrix.trace_smul, smul_eq_mul] at h
  have hc : c ≠ 0 := by
    have h := key z
    rw [if_pos rfl] at h
    exact left_ne_zero_of_mul_eq_one h
  have h := key l
  by_cases hl : l = z
  · rw [if_pos hl]
    rw [if_pos hl.symm] at h
    field_simp
    rw [mul_comm]; exact h
  · rw [if_neg hl]
    rw [if_neg (fun h' => hl h'.symm)] at h
    rcases mul_eq_zero.mp h with h0 | h0
    · exact absurd h0 hc
    · exact h0

/-! ### re-indexed data in the triple sum of `C01.cm_entry` -/

theorem cm_sum_reindex {d d' : ℕ} (e : Fin d ≃ Fin d') (c s : ℂ) (X Y : Matrix (Fin d) (Fin d) ℂ)
    (f : ℝ → ℂ) (D : Fin d → ℝ) (ω : ℝ) :
    ∑ m : Fin d', ∑ n : Fin d',
        c * (s * Matrix.reindex e e X m n) * f (ω + ((D ∘ e.symm) m - (D ∘ e.symm) n))
          * Matrix.reindex e e Y n m
      = ∑ m : Fin d, ∑ n : Fin d, c * (s * X m n) * f (ω + (D m - D n)) * Y n m := by
  refine Fintype.sum_equiv e.symm _ _ fun m => ?_
  refine Fintype.sum_equiv e.symm _ _ fun n => ?_
  rfl

/-! ### `n` tensor factors: Kronecker products over tuple indices -/

section pi
variable {n : ℕ} {ι : Type*}

/-- `A_0 ⊗ A_1 ⊗ ⋯ ⊗ A_{n-1}` indexed by tuples `x : Fin n → ι` (digit `x i` belongs to factor
`i`; the row-major flattening of the tuple is the NumPy index). -/
def piKron (A : Fin n → Matrix ι ι ℂ) : Matrix (Fin n → ι) (Fin n → ι) ℂ :=
  fun x y => ∏ i, A i (x i) (y i)

/-- the index permutation of `tensor_transpose(·, order = σ)`: the tuple `x` is sent to
`x ∘ σ` (new digit `j` is the old digit `σ j`). -/
def tposeEquiv (σ : Equiv.Perm (Fin n)) : (Fin n → ι) ≃ (Fin n → ι) :=
  Equiv.arrowCongr σ.symm (Equiv.refl ι)

theorem tposeEquiv_apply (σ : Equiv.Perm (Fin n)) (x : Fin n → ι) :
    tposeEquiv σ x = x ∘ σ := by
  funext j
  simp [tposeEquiv, Equiv.arrowCongr]

theorem tposeEquiv_symm_apply (σ : Equiv.Perm (Fin n)) (x : Fin n → ι) :
    (tposeEquiv σ).symm x = x ∘ σ.symm := by
  funext j
  simp [tposeEquiv, Equiv.arrowCongr]

theorem tposeEquiv_one : tposeEquiv (1 : Equiv.Perm (Fin n)) = Equiv.refl (Fin n → ι) := by
  ext x j
  rw [tposeEquiv_apply]
  rfl

theorem tposeEquiv_mul (σ τ : Equiv.Perm (Fin n)) :
    (tposeEquiv σ).trans (tposeEquiv τ) = (tposeEquiv (σ * τ) : (Fin n → ι) ≃ (Fin n → ι)) := by
  ext x j
  rw [Equiv.trans_apply, tposeEquiv_apply, tposeEquiv_apply, tposeEquiv_apply]
  rfl

theorem piKron_comp_perm (A : Fin n → Matrix ι ι ℂ) (σ : Equiv.Perm (Fin n)) :
    piKron (A ∘ σ) = Matrix.reindex (tposeEquiv σ) (tposeEquiv σ) (piKron A) := by
  ext x y
  simp only [piKron, Matrix.reindex_apply, Matrix.submatrix_apply, tposeEquiv_symm_apply,
    Function.comp_apply]
  exact Fintype.prod_equiv σ _ _ fun j => by simp

/-- for two factors the tuple-indexed product is the Kronecker product `A_0 ⊗ₖ A_1` -/
theorem piKron_two (A : Fin 2 → Matrix ι ι ℂ) :
    Matrix.reindex (piFinTwoEquiv fun _ => ι) (piFinTwoEquiv fun _ => ι) (piKron A)
      = A 0 ⊗ₖ A 1 := by
  ext ⟨i, j⟩ ⟨k, l⟩
  simp [piKron, Fin.prod_univ_two, piFinTwoEquiv]

end pi

/-! ### `argsort` on lists -/

section argsort
variable {α : Type*} [LinearOrder α]

/-- `np.argsort(l)`: the indices `0..len-1` sorted by their keys (merge sort, stable; for pairwise
distinct keys every sorting algorithm returns the same list). -/
def argsort (l : List α) : List ℕ :=
  (l.zipIdx.mergeSort fun a b => decide (a.1 ≤ b.1)).map Prod.snd

theorem argsort_perm (l : List α) : (argsort l).Perm (List.range l.length) := by
  unfold argsort
  have h := (List.mergeSort_perm l.zipIdx fun a b => decide (a.1 ≤ b.1)).map Prod.snd
  rw [List.zipIdx_map_snd] at h
  rwa [List.range_eq_range']

theorem argsort_length (l : List α) : (argsort l).length = l.length := by
  rw [(argsort_perm l).length_eq, List.length_range]

/-- the keys read in `argsort` order are sorted -/
theorem argsort_keys_pairwise (l : List α) :
    ((l.zipIdx.mergeSort fun a b => decide (a.1 ≤ b.1)).map Prod.fst).Pairwise (· ≤ ·) := by
  rw [List.pairwise_map]
  have h := List.pairwise_mergeSort (le := fun a b : α × ℕ => decide (a.1 ≤ b.1))
    (fun a b c hab hbc => by
      simp only [decide_eq_true_eq] at hab hbc ⊢; exact le_trans hab hbc)
    (fun a b => by
      simp only [Bool.or_eq_true, decide_eq_true_eq]; exact le_total _ _) l.zipIdx
  exact h.imp fun hab => by simpa using hab

end argsort

/-- **`argsort` of a permutation of `0..n-1` is its inverse**: position `p` of `argsort s` holds the
index `i` with `s[i] = p`. -/
theorem argsort_inverse (s : List ℕ) (n : ℕ) (hs : s.Perm (List.range n)) (p : ℕ) (hp : p < n) :
    ∃ i, (argsort s)[p]? = some i ∧ s[i]? = some p := by
  let S := s.zipIdx.mergeSort fun a b => decide (a.1 ≤ b.1)
  have hperm : S.Perm s.zipIdx := List.mergeSort_perm _ _
  have hfst : S.map Prod.fst = List.range n := by
    refine List.Perm.eq_of_pairwise' (r := (· ≤ ·)) (argsort_keys_pairwise s)
      (List.pairwise_lt_range.imp le_of_lt) ?_
    have h := hperm.map Prod.fst
    rw [List.zipIdx_map_fst] at h
    exact h.trans hs
  have hlen : S.length = n := by
    have := congrArg List.length hfst
    simpa using this
  have hpS : p < S.length := hlen ▸ hp
  have hkey : (S[p]).1 = p := by
    have h := congrArg (fun l => l[p]?) hfst
    simp only [List.getElem?_map, List.getElem?_eq_getElem hpS, Option.map_some,
      List.getElem?_range hp] at h
    exact Option.some.inj h
  have hmem : S[p] ∈ s.zipIdx := hperm.subset (List.getElem_mem hpS)
  rw [List.mem_zipIdx_iff_getElem?] at hmem
  refine ⟨(S[p]).2, ?_, ?_⟩
  · show (S.map Prod.snd)[p]? = _
    rw [List.getElem?_map, List.getElem?_eq_getElem hpS, Option.map_some]
  · rw [hmem, hkey]

/-- conversely, the entry `s[j]` of a permutation is sent back to `j` by `argsort s` -/
theorem argsort_apply_perm (s : List ℕ) (n : ℕ) (hs : s.Perm (List.range n)) (j : ℕ) (hj : j < n) :
    ∃ a, s[j]? = some a ∧ (argsort s)[a]? = some j := by
  have hlen : s.length = n := by rw [hs.length_eq, List.length_range]
  have hjs : j < s.length := hlen ▸ hj
  have ha : s[j] < n := by
    have := hs.subset (List.getElem_mem hjs)
    simpa using this
  obtain ⟨i, hi1, hi2⟩ := argsort_inverse s n hs s[j] ha
  refine ⟨s[j], List.getElem?_eq_getElem hjs, ?_⟩
  have his : i < s.length := by
    by_contra hcon
    rw [List.getElem?_eq_none (Nat.le_of_not_lt hcon)] at hi2
    exact absurd hi2 (by simp)
  rw [List.getElem?_eq_getElem his] at hi2
  have hnd : s.Nodup := hs.nodup_iff.mpr List.nodup_range
  have : i = j := (List.Nodup.getElem_inj_iff hnd).mp (Option.some.inj hi2)
  rw [hi1, this]

/-- `argsort` of the value list of a permutation of `Fin n` is the value list of the inverse -/
theorem argsort_ofFn_perm {n : ℕ} (s : Equiv.Perm (Fin n)) :
    argsort (List.ofFn fun j => (s j).1) = List.ofFn fun a => (s.symm a).1 := by
  have hs : (List.ofFn fun j => (s j).1).Perm (List.range n) := by
    have h1 : (List.ofFn fun j => (s j).1) = (List.ofFn s).map Fin.val := by
      rw [List.map_ofFn]; rfl
    rw [h1, ← List.map_coe_finRange_eq_range]
    refine List.Perm.map _ ?_
    rw [List.perm_ext_iff_of_nodup ((List.nodup_ofFn).mpr s.injective) (List.nodup_finRange n)]
    intro a
    simp only [List.mem_ofFn, List.mem_finRange, iff_true]
    exact ⟨s.symm a, by simp⟩
  apply List.ext_getElem?
  intro a
  by_cases ha : a < n
  · obtain ⟨x, hx1, hx2⟩ := argsort_apply_perm _ n hs (s.symm ⟨a, ha⟩).1 (s.symm ⟨a, ha⟩).2
    rw [List.getElem?_ofFn] at hx1
    simp only [Fin.is_lt, dite_true, Fin.eta, Equiv.apply_symm_apply, Option.some.injEq] at hx1
    rw [← hx1] at hx2
    rw [hx2, List.getElem?_ofFn]
    simp [ha]
  · have h1 : (argsort (List.ofFn fun j => (s j).1)).length ≤ a := by
      rw [argsort_length, List.length_ofFn]; omega
    have h2 : (List.ofFn fun b => (s.symm b).1).length ≤ a := by
      rw [List.length_ofFn]; omega
    rw [List.getElem?_eq_none h1, List.getElem?_eq_none h2]

/-- the `eigh` contract holds trivially for a real diagonal Hamiltonian with `V = 1` -/
theorem isEigh_diagonal {d : ℕ} (D : Fin d → ℝ) :
    C02.IsEigh (Matrix.diagonal fun i => (D i : ℂ)) D 1 :=
  ⟨by rw [Matrix.mul_one, Matrix.one_mul], by rw [Matrix.conjTranspose_one, Matrix.one_mul],
    by rw [Matrix.conjTranspose_one, Matrix.one_mul]⟩

/-! ### digit lists of `equivalent_pauli_basis_elements` for a leading / trailing sub-register -/

section pauliIdx
open FFVerif.Model.Tensor FFVerif.TensorAux

theorem encode_zeros (n d : ℕ) :
    mixedRadixEncode (List.replicate n d) (List.replicate n 0) = 0 := by
  induction n with
  | zero => rfl
  | succ n ih => simp [List.replicate_succ, mixedRadixEncode, ih]

theorem scatterAt_range (n₁ n₂ : ℕ) (ds : List ℕ) (h : ds.length = n₁) :
    scatterAt (n₁ + n₂) (List.range n₁) ds = ds ++ List.replicate n₂ 0 := by
  unfold scatterAt
  rw [List.range_add, List.map_append, List.map_map]
  congr 1
  · apply List.ext_getElem
    · simp [h]
    · intro i h1 h2
      simp only [List.length_map, List.length_range] at h1
      have hidx : List.idxOf i (List.range n₁) = i := by
        have := List.nodup_range.idxOf_getElem (xs := List.range n₁) i (by simpa using h1)
        simpa using this
      simp only [List.getElem_map, List.getElem_range, List.mem_range, h1, if_true, hidx]
      rw [List.getD_eq_getElem?_getD, List.getElem?_eq_getElem (h ▸ h1)]
      rfl
  · apply List.ext_getElem
    · simp
    · intro i h1 h2
      simp

theorem scatterAt_range' (n₁ n₂ : ℕ) (ds : List ℕ) (h : ds.length = n₂) :
    scatterAt (n₁ + n₂) (List.range' n₁ n₂) ds = List.replicate n₁ 0 ++ ds := by
  unfold scatterAt
  rw [List.range_add, List.map_append, List.map_map]
  congr 1
  · apply List.ext_getElem
    · simp
    · intro i h1 h2
      simp only [List.length_map, List.length_range] at h1
      simp only [List.getElem_map, List.getElem_range, List.mem_range'_1, List.getElem_replicate]
      rw [if_neg (by omega)]
  · apply List.ext_getElem
    · simp [h]
    · intro i h1 h2
      simp only [List.length_map, List.length_range] at h1
      have hidx : List.idxOf (n₁ + i) (List.range' n₁ n₂) = i := by
        have := (List.nodup_range' (s := n₁) (n := n₂)).idxOf_getElem i (by simpa using h1)
        simpa using this
      simp only [List.getElem_map, List.getElem_range, Function.comp_apply, List.mem_range'_1, hidx]
      rw [if_pos (by omega), List.getD_eq_getElem?_getD, List.getElem?_eq_getElem (h ▸ h1)]
      rfl

end pauliIdx

end FFVerif.KronAux
