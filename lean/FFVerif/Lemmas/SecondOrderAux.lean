/-
Helper lemmas for C10 (second-order nested integral): closed forms of the nested time-ordered
integral of two complex exponentials, the general "swap" (integration by parts) identity, and the
unfolding of the scalar helpers of `Model/SecondOrder.lean` at ℝ/ℂ.
-/
import Mathlib.Analysis.SpecialFunctions.Integrals.Basic
import Mathlib.Analysis.SpecialFunctions.Trigonometric.Bounds
import Mathlib.MeasureTheory.Integral.IntervalIntegral.IntegrationByParts
import FFVerif.Lemmas.Inst
import FFVerif.Model.SecondOrder

namespace FFVerif.SecondOrderAux
open FFVerif FFVerif.Model Complex MeasureTheory intervalIntegral

/-! ### scalar helpers of the model at ℝ/ℂ -/

theorem neZero_eq_true_iff (x : ℝ) : neZero x = true ↔ x ≠ 0 := by
  simp [neZero]

theorem neZero_eq_false_iff (x : ℝ) : neZero x = false ↔ x = 0 := by
  simp [neZero]

@[simp] theorem divReal_eq (z : ℂ) (x : ℝ) : divReal z x = z / (x : ℂ) := by
  simp [divReal, div_eq_mul_inv]

/-- the `.real += w.imag ; .imag -= w.real` juggling is `z - i·w` -/
theorem mkC_juggle (z w : ℂ) : (mkC (z.re + w.im) (z.im - w.re) : ℂ) = z - I * w := by
  apply Complex.ext <;> simp [mkC]

/-! ### the first-order segment integral and the `frc` buffers -/

/-- `∫₀^dt e^{i c s} ds` -/
noncomputable def segI (c dt : ℝ) : ℂ := ∫ s in (0:ℝ)..dt, exp (I * c * s)

theorem I_mul_ne_zero {c : ℝ} (hc : c ≠ 0) : I * (c : ℂ) ≠ 0 :=
  mul_ne_zero I_ne_zero (by exact_mod_cast hc)

theorem segI_closed (c dt : ℝ) (hc : c ≠ 0) :
    segI c dt = (exp (I * c * dt) - 1) / (I * c) := by
  unfold segI
  rw [integral_exp_mul_complex (I_mul_ne_zero hc)]
  simp

@[simp] theorem segI_zero (dt : ℝ) : segI 0 dt = dt := by
  unfold segI; simp

/-- content of `frc_buf1` / `frc_buf2`: `(e^{i c dt} - 1)/c` where `c ≠ 0`, `i·dt` elsewhere -/
noncomputable def frc (c dt : ℝ) : ℂ :=
  if c ≠ 0 then (exp (I * c * dt) - 1) / c else I * dt

theorem frc_eq (c dt : ℝ) : frc c dt = I * segI c dt := by
  unfold frc
  split_ifs with hc
  · rw [segI_closed c dt hc]
    have : (c : ℂ) ≠ 0 := by exact_mod_cast hc
    field_simp
  · have : c = 0 := by simpa using hc
    subst this; simp

/-! ### the general swap identity -/

/-- **Integration by parts for nested integrals**: for continuous `f g : ℝ → ℂ`,
`∫₀ᵀ f(t) ∫₀ᵗ g + ∫₀ᵀ g(t) ∫₀ᵗ f = (∫₀ᵀ f)(∫₀ᵀ g)`. -/
theorem nested_swap (f g : ℝ → ℂ) (hf : Continuous f) (hg : Continuous g) (T : ℝ) :
    (∫ t in (0:ℝ)..T, f t * ∫ s in (0:ℝ)..t, g s) + (∫ t in (0:ℝ)..T, g t * ∫ s in (0:ℝ)..t, f s)
      = (∫ t in (0:ℝ)..T, f t) * ∫ t in (0:ℝ)..T, g t := by
  have hF : Continuous fun t => ∫ s in (0:ℝ)..t, f s :=
    continuous_primitive (fun a b => hf.intervalIntegrable a b) 0
  have hG : Continuous fun t => ∫ s in (0:ℝ)..t, g s :=
    continuous_primitive (fun a b => hg.intervalIntegrable a b) 0
  have key := integral_deriv_mul_eq_sub (a := 0) (b := T)
    (u := fun t => ∫ s in (0:ℝ)..t, f s) (v := fun t => ∫ s in (0:ℝ)..t, g s) (u' := f) (v' := g)
    (fun x _ => (hf.integral_hasStrictDerivAt 0 x).hasDerivAt)
    (fun x _ => (hg.integral_hasStrictDerivAt 0 x).hasDerivAt)
    (hf.intervalIntegrable _ _) (hg.intervalIntegrable _ _)
  simp only [integral_same, zero_mul, sub_zero] at key
  have hadd := intervalIntegral.integral_add (μ := volume) (a := 0) (b := T)
    (f := fun t => f t * ∫ s in (0:ℝ)..t, g s) (g := fun t => (∫ s in (0:ℝ)..t, f s) * g t)
    ((hf.mul hG).intervalIntegrable _ _) ((hF.mul hg).intervalIntegrable _ _)
  rw [← key, hadd]
  congr 1
  exact integral_congr fun t _ => mul_comm _ _

/-! ### the nested integral of two exponentials -/

/-- `∫₀^dt e^{i a t} ∫₀^t e^{i b s} ds dt` -/
noncomputable def nested2 (a b dt : ℝ) : ℂ :=
  ∫ t in (0:ℝ)..dt, exp (I * a * t) * ∫ s in (0:ℝ)..t, exp (I * b * s)

theorem nested2_eq_segI (a b dt : ℝ) :
    nested2 a b dt = ∫ t in (0:ℝ)..dt, exp (I * a * t) * segI b t := rfl

theorem continuous_expI (c : ℝ) : Continuous fun t : ℝ => exp (I * c * t) := by
  fun_prop

/-- generic case `b ≠ 0` (any `a`) -/
theorem nested2_of_ne (a b dt : ℝ) (hb : b ≠ 0) :
    nested2 a b dt = (segI (a + b) dt - segI a dt) / (I * b) := by
  have hIb := I_mul_ne_zero hb
  rw [nested2_eq_segI]
  have h1 : ∀ t : ℝ, exp (I * a * t) * segI b t
      = (1 / (I * b)) * (exp (I * (a + b : ℝ) * t) - exp (I * a * t)) := by
    intro t
    rw [segI_closed b t hb]
    have : exp (I * ((a + b : ℝ) : ℂ) * t) = exp (I * a * t) * exp (I * b * t) := by
      rw [← Complex.exp_add]; congr 1; push_cast; ring
    rw [this]
    field_simp
  simp_rw [h1]
  rw [intervalIntegral.integral_const_mul, intervalIntegral.integral_sub ((continuous_expI _).intervalIntegrable _ _)
    ((continuous_expI _).intervalIntegrable _ _)]
  unfold segI
  field_simp

/-- resonant inner integral, `b = 0`, `a ≠ 0` -/
theorem nested2_zero_of_ne (a dt : ℝ) (ha : a ≠ 0) :
    nested2 a 0 dt = segI a dt * dt - (segI a dt - dt) / (I * a) := by
  have hIa := I_mul_ne_zero ha
  have hsw := nested_swap (fun t : ℝ => exp (I * a * t)) (fun _ => (1:ℂ)) (continuous_expI a)
    continuous_const dt
  have e1 : (∫ t in (0:ℝ)..dt, exp (I * a * t) * ∫ s in (0:ℝ)..t, (1:ℂ)) = nested2 a 0 dt := by
    unfold nested2; simp
  have e2 : (∫ t in (0:ℝ)..dt, (1:ℂ) * ∫ s in (0:ℝ)..t, exp (I * a * s))
      = (segI a dt - dt) / (I * a) := by
    have h : ∀ t : ℝ, (1:ℂ) * ∫ s in (0:ℝ)..t, exp (I * a * s)
        = (1 / (I * a)) * (exp (I * a * t) - 1) := by
      intro t
      have := segI_closed a t ha
      unfold segI at this
      rw [this]; field_simp
    simp_rw [h]
    rw [intervalIntegral.integral_const_mul, intervalIntegral.integral_sub ((continuous_expI _).intervalIntegrable _ _)
      (continuous_const.intervalIntegrable _ _)]
    have h1 : (∫ t in (0:ℝ)..dt, (1:ℂ)) = dt := by simp
    rw [h1, one_div, mul_comm, ← div_eq_mul_inv]
    rfl
  have e3 : (∫ t in (0:ℝ)..dt, (1:ℂ)) = dt := by simp
  rw [e1, e2, e3] at hsw
  unfold segI at hsw ⊢
  linear_combination hsw

/-- doubly resonant case -/
theorem nested2_zero_zero (dt : ℝ) : nested2 0 0 dt = (dt : ℂ) ^ 2 / 2 := by
  unfold nested2
  simp only [ofReal_zero, mul_zero, zero_mul, Complex.exp_zero, one_mul, intervalIntegral.integral_const,
    sub_zero, real_smul, mul_one]
  rw [intervalIntegral.integral_ofReal, integral_id]
  push_cast; ring

theorem ii_conj (f : ℝ → ℂ) (a b : ℝ) :
    (starRingEnd ℂ) (∫ x in a..b, f x) = ∫ x in a..b, (starRingEnd ℂ) (f x) := by
  rw [intervalIntegral, intervalIntegral, map_sub, ← integral_conj, ← integral_conj]

/-- complex conjugation flips the sign of both detunings -/
theorem nested2_conj (a b dt : ℝ) :
    (starRingEnd ℂ) (nested2 a b dt) = nested2 (-a) (-b) dt := by
  unfold nested2
  rw [ii_conj]
  refine integral_congr fun t _ => ?_
  simp only [map_mul]
  rw [ii_conj]
  congr 1
  · rw [← Complex.exp_conj]; congr 1; simp
  · refine integral_congr fun s _ => ?_
    rw [← Complex.exp_conj]; congr 1; simp

theorem segI_conj (c dt : ℝ) : (starRingEnd ℂ) (segI c dt) = segI (-c) dt := by
  unfold segI
  rw [ii_conj]
  refine integral_congr fun s _ => ?_
  rw [← Complex.exp_conj]; congr 1; simp

/-- swap identity for two exponentials -/
theorem nested2_add_swap (a b dt : ℝ) :
    nested2 a b dt + nested2 b a dt = segI a dt * segI b dt :=
  nested_swap _ _ (continuous_expI a) (continuous_expI b) dt

/-! ### continuity at the resonance `b = 0` with an explicit modulus -/

theorem abs_le_of_mem_uIoc {s t : ℝ} (h : s ∈ Set.uIoc 0 t) : |s| ≤ |t| := by
  rcases Set.mem_uIoc.1 h with ⟨h1, h2⟩ | ⟨h1, h2⟩
  · rw [abs_of_pos h1, abs_of_pos (h1.trans_le h2)]; exact h2
  · rw [abs_of_nonpos h2, abs_of_neg (h1.trans_le h2)]; linarith

theorem continuous_segI (c : ℝ) : Continuous fun t => segI c t :=
  continuous_primitive (fun a b => (continuous_expI c).intervalIntegrable a b) 0

theorem norm_expI (c t : ℝ) : ‖exp (I * c * t)‖ = 1 := by
  have : I * (c : ℂ) * t = ((c * t : ℝ) : ℂ) * I := by push_cast; ring
  rw [this, Complex.norm_exp_ofReal_mul_I]

/-- `‖∫₀^t (e^{i b s} - 1) ds‖ ≤ |b|·|T|·|t|` for `|t| ≤ |T|` -/
theorem norm_segI_sub_le (b t T : ℝ) (ht : |t| ≤ |T|) :
    ‖segI b t - segI 0 t‖ ≤ |b| * |T| * |t| := by
  have h0 : segI b t - segI 0 t = ∫ s in (0:ℝ)..t, (exp (I * b * s) - 1) := by
    rw [intervalIntegral.integral_sub ((continuous_expI b).intervalIntegrable _ _)
      (continuous_const.intervalIntegrable _ _)]
    unfold segI; simp
  rw [h0]
  have := intervalIntegral.norm_integral_le_of_norm_le_const (a := 0) (b := t)
    (C := |b| * |T|) (f := fun s : ℝ => exp (I * b * s) - 1) (by
      intro s hs
      have e : I * (b : ℂ) * s = I * ((b * s : ℝ) : ℂ) := by push_cast; ring
      rw [e]
      refine (Real.norm_exp_I_mul_ofReal_sub_one_le).trans ?_
      rw [Real.norm_eq_abs, abs_mul]
      exact mul_le_mul_of_nonneg_left ((abs_le_of_mem_uIoc hs).trans ht) (abs_nonneg _))
  simpa using this

/-- **Modulus of continuity at the resonance.**  For all real `a`, `b`, `dt`:
`‖nested2 a b dt - nested2 a 0 dt‖ ≤ |b|·|dt|³`. -/
theorem nested2_sub_resonant_le (a b dt : ℝ) :
    ‖nested2 a b dt - nested2 a 0 dt‖ ≤ |b| * |dt| ^ 3 := by
  have hc : ∀ c : ℝ, Continuous fun t : ℝ => exp (I * a * t) * segI c t :=
    fun c => (continuous_expI a).mul (continuous_segI c)
  have h0 : nested2 a b dt - nested2 a 0 dt
      = ∫ t in (0:ℝ)..dt, exp (I * a * t) * (segI b t - segI 0 t) := by
    rw [nested2_eq_segI, nested2_eq_segI,
      ← intervalIntegral.integral_sub ((hc b).intervalIntegrable _ _)
        ((hc 0).intervalIntegrable _ _)]
    exact integral_congr fun t _ => (mul_sub _ _ _).symm
  rw [h0]
  have := intervalIntegral.norm_integral_le_of_norm_le_const (a := 0) (b := dt)
    (C := |b| * |dt| ^ 2) (f := fun t : ℝ => exp (I * a * t) * (segI b t - segI 0 t)) (by
      intro t ht
      have htT := abs_le_of_mem_uIoc ht
      rw [norm_mul, norm_expI, one_mul]
      refine (norm_segI_sub_le b t dt htT).trans ?_
      rw [sq, ← mul_assoc]
      exact mul_le_mul_of_nonneg_left htT (mul_nonneg (abs_nonneg _) (abs_nonneg _)))
  calc _ ≤ |b| * |dt| ^ 2 * |dt - 0| := this
    _ = |b| * |dt| ^ 3 := by rw [sub_zero]; ring

end FFVerif.SecondOrderAux
