/-
Helper lemmas for `FFVerif.Props.C01Unique`: two outputs `(D, V)`, `(D', V')` of `eigh` for the same
matrix (contract `C02.IsEigh`) are linked by the unitary `W = V† V'`, which intertwines the two
eigenvalue lists (`diag(D) W = W diag(D')`, so `W_ij ≠ 0 → D_i = D'_j`).  Consequently every
"double operator function"
`Σ_{mn} F(D_m, D_n) (V† B V)_{mn} (V† C V)_{nm}` — the shape of one segment's contribution to the
control matrix, with `F` ANY function of two eigenvalues (closed-form branch, truncated branch, any
guard) — does not depend on which of the two outputs is used.
-/
import Mathlib.LinearAlgebra.Matrix.Trace
import Mathlib.Data.Complex.Basic
import Mathlib.Algebra.BigOperators.Ring.Finset
import Mathlib.Algebra.BigOperators.Fin
import Mathlib.Data.Fintype.Card
import Mathlib.Data.Fintype.EquivFin
import Mathlib.Data.Complex.BigOperators
import FFVerif.Props.C02

namespace FFVerif.EighUniqueAux
open FFVerif FFVerif.C02 Matrix Complex

variable {d : Nat}

/-- the transition matrix `W = V† V'` between two eigenvector matrices -/
noncomputable def trans (V V' : Matrix (Fin d) (Fin d) ℂ) : Matrix (Fin d) (Fin d) ℂ := Vᴴ * V'

/-- under the contract `diag(D) V† = V† H` -/
theorem IsEigh.diag_mul_adj {H : Matrix (Fin d) (Fin d) ℂ} {D : Fin d → ℝ}
    {V : Matrix (Fin d) (Fin d) ℂ} (h : IsEigh H D V) :
    diagonal (fun i => (D i : ℂ)) * Vᴴ = Vᴴ * H := by
  conv_rhs => rw [h.spectral]
  rw [← Matrix.mul_assoc, ← Matrix.mul_assoc, h.left, Matrix.one_mul]

/-- `diag(D) W = W diag(D')` -/
theorem trans_intertwine {H : Matrix (Fin d) (Fin d) ℂ} {D D' : Fin d → ℝ}
    {V V' : Matrix (Fin d) (Fin d) ℂ} (h : IsEigh H D V) (h' : IsEigh H D' V') :
    diagonal (fun i => (D i : ℂ)) * trans V V' = trans V V' * diagonal (fun i => (D' i : ℂ)) := by
  unfold trans
  rw [← Matrix.mul_assoc, IsEigh.diag_mul_adj h, Matrix.mul_assoc, h'.eig, Matrix.mul_assoc]

/-- **`W_ij ≠ 0 → D_i = D'_j`**: the transition matrix only connects equal eigenvalues -/
theorem trans_support {H : Matrix (Fin d) (Fin d) ℂ} {D D' : Fin d → ℝ}
    {V V' : Matrix (Fin d) (Fin d) ℂ} (h : IsEigh H D V) (h' : IsEigh H D' V') (i j : Fin d)
    (hW : trans V V' i j ≠ 0) : D i = D' j := by
  have e := congrFun (congrFun (trans_intertwine h h') i) j
  rw [Matrix.diagonal_mul, Matrix.mul_diagonal] at e
  have e2 : ((D i : ℂ) - (D' j : ℂ)) * trans V V' i j = 0 := by
    rw [sub_mul, e]; ring
  rcases mul_eq_zero.mp e2 with h0 | h0
  · exact_mod_cast sub_eq_zero.mp h0
  · exact absurd h0 hW

theorem trans_unitary {H H' : Matrix (Fin d) (Fin d) ℂ} {D D' : Fin d → ℝ}
    {V V' : Matrix (Fin d) (Fin d) ℂ} (h : IsEigh H D V) (h' : IsEigh H' D' V') :
    (trans V V')ᴴ * trans V V' = 1 ∧ trans V V' * (trans V V')ᴴ = 1 := by
  unfold trans
  rw [Matrix.conjTranspose_mul, Matrix.conjTranspose_conjTranspose]
  constructor
  · rw [Matrix.mul_assoc, ← Matrix.mul_assoc V, h.right, Matrix.one_mul, h'.left]
  · rw [Matrix.mul_assoc, ← Matrix.mul_assoc V', h'.right, Matrix.one_mul, h.left]

/-- `V' = V W` -/
theorem eq_mul_trans {V V' : Matrix (Fin d) (Fin d) ℂ} (hV : V * Vᴴ = 1) : V' = V * trans V V' := by
  unfold trans
  rw [← Matrix.mul_assoc, hV, Matrix.one_mul]

/-- `V'† M V' = W† (V† M V) W` -/
theorem sandwich_trans {V V' : Matrix (Fin d) (Fin d) ℂ} (hV : V * Vᴴ = 1)
    (M : Matrix (Fin d) (Fin d) ℂ) :
    V'ᴴ * M * V' = (trans V V')ᴴ * (Vᴴ * M * V) * trans V V' := by
  conv_lhs => rw [eq_mul_trans (V' := V') hV]
  rw [Matrix.conjTranspose_mul]
  simp only [Matrix.mul_assoc]

/-- **every eigenvalue of one output occurs in the other** -/
theorem eigenvalue_mem {H : Matrix (Fin d) (Fin d) ℂ} {D D' : Fin d → ℝ}
    {V V' : Matrix (Fin d) (Fin d) ℂ} (h : IsEigh H D V) (h' : IsEigh H D' V') (j : Fin d) :
    ∃ i, D i = D' j := by
  by_contra hne
  push Not at hne
  have hcol : ∀ i, trans V V' i j = 0 := fun i => by
    by_contra hW
    exact hne i (trans_support h h' i j hW)
  have h1 := congrFun (congrFun (trans_unitary h h').1 j) j
  rw [Matrix.mul_apply] at h1
  simp only [hcol, mul_zero, Finset.sum_const_zero, Matrix.one_apply_eq] at h1
  exact zero_ne_one h1

/-- Schur (entrywise) multiplication by a weight `G` -/
def schur (G : Fin d → Fin d → ℂ) (X : Matrix (Fin d) (Fin d) ℂ) : Matrix (Fin d) (Fin d) ℂ :=
  Matrix.of fun m n => G m n * X m n

/-- if the weights agree wherever `W` connects the indices, Schur multiplication commutes with the
change of eigenbasis: `G' ⊙ (W† X W) = W† (G ⊙ X) W` -/
theorem schur_conj (W X : Matrix (Fin d) (Fin d) ℂ) (G G' : Fin d → Fin d → ℂ)
    (hG : ∀ m n i j, W m i ≠ 0 → W n j ≠ 0 → G m n = G' i j) :
    schur G' (Wᴴ * X * W) = Wᴴ * schur G X * W := by
  ext i j
  simp only [schur, Matrix.of_apply, Matrix.mul_apply, Matrix.conjTranspose_apply, Finset.mul_sum,
    Finset.sum_mul]
  refine Finset.sum_congr rfl fun n _ => Finset.sum_congr rfl fun m _ => ?_
  by_cases h1 : W m i = 0
  · rw [h1]; simp
  by_cases h2 : W n j = 0
  · rw [h2]; simp
  rw [hG m n i j h1 h2]
  ring

/-- `Σ_{mn} G_mn X_mn Y_nm = tr((G ⊙ X) Y)` -/
theorem sum_eq_trace_schur (G : Fin d → Fin d → ℂ) (X Y : Matrix (Fin d) (Fin d) ℂ) :
    ∑ m, ∑ n, G m n * X m n * Y n m = Matrix.trace (schur G X * Y) := by
  simp only [Matrix.trace, Matrix.diag_apply, Matrix.mul_apply, schur, Matrix.of_apply]

/-- **the double operator function does not depend on the eigen-decomposition**:
`Σ_{mn} F(D_m, D_n) (V†BV)_{mn} (V†CV)_{nm} = Σ_{ij} F(D'_i, D'_j) (V'†BV')_{ij} (V'†CV')_{ji}`
for two outputs of `eigh` for the same `H` and EVERY `F : ℝ → ℝ → ℂ`. -/
theorem double_sum_unique {H : Matrix (Fin d) (Fin d) ℂ} {D D' : Fin d → ℝ}
    {V V' : Matrix (Fin d) (Fin d) ℂ} (h : IsEigh H D V) (h' : IsEigh H D' V')
    (F : ℝ → ℝ → ℂ) (B C : Matrix (Fin d) (Fin d) ℂ) :
    ∑ i, ∑ j, F (D' i) (D' j) * (V'ᴴ * B * V') i j * (V'ᴴ * C * V') j i
      = ∑ m, ∑ n, F (D m) (D n) * (Vᴴ * B * V) m n * (Vᴴ * C * V) n m := by
  rw [sum_eq_trace_schur (fun i j => F (D' i) (D' j)), sum_eq_trace_schur (fun m n => F (D m) (D n)),
    sandwich_trans h.right B, sandwich_trans h.right C,
    schur_conj (trans V V') (Vᴴ * B * V) (fun m n => F (D m) (D n)) (fun i j => F (D' i) (D' j))
      (fun m n i j h1 h2 => by
        show F (D m) (D n) = F (D' i) (D' j)
        rw [trans_support h h' m i h1, trans_support h h' n j h2])]
  set W := trans V V'
  have hW := (trans_unitary h h').2
  calc Matrix.trace (Wᴴ * schur (fun m n => F (D m) (D n)) (Vᴴ * B * V) * W * (Wᴴ * (Vᴴ * C * V) * W))
      = Matrix.trace (Wᴴ * (schur (fun m n => F (D m) (D n)) (Vᴴ * B * V) * (W * Wᴴ) * (Vᴴ * C * V) * W)) := by
        simp only [Matrix.mul_assoc]
    _ = Matrix.trace (schur (fun m n => F (D m) (D n)) (Vᴴ * B * V) * (Vᴴ * C * V)) := by
        rw [hW, Matrix.mul_one, Matrix.trace_mul_comm, Matrix.mul_assoc, Matrix.mul_assoc, hW,
          Matrix.mul_one]

/-- one-variable version: the operator function `V diag(φ(D)) V†` does not depend on the
eigen-decomposition, for EVERY `φ : ℝ → ℂ` (no continuity, no power series). -/
theorem operator_function_unique {H : Matrix (Fin d) (Fin d) ℂ} {D D' : Fin d → ℝ}
    {V V' : Matrix (Fin d) (Fin d) ℂ} (h : IsEigh H D V) (h' : IsEigh H D' V') (φ : ℝ → ℂ) :
    V' * diagonal (fun j => φ (D' j)) * V'ᴴ = V * diagonal (fun i => φ (D i)) * Vᴴ := by
  have key : diagonal (fun i => φ (D i)) * trans V V' = trans V V' * diagonal (fun j => φ (D' j)) := by
    ext i j
    rw [Matrix.diagonal_mul, Matrix.mul_diagonal]
    by_cases hW : trans V V' i j = 0
    · rw [hW]; simp
    · rw [trans_support h h' i j hW]; ring
  have e1 : V' = V * trans V V' := eq_mul_trans h.right
  have e2 : V'ᴴ = (trans V V')ᴴ * Vᴴ := by
    conv_lhs => rw [e1]
    rw [Matrix.conjTranspose_mul]
  calc V' * diagonal (fun j => φ (D' j)) * V'ᴴ
      = (V * trans V V') * diagonal (fun j => φ (D' j)) * ((trans V V')ᴴ * Vᴴ) := by
        rw [← e1, ← e2]
    _ = V * (trans V V' * diagonal (fun j => φ (D' j))) * ((trans V V')ᴴ * Vᴴ) := by
        simp only [Matrix.mul_assoc]
    _ = V * diagonal (fun i => φ (D i)) * (trans V V' * (trans V V')ᴴ) * Vᴴ := by
        rw [← key]; simp only [Matrix.mul_assoc]
    _ = _ := by rw [(trans_unitary h h').2, Matrix.mul_one]

/-- exchange of two double sums -/
theorem sum_pair_comm (P R : Fin d → Fin d → ℂ) (G : Fin d → Fin d → Fin d → Fin d → ℂ) :
    ∑ i, ∑ j, P i j * ∑ m, ∑ n, G i j m n * R m n
      = ∑ m, ∑ n, R m n * ∑ i, ∑ j, G i j m n * P i j := by
  simp only [← Fintype.sum_prod_type' (f := fun i j => P i j * ∑ m, ∑ n, G i j m n * R m n),
    ← Fintype.sum_prod_type' (f := fun m n => R m n * ∑ i, ∑ j, G i j m n * P i j)]
  simp only [← Fintype.sum_prod_type' (f := fun m n => G _ _ m n * R m n),
    ← Fintype.sum_prod_type' (f := fun i j => G i j _ _ * P i j), Finset.mul_sum]
  rw [Finset.sum_comm]
  refine Finset.sum_congr rfl fun q _ => Finset.sum_congr rfl fun p _ => ?_
  ring

/-- `double_sum_unique` with the two matrix entries grouped -/
theorem double_sum_unique' {H : Matrix (Fin d) (Fin d) ℂ} {D D' : Fin d → ℝ}
    {V V' : Matrix (Fin d) (Fin d) ℂ} (h : IsEigh H D V) (h' : IsEigh H D' V')
    (F : ℝ → ℝ → ℂ) (B C : Matrix (Fin d) (Fin d) ℂ) :
    ∑ i, ∑ j, F (D' i) (D' j) * ((V'ᴴ * B * V') i j * (V'ᴴ * C * V') j i)
      = ∑ m, ∑ n, F (D m) (D n) * ((Vᴴ * B * V) m n * (Vᴴ * C * V) n m) := by
  refine (Finset.sum_congr rfl fun i _ => Finset.sum_congr rfl fun j _ =>
    (mul_assoc _ _ _).symm).trans ((double_sum_unique h h' F B C).trans
      (Finset.sum_congr rfl fun m _ => Finset.sum_congr rfl fun n _ => mul_assoc _ _ _))

/-- **four-index version** (shape of one segment's contribution to the second-order filter
function): for EVERY `F : ℝ → ℝ → ℝ → ℝ → ℂ`,
`Σ_{ijmn} F(D_i, D_j, D_m, D_n) (V†B₁V)_{ij} (V†C₁V)_{ji} (V†B₂V)_{mn} (V†C₂V)_{nm}` does not depend
on the eigen-decomposition. -/
theorem quad_sum_unique {H : Matrix (Fin d) (Fin d) ℂ} {D D' : Fin d → ℝ}
    {V V' : Matrix (Fin d) (Fin d) ℂ} (h : IsEigh H D V) (h' : IsEigh H D' V')
    (F : ℝ → ℝ → ℝ → ℝ → ℂ) (B1 C1 B2 C2 : Matrix (Fin d) (Fin d) ℂ) :
    ∑ i, ∑ j, ((V'ᴴ * B1 * V') i j * (V'ᴴ * C1 * V') j i) *
        ∑ m, ∑ n, F (D' i) (D' j) (D' m) (D' n) * ((V'ᴴ * B2 * V') m n * (V'ᴴ * C2 * V') n m)
      = ∑ i, ∑ j, ((Vᴴ * B1 * V) i j * (Vᴴ * C1 * V) j i) *
        ∑ m, ∑ n, F (D i) (D j) (D m) (D n) * ((Vᴴ * B2 * V) m n * (Vᴴ * C2 * V) n m) := by
  have s1 : ∀ i j,
      ∑ m, ∑ n, F (D' i) (D' j) (D' m) (D' n) * ((V'ᴴ * B2 * V') m n * (V'ᴴ * C2 * V') n m)
      = ∑ m, ∑ n, F (D' i) (D' j) (D m) (D n) * ((Vᴴ * B2 * V) m n * (Vᴴ * C2 * V) n m) :=
    fun i j => double_sum_unique' h h' (fun x y => F (D' i) (D' j) x y) B2 C2
  have s2 : ∀ m n,
      ∑ i, ∑ j, F (D' i) (D' j) (D m) (D n) * ((V'ᴴ * B1 * V') i j * (V'ᴴ * C1 * V') j i)
      = ∑ i, ∑ j, F (D i) (D j) (D m) (D n) * ((Vᴴ * B1 * V) i j * (Vᴴ * C1 * V) j i) :=
    fun m n => double_sum_unique' h h' (fun x y => F x y (D m) (D n)) B1 C1
  calc _ = ∑ i, ∑ j, ((V'ᴴ * B1 * V') i j * (V'ᴴ * C1 * V') j i) *
        ∑ m, ∑ n, F (D' i) (D' j) (D m) (D n) * ((Vᴴ * B2 * V) m n * (Vᴴ * C2 * V) n m) := by
        refine Finset.sum_congr rfl fun i _ => Finset.sum_congr rfl fun j _ => ?_
        rw [s1 i j]
    _ = ∑ m, ∑ n, ((Vᴴ * B2 * V) m n * (Vᴴ * C2 * V) n m) *
        ∑ i, ∑ j, F (D' i) (D' j) (D m) (D n) * ((V'ᴴ * B1 * V') i j * (V'ᴴ * C1 * V') j i) :=
        sum_pair_comm (fun i j => (V'ᴴ * B1 * V') i j * (V'ᴴ * C1 * V') j i)
          (fun m n => (Vᴴ * B2 * V) m n * (Vᴴ * C2 * V) n m)
          (fun i j m n => F (D' i) (D' j) (D m) (D n))
    _ = ∑ m, ∑ n, ((Vᴴ * B2 * V) m n * (Vᴴ * C2 * V) n m) *
        ∑ i, ∑ j, F (D i) (D j) (D m) (D n) * ((Vᴴ * B1 * V) i j * (Vᴴ * C1 * V) j i) := by
        refine Finset.sum_congr rfl fun m _ => Finset.sum_congr rfl fun n _ => ?_
        rw [s2 m n]
    _ = _ :=
        (sum_pair_comm (fun i j => (Vᴴ * B1 * V) i j * (Vᴴ * C1 * V) j i)
          (fun m n => (Vᴴ * B2 * V) m n * (Vᴴ * C2 * V) n m)
          (fun i j m n => F (D i) (D j) (D m) (D n))).symm

/-- any real list `D` and unitary `V` are an output of `eigh` for the matrix `V diag(D) V†` they
represent (so a hypothesis "the data `(D, V)` satisfy the contract for SOME `H`" only says that `V`
is unitary) -/
theorem isEigh_of_unitary (D : Fin d → ℝ) (V : Matrix (Fin d) (Fin d) ℂ) (hl : Vᴴ * V = 1)
    (hr : V * Vᴴ = 1) : IsEigh (V * diagonal (fun i => (D i : ℂ)) * Vᴴ) D V :=
  ⟨by rw [Matrix.mul_assoc, hl, Matrix.mul_one], hl, hr⟩

/-! ### the two eigenvalue lists are permutations of each other -/

/-- every eigenvalue has the same multiplicity in both outputs (counting through the unitary
`W`: `#{i | D_i = μ} = Σ_{ij} [D_i = μ] |W_ij|² = Σ_{ij} [D'_j = μ] |W_ij|² = #{j | D'_j = μ}`) -/
theorem fiber_card_eq {H : Matrix (Fin d) (Fin d) ℂ} {D D' : Fin d → ℝ}
    {V V' : Matrix (Fin d) (Fin d) ℂ} (h : IsEigh H D V) (h' : IsEigh H D' V') (μ : ℝ) :
    Fintype.card {i // D i = μ} = Fintype.card {j // D' j = μ} := by
  classical
  rw [Fintype.card_subtype, Fintype.card_subtype]
  have key : ((Finset.univ.filter fun i => D i = μ).card : ℂ)
      = (Finset.univ.filter fun j => D' j = μ).card := by
    rw [← Finset.sum_boole, ← Finset.sum_boole]
    set W := trans V V'
    have hrow : ∀ i, ∑ j, W i j * star (W i j) = 1 := fun i => by
      have := congrFun (congrFun (trans_unitary h h').2 i) i
      rw [Matrix.mul_apply] at this
      simpa only [Matrix.conjTranspose_apply, Matrix.one_apply_eq] using this
    have hcol : ∀ j, ∑ i, W i j * star (W i j) = 1 := fun j => by
      have := congrFun (congrFun (trans_unitary h h').1 j) j
      rw [Matrix.mul_apply] at this
      simp only [Matrix.conjTranspose_apply, Matrix.one_apply_eq] at this
      rw [← this]
      exact Finset.sum_congr rfl fun i _ => mul_comm _ _
    calc ∑ i, (if D i = μ then (1 : ℂ) else 0)
        = ∑ i, ∑ j, (if D i = μ then (1 : ℂ) else 0) * (W i j * star (W i j)) := by
          refine Finset.sum_congr rfl fun i _ => ?_
          rw [← Finset.mul_sum, hrow, mul_one]
      _ = ∑ i, ∑ j, (if D' j = μ then (1 : ℂ) else 0) * (W i j * star (W i j)) := by
          refine Finset.sum_congr rfl fun i _ => Finset.sum_congr rfl fun j _ => ?_
          by_cases hW : W i j = 0
          · rw [hW]; simp
          · rw [trans_support h h' i j hW]
      _ = ∑ j, ∑ i, (if D' j = μ then (1 : ℂ) else 0) * (W i j * star (W i j)) := Finset.sum_comm
      _ = ∑ j, (if D' j = μ then (1 : ℂ) else 0) := by
          refine Finset.sum_congr rfl fun j _ => ?_
          rw [← Finset.mul_sum, hcol, mul_one]
  exact_mod_cast key

/-- **the eigenvalue lists of two outputs of `eigh` for the same matrix are permutations of each
other**: there is a permutation `σ` of the indices with `D'_j = D_{σ j}` -/
theorem eigenvalues_perm {H : Matrix (Fin d) (Fin d) ℂ} {D D' : Fin d → ℝ}
    {V V' : Matrix (Fin d) (Fin d) ℂ} (h : IsEigh H D V) (h' : IsEigh H D' V') :
    ∃ σ : Equiv.Perm (Fin d), ∀ j, D' j = D (σ j) := by
  classical
  refine ⟨Equiv.ofFiberEquiv (f := D') (g := D)
    (fun μ => Fintype.equivOfCardEq (fiber_card_eq h h' μ).symm), fun j => ?_⟩
  exact (Equiv.ofFiberEquiv_map _ j).symm

end FFVerif.EighUniqueAux
