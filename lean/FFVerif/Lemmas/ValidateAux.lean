/-
Vocabulary and helper lemmas for `Props/C20` (input validation, model `Model/Validate.lean`).

For every validator `f` this file defines
* `Valid… x`      : the DOCUMENTED domain, stated declaratively (decidable);
* `…Kind`, `cls`  : the catalogue of ways to leave the domain with the exception class of each,
  `…Violates x k` : input `x` is corrupted in way `k`;
* `…Regular x`    : side conditions excluding inputs on which code and documentation disagree
  (each disagreement is listed with a concrete input in `Props/C20`).
Core Lean only.
-/
import FFVerif.Model.Validate
import FFVerif.Props.C03a
import FFVerif.Lemmas.RemapDefAux

namespace FFVerif.Model.Validate
open FFVerif.Model

/-! ### generic -/

theorem ok_ne_error {ε α : Type} {a : α} {e : ε} : (Except.ok a : Except ε α) ≠ .error e := by
  intro h; cases h

/-- an `Except` value is an error or a result -/
theorem except_cases {ε α : Type} (r : Except ε α) : (∃ e, r = .error e) ∨ ∃ a, r = .ok a := by
  cases r with
  | error e => exact .inl ⟨e, rfl⟩
  | ok a => exact .inr ⟨a, rfl⟩

theorem rejects_iff_of {ε α : Type} {r : Except ε α} {V : Prop}
    (hv : V → ∃ a, r = .ok a) (ha : ∀ a, r = .ok a → V) : (∃ e, r = .error e) ↔ ¬ V := by
  constructor
  · rintro ⟨e, he⟩ hV
    obtain ⟨a, ha'⟩ := hv hV
    rw [ha'] at he; cases he
  · intro hV
    rcases except_cases r with h | ⟨a, h⟩
    · exact h
    · exact absurd (ha a h) hV

instance {ε α : Type} [DecidableEq ε] [DecidableEq α] : DecidableEq (Except ε α) := fun a b =>
  match a, b with
  | .ok x, .ok y =>
    if h : x = y then isTrue (by rw [h]) else isFalse (by intro h'; cases h'; exact h rfl)
  | .error x, .error y =>
    if h : x = y then isTrue (by rw [h]) else isFalse (by intro h'; cases h'; exact h rfl)
  | .ok _, .error _ => isFalse (by intro h; cases h)
  | .error _, .ok _ => isFalse (by intro h; cases h)

/-- `Pulse.hasDup` decides `¬ Nodup` -/
theorem hasDup_eq_false_iff (l : List String) : Pulse.hasDup l = false ↔ l.Nodup := by
  induction l with
  | nil => simp [Pulse.hasDup]
  | cons s ss ih =>
    simp only [Pulse.hasDup, Bool.or_eq_false_iff, List.nodup_cons, ih]
    simp

theorem hasDup_eq_true_iff (l : List String) : Pulse.hasDup l = true ↔ ¬ l.Nodup := by
  rw [← hasDup_eq_false_iff]; cases Pulse.hasDup l <;> simp

/-- `len(set(l)) == 1` for a non-empty list: all entries equal the first -/
theorem dedup_length_le {α : Type} [BEq α] (l : List α) : (Pulse.dedup l).length ≤ l.length := by
  induction l with
  | nil => simp [Pulse.dedup]
  | cons x xs ih =>
    simp only [Pulse.dedup, List.length_cons]
    have := List.length_filter_le (fun y => y != x) (Pulse.dedup xs)
    omega

theorem mem_dedup {α : Type} [BEq α] [LawfulBEq α] (l : List α) (a : α) :
    a ∈ Pulse.dedup l ↔ a ∈ l := by
  induction l with
  | nil => simp [Pulse.dedup]
  | cons x xs ih =>
    simp only [Pulse.dedup, List.mem_cons, List.mem_filter, ih]
    by_cases h : a = x
    · simp [h]
    · simp [h]

theorem nDistinct_eq_one_iff {α : Type} [BEq α] [LawfulBEq α] (l : List α) :
    nDistinct l = 1 ↔ ∃ a, l ≠ [] ∧ ∀ b ∈ l, b = a := by
  unfold nDistinct
  induction l with
  | nil => simp [Pulse.dedup]
  | cons x xs ih =>
    simp only [Pulse.dedup, List.length_cons, Nat.add_eq_right, List.length_eq_zero_iff]
    constructor
    · intro h
      refine ⟨x, by simp, ?_⟩
      intro b hb
      rcases List.mem_cons.mp hb with rfl | hb
      · rfl
      · apply Classical.byContradiction
        intro hne
        have : b ∈ (Pulse.dedup xs).filter (fun y => y != x) := by
          simp [List.mem_filter, mem_dedup, hb, hne]
        rw [h] at this; cases this
    · rintro ⟨a, -, ha⟩
      have hx : x = a := ha x (by simp)
      apply List.eq_nil_iff_forall_not_mem.mpr
      intro b hb
      simp only [List.mem_filter, mem_dedup, bne_iff_ne] at hb
      exact hb.2 ((ha b (by simp [hb.1])).trans hx.symm)

/-! ### `parse_operators` -/

/-- the dimension of a square matrix shape -/
def shapeDim : List Nat → Option Nat
  | [a, b] => if a = b then some a else none
  | _ => none

/-- the dimension of an operator that is a square matrix.  For a NumPy array the shape is taken
up to axes of length one: `parse_operators` squeezes `ndarray`s on purpose, so `(2, 2, 1)` is the
matrix `(2, 2)`, while `(1, 4)` is a vector and `(1, 1)` a scalar.  Convertible objects (Qobj,
sparse, qopt) are taken as they are. -/
def operDim (o : OperSpec) : Option Nat := o.parsedShape.bind shapeDim

/-- DOCUMENTED domain of `parse_operators`: every operator is a NumPy array or convertible object
that is a square matrix (`operDim`), and all have the same dimension. -/
def ValidOpers (ops : List OperSpec) : Prop :=
  (ops.head?.bind operDim).isSome ∧ ∀ o ∈ ops, operDim o = ops.head?.bind operDim

instance (ops : List OperSpec) : Decidable (ValidOpers ops) := by unfold ValidOpers; infer_instance

/-- only needed for `Basis.__new__` (which calls `parse_operators` WITHOUT the `ndim == 3` check of
`_parse_Hamiltonian`): the (squeezed) array has at least two axes, so that the test of the
stacked shape means what it is meant to mean. -/
def OperRegular (o : OperSpec) : Prop :=
  match o.parsedShape with
  | some s => 2 ≤ s.length
  | none => True

instance (o : OperSpec) : Decidable (OperRegular o) := by
  unfold OperRegular; cases o.parsedShape <;> infer_instance

theorem validOpers_iff (ops : List OperSpec) :
    ValidOpers ops ↔ ops ≠ [] ∧ ∃ d, ∀ o ∈ ops, operDim o = some d := by
  unfold ValidOpers
  cases ops with
  | nil => simp
  | cons o os =>
    simp only [List.head?_cons, Option.bind_some, ne_eq, reduceCtorEq, not_false_eq_true, true_and]
    constructor
    · rintro ⟨h1, h2⟩
      obtain ⟨d, hd⟩ := Option.isSome_iff_exists.mp h1
      exact ⟨d, fun o' ho' => (h2 o' ho').trans hd⟩
    · rintro ⟨d, hd⟩
      have h0 := hd o (by simp)
      exact ⟨by simp [h0], fun o' ho' => (hd o' ho').trans h0.symm⟩

theorem shapeDim_eq_some_iff {s : List Nat} {d : Nat} : shapeDim s = some d ↔ s = [d, d] := by
  match s with
  | [] | [_] | _ :: _ :: _ :: _ => simp [shapeDim]
  | [a, b] =>
    simp only [shapeDim]
    by_cases hab : a = b
    · subst hab; simp
    · simp only [hab, ↓reduceIte, reduceCtorEq, List.cons.injEq, and_true, false_iff]
      rintro ⟨rfl, rfl⟩; exact hab rfl

/-- an operator has dimension `d` iff the array handed on by the parser has shape `(d, d)` -/
theorem operDim_eq_some_iff {o : OperSpec} {d : Nat} :
    operDim o = some d ↔ o.parsedShape = some [d, d] := by
  unfold operDim
  cases h : o.parsedShape with
  | none => simp
  | some s => simp [shapeDim_eq_some_iff]

theorem squareTail_three (n a b : Nat) : squareTail [n, a, b] = decide (a = b) := by
  unfold squareTail nDistinct lastTwo
  by_cases h : a = b
  · subst h; simp [Pulse.dedup]
  · have : (b != a) = true := by simp [bne_iff_ne]; exact fun h' => h h'.symm
    simp [Pulse.dedup, h, this]

/-- all parsed shapes are present and equal `s` -/
theorem filterMap_parsedShape_eq {ops : List OperSpec} {s : List Nat}
    (h : ∀ o ∈ ops, o.parsedShape = some s) :
    ops.filterMap (·.parsedShape) = List.replicate ops.length s := by
  induction ops with
  | nil => rfl
  | cons o os ih =>
    have ho := h o (by simp)
    simp only [List.filterMap_cons, ho, List.length_cons, List.replicate_succ]
    rw [ih (fun o' ho' => h o' (by simp [ho']))]

/-- Valid operators are accepted and stacked to shape `(n, d, d)` (all inputs). -/
theorem parseOperators_of_dims {ops : List OperSpec} {d : Nat} (hne : ops ≠ [])
    (hd : ∀ o ∈ ops, operDim o = some d) :
    parseOperators ops = .ok [ops.length, d, d] := by
  have hp : ∀ o ∈ ops, o.parsedShape = some [d, d] := fun o ho => operDim_eq_some_iff.mp (hd o ho)
  unfold parseOperators
  have h1 : ops.any (fun o => o.parsedShape.isNone) = false := by
    rw [List.any_eq_false]; intro o ho; simp [hp o ho]
  rw [h1, filterMap_parsedShape_eq hp]
  cases ops with
  | nil => exact absurd rfl hne
  | cons o os =>
    simp only [Bool.false_eq_true, ↓reduceIte, List.length_cons, List.replicate_succ]
    have : (List.replicate os.length [d, d]).all (· == [d, d]) = true := by
      rw [List.all_eq_true]; intro x hx; simp [(List.mem_replicate.mp hx).2]
    simp [this, squareTail_three]

/-- what acceptance by `parse_operators` means in general: all parsed shapes coincide, and the
stacked shape `(n, *shape)` has at most three axes with a "square" tail -/
theorem parseOperators_ok {ops : List OperSpec} {r : List Nat} (hne : ops ≠ [])
    (h : parseOperators ops = .ok r) :
    ∃ s0, r = ops.length :: s0 ∧ (∀ o ∈ ops, o.parsedShape = some s0) ∧
      squareTail (ops.length :: s0) = true := by
  unfold parseOperators at h
  split at h
  · cases h
  rename_i hany
  have hany' : ∀ o ∈ ops, ¬ o.parsedShape = none := by simpa using hany
  have hsome : ∀ o ∈ ops, o.parsedShape.isSome := by
    intro o ho
    have := hany' o ho
    cases hp : o.parsedShape <;> simp [hp] at this ⊢
  split at h
  · rename_i hnil
    cases ops with
    | nil => exact absurd rfl hne
    | cons o os =>
      obtain ⟨s, hs⟩ := Option.isSome_iff_exists.mp (hsome o (by simp))
      simp [hs] at hnil
  rename_i s0 rest hfm
  split at h
  · cases h
  rename_i hall
  have hall' : ∀ s ∈ rest, s = s0 := by simpa using hall
  have hps : ∀ o ∈ ops, o.parsedShape = some s0 := by
    intro o ho
    obtain ⟨s, hs⟩ := Option.isSome_iff_exists.mp (hsome o ho)
    have hmem : s ∈ ops.filterMap (·.parsedShape) := List.mem_filterMap.mpr ⟨o, ho, hs⟩
    rw [hfm] at hmem
    rcases List.mem_cons.mp hmem with rfl | hm
    · exact hs
    · rw [hs, hall' s hm]
  dsimp only at h
  split at h
  · cases h
  split at h
  · cases h
  rename_i hsq
  cases h
  exact ⟨s0, rfl, hps, by simpa using hsq⟩

/-- Accepted operators whose stacked array has three axes (the check `parsed_opers.ndim != 3` of
`_parse_Hamiltonian`) are square matrices of one dimension, stacked to `(n, d, d)`. -/
theorem dims_of_parseOperators {ops : List OperSpec} {r : List Nat} (hne : ops ≠ [])
    (h : parseOperators ops = .ok r) (h3 : r.length = 3) :
    ∃ d, r = [ops.length, d, d] ∧ ∀ o ∈ ops, operDim o = some d := by
  obtain ⟨s0, rfl, hps, hsq⟩ := parseOperators_ok hne h
  match s0, h3, hps, hsq with
  | [a, b], _, hps, hsq =>
    rw [squareTail_three] at hsq
    have hab : a = b := by simpa using hsq
    subst hab
    exact ⟨a, rfl, fun o ho => operDim_eq_some_iff.mpr (hps o ho)⟩

/-- under `OperRegular` the stacked array of accepted operators has three axes -/
theorem length_three_of_regular {ops : List OperSpec} {r : List Nat} (hne : ops ≠ [])
    (hr : ∀ o ∈ ops, OperRegular o) (h : parseOperators ops = .ok r) : r.length = 3 := by
  have hle : r.length ≤ 3 := by
    unfold parseOperators at h
    split at h
    · cases h
    split at h
    · cases h; cases ops with
      | nil => exact absurd rfl hne
      | cons _ _ => simp
    split at h
    · cases h
    dsimp only at h
    split at h
    · cases h
    rename_i hgt
    split at h
    · cases h
    cases h
    omega
  obtain ⟨s0, rfl, hps, -⟩ := parseOperators_ok hne h
  obtain ⟨o0, ho0⟩ := List.exists_mem_of_ne_nil ops hne
  have := hr o0 ho0
  unfold OperRegular at this
  rw [hps o0 ho0] at this
  simp only [List.length_cons] at hle ⊢
  omega

/-- the exception class of `parse_operators`: `TypeError` exactly when some operator is not
array-like, else `ValueError` -/
theorem parseOperators_error {ops : List OperSpec} {e : Err} (h : parseOperators ops = .error e) :
    (e = .typeError ∧ ∃ o ∈ ops, o = .other) ∨ (e = .valueError ∧ ∀ o ∈ ops, o ≠ .other) := by
  unfold parseOperators at h
  split at h
  · rename_i hany
    obtain ⟨o, ho, hn⟩ := List.any_eq_true.mp hany
    cases h
    left
    refine ⟨rfl, o, ho, ?_⟩
    cases o <;> simp [OperSpec.parsedShape] at hn ⊢
  · rename_i hany
    have hany' : ∀ o ∈ ops, ¬ o.parsedShape = none := by simpa using hany
    have hno : ∀ o ∈ ops, o ≠ .other := by
      intro o ho hoo
      have := hany' o ho
      simp [hoo, OperSpec.parsedShape] at this
    right
    split at h
    · cases h
    · split at h
      · cases h; exact ⟨rfl, hno⟩
      · dsimp only at h
        split at h
        · cases h; exact ⟨rfl, hno⟩
        · split at h
          · cases h; exact ⟨rfl, hno⟩
          · cases h

/-! ### `_parse_Hamiltonian` -/

def hamItems : HamSpec → List ItemSpec
  | .notList => []
  | .list l => l

/-- the dimension of the first operator of `H` -/
def hamDim (H : HamSpec) : Option Nat := ((hamItems H).map (·.oper)).head?.bind operDim

/-- DOCUMENTED domain of `_parse_Hamiltonian` (docstring of `PulseSequence`): `H` is a non-empty
list of lists `[operator, coefficients]` or `[operator, coefficients, identifier]`; the operators
are square matrices (NumPy arrays, read up to axes of length one — `operDim` — or Qobjs) of one
common dimension; every coefficient
sequence has `len(dt)` elements; the identifiers — the given ones, and `A_i` / `B_i` for a
sublist at position `i` without one — are pairwise distinct. -/
def ValidHam (H : HamSpec) (nDt : Nat) (pre : String) : Prop :=
  H ≠ .notList ∧ hamItems H ≠ [] ∧
  (∀ it ∈ hamItems H, it.isList = true ∧ (it.nFields = 2 ∨ it.nFields = 3) ∧ it.coeff = .seq nDt) ∧
  ValidOpers ((hamItems H).map (·.oper)) ∧
  (filledIds (hamItems H) pre).Nodup

instance (H : HamSpec) (nDt : Nat) (pre : String) : Decidable (ValidHam H nDt pre) := by
  unfold ValidHam; infer_instance

/-- the only input class on which code and documentation of `_parse_Hamiltonian` still differ
(D4): a sublist with more than three entries is accepted, the further entries silently ignored.
`HamRegular` excludes it: no sublist has more than three entries. -/
def HamRegular (H : HamSpec) : Prop := ∀ it ∈ hamItems H, it.nFields ≤ 3

instance (H : HamSpec) : Decidable (HamRegular H) := by unfold HamRegular; infer_instance

/-- the catalogue of corruptions of a Hamiltonian argument -/
inductive HamKind
  /-- `H` is not a list / tuple -/
  | notList
  /-- an entry of `H` is not a list / tuple -/
  | itemNotList
  /-- `H` is empty, or all its entries are empty -/
  | empty
  /-- no entry has more than the operator -/
  | noCoefficients
  /-- an operator is missing or is not a NumPy array / convertible object -/
  | operNotArrayLike
  /-- the operators are not all square, two-dimensional and of one dimension -/
  | opersNotSquare
  /-- coefficients are missing or have no `__len__` -/
  | coeffNotSequence
  /-- two operators carry the same identifier -/
  | duplicateIdentifiers
  /-- a coefficient sequence does not have `len(dt)` elements -/
  | coeffWrongLength
deriving DecidableEq, Repr

/-- the exception class of each corruption (as raised by the code) -/
def HamKind.cls : HamKind → Err
  | .notList | .itemNotList | .operNotArrayLike | .coeffNotSequence | .noCoefficients => .typeError
  | .empty | .opersNotSquare | .duplicateIdentifiers | .coeffWrongLength => .valueError

/-- `H` is a list whose entries are lists -/
def AllLists (H : HamSpec) : Prop := H ≠ .notList ∧ ∀ it ∈ hamItems H, it.isList = true

instance (H : HamSpec) : Decidable (AllLists H) := by unfold AllLists; infer_instance

def coeffWrong (nDt : Nat) : CoeffSpec → Bool
  | .seq m => m != nDt
  | .noLen => false

/-- input `H` is corrupted in way `k` -/
def HamViolates (H : HamSpec) (nDt : Nat) (pre : String) : HamKind → Prop
  | .notList => H = .notList
  | .itemNotList => H ≠ .notList ∧ ∃ it ∈ hamItems H, it.isList = false
  | .empty => AllLists H ∧ maxFields (hamItems H) = 0
  | .noCoefficients => AllLists H ∧ maxFields (hamItems H) = 1
  | .operNotArrayLike => AllLists H ∧ 2 ≤ maxFields (hamItems H) ∧ ∃ it ∈ hamItems H, it.effOper = .other
  | .opersNotSquare => AllLists H ∧ 2 ≤ maxFields (hamItems H) ∧
      (∀ it ∈ hamItems H, it.effOper ≠ .other) ∧ ¬ ValidOpers ((hamItems H).map (·.effOper))
  | .coeffNotSequence => AllLists H ∧ 2 ≤ maxFields (hamItems H) ∧ ∃ it ∈ hamItems H, it.effCoeff = .noLen
  | .duplicateIdentifiers => AllLists H ∧ ¬ (filledIds (hamItems H) pre).Nodup
  | .coeffWrongLength => AllLists H ∧ ∃ it ∈ hamItems H, coeffWrong nDt it.effCoeff = true

instance (H : HamSpec) (nDt : Nat) (pre : String) (k : HamKind) :
    Decidable (HamViolates H nDt pre k) := by
  cases k <;> unfold HamViolates <;> infer_instance

theorem foldl_max_le (items : List ItemSpec) (m k : Nat) :
    items.foldl (fun m it => max m it.nFields) m ≤ k ↔ m ≤ k ∧ ∀ it ∈ items, it.nFields ≤ k := by
  induction items generalizing m with
  | nil => simp
  | cons x xs ih =>
    simp only [List.foldl_cons, ih, List.mem_cons, forall_eq_or_imp, Nat.max_le]
    constructor
    · rintro ⟨⟨a, b⟩, c⟩; exact ⟨a, b, c⟩
    · rintro ⟨a, b, c⟩; exact ⟨⟨a, b⟩, c⟩

theorem maxFields_le_iff (items : List ItemSpec) (k : Nat) :
    maxFields items ≤ k ↔ ∀ it ∈ items, it.nFields ≤ k := by
  unfold maxFields; rw [foldl_max_le]; simp

theorem le_maxFields {items : List ItemSpec} {it : ItemSpec} (h : it ∈ items) :
    it.nFields ≤ maxFields items := (maxFields_le_iff items _).mp (Nat.le_refl _) it h

theorem maxFields_nil : maxFields [] = 0 := rfl

theorem length_filledIds (items : List ItemSpec) (pre : String) :
    (filledIds items pre).length = items.length := by
  unfold filledIds; simp

/-- without any given identifier the defaults `pre_0, pre_1, …` are pairwise distinct -/
theorem filledIds_nodup_of_none (items : List ItemSpec) (pre : String)
    (h : ∀ it ∈ items, it.effIdent = none) : (filledIds items pre).Nodup := by
  have : filledIds items pre = (List.range items.length).map (Pulse.defaultId pre) := by
    apply List.ext_getElem?
    intro i
    unfold filledIds
    simp only [List.getElem?_map, List.getElem?_zipIdx]
    by_cases hi : i < items.length
    · have hmem : items[i] ∈ items := List.getElem_mem hi
      simp [hi, h _ hmem]
    · simp [hi]
  rw [this]
  exact Pulse.nodup_map_of_inj _ _ List.nodup_range
    (fun a _ b _ hab => Pulse.defaultId_inj pre a b hab)

theorem eff_of_two_le {it : ItemSpec} (h : 2 ≤ it.nFields) :
    it.effOper = it.oper ∧ it.effCoeff = it.coeff := by
  unfold ItemSpec.effOper ItemSpec.effCoeff
  have h1 : it.nFields ≥ 1 := by omega
  simp [h, h1]

theorem two_le_of_eff {it : ItemSpec} (h : it.effCoeff ≠ .noLen) : 2 ≤ it.nFields := by
  unfold ItemSpec.effCoeff at h
  by_cases h2 : it.nFields ≥ 2
  · exact h2
  · simp [h2] at h

theorem map_effOper_eq {items : List ItemSpec} (h : ∀ it ∈ items, 2 ≤ it.nFields) :
    items.map (·.effOper) = items.map (·.oper) :=
  List.map_congr_left fun it hit => (eff_of_two_le (h it hit)).1

/-- (A) a valid Hamiltonian is accepted; the stacked operators have shape `(n, d, d)` and the
identifiers are stored sorted. -/
theorem parseHamiltonian_of_valid {H : HamSpec} {nDt : Nat} {pre : String}
    (hv : ValidHam H nDt pre) :
    ∃ d, hamDim H = some d ∧ parseHamiltonian H nDt pre =
      .ok ⟨[(hamItems H).length, d, d], Pulse.sortBy id (filledIds (hamItems H) pre)⟩ := by
  obtain ⟨hnl, hne, hit, hops, hnd⟩ := hv
  cases H with
  | notList => exact absurd rfl hnl
  | list items =>
    simp only [hamItems] at hne hit hops hnd ⊢
    have h2 : ∀ it ∈ items, 2 ≤ it.nFields := fun it h => by
      rcases (hit it h).2.1 with h' | h' <;> omega
    obtain ⟨hne', d, hd⟩ := (validOpers_iff _).mp hops
    have hdim : hamDim (.list items) = some d := by
      unfold hamDim hamItems
      cases items with
      | nil => exact absurd rfl hne
      | cons x xs => simpa using hd x.oper (by simp)
    refine ⟨d, hdim, ?_⟩
    have hpo := parseOperators_of_dims hne' hd
    rw [List.length_map] at hpo
    obtain ⟨it0, hit0⟩ := List.exists_mem_of_ne_nil items hne
    have hL : 2 ≤ maxFields items := Nat.le_trans (h2 it0 hit0) (le_maxFields hit0)
    unfold parseHamiltonian
    have c1 : items.any (fun it => !it.isList) = false := by
      rw [List.any_eq_false]; intro it h; simp [(hit it h).1]
    have c2 : (maxFields items == 0) = false := by simp; omega
    have c3 : (maxFields items == 1) = false := by simp; omega
    have c4 : items.any (fun it => it.effCoeff == .noLen) = false := by
      rw [List.any_eq_false]; intro it h
      rw [(eff_of_two_le (h2 it h)).2, (hit it h).2.2]; simp
    have c5 : Pulse.hasDup (filledIds items pre) = false := (hasDup_eq_false_iff _).mpr hnd
    have c6 : items.all (fun it => it.effCoeff == .seq nDt) = true := by
      rw [List.all_eq_true]; intro it h
      rw [(eff_of_two_le (h2 it h)).2, (hit it h).2.2]; simp
    simp only [c1, c2, c3, c4, c5, c6, map_effOper_eq h2, hpo, Bool.false_eq_true, ↓reduceIte,
      Bool.and_false, Bool.not_true, List.length_cons, List.length_nil, bne_self_eq_false]

/-- (B) under `HamRegular`, an accepted Hamiltonian is valid. -/
theorem valid_of_parseHamiltonian {H : HamSpec} {nDt : Nat} {pre : String} {r : HamParsed}
    (hr : HamRegular H) (h : parseHamiltonian H nDt pre = .ok r) : ValidHam H nDt pre := by
  cases H with
  | notList => simp [parseHamiltonian] at h
  | list items =>
    simp only [HamRegular, hamItems] at hr
    unfold parseHamiltonian at h
    simp only at h
    split at h
    · cases h
    rename_i c1
    split at h
    · cases h
    rename_i c2
    split at h
    · cases h
    rename_i c3
    split at h
    · cases h
    rename_i shape hpo
    split at h
    · cases h
    rename_i c3b
    split at h
    · cases h
    rename_i c4
    split at h
    · cases h
    rename_i c5
    split at h
    · cases h
    rename_i c6
    have h3 : shape.length = 3 := by simpa using c3b
    have c1' : ∀ it ∈ items, it.isList = true := by simpa using c1
    have c4' : ∀ it ∈ items, ¬ it.effCoeff = .noLen := by simpa using c4
    have c6' : ∀ it ∈ items, it.effCoeff = .seq nDt := by simpa using c6
    have h2 : ∀ it ∈ items, 2 ≤ it.nFields := fun it hit => two_le_of_eff (c4' it hit)
    have hL0 : maxFields items ≠ 0 := by simpa using c2
    have hne : items ≠ [] := by rintro rfl; exact hL0 rfl
    rw [map_effOper_eq h2] at hpo
    obtain ⟨d, -, hd⟩ := dims_of_parseOperators (by simpa using hne) hpo h3
    refine ⟨by simp, by simpa [hamItems] using hne, ?_, ?_, ?_⟩
    · intro it hit
      simp only [hamItems] at hit
      refine ⟨c1' it hit, ?_, ?_⟩
      · have := hr it hit; have := h2 it hit; omega
      · rw [← (eff_of_two_le (h2 it hit)).2]; exact c6' it hit
    · exact (validOpers_iff _).mpr ⟨by simpa [hamItems] using hne, d, hd⟩
    · simp only [hamItems]
      by_cases hL3 : maxFields items ≥ 3
      · have : Pulse.hasDup (filledIds items pre) = false := by simpa [hL3] using c5
        exact (hasDup_eq_false_iff _).mp this
      · apply filledIds_nodup_of_none
        intro it hit
        have := le_maxFields hit
        unfold ItemSpec.effIdent
        have : ¬ it.nFields ≥ 3 := by omega
        simp [this]

/-- (C) every rejection is explained by a corruption of the reported class. -/
theorem parseHamiltonian_error {H : HamSpec} {nDt : Nat} {pre : String} {e : Err}
    (h : parseHamiltonian H nDt pre = .error e) : ∃ k, HamViolates H nDt pre k ∧ k.cls = e := by
  cases H with
  | notList =>
    simp only [parseHamiltonian, Except.error.injEq] at h
    exact ⟨.notList, rfl, h⟩
  | list items =>
    unfold parseHamiltonian at h
    simp only at h
    split at h
    · rename_i c1
      obtain ⟨it, hit, hl⟩ := List.any_eq_true.mp c1
      cases h
      exact ⟨.itemNotList, ⟨by simp, it, hit, by simpa using hl⟩, rfl⟩
    rename_i c1
    have hal : AllLists (.list items) := ⟨by simp, by simpa [hamItems] using c1⟩
    split at h
    · rename_i c2; cases h
      exact ⟨.empty, ⟨hal, by simpa [hamItems] using c2⟩, rfl⟩
    rename_i c2
    split at h
    · rename_i c3; cases h
      exact ⟨.noCoefficients, ⟨hal, by simpa [hamItems] using c3⟩, rfl⟩
    rename_i c3
    have hL : 2 ≤ maxFields (hamItems (.list items)) := by
      have a : maxFields items ≠ 0 := by simpa using c2
      have b : maxFields items ≠ 1 := by simpa using c3
      simp only [hamItems]; omega
    split at h
    · rename_i e' hpo
      cases h
      rcases parseOperators_error hpo with ⟨rfl, o, ho, hoo⟩ | ⟨rfl, hno⟩
      · obtain ⟨it, hit, rfl⟩ := List.mem_map.mp ho
        exact ⟨.operNotArrayLike, ⟨hal, hL, it, hit, hoo⟩, rfl⟩
      · refine ⟨.opersNotSquare, ⟨hal, hL, ?_, ?_⟩, rfl⟩
        · intro it hit; exact hno _ (List.mem_map.mpr ⟨it, hit, rfl⟩)
        · intro hv
          simp only [hamItems] at hv
          obtain ⟨hne, d, hd⟩ := (validOpers_iff _).mp hv
          rw [parseOperators_of_dims hne hd] at hpo
          cases hpo
    rename_i shape hpo
    split at h
    · rename_i c3b; cases h
      -- the stacked array does not have three axes
      have hne : items.map (·.effOper) ≠ [] := by
        have a : maxFields items ≠ 0 := by simpa using c2
        intro hnil
        have : items = [] := by simpa using hnil
        subst this; exact a rfl
      obtain ⟨s0, -, hps, -⟩ := parseOperators_ok hne hpo
      refine ⟨.opersNotSquare, ⟨hal, hL, ?_, ?_⟩, rfl⟩
      · intro it hit hoo
        have := hps _ (List.mem_map.mpr ⟨it, hit, rfl⟩)
        rw [hoo] at this; simp [OperSpec.parsedShape] at this
      · intro hv
        simp only [hamItems] at hv
        obtain ⟨hne', d, hd⟩ := (validOpers_iff _).mp hv
        rw [parseOperators_of_dims hne' hd] at hpo
        cases hpo
        simp at c3b
    rename_i c3b
    split at h
    · rename_i c4; cases h
      obtain ⟨it, hit, hc⟩ := List.any_eq_true.mp c4
      exact ⟨.coeffNotSequence, ⟨hal, hL, it, hit, by simpa using hc⟩, rfl⟩
    rename_i c4
    split at h
    · rename_i c5; cases h
      have : Pulse.hasDup (filledIds items pre) = true := by
        simp only [Bool.and_eq_true] at c5; exact c5.2
      exact ⟨.duplicateIdentifiers, ⟨hal, (hasDup_eq_true_iff _).mp this⟩, rfl⟩
    rename_i c5
    split at h
    · rename_i c6; cases h
      have c4' : ∀ it ∈ items, ¬ it.effCoeff = .noLen := by simpa using c4
      have : ∃ it ∈ items, ¬ it.effCoeff = .seq nDt := by simpa using c6
      obtain ⟨it, hit, hne⟩ := this
      refine ⟨.coeffWrongLength, ⟨hal, it, hit, ?_⟩, rfl⟩
      cases hc : it.effCoeff with
      | noLen => exact absurd hc (c4' it hit)
      | seq m =>
        simp only [coeffWrong, bne_iff_ne, ne_eq]
        intro hm; exact hne (by rw [hc, hm])
    · cases h

/-- (D) each catalogued corruption takes the input out of the documented domain. -/
theorem not_valid_of_hamViolates {H : HamSpec} {nDt : Nat} {pre : String} {k : HamKind}
    (h : HamViolates H nDt pre k) : ¬ ValidHam H nDt pre := by
  rintro ⟨hnl, hne, hit, hops, hnd⟩
  have h2 : ∀ it ∈ hamItems H, 2 ≤ it.nFields := fun it h => by
    rcases (hit it h).2.1 with h' | h' <;> omega
  obtain ⟨it0, hit0⟩ := List.exists_mem_of_ne_nil _ hne
  have hL : 2 ≤ maxFields (hamItems H) := Nat.le_trans (h2 it0 hit0) (le_maxFields hit0)
  cases k with
  | notList => exact hnl h
  | itemNotList =>
    obtain ⟨-, it, hi, hf⟩ := h
    rw [(hit it hi).1] at hf; cases hf
  | empty => have := h.2; omega
  | noCoefficients => have := h.2; omega
  | operNotArrayLike =>
    obtain ⟨-, -, it, hi, ho⟩ := h
    rw [(eff_of_two_le (h2 it hi)).1] at ho
    obtain ⟨-, d, hd⟩ := (validOpers_iff _).mp hops
    have := hd it.oper (List.mem_map.mpr ⟨it, hi, rfl⟩)
    rw [ho] at this; simp [operDim, OperSpec.parsedShape] at this
  | opersNotSquare =>
    obtain ⟨-, -, -, hnv⟩ := h
    rw [map_effOper_eq h2] at hnv
    exact hnv hops
  | coeffNotSequence =>
    obtain ⟨-, -, it, hi, hc⟩ := h
    rw [(eff_of_two_le (h2 it hi)).2, (hit it hi).2.2] at hc; cases hc
  | duplicateIdentifiers => exact h.2 hnd
  | coeffWrongLength =>
    obtain ⟨-, it, hi, hc⟩ := h
    rw [(eff_of_two_le (h2 it hi)).2, (hit it hi).2.2] at hc
    simp [coeffWrong] at hc

/-- acceptance determines the result: stacked shape `(n, d, d)`, identifiers sorted -/
theorem parseHamiltonian_ok_eq {H : HamSpec} {nDt : Nat} {pre : String} {r : HamParsed}
    (hr : HamRegular H) (h : parseHamiltonian H nDt pre = .ok r) :
    ValidHam H nDt pre ∧ ∃ d, hamDim H = some d ∧
      r = ⟨[(hamItems H).length, d, d], Pulse.sortBy id (filledIds (hamItems H) pre)⟩ := by
  have hv := valid_of_parseHamiltonian hr h
  obtain ⟨d, hd, heq⟩ := parseHamiltonian_of_valid hv
  rw [heq] at h
  cases h
  exact ⟨hv, d, hd, rfl⟩

/-! ### `_parse_args` -/

def dtElems : DtSpec → List DtElem
  | .noLen => []
  | .seq l => l

/-- the basis argument is absent, or a `Basis` whose elements are `d × d` matrices -/
def BasisOk (d : Option Nat) : Option BasisSpec → Prop
  | none => True
  | some .notBasis => False
  | some (.basis sh) => some sh.tail = d.map fun d => [d, d]

instance (d : Option Nat) (b : Option BasisSpec) : Decidable (BasisOk d b) := by
  unfold BasisOk; split <;> infer_instance

/-- DOCUMENTED domain of `PulseSequence(H_c, H_n, dt, basis)`: `dt` is a sequence of real,
non-negative durations; `H_c` and `H_n` are valid Hamiltonians (`ValidHam`) with `len(dt)`
coefficients per operator and operators of the same dimension `d`; the basis, if given, is a
`Basis` with elements of shape `(d, d)`. -/
def ValidArgs (x : ArgsSpec) : Prop :=
  x.dt ≠ .noLen ∧ (∀ e ∈ dtElems x.dt, e = .nonneg) ∧
  ValidHam x.Hc (dtElems x.dt).length "A" ∧ ValidHam x.Hn (dtElems x.dt).length "B" ∧
  hamDim x.Hc = hamDim x.Hn ∧ BasisOk (hamDim x.Hc) x.basis

instance (x : ArgsSpec) : Decidable (ValidArgs x) := by unfold ValidArgs; infer_instance

def ArgsRegular (x : ArgsSpec) : Prop := HamRegular x.Hc ∧ HamRegular x.Hn

instance (x : ArgsSpec) : Decidable (ArgsRegular x) := by unfold ArgsRegular; infer_instance

/-- the basis argument is a `Basis` whose elements are not `d × d` -/
def BasisShapeWrong (d : Option Nat) : Option BasisSpec → Prop
  | some (.basis sh) => some sh.tail ≠ d.map fun d => [d, d]
  | _ => False

instance (d : Option Nat) (b : Option BasisSpec) : Decidable (BasisShapeWrong d b) := by
  unfold BasisShapeWrong; split <;> infer_instance

inductive ArgsKind
  /-- `dt` has no `__len__` -/
  | dtNotSequence
  /-- a duration is not real -/
  | dtNotReal
  /-- a duration is negative -/
  | dtNegative
  /-- the control Hamiltonian is corrupted in way `k` -/
  | control (k : HamKind)
  /-- the noise Hamiltonian is corrupted in way `k` -/
  | noise (k : HamKind)
  /-- control and noise operators have different dimensions -/
  | dimensionMismatch
  /-- `basis` is not a `Basis` -/
  | basisNotBasis
  /-- the elements of `basis` are not `d × d` -/
  | basisWrongShape
deriving DecidableEq, Repr

def ArgsKind.cls : ArgsKind → Err
  | .dtNotSequence => .typeError
  | .control k | .noise k => k.cls
  | _ => .valueError

def ArgsViolates (x : ArgsSpec) : ArgsKind → Prop
  | .dtNotSequence => x.dt = .noLen
  | .dtNotReal => ∃ e ∈ dtElems x.dt, e = .complex
  | .dtNegative => ∃ e ∈ dtElems x.dt, e = .neg
  | .control k => x.dt ≠ .noLen ∧ HamViolates x.Hc (dtElems x.dt).length "A" k
  | .noise k => x.dt ≠ .noLen ∧ HamViolates x.Hn (dtElems x.dt).length "B" k
  | .dimensionMismatch => ValidHam x.Hc (dtElems x.dt).length "A" ∧
      ValidHam x.Hn (dtElems x.dt).length "B" ∧ hamDim x.Hc ≠ hamDim x.Hn
  | .basisNotBasis => x.basis = some .notBasis
  | .basisWrongShape => ValidHam x.Hc (dtElems x.dt).length "A" ∧
      BasisShapeWrong (hamDim x.Hc) x.basis

instance (x : ArgsSpec) (k : ArgsKind) : Decidable (ArgsViolates x k) := by
  cases k <;> unfold ArgsViolates <;> infer_instance

theorem lastTwo_three (n a b : Nat) : lastTwo [n, a, b] = [a, b] := rfl

/-- (A) valid arguments are accepted; the result carries the sorted identifiers, the dimension of
the operators and the number of segments. -/
theorem parseArgs_of_valid {x : ArgsSpec} (hv : ValidArgs x) :
    ∃ d, hamDim x.Hc = some d ∧ parseArgs x = .ok
      ⟨Pulse.sortBy id (filledIds (hamItems x.Hc) "A"), Pulse.sortBy id (filledIds (hamItems x.Hn) "B"),
        d, (dtElems x.dt).length⟩ := by
  obtain ⟨hdt, hnn, hc, hn, hdim, hb⟩ := hv
  obtain ⟨d, hd, hpc⟩ := parseHamiltonian_of_valid hc
  obtain ⟨d', hd', hpn⟩ := parseHamiltonian_of_valid hn
  have hdd : d' = d := by rw [hd, hd'] at hdim; exact (Option.some.inj hdim).symm
  subst hdd
  refine ⟨d', hd, ?_⟩
  unfold parseArgs
  cases hx : x.dt with
  | noLen => exact absurd hx hdt
  | seq elems =>
    rw [hx] at hnn hpc hpn
    simp only [dtElems] at hnn hpc hpn ⊢
    have c1 : elems.any (· == .complex) = false := by
      rw [List.any_eq_false]; intro e he; rw [hnn e he]; decide
    have c2 : elems.any (· == .neg) = false := by
      rw [List.any_eq_false]; intro e he; rw [hnn e he]; decide
    simp only [c1, c2, hpc, hpn, lastTwo_three, Bool.false_eq_true, ↓reduceIte, bne_self_eq_false,
      List.getLastD_cons, List.getLastD_nil]
    cases hbb : x.basis with
    | none => rfl
    | some b =>
      rw [hbb, hd] at hb
      cases b with
      | notBasis => exact absurd hb (by simp [BasisOk])
      | basis sh =>
        simp only [BasisOk, Option.map_some, Option.some.injEq] at hb
        have : sh.drop 1 = [d', d'] := by rw [← hb]; cases sh <;> rfl
        simp [this]

/-- (B) under `ArgsRegular`, accepted arguments are valid. -/
theorem valid_of_parseArgs {x : ArgsSpec} {r : ArgsParsed} (hr : ArgsRegular x)
    (h : parseArgs x = .ok r) : ValidArgs x := by
  unfold parseArgs at h
  cases hx : x.dt with
  | noLen => rw [hx] at h; cases h
  | seq elems =>
    rw [hx] at h
    simp only at h
    split at h
    · cases h
    rename_i c1
    split at h
    · cases h
    rename_i c2
    split at h
    · cases h
    rename_i c hpc
    split at h
    · cases h
    rename_i n hpn
    obtain ⟨hvc, d, hd, rfl⟩ := parseHamiltonian_ok_eq hr.1 hpc
    obtain ⟨hvn, d', hd', rfl⟩ := parseHamiltonian_ok_eq hr.2 hpn
    simp only [lastTwo_three] at h
    split at h
    · cases h
    rename_i c3
    have hdd : d = d' := by
      have : [d, d] = [d', d'] := by simpa using c3
      exact (List.cons.inj this).1
    subst hdd
    have c1' : DtElem.complex ∉ elems := by simpa using c1
    have c2' : DtElem.neg ∉ elems := by simpa using c2
    refine ⟨by simp [hx], ?_, by simpa [hx, dtElems] using hvc, by simpa [hx, dtElems] using hvn,
      by rw [hd, hd'], ?_⟩
    · intro e he
      simp only [hx, dtElems] at he
      cases e with
      | nonneg => rfl
      | neg => exact absurd he c2'
      | complex => exact absurd he c1'
    · rw [hd]
      simp only [List.getLastD_cons, List.getLastD_nil] at h
      cases hb : x.basis with
      | none => trivial
      | some b =>
        rw [hb] at h
        cases b with
        | notBasis => cases h
        | basis sh =>
          simp only at h
          split at h
          · cases h
          rename_i c4
          have : sh.drop 1 = [d, d] := by simpa using c4
          simp only [BasisOk, Option.map_some, Option.some.injEq]
          rw [← this]; cases sh <;> rfl

/-- (C) every rejection is explained by a corruption of the reported class. -/
theorem parseArgs_error {x : ArgsSpec} {e : Err} (hr : ArgsRegular x)
    (h : parseArgs x = .error e) : ∃ k, ArgsViolates x k ∧ k.cls = e := by
  unfold parseArgs at h
  cases hx : x.dt with
  | noLen =>
    rw [hx] at h; cases h
    exact ⟨.dtNotSequence, hx, rfl⟩
  | seq elems =>
    rw [hx] at h
    simp only at h
    have hdt : x.dt ≠ .noLen := by simp [hx]
    split at h
    · rename_i c1; cases h
      obtain ⟨e', he', hc⟩ := List.any_eq_true.mp c1
      exact ⟨.dtNotReal, ⟨e', by simpa [hx, dtElems] using he', by simpa using hc⟩, rfl⟩
    split at h
    · rename_i c2; cases h
      obtain ⟨e', he', hc⟩ := List.any_eq_true.mp c2
      exact ⟨.dtNegative, ⟨e', by simpa [hx, dtElems] using he', by simpa using hc⟩, rfl⟩
    split at h
    · rename_i e' hpc; cases h
      obtain ⟨k, hk, hcls⟩ := parseHamiltonian_error hpc
      exact ⟨.control k, ⟨hdt, by simpa [hx, dtElems] using hk⟩, hcls⟩
    rename_i c hpc
    split at h
    · rename_i e' hpn; cases h
      obtain ⟨k, hk, hcls⟩ := parseHamiltonian_error hpn
      exact ⟨.noise k, ⟨hdt, by simpa [hx, dtElems] using hk⟩, hcls⟩
    rename_i n hpn
    obtain ⟨hvc, d, hd, rfl⟩ := parseHamiltonian_ok_eq hr.1 hpc
    obtain ⟨hvn, d', hd', rfl⟩ := parseHamiltonian_ok_eq hr.2 hpn
    simp only [lastTwo_three] at h
    split at h
    · rename_i c3; cases h
      refine ⟨.dimensionMismatch, ⟨by simpa [hx, dtElems] using hvc, by simpa [hx, dtElems] using hvn, ?_⟩, rfl⟩
      rw [hd, hd']
      intro hdd
      have : d = d' := Option.some.inj hdd
      subst this
      simp at c3
    rename_i c3
    simp only [List.getLastD_cons, List.getLastD_nil] at h
    cases hb : x.basis with
    | none => rw [hb] at h; cases h
    | some b =>
      rw [hb] at h
      cases b with
      | notBasis => cases h; exact ⟨.basisNotBasis, hb, rfl⟩
      | basis sh =>
        simp only at h
        split at h
        · rename_i c4; cases h
          refine ⟨.basisWrongShape, ⟨by simpa [hx, dtElems] using hvc, ?_⟩, rfl⟩
          rw [hb, hd]
          simp only [BasisShapeWrong, Option.map_some, ne_eq, Option.some.injEq]
          intro ht
          have : sh.drop 1 = [d, d] := by rw [← ht]; cases sh <;> rfl
          simp [this] at c4
        · cases h

theorem HamKind.cls_cases (k : HamKind) : k.cls = .typeError ∨ k.cls = .valueError := by
  cases k <;> simp [HamKind.cls]

/-- the exception class of `_parse_Hamiltonian` is `TypeError` or `ValueError` (all inputs) -/
theorem parseHamiltonian_error_cases {H : HamSpec} {nDt : Nat} {pre : String} {e : Err}
    (h : parseHamiltonian H nDt pre = .error e) : e = .typeError ∨ e = .valueError := by
  obtain ⟨k, -, hc⟩ := parseHamiltonian_error h
  rw [← hc]; exact k.cls_cases

/-- the exception class of `_parse_args` is `TypeError` or `ValueError` (all inputs) -/
theorem parseArgs_error_cases {x : ArgsSpec} {e : Err} (h : parseArgs x = .error e) :
    e = .typeError ∨ e = .valueError := by
  unfold parseArgs at h
  cases hx : x.dt with
  | noLen => rw [hx] at h; cases h; exact .inl rfl
  | seq elems =>
    rw [hx] at h
    simp only at h
    split at h
    · cases h; exact .inr rfl
    split at h
    · cases h; exact .inr rfl
    split at h
    · rename_i e' hpc; cases h; exact parseHamiltonian_error_cases hpc
    split at h
    · rename_i e' hpn; cases h; exact parseHamiltonian_error_cases hpn
    split at h
    · cases h; exact .inr rfl
    split at h
    · cases h
    · cases h; exact .inr rfl
    · split at h
      · cases h; exact .inr rfl
      · cases h

/-- (D) each catalogued corruption takes the arguments out of the documented domain. -/
theorem not_valid_of_argsViolates {x : ArgsSpec} {k : ArgsKind} (h : ArgsViolates x k) :
    ¬ ValidArgs x := by
  rintro ⟨hdt, hnn, hc, hn, hdim, hb⟩
  cases k with
  | dtNotSequence => exact hdt h
  | dtNotReal => obtain ⟨e, he, rfl⟩ := h; cases hnn _ he
  | dtNegative => obtain ⟨e, he, rfl⟩ := h; cases hnn _ he
  | control k => exact not_valid_of_hamViolates h.2 hc
  | noise k => exact not_valid_of_hamViolates h.2 hn
  | dimensionMismatch => exact h.2.2 hdim
  | basisNotBasis => rw [h] at hb; exact hb
  | basisWrongShape =>
    obtain ⟨-, h⟩ := h
    cases hbb : x.basis with
    | none => rw [hbb] at h; exact h
    | some b =>
      rw [hbb] at h hb
      cases b with
      | notBasis => exact h
      | basis sh => exact h hb

/-! ### `parse_spectrum` -/

/-- DOCUMENTED domain of `parse_spectrum` (docstrings of `infidelity`, `calculate_decay_amplitudes`:
"spectrum: array_like, shape ([[n_nops,] n_nops,] n_omega)"): one spectrum for all operators, one
per operator, or a matrix of cross-spectra which is Hermitian in its first two axes. -/
def ValidSpectrum (shape : List Nat) (nIdx nOmega : Nat) (herm : Bool) : Prop :=
  shape = [nOmega] ∨ shape = [nIdx, nOmega] ∨ (shape = [nIdx, nIdx, nOmega] ∧ herm = true)

instance (shape : List Nat) (nIdx nOmega : Nat) (herm : Bool) :
    Decidable (ValidSpectrum shape nIdx nOmega herm) := by unfold ValidSpectrum; infer_instance

/-- the spectrum is zero-dimensional, or an axis of length one would be stretched by
`np.broadcast_to` (accepted by the code, not covered by the documentation) -/
def Stretched (shape : List Nat) (nIdx nOmega : Nat) : Prop :=
  shape = [] ∨ ∃ p ∈ List.zip shape (spectrumTarget shape.length nIdx nOmega), p.1 = 1 ∧ p.2 ≠ 1

instance (shape : List Nat) (nIdx nOmega : Nat) : Decidable (Stretched shape nIdx nOmega) := by
  unfold Stretched; infer_instance

theorem parseSpectrum_error {shape : List Nat} {nIdx nOmega : Nat} {herm : Bool} {e : Err}
    (h : parseSpectrum shape nIdx nOmega herm = .error e) : e = .valueError := by
  unfold parseSpectrum at h
  simp only at h
  repeat' split at h
  all_goals first | (cases h; rfl) | cases h

theorem parseSpectrum_of_valid {shape : List Nat} {nIdx nOmega : Nat} {herm : Bool}
    (hv : ValidSpectrum shape nIdx nOmega herm) :
    parseSpectrum shape nIdx nOmega herm = .ok shape := by
  rcases hv with rfl | rfl | ⟨rfl, rfl⟩ <;>
    simp [parseSpectrum, spectrumTarget, broadcastable, List.replicate]

theorem parseSpectrum_ok {shape : List Nat} {nIdx nOmega : Nat} {herm : Bool} {r : List Nat}
    (h : parseSpectrum shape nIdx nOmega herm = .ok r) :
    broadcastable shape (spectrumTarget shape.length nIdx nOmega) = true ∧
    ((spectrumTarget shape.length nIdx nOmega).length = 3 → herm = true) ∧
    (spectrumTarget shape.length nIdx nOmega).length ≤ 3 := by
  unfold parseSpectrum at h
  simp only at h
  split at h
  · cases h
  rename_i c1
  split at h
  · cases h
  rename_i c2
  split at h
  · cases h
  rename_i c3
  refine ⟨by simpa using c1, ?_, by simpa using c3⟩
  intro h3
  cases herm with
  | true => rfl
  | false => simp [h3] at c2

theorem valid_of_parseSpectrum {shape : List Nat} {nIdx nOmega : Nat} {herm : Bool} {r : List Nat}
    (hs : ¬ Stretched shape nIdx nOmega) (h : parseSpectrum shape nIdx nOmega herm = .ok r) :
    ValidSpectrum shape nIdx nOmega herm := by
  obtain ⟨hb, hh, hl⟩ := parseSpectrum_ok h
  unfold Stretched at hs
  match shape, hs, hb, hh, hl with
  | [], hs, _, _, _ => exact absurd (Or.inl rfl) hs
  | [a], hs, hb, _, _ =>
    have hs' : a = 1 → nOmega = 1 := by
      intro ha; apply Classical.byContradiction; intro hne
      exact hs (Or.inr ⟨(a, nOmega), by simp [spectrumTarget], ha, hne⟩)
    have hb' : a = nOmega ∨ a = 1 := by simpa [broadcastable, spectrumTarget] using hb
    left
    rcases hb' with h1 | h1
    · rw [h1]
    · rw [h1, hs' h1]
  | [a, b], hs, hb, _, _ =>
    have hsa : a = 1 → nIdx = 1 := by
      intro ha; apply Classical.byContradiction; intro hne
      exact hs (Or.inr ⟨(a, nIdx), by simp [spectrumTarget], ha, hne⟩)
    have hsb : b = 1 → nOmega = 1 := by
      intro ha; apply Classical.byContradiction; intro hne
      exact hs (Or.inr ⟨(b, nOmega), by simp [spectrumTarget], ha, hne⟩)
    have hb' : (b = nOmega ∨ b = 1) ∧ (a = nIdx ∨ a = 1) := by
      simpa [broadcastable, spectrumTarget, List.replicate] using hb
    right; left
    have ha' : a = nIdx := by
      rcases hb'.2 with h1 | h1
      · exact h1
      · rw [h1, hsa h1]
    have hb'' : b = nOmega := by
      rcases hb'.1 with h1 | h1
      · exact h1
      · rw [h1, hsb h1]
    rw [ha', hb'']
  | [a, b, c], hs, hb, hh, _ =>
    have hsa : a = 1 → nIdx = 1 := by
      intro ha; apply Classical.byContradiction; intro hne
      exact hs (Or.inr ⟨(a, nIdx), by simp [spectrumTarget, List.replicate], ha, hne⟩)
    have hsb : b = 1 → nIdx = 1 := by
      intro ha; apply Classical.byContradiction; intro hne
      exact hs (Or.inr ⟨(b, nIdx), by simp [spectrumTarget, List.replicate], ha, hne⟩)
    have hsc : c = 1 → nOmega = 1 := by
      intro ha; apply Classical.byContradiction; intro hne
      exact hs (Or.inr ⟨(c, nOmega), by simp [spectrumTarget, List.replicate], ha, hne⟩)
    have hb' : (c = nOmega ∨ c = 1) ∧ (b = nIdx ∨ b = 1) ∧ (a = nIdx ∨ a = 1) := by
      simpa [broadcastable, spectrumTarget, List.replicate] using hb
    right; right
    have ha' : a = nIdx := by
      rcases hb'.2.2 with h1 | h1
      · exact h1
      · rw [h1, hsa h1]
    have hb'' : b = nIdx := by
      rcases hb'.2.1 with h1 | h1
      · exact h1
      · rw [h1, hsb h1]
    have hc' : c = nOmega := by
      rcases hb'.1 with h1 | h1
      · exact h1
      · rw [h1, hsc h1]
    exact ⟨by rw [ha', hb'', hc'], hh (by simp [spectrumTarget])⟩
  | a :: b :: c :: d :: rest, _, _, _, hl =>
    simp [spectrumTarget] at hl

/-! ### `get_indices_from_identifiers` -/

/-- DOCUMENTED domain: `identifiers` is `None`, an available identifier, or a sequence of
available identifiers (repetitions allowed) -/
def ValidRequest (known : List String) : Requested → Prop
  | .all => True
  | .single s => s ∈ known
  | .many l => ∀ s ∈ l, s ∈ known

instance (known : List String) (r : Requested) : Decidable (ValidRequest known r) := by
  cases r <;> unfold ValidRequest <;> infer_instance

/-- the identifiers a request names, in order -/
def requestedList (known : List String) : Requested → List String
  | .all => known
  | .single s => [s]
  | .many l => l

theorem lastIdx_spec {s : String} {known : List String} {i0 j : Nat}
    (h : lastIdx s known i0 = some j) : i0 ≤ j ∧ known[j - i0]? = some s := by
  induction known generalizing i0 with
  | nil => simp [lastIdx] at h
  | cons k ks ih =>
    unfold lastIdx at h
    split at h
    · rename_i j' hj'
      cases h
      obtain ⟨h1, h2⟩ := ih hj'
      refine ⟨by omega, ?_⟩
      have : j - i0 = (j - (i0 + 1)) + 1 := by omega
      rw [this, List.getElem?_cons_succ]; exact h2
    · split at h
      · rename_i hk
        cases h
        simp only [Nat.le_refl, Nat.sub_self, List.getElem?_cons_zero, Option.some.injEq, true_and]
        simpa using hk
      · cases h

theorem lastIdx_isSome_of_mem {s : String} {known : List String} (i0 : Nat) (h : s ∈ known) :
    (lastIdx s known i0).isSome := by
  induction known generalizing i0 with
  | nil => cases h
  | cons k ks ih =>
    unfold lastIdx
    split
    · rfl
    · rename_i hnone
      rcases List.mem_cons.mp h with rfl | hm
      · simp
      · have := ih (i0 + 1) hm
        rw [hnone] at this; cases this

/-- the position returned for an available identifier holds that identifier, and no later
position does (the dict keeps the LAST occurrence) -/
theorem lastIdx_last {s : String} {known : List String} (i0 : Nat) {j : Nat}
    (h : lastIdx s known i0 = some j) : ∀ k, j - i0 < k → known[k]? ≠ some s := by
  induction known generalizing i0 with
  | nil => simp [lastIdx] at h
  | cons x xs ih =>
    unfold lastIdx at h
    intro k hk
    split at h
    · rename_i j' hj'
      cases h
      have h1 := (lastIdx_spec hj').1
      cases k with
      | zero => omega
      | succ k' =>
        rw [List.getElem?_cons_succ]
        exact ih (i0 + 1) hj' k' (by omega)
    · rename_i hnone
      split at h
      · cases k with
        | zero => have := Option.some.inj h; omega
        | succ k' =>
          rw [List.getElem?_cons_succ]
          intro hks
          have hm : s ∈ xs := List.mem_of_getElem? hks
          have := lastIdx_isSome_of_mem (i0 + 1) hm
          rw [hnone] at this; cases this
      · cases h

theorem getD_lastIdx {s : String} {known : List String} (h : s ∈ known) :
    known[(lastIdx s known 0).getD 0]? = some s := by
  obtain ⟨j, hj⟩ := Option.isSome_iff_exists.mp (lastIdx_isSome_of_mem 0 h)
  rw [hj]; simpa using (lastIdx_spec hj).2

theorem indices_error_iff (known : List String) (r : Requested) (e : Err) :
    indicesFromIdentifiers known r = .error e ↔ ¬ ValidRequest known r ∧ e = .valueError := by
  cases r with
  | all => simp [indicesFromIdentifiers, ValidRequest]
  | single s =>
    simp only [indicesFromIdentifiers, ValidRequest, List.contains_iff_mem]
    split
    · rename_i h; simp [h]
    · rename_i h; simp [h]; exact eq_comm
  | many l =>
    simp only [indicesFromIdentifiers, ValidRequest]
    split
    · rename_i h
      have : ∀ s ∈ l, s ∈ known := by simpa using h
      constructor
      · intro h'; cases h'
      · rintro ⟨h', -⟩; exact absurd this h'
    · rename_i h
      have : ¬ ∀ s ∈ l, s ∈ known := by simpa using h
      constructor
      · intro h'; cases h'; exact ⟨this, rfl⟩
      · rintro ⟨-, rfl⟩; rfl

/-- the indices returned point at the requested identifiers, in the requested order -/
theorem indices_ok_spec {known : List String} {r : Requested} {is : List Nat}
    (h : indicesFromIdentifiers known r = .ok is) :
    is.map (fun i => known[i]?) = (requestedList known r).map some := by
  cases r with
  | all =>
    simp only [indicesFromIdentifiers, Except.ok.injEq] at h
    subst h
    simp only [requestedList]
    apply List.ext_getElem?
    intro i
    simp only [List.getElem?_map]
    by_cases hi : i < known.length
    · simp [hi]
    · simp [hi]
  | single s =>
    simp only [indicesFromIdentifiers] at h
    split at h
    · rename_i hm
      cases h
      simp [requestedList, getD_lastIdx (by simpa using hm)]
    · cases h
  | many l =>
    simp only [indicesFromIdentifiers] at h
    split at h
    · rename_i hm
      have hm' : ∀ s ∈ l, s ∈ known := by simpa using hm
      cases h
      simp only [requestedList, List.map_map]
      apply List.map_congr_left
      intro s hs
      exact getD_lastIdx (hm' s hs)
    · cases h

/-! ### `parse_optional_parameters` -/

theorem find?_key_of_nodup {α κ : Type} [DecidableEq κ] (key : α → κ) (l : List α)
    (hn : (l.map key).Nodup) {a : α} (ha : a ∈ l) (p : α → Bool)
    (hp : ∀ b, p b = (key b == key a)) : l.find? p = some a := by
  induction l with
  | nil => cases ha
  | cons x xs ih =>
    rw [List.map_cons, List.nodup_cons] at hn
    rcases List.mem_cons.mp ha with rfl | hm
    · rw [List.find?_cons, hp]; simp
    · have hne : key x ≠ key a := by
        intro heq; exact hn.1 (heq ▸ List.mem_map.mpr ⟨a, hm, rfl⟩)
      rw [List.find?_cons, hp]
      have : (key x == key a) = false := by simpa using hne
      rw [this]
      exact ih hn.2 hm

theorem options_keys_nodup : (Gen.options.map fun e => (e.1, e.2.1)).Nodup := by decide

theorem allowedFor_of_mem {e : String × String × List String} (h : e ∈ Gen.options) :
    allowedFor e.1 e.2.1 = some e.2.2 := by
  unfold allowedFor
  rw [find?_key_of_nodup (fun e : String × String × List String => (e.1, e.2.1)) Gen.options
    options_keys_nodup h]
  · rfl
  · intro b
    cases h1 : (b.1 == e.1) <;> cases h2 : (b.2.1 == e.2.1) <;> simp_all [Prod.ext_iff]

theorem allowedFor_none_of_not_mem {func param : String}
    (h : ∀ e ∈ Gen.options, ¬ (e.1 = func ∧ e.2.1 = param)) : allowedFor func param = none := by
  unfold allowedFor
  rw [Option.map_eq_none_iff, List.find?_eq_none]
  intro e he
  have := h e he
  simp only [Bool.and_eq_true, beq_iff_eq]
  exact this

/-! ### `concatenate_without_filter_function`, `concatenate` -/

open Pulse in
/-- some operator appears under two different identifiers (in one pulse or in two) -/
def OpClash (hams : List (List Term)) : Prop :=
  ∃ ts ∈ hams, ∃ t ∈ ts, ∃ ts' ∈ hams, ∃ t' ∈ ts', t.op = t'.op ∧ t.id ≠ t'.id

open Pulse in
/-- some noise operator is absent from a pulse (with segments) while its sensitivities in the
pulses that have it are not one constant — they "cannot be inferred" -/
def SensClash (hams : List (List Term)) : Prop :=
  ∃ u ∈ allOps hams,
    (∃ ts ∈ hams, 0 < segCount ts ∧ ∀ t ∈ ts, t.op ≠ u) ∧
    (∃ ts ∈ hams, ∃ t ∈ ts, ∃ ts' ∈ hams, ∃ t' ∈ ts', t.op = u ∧ t'.op = u ∧
      ∃ c ∈ t.coeffs, ∃ c' ∈ t'.coeffs, c ≠ c')

instance (hams : List (List Pulse.Term)) : Decidable (OpClash hams) := by
  unfold OpClash; infer_instance
instance (hams : List (List Pulse.Term)) : Decidable (SensClash hams) := by
  unfold SensClash; infer_instance

/-- DOCUMENTED domain of `concatenate_without_filter_function(pulses)`: a non-empty sequence of
`PulseSequence`s of one dimension and one basis, in which no control and no noise operator
carries two different identifiers and every noise operator missing from some pulse has a constant
sensitivity elsewhere. -/
def ValidConcat (pulses : List CPulse) : Prop :=
  pulses ≠ [] ∧ (∀ p ∈ pulses, p.isPulse = true) ∧
  (∀ p ∈ pulses, ∀ q ∈ pulses, p.d = q.d) ∧
  (∀ p ∈ pulses, ∀ q ∈ pulses, p.basisValue = q.basisValue) ∧
  ¬ OpClash (pulses.map (·.cTerms)) ∧ ¬ OpClash (pulses.map (·.nTerms)) ∧
  ¬ SensClash (pulses.map (·.nTerms))

instance (pulses : List CPulse) : Decidable (ValidConcat pulses) := by
  unfold ValidConcat; infer_instance

/-- class invariants of the pulses (identifiers unique within a Hamiltonian, at least one segment)
and the condition excluding the byte-wise comparison discrepancy: bases that are equal as arrays
have equal bytes -/
def ConcatRegular (pulses : List CPulse) : Prop :=
  (∀ p ∈ pulses, ∀ q ∈ pulses, p.basisValue = q.basisValue → p.basisBytes = q.basisBytes) ∧
  (∀ p ∈ pulses, ∀ q ∈ pulses, p.basisBytes = q.basisBytes → p.basisValue = q.basisValue) ∧
  Pulse.IdsUnique (pulses.map (·.cTerms)) ∧ Pulse.IdsUnique (pulses.map (·.nTerms)) ∧
  (∀ ts ∈ pulses.map (·.cTerms), ∀ t ∈ ts, t.coeffs ≠ []) ∧
  (∀ ts ∈ pulses.map (·.nTerms), ∀ t ∈ ts, t.coeffs ≠ [])

instance (pulses : List CPulse) : Decidable (ConcatRegular pulses) := by
  unfold ConcatRegular Pulse.IdsUnique; infer_instance

theorem nDistinct_map_ne_one_iff {α β : Type} [BEq β] [LawfulBEq β] (l : List α) (f : α → β) :
    (nDistinct (l.map f) != 1) = true ↔ l = [] ∨ ∃ a ∈ l, ∃ b ∈ l, f a ≠ f b := by
  rw [bne_iff_ne, ne_eq, nDistinct_eq_one_iff]
  constructor
  · intro h
    cases l with
    | nil => exact .inl rfl
    | cons x xs =>
      right
      apply Classical.byContradiction
      intro hne
      apply h
      refine ⟨f x, by simp, ?_⟩
      intro b hb
      obtain ⟨a, ha, rfl⟩ := List.mem_map.mp hb
      apply Classical.byContradiction
      intro hab
      exact hne ⟨a, ha, x, by simp, hab⟩
  · rintro (rfl | ⟨a, ha, b, hb, hab⟩) ⟨c, hne, hc⟩
    · exact hne rfl
    · exact hab ((hc _ (List.mem_map.mpr ⟨a, ha, rfl⟩)).trans (hc _ (List.mem_map.mpr ⟨b, hb, rfl⟩)).symm)

/-- the Hamiltonian bookkeeping fails — with a `ValueError` — exactly on a clash -/
theorem concatHamiltonian_cases (hams : List (List Pulse.Term)) (kind : Pulse.Kind)
    (hid : Pulse.IdsUnique hams) (hseg : ∀ ts ∈ hams, ∀ t ∈ ts, t.coeffs ≠ []) :
    ((OpClash hams ∨ (kind = .noise ∧ SensClash hams)) ∧
      Pulse.concatHamiltonian hams kind = .error "ValueError") ∨
    (¬ (OpClash hams ∨ (kind = .noise ∧ SensClash hams)) ∧
      ∃ r, Pulse.concatHamiltonian hams kind = .ok r) := by
  have hiff := C03a.concat_errors_iff hams kind id (Pulse.visitOk_id hams) hid hseg
  cases hres : Pulse.concatHamiltonian hams kind with
  | error e =>
    have he := C03a.concat_error_is_valueError hams kind id (Pulse.visitOk_id hams) hseg e hres
    subst he
    left
    exact ⟨hiff.mp hres, rfl⟩
  | ok r =>
    right
    refine ⟨fun h => ?_, r, rfl⟩
    have := hiff.mpr h
    rw [hres] at this; cases this

inductive ConcatKind
  /-- an entry is not a `PulseSequence` -/
  | notPulse
  /-- no pulses -/
  | empty
  /-- different dimensions -/
  | dimension
  /-- different bases -/
  | basis
  /-- a control operator under two identifiers -/
  | controlIdentifiers
  /-- a noise operator under two identifiers -/
  | noiseIdentifiers
  /-- sensitivities cannot be inferred -/
  | sensitivities
deriving DecidableEq, Repr

def ConcatKind.cls : ConcatKind → Err
  | .notPulse => .typeError
  | _ => .valueError

def ConcatViolates (pulses : List CPulse) : ConcatKind → Prop
  | .notPulse => ∃ p ∈ pulses, p.isPulse = false
  | .empty => pulses = []
  | .dimension => ∃ p ∈ pulses, ∃ q ∈ pulses, p.d ≠ q.d
  | .basis => ∃ p ∈ pulses, ∃ q ∈ pulses, p.basisValue ≠ q.basisValue
  | .controlIdentifiers => OpClash (pulses.map (·.cTerms))
  | .noiseIdentifiers => OpClash (pulses.map (·.nTerms))
  | .sensitivities => SensClash (pulses.map (·.nTerms))

/-- `concatenate_without_filter_function`: accepted iff valid; every rejection is explained -/
theorem concatWithoutFF_spec (pulses : List CPulse) (hr : ConcatRegular pulses) :
    (ValidConcat pulses ∧ concatWithoutFFChecks pulses = .ok ()) ∨
    (¬ ValidConcat pulses ∧ ∃ k, ConcatViolates pulses k ∧
      concatWithoutFFChecks pulses = .error k.cls) := by
  obtain ⟨hbv, hvb, hidc, hidn, hsegc, hsegn⟩ := hr
  unfold concatWithoutFFChecks
  split
  · rename_i c1
    obtain ⟨p, hp, hf⟩ := List.any_eq_true.mp c1
    have hf' : p.isPulse = false := by simpa using hf
    right
    have hnv : ¬ ValidConcat pulses := by
      intro hv; have := hv.2.1 p hp; rw [hf'] at this; cases this
    exact ⟨hnv, .notPulse, ⟨p, hp, hf'⟩, rfl⟩
  rename_i c1
  have c1' : ∀ p ∈ pulses, p.isPulse = true := by simpa using c1
  split
  · rename_i c2
    right
    rcases (nDistinct_map_ne_one_iff pulses (·.d)).mp c2 with rfl | ⟨a, ha, b, hb, hab⟩
    · exact ⟨fun hv => hv.1 rfl, .empty, rfl, rfl⟩
    · exact ⟨fun hv => hab (hv.2.2.1 a ha b hb), .dimension, ⟨a, ha, b, hb, hab⟩, rfl⟩
  rename_i c2
  have c2' := (not_congr (nDistinct_map_ne_one_iff pulses (·.d))).mp c2
  have hne : pulses ≠ [] := fun h => c2' (.inl h)
  have hd : ∀ p ∈ pulses, ∀ q ∈ pulses, p.d = q.d := by
    intro p hp q hq
    apply Classical.byContradiction
    intro h; exact c2' (.inr ⟨p, hp, q, hq, h⟩)
  split
  · rename_i c3
    right
    rcases (nDistinct_map_ne_one_iff pulses (·.basisBytes)).mp c3 with rfl | ⟨a, ha, b, hb, hab⟩
    · exact absurd rfl hne
    · have : a.basisValue ≠ b.basisValue := fun h => hab (hbv a ha b hb h)
      exact ⟨fun hv => this (hv.2.2.2.1 a ha b hb), .basis, ⟨a, ha, b, hb, this⟩, rfl⟩
  rename_i c3
  have c3' := (not_congr (nDistinct_map_ne_one_iff pulses (·.basisBytes))).mp c3
  have hb : ∀ p ∈ pulses, ∀ q ∈ pulses, p.basisValue = q.basisValue := by
    intro p hp q hq
    apply hvb p hp q hq
    apply Classical.byContradiction
    intro h; exact c3' (.inr ⟨p, hp, q, hq, h⟩)
  rcases concatHamiltonian_cases (pulses.map (·.cTerms)) .control hidc hsegc with
    ⟨hcl, hres⟩ | ⟨hncl, r, hres⟩
  · rw [hres]
    right
    have hcl' : OpClash (pulses.map (·.cTerms)) := by
      rcases hcl with h | ⟨h, -⟩
      · exact h
      · cases h
    exact ⟨fun hv => hv.2.2.2.2.1 hcl', .controlIdentifiers, hcl', rfl⟩
  rw [hres]
  have hnc : ¬ OpClash (pulses.map (·.cTerms)) := fun h => hncl (.inl h)
  rcases concatHamiltonian_cases (pulses.map (·.nTerms)) .noise hidn hsegn with
    ⟨hcl, hres⟩ | ⟨hncl, r, hres⟩
  · rw [hres]
    right
    rcases hcl with h | ⟨-, h⟩
    · exact ⟨fun hv => hv.2.2.2.2.2.1 h, .noiseIdentifiers, h, rfl⟩
    · exact ⟨fun hv => hv.2.2.2.2.2.2 h, .sensitivities, h, rfl⟩
  rw [hres]
  left
  exact ⟨⟨hne, c1', hd, hb, hnc, fun h => hncl (.inl h), fun h => hncl (.inr ⟨rfl, h⟩)⟩, rfl⟩

/-- DOCUMENTED requirement on the frequencies of `concatenate`: when the filter function is forced
(`calc_filter_function=True`) or pulse-correlation filter functions are requested and no `omega`
is given, the cached frequencies that are compared (of the pulses with a cached control matrix if
any, else of the pulses with cached frequencies) exist and are all equal. -/
def FreqOk (pulses : List CPulse) (o : ConcatOpts) : Prop :=
  (o.calcFF = some true ∨ o.calcPc = true) → o.omegaGiven = false →
    ∃ g, relevantOmegas pulses (·.omegaValue) ≠ [] ∧ ∀ h ∈ relevantOmegas pulses (·.omegaValue), h = g

/-- frequencies that are equal as arrays have equal bytes and vice versa -/
def OmegaRegular (pulses : List CPulse) : Prop :=
  ∀ p ∈ pulses, ∀ q ∈ pulses, (p.omegaBytes = q.omegaBytes ↔ p.omegaValue = q.omegaValue)

instance (pulses : List CPulse) : Decidable (OmegaRegular pulses) := by
  unfold OmegaRegular; infer_instance

theorem relevantOmegas_equal_iff (pulses : List CPulse) (hr : OmegaRegular pulses) :
    equalOmegaBytes (relevantOmegas pulses (·.omegaBytes)) = true ↔
      ∃ g, relevantOmegas pulses (·.omegaValue) ≠ [] ∧
        ∀ h ∈ relevantOmegas pulses (·.omegaValue), h = g := by
  unfold equalOmegaBytes relevantOmegas
  rw [beq_iff_eq, nDistinct_eq_one_iff]
  split
  all_goals
    constructor
    · rintro ⟨a, hne, ha⟩
      have hne' : ∀ {f : CPulse → Option Nat} {l : List CPulse}, l.map f ≠ [] → l ≠ [] := by
        intro f l h hl; subst hl; exact h rfl
      have hl := hne' hne
      obtain ⟨p0, hp0⟩ := List.exists_mem_of_ne_nil _ hl
      refine ⟨p0.omegaValue, by simpa using hl, ?_⟩
      intro h hh
      obtain ⟨p, hp, rfl⟩ := List.mem_map.mp hh
      have e1 := ha _ (List.mem_map.mpr ⟨p, hp, rfl⟩)
      have e2 := ha _ (List.mem_map.mpr ⟨p0, hp0, rfl⟩)
      exact (hr p (List.mem_filter.mp hp).1 p0 (List.mem_filter.mp hp0).1).mp (e1.trans e2.symm)
    · rintro ⟨g, hne, hg⟩
      have hne' : ∀ {f : CPulse → Option Nat} {l : List CPulse}, l.map f ≠ [] → l ≠ [] := by
        intro f l h hl; subst hl; exact h rfl
      have hl := hne' hne
      obtain ⟨p0, hp0⟩ := List.exists_mem_of_ne_nil _ hl
      refine ⟨p0.omegaBytes, by simpa using hl, ?_⟩
      intro h hh
      obtain ⟨p, hp, rfl⟩ := List.mem_map.mp hh
      have e1 := hg _ (List.mem_map.mpr ⟨p, hp, rfl⟩)
      have e2 := hg _ (List.mem_map.mpr ⟨p0, hp0, rfl⟩)
      exact (hr p (List.mem_filter.mp hp).1 p0 (List.mem_filter.mp hp0).1).mpr (e1.trans e2.symm)

/-- the frequency checks of `concatenate` (after `concatenate_without_filter_function` passed) -/
theorem concatChecks_freq (pulses : List CPulse) (o : ConcatOpts)
    (hl : concatShortcut pulses o = false)
    (hw : concatWithoutFFChecks pulses = .ok ()) (hr : OmegaRegular pulses) :
    (FreqOk pulses o ∧ concatChecks pulses o = .ok ()) ∨
    (¬ FreqOk pulses o ∧ concatChecks pulses o = .error .valueError) := by
  unfold concatChecks
  rw [hl, hw]
  simp only [Bool.false_eq_true, ↓reduceIte]
  have hiff := relevantOmegas_equal_iff pulses hr
  unfold FreqOk
  cases hff : o.calcFF with
  | none =>
    cases hpc : o.calcPc <;> cases hom : o.omegaGiven <;>
      by_cases heq : equalOmegaBytes (relevantOmegas pulses (·.omegaBytes)) = true <;>
      simp [heq, ← hiff]
  | some b =>
    cases b <;> cases hpc : o.calcPc <;> cases hom : o.omegaGiven <;>
      by_cases heq : equalOmegaBytes (relevantOmegas pulses (·.omegaBytes)) = true <;>
      simp [heq, ← hiff]

/-! ### `extend` -/

theorem mem_orderedPulses {x : ExtendSpec} {p : EPulse} : p ∈ orderedPulses x ↔ p ∈ x.pulses := by
  unfold orderedPulses
  simp only [List.mem_append, List.mem_filter]
  constructor
  · rintro (⟨h, -⟩ | ⟨h, -⟩) <;> exact h
  · intro h
    by_cases hs : p.isSingle = true
    · right; exact ⟨h, hs⟩
    · left; exact ⟨h, by simpa using hs⟩

theorem orderedPulses_ne_nil {x : ExtendSpec} (h : x.pulses ≠ []) : orderedPulses x ≠ [] := by
  obtain ⟨p, hp⟩ := List.exists_mem_of_ne_nil _ h
  exact List.ne_nil_of_mem (mem_orderedPulses.mpr hp)

theorem dedup_length_eq_iff {α : Type} [BEq α] [LawfulBEq α] (l : List α) :
    (Pulse.dedup l).length = l.length ↔ l.Nodup := by
  induction l with
  | nil => simp [Pulse.dedup]
  | cons x xs ih =>
    simp only [Pulse.dedup, List.length_cons, List.nodup_cons, Nat.add_right_cancel_iff]
    have h1 := List.length_filter_le (fun y => y != x) (Pulse.dedup xs)
    have h2 := dedup_length_le xs
    constructor
    · intro h
      have hd : (Pulse.dedup xs).length = xs.length := by omega
      have hf : ((Pulse.dedup xs).filter (fun y => y != x)).length = (Pulse.dedup xs).length := by omega
      refine ⟨?_, ih.mp hd⟩
      intro hx
      have hx' : x ∈ Pulse.dedup xs := (mem_dedup xs x).mpr hx
      have := (List.length_filter_eq_length_iff.mp hf) x hx'
      simp at this
    · rintro ⟨hx, hn⟩
      have hd := ih.mpr hn
      rw [← hd]
      apply List.length_filter_eq_length_iff.mpr
      intro a ha
      have : a ∈ xs := (mem_dedup xs a).mp ha
      simp only [bne_iff_ne, ne_eq]
      rintro rfl; exact hx this

theorem foldl_max_lt (l : List Nat) (m n : Nat) :
    l.foldl max m < n ↔ m < n ∧ ∀ q ∈ l, q < n := by
  induction l generalizing m with
  | nil => simp
  | cons a as ih =>
    simp only [List.foldl_cons, ih, List.mem_cons, forall_eq_or_imp, Nat.max_lt]
    constructor
    · rintro ⟨⟨h1, h2⟩, h3⟩; exact ⟨h1, h2, h3⟩
    · rintro ⟨h1, h2, h3⟩; exact ⟨⟨h1, h2⟩, h3⟩

/-- highest qubit index used -/
def lastQubit (x : ExtendSpec) : Nat := (activeQubits x).foldl max 0

/-- the size of the register of the extended pulse -/
def extendN (x : ExtendSpec) : Nat := x.N.getD (lastQubit x + 1)

/-- DOCUMENTED domain of the mapping argument of `extend`: at least one entry; every pulse is
mapped to as many (at least one) qubits as its dimension `d_per_qubit ** n` says; all pulses are
defined on the same time steps; no qubit is used twice; `N`, if given, exceeds every qubit index. -/
def ValidExtendFront (x : ExtendSpec) : Prop :=
  x.pulses ≠ [] ∧
  (∀ p ∈ x.pulses, p.qubits ≠ [] ∧ p.d = x.dPerQubit ^ p.qubits.length) ∧
  (∀ p ∈ x.pulses, ∀ q ∈ x.pulses, p.dtValue = q.dtValue) ∧
  (activeQubits x).Nodup ∧
  (match x.N with | some n => ∀ q ∈ activeQubits x, q < n | none => True)

instance (x : ExtendSpec) : Decidable (ValidExtendFront x) := by
  unfold ValidExtendFront; cases x.N <;> infer_instance

/-- side conditions for the mapping checks: a bare int is one qubit (invariant of the
abstraction); time grids that are equal as arrays have equal bytes and vice versa (excludes the
`all_array_equal` discrepancy); NumPy's `int(log(d)/log(d_per_qubit))` is exact for the pulses
whose dimension is the right power (excludes the `remap` discrepancy); the entries that are passed
through `remap` (qubits not an ascending tuple) have unique control and unique noise identifiers
of their own (invariant of `PulseSequence` — every public way to build one yields unique
identifiers since the repair of F48; a pulse whose identifier arrays were overwritten with
repetitions is rejected by the inner `remap` in the first loop, "Could not remap …", instead of at
the uniqueness check further down: `extend_own_duplicates_rejected` in `Props/C20`) -/
def ExtendRegularFront (x : ExtendSpec) : Prop :=
  (∀ p ∈ x.pulses, p.form = .bareInt → p.qubits.length = 1) ∧
  (∀ p ∈ x.pulses, ∀ q ∈ x.pulses, (p.dtBytes = q.dtBytes ↔ p.dtValue = q.dtValue)) ∧
  (∀ p ∈ x.pulses, p.d = x.dPerQubit ^ p.qubits.length → p.logN = p.qubits.length) ∧
  (∀ p ∈ x.pulses, p.remapped = true → p.cIds.Nodup ∧ p.nIds.Nodup)

instance (x : ExtendSpec) : Decidable (ExtendRegularFront x) := by
  unfold ExtendRegularFront; infer_instance

inductive ExtFrontKind
  /-- empty mapping -/
  | empty
  /-- a pulse is mapped to no qubit, or its dimension is not `d_per_qubit ** (number of qubits)` -/
  | dimension
  /-- unequal time grids -/
  | timeGrid
  /-- a qubit is used twice -/
  | qubitClash
  /-- `N` is not larger than the highest qubit index -/
  | registerTooSmall
deriving DecidableEq, Repr

def ExtFrontViolates (x : ExtendSpec) : ExtFrontKind → Prop
  | .empty => x.pulses = []
  | .dimension => ∃ p ∈ x.pulses, p.qubits = [] ∨ p.d ≠ x.dPerQubit ^ p.qubits.length
  | .timeGrid => ∃ p ∈ x.pulses, ∃ q ∈ x.pulses, p.dtValue ≠ q.dtValue
  | .qubitClash => ¬ (activeQubits x).Nodup
  | .registerTooSmall => ∃ n, x.N = some n ∧ ∃ q ∈ activeQubits x, n ≤ q

theorem single_length {x : ExtendSpec} (hinv : ∀ p ∈ x.pulses, p.form = .bareInt → p.qubits.length = 1)
    {p : EPulse} (hp : p ∈ x.pulses) (hs : p.isSingle = true) : p.qubits.length = 1 := by
  unfold EPulse.isSingle at hs
  simp only [Bool.or_eq_true, beq_iff_eq] at hs
  rcases hs with h | h
  · exact hinv p hp h
  · exact h

/-- the mapping checks of `extend`: accepted iff valid, every rejection a `ValueError` explained by
a catalogued corruption -/
theorem extendFront_spec (x : ExtendSpec) (hr : ExtendRegularFront x) :
    (ValidExtendFront x ∧ extendFront x = .ok (extendN x)) ∨
    (¬ ValidExtendFront x ∧ (∃ k, ExtFrontViolates x k) ∧ extendFront x = .error .valueError) := by
  obtain ⟨hinv, hdt, hlog, hown⟩ := hr
  unfold extendFront
  split
  · rename_i c1
    have : x.pulses = [] := by simpa using c1
    right; exact ⟨fun hv => hv.1 this, ⟨.empty, this⟩, rfl⟩
  rename_i c1
  have hne : x.pulses ≠ [] := by simpa using c1
  split
  · rename_i c2
    obtain ⟨p, hp, hf⟩ := List.any_eq_true.mp c2
    have hbad : p.qubits = [] ∨ p.d ≠ x.dPerQubit ^ p.qubits.length := by
      unfold EPulse.loopFails at hf
      simp only [Bool.and_eq_true, Bool.not_eq_true', Bool.or_eq_true, List.isEmpty_iff] at hf
      rcases hf.2 with h | ⟨hnr, h⟩
      · exact .inl h
      · right
        intro hd
        have hl := hlog p hp hd
        have hrm : p.remapped = true := by simp [EPulse.remapped, hf.1, hnr]
        obtain ⟨hc, hn⟩ := hown p hp hrm
        unfold EPulse.remapOk at h
        rw [hl] at h
        simp [hd, (hasDup_eq_false_iff _).mpr hc, (hasDup_eq_false_iff _).mpr hn] at h
    right
    refine ⟨fun hv => ?_, ⟨.dimension, p, hp, hbad⟩, rfl⟩
    have := hv.2.1 p hp
    rcases hbad with h | h
    · exact this.1 h
    · exact h this.2
  rename_i c2
  have c2' : ∀ p ∈ x.pulses, p.loopFails x.dPerQubit = false := by simpa using c2
  split
  · rename_i c3
    have : ∃ p ∈ x.pulses, p.isSingle = true ∧ ¬ p.d = x.dPerQubit := by simpa using c3
    obtain ⟨p, hp, hs, hd⟩ := this
    have hl := single_length hinv hp hs
    have hbad : p.d ≠ x.dPerQubit ^ p.qubits.length := by rw [hl]; simpa using hd
    right
    exact ⟨fun hv => hbad (hv.2.1 p hp).2, ⟨.dimension, p, hp, .inr hbad⟩, rfl⟩
  rename_i c3
  have c3' : ∀ p ∈ x.pulses, p.isSingle = true → p.d = x.dPerQubit := by simpa using c3
  split
  · rename_i c4
    have : ∃ p ∈ x.pulses, p.isSingle = false ∧ ¬ p.d = x.dPerQubit ^ p.qubits.length := by
      simpa using c4
    obtain ⟨p, hp, -, hd⟩ := this
    right
    exact ⟨fun hv => hd (hv.2.1 p hp).2, ⟨.dimension, p, hp, .inr hd⟩, rfl⟩
  rename_i c4
  have c4' : ∀ p ∈ x.pulses, p.isSingle = false → p.d = x.dPerQubit ^ p.qubits.length := by
    simpa using c4
  have hdim : ∀ p ∈ x.pulses, p.qubits ≠ [] ∧ p.d = x.dPerQubit ^ p.qubits.length := by
    intro p hp
    cases hs : p.isSingle
    · refine ⟨?_, c4' p hp hs⟩
      have := c2' p hp
      unfold EPulse.loopFails at this
      simp only [hs, Bool.not_false, Bool.true_and, Bool.or_eq_false_iff, List.isEmpty_eq_false_iff] at this
      exact this.1
    · have hl := single_length hinv hp hs
      refine ⟨fun h => by simp [h] at hl, ?_⟩
      rw [hl, c3' p hp hs]; simp
  split
  · rename_i c5
    rcases (nDistinct_map_ne_one_iff (orderedPulses x) (·.dtBytes)).mp c5 with h | ⟨a, ha, b, hb, hab⟩
    · exact absurd h (orderedPulses_ne_nil hne)
    · have ha' := mem_orderedPulses.mp ha
      have hb' := mem_orderedPulses.mp hb
      have : a.dtValue ≠ b.dtValue := fun h => hab ((hdt a ha' b hb').mpr h)
      right
      exact ⟨fun hv => this (hv.2.2.1 a ha' b hb'), ⟨.timeGrid, a, ha', b, hb', this⟩, rfl⟩
  rename_i c5
  have c5' := (not_congr (nDistinct_map_ne_one_iff (orderedPulses x) (·.dtBytes))).mp c5
  have hdtv : ∀ p ∈ x.pulses, ∀ q ∈ x.pulses, p.dtValue = q.dtValue := by
    intro p hp q hq
    apply (hdt p hp q hq).mp
    apply Classical.byContradiction
    intro h
    exact c5' (.inr ⟨p, mem_orderedPulses.mpr hp, q, mem_orderedPulses.mpr hq, h⟩)
  split
  · rename_i c6
    have : ¬ (activeQubits x).Nodup := by
      intro hn
      have := (dedup_length_eq_iff _).mpr hn
      simp [nDistinct, this] at c6
    right
    exact ⟨fun hv => this hv.2.2.2.1, ⟨.qubitClash, this⟩, rfl⟩
  rename_i c6
  have hnd : (activeQubits x).Nodup := by
    apply (dedup_length_eq_iff _).mp
    simpa [nDistinct] using c6
  have hact : activeQubits x ≠ [] := by
    obtain ⟨p, hp⟩ := List.exists_mem_of_ne_nil _ hne
    obtain ⟨q, hq⟩ := List.exists_mem_of_ne_nil _ (hdim p hp).1
    exact List.ne_nil_of_mem (List.mem_flatMap.mpr ⟨p, hp, hq⟩)
  cases hN : x.N with
  | none =>
    left
    refine ⟨⟨hne, hdim, hdtv, hnd, by simp [hN]⟩, ?_⟩
    simp [extendN, lastQubit, hN]
  | some n =>
    by_cases hlt : (activeQubits x).foldl max 0 < n
    · left
      refine ⟨⟨hne, hdim, hdtv, hnd, ?_⟩, ?_⟩
      · simp only [hN]; exact ((foldl_max_lt _ _ _).mp hlt).2
      · have : ¬ ((activeQubits x).foldl max 0 + 1 > n) := by omega
        simp [extendN, hN, this]
    · have hex : ∃ q ∈ activeQubits x, n ≤ q := by
        apply Classical.byContradiction
        intro hno
        apply hlt
        have hall : ∀ q ∈ activeQubits x, q < n := by
          intro q hq
          apply Classical.byContradiction
          intro h'; exact hno ⟨q, hq, by omega⟩
        refine (foldl_max_lt _ _ _).mpr ⟨?_, hall⟩
        obtain ⟨q, hq⟩ := List.exists_mem_of_ne_nil _ hact
        have := hall q hq
        omega
      right
      refine ⟨fun hv => ?_, ⟨.registerTooSmall, n, hN, hex⟩, ?_⟩
      · obtain ⟨q, hq, hle⟩ := hex
        have := hv.2.2.2.2
        rw [hN] at this
        have := this q hq
        omega
      · have : (activeQubits x).foldl max 0 + 1 > n := by omega
        simp [this]

/-- the frequencies can be inferred: every pulse has frequencies cached and they are all equal -/
def OmegaInferable (x : ExtendSpec) : Prop :=
  (∀ p ∈ x.pulses, p.omegaValue.isSome = true) ∧
  ∀ p ∈ x.pulses, ∀ q ∈ x.pulses, p.omegaValue = q.omegaValue

instance (x : ExtendSpec) : Decidable (OmegaInferable x) := by unfold OmegaInferable; infer_instance

/-- the additional noise Hamiltonian (if given) is a valid Hamiltonian on the time grid of the
pulses, its operators have the dimension `d_per_qubit ** N` of the register, and its identifiers
do not occur among the noise identifiers of the mapped pulses -/
def AdditionalOk (x : ExtendSpec) (N : Nat) : Option HamSpec → Prop
  | none => True
  | some H => ValidHam H (extendNDt x) "B" ∧ hamDim H = some (x.dPerQubit ^ N) ∧
      ∀ s ∈ filledIds (hamItems H) "B", s ∉ mappedNIds x

instance (x : ExtendSpec) (N : Nat) (a : Option HamSpec) : Decidable (AdditionalOk x N a) := by
  cases a <;> unfold AdditionalOk <;> infer_instance

/-- a given identifier mapping has every control and every noise identifier of its pulse as a key
(nothing is required of an entry without a mapping) -/
def EPulse.MappingTotal (p : EPulse) : Prop :=
  match p.mapping with
  | none => True
  | some m => ∀ s ∈ p.cIds ++ p.nIds, (m.lookup s).isSome = true

instance (p : EPulse) : Decidable p.MappingTotal := by
  unfold EPulse.MappingTotal; cases p.mapping <;> infer_instance

theorem EPulse.mapIds_isNone_iff (p : EPulse) (ids : List String) :
    (p.mapIds ids).isNone = true ↔ ∃ m, p.mapping = some m ∧ ∃ s ∈ ids, m.lookup s = none := by
  unfold EPulse.mapIds
  cases hm : p.mapping with
  | none => simp
  | some m =>
    simp only [Option.isNone_iff_eq_none, RemapDef.applyDict_eq_none_iff, Option.some.injEq,
      exists_eq_left']

theorem EPulse.keyMissing_eq_false_iff (p : EPulse) : p.keyMissing = false ↔ p.MappingTotal := by
  unfold EPulse.keyMissing EPulse.MappingTotal
  rw [Bool.or_eq_false_iff, ← Bool.not_eq_true, ← Bool.not_eq_true, EPulse.mapIds_isNone_iff,
    EPulse.mapIds_isNone_iff]
  cases hm : p.mapping with
  | none => simp
  | some m =>
    simp only [Option.some.injEq, exists_eq_left', not_exists, not_and, List.mem_append]
    constructor
    · rintro ⟨h1, h2⟩ s (hs | hs)
      · cases h : m.lookup s with
        | none => exact absurd h (h1 s hs)
        | some v => rfl
      · cases h : m.lookup s with
        | none => exact absurd h (h2 s hs)
        | some v => rfl
    · intro h
      constructor
      · intro s hs hn
        have := h s (.inl hs)
        rw [hn] at this; cases this
      · intro s hs hn
        have := h s (.inr hs)
        rw [hn] at this; cases this

theorem any_keyMissing_iff (x : ExtendSpec) :
    (orderedPulses x).any (·.keyMissing) = true ↔ ∃ p ∈ x.pulses, ¬ p.MappingTotal := by
  rw [List.any_eq_true]
  constructor
  · rintro ⟨p, hp, hk⟩
    refine ⟨p, mem_orderedPulses.mp hp, fun ht => ?_⟩
    rw [(p.keyMissing_eq_false_iff).mpr ht] at hk; cases hk
  · rintro ⟨p, hp, hk⟩
    refine ⟨p, mem_orderedPulses.mpr hp, ?_⟩
    cases h : p.keyMissing
    · exact absurd ((p.keyMissing_eq_false_iff).mp h) hk
    · rfl

/-- DOCUMENTED domain of the remaining arguments of `extend`: with `cache_filter_function=True`
either `omega` is given or the cached frequencies of all pulses are the same; diagonalization is
not switched off while it is needed (additional noise Hamiltonian and filter function to be
computed); every given identifier mapping covers the identifiers of its pulse; the control
identifiers of the mapped pulses are unique AFTER MAPPING (given or default mapping), and so are
the noise identifiers (the repair of F48 — before, such calls returned a pulse with
indistinguishable operators); the additional noise Hamiltonian is `AdditionalOk`. -/
def ValidExtendBack (x : ExtendSpec) (N : Nat) : Prop :=
  (x.cacheFF = some true → x.omegaGiven = false → OmegaInferable x) ∧
  ¬ (x.cacheDiag = some false ∧ x.additional.isSome = true ∧ effCacheFF x = true) ∧
  (∀ p ∈ x.pulses, p.MappingTotal) ∧
  (mappedCIds x).Nodup ∧ (mappedNIds x).Nodup ∧
  AdditionalOk x N x.additional

instance (x : ExtendSpec) (N : Nat) : Decidable (ValidExtendBack x N) := by
  unfold ValidExtendBack; infer_instance

/-- DOCUMENTED domain of `extend` -/
def ValidExtend (x : ExtendSpec) : Prop := ValidExtendFront x ∧ ValidExtendBack x (extendN x)

instance (x : ExtendSpec) : Decidable (ValidExtend x) := by unfold ValidExtend; infer_instance

def additionalRegular : Option HamSpec → Prop
  | none => True
  | some H => HamRegular H

instance (a : Option HamSpec) : Decidable (additionalRegular a) := by
  cases a <;> unfold additionalRegular <;> infer_instance

/-- side conditions for the second part: cached frequencies that are equal as arrays have equal
bytes and vice versa; `remap` does not lose the cached frequencies; `cache_diagonalization=False`
is not combined with an additional noise Hamiltonian when NO filter function is to be computed
(the code raises although diagonalization is not needed then); the additional Hamiltonian is
`HamRegular`. -/
def ExtendRegularBack (x : ExtendSpec) : Prop :=
  (∀ p ∈ x.pulses, ∀ q ∈ x.pulses, (p.omegaBytes = q.omegaBytes ↔ p.omegaValue = q.omegaValue)) ∧
  (∀ p ∈ x.pulses, p.omegaBytes.isSome = p.omegaValue.isSome) ∧
  (∀ p ∈ x.pulses, p.remapped = true → p.remapKeepsOmega = true) ∧
  ¬ (x.cacheDiag = some false ∧ x.additional.isSome = true ∧ effCacheFF x = false) ∧
  additionalRegular x.additional

instance (x : ExtendSpec) : Decidable (ExtendRegularBack x) := by
  unfold ExtendRegularBack; infer_instance

inductive ExtBackKind
  /-- `cache_filter_function=True` without `omega` and without common cached frequencies -/
  | omegaMissing
  /-- `cache_diagonalization=False` although the diagonalization is needed -/
  | diagConflict
  /-- an identifier mapping misses an identifier of its pulse (`ValueError` since the repair of
  F50; a `KeyError` before) -/
  | missingKey
  /-- two control operators of the mapped pulses get the same identifier -/
  | duplicateControl
  /-- two noise operators of the mapped pulses get the same identifier -/
  | duplicateNoise
  /-- the additional noise Hamiltonian is corrupted in way `k` -/
  | additional (k : HamKind)
  /-- the additional noise operators do not have the dimension of the register -/
  | additionalDimension
  /-- an additional identifier is already used by a mapped pulse -/
  | duplicateIdentifiers
deriving DecidableEq, Repr

def ExtBackKind.cls : ExtBackKind → Err
  | .additional k => k.cls
  | _ => .valueError

def ExtBackViolates (x : ExtendSpec) (N : Nat) : ExtBackKind → Prop
  | .omegaMissing => x.cacheFF = some true ∧ x.omegaGiven = false ∧ ¬ OmegaInferable x
  | .diagConflict => x.cacheDiag = some false ∧ x.additional.isSome = true ∧ effCacheFF x = true
  | .missingKey => ∃ p ∈ x.pulses, ¬ p.MappingTotal
  | .duplicateControl => ¬ (mappedCIds x).Nodup
  | .duplicateNoise => ¬ (mappedNIds x).Nodup
  | .additional k => ∃ H, x.additional = some H ∧ HamViolates H (extendNDt x) "B" k
  | .additionalDimension => ∃ H, x.additional = some H ∧ ValidHam H (extendNDt x) "B" ∧
      hamDim H ≠ some (x.dPerQubit ^ N)
  | .duplicateIdentifiers => ∃ H, x.additional = some H ∧
      ∃ s ∈ filledIds (hamItems H) "B", s ∈ mappedNIds x

theorem extEqualOmega_iff (x : ExtendSpec) (hne : x.pulses ≠ [])
    (hbv : ∀ p ∈ x.pulses, ∀ q ∈ x.pulses, (p.omegaBytes = q.omegaBytes ↔ p.omegaValue = q.omegaValue))
    (hsome : ∀ p ∈ x.pulses, p.omegaBytes.isSome = p.omegaValue.isSome)
    (hkeep : ∀ p ∈ x.pulses, p.remapped = true → p.remapKeepsOmega = true) :
    extEqualOmega x = true ↔ OmegaInferable x := by
  have heff : ∀ p ∈ orderedPulses x, p.effOmegaBytes = p.omegaBytes := by
    intro p hp
    unfold EPulse.effOmegaBytes
    cases hr : p.remapped
    · simp
    · simp [hkeep p (mem_orderedPulses.mp hp) hr]
  unfold extEqualOmega equalOmegaBytes OmegaInferable
  rw [Bool.and_eq_true, beq_iff_eq, nDistinct_eq_one_iff, List.all_eq_true,
    List.map_congr_left heff]
  constructor
  · rintro ⟨hall, a, -, ha⟩
    constructor
    · intro p hp
      have := hall p (mem_orderedPulses.mpr hp)
      rw [heff p (mem_orderedPulses.mpr hp)] at this
      rw [← hsome p hp]; exact this
    · intro p hp q hq
      apply (hbv p hp q hq).mp
      rw [ha _ (List.mem_map.mpr ⟨p, mem_orderedPulses.mpr hp, rfl⟩),
        ha _ (List.mem_map.mpr ⟨q, mem_orderedPulses.mpr hq, rfl⟩)]
  · rintro ⟨hall, heq⟩
    constructor
    · intro p hp
      rw [heff p hp, hsome p (mem_orderedPulses.mp hp)]
      exact hall p (mem_orderedPulses.mp hp)
    · obtain ⟨p0, hp0⟩ := List.exists_mem_of_ne_nil _ (orderedPulses_ne_nil hne)
      refine ⟨p0.omegaBytes, by simpa using orderedPulses_ne_nil hne, ?_⟩
      intro b hb
      obtain ⟨p, hp, rfl⟩ := List.mem_map.mp hb
      exact (hbv p (mem_orderedPulses.mp hp) p0 (mem_orderedPulses.mp hp0)).mpr
        (heq p (mem_orderedPulses.mp hp) p0 (mem_orderedPulses.mp hp0))

/-- the second part of `extend`: accepted iff valid, every rejection explained -/
theorem extendBack_spec (x : ExtendSpec) (N : Nat) (hne : x.pulses ≠ [])
    (hr : ExtendRegularBack x) :
    (ValidExtendBack x N ∧ extendBack x N = .ok N) ∨
    (¬ ValidExtendBack x N ∧ ∃ k, ExtBackViolates x N k ∧ extendBack x N = .error k.cls) := by
  obtain ⟨hbv, hsome, hkeep, hE5, hreg⟩ := hr
  have hom := extEqualOmega_iff x hne hbv hsome hkeep
  unfold extendBack
  split
  · rename_i c1
    simp only [Bool.and_eq_true, beq_iff_eq, Bool.not_eq_true', ] at c1
    obtain ⟨⟨h1, h2⟩, h3⟩ := c1
    have hno : ¬ OmegaInferable x := by
      intro h; rw [hom.mpr h] at h3; cases h3
    right
    exact ⟨fun hv => hno (hv.1 h1 h2), .omegaMissing, ⟨h1, h2, hno⟩, rfl⟩
  rename_i c1
  have hv1 : x.cacheFF = some true → x.omegaGiven = false → OmegaInferable x := by
    intro h1 h2
    apply hom.mp
    cases h3 : extEqualOmega x
    · exfalso; apply c1; simp [h1, h2, h3]
    · rfl
  split
  · rename_i c2
    simp only [Bool.and_eq_true, beq_iff_eq] at c2
    have heff : effCacheFF x = true := by
      cases h : effCacheFF x
      · exact absurd ⟨c2.1, c2.2, h⟩ hE5
      · rfl
    right
    exact ⟨fun hv => hv.2.1 ⟨c2.1, c2.2, heff⟩, .diagConflict, ⟨c2.1, c2.2, heff⟩, rfl⟩
  rename_i c2
  have hv2 : ¬ (x.cacheDiag = some false ∧ x.additional.isSome = true ∧ effCacheFF x = true) := by
    rintro ⟨h1, h2, -⟩
    apply c2; simp [h1, h2]
  split
  · rename_i c3
    have hex := (any_keyMissing_iff x).mp c3
    right
    refine ⟨fun hv => ?_, .missingKey, hex, rfl⟩
    obtain ⟨p, hp, hk⟩ := hex
    exact hk (hv.2.2.1 p hp)
  rename_i c3
  have hv3 : ∀ p ∈ x.pulses, p.MappingTotal := by
    intro p hp
    apply Classical.byContradiction
    intro hk
    exact c3 ((any_keyMissing_iff x).mpr ⟨p, hp, hk⟩)
  split
  · rename_i c4
    have hd := (hasDup_eq_true_iff _).mp c4
    right
    exact ⟨fun hv => hd hv.2.2.2.1, .duplicateControl, hd, rfl⟩
  rename_i c4
  have hv4 : (mappedCIds x).Nodup := by
    apply (hasDup_eq_false_iff _).mp
    cases h : Pulse.hasDup (mappedCIds x)
    · rfl
    · exact absurd h c4
  split
  · rename_i c5
    have hd := (hasDup_eq_true_iff _).mp c5
    right
    exact ⟨fun hv => hd hv.2.2.2.2.1, .duplicateNoise, hd, rfl⟩
  rename_i c5
  have hv5 : (mappedNIds x).Nodup := by
    apply (hasDup_eq_false_iff _).mp
    cases h : Pulse.hasDup (mappedNIds x)
    · rfl
    · exact absurd h c5
  cases hadd : x.additional with
  | none =>
    left
    refine ⟨⟨hv1, hv2, hv3, hv4, hv5, by rw [hadd]; trivial⟩, rfl⟩
  | some H =>
    rw [hadd] at hreg
    have hregH : HamRegular H := hreg
    simp only
    cases hp : parseHamiltonian H (extendNDt x) "B" with
    | error e =>
      obtain ⟨k, hk, hc⟩ := parseHamiltonian_error hp
      right
      refine ⟨fun hv => ?_, .additional k, ⟨H, hadd, hk⟩, by simp [ExtBackKind.cls, hc]⟩
      have := hv.2.2.2.2.2
      rw [hadd] at this
      exact not_valid_of_hamViolates hk this.1
    | ok a =>
      obtain ⟨hvH, d, hd, rfl⟩ := parseHamiltonian_ok_eq hregH hp
      simp only [List.drop_succ_cons, List.drop_zero]
      by_cases hdD : d = x.dPerQubit ^ N
      · subst hdD
        simp only [bne_self_eq_false, Bool.false_eq_true, ↓reduceIte]
        split
        · rename_i c4
          obtain ⟨s, hs, hc⟩ := List.any_eq_true.mp c4
          have hs' : s ∈ filledIds (hamItems H) "B" := (Pulse.mem_sortBy _).mp hs
          have hc' : s ∈ mappedNIds x := by simpa using hc
          right
          refine ⟨fun hv => ?_, .duplicateIdentifiers, ⟨H, hadd, s, hs', hc'⟩, rfl⟩
          have := hv.2.2.2.2.2
          rw [hadd] at this
          exact this.2.2 s hs' hc'
        · rename_i c4
          left
          refine ⟨⟨hv1, hv2, hv3, hv4, hv5, ?_⟩, rfl⟩
          rw [hadd]
          refine ⟨hvH, hd, ?_⟩
          intro s hs hc
          apply c4
          exact List.any_eq_true.mpr ⟨s, (Pulse.mem_sortBy _).mpr hs, by simpa using hc⟩
      · have : ([d, d] != [x.dPerQubit ^ N, x.dPerQubit ^ N]) = true := by
          simp [bne_iff_ne]; intro h; exact absurd h hdD
        simp only [this, ↓reduceIte]
        right
        have hne' : hamDim H ≠ some (x.dPerQubit ^ N) := by
          rw [hd]; intro h; exact hdD (Option.some.inj h)
        refine ⟨fun hv => ?_, .additionalDimension, ⟨H, hadd, hvH, hne'⟩, rfl⟩
        have := hv.2.2.2.2.2
        rw [hadd] at this
        exact hne' this.2.1

/-! ### `extend`: rejections that need no side condition -/

theorem nodup_of_nodup_map {α β : Type} (f : α → β) (l : List α) (h : (l.map f).Nodup) : l.Nodup := by
  induction l with
  | nil => exact List.nodup_nil
  | cons a as ih =>
    rw [List.map_cons, List.nodup_cons] at h
    rw [List.nodup_cons]
    exact ⟨fun ha => h.1 (List.mem_map.mpr ⟨a, ha, rfl⟩), ih h.2⟩

theorem nodup_of_nodup_flatMap {α β : Type} (f : α → List β) (l : List α)
    (h : (l.flatMap f).Nodup) {a : α} (ha : a ∈ l) : (f a).Nodup := by
  induction l with
  | nil => cases ha
  | cons b bs ih =>
    rw [List.flatMap_cons] at h
    rcases List.mem_cons.mp ha with rfl | ha'
    · exact List.Nodup.sublist (List.sublist_append_left _ _) h
    · exact ih (List.Nodup.sublist (List.sublist_append_right _ _) h) ha'

/-- the mapped identifiers of one entry are the image of its identifiers under a function -/
theorem EPulse.mapIds_eq_map (p : EPulse) (ht : p.MappingTotal) (ids : List String)
    (hids : ∀ s ∈ ids, s ∈ p.cIds ++ p.nIds) : ∃ f : String → String, p.mapIds ids = some (ids.map f) := by
  unfold EPulse.mapIds
  unfold EPulse.MappingTotal at ht
  cases hm : p.mapping with
  | none => exact ⟨_, rfl⟩
  | some m =>
    rw [hm] at ht
    refine ⟨fun s => (m.lookup s).getD "", ?_⟩
    simp only
    rw [RemapDef.applyDict_eq_some_iff, List.map_map]
    apply List.map_congr_left
    intro s hs
    have := ht s (hids s hs)
    cases h : m.lookup s with
    | none => rw [h] at this; cases this
    | some v => simp [h]

/-- an entry whose OWN control (noise) identifiers repeat yields repeated identifiers after any
(total) mapping -/
theorem mappedCIds_not_nodup_of_own (x : ExtendSpec) {p : EPulse} (hp : p ∈ x.pulses)
    (ht : p.MappingTotal) (hd : ¬ p.cIds.Nodup) : ¬ (mappedCIds x).Nodup := by
  intro h
  have h1 := nodup_of_nodup_flatMap _ _ h (mem_orderedPulses.mpr hp)
  obtain ⟨f, hf⟩ := p.mapIds_eq_map ht p.cIds (fun s hs => List.mem_append_left _ hs)
  unfold EPulse.newCIds at h1
  rw [hf, Option.getD_some] at h1
  exact hd (nodup_of_nodup_map f _ h1)

theorem mappedNIds_not_nodup_of_own (x : ExtendSpec) {p : EPulse} (hp : p ∈ x.pulses)
    (ht : p.MappingTotal) (hd : ¬ p.nIds.Nodup) : ¬ (mappedNIds x).Nodup := by
  intro h
  have h1 := nodup_of_nodup_flatMap _ _ h (mem_orderedPulses.mpr hp)
  obtain ⟨f, hf⟩ := p.mapIds_eq_map ht p.nIds (fun s hs => List.mem_append_right _ hs)
  unfold EPulse.newNIds at h1
  rw [hf, Option.getD_some] at h1
  exact hd (nodup_of_nodup_map f _ h1)

/-- the mapping checks only ever raise `ValueError` … -/
theorem extendFront_error {x : ExtendSpec} {e : Err} (h : extendFront x = .error e) :
    e = .valueError := by
  unfold extendFront at h
  iterate 6 (split at h; · cases h; rfl)
  dsimp only at h
  cases hN : x.N with
  | none => rw [hN] at h; simp at h
  | some n =>
    rw [hN] at h
    dsimp only at h
    split at h
    · cases h; rfl
    · cases h

/-- … and return the size of the register -/
theorem extendFront_ok {x : ExtendSpec} {N : Nat} (h : extendFront x = .ok N) : N = extendN x := by
  unfold extendFront at h
  iterate 6 (split at h; · cases h)
  dsimp only at h
  cases hN : x.N with
  | none =>
    rw [hN] at h
    simp only [Bool.false_eq_true, ↓reduceIte, Option.getD_none, Except.ok.injEq] at h
    rw [← h]; simp [extendN, lastQubit, hN]
  | some n =>
    rw [hN] at h
    dsimp only at h
    split at h
    · cases h
    · simp only [Option.getD_some, Except.ok.injEq] at h
      rw [← h]; simp [extendN, hN]

/-- every exception of the second part raised before the additional noise Hamiltonian is looked at
is a `ValueError` -/
theorem extendBack_of_not_unique (x : ExtendSpec) (N : Nat)
    (hd : ¬ (mappedCIds x).Nodup ∨ ¬ (mappedNIds x).Nodup) :
    extendBack x N = .error .valueError := by
  unfold extendBack
  split
  · rfl
  split
  · rfl
  split
  · rfl
  split
  · rfl
  rename_i c4
  split
  · rfl
  rename_i c5
  exfalso
  rcases hd with hd | hd
  · apply hd; apply (hasDup_eq_false_iff _).mp
    cases h : Pulse.hasDup (mappedCIds x)
    · rfl
    · exact absurd h c4
  · apply hd; apply (hasDup_eq_false_iff _).mp
    cases h : Pulse.hasDup (mappedNIds x)
    · rfl
    · exact absurd h c5

theorem extendBack_of_missing_key (x : ExtendSpec) (N : Nat)
    (hk : ∃ p ∈ x.pulses, ¬ p.MappingTotal) :
    extendBack x N = .error .valueError := by
  unfold extendBack
  split
  · rfl
  split
  · rfl
  split
  · rfl
  rename_i c3
  exact absurd ((any_keyMissing_iff x).mpr hk) c3

/-! ### `remap`: the identifiers -/

/-- a given mapping has every identifier of `ids` as a key (nothing is required without a mapping) -/
def RemapMappingTotal (mapping : Option RemapDef.Dict) (ids : List String) : Prop :=
  match mapping with
  | none => True
  | some m => ∀ s ∈ ids, (m.lookup s).isSome = true

instance (mapping : Option RemapDef.Dict) (ids : List String) :
    Decidable (RemapMappingTotal mapping ids) := by
  unfold RemapMappingTotal; cases mapping <;> infer_instance

/-- the identifiers of the remapped pulse: the values of the mapping (`[]` when it misses a key;
`remap` has raised then), the identifiers themselves without a mapping -/
def remapMapped (mapping : Option RemapDef.Dict) (ids : List String) : List String :=
  (remapIds mapping ids).getD []

/-- `order` is a permutation of `0 … N-1` and the dimension of the pulse is `d_per_qubit ** N`
(`N = logN`) -/
def RemapShapeOk (d logN dpq : Nat) (order : List Int) : Prop :=
  (∀ o ∈ order, 0 ≤ o) ∧ (order.map Int.toNat).Perm (List.range logN) ∧ d = dpq ^ logN

instance (d logN dpq : Nat) (order : List Int) : Decidable (RemapShapeOk d logN dpq order) := by
  unfold RemapShapeOk; infer_instance

/-- DOCUMENTED domain of `remap`: `order` a permutation of the qubits of the pulse; the mapping, if
given, covers all identifiers of the pulse; the control identifiers are unique after mapping, and
so are the noise identifiers (the repair of F48) -/
def ValidRemap (d logN dpq : Nat) (order : List Int) (cIds nIds : List String)
    (mapping : Option RemapDef.Dict) : Prop :=
  RemapShapeOk d logN dpq order ∧ RemapMappingTotal mapping (cIds ++ nIds) ∧
    (remapMapped mapping cIds).Nodup ∧ (remapMapped mapping nIds).Nodup

instance (d logN dpq : Nat) (order : List Int) (cIds nIds : List String)
    (mapping : Option RemapDef.Dict) : Decidable (ValidRemap d logN dpq order cIds nIds mapping) := by
  unfold ValidRemap; infer_instance

theorem remapIds_isSome_iff (mapping : Option RemapDef.Dict) (ids : List String) :
    (∃ r, remapIds mapping ids = some r) ↔ RemapMappingTotal mapping ids := by
  unfold remapIds RemapMappingTotal
  cases mapping with
  | none => simp
  | some m =>
    simp only
    constructor
    · rintro ⟨r, hr⟩ s hs
      cases h : m.lookup s with
      | some v => rfl
      | none =>
        have := (RemapDef.applyDict_eq_none_iff m ids).mpr ⟨s, hs, h⟩
        rw [hr] at this; cases this
    · intro h
      cases hr : RemapDef.applyDict m ids with
      | some r => exact ⟨r, rfl⟩
      | none =>
        obtain ⟨s, hs, hn⟩ := (RemapDef.applyDict_eq_none_iff m ids).mp hr
        have := h s hs
        rw [hn] at this; cases this

theorem remapMappingTotal_append (mapping : Option RemapDef.Dict) (a b : List String) :
    RemapMappingTotal mapping (a ++ b) ↔ RemapMappingTotal mapping a ∧ RemapMappingTotal mapping b := by
  unfold RemapMappingTotal
  cases mapping with
  | none => simp
  | some m =>
    simp only [List.mem_append]
    exact ⟨fun h => ⟨fun s hs => h s (.inl hs), fun s hs => h s (.inr hs)⟩,
      fun h s hs => hs.elim (h.1 s) (h.2 s)⟩

/-- the identifier part of `remap`: accepted iff the mapping covers all identifiers and is
injective on the control and on the noise identifiers; `ValueError` for a missing key (F50:
formerly `KeyError`) and for identifiers that coincide after mapping -/
theorem remapIdChecks_spec (cIds nIds : List String) (mapping : Option RemapDef.Dict) :
    (RemapMappingTotal mapping (cIds ++ nIds) ∧ (remapMapped mapping cIds).Nodup ∧
      (remapMapped mapping nIds).Nodup ∧ remapIdChecks cIds nIds mapping = .ok ()) ∨
    (¬ RemapMappingTotal mapping (cIds ++ nIds) ∧ remapIdChecks cIds nIds mapping = .error .valueError) ∨
    (RemapMappingTotal mapping (cIds ++ nIds) ∧
      ¬ ((remapMapped mapping cIds).Nodup ∧ (remapMapped mapping nIds).Nodup) ∧
      remapIdChecks cIds nIds mapping = .error .valueError) := by
  rw [remapMappingTotal_append]
  unfold remapIdChecks remapMapped
  cases hc : remapIds mapping cIds with
  | none =>
    right; left
    refine ⟨fun h => ?_, rfl⟩
    obtain ⟨r, hr⟩ := (remapIds_isSome_iff mapping cIds).mpr h.1
    rw [hr] at hc; cases hc
  | some c =>
    have htc := (remapIds_isSome_iff mapping cIds).mp ⟨c, hc⟩
    cases hn : remapIds mapping nIds with
    | none =>
      right; left
      refine ⟨fun h => ?_, rfl⟩
      obtain ⟨r, hr⟩ := (remapIds_isSome_iff mapping nIds).mpr h.2
      rw [hr] at hn; cases hn
    | some n =>
      have htn := (remapIds_isSome_iff mapping nIds).mp ⟨n, hn⟩
      simp only [Option.getD_some]
      cases hdc : Pulse.hasDup c with
      | true =>
        right; right
        exact ⟨⟨htc, htn⟩, fun h => (hasDup_eq_true_iff _).mp hdc h.1, by simp⟩
      | false =>
        have hcn := (hasDup_eq_false_iff _).mp hdc
        cases hdn : Pulse.hasDup n with
        | true =>
          right; right
          exact ⟨⟨htc, htn⟩, fun h => (hasDup_eq_true_iff _).mp hdn h.2, by simp⟩
        | false =>
          left
          exact ⟨⟨htc, htn⟩, hcn, (hasDup_eq_false_iff _).mp hdn, by simp⟩

/-! ### `Basis.__new__` -/

def labelsOk (labels : Option Nat) (n : Nat) : Prop := labels = none ∨ labels = some n

instance (labels : Option Nat) (n : Nat) : Decidable (labelsOk labels n) := by
  unfold labelsOk; infer_instance

/-- the elements are square two-dimensional array(-like)s of one dimension `d`, at most `d²` of
them, and as many labels as elements (if labels are given) -/
def ValidBasisElems (l : List OperSpec) (labels : Option Nat) : Prop :=
  ValidOpers l ∧ l.length ≤ ((l.head?.bind operDim).getD 0) ^ 2 ∧ labelsOk labels l.length

instance (l : List OperSpec) (labels : Option Nat) : Decidable (ValidBasisElems l labels) := by
  unfold ValidBasisElems; infer_instance

/-- DOCUMENTED domain of `Basis(basis_array, labels=…)` ("basis_array: array_like, shape
(n, d, d)"): a sequence of (or a single) square matrices of one dimension, not more than `d²`, or
an existing `Basis` of shape `(n, d, d)` with `n ≤ d²`; `len(labels) = n` if labels are given. -/
def ValidBasisArg (a : BasisArg) (labels : Option Nat) : Prop :=
  match a with
  | .noGetitem => False
  | .inst sh => sh.length = 3 ∧ sh[1]? = sh[2]? ∧ sh.headD 0 ≤ (sh.getD 1 0) ^ 2 ∧
      labelsOk labels (sh.headD 0)
  | .single o => ValidBasisElems [o] labels
  | .elems l => ValidBasisElems l labels

instance (a : BasisArg) (labels : Option Nat) : Decidable (ValidBasisArg a labels) := by
  cases a <;> unfold ValidBasisArg <;> infer_instance

/-- elements are `OperRegular`; a `Basis` instance (which is taken over unchecked) has a valid
shape -/
def BasisArgRegular : BasisArg → Prop
  | .noGetitem => True
  | .inst sh => sh.length = 3 ∧ sh[1]? = sh[2]? ∧ sh.headD 0 ≤ (sh.getD 1 0) ^ 2
  | .single o => OperRegular o
  | .elems l => l ≠ [] ∧ ∀ o ∈ l, OperRegular o

theorem checkLabels_spec (labels : Option Nat) (shape : List Nat) :
    (labelsOk labels (shape.headD 0) ∧
      (match labels with
        | some n => if n != shape.headD 0 then Except.error Err.valueError else .ok shape
        | none => .ok shape) = .ok shape) ∨
    (¬ labelsOk labels (shape.headD 0) ∧
      (match labels with
        | some n => if n != shape.headD 0 then Except.error Err.valueError else .ok shape
        | none => .ok shape) = .error .valueError) := by
  cases labels with
  | none => left; exact ⟨.inl rfl, rfl⟩
  | some n =>
    by_cases h : n = shape.headD 0
    · left; subst h; exact ⟨.inr rfl, by simp⟩
    · right
      have hb : (n != shape.headD 0) = true := by rw [bne_iff_ne]; exact h
      refine ⟨?_, by show (if (n != shape.headD 0) = true then _ else _) = _; rw [if_pos hb]⟩
      rintro (h' | h')
      · cases h'
      · exact h (Option.some.inj h')

theorem foldl_mul_two (d : Nat) : [d, d].foldl (· * ·) 1 = d ^ 2 := by
  simp [List.foldl, Nat.pow_two]

/-- the element-list branch of `Basis.__new__` -/
theorem basisElems_spec (l : List OperSpec) (labels : Option Nat) (hne : l ≠ [])
    (hr : ∀ o ∈ l, OperRegular o) :
    (ValidBasisElems l labels ∧ ∃ d, basisNew (.elems l) labels = .ok [l.length, d, d]) ∨
    (¬ ValidBasisElems l labels ∧ ∃ e, basisNew (.elems l) labels = .error e ∧
      (e = .typeError ↔ ∃ o ∈ l, o = .other) ∧ (e = .typeError ∨ e = .valueError)) := by
  unfold basisNew
  simp only
  cases hp : parseOperators l with
  | error e =>
    right
    refine ⟨fun hv => ?_, e, rfl, ?_⟩
    · obtain ⟨-, d, hd⟩ := (validOpers_iff l).mp hv.1
      rw [parseOperators_of_dims hne hd] at hp; cases hp
    · rcases parseOperators_error hp with ⟨rfl, ho⟩ | ⟨rfl, hno⟩
      · exact ⟨⟨fun _ => ho, fun _ => rfl⟩, .inl rfl⟩
      · refine ⟨⟨(fun h => by cases h), ?_⟩, .inr rfl⟩
        rintro ⟨o, ho, rfl⟩; exact absurd rfl (hno _ ho)
  | ok shape =>
    obtain ⟨d, rfl, hd⟩ := dims_of_parseOperators hne hp (length_three_of_regular hne hr hp)
    have hvo : ValidOpers l := (validOpers_iff l).mpr ⟨hne, d, hd⟩
    have hdim : (l.head?.bind operDim).getD 0 = d := by
      cases l with
      | nil => exact absurd rfl hne
      | cons o os => simp [hd o (by simp)]
    simp only [List.headD_cons, List.drop_succ_cons, List.drop_zero, foldl_mul_two]
    by_cases hover : l.length > d ^ 2
    · simp only [hover, ↓reduceIte]
      right
      refine ⟨fun hv => ?_, .valueError, rfl, ⟨(fun h => by cases h), ?_⟩, .inr rfl⟩
      · have := hv.2.1; rw [hdim] at this; omega
      · rintro ⟨o, ho, rfl⟩
        have := hd _ ho; simp [operDim, OperSpec.parsedShape] at this
    · simp only [hover, ↓reduceIte]
      rcases checkLabels_spec labels [l.length, d, d] with ⟨hl, hc⟩ | ⟨hl, hc⟩
      · left
        simp only [List.headD_cons] at hl hc
        exact ⟨⟨hvo, by rw [hdim]; omega, hl⟩, d, hc⟩
      · right
        simp only [List.headD_cons] at hl hc
        refine ⟨fun hv => hl hv.2.2, .valueError, hc, ⟨(fun h => by cases h), ?_⟩, .inr rfl⟩
        rintro ⟨o, ho, rfl⟩
        have := hd _ ho; simp [operDim, OperSpec.parsedShape] at this

instance (a : BasisArg) : Decidable (BasisArgRegular a) := by
  cases a <;> unfold BasisArgRegular <;> infer_instance

/-- `Basis.__new__`: accepted iff valid; the exception is a `TypeError` or a `ValueError` -/
theorem basisNew_spec (a : BasisArg) (labels : Option Nat) (hr : BasisArgRegular a) :
    (ValidBasisArg a labels ∧ ∃ r, basisNew a labels = .ok r) ∨
    (¬ ValidBasisArg a labels ∧ ∃ e, basisNew a labels = .error e ∧
      (e = .typeError ∨ e = .valueError)) := by
  cases a with
  | noGetitem => right; exact ⟨fun h => h, .typeError, rfl, .inl rfl⟩
  | inst sh =>
    obtain ⟨h1, h2, h3⟩ := hr
    rcases checkLabels_spec labels sh with ⟨hl, hc⟩ | ⟨hl, hc⟩
    · left; exact ⟨⟨h1, h2, h3, hl⟩, sh, hc⟩
    · right; exact ⟨fun hv => hl hv.2.2.2, .valueError, hc, .inr rfl⟩
  | single o =>
    have hr' : ∀ o' ∈ [o], OperRegular o' := by
      intro o' ho'; rw [List.mem_singleton.mp ho']; exact hr
    rcases basisElems_spec [o] labels (by simp) hr' with ⟨hv, d, hd⟩ | ⟨hv, e, he, -, hc⟩
    · left; exact ⟨hv, _, hd⟩
    · right; exact ⟨hv, e, he, hc⟩
  | elems l =>
    rcases basisElems_spec l labels hr.1 hr.2 with ⟨hv, d, hd⟩ | ⟨hv, e, he, -, hc⟩
    · left; exact ⟨hv, _, hd⟩
    · right; exact ⟨hv, e, he, hc⟩

/-! ### pulse-correlation quantities -/

/-- the pulse-correlation filter function of kind `w` was computed during concatenation (it is
cached, or the pulse-correlation control matrix it is computed from is) -/
def PcFFAvailable (s : Cache.Obj) (w : Cache.Which) : Prop :=
  (match w with | .fidelity => s.ffPc | .generalized => s.ffPcGen).isSome = true ∨
    s.cmPc.isSome = true

instance (s : Cache.Obj) (w : Cache.Which) : Decidable (PcFFAvailable s w) := by
  unfold PcFFAvailable; infer_instance

/-- frequencies are cached and differ from the requested ones -/
def OtherFrequencies (s : Cache.Obj) (g : Cache.Grid) : Prop := ∃ h, s.omega = some h ∧ h ≠ g

instance (s : Cache.Obj) (g : Cache.Grid) : Decidable (OtherFrequencies s g) := by
  unfold OtherFrequencies
  cases s.omega with
  | none => exact isFalse (by rintro ⟨h, h1, -⟩; cases h1)
  | some h' =>
    by_cases hg : h' = g
    · exact isFalse (by rintro ⟨h, h1, h2⟩; cases h1; exact h2 hg)
    · exact isTrue ⟨h', rfl, hg⟩

/-- what a pulse-correlation request needs to have been computed -/
def PcAvailable (s : Cache.Obj) : PcRequest → Prop
  | .pcFF w => PcFFAvailable s w
  | .pcCM => s.cmPc.isSome = true
  | .infidelityCorr _ traceless => if traceless then PcFFAvailable s .fidelity else s.cmPc.isSome = true
  | .decayAmpsCorr _ => s.ffPcGen.isSome = true ∨ s.cmPc.isSome = true

instance (s : Cache.Obj) (r : PcRequest) : Decidable (PcAvailable s r) := by
  cases r <;> unfold PcAvailable <;> infer_instance

/-- the request is made for frequencies other than the cached ones -/
def OtherFreqRequested (s : Cache.Obj) : PcRequest → Prop
  | .infidelityCorr g _ | .decayAmpsCorr g => OtherFrequencies s g
  | _ => False

instance (s : Cache.Obj) (r : PcRequest) : Decidable (OtherFreqRequested s r) := by
  cases r <;> unfold OtherFreqRequested <;> infer_instance

theorem getPcFF_ret (s : Cache.Obj) (w : Cache.Which) :
    (PcFFAvailable s w ∧ ofRet (Cache.getPcFF w s).2 = .ok ()) ∨
    (¬ PcFFAvailable s w ∧ ofRet (Cache.getPcFF w s).2 = .error .calculationError) := by
  unfold PcFFAvailable Cache.getPcFF
  cases w <;> simp only
  · cases h1 : s.ffPc <;> cases h2 : s.cmPc <;> simp [ofRet]
  · cases h1 : s.ffPcGen <;> cases h2 : s.cmPc <;> simp [ofRet]

theorem getPcCM_ret (s : Cache.Obj) :
    (s.cmPc.isSome = true ∧ ofRet (Cache.step s .getPcCM).2 = .ok ()) ∨
    (¬ s.cmPc.isSome = true ∧ ofRet (Cache.step s .getPcCM).2 = .error .calculationError) := by
  simp only [Cache.step]
  cases h : s.cmPc <;> simp [ofRet]

theorem omegaMatch_eq (s : Cache.Obj) (g : Cache.Grid) :
    (match s.omega with | some h => h != g | none => false) = decide (OtherFrequencies s g) := by
  cases h1 : s.omega with
  | none =>
    symm; rw [decide_eq_false_iff_not]
    rintro ⟨h, h2, -⟩; rw [h1] at h2; cases h2
  | some h =>
    by_cases hg : h = g
    · subst hg
      have : ¬ OtherFrequencies s h := by rintro ⟨h', h2, h3⟩; rw [h1] at h2; cases h2; exact h3 rfl
      simp [this]
    · have : OtherFrequencies s g := ⟨h, h1, hg⟩
      simp [this, hg]

/-- `pcAvailability`: `ValueError` when other frequencies than the cached ones are requested,
else `CalculationError` when the quantity was not computed, else success -/
theorem pcAvailability_spec (s : Cache.Obj) (r : PcRequest) :
    (OtherFreqRequested s r ∧ pcAvailability s r = .error .valueError) ∨
    (¬ OtherFreqRequested s r ∧ PcAvailable s r ∧ pcAvailability s r = .ok ()) ∨
    (¬ OtherFreqRequested s r ∧ ¬ PcAvailable s r ∧
      pcAvailability s r = .error .calculationError) := by
  cases r with
  | pcFF w =>
    right
    rcases getPcFF_ret s w with ⟨h, e⟩ | ⟨h, e⟩
    · left; exact ⟨fun h => h, h, e⟩
    · right; exact ⟨fun h => h, h, e⟩
  | pcCM =>
    right
    rcases getPcCM_ret s with ⟨h, e⟩ | ⟨h, e⟩
    · left; exact ⟨fun h => h, h, e⟩
    · right; exact ⟨fun h => h, h, e⟩
  | infidelityCorr g tl =>
    simp only [pcAvailability, PcAvailable, OtherFreqRequested]
    have key : ∀ (b : Bool), b = decide (OtherFrequencies s g) →
        (OtherFrequencies s g ∧ (if b = true then Except.error Err.valueError
            else if tl = true then ofRet (Cache.getPcFF .fidelity s).2
            else ofRet (Cache.step s .getPcCM).2) = .error .valueError) ∨
        (¬ OtherFrequencies s g ∧
          (if tl = true then PcFFAvailable s .fidelity else s.cmPc.isSome = true) ∧
          (if b = true then Except.error Err.valueError
            else if tl = true then ofRet (Cache.getPcFF .fidelity s).2
            else ofRet (Cache.step s .getPcCM).2) = .ok ()) ∨
        (¬ OtherFrequencies s g ∧
          ¬ (if tl = true then PcFFAvailable s .fidelity else s.cmPc.isSome = true) ∧
          (if b = true then Except.error Err.valueError
            else if tl = true then ofRet (Cache.getPcFF .fidelity s).2
            else ofRet (Cache.step s .getPcCM).2) = .error .calculationError) := by
      intro b hb
      by_cases ho : OtherFrequencies s g
      · left; rw [hb]; simp [ho]
      · right
        have hb' : b = false := by rw [hb]; simp [ho]
        subst hb'
        simp only [Bool.false_eq_true, ↓reduceIte]
        cases tl
        · simp only [Bool.false_eq_true, ↓reduceIte]
          rcases getPcCM_ret s with ⟨h, e⟩ | ⟨h, e⟩
          · left; exact ⟨ho, h, e⟩
          · right; exact ⟨ho, h, e⟩
        · simp only [↓reduceIte]
          rcases getPcFF_ret s .fidelity with ⟨h, e⟩ | ⟨h, e⟩
          · left; exact ⟨ho, h, e⟩
          · right; exact ⟨ho, h, e⟩
    exact key _ (omegaMatch_eq s g)
  | decayAmpsCorr g =>
    simp only [pcAvailability, PcAvailable, OtherFreqRequested, Cache.decayAmps, ↓reduceIte]
    by_cases ho : OtherFrequencies s g
    · left
      obtain ⟨h, h1, h2⟩ := ho
      exact ⟨⟨h, h1, h2⟩, by simp [h1, h2, ofRet]⟩
    · right
      simp only [ho, not_false_eq_true, true_and]
      cases h1 : s.omega with
      | none =>
        cases h2 : s.ffPcGen <;> cases h3 : s.cmPc <;> simp [ofRet]
      | some h =>
        have : h = g := by
          apply Classical.byContradiction
          intro hne; exact ho ⟨h, h1, hne⟩
        subst this
        cases h2 : s.ffPcGen <;> cases h3 : s.cmPc <;> simp [ofRet]

/-- agreement with the cache model of C07: the request `infidelity(…, which='correlations')` for a
traceless basis and `calculate_decay_amplitudes(…, which='correlations')` -/
theorem pcAvailability_eq_cache (s : Cache.Obj) (g : Cache.Grid) :
    pcAvailability s (.infidelityCorr g true) = ofRet (Cache.step s (.infidelity g true true false)).2 ∧
    pcAvailability s (.decayAmpsCorr g) = ofRet (Cache.step s (.decayAmps g true false)).2 ∧
    ∀ w, pcAvailability s (.pcFF w) = ofRet (Cache.step s (.getPcFF w)).2 := by
  refine ⟨?_, rfl, fun w => rfl⟩
  have hc : ofRet (Cache.infidelityCorr true false s).2 = ofRet (Cache.getPcFF .fidelity s).2 := by
    simp only [Cache.infidelityCorr, ↓reduceIte, Bool.false_and, Bool.false_eq_true]
    cases (Cache.getPcFF .fidelity s).2 <;> rfl
  simp only [pcAvailability, Cache.step, ↓reduceIte]
  cases h1 : s.omega with
  | none => simp [hc]
  | some h =>
    by_cases hg : h = g
    · subst hg; simp [hc]
    · simp [hg, ofRet]

/-- traceless basis and a requested noise operator with a trace (`idc`): the request is served
exactly when the frequencies match and the pulse-correlation control matrix is cached -/
theorem pcInfidelityIdc_eq_cache (s : Cache.Obj) (g : Cache.Grid) :
    pcInfidelityIdc s g = ofRet (Cache.step s (.infidelity g true true true)).2 := by
  have hc : ofRet (Cache.infidelityCorr true true s).2 =
      if s.cmPc.isSome then .ok () else .error .calculationError := by
    simp only [Cache.infidelityCorr, ↓reduceIte, Bool.true_and, Cache.getPcFF]
    cases h1 : s.ffPc <;> cases h2 : s.cmPc <;> simp [ofRet]
  simp only [pcInfidelityIdc, Cache.step, ↓reduceIte]
  cases h1 : s.omega with
  | none => simp [hc]
  | some h =>
    by_cases hg : h = g
    · subst hg; simp [hc]
    · simp [hg, ofRet]

end FFVerif.Model.Validate
