/-
Helper lemmas and vocabulary for C19Engine: the control matrix computed by the model of
`numeric.calculate_control_matrix_from_scratch` for a pulse WITHOUT control (zero Hamiltonian on
every segment: eigenvalues `0`, eigenvector matrices and cumulative propagators the identity) and
its relation to the sign-sequence sums of `Spec.ddY`.
-/
import Mathlib.Analysis.SpecialFunctions.Integrals.Basic
import Mathlib.Analysis.Complex.Exponential
import Mathlib.Algebra.BigOperators.Intervals
import FFVerif.Lemmas.Inst
import FFVerif.Lemmas.Bridge
import FFVerif.Lemmas.MatBridge
import FFVerif.Lemmas.DiagAux
import FFVerif.Lemmas.BasisAux
import FFVerif.Model.Numeric
import FFVerif.Props.C01
import FFVerif.Props.C01Seg
import FFVerif.Props.C14
import FFVerif.Spec.Cumulant
import FFVerif.Spec.Decoupling

namespace FFVerif.EngineAux
open FFVerif FFVerif.Model Complex MeasureTheory intervalIntegral Matrix

/-! ### vocabulary -/

/-- the `eigh` output and the cumulative propagators of a pulse without control (`H_g = 0` on
every segment): all eigenvalues `0`, all eigenvector matrices and all cumulative propagators the
identity.  (This is what `numeric.diagonalize` returns for zero control amplitudes, see
`C19.isEigh_zero` and `C19.propagators_no_control`.) -/
structure NoControl {nG d : Nat} (eigvals : Mat ℝ nG d) (eigvecs props : Vector (Mat ℂ d d) nG) :
    Prop where
  eigvals_zero : ∀ (g : Fin nG) (m : Fin d), eigvals[g][m] = 0
  eigvecs_one : ∀ g : Fin nG, eigvecs[g].toMatrix = 1
  props_one : ∀ g : Fin nG, props[g].toMatrix = 1

/-- the exact first-order integral of a piecewise-constant sensitivity `s` over segments with start
times `t` and durations `dt`: `Σ_g s_g e^{iω t_g} ∫₀^{dt_g} e^{iω u} du = ∫ s(u) e^{iω u} du`. -/
noncomputable def sensInt {nG : Nat} (ω : ℝ) (s dt t : Vec ℝ nG) : ℂ :=
  ∑ g : Fin nG, (s[g] : ℂ) * Complex.exp (Complex.I * ((ω : ℂ) * (t[g] : ℂ))) *
    C01.segIntegral ω dt[g]

/-- the same sum with the segment integrals as `_first_order_integral` computes them -/
noncomputable def sensIntComputed {nG : Nat} (kind : MaskKind) (thr : ℝ) (ω : ℝ)
    (s dt t : Vec ℝ nG) : ℂ :=
  ∑ g : Fin nG, (s[g] : ℂ) * Complex.exp (Complex.I * ((ω : ℂ) * (t[g] : ℂ))) *
    (firstOrderEntry kind thr ω dt[g] : ℂ)

/-- `Σ_g s_g (e^{iω t_{g+1}} − e^{iω t_g})` with `t = Model.times dt` the cumulative sums of the
durations (`t_0 = 0`), i.e. `iω` times the first-order integral of the sensitivity. -/
noncomputable def sensY {nG : Nat} (ω : ℝ) (s dt : Vec ℝ nG) : ℂ :=
  ∑ g : Fin nG, (s[g] : ℂ) *
    (Complex.exp (Complex.I * ((ω : ℂ) * (((times dt)[g.1 + 1]'(Nat.succ_lt_succ g.2) : ℝ) : ℂ))) -
      Complex.exp (Complex.I * ((ω : ℂ) * (((times dt)[g.1]'(Nat.lt_succ_of_lt g.2) : ℝ) : ℂ))))

/-- `Σ_g |s_g| dt_g` -/
noncomputable def sensL {nG : Nat} (s dt : Vec ℝ nG) : ℝ := ∑ g : Fin nG, |s[g]| * dt[g]

/-- a sign sequence: segment `g` has duration `(δ_{g+1} − δ_g) τ` and sensitivity `σ_g`; `t` are the
segment start times as `PulseSequence.t` computes them (cumulative sums of `dt`, `t_0 = 0`). -/
structure SignSequence {nG : Nat} (δ σ : ℕ → ℝ) (τ : ℝ) (s dt t : Vec ℝ nG) : Prop where
  dur : ∀ g : Fin nG, dt[g] = (δ (g.1 + 1) - δ g.1) * τ
  time : ∀ g : Fin nG, t[g] = (times dt)[g.1]'(Nat.lt_succ_of_lt g.2)
  sens : ∀ g : Fin nG, s[g] = σ g.1

/-! ### segment integrals -/

theorem segIntegral_dt_zero (x : ℝ) : C01.segIntegral x 0 = 0 := by
  unfold C01.segIntegral; simp

/-- the entry written by `_first_order_integral` is the defining integral where the mask holds,
and also in the masked branch when `x·dt = 0` (zero frequency or zero-length segment) -/
theorem firstOrderEntry_exact_or (kind : MaskKind) (thr x dt : ℝ) (hthr : 0 ≤ thr)
    (h : firstOrderMask kind thr x dt = true ∨ x * dt = 0) :
    (firstOrderEntry kind thr x dt : ℂ) = C01.segIntegral x dt := by
  by_cases hm : firstOrderMask kind thr x dt = true
  · exact C01.firstOrderEntry_exact kind thr x dt hthr hm
  · have h0 : x * dt = 0 := h.resolve_left hm
    unfold firstOrderEntry
    rw [if_neg hm]
    rcases mul_eq_zero.mp h0 with hx | hd
    · subst hx; rw [C01.segIntegral_zero]; rfl
    · subst hd; rw [segIntegral_dt_zero]; simp

theorem norm_expI (x : ℝ) : ‖Complex.exp (Complex.I * (x : ℂ))‖ = 1 := by
  rw [mul_comm, Complex.norm_exp_ofReal_mul_I]

theorem norm_expI_mul (x y : ℝ) : ‖Complex.exp (Complex.I * ((x : ℂ) * (y : ℂ)))‖ = 1 := by
  rw [← Complex.ofReal_mul, norm_expI]

theorem norm_segIntegral_le (x dt : ℝ) (hdt : 0 ≤ dt) : ‖C01.segIntegral x dt‖ ≤ dt := by
  unfold C01.segIntegral
  have h := intervalIntegral.norm_integral_le_of_norm_le_const (a := 0) (b := dt) (C := 1)
    (f := fun s : ℝ => Complex.exp (Complex.I * x * s)) (fun s _ => by
      rw [mul_assoc, norm_expI_mul])
  simpa [abs_of_nonneg hdt] using h

/-- `iω · e^{iω t} ∫₀^{dt} e^{iω u} du = e^{iω(t+dt)} − e^{iω t}` for every `ω` (also `ω = 0`) -/
theorem segment_closed (ω t dt : ℝ) :
    (Complex.I * (ω : ℂ)) * (Complex.exp (Complex.I * ((ω : ℂ) * (t : ℂ))) * C01.segIntegral ω dt)
      = Complex.exp (Complex.I * ((ω : ℂ) * ((t + dt : ℝ) : ℂ)))
        - Complex.exp (Complex.I * ((ω : ℂ) * (t : ℂ))) := by
  by_cases hω : ω = 0
  · subst hω; simp
  · have hIω : Complex.I * (ω : ℂ) ≠ 0 := mul_ne_zero Complex.I_ne_zero (by exact_mod_cast hω)
    have hadd : Complex.exp (Complex.I * ((ω : ℂ) * ((t + dt : ℝ) : ℂ)))
        = Complex.exp (Complex.I * ((ω : ℂ) * (t : ℂ))) * Complex.exp (Complex.I * ((ω : ℂ) * (dt : ℂ))) := by
      rw [← Complex.exp_add]; congr 1; push_cast; ring
    have hωc : (ω : ℂ) ≠ 0 := by exact_mod_cast hω
    rw [C01.segIntegral_closed ω dt hω, hadd]
    field_simp

/-! ### the control matrix without control -/

/-- **Entry of the model's control matrix for a pulse without control**: the double sum over the
eigenbasis collapses to `tr(B_a C_k)` and what remains is the sensitivity-weighted sum of the
computed segment integrals (any guard, any threshold, any operators, any `t`). -/
theorem cm_no_control_entry {nG d nO nA nK : Nat} (kind : MaskKind) (thr : ℝ)
    (eigvals : Mat ℝ nG d) (eigvecs props : Vector (Mat ℂ d d) nG)
    (omega : Vec ℝ nO) (basis : Vector (Mat ℂ d d) nK) (nOpers : Vector (Mat ℂ d d) nA)
    (nCoeffs : Mat ℝ nA nG) (dt t : Vec ℝ nG) (a : Fin nA) (k : Fin nK) (o : Fin nO)
    (hN : NoControl eigvals eigvecs props) :
    (controlMatrixFromScratch kind thr eigvals eigvecs props omega basis nOpers nCoeffs dt t)[a][k][o]
      = Matrix.trace (nOpers[a].toMatrix * basis[k].toMatrix) *
          sensIntComputed kind thr omega[o] nCoeffs[a] dt t := by
  rw [C01.cm_entry, sensIntComputed, Finset.mul_sum]
  refine Finset.sum_congr rfl fun g _ => ?_
  simp only [hN.eigvecs_one g, hN.props_one g, hN.eigvals_zero g, Matrix.conjTranspose_one,
    Matrix.one_mul, Matrix.mul_one, sub_self, add_zero]
  rw [Matrix.trace]
  simp only [Matrix.diag_apply, Matrix.mul_apply]
  rw [Finset.sum_mul]
  refine Finset.sum_congr rfl fun m _ => ?_
  rw [Finset.sum_mul]
  refine Finset.sum_congr rfl fun n _ => ?_
  ring

/-- computed versus exact sensitivity integral, exact branch -/
theorem sensIntComputed_eq {nG : Nat} (kind : MaskKind) (thr : ℝ) (hthr : 0 ≤ thr) (ω : ℝ)
    (s dt t : Vec ℝ nG)
    (hmask : ∀ g : Fin nG, firstOrderMask kind thr ω dt[g] = true ∨ ω * dt[g] = 0) :
    sensIntComputed kind thr ω s dt t = sensInt ω s dt t := by
  unfold sensIntComputed sensInt
  refine Finset.sum_congr rfl fun g _ => ?_
  rw [firstOrderEntry_exact_or kind thr ω dt[g] hthr (hmask g)]

/-- computed versus exact sensitivity integral, guard and threshold of the source, every `ω` -/
theorem sensIntComputed_error {nG : Nat} (ω : ℝ) (s dt t : Vec ℝ nG)
    (hdt : ∀ g : Fin nG, 0 ≤ dt[g]) :
    ‖sensIntComputed Gen.firstOrderMaskKind Gen.firstOrderMaskThr ω s dt t - sensInt ω s dt t‖
      ≤ 1e-7 * sensL s dt := by
  unfold sensIntComputed sensInt sensL
  rw [← Finset.sum_sub_distrib, Finset.mul_sum]
  refine (norm_sum_le _ _).trans (Finset.sum_le_sum fun g _ => ?_)
  rw [← mul_sub, norm_mul, norm_mul, Complex.norm_real, Real.norm_eq_abs, norm_expI_mul, mul_one]
  have herr := C01.firstOrderEntry_error_current ω dt[g] (hdt g)
  calc |s[g]| * ‖(firstOrderEntry Gen.firstOrderMaskKind Gen.firstOrderMaskThr ω dt[g] : ℂ)
          - C01.segIntegral ω dt[g]‖ ≤ |s[g]| * (1e-7 * dt[g]) :=
        mul_le_mul_of_nonneg_left herr (abs_nonneg _)
    _ = 1e-7 * (|s[g]| * dt[g]) := by ring

theorem norm_sensInt_le {nG : Nat} (ω : ℝ) (s dt t : Vec ℝ nG) (hdt : ∀ g : Fin nG, 0 ≤ dt[g]) :
    ‖sensInt ω s dt t‖ ≤ sensL s dt := by
  unfold sensInt sensL
  refine (norm_sum_le _ _).trans (Finset.sum_le_sum fun g _ => ?_)
  rw [norm_mul, norm_mul, Complex.norm_real, Real.norm_eq_abs, norm_expI_mul, mul_one]
  exact mul_le_mul_of_nonneg_left (norm_segIntegral_le ω dt[g] (hdt g)) (abs_nonneg _)

theorem sensL_nonneg {nG : Nat} (s dt : Vec ℝ nG) (hdt : ∀ g : Fin nG, 0 ≤ dt[g]) :
    0 ≤ sensL s dt :=
  Finset.sum_nonneg fun g _ => mul_nonneg (abs_nonneg _) (hdt g)

/-- `iω ∫ s(u) e^{iωu} du = Σ_g s_g (e^{iω t_{g+1}} − e^{iω t_g})` for every `ω`, when `t` are the
cumulative sums of `dt` -/
theorem sensInt_closed {nG : Nat} (ω : ℝ) (s dt t : Vec ℝ nG)
    (ht : ∀ g : Fin nG, t[g] = (times dt)[g.1]'(Nat.lt_succ_of_lt g.2)) :
    (Complex.I * (ω : ℂ)) * sensInt ω s dt t = sensY ω s dt := by
  unfold sensInt sensY
  rw [Finset.mul_sum]
  refine Finset.sum_congr rfl fun g _ => ?_
  have h := segment_closed ω t[g] dt[g]
  rw [times_getElem_succ dt g.1 g.2, ← ht g]
  simp only [Fin.getElem_fin] at h ⊢
  rw [← h]
  ring

/-! ### sign sequences -/

theorem times_signSequence {nG : Nat} {δ σ : ℕ → ℝ} {τ : ℝ} {s dt t : Vec ℝ nG}
    (h : SignSequence δ σ τ s dt t) (hδ0 : δ 0 = 0) :
    ∀ (g : Nat) (hg : g ≤ nG), (times dt)[g]'(Nat.lt_succ_of_le hg) = δ g * τ := by
  intro g
  induction g with
  | zero => intro _; rw [times_getElem_zero, hδ0, zero_mul]
  | succ g ih =>
    intro hg
    have hg' : g < nG := hg
    rw [times_getElem_succ dt g hg', ih (Nat.le_of_lt hg')]
    have := h.dur ⟨g, hg'⟩
    simp only [Fin.getElem_fin] at this
    rw [this]; ring

/-- for a sign sequence, `sensY` is the sum of `Spec.ddY` with general signs, at `z = ω τ` -/
theorem sensY_signSequence {nG : Nat} {δ σ : ℕ → ℝ} {τ : ℝ} {s dt t : Vec ℝ nG}
    (h : SignSequence δ σ τ s dt t) (hδ0 : δ 0 = 0) (ω : ℝ) :
    sensY ω s dt = ∑ j ∈ Finset.range nG, (σ j : ℂ) *
      (Complex.exp (Complex.I * ((ω * τ : ℝ) : ℂ) * (δ (j + 1) : ℂ))
        - Complex.exp (Complex.I * ((ω * τ : ℝ) : ℂ) * (δ j : ℂ))) := by
  unfold sensY
  rw [Finset.sum_range]
  refine Finset.sum_congr rfl fun g _ => ?_
  have hs := h.sens g
  simp only [Fin.getElem_fin] at hs
  rw [times_signSequence h hδ0 (g.1 + 1) g.2, times_signSequence h hδ0 g.1 (Nat.le_of_lt g.2)]
  simp only [Fin.getElem_fin, hs]
  congr 3
  · push_cast; ring
  · push_cast; ring

/-- total weight `Σ_g |s_g| dt_g` of a sign sequence with `|σ_g| = 1` and non-negative durations -/
theorem sensL_signSequence {nG : Nat} {δ σ : ℕ → ℝ} {τ : ℝ} {s dt t : Vec ℝ nG}
    (h : SignSequence δ σ τ s dt t) (hδ0 : δ 0 = 0) (hσ : ∀ j, |σ j| = 1) :
    sensL s dt = δ nG * τ := by
  unfold sensL
  have h1 : ∀ g : Fin nG, |s[g]| * dt[g] = δ (g.1 + 1) * τ - δ g.1 * τ := by
    intro g
    rw [h.sens g, hσ, h.dur g]; ring
  rw [Finset.sum_congr rfl fun g _ => h1 g,
    ← Finset.sum_range (fun j => δ (j + 1) * τ - δ j * τ), Finset.sum_range_sub (fun j => δ j * τ), hδ0]
  ring

/-! ### filter function of a product-form control matrix -/

theorem ff_of_product {nA nK nO : Nat} (CM : Ten3 ℂ nA nK nO) (a b : Fin nA) (o : Fin nO)
    (c : Fin nA → Fin nK → ℂ) (S : Fin nA → ℂ) (h : ∀ a k, CM[a][k][o] = c a k * S a) :
    (filterFunctionFid CM)[a][b][o]
      = (∑ k : Fin nK, starRingEnd ℂ (c a k) * c b k) * (starRingEnd ℂ (S a) * S b) := by
  rw [C01.ff_fidelity_def, Finset.sum_mul]
  refine Finset.sum_congr rfl fun k _ => ?_
  rw [h a k, h b k, map_mul]; ring

/-! ### the Pauli basis and `σ_z / 2` -/

theorem sigma3_apply (a b : Fin 2) :
    Spec.sigma 3 a b = (paulis (K := ℂ))[(3 : Fin 4)][a][b] := by
  fin_cases a <;> fin_cases b <;> simp [Spec.sigma, paulis]

/-- `tr((σ_z/2) C_k) = δ_{k3}/√2` for the normalised Pauli basis `Basis.pauli(1)` (element order
`(1, σ_x, σ_y, σ_z)/√2`) -/
theorem trace_sigmaZ_pauli (k : Fin 4) :
    Matrix.trace (((1 / 2 : ℂ) • Spec.sigma 3) * Spec.basisOf (pauliBasis (K := ℂ) 1) k)
      = if (3 : Fin 4) = k then ((1 / Real.sqrt ((2 : Nat) : ℝ) : ℝ) : ℂ) else 0 := by
  have hC : ∀ a b : Fin 2, Spec.basisOf (pauliBasis (K := ℂ) 1) k a b
      = ((1 / Real.sqrt ((2 : Nat) : ℝ) : ℝ) : ℂ) * (paulis (K := ℂ))[k][a][b] :=
    fun a b => (C14.pauliBasis_one k a b).trans (pauli1_apply k a b)
  simp only [Matrix.trace, Matrix.diag_apply, Matrix.mul_apply, Matrix.smul_apply, smul_eq_mul, hC,
    sigma3_apply]
  have hr : ∀ a b : Fin 2, 1 / 2 * (paulis (K := ℂ))[(3 : Fin 4)][a][b]
      * (((1 / Real.sqrt ((2 : Nat) : ℝ) : ℝ) : ℂ) * (paulis (K := ℂ))[k][b][a])
      = (1 / 2 * ((1 / Real.sqrt ((2 : Nat) : ℝ) : ℝ) : ℂ))
        * ((paulis (K := ℂ))[(3 : Fin 4)][a][b] * (paulis (K := ℂ))[k][b][a]) := by
    intro a b; ring
  simp only [hr, ← Finset.mul_sum, paulis_trace]
  split
  · ring
  · ring

/-- `Σ_k |tr((σ_z/2) C_k)|² = 1/2` over the Pauli basis -/
theorem pauli_weight_sigmaZ :
    ∑ k : Fin 4, starRingEnd ℂ
        (Matrix.trace (((1 / 2 : ℂ) • Spec.sigma 3) * Spec.basisOf (pauliBasis (K := ℂ) 1) k))
      * Matrix.trace (((1 / 2 : ℂ) • Spec.sigma 3) * Spec.basisOf (pauliBasis (K := ℂ) 1) k)
      = 1 / 2 := by
  simp only [trace_sigmaZ_pauli]
  rw [Finset.sum_eq_single (3 : Fin 4)]
  · simp only [if_true, Complex.conj_ofReal]
    exact inv_sqrt_two_sq
  · intro k _ hk
    rw [if_neg (fun h => hk h.symm)]; simp
  · intro h; exact absurd (Finset.mem_univ _) h

/-! ### squared norms -/

theorem normSq_sub_le (S' S : ℂ) (ε L : ℝ) (h1 : ‖S' - S‖ ≤ ε) (h2 : ‖S‖ ≤ L) :
    |‖S'‖ ^ 2 - ‖S‖ ^ 2| ≤ ε * (2 * L + ε) := by
  have h3 : |‖S'‖ - ‖S‖| ≤ ε := (abs_norm_sub_norm_le S' S).trans h1
  have h4 : ‖S'‖ ≤ ‖S‖ + ε := by
    have := (abs_le.mp h3).2; linarith
  have hε : 0 ≤ ε := (norm_nonneg _).trans h1
  have h5 : 0 ≤ ‖S'‖ + ‖S‖ := add_nonneg (norm_nonneg _) (norm_nonneg _)
  rw [show ‖S'‖ ^ 2 - ‖S‖ ^ 2 = (‖S'‖ - ‖S‖) * (‖S'‖ + ‖S‖) by ring, abs_mul, abs_of_nonneg h5]
  exact mul_le_mul h3 (by linarith) h5 hε

/-- `ω² · ½|S'|² − |Y|²/2 = ω²/2 (|S'|² − |S|²)` when `Y = iω S` -/
theorem omegaSq_ff_sub (ω : ℝ) (S' S Y : ℂ) (hY : Complex.I * (ω : ℂ) * S = Y) :
    (ω : ℂ) ^ 2 * (1 / 2 * (starRingEnd ℂ S' * S')) - ((‖Y‖ ^ 2 / 2 : ℝ) : ℂ)
      = ((ω ^ 2 / 2 * (‖S'‖ ^ 2 - ‖S‖ ^ 2) : ℝ) : ℂ) := by
  have hn : ‖Y‖ ^ 2 = ω ^ 2 * ‖S‖ ^ 2 := by
    rw [← hY, norm_mul, norm_mul, Complex.norm_I, one_mul, Complex.norm_real, Real.norm_eq_abs,
      mul_pow, sq_abs]
  rw [hn, Complex.conj_mul']
  push_cast
  ring

/-- **Fidelity filter function of the model for a control-free qubit with noise operator `σ_z/2`
and the Pauli basis**, in terms of the computed sensitivity integral: `F_aa(ω) = ½ |S̃_a(ω)|²`
(any guard and threshold). -/
theorem ff_no_control_sigmaZ_computed {nG nO nA : Nat} (kind : MaskKind) (thr : ℝ)
    (eigvals : Mat ℝ nG (2 ^ 1)) (eigvecs props : Vector (Mat ℂ (2 ^ 1) (2 ^ 1)) nG)
    (omega : Vec ℝ nO) (nOpers : Vector (Mat ℂ (2 ^ 1) (2 ^ 1)) nA)
    (nCoeffs : Mat ℝ nA nG) (dt t : Vec ℝ nG) (a : Fin nA) (o : Fin nO)
    (hN : NoControl eigvals eigvecs props)
    (hB : nOpers[a].toMatrix = (1 / 2 : ℂ) • Spec.sigma 3) :
    (filterFunctionFid (controlMatrixFromScratch kind thr eigvals eigvecs props omega
        (pauliBasis (K := ℂ) 1) nOpers nCoeffs dt t))[a][a][o]
      = 1 / 2 * (starRingEnd ℂ (sensIntComputed kind thr omega[o] nCoeffs[a] dt t)
          * sensIntComputed kind thr omega[o] nCoeffs[a] dt t) := by
  rw [ff_of_product _ a a o
    (fun a' k => Matrix.trace (nOpers[a'].toMatrix * (pauliBasis (K := ℂ) 1)[k].toMatrix))
    (fun a' => sensIntComputed kind thr omega[o] nCoeffs[a'] dt t)
    (fun a' k => cm_no_control_entry kind thr eigvals eigvecs props omega _ nOpers nCoeffs dt t
      a' k o hN)]
  simp only [hB]
  congr 1
  exact pauli_weight_sigmaZ

/-- `Spec.ddF` written as the general sign sum with `σ_j = (-1)^j` -/
theorem ddF_eq_signSum (n : ℕ) (δ : ℕ → ℝ) (z : ℝ) :
    Spec.ddF n δ z = ‖∑ j ∈ Finset.range (n + 1), (((-1 : ℝ) ^ j : ℝ) : ℂ) *
      (Complex.exp (Complex.I * (z : ℂ) * (δ (j + 1) : ℂ))
        - Complex.exp (Complex.I * (z : ℂ) * (δ j : ℂ)))‖ ^ 2 / 2 := by
  unfold Spec.ddF Spec.ddY
  push_cast
  rfl

/-! ### canonical witnesses (every number of segments) -/

/-- zero eigenvalues, identity eigenvectors and propagators form `NoControl` data, for every number
of segments and every dimension -/
theorem noControl_canonical (nG d : Nat) :
    NoControl (Mat.ofFn fun _ _ => 0 : Mat ℝ nG d) (Vector.ofFn fun _ => Mat.one)
      (Vector.ofFn fun _ => Mat.one) := by
  refine ⟨fun g m => ?_, fun g => ?_, fun g => ?_⟩
  · simp
  · rw [C01.vec_ofFn_get]; exact Mat.toMatrix_one
  · rw [C01.vec_ofFn_get]; exact Mat.toMatrix_one

/-- every `(δ, σ, τ)` is realised by a sign sequence with any number of segments -/
theorem signSequence_canonical (nG : Nat) (δ σ : ℕ → ℝ) (τ : ℝ) :
    SignSequence δ σ τ (Vector.ofFn fun g : Fin nG => σ g.1)
      (Vector.ofFn fun g : Fin nG => (δ (g.1 + 1) - δ g.1) * τ)
      (Vector.ofFn fun g : Fin nG =>
        (times (Vector.ofFn fun g : Fin nG => (δ (g.1 + 1) - δ g.1) * τ))[g.1]'(Nat.lt_succ_of_lt g.2)) :=
  ⟨fun g => C01.vec_ofFn_get _ g, fun g => C01.vec_ofFn_get _ g, fun g => C01.vec_ofFn_get _ g⟩

/-! ### a concrete spin echo (non-vacuity witness)

Two segments of length `1/2` (`τ = 1`), sensitivities `+1, −1` (one ideal π pulse at `τ/2`), no
control (`H = 0`: eigenvalues `0`, eigenvectors and propagators `1`), noise operator `σ_z/2`, one
frequency `ω = 3`. -/

namespace SE

noncomputable def eigvals : Mat ℝ 2 (2 ^ 1) := Mat.ofFn fun _ _ => 0
noncomputable def ident : Vector (Mat ℂ (2 ^ 1) (2 ^ 1)) 2 := Vector.ofFn fun _ => Mat.one
noncomputable def omega : Vec ℝ 1 := #v[3]
noncomputable def noise : Vector (Mat ℂ (2 ^ 1) (2 ^ 1)) 1 :=
  #v[rscale (1 / 2 : ℝ) (paulis (K := ℂ))[(3 : Fin 4)]]
noncomputable def coeffs : Mat ℝ 1 2 := #v[#v[1, -1]]
noncomputable def dt : Vec ℝ 2 := #v[1 / 2, 1 / 2]
noncomputable def t : Vec ℝ 2 := #v[0, 1 / 2]

theorem noControl : NoControl eigvals ident ident := by
  refine ⟨fun g m => ?_, fun g => ?_, fun g => ?_⟩
  · simp [eigvals]
  · unfold ident; rw [C01.vec_ofFn_get]; exact Mat.toMatrix_one
  · unfold ident; rw [C01.vec_ofFn_get]; exact Mat.toMatrix_one

theorem noise_eq : noise[(0 : Fin 1)].toMatrix = (1 / 2 : ℂ) • Spec.sigma 3 := by
  show (rscale (1 / 2 : ℝ) (paulis (K := ℂ))[(3 : Fin 4)]).toMatrix = _
  rw [rscale_toMatrix]
  ext a b
  simp only [Matrix.smul_apply, Mat.toMatrix_apply, sigma3_apply]
  push_cast
  rfl

theorem seq : SignSequence (fun j => (j : ℝ) / 2) (fun j => (-1) ^ j) 1 coeffs[(0 : Fin 1)] dt t := by
  refine ⟨fun g => ?_, fun g => ?_, fun g => ?_⟩
  · fin_cases g
    · simp [dt]
    · simp [dt]; norm_num
  · fin_cases g
    · simp [t, times_getElem_zero]
    · have h := times_getElem_succ dt 0 (by norm_num)
      simp only [zero_add] at h
      simp only [Fin.getElem_fin]
      rw [h, times_getElem_zero]
      simp [t, dt]
  · fin_cases g <;> simp [coeffs]

end SE

end FFVerif.EngineAux
