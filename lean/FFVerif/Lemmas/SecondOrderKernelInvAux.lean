/-
Kernel-level helper lemmas for `Props/C13Second.lean`: the nested integral of two exponentials
under a split of the duration, at duration zero and under a change of the time unit; the value of
`_first_order_integral` with the exact `≠ 0` guard.
-/
import FFVerif.Props.C10
import FFVerif.Props.C13

namespace FFVerif.SecondOrderInv
open FFVerif FFVerif.Model FFVerif.SecondOrderAux Complex MeasureTheory intervalIntegral

/-- the two names of `∫₀^dt e^{i c s} ds` in the project agree -/
theorem segI_eq_segIntegral (c dt : ℝ) : segI c dt = C01.segIntegral c dt := rfl

/-- `∫₀^{a+b} = ∫₀^a + e^{i c a} ∫₀^b` -/
theorem segI_add (c a b : ℝ) : segI c (a + b) = segI c a + exp (I * c * a) * segI c b :=
  C13.segIntegral_split c a b

@[simp] theorem segI_zero_dt (c : ℝ) : segI c 0 = 0 := by
  unfold segI; simp

@[simp] theorem nested2_zero_dt (a b : ℝ) : nested2 a b 0 = 0 := by
  unfold nested2; simp

/-- with the exact guard the entry of `_first_order_integral` is the segment integral for every
`x` (the limit value `dt` written at `x = 0` is the integral there) -/
theorem firstOrderEntry_neZero (thr x dt : ℝ) :
    (firstOrderEntry .neZero thr x dt : ℂ) = segI x dt := by
  unfold firstOrderEntry firstOrderMask
  by_cases hx : x = 0
  · subst hx; simp
  · rw [segI_closed x dt hx]; simp [hx, mul_assoc]

/-- **Splitting the nested integral**: triangle over `[0,τ₁]`, rectangle `[τ₁,τ₁+τ₂]×[0,τ₁]`,
triangle over `[τ₁,τ₁+τ₂]`:
`N(a,b,τ₁+τ₂) = N(a,b,τ₁) + e^{iaτ₁} I(a,τ₂) I(b,τ₁) + e^{i(a+b)τ₁} N(a,b,τ₂)`;
all real `a`, `b`, `τ₁`, `τ₂` (any signs, all resonances). -/
theorem nested2_add (a b τ₁ τ₂ : ℝ) :
    nested2 a b (τ₁ + τ₂) = nested2 a b τ₁ + exp (I * a * τ₁) * segI a τ₂ * segI b τ₁
      + exp (I * a * τ₁) * exp (I * b * τ₁) * nested2 a b τ₂ := by
  have hc : Continuous fun t : ℝ => exp (I * a * t) * segI b t :=
    (continuous_expI a).mul (continuous_segI b)
  have hsplit : nested2 a b (τ₁ + τ₂)
      = nested2 a b τ₁ + ∫ t in τ₁..(τ₁ + τ₂), exp (I * a * t) * segI b t := by
    rw [nested2_eq_segI, nested2_eq_segI]
    exact (integral_add_adjacent_intervals (hc.intervalIntegrable _ _)
      (hc.intervalIntegrable _ _)).symm
  have hshift : (∫ t in τ₁..(τ₁ + τ₂), exp (I * a * t) * segI b t)
      = ∫ u in (0:ℝ)..τ₂, exp (I * a * (u + τ₁ : ℝ)) * segI b (u + τ₁) := by
    have h := intervalIntegral.integral_comp_add_right (a := 0) (b := τ₂)
      (fun t : ℝ => exp (I * a * t) * segI b t) τ₁
    rw [zero_add, add_comm τ₂ τ₁] at h
    exact h.symm
  have hpt : ∀ u : ℝ, exp (I * a * (u + τ₁ : ℝ)) * segI b (u + τ₁)
      = (exp (I * a * τ₁) * segI b τ₁) * exp (I * a * u)
        + (exp (I * a * τ₁) * exp (I * b * τ₁)) * (exp (I * a * u) * segI b u) := by
    intro u
    have e : exp (I * a * ((u + τ₁ : ℝ) : ℂ)) = exp (I * a * τ₁) * exp (I * a * u) := by
      rw [← Complex.exp_add]; congr 1; push_cast; ring
    rw [add_comm u τ₁, segI_add, add_comm τ₁ u, e]
    ring
  rw [hsplit, hshift, integral_congr (fun u _ => hpt u),
    intervalIntegral.integral_add
      (((continuous_expI a).const_mul _ |>.intervalIntegrable _ _))
      ((hc.const_mul _).intervalIntegrable _ _),
    intervalIntegral.integral_const_mul, intervalIntegral.integral_const_mul]
  rw [nested2_eq_segI a b τ₂]
  unfold segI
  ring

/-- **Change of the time unit for the nested integral**: `N(a/λ, b/λ, λ·dt) = λ² N(a,b,dt)`. -/
theorem nested2_scale (a b dt lam : ℝ) (hl : lam ≠ 0) :
    nested2 (a / lam) (b / lam) (lam * dt) = (lam : ℂ) ^ 2 * nested2 a b dt := by
  have hlc : (lam : ℂ) ≠ 0 := by exact_mod_cast hl
  have hseg : ∀ (c t : ℝ), segI (c / lam) (lam * t) = (lam : ℂ) * segI c t := by
    intro c t
    by_cases hc : c = 0
    · subst hc; simp
    · have hc' : c / lam ≠ 0 := div_ne_zero hc hl
      rw [segI_closed _ _ hc', segI_closed _ _ hc]
      push_cast
      have hcc : (c : ℂ) ≠ 0 := by exact_mod_cast hc
      have e : I * ((c : ℂ) / lam) * (lam * t) = I * c * t := by field_simp
      rw [e]
      field_simp
  rw [nested2_eq_segI, nested2_eq_segI]
  have h := intervalIntegral.integral_comp_mul_left (a := 0) (b := dt)
    (fun t : ℝ => exp (I * (a / lam : ℝ) * t) * segI (b / lam) t) hl
  rw [mul_zero] at h
  have hrw : (∫ t in (0:ℝ)..lam * dt, exp (I * ((a / lam : ℝ) : ℂ) * t) * segI (b / lam) t)
      = lam • ∫ u in (0:ℝ)..dt, exp (I * (a / lam : ℝ) * ((lam * u : ℝ) : ℂ))
          * segI (b / lam) (lam * u) := by
    rw [h, smul_smul, mul_inv_cancel₀ hl, one_smul]
  rw [hrw]
  have hpt : ∀ u : ℝ, exp (I * (a / lam : ℝ) * ((lam * u : ℝ) : ℂ)) * segI (b / lam) (lam * u)
      = (lam : ℂ) * (exp (I * a * u) * segI b u) := by
    intro u
    have e : I * ((a / lam : ℝ) : ℂ) * ((lam * u : ℝ) : ℂ) = I * a * u := by
      push_cast; field_simp
    rw [hseg, e]; ring
  rw [integral_congr (fun u _ => hpt u), intervalIntegral.integral_const_mul, Complex.real_smul]
  ring

end FFVerif.SecondOrderInv
