/-
Helper lemmas for property C16 (tensor-product helpers, Pauli index maps):
position normalisation, mixed-radix (de)coding, stable sorting, the insertion loop and its
specification.
-/
import FFVerif.Model.Tensor
import Mathlib.Data.List.Nodup
import Mathlib.Data.List.Perm.Basic
import Mathlib.Data.List.Perm.Subperm

namespace FFVerif.TensorAux
open FFVerif.Model.Tensor

/-! ### position normalisation -/

/-- the natural number a position in `[-ndim, ndim]` stands for -/
def normNat (ndim : Nat) (p : Int) : Nat := if 0 ≤ p then p.toNat else (p + ndim).toNat

theorem normPos_ok_iff (ndim : Nat) (p : Int) (q : Nat) :
    normPos ndim p = .ok q ↔
      (-(ndim : Int) ≤ p ∧ p ≤ ndim ∧ (q : Int) = if 0 ≤ p then p else p + ndim) := by
  unfold normPos
  by_cases h1 : p = (ndim : Int)
  · subst h1; simp; omega
  · rw [if_neg h1]
    by_cases h2 : ndim = 0
    · subst h2; simp; omega
    · rw [if_neg h2]
      have hn : (0 : Int) ≤ ndim := by omega
      have hpos : (0 : Int) < ndim := by omega
      have hne : (ndim : Int) ≠ 0 := by omega
      simp only [Int.fdiv_eq_ediv_of_nonneg p hn, Int.fmod_eq_emod_of_nonneg p hn]
      have hdm := Int.emod_add_mul_ediv p ndim
      have hm0 := Int.emod_nonneg p hne
      have hm1 := Int.emod_lt_of_pos p hpos
      constructor
      · intro h
        split at h
        · rename_i hd
          injection h with h
          rcases hd with hd | hd
          · rw [hd] at hdm; omega
          · rw [hd] at hdm; omega
        · cases h
      · rintro ⟨hlo, hhi, hq⟩
        by_cases hp : 0 ≤ p
        · have hd : p / (ndim : Int) = 0 := Int.ediv_eq_zero_of_lt hp (by omega)
          have hm : p % (ndim : Int) = p := Int.emod_eq_of_lt hp (by omega)
          rw [hd, hm]; simp only [or_true, ↓reduceIte]
          rw [if_pos hp] at hq; congr 1; omega
        · have h0 : (p + 1 * (ndim : Int)) / (ndim : Int) = p / (ndim : Int) + 1 :=
            Int.add_mul_ediv_right p 1 hne
          have h1' : (p + 1 * (ndim : Int)) / (ndim : Int) = 0 :=
            Int.ediv_eq_zero_of_lt (by omega) (by omega)
          have hd : p / (ndim : Int) = -1 := by omega
          rw [hd] at hdm
          rw [hd]; simp only [true_or, ↓reduceIte]
          rw [if_neg hp] at hq; congr 1; omega

theorem normPos_admissible {ndim : Nat} {p : Int} (h : -(ndim : Int) ≤ p ∧ p ≤ ndim) :
    normPos ndim p = .ok (normNat ndim p) := by
  rw [normPos_ok_iff]
  refine ⟨h.1, h.2, ?_⟩
  unfold normNat
  split <;> omega

theorem normNat_le {ndim : Nat} {p : Int} (h : -(ndim : Int) ≤ p ∧ p ≤ ndim) :
    normNat ndim p ≤ ndim := by
  unfold normNat; split <;> omega

/-- the error classes of an inadmissible position -/
theorem normPos_error (ndim : Nat) (p : Int) (h : ¬ (-(ndim : Int) ≤ p ∧ p ≤ ndim)) :
    normPos ndim p = .error (if ndim = 0 then "ZeroDivisionError" else "IndexError") := by
  cases hr : normPos ndim p with
  | ok q => exact absurd ((normPos_ok_iff ndim p q).1 hr |>.imp_right And.left) h
  | error e =>
    unfold normPos at hr
    split at hr
    · cases hr
    · split at hr
      · rename_i h0; rw [if_pos h0]; exact hr.symm
      · rename_i h0; rw [if_neg h0]
        dsimp only at hr
        split at hr
        · cases hr
        · exact hr.symm

theorem normAll_admissible {ndim : Nat} {pos : List Int}
    (h : ∀ p ∈ pos, -(ndim : Int) ≤ p ∧ p ≤ ndim) :
    normAll ndim pos = .ok (pos.map (normNat ndim)) := by
  induction pos with
  | nil => rfl
  | cons p ps ih =>
    simp only [normAll, normPos_admissible (h p (by simp)), ih (fun q hq => h q (by simp [hq])),
      List.map_cons]

theorem normAll_ok_iff (ndim : Nat) (pos : List Int) :
    (∃ qs, normAll ndim pos = .ok qs) ↔ ∀ p ∈ pos, -(ndim : Int) ≤ p ∧ p ≤ ndim := by
  constructor
  · induction pos with
    | nil => simp
    | cons p ps ih =>
      rintro ⟨qs, h⟩
      simp only [normAll] at h
      cases hp : normPos ndim p with
      | error e => rw [hp] at h; cases h
      | ok q =>
        rw [hp] at h
        cases hps : normAll ndim ps with
        | error e => rw [hps] at h; cases h
        | ok qs' =>
          have := ih ⟨qs', hps⟩
          have hq := (normPos_ok_iff ndim p q).1 hp
          intro x hx
          rcases List.mem_cons.1 hx with rfl | hx
          · exact ⟨hq.1, hq.2.1⟩
          · exact this x hx
  · intro h; exact ⟨_, normAll_admissible h⟩

theorem normAll_error_class (ndim : Nat) (pos : List Int) (e : String)
    (h : normAll ndim pos = .error e) :
    e = if ndim = 0 then "ZeroDivisionError" else "IndexError" := by
  induction pos generalizing e with
  | nil => cases h
  | cons p ps ih =>
    simp only [normAll] at h
    cases hp : normPos ndim p with
    | error e' =>
      rw [hp] at h
      by_cases hadm : -(ndim : Int) ≤ p ∧ p ≤ ndim
      · rw [normPos_admissible hadm] at hp; cases hp
      · rw [normPos_error ndim p hadm] at hp
        injection hp with hp; injection h with h; rw [← h, ← hp]
    | ok q =>
      rw [hp] at h
      cases hps : normAll ndim ps with
      | error e' => rw [hps] at h; injection h with h; rw [← h]; exact ih _ hps
      | ok qs => rw [hps] at h; cases h

/-! ### mixed radix -/

theorem prod_append (a b : List Nat) : prod (a ++ b) = prod a * prod b := by
  induction a with
  | nil => simp [prod]
  | cons d ds ih => simp [prod, ih, Nat.mul_assoc]

theorem prod_replicate (n d : Nat) : prod (List.replicate n d) = d ^ n := by
  induction n with
  | zero => rfl
  | succ n ih => simp [List.replicate_succ, prod, ih, Nat.pow_succ, Nat.mul_comm]

theorem inBounds_length {ds xs : List Nat} (h : inBounds ds xs = true) : xs.length = ds.length := by
  induction ds generalizing xs with
  | nil => cases xs <;> simp_all [inBounds]
  | cons d ds ih =>
    cases xs with
    | nil => simp [inBounds] at h
    | cons x xs => simp only [inBounds, Bool.and_eq_true] at h; simp [ih h.2]

theorem encode_lt {ds xs : List Nat} (h : inBounds ds xs = true) :
    mixedRadixEncode ds xs < prod ds := by
  induction ds generalizing xs with
  | nil => cases xs <;> simp_all [inBounds, mixedRadixEncode, prod]
  | cons d ds ih =>
    cases xs with
    | nil => simp [inBounds] at h
    | cons x xs =>
      simp only [inBounds, Bool.and_eq_true, decide_eq_true_eq] at h
      have := ih h.2
      simp only [mixedRadixEncode, prod]
      calc x * prod ds + mixedRadixEncode ds xs < x * prod ds + prod ds := by omega
        _ = (x + 1) * prod ds := by rw [Nat.add_mul, Nat.one_mul]
        _ ≤ d * prod ds := Nat.mul_le_mul_right _ h.1

/-- `unravel_index ∘ ravel_multi_index = id` on digit tuples within bounds -/
theorem decode_encode {ds xs : List Nat} (h : inBounds ds xs = true) :
    mixedRadixDecode ds (mixedRadixEncode ds xs) = xs := by
  induction ds generalizing xs with
  | nil => cases xs <;> simp_all [inBounds, mixedRadixDecode]
  | cons d ds ih =>
    cases xs with
    | nil => simp [inBounds] at h
    | cons x xs =>
      simp only [inBounds, Bool.and_eq_true, decide_eq_true_eq] at h
      have hlt := encode_lt h.2
      have hpos : 0 < prod ds := by omega
      simp only [mixedRadixEncode, mixedRadixDecode]
      rw [Nat.add_comm, Nat.add_mul_div_right _ _ hpos, Nat.add_mul_mod_self_right,
        Nat.div_eq_of_lt hlt, Nat.mod_eq_of_lt hlt, ih h.2, Nat.zero_add]

theorem decode_inBounds {ds : List Nat} {n : Nat} (h : n < prod ds) :
    inBounds ds (mixedRadixDecode ds n) = true := by
  induction ds generalizing n with
  | nil => rfl
  | cons d ds ih =>
    simp only [prod] at h
    have hpos : 0 < prod ds := by
      rcases Nat.eq_zero_or_pos (prod ds) with h0 | h0
      · rw [h0] at h; omega
      · exact h0
    simp only [mixedRadixDecode, inBounds, Bool.and_eq_true, decide_eq_true_eq]
    refine ⟨?_, ih (Nat.mod_lt _ hpos)⟩
    rw [Nat.div_lt_iff_lt_mul hpos]; exact h

/-- `ravel_multi_index ∘ unravel_index = id` below the total size -/
theorem encode_decode {ds : List Nat} {n : Nat} (h : n < prod ds) :
    mixedRadixEncode ds (mixedRadixDecode ds n) = n := by
  induction ds generalizing n with
  | nil => simp [prod] at h; simp [mixedRadixEncode, h]
  | cons d ds ih =>
    simp only [prod] at h
    have hpos : 0 < prod ds := by
      rcases Nat.eq_zero_or_pos (prod ds) with h0 | h0
      · rw [h0] at h; omega
      · exact h0
    simp only [mixedRadixDecode, mixedRadixEncode, ih (Nat.mod_lt _ hpos)]
    exact Nat.div_add_mod' n (prod ds)

theorem decode_length (ds : List Nat) (n : Nat) : (mixedRadixDecode ds n).length = ds.length := by
  induction ds generalizing n with
  | nil => rfl
  | cons d ds ih => simp [mixedRadixDecode, ih]

theorem encode_append {d1 d2 x1 x2 : List Nat} (h : x1.length = d1.length) :
    mixedRadixEncode (d1 ++ d2) (x1 ++ x2)
      = mixedRadixEncode d1 x1 * prod d2 + mixedRadixEncode d2 x2 := by
  induction d1 generalizing x1 with
  | nil => cases x1 <;> simp_all [mixedRadixEncode]
  | cons d ds ih =>
    cases x1 with
    | nil => simp at h
    | cons x xs =>
      simp only [List.length_cons, Nat.add_right_cancel_iff] at h
      simp only [List.cons_append, mixedRadixEncode, ih h, prod_append, Nat.add_mul,
        Nat.mul_assoc, Nat.add_assoc]

theorem decode_append {d1 d2 : List Nat} {n : Nat} (h : n < prod (d1 ++ d2)) :
    mixedRadixDecode (d1 ++ d2) n
      = mixedRadixDecode d1 (n / prod d2) ++ mixedRadixDecode d2 (n % prod d2) := by
  induction d1 generalizing n with
  | nil =>
    simp only [List.nil_append] at h
    simp [mixedRadixDecode, Nat.mod_eq_of_lt h]
  | cons d ds ih =>
    simp only [List.cons_append, prod] at h
    have hpos : 0 < prod (ds ++ d2) := by
      rcases Nat.eq_zero_or_pos (prod (ds ++ d2)) with h0 | h0
      · rw [h0] at h; omega
      · exact h0
    simp only [List.cons_append, mixedRadixDecode]
    rw [ih (Nat.mod_lt _ hpos)]
    simp only [prod_append]
    rw [Nat.mod_mul_left_div_self, Nat.mod_mul_left_mod, Nat.div_div_eq_div_mul,
      Nat.mul_comm (prod d2)]

/-! ### stable sort -/

section SortSec
variable {α : Type}

theorem insertBy_perm (le : α → α → Bool) (x : α) (l : List α) :
    (insertBy le x l).Perm (x :: l) := by
  induction l with
  | nil => exact List.Perm.refl _
  | cons y ys ih =>
    simp only [insertBy]; split
    · exact List.Perm.refl _
    · exact (List.Perm.cons y ih).trans (List.Perm.swap x y ys)

theorem stableSort_perm (le : α → α → Bool) (l : List α) : (stableSort le l).Perm l := by
  induction l with
  | nil => exact .refl _
  | cons x xs ih => exact (insertBy_perm le x _).trans (List.Perm.cons x ih)

theorem pairwise_insertBy {le : α → α → Bool} (htot : ∀ a b, le a b = false → le b a = true)
    (htr : ∀ a b c, le a b = true → le b c = true → le a c = true) (x : α) (l : List α)
    (h : l.Pairwise (fun a b => le a b = true)) :
    (insertBy le x l).Pairwise (fun a b => le a b = true) := by
  induction l with
  | nil => simp [insertBy]
  | cons y ys ih =>
    rw [List.pairwise_cons] at h
    simp only [insertBy]; split
    · rename_i hxy
      refine List.Pairwise.cons ?_ (List.Pairwise.cons h.1 h.2)
      intro z hz
      rcases List.mem_cons.1 hz with rfl | hz
      · exact hxy
      · exact htr _ _ _ hxy (h.1 z hz)
    · rename_i hxy
      refine List.Pairwise.cons ?_ (ih h.2)
      intro z hz
      rcases List.mem_cons.1 ((insertBy_perm le x ys).mem_iff.1 hz) with rfl | hz
      · exact htot _ _ (by simpa using hxy)
      · exact h.1 z hz

theorem pairwise_stableSort {le : α → α → Bool} (htot : ∀ a b, le a b = false → le b a = true)
    (htr : ∀ a b c, le a b = true → le b c = true → le a c = true) (l : List α) :
    (stableSort le l).Pairwise (fun a b => le a b = true) := by
  induction l with
  | nil => simp [stableSort]
  | cons x xs ih => exact pairwise_insertBy htot htr x _ ih

theorem filter_insertBy (le : Nat × α → Nat × α → Bool) (k : Nat) (x : Nat × α)
    (l : List (Nat × α)) (h : ∀ y ∈ l, le x y = false → y.1 ≠ x.1) :
    (insertBy le x l).filter (fun z => z.1 == k) = (x :: l).filter (fun z => z.1 == k) := by
  induction l with
  | nil => rfl
  | cons y ys ih =>
    simp only [insertBy]; split
    · rfl
    · rename_i hxy
      have hne := h y (by simp) (by simpa using hxy)
      rw [List.filter_cons, ih (fun z hz => h z (by simp [hz]))]
      by_cases hx : x.1 = k
      · have hy : ¬ y.1 = k := fun hy => hne (hy.trans hx.symm)
        simp [hx, hy]
      · simp [List.filter_cons, hx]

/-- stability: the elements with a given key keep their original order -/
theorem filter_stableSort (le : Nat × α → Nat × α → Bool) (k : Nat) (l : List (Nat × α))
    (h : l.Pairwise (fun x y => le x y = false → y.1 ≠ x.1)) :
    (stableSort le l).filter (fun z => z.1 == k) = l.filter (fun z => z.1 == k) := by
  induction l with
  | nil => rfl
  | cons x xs ih =>
    rw [List.pairwise_cons] at h
    simp only [stableSort]
    rw [filter_insertBy le k x _
      (fun y hy => h.1 y ((stableSort_perm le xs).mem_iff.1 hy)),
      List.filter_cons, List.filter_cons, ih h.2]

/-- sortedness by position -/
def SortedPos (l : List (Nat × α)) : Prop := l.Pairwise (fun a b => a.1 ≤ b.1)

theorem sortByPos_sorted (l : List (Nat × α)) : SortedPos (sortByPos l) := by
  have := pairwise_stableSort (le := fun a b : Nat × α => decide (a.1 ≤ b.1))
    (by intro a b h; simp at h ⊢; omega) (by intro a b c h1 h2; simp at h1 h2 ⊢; omega) l
  exact this.imp (by intro a b h; simpa using h)

theorem sortByPos_perm (l : List (Nat × α)) : (sortByPos l).Perm l := stableSort_perm _ l

theorem filter_sortByPos (k : Nat) (l : List (Nat × α)) :
    (sortByPos l).filter (fun z => z.1 == k) = l.filter (fun z => z.1 == k) := by
  apply filter_stableSort
  exact List.pairwise_of_forall (by intro x y h; simp at h; omega)

end SortSec

/-! ### the insertion loop and its specification -/

section Insert
variable {α : Type}

/-- the arguments whose (normalised) position is `k`, in their original order -/
def argsAt (k : Nat) (ps : List (Nat × α)) : List α :=
  (ps.filter (fun x => x.1 == k)).map (·.2)

/-- Specification of `numpy.insert(chain, positions, args)` on lists (positions refer to the
original chain, `k` = index of the head of the chain): in front of the original factor `k` come
exactly the arguments with position `k`, in argument order; after the last factor those whose
position is the chain length. No sorting involved. -/
def insertSpec (k : Nat) : List α → List (Nat × α) → List α
  | [], ps => argsAt k ps
  | c :: cs, ps => argsAt k ps ++ c :: insertSpec (k + 1) cs ps

theorem insertSpec_congr (k : Nat) (cs : List α) (ps ps' : List (Nat × α))
    (h : ∀ k, argsAt k ps = argsAt k ps') : insertSpec k cs ps = insertSpec k cs ps' := by
  induction cs generalizing k with
  | nil => exact h k
  | cons c cs ih => simp only [insertSpec, h k, ih]

theorem argsAt_sortByPos (k : Nat) (ps : List (Nat × α)) :
    argsAt k (sortByPos ps) = argsAt k ps := by
  unfold argsAt; rw [filter_sortByPos]

theorem argsAt_eq_nil (k : Nat) (ps : List (Nat × α)) (h : ∀ x ∈ ps, x.1 ≠ k) :
    argsAt k ps = [] := by
  unfold argsAt
  rw [List.filter_eq_nil_iff.2 (by intro x hx; simpa using h x hx)]; rfl

theorem argsAt_cons_ne (k : Nat) (x : Nat × α) (ps : List (Nat × α)) (h : x.1 ≠ k) :
    argsAt k (x :: ps) = argsAt k ps := by
  unfold argsAt; simp [h]

theorem argsAt_cons_eq (x : Nat × α) (ps : List (Nat × α)) :
    argsAt x.1 (x :: ps) = x.2 :: argsAt x.1 ps := by
  unfold argsAt; simp

theorem insertSpec_cons_lt (k : Nat) (cs : List α) (x : Nat × α) (ps : List (Nat × α))
    (h : x.1 < k) : insertSpec k cs (x :: ps) = insertSpec k cs ps := by
  induction cs generalizing k with
  | nil => exact argsAt_cons_ne k x ps (by omega)
  | cons c cs ih => simp only [insertSpec, argsAt_cons_ne k x ps (by omega), ih (k + 1) (by omega)]

theorem insertSpec_nil (k : Nat) (cs : List α) : insertSpec k cs [] = cs := by
  induction cs generalizing k with
  | nil => rfl
  | cons c cs ih => simp [insertSpec, argsAt, ih]

/-- peeling the first (smallest) sorted argument off the specification -/
theorem insertSpec_cons (d k : Nat) (cs : List α) (a : α) (rest : List (Nat × α))
    (hd : d ≤ cs.length) (hrest : ∀ x ∈ rest, k + d ≤ x.1) :
    insertSpec k cs ((k + d, a) :: rest)
      = cs.take d ++ a :: insertSpec (k + d) (cs.drop d) rest := by
  induction d generalizing k cs with
  | zero =>
    cases cs with
    | nil => simpa [insertSpec] using argsAt_cons_eq (k, a) rest
    | cons c cs =>
      have := argsAt_cons_eq (k, a) rest
      simp only at this
      simp only [insertSpec, Nat.add_zero, this, List.take_zero, List.drop_zero, List.nil_append,
        List.cons_append, insertSpec_cons_lt (k + 1) cs (k, a) rest (by simp)]
  | succ d ih =>
    cases cs with
    | nil => simp at hd
    | cons c cs =>
      have h1 : argsAt k ((k + (d + 1), a) :: rest) = [] :=
        argsAt_eq_nil _ _ (by
          intro x hx
          rcases List.mem_cons.1 hx with rfl | hx
          · simp
          · have := hrest x hx; omega)
      have h2 := ih (k + 1) cs (by simpa using hd) (by intro x hx; have := hrest x hx; omega)
      have e : k + 1 + d = k + (d + 1) := by omega
      rw [e] at h2
      simp only [insertSpec, h1, List.nil_append, h2, List.take_succ_cons, List.drop_succ_cons,
        List.cons_append]

theorem insertAt_append_right (pre cs : List α) (d : Nat) (a : α) (n : Nat)
    (hn : n = pre.length + d) :
    insertAt (pre ++ cs) n a = (pre ++ cs.take d ++ [a]) ++ cs.drop d := by
  subst hn
  unfold insertAt
  simp only [List.take_append, List.drop_append]
  rw [List.take_of_length_le (by omega), List.drop_of_length_le (by omega)]
  simp

/-- the loop of `tensor_insert` on sorted admissible positions computes the specification -/
theorem insertLoop_eq_spec (sp : List (Nat × α)) (i k : Nat) (pre cs : List α)
    (hs : SortedPos sp) (hadm : ∀ x ∈ sp, k ≤ x.1 ∧ x.1 ≤ k + cs.length)
    (hpre : pre.length = k + i) :
    insertLoop i (pre ++ cs) sp = pre ++ insertSpec k cs sp := by
  induction sp generalizing i k pre cs with
  | nil =>
    simp only [insertLoop, insertSpec_nil]
  | cons x rest ih =>
    obtain ⟨p, a⟩ := x
    have hp := hadm (p, a) (by simp)
    simp only at hp
    unfold SortedPos at hs
    rw [List.pairwise_cons] at hs
    obtain ⟨d, rfl⟩ : ∃ d, p = k + d := ⟨p - k, by omega⟩
    have hd : d ≤ cs.length := by omega
    simp only [insertLoop]
    rw [insertAt_append_right pre cs d a (k + d + i) (by omega)]
    rw [ih (i + 1) (k + d) (pre ++ cs.take d ++ [a]) (cs.drop d) hs.2
      (by
        intro y hy
        have h1 := hs.1 y hy
        have h2 := hadm y (by simp [hy])
        simp only at h1
        simp only [List.length_drop]; omega)
      (by simp [List.length_take, hpre]; omega)]
    rw [insertSpec_cons d k cs a rest hd (by intro y hy; exact hs.1 y hy)]
    simp

end Insert

/-! ### permutation / order preservation of the insertion loop -/

section InsertPerm
variable {α : Type}

theorem insertAt_perm (l : List α) (k : Nat) (a : α) : (insertAt l k a).Perm (a :: l) := by
  unfold insertAt
  refine List.perm_middle.trans ?_
  rw [List.take_append_drop]

theorem insertAt_sublist (l : List α) (k : Nat) (a : α) : l.Sublist (insertAt l k a) := by
  unfold insertAt
  conv => lhs; rw [← List.take_append_drop k l]
  exact List.Sublist.append (List.Sublist.refl _) (List.sublist_cons_self _ _)

theorem insertLoop_perm (i : Nat) (chain : List α) (sp : List (Nat × α)) :
    (insertLoop i chain sp).Perm (chain ++ sp.map (·.2)) := by
  induction sp generalizing i chain with
  | nil => simp [insertLoop]
  | cons x rest ih =>
    obtain ⟨p, a⟩ := x
    simp only [insertLoop, List.map_cons]
    refine (ih _ _).trans ?_
    refine ((insertAt_perm chain (p + i) a).append_right _).trans ?_
    exact List.perm_middle.symm

theorem insertLoop_sublist (i : Nat) (chain : List α) (sp : List (Nat × α)) :
    chain.Sublist (insertLoop i chain sp) := by
  induction sp generalizing i chain with
  | nil => simp [insertLoop]
  | cons x rest ih =>
    obtain ⟨p, a⟩ := x
    simp only [insertLoop]
    exact (insertAt_sublist chain (p + i) a).trans (ih _ _)

theorem map_argsAt {β : Type} (f : α → β) (k : Nat) (ps : List (Nat × α)) :
    (argsAt k ps).map f = argsAt k (ps.map fun x => (x.1, f x.2)) := by
  unfold argsAt
  rw [List.filter_map]
  simp [Function.comp_def]

theorem map_insertSpec {β : Type} (f : α → β) (k : Nat) (cs : List α) (ps : List (Nat × α)) :
    (insertSpec k cs ps).map f = insertSpec k (cs.map f) (ps.map fun x => (x.1, f x.2)) := by
  induction cs generalizing k with
  | nil => exact map_argsAt f k ps
  | cons c cs ih => simp [insertSpec, map_argsAt, ih]

end InsertPerm

/-! ### slices of ranges -/

theorem slice_range' (s n a b : Nat) :
    slice (List.range' s n) a b = List.range' (s + a) (min b n - a) := by
  unfold slice
  rcases Nat.le_total n b with h | h
  · rw [List.take_range'_of_length_le h, List.drop_range', Nat.min_eq_right h]; simp
  · rw [List.take_range'_of_length_ge h, List.drop_range', Nat.min_eq_left h]; simp

theorem letters_eq : letters = List.range' 0 52 := by
  simp [letters, nLetters, List.range_eq_range']

/-! ### `tensor_merge` -/

theorem mergeLe_total (a b : Nat × (Nat × Nat)) (h : mergeLe a b = false) :
    mergeLe b a = true := by
  unfold mergeLe at *
  simp only [Bool.or_eq_false_iff, Bool.and_eq_false_iff, decide_eq_false_iff_not,
    beq_eq_false_iff_ne, Bool.or_eq_true, Bool.and_eq_true, decide_eq_true_eq, beq_iff_eq] at *
  omega

theorem mergeLe_trans (a b c : Nat × (Nat × Nat)) (h1 : mergeLe a b = true)
    (h2 : mergeLe b c = true) : mergeLe a c = true := by
  unfold mergeLe at *
  simp only [Bool.or_eq_true, Bool.and_eq_true, decide_eq_true_eq, beq_iff_eq] at *
  omega

theorem mergeLe_pos (a b : Nat × (Nat × Nat)) (h : mergeLe a b = true) : a.1 ≤ b.1 := by
  unfold mergeLe at h
  simp only [Bool.or_eq_true, Bool.and_eq_true, decide_eq_true_eq, beq_iff_eq] at h
  omega

theorem pairwise_zip_snd {β γ : Type} {R : γ → γ → Prop} (np : List β) (part : List γ)
    (h : part.Pairwise R) : (np.zip part).Pairwise (fun x y => R x.2 y.2) := by
  induction np generalizing part with
  | nil => simp
  | cons p ps ih =>
    cases part with
    | nil => simp
    | cons c cs =>
      rw [List.pairwise_cons] at h
      simp only [List.zip_cons_cons]
      refine List.Pairwise.cons ?_ (ih cs h.2)
      rintro ⟨q, e⟩ hy
      exact h.1 e (List.of_mem_zip hy).2

theorem pairwise_zip_fst {β γ : Type} {R : β → β → Prop} (np : List β) (part : List γ)
    (h : np.Pairwise R) : (np.zip part).Pairwise (fun x y => R x.1 y.1) := by
  induction np generalizing part with
  | nil => simp
  | cons p ps ih =>
    cases part with
    | nil => simp
    | cons c cs =>
      rw [List.pairwise_cons] at h
      simp only [List.zip_cons_cons]
      refine List.Pairwise.cons ?_ (ih cs h.2)
      rintro ⟨q, e⟩ hy
      exact h.1 q (List.of_mem_zip hy).1

/-- the index component makes the sort of `tensor_merge` stable with respect to the order of `ins`
-/
theorem filter_stableSort_mergeLe (k : Nat) (np part : List Nat) (n : Nat) :
    (stableSort mergeLe (np.zip ((List.range n).zip part))).filter (fun z => z.1 == k)
      = (np.zip ((List.range n).zip part)).filter (fun z => z.1 == k) := by
  apply filter_stableSort
  have h1 : ((List.range n).zip part).Pairwise (fun x y => x.1 < y.1) :=
    pairwise_zip_fst _ _ List.pairwise_lt_range
  refine (pairwise_zip_snd np _ h1).imp ?_
  intro x y hxy hle
  unfold mergeLe at hle
  simp only [Bool.or_eq_false_iff, Bool.and_eq_false_iff, decide_eq_false_iff_not,
    beq_eq_false_iff_ne] at hle
  omega

theorem merge_zip_map (np part : List Nat) (n : Nat) (hn : part.length ≤ n) :
    (np.zip ((List.range n).zip part)).map (fun x => (x.1, x.2.2)) = np.zip part := by
  have h : np.zip part = np.zip (((List.range n).zip part).map Prod.snd) := by
    rw [List.map_snd_zip (by simpa using hn)]
  rw [h, List.zip_map_right]
  apply List.map_congr_left
  rintro ⟨a, b, c⟩ _
  rfl

/-- one slot of `tensor_merge` computes the specification (any letters) -/
theorem mergeSlot_eq_spec (arrPart np part : List Nat) (n : Nat) (hn : part.length ≤ n)
    (hadm : ∀ q ∈ np, q ≤ arrPart.length) :
    insertLoop 0 arrPart (mergeSorted np part n) = insertSpec 0 arrPart (np.zip part) := by
  unfold mergeSorted
  have hsorted : SortedPos ((stableSort mergeLe (np.zip ((List.range n).zip part))).map
      fun x => (x.1, x.2.2)) := by
    unfold SortedPos
    rw [List.pairwise_map]
    exact (pairwise_stableSort mergeLe_total mergeLe_trans _).imp
      (fun {a b} h => mergeLe_pos a b h)
  have h1 := insertLoop_eq_spec _ 0 0 [] arrPart hsorted
    (by
      intro x hx
      rw [List.mem_map] at hx
      obtain ⟨y, hy, rfl⟩ := hx
      have hy' := (stableSort_perm mergeLe _).mem_iff.1 hy
      obtain ⟨q, c⟩ := y
      have := hadm q (List.of_mem_zip hy').1
      simp only; omega)
    rfl
  simp only [List.nil_append] at h1
  rw [h1]
  apply insertSpec_congr
  intro k
  rw [← merge_zip_map np part n hn]
  rw [← map_argsAt (fun x : Nat × Nat => x.2) k, ← map_argsAt (fun x : Nat × Nat => x.2) k]
  unfold argsAt
  rw [filter_stableSort_mergeLe]

/-- The tie-break of the *previous* version of `tensor_merge`, `sorted(zip(norm_pos, ins_part))`:
ties by the character code of the letter. -/
def oldMergeLe (a b : Nat × Nat) : Bool :=
  decide (a.1 < b.1) || (a.1 == b.1 && decide (letterCode a.2 ≤ letterCode b.2))

theorem insertSlot_eq_spec {α : Type} (chain : List α) (ps : List (Nat × α))
    (hadm : ∀ x ∈ ps, x.1 ≤ chain.length) :
    insertLoop 0 chain (sortByPos ps) = insertSpec 0 chain ps := by
  have h1 := insertLoop_eq_spec (sortByPos ps) 0 0 [] chain (sortByPos_sorted _)
    (by
      intro x hx
      have := hadm x ((sortByPos_perm ps).mem_iff.1 hx)
      omega)
    rfl
  simp only [List.nil_append] at h1
  rw [h1]
  exact insertSpec_congr _ _ _ _ (fun k => argsAt_sortByPos k ps)

/-! ### `tensor`: the binary tree keeps the chain order -/

section TensorTree
variable {α : Type}

theorem pairUp_flatten (l : List (List α)) : (pairUp l).flatten = l.flatten := by
  induction l using pairUp.induct with
  | case1 a b rest ih => simp [pairUp, ih]
  | case2 l h => unfold pairUp; split <;> simp_all

theorem pairUp_length (l : List (List α)) : (pairUp l).length = (l.length + 1) / 2 := by
  induction l using pairUp.induct with
  | case1 a b rest ih => simp only [pairUp, List.length_cons, ih]; omega
  | case2 l h =>
    unfold pairUp; split
    · exact absurd rfl (h _ _ _)
    · match l, h with
      | [], _ => simp
      | [a], _ => simp
      | a :: b :: r, h => exact absurd rfl (h a b r)

theorem tensorStep_flatten (l : List (List α)) : (tensorStep l).flatten = l.flatten := by
  unfold tensorStep
  simp only [List.flatten_append, pairUp_flatten]
  rw [← List.flatten_append, List.take_append_drop]

theorem tensorStep_length (l : List (List α)) :
    (tensorStep l).length = l.length % 2 + (l.length - l.length % 2 + 1) / 2 := by
  unfold tensorStep
  simp only [List.length_append, List.length_take, pairUp_length, List.length_drop]
  omega

theorem tensorLoop_spec (fuel : Nat) (l : List (List α)) (hl : l.length ≤ fuel + 1)
    (hne : l ≠ []) : tensorLoop fuel l = [l.flatten] := by
  induction fuel generalizing l with
  | zero =>
    match l, hl, hne with
    | [c], _, _ => simp [tensorLoop]
  | succ fuel ih =>
    simp only [tensorLoop]
    split
    · rename_i hgt
      have hlen := tensorStep_length l
      rw [ih (tensorStep l) (by omega) (by
        intro h; rw [h] at hlen; simp at hlen; omega), tensorStep_flatten]
    · match l, hne with
      | [c], _ => simp
      | a :: b :: r, _ => simp at *

/-- `tensor(*args)` is the product of the concatenated chains, whatever the tree shape -/
theorem tensorChain_eq (args : List (List α)) (hne : args ≠ []) :
    tensorChain args = some args.flatten := by
  unfold tensorChain
  rw [tensorLoop_spec args.length args (by omega) hne]; rfl

theorem tensorChain_singletons (ins : List α) (hne : ins ≠ []) :
    (tensorChain (ins.map fun a => [a])).getD [] = ins := by
  rw [tensorChain_eq _ (by simpa using hne)]
  simp only [Option.getD_some]
  induction ins with
  | nil => rfl
  | cons a as ih =>
    cases as with
    | nil => rfl
    | cons b bs => simpa using ih (by simp)

end TensorTree

/-! ### the letters of `tensor_merge` -/

theorem map_range_const {β : Type} (n : Nat) (g : Nat → β) (S : β) (h : ∀ r < n, g r = S) :
    (List.range n).map g = List.replicate n S := by
  apply List.ext_getElem
  · simp
  · intro i h1 h2
    simp only [List.getElem_map, List.getElem_range, List.getElem_replicate]
    exact h i (by simpa using h1)

theorem mul_succ_le {r rank : Nat} (hr : r < rank) (m : Nat) : r * m + m ≤ m * rank := by
  calc r * m + m = (r + 1) * m := by rw [Nat.add_mul, Nat.one_mul]
    _ ≤ rank * m := Nat.mul_le_mul_right _ hr
    _ = m * rank := Nat.mul_comm _ _

theorem merge_arrPart_eq (I A rank r : Nat) (hr : r < rank) (hlet : (I + A) * rank ≤ 52) :
    slice (slice letters (I * rank) ((I + A) * rank)) (r * A) ((r + 1) * A)
      = List.range' (I * rank + r * A) A := by
  have h1 : (I + A) * rank = I * rank + A * rank := Nat.add_mul _ _ _
  have h2 := mul_succ_le hr A
  have h3 : (r + 1) * A = r * A + A := by rw [Nat.add_mul, Nat.one_mul]
  rw [letters_eq, slice_range', slice_range', h3]
  congr 1 <;> omega

theorem merge_insPart_eq (I rank r : Nat) (hr : r < rank) (hlet : I * rank ≤ 52) :
    slice (slice letters 0 (I * rank)) (r * I) ((r + 1) * I) = List.range' (r * I) I := by
  have h2 := mul_succ_le hr I
  have h3 : (r + 1) * I = r * I + I := by rw [Nat.add_mul, Nat.one_mul]
  rw [letters_eq, slice_range', slice_range', h3]
  congr 1 <;> omega

theorem merge_map_arrPart (chain ins : List Nat) (rank r : Nat) :
    (List.range' (ins.length * rank + r * chain.length) chain.length).map
      (mergeLetterFactor chain ins rank) = chain := by
  apply List.ext_getElem
  · simp
  · intro j h1 h2
    simp only [List.getElem_map, List.getElem_range', Nat.one_mul]
    unfold mergeLetterFactor
    rw [if_neg (by omega)]
    have : (ins.length * rank + r * chain.length + j - ins.length * rank) % chain.length = j := by
      rw [show ins.length * rank + r * chain.length + j - ins.length * rank
        = j + r * chain.length by omega, Nat.add_mul_mod_self_right]
      exact Nat.mod_eq_of_lt h2
    rw [this]; simp [h2]

theorem merge_map_insPart (chain ins : List Nat) (rank r : Nat) (hr : r < rank) :
    (List.range' (r * ins.length) ins.length).map (mergeLetterFactor chain ins rank) = ins := by
  have h2 := mul_succ_le hr ins.length
  apply List.ext_getElem
  · simp
  · intro j h1 h2'
    simp only [List.getElem_map, List.getElem_range', Nat.one_mul]
    unfold mergeLetterFactor
    rw [if_pos (by omega)]
    have : (r * ins.length + j) % ins.length = j := by
      rw [Nat.add_comm, Nat.add_mul_mod_self_right]; exact Nat.mod_eq_of_lt h2'
    rw [this]; simp [h2']

/-- one slot of `tensor_merge`, interpreted as factor labels -/
theorem mergeSlot_factors (chain ins np : List Nat) (rank r : Nat) (hr : r < rank)
    (hlet : (ins.length + chain.length) * rank ≤ 52)
    (hadm : ∀ q ∈ np, q ≤ chain.length) :
    (insertLoop 0
      (slice (slice letters (ins.length * rank) ((ins.length + chain.length) * rank))
        (r * chain.length) ((r + 1) * chain.length))
      (mergeSorted np
        (slice (slice letters 0 (ins.length * rank)) (r * ins.length) ((r + 1) * ins.length))
        ins.length)).map
      (mergeLetterFactor chain ins rank) = insertSpec 0 chain (np.zip ins) := by
  have h2 := mul_succ_le hr ins.length
  have h3 : (ins.length + chain.length) * rank = ins.length * rank + chain.length * rank :=
    Nat.add_mul _ _ _
  rw [merge_arrPart_eq _ _ _ _ hr hlet, merge_insPart_eq _ _ _ hr (by omega)]
  rw [mergeSlot_eq_spec _ _ _ _ (by simp) (by simpa using hadm)]
  rw [map_insertSpec, merge_map_arrPart]
  congr 1
  have hz : np.zip ins = np.zip ((List.range' (r * ins.length) ins.length).map
      (mergeLetterFactor chain ins rank)) := by rw [merge_map_insPart chain ins rank r hr]
  rw [hz, List.zip_map_right]
  apply List.map_congr_left
  rintro ⟨a, b⟩ _
  rfl

/-! ### `tensor_transpose` -/

theorem perm_range_of_nodup (l : List Nat) (n : Nat) (hn : l.Nodup) (hlt : ∀ x ∈ l, x < n)
    (hlen : l.length = n) : l.Perm (List.range n) :=
  (List.subperm_of_subset hn (fun x hx => List.mem_range.2 (hlt x hx))).perm_of_length_le
    (by simp [hlen])

theorem orderIsRange_iff (order : List Nat) (n : Nat) :
    orderIsRange order n = true ↔ order.Perm (List.range n) := by
  unfold orderIsRange
  rw [beq_iff_eq]
  constructor
  · intro h; rw [← h]; exact (stableSort_perm _ order).symm
  · intro h
    have hs := pairwise_stableSort (le := fun a b : Nat => decide (a ≤ b))
      (by intro a b h; simp at h ⊢; omega) (by intro a b c h1 h2; simp at h1 h2 ⊢; omega) order
    refine List.Perm.eq_of_pairwise (le := fun a b => a ≤ b) ?_ ?_ List.pairwise_le_range
      ((stableSort_perm _ order).trans h)
    · intro a b _ _ h1 h2; omega
    · exact hs.imp (by intro a b h; simpa using h)

theorem transposeAxes_succ (rank n : Nat) (order : List Nat) :
    transposeAxes (rank + 1) n order
      = transposeAxes rank n order ++ order.map (fun o => rank * n + o) := by
  unfold transposeAxes
  rw [List.range_succ, List.flatMap_append]
  simp

theorem transposeAxes_length (rank n : Nat) (order : List Nat) :
    (transposeAxes rank n order).length = rank * order.length := by
  induction rank with
  | zero => simp [transposeAxes]
  | succ r ih => rw [transposeAxes_succ, List.length_append, ih, List.length_map, Nat.succ_mul]

theorem transposeAxes_lt (rank n : Nat) (order : List Nat) (h : ∀ o ∈ order, o < n) :
    ∀ a ∈ transposeAxes rank n order, a < rank * n := by
  induction rank with
  | zero => simp [transposeAxes]
  | succ r ih =>
    intro a ha
    rw [transposeAxes_succ, List.mem_append] at ha
    rw [Nat.succ_mul]
    rcases ha with ha | ha
    · have := ih a ha; omega
    · rw [List.mem_map] at ha
      obtain ⟨o, ho, rfl⟩ := ha
      have := h o ho; omega

theorem transposeAxes_nodup (rank n : Nat) (order : List Nat) (h : ∀ o ∈ order, o < n)
    (hn : order.Nodup) : (transposeAxes rank n order).Nodup := by
  induction rank with
  | zero => simp [transposeAxes]
  | succ r ih =>
    rw [transposeAxes_succ, List.nodup_append]
    refine ⟨ih, hn.map (fun a b hab => by simpa using hab), ?_⟩
    intro a ha b hb
    have h1 := transposeAxes_lt r n order h a ha
    rw [List.mem_map] at hb
    obtain ⟨o, _, rfl⟩ := hb
    omega

theorem validAxes_iff (axes : List Nat) (n : Nat) :
    validAxes axes n = true ↔ axes.length = n ∧ (∀ a ∈ axes, a < n) ∧ axes.Nodup := by
  unfold validAxes
  simp [Bool.and_eq_true, and_assoc]

theorem transpose_valid_of_perm (rank n : Nat) (order : List Nat)
    (hp : order.Perm (List.range n)) :
    validAxes (transposeAxes rank n order) (rank * n) = true := by
  have hlen : order.length = n := by simpa using hp.length_eq
  have hlt : ∀ o ∈ order, o < n := fun o ho => List.mem_range.1 (hp.mem_iff.1 ho)
  have hnd : order.Nodup := hp.nodup_iff.2 List.nodup_range
  rw [validAxes_iff]
  exact ⟨by rw [transposeAxes_length, hlen], transposeAxes_lt rank n order hlt,
    transposeAxes_nodup rank n order hlt hnd⟩

theorem perm_of_transpose_valid (rank n : Nat) (order : List Nat) (hr : 0 < rank)
    (hv : validAxes (transposeAxes rank n order) (rank * n) = true) :
    order.Perm (List.range n) := by
  obtain ⟨r, rfl⟩ : ∃ r, rank = r + 1 := ⟨rank - 1, by omega⟩
  rw [validAxes_iff] at hv
  obtain ⟨hlen, hlt, hnd⟩ := hv
  rw [transposeAxes_length] at hlen
  have hlen' : order.length = n := Nat.eq_of_mul_eq_mul_left hr hlen
  rw [transposeAxes_succ] at hlt hnd
  refine perm_range_of_nodup order n ?_ ?_ hlen'
  · exact (List.Nodup.of_append_right hnd).of_map _
  · intro o ho
    have := hlt (r * n + o) (List.mem_append_right _ (List.mem_map.2 ⟨o, ho, rfl⟩))
    rw [Nat.succ_mul] at this; omega

theorem map_getD_perm_range (p q : List Nat) (n : Nat) (hp : p.length = n)
    (hq : q.Perm (List.range n)) : (q.map fun j => p.getD j 0).Perm p := by
  refine (hq.map _).trans ?_
  have : (List.range n).map (fun j => p.getD j 0) = p := by
    apply List.ext_getElem
    · simp [hp]
    · intro i h1 h2; simp [h2]
  rw [this]

/-! ### Pauli basis index maps -/

/-- broadcast shape of `np.ix_(*[range(4) if i in idx else [0] …])` -/
def shapeOf (flags : List Bool) : List Nat := flags.map fun b => if b then 4 else 1

/-- the digit tuple that has the given digits at the flagged positions (in order) and `0`
elsewhere -/
def scatter : List Bool → List Nat → List Nat
  | [], _ => []
  | false :: fs, ds => 0 :: scatter fs ds
  | true :: fs, ds => ds.headD 0 :: scatter fs ds.tail

theorem prod_shapeOf (flags : List Bool) : prod (shapeOf flags) = 4 ^ flags.count true := by
  induction flags with
  | nil => rfl
  | cons b fs ih =>
    cases b <;> simp [shapeOf, prod] at ih ⊢ <;> rw [ih]
    rw [Nat.pow_succ, Nat.mul_comm]

theorem decode_shapeOf (flags : List Bool) (j : Nat) (hj : j < 4 ^ flags.count true) :
    mixedRadixDecode (shapeOf flags) j
      = scatter flags (mixedRadixDecode (List.replicate (flags.count true) 4) j) := by
  induction flags generalizing j with
  | nil => rfl
  | cons b fs ih =>
    cases b with
    | false =>
      have hc : (false :: fs).count true = fs.count true := by simp
      rw [hc] at hj ⊢
      have hP := prod_shapeOf fs
      simp only [shapeOf, List.map_cons] at hP ⊢
      simp only [mixedRadixDecode, scatter]
      rw [show prod (List.map (fun b => if b = true then 4 else 1) fs) = 4 ^ fs.count true from hP,
        Nat.div_eq_of_lt hj, Nat.mod_eq_of_lt hj]
      congr 1
      exact ih j hj
    | true =>
      have hc : (true :: fs).count true = fs.count true + 1 := by simp
      rw [hc] at hj ⊢
      have hP := prod_shapeOf fs
      have hpos : 0 < 4 ^ fs.count true := Nat.pow_pos (by omega)
      simp only [shapeOf, List.map_cons] at hP ⊢
      simp only [mixedRadixDecode, scatter, List.replicate_succ, prod_replicate,
        List.headD_cons, List.tail_cons]
      rw [show prod (List.map (fun b => if b = true then 4 else 1) fs) = 4 ^ fs.count true from hP]
      congr 1
      exact ih _ (Nat.mod_lt _ hpos)

theorem equivalentPauli_eq (idx : List Nat) (N : Nat) :
    equivalentPauli idx N
      = (List.range (4 ^ ((List.range N).map fun i => decide (i ∈ idx)).count true)).map fun j =>
          mixedRadixEncode (List.replicate N 4)
            (scatter ((List.range N).map fun i => decide (i ∈ idx))
              (mixedRadixDecode (List.replicate
                (((List.range N).map fun i => decide (i ∈ idx)).count true) 4) j)) := by
  unfold equivalentPauli
  have hs : ((List.range N).map fun i => if i ∈ idx then 4 else 1)
      = shapeOf ((List.range N).map fun i => decide (i ∈ idx)) := by
    simp [shapeOf, List.map_map, Function.comp_def]
  simp only [hs, prod_shapeOf]
  apply List.map_congr_left
  intro j hj
  rw [decode_shapeOf _ j (List.mem_range.1 hj)]

/-- the tuple with `digits[t]` at qubit position `idx[t]` and `0` elsewhere -/
def scatterAt (N : Nat) (idx digits : List Nat) : List Nat :=
  (List.range N).map fun i => if i ∈ idx then digits.getD (idx.idxOf i) 0 else 0

theorem flags_sorted (s n : Nat) (idx ds : List Nat) (hs : idx.Pairwise (· < ·))
    (hge : ∀ i ∈ idx, s ≤ i) (hlt : ∀ i ∈ idx, i < s + n) :
    scatter ((List.range' s n).map fun i => decide (i ∈ idx)) ds
        = (List.range' s n).map (fun i => if i ∈ idx then ds.getD (idx.idxOf i) 0 else 0) ∧
      ((List.range' s n).map fun i => decide (i ∈ idx)).count true = idx.length := by
  induction n generalizing s idx ds with
  | zero =>
    have : idx = [] := by
      cases idx with
      | nil => rfl
      | cons i _ => have h1 := hge i (by simp); have h2 := hlt i (by simp); omega
    subst this; simp [scatter]
  | succ n ih =>
    rw [List.range'_succ]
    by_cases hmem : s ∈ idx
    · obtain ⟨i0, idx', rfl⟩ : ∃ i0 idx', idx = i0 :: idx' := by
        cases idx with
        | nil => simp at hmem
        | cons a b => exact ⟨a, b, rfl⟩
      rw [List.pairwise_cons] at hs
      have hi0 : i0 = s := by
        rcases List.mem_cons.1 hmem with h | h
        · exact h.symm
        · have := hs.1 s h; have := hge i0 (by simp); omega
      subst hi0
      have hge' : ∀ i ∈ idx', i0 + 1 ≤ i := fun i hi => hs.1 i hi
      have hlt' : ∀ i ∈ idx', i < i0 + 1 + n := fun i hi => by
        have := hlt i (by simp [hi]); omega
      have hflags : ((List.range' (i0 + 1) n).map fun i => decide (i ∈ i0 :: idx'))
          = (List.range' (i0 + 1) n).map fun i => decide (i ∈ idx') := by
        apply List.map_congr_left
        intro i hi
        rw [List.mem_range'_1] at hi
        have : i ≠ i0 := by omega
        simp [this]
      obtain ⟨ih1, ih2⟩ := ih (i0 + 1) idx' ds.tail hs.2 hge' hlt'
      have hR : ((List.range' (i0 + 1) n).map fun i =>
            if i ∈ i0 :: idx' then ds.getD ((i0 :: idx').idxOf i) 0 else 0)
          = (List.range' (i0 + 1) n).map fun i =>
            if i ∈ idx' then ds.tail.getD (idx'.idxOf i) 0 else 0 := by
        apply List.map_congr_left
        intro i hi
        rw [List.mem_range'_1] at hi
        have hne : i ≠ i0 := by omega
        have hne' : i0 ≠ i := fun h => hne h.symm
        by_cases hi' : i ∈ idx'
        · rw [if_pos (List.mem_cons_of_mem _ hi'), if_pos hi', List.idxOf_cons_ne _ hne']
          cases ds <;> simp
        · rw [if_neg hi', if_neg (by simp [hne, hi'])]
      have hd : decide (i0 ∈ i0 :: idx') = true := by simp
      have hh : (if i0 ∈ i0 :: idx' then ds.getD ((i0 :: idx').idxOf i0) 0 else 0) = ds.headD 0 := by
        cases ds <;> simp
      rw [List.map_cons, List.map_cons, hflags, hR, hd, hh]
      constructor
      · simp only [scatter, ih1]
      · rw [List.count_cons_self, ih2, List.length_cons]
    · have hge' : ∀ i ∈ idx, s + 1 ≤ i := fun i hi => by
        have := hge i hi
        have : i ≠ s := fun h => hmem (h ▸ hi)
        omega
      have hlt' : ∀ i ∈ idx, i < s + 1 + n := fun i hi => by have := hlt i hi; omega
      obtain ⟨ih1, ih2⟩ := ih (s + 1) idx ds hs hge' hlt'
      simp [hmem, scatter, ih1, ih2]

theorem scatter_eq_scatterAt (N : Nat) (idx ds : List Nat) (hs : idx.Pairwise (· < ·))
    (hlt : ∀ i ∈ idx, i < N) :
    scatter ((List.range N).map fun i => decide (i ∈ idx)) ds = scatterAt N idx ds ∧
      ((List.range N).map fun i => decide (i ∈ idx)).count true = idx.length := by
  have := flags_sorted 0 N idx ds hs (by simp) (by simpa using hlt)
  rw [← List.range_eq_range'] at this
  exact this

theorem inBounds_replicate_iff (N d : Nat) (xs : List Nat) :
    inBounds (List.replicate N d) xs = true ↔ xs.length = N ∧ ∀ x ∈ xs, x < d := by
  induction N generalizing xs with
  | zero => cases xs <;> simp [inBounds]
  | succ N ih =>
    cases xs with
    | nil => simp [inBounds, List.replicate_succ]
    | cons x xs =>
      simp only [List.replicate_succ, inBounds, Bool.and_eq_true, decide_eq_true_eq, ih,
        List.length_cons, List.mem_cons, forall_eq_or_imp]
      constructor
      · rintro ⟨h1, h2, h3⟩; exact ⟨by omega, h1, h3⟩
      · rintro ⟨h1, h2, h3⟩; exact ⟨h2, by omega, h3⟩

theorem remap_inBounds (order : List Nat) (N x : Nat) (hlen : order.length = N)
    (hx : x < 4 ^ N) :
    inBounds (List.replicate N 4)
      (order.map fun i => (mixedRadixDecode (List.replicate N 4) x).getD i 0) = true := by
  have hb := decode_inBounds (ds := List.replicate N 4) (n := x) (by rw [prod_replicate]; exact hx)
  rw [inBounds_replicate_iff] at hb ⊢
  refine ⟨by simp [hlen], ?_⟩
  intro y hy
  rw [List.mem_map] at hy
  obtain ⟨i, _, rfl⟩ := hy
  by_cases hi : i < (mixedRadixDecode (List.replicate N 4) x).length
  · simp only [List.getD_eq_getElem?_getD, List.getElem?_eq_getElem hi, Option.getD_some]
    exact hb.2 _ (List.getElem_mem hi)
  · simp only [List.getD_eq_getElem?_getD, List.getElem?_eq_none (Nat.le_of_not_lt hi),
      Option.getD_none]
    omega

theorem remapPauli_perm_range (order : List Nat) (N : Nat) (hp : order.Perm (List.range N)) :
    (remapPauli order N).Perm (List.range (4 ^ N)) := by
  have hlen : order.length = N := by simpa using hp.length_eq
  apply perm_range_of_nodup
  · unfold remapPauli
    refine List.Nodup.map_on ?_ List.nodup_range
    intro x hx y hy hxy
    rw [List.mem_range] at hx hy
    simp only at hxy
    have hbx := remap_inBounds order N x hlen hx
    have hby := remap_inBounds order N y hlen hy
    have h1 := congrArg (mixedRadixDecode (List.replicate N 4)) hxy
    rw [decode_encode hbx, decode_encode hby] at h1
    have h2 : ∀ i < N, (mixedRadixDecode (List.replicate N 4) x).getD i 0
        = (mixedRadixDecode (List.replicate N 4) y).getD i 0 := by
      intro i hi
      exact List.map_inj_left.1 h1 i (hp.mem_iff.2 (List.mem_range.2 hi))
    have h3 : mixedRadixDecode (List.replicate N 4) x = mixedRadixDecode (List.replicate N 4) y := by
      apply List.ext_getElem
      · simp [decode_length]
      · intro i hi1 hi2
        have := h2 i (by simpa [decode_length] using hi1)
        simpa only [List.getD_eq_getElem?_getD, List.getElem?_eq_getElem hi1,
          List.getElem?_eq_getElem hi2, Option.getD_some] using this
    have := congrArg (mixedRadixEncode (List.replicate N 4)) h3
    rwa [encode_decode (by rw [prod_replicate]; exact hx),
      encode_decode (by rw [prod_replicate]; exact hy)] at this
  · intro v hv
    unfold remapPauli at hv
    rw [List.mem_map] at hv
    obtain ⟨x, hx, rfl⟩ := hv
    have := encode_lt (remap_inBounds order N x hlen (List.mem_range.1 hx))
    rwa [prod_replicate] at this
  · simp [remapPauli]

/-! ### the subscripts of one insertion -/

theorem chunks_flatMap {α β : Type} (w : Nat) (l : List β) (f : β → List α)
    (h : ∀ x ∈ l, (f x).length = w) : chunks w l.length (l.flatMap f) = l.map f := by
  induction l with
  | nil => rfl
  | cons x xs ih =>
    have hx := h x (by simp)
    simp only [List.length_cons, chunks, List.flatMap_cons, List.map_cons]
    rw [List.take_left' hx, List.drop_left' hx, ih (fun y hy => h y (by simp [hy]))]

/-- target pattern of slot `q`: `arr` axes `0..P-1`, the new axis, `arr` axes `P..n-1` -/
def slotLetters (R n P q : Nat) : List Nat :=
  List.range' (R + q * n) P ++ q :: List.range' (R + q * n + P) (n - P)

theorem pieces_shift (R n P : Nat) (hP : P ≤ n) (m s : Nat) :
    List.range' (R + s * n) P
        ++ (List.range' s m).flatMap (fun i => i :: List.range' (R + P + i * n) n)
      = (List.range' s m).flatMap (slotLetters R n P) ++ List.range' (R + (s + m) * n) P := by
  induction m generalizing s with
  | zero => simp
  | succ m ih =>
    have e1 : List.range' (R + P + s * n) n
        = List.range' (R + s * n + P) (n - P) ++ List.range' (R + (s + 1) * n) P := by
      have : R + (s + 1) * n = R + s * n + P + (n - P) := by rw [Nat.add_mul]; omega
      rw [this, List.range'_append_1]
      congr 1 <;> omega
    have e2 : (s + (m + 1)) * n = (s + 1 + m) * n := by congr 1; omega
    rw [List.range'_succ, List.flatMap_cons, List.flatMap_cons, e1, e2, List.append_assoc,
      ← ih (s + 1)]
    simp [slotLetters]

theorem insertSubscripts_out (n P R : Nat) (hP : P ≤ n) (hlet : (n + 1) * R ≤ 52) :
    (insertSubscripts n P R).2.2 = (List.range R).flatMap (slotLetters R n P) := by
  cases R with
  | zero => simp [insertSubscripts, slice, letters]
  | succ r =>
    have hmul : (n + 1) * (r + 1) = n * r + n + r + 1 := by
      rw [Nat.add_mul, Nat.mul_add]; omega
    have hnr : n * (r + 1) = n * r + n := Nat.mul_succ _ _
    have hins : slice letters 0 (r + 1) = List.range' 0 (r + 1) := by
      rw [letters_eq, slice_range']; congr 1; omega
    have harr : slice letters (r + 1) ((n + 1) * (r + 1)) = List.range' (r + 1) (n * r + n) := by
      rw [letters_eq, slice_range']; congr 1 <;> omega
    have hfull : ∀ i ∈ List.range r,
        ((List.range' 0 (r + 1))[i]?.toList ++ slice (List.range' (r + 1) (n * r + n))
          (P + i * n) (P + (i + 1) * n)) = i :: List.range' (r + 1 + P + i * n) n := by
      intro i hi
      rw [List.mem_range] at hi
      have h1 : (i + 1) * n = i * n + n := by rw [Nat.add_mul, Nat.one_mul]
      have h2 : i * n + n ≤ n * r := by
        have := mul_succ_le hi n; omega
      rw [slice_range', List.getElem?_range' (by omega)]
      simp only [Nat.one_mul, Nat.zero_add, Option.toList_some, List.singleton_append]
      congr 2 <;> omega
    have hlast : ((List.range' 0 (r + 1))[r]?.toList ++ slice (List.range' (r + 1) (n * r + n))
          (P + r * n) (P + (r + 1) * n)) = r :: List.range' (r + 1 + r * n + P) (n - P) := by
      have h1 : (r + 1) * n = r * n + n := by rw [Nat.add_mul, Nat.one_mul]
      have h2 : r * n = n * r := Nat.mul_comm _ _
      rw [slice_range', List.getElem?_range' (by omega)]
      simp only [Nat.one_mul, Nat.zero_add, Option.toList_some, List.singleton_append]
      congr 2 <;> omega
    have hfirst : slice (List.range' (r + 1) (n * r + n)) 0 P = List.range' (r + 1 + 0 * n) P := by
      rw [slice_range']; congr 1 <;> omega
    simp only [insertSubscripts, hins, harr]
    rw [List.range_succ, List.flatMap_append, List.flatMap_append,
      List.flatMap_congr hfull]
    simp only [List.flatMap_cons, List.flatMap_nil, List.append_nil]
    rw [hlast, hfirst, ← List.append_assoc, List.range_eq_range',
      pieces_shift (r + 1) n P hP r 0]
    simp [slotLetters]

theorem slotLetters_length (R n P q : Nat) (hP : P ≤ n) : (slotLetters R n P q).length = n + 1 := by
  simp [slotLetters]; omega

theorem letterAxis_slot (n R P q : Nat) (hq : q < R) (hP : P ≤ n) :
    (slotLetters R n P q).map (letterAxis n R)
      = (List.range P).map (Axis.arr q) ++ Axis.ins q
          :: (List.range' P (n - P)).map (Axis.arr q) := by
  have harr : ∀ k, k < n → letterAxis n R (R + q * n + k) = Axis.arr q k := by
    intro k hk
    unfold letterAxis
    rw [if_neg (by omega)]
    have hpos : 0 < n := by omega
    have e : R + q * n + k - R = k + q * n := by omega
    rw [e, Nat.add_mul_div_right _ _ hpos, Nat.add_mul_mod_self_right, Nat.div_eq_of_lt hk,
      Nat.mod_eq_of_lt hk, Nat.zero_add]
  unfold slotLetters
  rw [List.map_append, List.map_cons]
  congr 1
  · apply List.ext_getElem
    · simp
    · intro i h1 h2
      simp only [List.length_map, List.length_range'] at h1
      simp only [List.getElem_map, List.getElem_range', Nat.one_mul, List.getElem_range]
      exact harr i (by omega)
  · congr 1
    · unfold letterAxis; rw [if_pos hq]
    · apply List.ext_getElem
      · simp
      · intro i h1 h2
        simp only [List.length_map, List.length_range'] at h1
        simp only [List.getElem_map, List.getElem_range', Nat.one_mul]
        rw [Nat.add_assoc]
        exact harr (P + i) (by omega)

/-! ### the dims bookkeeping of `tensor_insert` -/

section Trace
variable {α : Type}

theorem insertTrace_final (i : Nat) (chain dims : List α) (sp : List (Nat × α)) :
    (insertTrace i chain dims sp).2.1 = insertLoop i chain sp := by
  induction sp generalizing i chain dims with
  | nil => rfl
  | cons x rest ih => obtain ⟨p, a⟩ := x; simp only [insertTrace, insertLoop, ih]

theorem drop_insertAt_of_le (l : List α) (p n : Nat) (a : α) (hp : p ≤ n) (hn : n ≤ l.length) :
    (insertAt l p a).drop (n + 1) = l.drop n := by
  unfold insertAt
  have hl : (l.take p).length = p := by rw [List.length_take]; omega
  have e : n + 1 = (l.take p).length + (n - p + 1) := by omega
  rw [e, List.drop_length_add_append, List.drop_succ_cons, List.drop_drop]
  congr 1; omega

theorem take_insertAt_of_le (l : List α) (p n : Nat) (a : α) (hp : p ≤ n) (hn : n ≤ l.length) :
    ((insertAt l p a).take (n + 1)).Perm (a :: l.take n) := by
  unfold insertAt
  have hl : (l.take p).length = p := by rw [List.length_take]; omega
  have e : n + 1 = (l.take p).length + (n - p + 1) := by omega
  rw [e, List.take_length_add_append, List.take_succ_cons]
  refine List.perm_middle.trans (List.Perm.cons a ?_)
  have e2 : l.take n = l.take (p + (n - p)) := by congr 1; omega
  rw [e2, List.take_add]

/-- Invariant of the loop of `tensor_insert` for sorted admissible positions: at every call of
`single_tensor_insert` the bookkept dimension list and the true factor list coincide *behind* the
split position and are permutations of each other in front of it. -/
theorem insertTrace_invariant (sp : List (Nat × α)) (i k : Nat) (chain dims : List α)
    (hs : SortedPos sp) (hadm : ∀ x ∈ sp, k ≤ x.1 ∧ x.1 + i ≤ chain.length)
    (hsuf : chain.drop (k + i) = dims.drop (k + i))
    (hpre : (chain.take (k + i)).Perm (dims.take (k + i))) :
    ∀ st ∈ (insertTrace i chain dims sp).1,
      st.chain.drop st.split = st.dims.drop st.split ∧
      (st.chain.take st.split).Perm (st.dims.take st.split) ∧
      st.split ≤ st.chain.length := by
  induction sp generalizing i k chain dims with
  | nil => simp [insertTrace]
  | cons x rest ih =>
    obtain ⟨p, a⟩ := x
    have hp := hadm (p, a) (by simp)
    simp only at hp
    unfold SortedPos at hs
    rw [List.pairwise_cons] at hs
    obtain ⟨d, rfl⟩ : ∃ d, p = k + d := ⟨p - k, by omega⟩
    have hlen : chain.length = dims.length := by
      have h1 := congrArg List.length hsuf
      have h2 := hpre.length_eq
      simp only [List.length_drop, List.length_take] at h1 h2
      omega
    have hD : ∀ l : List α, l.drop (k + d + i) = (l.drop (k + i)).drop d := fun l => by
      rw [List.drop_drop]; congr 1; omega
    have hT : ∀ l : List α, l.take (k + d + i) = l.take (k + i) ++ (l.drop (k + i)).take d :=
      fun l => by rw [← List.take_add]; congr 1; omega
    -- facts at the split position `k + d + i`
    have hsuf' : chain.drop (k + d + i) = dims.drop (k + d + i) := by rw [hD, hD, hsuf]
    have hpre' : (chain.take (k + d + i)).Perm (dims.take (k + d + i)) := by
      rw [hT, hT, hsuf]; exact hpre.append_right _
    intro st hst
    simp only [insertTrace, List.mem_cons] at hst
    rcases hst with rfl | hst
    · exact ⟨hsuf', hpre', hp.2⟩
    · have e : k + d + (i + 1) = (k + d + i) + 1 := by omega
      refine ih (i + 1) (k + d) (insertAt chain (k + d + i) a) (insertAt dims (k + d) a) hs.2
        ?_ ?_ ?_ st hst
      · intro y hy
        have h1 := hs.1 y hy
        have h2 := hadm y (by simp [hy])
        simp only at h1
        have : (insertAt chain (k + d + i) a).length = chain.length + 1 := by
          simp [insertAt]; omega
        omega
      · rw [e, drop_insertAt_of_le chain _ _ a (Nat.le_refl _) hp.2,
          drop_insertAt_of_le dims _ _ a (by omega) (by omega), hsuf']
      · rw [e]
        exact (take_insertAt_of_le chain _ _ a (Nat.le_refl _) hp.2).trans
          ((List.Perm.cons a hpre').trans
            (take_insertAt_of_le dims _ _ a (by omega) (by omega)).symm)

end Trace

/-! ### the split index depends only on the product behind the split -/

theorem splitInsertIndex_eq (D : List Nat) (pos e x y : Nat) (hpos : pos ≤ D.length)
    (hx : x < prod D) :
    splitInsertIndex D pos e x y
      = (x / prod (D.drop pos)) * (e * prod (D.drop pos)) + (y * prod (D.drop pos)
          + x % prod (D.drop pos)) := by
  unfold splitInsertIndex
  have hD : D = D.take pos ++ D.drop pos := (List.take_append_drop pos D).symm
  have hx' : x < prod (D.take pos ++ D.drop pos) := by rw [← hD]; exact hx
  have hdec := decode_append hx'
  rw [← hD] at hdec
  have hl : (mixedRadixDecode (D.take pos) (x / prod (D.drop pos))).length = pos := by
    rw [decode_length, List.length_take]; omega
  rw [prod_append] at hx'
  have hR : 0 < prod (D.drop pos) := by
    rcases Nat.eq_zero_or_pos (prod (D.drop pos)) with h0 | h0
    · rw [h0] at hx'; omega
    · exact h0
  have hxL : x / prod (D.drop pos) < prod (D.take pos) := by
    rw [Nat.div_lt_iff_lt_mul hR]; exact hx'
  simp only
  rw [hdec, List.take_left' hl, List.drop_left' hl]
  rw [encode_append (by rw [decode_length]), encode_decode hxL]
  simp only [mixedRadixEncode, prod]
  rw [encode_decode (Nat.mod_lt _ hR)]

end FFVerif.TensorAux
