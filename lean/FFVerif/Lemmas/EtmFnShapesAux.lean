/-
Helper lemmas for `FFVerif/Props/C09EtmFnShapes.lean`: sums over two leading axes of `Stack`s.
-/
import FFVerif.Lemmas.EtmFnAux
import FFVerif.Lemmas.InfidelityAux
import Mathlib.LinearAlgebra.Matrix.PosDef

namespace FFVerif.Model.EtmFn
open FFVerif FFVerif.Model

namespace Stack
variable {α β γ : Type}

theorem sum_map_map_two {δ : Type} [AddCommMonoid δ] (h : γ → δ) (F : β → γ) (G : α → β)
    (m n : Nat) (x : Vector (Vector α n) m) :
    Stack.sum h [m, n] (Stack.map F [m, n] (Stack.map G [m, n] (x : Stack α [m, n])))
      = ∑ a : Fin m, ∑ b : Fin n, h (F (G x[a][b])) := by
  show fsum m (fun i => fsum n fun j =>
    h ((Vector.map (Vector.map F) (Vector.map (Vector.map G) x))[i][j])) = _
  rw [fsum_eq_sum]
  refine Finset.sum_congr rfl fun a _ => ?_
  rw [fsum_eq_sum]
  refine Finset.sum_congr rfl fun b _ => ?_
  simp only [Fin.getElem_fin, Vector.getElem_map]

theorem sum_zipWith_map_map_two {α' β' δ : Type} [AddCommMonoid δ] (h : γ → δ) (F : β → β' → γ)
    (G : α → β) (G' : α' → β') (m n : Nat) (x : Vector (Vector α n) m)
    (y : Vector (Vector α' n) m) :
    Stack.sum h [m, n] (Stack.zipWith F [m, n] (Stack.map G [m, n] (x : Stack α [m, n]))
        (Stack.map G' [m, n] (y : Stack α' [m, n])))
      = ∑ a : Fin m, ∑ b : Fin n, h (F (G x[a][b]) (G' y[a][b])) := by
  show fsum m (fun i => fsum n fun j => h ((Vector.ofFn fun k : Fin m => Vector.ofFn fun l : Fin n =>
    F ((Vector.map (Vector.map G) x)[k][l]) ((Vector.map (Vector.map G') y)[k][l]))[i][j])) = _
  rw [fsum_eq_sum]
  refine Finset.sum_congr rfl fun a _ => ?_
  rw [fsum_eq_sum]
  refine Finset.sum_congr rfl fun b _ => ?_
  simp only [Fin.getElem_fin, Vector.getElem_map, Vector.getElem_ofFn]

end Stack

/-! ### Positive semidefiniteness of the decay amplitudes for a non-negative spectrum -/

section Psd
open Matrix
open scoped ComplexOrder
variable {N nO : Nat}

theorem re_cast_eq (bk bl : ℂ) (s : ℝ) :
    (((starRingEnd ℂ bk * (s : ℂ) * bl).re : ℝ) : ℂ)
      = (s : ℂ) * (1 / 2) * (starRingEnd ℂ bk * bl + bk * starRingEnd ℂ bl) := by
  rw [Complex.re_eq_add_conj]
  simp only [map_mul, Complex.conj_conj, Complex.conj_ofReal]
  ring

/-- the rank-two positive-semidefinite matrix `s · Re(conj(b) bᵀ)` -/
noncomputable def psdBlock (s : ℝ) (b : Fin N → ℂ) : Matrix (Fin N) (Fin N) ℂ :=
  s • ((1 / 2 : ℝ) • (vecMulVec (star b) b + vecMulVec b (star b)))

theorem psdBlock_posSemidef (s : ℝ) (hs : 0 ≤ s) (b : Fin N → ℂ) : (psdBlock s b).PosSemidef :=
  (((posSemidef_vecMulVec_star_self b).add (posSemidef_vecMulVec_self_star b)).smul
    (by norm_num : (0 : ℝ) ≤ 1 / 2)).smul hs

theorem gamma_block_posSemidef (ω : Vec ℝ nO) (hω : ∀ i j : Fin nO, i ≤ j → ω[i] ≤ ω[j])
    (Ba : Mat ℂ N nO) (Sa : Vec ℂ nO) (s : Fin nO → ℝ) (hs : ∀ o, 0 ≤ s o)
    (hS : ∀ o : Fin nO, Sa[o] = (s o : ℂ)) :
    (Matrix.of fun k l : Fin N =>
      ((integrateR ω (gammaIntegrand Ba Ba Sa k l) / (2 * Real.pi) : ℝ) : ℂ)).PosSemidef := by
  have key : (Matrix.of fun k l : Fin N =>
      ((integrateR ω (gammaIntegrand Ba Ba Sa k l) / (2 * Real.pi) : ℝ) : ℂ))
      = ∑ i : Fin (nO - 1),
        ((ω[(⟨i.1 + 1, by have := i.2; omega⟩ : Fin nO)] - ω[(⟨i.1, by have := i.2; omega⟩ : Fin nO)])
          / 2 / (2 * Real.pi)) •
        (psdBlock (s ⟨i.1, by have := i.2; omega⟩) (fun k => Ba[k][(⟨i.1, by have := i.2; omega⟩ : Fin nO)])
          + psdBlock (s ⟨i.1 + 1, by have := i.2; omega⟩)
            (fun k => Ba[k][(⟨i.1 + 1, by have := i.2; omega⟩ : Fin nO)])) := by
    ext k l
    rw [Matrix.of_apply, integrateR_eq_trapz, Matrix.sum_apply]
    unfold Spec.trapz
    rw [Finset.sum_div, Complex.ofReal_sum]
    refine Finset.sum_congr rfl fun i _ => ?_
    simp only [gammaIntegrand, Fin.getElem_fin, Vector.getElem_ofFn, Matrix.smul_apply,
      Matrix.add_apply, psdBlock, vecMulVec_apply, Pi.star_apply, Complex.real_smul]
    have h1 := hS ⟨i.1, by have := i.2; omega⟩
    have h2 := hS ⟨i.1 + 1, by have := i.2; omega⟩
    simp only [Fin.getElem_fin] at h1 h2
    rw [h1, h2]
    push_cast
    rw [re_cast_eq, re_cast_eq]
    simp only [RCLike.star_def]
    ring
  rw [key]
  refine posSemidef_sum _ fun i _ => PosSemidef.smul
    ((psdBlock_posSemidef _ (hs _) _).add (psdBlock_posSemidef _ (hs _) _)) ?_
  have h := hω ⟨i.1, by have := i.2; omega⟩ ⟨i.1 + 1, by have := i.2; omega⟩ (by simp [Fin.le_def])
  have hpi := Real.pi_pos
  have : 0 ≤ ω[(⟨i.1 + 1, by have := i.2; omega⟩ : Fin nO)] - ω[(⟨i.1, by have := i.2; omega⟩ : Fin nO)] :=
    sub_nonneg.mpr h
  positivity


end Psd

end FFVerif.Model.EtmFn
