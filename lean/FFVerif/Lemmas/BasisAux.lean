/-
Helper lemmas for C14 (operator bases: Pauli, generalized Gell-Mann, completion of a partial
basis, flags).
-/
import Mathlib.LinearAlgebra.Matrix.Kronecker
import Mathlib.LinearAlgebra.Matrix.NonsingularInverse
import Mathlib.Analysis.SpecialFunctions.Pow.Real
import FFVerif.Lemmas.LiouvilleAux
import FFVerif.Model.Basis
import FFVerif.Props.C15

namespace FFVerif
open Matrix
open scoped Kronecker

/-! ### Row-major index splitting as an equivalence -/

/-- `r ↦ (r / n, r % n)` -/
def Fin.splitEquiv (m n : Nat) : Fin (m * n) ≃ Fin m × Fin n where
  toFun r := (Fin.hi r, Fin.lo r)
  invFun p := Fin.flat p.1 p.2
  left_inv r := Fin.flat_hi_lo r
  right_inv p := by
    rcases p with ⟨i, j⟩
    simp only [Fin.hi_flat, Fin.lo_flat]

theorem Fin.eq_iff_hi_lo {m n : Nat} (r s : Fin (m * n)) :
    r = s ↔ Fin.hi r = Fin.hi s ∧ Fin.lo r = Fin.lo s := by
  constructor
  · rintro rfl; exact ⟨rfl, rfl⟩
  · rintro ⟨h1, h2⟩
    rw [← Fin.flat_hi_lo r, ← Fin.flat_hi_lo s, h1, h2]

theorem sum_split {M : Type} [AddCommMonoid M] {m n : Nat} (f : Fin (m * n) → M) :
    ∑ r, f r = ∑ i : Fin m, ∑ j : Fin n, f (Fin.flat i j) := by
  rw [← Fintype.sum_prod_type' (f := fun i j => f (Fin.flat i j))]
  exact Fintype.sum_equiv (Fin.splitEquiv m n) _ _ fun r => by
    simp only [Fin.splitEquiv, Equiv.coe_fn_mk, Fin.flat_hi_lo]

namespace Spec

/-- trace is invariant under reindexing by an equivalence -/
theorem trace_submatrix_equiv {ι κ : Type} [Fintype ι] [Fintype κ] (e : ι ≃ κ)
    (M : Matrix κ κ ℂ) : trace (M.submatrix e e) = trace M := by
  simp only [Matrix.trace, Matrix.diag_apply, Matrix.submatrix_apply]
  exact Fintype.sum_equiv e _ _ fun _ => rfl

/-- the family of Kronecker products `(i, j) ↦ C_i ⊗ D_j`, indices and matrix indices flattened
row-major (`util.tensor`) -/
def kronFamily {N₁ N₂ d₁ d₂ : Nat} (C : Fin N₁ → Matrix (Fin d₁) (Fin d₁) ℂ)
    (D : Fin N₂ → Matrix (Fin d₂) (Fin d₂) ℂ) :
    Fin (N₁ * N₂) → Matrix (Fin (d₁ * d₂)) (Fin (d₁ * d₂)) ℂ :=
  fun r => (C (Fin.hi r) ⊗ₖ D (Fin.lo r)).submatrix (Fin.splitEquiv d₁ d₂) (Fin.splitEquiv d₁ d₂)

theorem kronFamily_apply {N₁ N₂ d₁ d₂ : Nat} (C : Fin N₁ → Matrix (Fin d₁) (Fin d₁) ℂ)
    (D : Fin N₂ → Matrix (Fin d₂) (Fin d₂) ℂ) (r : Fin (N₁ * N₂)) (a b : Fin (d₁ * d₂)) :
    kronFamily C D r a b
      = C (Fin.hi r) (Fin.hi a) (Fin.hi b) * D (Fin.lo r) (Fin.lo a) (Fin.lo b) := rfl

variable {N₁ N₂ d₁ d₂ : Nat} {C : Fin N₁ → Matrix (Fin d₁) (Fin d₁) ℂ}
  {D : Fin N₂ → Matrix (Fin d₂) (Fin d₂) ℂ}

theorem kron_orthoHerm (hC : IsOrthoHerm C) (hD : IsOrthoHerm D) :
    IsOrthoHerm (kronFamily C D) where
  herm r := by
    unfold kronFamily
    rw [Matrix.conjTranspose_submatrix, Matrix.conjTranspose_kronecker, hC.herm, hD.herm]
  ortho r s := by
    unfold kronFamily
    rw [Matrix.submatrix_mul_equiv, trace_submatrix_equiv, ← Matrix.mul_kronecker_mul,
      Matrix.trace_kronecker, hC.ortho, hD.ortho]
    simp only [Fin.eq_iff_hi_lo r s]
    by_cases h1 : Fin.hi r = Fin.hi s <;> by_cases h2 : Fin.lo r = Fin.lo s <;> simp [h1, h2]

theorem kron_complete (hC : IsComplete C) (hD : IsComplete D) :
    IsComplete (kronFamily C D) := by
  apply C15.complete_of_swap
  intro a b c e
  simp only [kronFamily_apply]
  rw [sum_split]
  simp only [Fin.hi_flat, Fin.lo_flat]
  have h : ∀ i : Fin N₁, ∀ j : Fin N₂,
      C i (Fin.hi a) (Fin.hi b) * D j (Fin.lo a) (Fin.lo b)
        * (C i (Fin.hi c) (Fin.hi e) * D j (Fin.lo c) (Fin.lo e))
      = (C i (Fin.hi a) (Fin.hi b) * C i (Fin.hi c) (Fin.hi e))
        * (D j (Fin.lo a) (Fin.lo b) * D j (Fin.lo c) (Fin.lo e)) := by
    intro i j; ring
  simp only [h]
  rw [← Finset.sum_mul_sum, C15.swap_identity hC, C15.swap_identity hD]
  simp only [Fin.eq_iff_hi_lo a e, Fin.eq_iff_hi_lo b c]
  by_cases h1 : Fin.hi a = Fin.hi e <;> by_cases h2 : Fin.lo a = Fin.lo e <;>
    by_cases h3 : Fin.hi b = Fin.hi c <;> by_cases h4 : Fin.lo b = Fin.lo c <;>
    simp [h1, h2, h3, h4]

/-- an orthonormal family (w.r.t. `tr(C_i C_j)`) of `d²` matrices is complete: the square matrix of
flattened elements has a left inverse, hence a right inverse, which is the swap identity. -/
theorem complete_of_ortho_card {N d : Nat} {C : Fin N → Matrix (Fin d) (Fin d) ℂ}
    (h : ∀ i j, trace (C i * C j) = if i = j then 1 else 0) (hN : N = d * d) : IsComplete C := by
  apply C15.complete_of_swap
  let B : Matrix (Fin N) (Fin d × Fin d) ℂ := Matrix.of fun i p => C i p.1 p.2
  let B' : Matrix (Fin d × Fin d) (Fin N) ℂ := Matrix.of fun p j => C j p.2 p.1
  have h1 : B * B' = 1 := by
    ext i j
    rw [Matrix.one_apply, ← h i j]
    simp only [B, B', Matrix.mul_apply, Matrix.of_apply, Fintype.sum_prod_type, Matrix.trace,
      Matrix.diag_apply]
  have h2 : B' * B = 1 :=
    (Matrix.mul_eq_one_comm_of_card_eq (Fin N) (Fin d × Fin d) ℂ (by simp [hN])).mp h1
  intro a b c e
  have h3 := congrFun (congrFun h2 (b, a)) (c, e)
  simp only [B, B', Matrix.mul_apply, Matrix.of_apply, Matrix.one_apply, Prod.mk.injEq] at h3
  rw [h3]
  simp only [and_comm]


/-! ### Linear combinations of an orthonormal family (`_full_from_partial`) -/

section comb
variable {d n p : Nat}

/-- linear combinations `F_i = Σ_j W_ij G_j` (`np.einsum('ij,jkl', coeffs, ggm)`) -/
def comb (W : Fin p → Fin n → ℂ) (G : Fin n → Matrix (Fin d) (Fin d) ℂ) :
    Fin p → Matrix (Fin d) (Fin d) ℂ := fun i => ∑ j, W i j • G j

theorem comb_apply (W : Fin p → Fin n → ℂ) (G : Fin n → Matrix (Fin d) (Fin d) ℂ) (i : Fin p)
    (a b : Fin d) : comb W G i a b = ∑ j, W i j * G j a b := by
  simp only [comb, Matrix.sum_apply, Matrix.smul_apply, smul_eq_mul]

/-- traces of products of linear combinations of an orthonormal family -/
theorem trace_comb_mul_comb {G : Fin n → Matrix (Fin d) (Fin d) ℂ}
    (hG : ∀ j l, trace (G j * G l) = if j = l then 1 else 0)
    {p' : Nat} (W : Fin p → Fin n → ℂ) (V : Fin p' → Fin n → ℂ) (i : Fin p) (k : Fin p') :
    trace (comb W G i * comb V G k) = ∑ j, W i j * V k j := by
  simp only [comb, Matrix.sum_mul, Matrix.mul_sum, trace_sum, Matrix.smul_mul, Matrix.mul_smul,
    trace_smul, smul_eq_mul, hG]
  refine Finset.sum_congr rfl fun j _ => ?_
  simp [mul_comm]

/-- the swap sum is invariant under a change of family by a matrix with `Wᵀ W = 1` -/
theorem swap_comb {G : Fin n → Matrix (Fin d) (Fin d) ℂ} (W : Fin p → Fin n → ℂ)
    (hW : ∀ j l, ∑ i, W i j * W i l = if j = l then 1 else 0) (a b c e : Fin d) :
    ∑ i, comb W G i a b * comb W G i c e = ∑ j, G j a b * G j c e := by
  simp only [comb_apply, Finset.sum_mul_sum]
  rw [Finset.sum_comm]
  have h : ∀ j, ∑ i, ∑ l, W i j * G j a b * (W i l * G l c e)
      = ∑ l, (∑ i, W i j * W i l) * (G j a b * G l c e) := by
    intro j
    rw [Finset.sum_comm]
    refine Finset.sum_congr rfl fun l _ => ?_
    rw [Finset.sum_mul]
    refine Finset.sum_congr rfl fun i _ => ?_
    ring
  simp only [h, hW]
  refine Finset.sum_congr rfl fun j _ => ?_
  simp [Finset.sum_ite_eq]


/-- square matrices given by rows: `W Wᵀ = 1` implies `Wᵀ W = 1` -/
theorem rows_orthonormal_comm {p n : Nat} (hpn : p = n) (W : Fin p → Fin n → ℂ)
    (hW : ∀ i k, ∑ j, W i j * W k j = if i = k then 1 else 0) (j l : Fin n) :
    ∑ i, W i j * W i l = if j = l then 1 else 0 := by
  let A : Matrix (Fin p) (Fin n) ℂ := Matrix.of W
  have h1 : A * Aᵀ = 1 := by
    ext i k
    simp only [A, Matrix.mul_apply, Matrix.transpose_apply, Matrix.of_apply, Matrix.one_apply, hW]
  have h2 : Aᵀ * A = 1 :=
    (Matrix.mul_eq_one_comm_of_card_eq (Fin p) (Fin n) ℂ (by simp [hpn])).mp h1
  have h3 := congrFun (congrFun h2 j) l
  simpa only [A, Matrix.mul_apply, Matrix.transpose_apply, Matrix.of_apply, Matrix.one_apply]
    using h3

end comb

section fromPartial
variable {d n m q : Nat}

/-- coefficient rows of `_full_from_partial`: first the expansion coefficients `c_ij = tr(E_i G_j)`
of the supplied elements, then the rows of the null-space oracle -/
def partialRows (G : Fin n → Matrix (Fin d) (Fin d) ℂ) (E : Fin m → Matrix (Fin d) (Fin d) ℂ)
    (Nmat : Fin q → Fin n → ℝ) : Fin (m + q) → Fin n → ℂ :=
  Fin.append (fun i j => trace (E i * G j)) (fun k j => ((Nmat k j : ℝ) : ℂ))

theorem castAdd_ne_natAdd' {m q : Nat} (i : Fin m) (k : Fin q) :
    Fin.castAdd q i ≠ Fin.natAdd m k := by
  intro h
  have := congrArg Fin.val h
  simp only [Fin.val_castAdd, Fin.val_natAdd] at this
  omega

theorem partialRows_core {G : Fin n → Matrix (Fin d) (Fin d) ℂ} (hG : IsOrthoHerm G)
    {E : Fin m → Matrix (Fin d) (Fin d) ℂ} (hE : IsOrthoHerm E)
    (hEc : ∀ i, E i = ∑ j, trace (E i * G j) • G j)
    (Nmat : Fin q → Fin n → ℝ)
    (hNN : ∀ k k', ∑ j, Nmat k j * Nmat k' j = if k = k' then 1 else 0)
    (hNc : ∀ k i, ∑ j, ((Nmat k j : ℝ) : ℂ) * trace (E i * G j) = 0) :
    (∀ i k, ∑ j, partialRows G E Nmat i j * partialRows G E Nmat k j = if i = k then 1 else 0) ∧
    IsOrthoHerm (comb (partialRows G E Nmat) G) ∧
    ∀ i : Fin m, comb (partialRows G E Nmat) G (Fin.castAdd q i) = E i := by
  have hfirst : ∀ i : Fin m, comb (partialRows G E Nmat) G (Fin.castAdd q i) = E i := by
    intro i
    rw [hEc i]
    simp only [comb, partialRows, Fin.append_left]
  have hcc : ∀ i k : Fin m, ∑ j, trace (E i * G j) * trace (E k * G j) = if i = k then 1 else 0 := by
    intro i k
    rw [← hE.ortho i k]
    conv_rhs => rw [← hfirst i, ← hfirst k, trace_comb_mul_comb hG.ortho]
    simp only [partialRows, Fin.append_left]
  have hW : ∀ i k, ∑ j, partialRows G E Nmat i j * partialRows G E Nmat k j
      = if i = k then 1 else 0 := by
    intro i k
    induction i using Fin.addCases with
    | left i =>
      induction k using Fin.addCases with
      | left k =>
        simp only [partialRows, Fin.append_left, hcc, Fin.castAdd_inj]
      | right k =>
        simp only [partialRows, Fin.append_left, Fin.append_right]
        rw [if_neg (castAdd_ne_natAdd' i k)]
        rw [← hNc k i]
        exact Finset.sum_congr rfl fun j _ => mul_comm _ _
    | right i =>
      induction k using Fin.addCases with
      | left k =>
        simp only [partialRows, Fin.append_left, Fin.append_right]
        rw [if_neg (castAdd_ne_natAdd' k i).symm]
        exact hNc i k
      | right k =>
        simp only [partialRows, Fin.append_right, Fin.natAdd_inj]
        simp only [← Complex.ofReal_mul, ← Complex.ofReal_sum, hNN]
        split <;> simp
  refine ⟨hW, ⟨fun i => ?_, fun i k => ?_⟩, hfirst⟩
  · induction i using Fin.addCases with
    | left i => rw [hfirst i]; exact hE.herm i
    | right i =>
      simp only [comb, partialRows, Fin.append_right, Matrix.conjTranspose_sum,
        Matrix.conjTranspose_smul, hG.herm, Complex.star_def, Complex.conj_ofReal]
  · rw [trace_comb_mul_comb hG.ortho]
    exact hW i k

end fromPartial

end Spec

/-! ### Unfolding the Pauli model -/

namespace Model

theorem rscale_getElem {m n : Nat} (x : ℝ) (A : Mat ℂ m n) (a : Fin m) (b : Fin n) :
    (rscale x A)[a][b] = (x : ℂ) * A[a][b] := by
  simp only [rscale, Mat.smul, Mat.ofFn_get, copsOfReal]

theorem kronMat_getElem {m n : Nat} (A : Mat ℂ m m) (B : Mat ℂ n n) (r c : Fin (m * n)) :
    (kronMat A B)[r][c] = A[Fin.hi r][Fin.hi c] * B[Fin.lo r][Fin.lo c] := by
  simp only [kronMat, Mat.ofFn_get]

theorem kronMat_toMatrix {m n : Nat} (A : Mat ℂ m m) (B : Mat ℂ n n) :
    (kronMat A B).toMatrix
      = (A.toMatrix ⊗ₖ B.toMatrix).submatrix (Fin.splitEquiv m n) (Fin.splitEquiv m n) := by
  ext r c
  rw [Mat.toMatrix_apply, kronMat_getElem]
  rfl

theorem rscale_toMatrix {m n : Nat} (x : ℝ) (A : Mat ℂ m n) :
    (rscale x A).toMatrix = (x : ℂ) • A.toMatrix := by
  ext a b
  rw [Mat.toMatrix_apply, rscale_getElem]
  rfl

theorem pauliBasis_getElem (n : Nat) (i : Nat) (hi : i < 4 ^ n) :
    (pauliBasis (K := ℂ) n)[i]
      = rscale ((1 : ℝ) / Real.sqrt ((2 ^ n : Nat) : ℝ)) (pauliRaw (K := ℂ) n)[i] := by
  simp only [pauliBasis, Vector.getElem_map, ropsSqrt]

theorem pauli1_getElem (i : Nat) (hi : i < 4) :
    (pauli1 (K := ℂ))[i]
      = rscale ((1 : ℝ) / Real.sqrt ((2 : Nat) : ℝ)) (paulis (K := ℂ))[i] := by
  simp only [pauli1, Vector.getElem_map, ropsSqrt]

theorem pauliBasis_getElem_fin (n : Nat) (i : Fin (4 ^ n)) :
    (pauliBasis (K := ℂ) n)[i]
      = rscale ((1 : ℝ) / Real.sqrt ((2 ^ n : Nat) : ℝ)) (pauliRaw (K := ℂ) n)[i] :=
  pauliBasis_getElem n i.1 i.2

theorem pauli1_getElem_fin (i : Fin 4) :
    (pauli1 (K := ℂ))[i]
      = rscale ((1 : ℝ) / Real.sqrt ((2 : Nat) : ℝ)) (paulis (K := ℂ))[i] :=
  pauli1_getElem i.1 i.2

theorem pauliRaw_succ_getElem (n : Nat) (r : Nat) (hr : r < 4 ^ n * 4) :
    (pauliRaw (K := ℂ) (n + 1))[r]'hr
      = kronMat (pauliRaw (K := ℂ) n)[Fin.hi (⟨r, hr⟩ : Fin (4 ^ n * 4))]
          (paulis (K := ℂ))[Fin.lo (⟨r, hr⟩ : Fin (4 ^ n * 4))] := by
  show (Vector.ofFn (n := 4 ^ n * 4) fun r => kronMat (pauliRaw (K := ℂ) n)[Fin.hi r]
    (paulis (K := ℂ))[Fin.lo r])[r]'hr = _
  exact Vector.getElem_ofFn (n := 4 ^ n * 4) _

theorem sqrt_two_pow_succ (n : Nat) :
    (1 : ℝ) / Real.sqrt ((2 ^ (n + 1) : Nat) : ℝ)
      = (1 / Real.sqrt ((2 ^ n : Nat) : ℝ)) * (1 / Real.sqrt ((2 : Nat) : ℝ)) := by
  rw [pow_succ, Nat.cast_mul, Real.sqrt_mul (Nat.cast_nonneg _), one_div_mul_one_div]

/-- element `r` of the `(n+1)`-qubit Pauli basis is the Kronecker product of element `r / 4` of the
`n`-qubit basis and element `r % 4` of the one-qubit basis -/
theorem pauliBasis_succ_getElem (n : Nat) (r : Fin (4 ^ n * 4)) :
    ((pauliBasis (K := ℂ) (n + 1))[r.1]'r.2 : Mat ℂ (2 ^ n * 2) (2 ^ n * 2))
      = kronMat (pauliBasis (K := ℂ) n)[Fin.hi r] (pauli1 (K := ℂ))[Fin.lo r] := by
  have h1 : ((pauliBasis (K := ℂ) (n + 1))[r.1]'r.2 : Mat ℂ (2 ^ n * 2) (2 ^ n * 2))
      = rscale ((1 : ℝ) / Real.sqrt ((2 ^ (n + 1) : Nat) : ℝ))
          (kronMat (pauliRaw (K := ℂ) n)[Fin.hi r] (paulis (K := ℂ))[Fin.lo r]) := by
    have h := pauliBasis_getElem (n + 1) r.1 r.2
    rw [pauliRaw_succ_getElem n r.1 r.2] at h
    exact h
  rw [h1]
  apply Mat.ext'
  ext a b
  simp only [Mat.toMatrix_apply]
  rw [rscale_getElem, kronMat_getElem, kronMat_getElem, pauliBasis_getElem_fin, pauli1_getElem_fin,
    rscale_getElem, rscale_getElem, sqrt_two_pow_succ]
  push_cast
  ring

theorem paulis_trace (i j : Fin 4) :
    ∑ a : Fin 2, ∑ b : Fin 2, (paulis (K := ℂ))[i][a][b] * (paulis (K := ℂ))[j][b][a]
      = if i = j then 2 else 0 := by
  fin_cases i <;> fin_cases j <;> simp [paulis, Fin.sum_univ_two] <;> norm_num

theorem paulis_herm (i : Fin 4) (a b : Fin 2) :
    starRingEnd ℂ (paulis (K := ℂ))[i][b][a] = (paulis (K := ℂ))[i][a][b] := by
  fin_cases i <;> fin_cases a <;> fin_cases b <;> simp [paulis]

theorem paulis_zero_toMatrix : ((paulis (K := ℂ))[(0 : Fin 4)]).toMatrix = 1 := by
  ext a b
  fin_cases a <;> fin_cases b <;> simp [paulis, Mat.toMatrix]

theorem pauliRaw_zero_toMatrix (n : Nat) :
    ((pauliRaw (K := ℂ) n)[0]'(Nat.pow_pos (by norm_num))).toMatrix = 1 := by
  induction n with
  | zero =>
    show (Mat.one : Mat ℂ (2 ^ 0) (2 ^ 0)).toMatrix = 1
    exact Mat.toMatrix_one
  | succ n ih =>
    have h0 : (0 : Nat) < 4 ^ n * 4 := Nat.mul_pos (Nat.pow_pos (by norm_num)) (by norm_num)
    have h := pauliRaw_succ_getElem n 0 h0
    have hhi : Fin.hi (⟨0, h0⟩ : Fin (4 ^ n * 4)) = ⟨0, Nat.pow_pos (by norm_num)⟩ :=
      Fin.ext (Nat.zero_div _)
    have hlo : Fin.lo (⟨0, h0⟩ : Fin (4 ^ n * 4)) = (0 : Fin 4) := Fin.ext (Nat.zero_mod _)
    simp only [hhi, hlo] at h
    have key : (kronMat (pauliRaw (K := ℂ) n)[(⟨0, Nat.pow_pos (by norm_num)⟩ : Fin (4 ^ n))]
        (paulis (K := ℂ))[(0 : Fin 4)]).toMatrix
        = (1 : Matrix (Fin (2 ^ n * 2)) (Fin (2 ^ n * 2)) ℂ) := by
      rw [kronMat_toMatrix, Fin.getElem_fin, ih, paulis_zero_toMatrix, Matrix.one_kronecker_one,
        Matrix.submatrix_one_equiv]
    exact (congrArg Mat.toMatrix h).trans key

theorem pauli1_apply (i : Fin 4) (a b : Fin 2) :
    Spec.basisOf (pauli1 (K := ℂ)) i a b
      = ((1 / Real.sqrt ((2 : Nat) : ℝ) : ℝ) : ℂ) * (paulis (K := ℂ))[i][a][b] := by
  simp only [Spec.basisOf, Mat.toMatrix_apply]
  rw [pauli1_getElem_fin, rscale_getElem]

theorem inv_sqrt_two_sq :
    (((1 / Real.sqrt ((2 : Nat) : ℝ) : ℝ) : ℂ)) * ((1 / Real.sqrt ((2 : Nat) : ℝ) : ℝ) : ℂ) = 1 / 2 := by
  rw [← Complex.ofReal_mul, one_div_mul_one_div, Real.mul_self_sqrt (Nat.cast_nonneg _)]
  push_cast; rfl

theorem basisOf_pauliBasis_succ (n : Nat) :
    Spec.basisOf (pauliBasis (K := ℂ) (n + 1))
      = Spec.kronFamily (Spec.basisOf (pauliBasis (K := ℂ) n)) (Spec.basisOf (pauli1 (K := ℂ))) := by
  funext r
  exact (congrArg Mat.toMatrix (pauliBasis_succ_getElem n r)).trans (kronMat_toMatrix _ _)

theorem pauliBasis_zero_apply (i : Fin (4 ^ 0)) (a b : Fin (2 ^ 0)) :
    Spec.basisOf (pauliBasis (K := ℂ) 0) i a b = 1 := by
  have hi : i = ⟨0, by norm_num⟩ := Fin.ext (by have := i.2; omega)
  have ha : a = ⟨0, by norm_num⟩ := Fin.ext (by have := a.2; omega)
  have hb : b = ⟨0, by norm_num⟩ := Fin.ext (by have := b.2; omega)
  subst hi ha hb
  simp only [Spec.basisOf, Mat.toMatrix_apply]
  rw [pauliBasis_getElem_fin, rscale_getElem]
  simp [pauliRaw, Mat.one]

/-! ### `_full_from_partial` model -/

theorem fromPartialCombine_basisOf {d m q n : Nat} (coeffs : Mat ℂ m n) (nullT : Mat ℂ q n)
    (G : Vector (Mat ℂ d d) n) :
    Spec.basisOf (fromPartialCombine coeffs nullT G)
      = Spec.comb (fun i j => (coeffs ++ nullT)[i][j]) (Spec.basisOf G) := by
  funext i
  ext a b
  rw [Spec.comb_apply]
  simp only [Spec.basisOf, Mat.toMatrix_apply, fromPartialCombine, Gen.basis__full_from_partial_0,
    Fin.getElem_fin, Vector.getElem_ofFn, fsum_eq_sum]

theorem append_rows_eq {d m q n : Nat} (E : Vector (Mat ℂ d d) m) (nullT : Mat ℂ q n)
    (G : Vector (Mat ℂ d d) n) (hreal : ∀ (k : Fin q) (j : Fin n), (nullT[k][j]).im = 0) :
    (fun (i : Fin (m + q)) (j : Fin n) =>
        ((Vector.ofFn fun i : Fin m => Model.expand E[i] G false) ++ nullT)[i][j])
      = Spec.partialRows (Spec.basisOf G) (Spec.basisOf E) (fun k j => (nullT[k][j]).re) := by
  funext i j
  induction i using Fin.addCases with
  | left i =>
    simp only [Spec.partialRows, Fin.append_left, Fin.getElem_fin, Fin.val_castAdd]
    have h : ((Vector.ofFn fun i : Fin m => Model.expand E[i] G false) ++ nullT)[i.1]'(by omega)
        = Model.expand E[i] G false := by
      rw [Vector.getElem_append_left i.2, Vector.getElem_ofFn]
    have h2 := congrArg (fun v : Vec ℂ n => v[j.1]) h
    simp only [Fin.getElem_fin] at h2
    refine h2.trans ?_
    rw [Model.expand_getElem_nat]
    rfl
  | right k =>
    simp only [Spec.partialRows, Fin.append_right, Fin.getElem_fin, Fin.val_natAdd]
    have h : ((Vector.ofFn fun i : Fin m => Model.expand E[i] G false) ++ nullT)[m + k.1]'(by omega)
        = nullT[k.1] := by
      rw [Vector.getElem_append_right (by omega) (by omega)]
      simp only [Nat.add_sub_cancel_left]
    have h2 := congrArg (fun v : Vec ℂ n => v[j.1]) h
    refine h2.trans ?_
    apply Complex.ext
    · simp
    · simpa using hreal k j

/-! ### Flags -/

theorem allFin_iff {n : Nat} (p : Fin n → Bool) : allFin n p = true ↔ ∀ i, p i = true := by
  simp [allFin, List.mem_finRange]

theorem cabs_eq (z : ℂ) : cabs z = ‖z‖ := by
  simp only [cabs, copsRe, copsIm, ropsSqrt, Complex.norm_def, Complex.normSq_apply]

theorem rnz_iff (x : ℝ) : rnz x = true ↔ x ≠ 0 := by
  simp only [rnz, ropsLt, Bool.or_eq_true, decide_eq_true_eq]
  constructor
  · rintro (h | h)
    · exact ne_of_lt h
    · exact ne_of_gt h
  · intro h
    exact lt_or_gt_of_ne h

theorem rnz_false_iff (x : ℝ) : rnz x = false ↔ x = 0 := by
  rw [← not_iff_not, Bool.not_eq_false, rnz_iff]

theorem cnz_false_iff (z : ℂ) : cnz z = false ↔ z = 0 := by
  simp only [cnz, Bool.or_eq_false_iff, rnz_false_iff, copsRe, copsIm, Complex.ext_iff,
    Complex.zero_re, Complex.zero_im]

theorem tidyR_nz_false_iff (atol x : ℝ) (hatol : 0 ≤ atol) :
    rnz (tidyR atol x) = false ↔ |x| ≤ atol := by
  rw [rnz_false_iff]
  simp only [tidyR, ropsLe, ropsAbs, decide_eq_true_eq]
  constructor
  · intro h
    by_cases hx : |x| ≤ atol
    · exact hx
    · rw [if_neg hx] at h
      rw [h, abs_zero]; exact hatol
  · intro h
    rw [if_pos h]

theorem traceNz_false_iff (atol : ℝ) (z : ℂ) (hatol : 0 ≤ atol) :
    traceNz atol z = false ↔ |z.re| ≤ atol ∧ |z.im| ≤ atol := by
  simp only [traceNz, Bool.or_eq_false_iff, tidyR_nz_false_iff _ _ hatol, copsRe, copsIm]

/-- the Gram matrix entry of `isorthonorm` is the Hilbert–Schmidt product `tr(C_i† C_j)` -/
theorem gram_getElem {d N : Nat} (C : Vector (Mat ℂ d d) N) (i j : Fin N) :
    (gram C)[i][j] = trace ((Spec.basisOf C i)ᴴ * Spec.basisOf C j) := by
  simp only [gram, Mat.ofFn_get, fsum_eq_sum, copsConj]
  rw [sum_split]
  simp only [Fin.hi_flat, Fin.lo_flat, Matrix.trace, Matrix.diag_apply, Matrix.mul_apply,
    Matrix.conjTranspose_apply, Spec.basisOf, Mat.toMatrix_apply, RCLike.star_def]
  exact Finset.sum_comm

theorem trace_getElem {d N : Nat} (C : Vector (Mat ℂ d d) N) (k : Fin N) :
    (Gen.basis_Basis_istraceless_0_e1 C)[k] = trace (Spec.basisOf C k) := by
  simp only [Gen.basis_Basis_istraceless_0_e1, Fin.getElem_fin, Vector.getElem_ofFn, fsum_eq_sum,
    Matrix.trace, Matrix.diag_apply, Spec.basisOf, Mat.toMatrix_apply]

theorem filter_eq_nil_finRange {N : Nat} (p : Fin N → Bool)
    (h : (List.finRange N).filter p = []) (k : Fin N) : p k = false := by
  have := List.filter_eq_nil_iff.mp h k (List.mem_finRange k)
  simpa using this

theorem filter_eq_singleton_finRange {N : Nat} (p : Fin N → Bool) (k : Fin N)
    (h : (List.finRange N).filter p = [k]) : p k = true ∧ ∀ k', k' ≠ k → p k' = false := by
  have hk : k ∈ (List.finRange N).filter p := by rw [h]; exact List.mem_singleton.mpr rfl
  refine ⟨(List.mem_filter.mp hk).2, fun k' hne => ?_⟩
  by_contra hp
  have hp' : p k' = true := by simpa using hp
  have : k' ∈ (List.finRange N).filter p := List.mem_filter.mpr ⟨List.mem_finRange k', hp'⟩
  rw [h] at this
  exact hne (List.mem_singleton.mp this)

theorem identityTest_iff {d : Nat} (E : Mat ℂ d d) :
    identityTest E = true ↔
      (∀ a a' : Fin d, E[a][a] = E[a'][a']) ∧
      (∀ a b : Fin d, a ≠ b → E[a][b] = 0) := by
  simp only [identityTest, Bool.and_eq_true, allFin_iff, Bool.not_eq_true',
    cnz_false_iff, Bool.or_eq_true, decide_eq_true_eq, sub_eq_zero]
  constructor
  · rintro ⟨h1, h2⟩
    refine ⟨fun a a' => (h1 a).trans (h1 a').symm, fun a b hab => ?_⟩
    rcases h2 a b with h | h
    · exact absurd h hab
    · exact h
  · rintro ⟨h1, h2⟩
    refine ⟨fun a => ?_, fun a b => ?_⟩
    · have hd : 0 < d := Nat.lt_of_le_of_lt (Nat.zero_le _) a.2
      have : matAt E 0 0 = E[(⟨0, hd⟩ : Fin d)][(⟨0, hd⟩ : Fin d)] := by
        simp [matAt, hd]
      rw [this]; exact h1 a _
    · by_cases hab : a = b
      · exact Or.inl hab
      · exact Or.inr (h2 a b hab)

/-- the identity test accepts exactly the scalar multiples of the identity matrix -/
theorem identityTest_iff_smul_one {d : Nat} (E : Mat ℂ d d) :
    identityTest E = true ↔ ∃ c : ℂ, E.toMatrix = c • (1 : Matrix (Fin d) (Fin d) ℂ) := by
  rw [identityTest_iff]
  constructor
  · rintro ⟨h1, h2⟩
    rcases Nat.eq_zero_or_pos d with hd | hd
    · subst hd
      exact ⟨0, by ext a; exact a.elim0⟩
    · refine ⟨E[(⟨0, hd⟩ : Fin d)][(⟨0, hd⟩ : Fin d)], ?_⟩
      ext a b
      rw [Mat.toMatrix_apply, Matrix.smul_apply, Matrix.one_apply, smul_eq_mul]
      by_cases hab : a = b
      · subst hab; rw [if_pos rfl, mul_one]; exact h1 a _
      · rw [if_neg hab, mul_zero]; exact h2 a b hab
  · rintro ⟨c, hc⟩
    have he : ∀ a b : Fin d, E[a][b] = c * (if a = b then 1 else 0) := by
      intro a b
      have := congrFun (congrFun hc a) b
      rwa [Mat.toMatrix_apply, Matrix.smul_apply, Matrix.one_apply, smul_eq_mul] at this
    refine ⟨fun a a' => ?_, fun a b hab => ?_⟩
    · rw [he, he, if_pos rfl, if_pos rfl]
    · rw [he, if_neg hab, mul_zero]

end Model
end FFVerif
