/-
Helper lemmas for `FFVerif.Props.C08Integrand` (`integrand_rejects_iff`): the shape-level model
`Model.IntegrandShape.integrandShape` evaluated on arguments of the documented shapes.
-/
import Mathlib.Tactic.IntervalCases
import Mathlib.Tactic.SplitIfs
import FFVerif.Model.IntegrandShape

namespace FFVerif.Model.IntegrandShape
open FFVerif.Model

/-- what `parse_spectrum` returns when it returns -/
theorem parse_ok_cases {sh : List Nat} {m nΩ : Nat} {herm : Bool} {S : List Nat}
    (h : Validate.parseSpectrum sh m nΩ herm = .ok S) :
    S = [nΩ] ∨ S = [m, nΩ] ∨ S = [m, m, nΩ] := by
  unfold Validate.parseSpectrum at h
  simp only at h
  split at h
  · cases h
  split at h
  · cases h
  split at h
  · cases h
  rename_i c3
  cases h
  simp only [Validate.spectrumTarget, List.length_append, List.length_replicate, List.length_cons,
    List.length_nil, gt_iff_lt, not_lt] at c3
  have h2 : sh.length - 1 ≤ 2 := by omega
  unfold Validate.spectrumTarget
  generalize sh.length - 1 = n at h2 ⊢
  interval_cases n <;> simp [List.replicate]

theorem bdim_self (a : Nat) : bdim a a = some a := by simp [bdim]

theorem bdim_absorb {a b c : Nat} (h : bdim a b = some c) : bdim c a = some c := by
  unfold bdim at h ⊢
  split_ifs at h ⊢ <;> simp_all

theorem bdim_eq_none_iff (a b : Nat) : bdim a b = none ↔ a ≠ b ∧ a ≠ 1 ∧ b ≠ 1 := by
  unfold bdim
  split_ifs <;> simp_all

theorem bdim_eq_some_iff (a b c : Nat) :
    bdim a b = some c ↔ (a = b ∧ c = a) ∨ (a ≠ b ∧ a = 1 ∧ c = b) ∨ (a ≠ b ∧ a ≠ 1 ∧ b = 1 ∧ c = a) := by
  unfold bdim
  split_ifs <;> simp_all <;> omega

/-- the outcome of `_get_integrand` for one source of the documented shape, given the outcome `P` of
`parse_spectrum`, the verdict `iok` of the bounds check, the length `nO'` of the frequency axis of the
source and `len(omega)` -/
def docOutcome (P : Except Validate.Err (List Nat)) (iok : Bool) (nO' nΩ : Nat)
    (out : Bool → Nat → List Nat) : Except Err (List Nat) :=
  match P with
  | .error _ => .error .valueError
  | .ok S =>
    if iok then
      match bdim nO' nΩ with
      | some o => .ok (out (S.length == 3) o)
      | none => .error .valueError
    else .error .indexError

/-- simp set evaluating the model on literal shapes -/
macro "shape_simp" "[" ts:Lean.Parser.Tactic.simpLemma,* "]" : tactic =>
  `(tactic| simp [integrandShape, docOutcome, CM.sides, indexOps, indexDiag, indexFull, mulShape,
      moveBack, moveFront4, moveFront5, splitLast, einsum12, einsum3, bshape, bshapeRev, bdim_self,
      docCM, docFF, docOut, leadCM, leadFF, basisAxes, Except.map, $ts,*])

section cm
variable (wp : WhichPulse) (wf : WhichFF) (sh : List Nat) (herm : Bool) (nΩ : Nat) (idx : List Nat)
  (G nA N nO' : Nat)

theorem integrandShape_cm_doc_err (e : Validate.Err)
    (hP : Validate.parseSpectrum sh idx.length nΩ herm = .error e) :
    integrandShape ⟨sh, herm, nΩ, idx, wp, wf, some (.single (docCM wp G nA N nO')), none⟩
      = .error .valueError := by
  cases wp <;> cases wf <;> shape_simp [hP]

theorem integrandShape_cm_doc1 (hP : Validate.parseSpectrum sh idx.length nΩ herm = .ok [nΩ]) :
    integrandShape ⟨sh, herm, nΩ, idx, wp, wf, some (.single (docCM wp G nA N nO')), none⟩
      = docOutcome (.ok [nΩ]) (indexOK idx [nA] (leadCM wp G ++ [idx.length, N, nO'])) nO' nΩ
          (fun cross o => docOut wp wf cross G idx.length N N o) := by
  cases wp <;> cases wf <;> cases hb : bdim nO' nΩ <;>
    (first | shape_simp [hP, hb, bdim_absorb hb] | shape_simp [hP, hb]) <;>
    split_ifs <;>
    (first | shape_simp [hP, hb, bdim_absorb hb] | shape_simp [hP, hb] | skip) <;>
    (try simp_all)

theorem integrandShape_cm_doc2
    (hP : Validate.parseSpectrum sh idx.length nΩ herm = .ok [idx.length, nΩ]) :
    integrandShape ⟨sh, herm, nΩ, idx, wp, wf, some (.single (docCM wp G nA N nO')), none⟩
      = docOutcome (.ok [idx.length, nΩ]) (indexOK idx [nA] (leadCM wp G ++ [idx.length, N, nO']))
          nO' nΩ (fun cross o => docOut wp wf cross G idx.length N N o) := by
  cases wp <;> cases wf <;> cases hb : bdim nO' nΩ <;>
    (first | shape_simp [hP, hb, bdim_absorb hb] | shape_simp [hP, hb]) <;>
    split_ifs <;>
    (first | shape_simp [hP, hb, bdim_absorb hb] | shape_simp [hP, hb] | skip) <;>
    (try simp_all)

theorem integrandShape_cm_doc3
    (hP : Validate.parseSpectrum sh idx.length nΩ herm = .ok [idx.length, idx.length, nΩ]) :
    integrandShape ⟨sh, herm, nΩ, idx, wp, wf, some (.single (docCM wp G nA N nO')), none⟩
      = docOutcome (.ok [idx.length, idx.length, nΩ])
          (indexOK idx [nA] (leadCM wp G ++ [idx.length, N, nO'])) nO' nΩ
          (fun cross o => docOut wp wf cross G idx.length N N o) := by
  cases wp <;> cases wf <;> cases hb : bdim nO' nΩ <;>
    (first | shape_simp [hP, hb, bdim_absorb hb] | shape_simp [hP, hb]) <;>
    split_ifs <;>
    (first | shape_simp [hP, hb, bdim_absorb hb] | shape_simp [hP, hb] | skip) <;>
    (try simp_all)

theorem integrandShape_cm_doc :
    integrandShape ⟨sh, herm, nΩ, idx, wp, wf, some (.single (docCM wp G nA N nO')), none⟩
      = docOutcome (Validate.parseSpectrum sh idx.length nΩ herm)
          (indexOK idx [nA] (leadCM wp G ++ [idx.length, N, nO'])) nO' nΩ
          (fun cross o => docOut wp wf cross G idx.length N N o) := by
  cases hP : Validate.parseSpectrum sh idx.length nΩ herm with
  | error e => rw [integrandShape_cm_doc_err wp wf sh herm nΩ idx G nA N nO' e hP]; rfl
  | ok S =>
    rcases parse_ok_cases hP with rfl | rfl | rfl
    · exact integrandShape_cm_doc1 wp wf sh herm nΩ idx G nA N nO' hP
    · exact integrandShape_cm_doc2 wp wf sh herm nΩ idx G nA N nO' hP
    · exact integrandShape_cm_doc3 wp wf sh herm nΩ idx G nA N nO' hP

end cm

section ff
variable (wp : WhichPulse) (wf : WhichFF) (sh : List Nat) (herm : Bool) (nΩ : Nat) (idx : List Nat)
  (G nA Nl N nO' : Nat)

/-- the axes of the indexing result that replace the two noise-operator axes -/
def selAxes (cross : Bool) (m : Nat) : List Nat := if cross then [m, m] else [m]

theorem integrandShape_ff_doc_err (e : Validate.Err)
    (hP : Validate.parseSpectrum sh idx.length nΩ herm = .error e) :
    integrandShape ⟨sh, herm, nΩ, idx, wp, wf, none, some (docFF wp wf G nA Nl N nO')⟩
      = .error .valueError := by
  cases wp <;> cases wf <;> shape_simp [hP]

theorem integrandShape_ff_doc1 (hP : Validate.parseSpectrum sh idx.length nΩ herm = .ok [nΩ]) :
    integrandShape ⟨sh, herm, nΩ, idx, wp, wf, none, some (docFF wp wf G nA Nl N nO')⟩
      = docOutcome (.ok [nΩ])
          (indexOK idx [nA, nA] (leadFF wp G ++ basisAxes wf Nl N ++ selAxes false idx.length
            ++ [nO'])) nO' nΩ (fun cross o => docOut wp wf cross G idx.length Nl N o) := by
  cases wp <;> cases wf <;> cases hb : bdim nO' nΩ <;>
    shape_simp [hP, hb, selAxes] <;> split_ifs <;> (first | shape_simp [hP, hb, selAxes] | skip) <;>
    (try simp_all)

theorem integrandShape_ff_doc2
    (hP : Validate.parseSpectrum sh idx.length nΩ herm = .ok [idx.length, nΩ]) :
    integrandShape ⟨sh, herm, nΩ, idx, wp, wf, none, some (docFF wp wf G nA Nl N nO')⟩
      = docOutcome (.ok [idx.length, nΩ])
          (indexOK idx [nA, nA] (leadFF wp G ++ basisAxes wf Nl N ++ selAxes false idx.length
            ++ [nO'])) nO' nΩ (fun cross o => docOut wp wf cross G idx.length Nl N o) := by
  cases wp <;> cases wf <;> cases hb : bdim nO' nΩ <;>
    shape_simp [hP, hb, selAxes] <;> split_ifs <;> (first | shape_simp [hP, hb, selAxes] | skip) <;>
    (try simp_all)

theorem integrandShape_ff_doc3
    (hP : Validate.parseSpectrum sh idx.length nΩ herm = .ok [idx.length, idx.length, nΩ]) :
    integrandShape ⟨sh, herm, nΩ, idx, wp, wf, none, some (docFF wp wf G nA Nl N nO')⟩
      = docOutcome (.ok [idx.length, idx.length, nΩ])
          (indexOK idx [nA, nA] (leadFF wp G ++ basisAxes wf Nl N ++ selAxes true idx.length
            ++ [nO'])) nO' nΩ (fun cross o => docOut wp wf cross G idx.length Nl N o) := by
  cases wp <;> cases wf <;> cases hb : bdim nO' nΩ <;>
    shape_simp [hP, hb, selAxes] <;> split_ifs <;> (first | shape_simp [hP, hb, selAxes] | skip) <;>
    (try simp_all)

end ff

/-! ### reading `docOutcome` and `indexOK` -/

theorem docOutcome_error_iff (P : Except Validate.Err (List Nat)) (iok : Bool) (nO' nΩ : Nat)
    (out : Bool → Nat → List Nat) (e : Err) :
    docOutcome P iok nO' nΩ out = .error e ↔
      ((∃ e', P = .error e') ∧ e = .valueError) ∨
      ((∃ S, P = .ok S) ∧ iok = false ∧ e = .indexError) ∨
      ((∃ S, P = .ok S) ∧ iok = true ∧ bdim nO' nΩ = none ∧ e = .valueError) := by
  cases P with
  | error e' => simp [docOutcome, eq_comm]
  | ok S =>
    cases iok <;> cases hb : bdim nO' nΩ <;> simp [docOutcome, hb, eq_comm]

theorem docOutcome_ok_iff (P : Except Validate.Err (List Nat)) (iok : Bool) (nO' nΩ : Nat)
    (out : Bool → Nat → List Nat) (r : List Nat) :
    docOutcome P iok nO' nΩ out = .ok r ↔
      ∃ S o, P = .ok S ∧ iok = true ∧ bdim nO' nΩ = some o ∧ r = out (S.length == 3) o := by
  cases P with
  | error e' => simp [docOutcome]
  | ok S =>
    cases iok <;> cases hb : bdim nO' nΩ <;> simp [docOutcome, hb, eq_comm]

theorem foldl_mul_eq_zero (s : List Nat) (acc : Nat) :
    s.foldl (· * ·) acc = 0 ↔ acc = 0 ∨ 0 ∈ s := by
  induction s generalizing acc with
  | nil => simp
  | cons a s ih =>
    rw [List.foldl_cons, ih]
    simp [eq_comm, or_assoc]

theorem shapeSize_eq_zero_iff (s : List Nat) : shapeSize s = 0 ↔ 0 ∈ s := by
  unfold shapeSize
  rw [foldl_mul_eq_zero]
  simp

/-- the bounds check in words: every index is in range for every indexed axis, or the indexing
result has an axis of length 0 -/
theorem indexOK_iff (idx bounds result : List Nat) :
    indexOK idx bounds result = true ↔ (∀ n ∈ bounds, ∀ i ∈ idx, i < n) ∨ 0 ∈ result := by
  unfold indexOK
  simp [shapeSize_eq_zero_iff]

/-! ### neither / both sources -/

theorem integrandShape_neither (wp : WhichPulse) (wf : WhichFF) (sh : List Nat) (herm : Bool)
    (nΩ : Nat) (idx : List Nat) :
    integrandShape ⟨sh, herm, nΩ, idx, wp, wf, none, none⟩
      = match wf with
        | .generalized => .error .axisError
        | .fidelity =>
          match Validate.parseSpectrum sh idx.length nΩ herm with
          | .error _ => .error .valueError
          | .ok _ => .error .unboundLocalError := by
  cases wf
  · cases hP : Validate.parseSpectrum sh idx.length nΩ herm <;> simp [integrandShape, hP]
  · simp [integrandShape]

theorem integrandShape_both_fidelity (wp : WhichPulse) (sh : List Nat) (herm : Bool)
    (nΩ : Nat) (idx : List Nat) (c : CM) (f : List Nat) :
    integrandShape ⟨sh, herm, nΩ, idx, wp, .fidelity, some c, some f⟩
      = integrandShape ⟨sh, herm, nΩ, idx, wp, .fidelity, none, some f⟩ := by
  simp [integrandShape]


end FFVerif.Model.IntegrandShape
