/-
Helper lemmas for `Props/C16KronIns`: the einsum of `tensor_merge` / `single_tensor_insert`
(`rank = 2`).  Both build subscripts whose output consists of two slots listing the factors of
`ins` and `arr` in one common order `σ` (a permutation of `0..I+N-1`; `k < I` = factor `k` of `ins`,
`I + m` = factor `m` of `arr`); `slotLetter I N r k` is the letter of slot `r` of factor `k`.
`slotEinsum_isChain`: such an einsum of two Kronecker chains, reshaped, is the Kronecker chain of
the factor list `(A ++ L)` permuted by `σ`.
-/
import FFVerif.Lemmas.TensorNumTransAux

set_option linter.unusedSectionVars false
set_option linter.unusedSimpArgs false

namespace FFVerif.TensorNumAux
open FFVerif.Model.Tensor FFVerif.Model.TensorNum FFVerif.TensorAux

variable {α : Type} [CommSemiring α]

/-! ### list helpers -/

theorem idxOf_map_injOn {β : Type} [DecidableEq β] (f : Nat → β) (l : List Nat) (b : Nat)
    (h : ∀ a ∈ l, f a = f b → a = b) : (l.map f).idxOf (f b) = l.idxOf b := by
  induction l with
  | nil => rfl
  | cons a l ih =>
    by_cases hab : a = b
    · simp [List.idxOf_cons, hab]
    · have : f a ≠ f b := fun e => hab (h a (by simp) e)
      simp [List.idxOf_cons, hab, this, ih (fun a' ha' => h a' (by simp [ha']))]

theorem idxOf_range' (m c : Nat) (hc : c < m) : (List.range' 0 m).idxOf c = c := by
  have h := (List.nodup_range' (s := 0) (n := m) (step := 1)).idxOf_getElem c (by simpa using hc)
  simpa using h

theorem map_getD_range_take (u : List Nat) (I : Nat) (h : I ≤ u.length) :
    (List.range I).map (fun k => u.getD k 0) = u.take I := by
  apply List.ext_getElem
  · simp [h]
  · intro k h1 h2
    have hk : k < I := by simpa using h1
    simp [List.getD_eq_getElem?_getD, show k < u.length by omega]

theorem map_getD_range_drop (u : List Nat) (I N : Nat) (h : u.length = I + N) :
    (List.range N).map (fun m => u.getD (I + m) 0) = u.drop I := by
  apply List.ext_getElem
  · simp [h]
  · intro k h1 h2
    have hk : k < N := by simpa using h1
    simp [List.getD_eq_getElem?_getD, show I + k < u.length by omega]

theorem inBounds_append {d1 d2 x y : List Nat} (hx : x.length = d1.length)
    (h : inBounds (d1 ++ d2) (x ++ y) = true) :
    inBounds d1 x = true ∧ inBounds d2 y = true := by
  induction d1 generalizing x with
  | nil => cases x with
    | nil => simpa [inBounds] using h
    | cons a x => simp at hx
  | cons d ds ih =>
    cases x with
    | nil => simp at hx
    | cons a x =>
      simp only [List.cons_append, inBounds, Bool.and_eq_true, decide_eq_true_eq] at h ⊢
      have := ih (by simpa using hx) h.2
      exact ⟨⟨h.1, this.1⟩, this.2⟩

/-- reading a Kronecker chain at given row / column digits -/
theorem isChain_atD {T : NArr α} {L : List (NArr α)} (hT : IsChain T L) (x y : List Nat)
    (hx : inBounds (rowsOf L) x = true) (hy : inBounds (colsOf L) y = true) :
    T.at (mixedRadixEncode (rowsOf L ++ colsOf L) (x ++ y)) = kronEntry L x y := by
  rw [encode_append (inBounds_length hx), hT.entry _ _ (encode_lt hx) (encode_lt hy),
    decode_encode hx, decode_encode hy]

/-! ### the two-slot subscripts -/

/-- letter of slot `r` of factor `k` (`k < I`: factor `k` of `ins`, else factor `k - I` of `arr`)
in the subscripts of `tensor_merge` / `_tensor_insert_subscripts` for `rank = 2` -/
def slotLetter (I N r k : Nat) : Nat := if k < I then r * I + k else 2 * I + r * N + (k - I)

/-- the output subscripts with both slots in factor order `σ` -/
def slotOut (I N : Nat) (σ : List Nat) : List Nat :=
  σ.map (slotLetter I N 0) ++ σ.map (slotLetter I N 1)

theorem slotOut_length (I N : Nat) (σ : List Nat) : (slotOut I N σ).length = σ.length + σ.length := by
  simp [slotOut]

theorem slotOut_idxOf0 {I N : Nat} {σ : List Nat} (hσ : σ.Perm (List.range (I + N))) (k : Nat)
    (hk : k < I + N) : (slotOut I N σ).idxOf (slotLetter I N 0 k) = σ.idxOf k := by
  unfold slotOut
  rw [List.idxOf_append_of_mem (List.mem_map.2 ⟨k, perm_mem hσ hk, rfl⟩)]
  apply idxOf_map_injOn
  intro a ha e
  have := perm_lt hσ ha
  unfold slotLetter at e
  split_ifs at e <;> omega

theorem slotOut_idxOf1 {I N : Nat} {σ : List Nat} (hσ : σ.Perm (List.range (I + N))) (k : Nat)
    (hk : k < I + N) : (slotOut I N σ).idxOf (slotLetter I N 1 k) = (I + N) + σ.idxOf k := by
  unfold slotOut
  have hnot : slotLetter I N 1 k ∉ σ.map (slotLetter I N 0) := by
    intro h
    obtain ⟨a, ha, e⟩ := List.mem_map.1 h
    have := perm_lt hσ ha
    unfold slotLetter at e
    split_ifs at e <;> omega
  rw [List.idxOf_append_of_notMem hnot, List.length_map, perm_length hσ]
  congr 1
  apply idxOf_map_injOn
  intro a ha e
  have := perm_lt hσ ha
  unfold slotLetter at e
  split_ifs at e <;> omega

theorem slotOut_perm {I N : Nat} {σ : List Nat} (hσ : σ.Perm (List.range (I + N))) :
    (slotOut I N σ).Perm (List.range (I * 2 + N * 2)) := by
  have hnd := perm_nodup hσ
  apply perm_range_of_nodup
  · unfold slotOut
    rw [List.nodup_append]
    refine ⟨?_, ?_, ?_⟩
    · apply hnd.map_on
      intro a ha b hb e
      have := perm_lt hσ ha; have := perm_lt hσ hb
      unfold slotLetter at e
      split_ifs at e <;> omega
    · apply hnd.map_on
      intro a ha b hb e
      have := perm_lt hσ ha; have := perm_lt hσ hb
      unfold slotLetter at e
      split_ifs at e <;> omega
    · intro x hx y hy e
      obtain ⟨a, ha, rfl⟩ := List.mem_map.1 hx
      obtain ⟨b, hb, rfl⟩ := List.mem_map.1 hy
      have := perm_lt hσ ha; have := perm_lt hσ hb
      unfold slotLetter at e
      split_ifs at e <;> omega
  · intro x hx
    unfold slotOut at hx
    rw [List.mem_append] at hx
    rcases hx with hx | hx <;>
    · obtain ⟨a, ha, rfl⟩ := List.mem_map.1 hx
      have := perm_lt hσ ha
      unfold slotLetter
      split_ifs <;> omega
  · rw [slotOut_length, perm_length hσ]; omega

theorem slots_getD0 (ra ca rl cl : List Nat) (I N k : Nat) (hra : ra.length = I)
    (hca : ca.length = I) (hrl : rl.length = N) (hk : k < I + N) :
    (ra ++ ca ++ (rl ++ cl)).getD (slotLetter I N 0 k) 0 = (ra ++ rl).getD k 0 := by
  unfold slotLetter
  simp only [List.getD_eq_getElem?_getD, List.getElem?_append, List.length_append, hra, hca, hrl]
  split_ifs <;> first | omega | rfl | (congr 2; omega)

theorem slots_getD1 (ra ca rl cl : List Nat) (I N k : Nat) (hra : ra.length = I)
    (hca : ca.length = I) (hrl : rl.length = N) (hk : k < I + N) :
    (ra ++ ca ++ (rl ++ cl)).getD (slotLetter I N 1 k) 0 = (ca ++ cl).getD k 0 := by
  unfold slotLetter
  simp only [List.getD_eq_getElem?_getD, List.getElem?_append, List.length_append, hra, hca, hrl]
  split_ifs <;> first | omega | rfl | (congr 2; omega)

theorem sa_eq (I N : Nat) : List.range' 0 (I * 2)
    = (List.range I).map (slotLetter I N 0) ++ (List.range I).map (slotLetter I N 1) := by
  rw [← List.range_eq_range', show I * 2 = I + I by omega, List.range_add]
  congr 1
  · symm
    refine (List.map_congr_left ?_).trans (List.map_id _)
    intro k hk; have := List.mem_range.1 hk; simp [slotLetter, this]
  · apply List.map_congr_left
    intro k hk; have := List.mem_range.1 hk; simp [slotLetter, this]

theorem sb_eq (I N : Nat) : List.range' (I * 2) (N * 2)
    = (List.range N).map (fun m => slotLetter I N 0 (I + m))
      ++ (List.range N).map (fun m => slotLetter I N 1 (I + m)) := by
  rw [List.range'_eq_map_range, show N * 2 = N + N by omega, List.range_add, List.map_append,
    List.map_map]
  congr 1
  · apply List.map_congr_left
    intro k _; simp [slotLetter]; omega
  · apply List.map_congr_left
    intro k _; simp [slotLetter]; omega

/-! ### the two-slot einsum -/

/-- the buffer entries of the two-slot einsum -/
def slotFn (TA T : NArr α) (A L : List (NArr α)) (σ : List Nat) (k : Nat) : α :=
  let I := A.length
  let N := L.length
  let dg := mixedRadixDecode (gather σ (rowsOf (A ++ L)) ++ gather σ (colsOf (A ++ L))) k
  TA.at (mixedRadixEncode (rowsOf A ++ colsOf A)
    ((List.range' 0 (I * 2)).map fun c => dg.getD ((slotOut I N σ).idxOf c) 0)) *
  T.at (mixedRadixEncode (rowsOf L ++ colsOf L)
    ((List.range' (I * 2) (N * 2)).map fun c => dg.getD ((slotOut I N σ).idxOf c) 0))

theorem slotEinsum_eq (TA T : NArr α) (A L : List (NArr α)) (σ : List Nat)
    (hσ : σ.Perm (List.range (A.length + L.length))) :
    einsumOuter (List.range' 0 (A.length * 2)) (List.range' (A.length * 2) (L.length * 2))
      (slotOut A.length L.length σ) (⟨rowsOf A ++ colsOf A, TA.data⟩ : NArr α)
      ⟨rowsOf L ++ colsOf L, T.data⟩
    = .ok (NArr.ofFn (gather σ (rowsOf (A ++ L)) ++ gather σ (colsOf (A ++ L)))
        (slotFn TA T A L σ)) := by
  have hperm := slotOut_perm hσ
  have hsasb : List.range' 0 (A.length * 2) ++ List.range' (A.length * 2) (L.length * 2)
      = List.range' 0 (A.length * 2 + L.length * 2) := by
    have := List.range'_append_1 (s := 0) (m := A.length * 2) (n := L.length * 2)
    simpa using this
  rw [einsumOuter_ok _ _ _ _ _ (by simp; omega) (by simp; omega) (by
    rw [hsasb]
    simp only [Bool.and_eq_true, decide_eq_true_eq, List.all_eq_true]
    refine ⟨⟨⟨List.nodup_range', perm_nodup hperm⟩, ?_⟩, ?_⟩
    · intro x hx
      have := perm_lt hperm hx
      simp; omega
    · intro x hx
      have hx' : x < A.length * 2 + L.length * 2 := by simpa using hx
      exact perm_mem hperm hx')]
  have hshape : (slotOut A.length L.length σ).map (fun c =>
      ((⟨rowsOf A ++ colsOf A, TA.data⟩ : NArr α).shape
        ++ (⟨rowsOf L ++ colsOf L, T.data⟩ : NArr α).shape).getD
        ((List.range' 0 (A.length * 2) ++ List.range' (A.length * 2) (L.length * 2)).idxOf c) 0)
      = gather σ (rowsOf (A ++ L)) ++ gather σ (colsOf (A ++ L)) := by
    rw [hsasb]
    unfold slotOut gather
    simp only [List.map_append, List.map_map, rowsOf_append, colsOf_append]
    congr 1
    · apply List.map_congr_left
      intro k hk
      have hk' := perm_lt hσ hk
      have hlt : slotLetter A.length L.length 0 k < A.length * 2 + L.length * 2 := by
        unfold slotLetter; split_ifs <;> omega
      simp only [Function.comp]
      rw [idxOf_range' _ _ hlt]
      exact slots_getD0 _ _ _ _ _ _ k (by simp) (by simp) (by simp) hk'
    · apply List.map_congr_left
      intro k hk
      have hk' := perm_lt hσ hk
      have hlt : slotLetter A.length L.length 1 k < A.length * 2 + L.length * 2 := by
        unfold slotLetter; split_ifs <;> omega
      simp only [Function.comp]
      rw [idxOf_range' _ _ hlt]
      exact slots_getD1 _ _ _ _ _ _ k (by simp) (by simp) (by simp) hk'
  simp only [hshape]
  rfl

/-- the digits that the two-slot einsum reads from `ins` and `arr` -/
theorem slot_source_digits {I N : Nat} {σ : List Nat} (hσ : σ.Perm (List.range (I + N)))
    (x' y' : List Nat) (hx : x'.length = I + N) (hy : y'.length = I + N) :
    ((List.range' 0 (I * 2)).map fun c => (x' ++ y').getD ((slotOut I N σ).idxOf c) 0)
        = (scatterInv σ x').take I ++ (scatterInv σ y').take I ∧
    ((List.range' (I * 2) (N * 2)).map fun c => (x' ++ y').getD ((slotOut I N σ).idxOf c) 0)
        = (scatterInv σ x').drop I ++ (scatterInv σ y').drop I := by
  have hl := perm_length hσ
  have g0 : ∀ k, k < I + N →
      (x' ++ y').getD ((slotOut I N σ).idxOf (slotLetter I N 0 k)) 0 = (scatterInv σ x').getD k 0 := by
    intro k hk
    have hidx : σ.idxOf k < σ.length := List.idxOf_lt_length_of_mem (perm_mem hσ hk)
    rw [slotOut_idxOf0 hσ k hk, scatterInv_getD hσ x' k hk]
    simp [List.getD_eq_getElem?_getD, List.getElem?_append_left, hx, ← hl, hidx]
  have g1 : ∀ k, k < I + N →
      (x' ++ y').getD ((slotOut I N σ).idxOf (slotLetter I N 1 k)) 0 = (scatterInv σ y').getD k 0 := by
    intro k hk
    rw [slotOut_idxOf1 hσ k hk, scatterInv_getD hσ y' k hk]
    simp [List.getD_eq_getElem?_getD, List.getElem?_append_right, hx]
  constructor
  · rw [sa_eq I N, List.map_append, List.map_map, List.map_map,
      ← map_getD_range_take (scatterInv σ x') I (by simp [hl]),
      ← map_getD_range_take (scatterInv σ y') I (by simp [hl])]
    congr 1
    · apply List.map_congr_left
      intro k hk; have := List.mem_range.1 hk
      exact g0 k (by omega)
    · apply List.map_congr_left
      intro k hk; have := List.mem_range.1 hk
      exact g1 k (by omega)
  · rw [sb_eq I N, List.map_append, List.map_map, List.map_map,
      ← map_getD_range_drop (scatterInv σ x') I N (by simp [hl]),
      ← map_getD_range_drop (scatterInv σ y') I N (by simp [hl])]
    congr 1
    · apply List.map_congr_left
      intro k hk; have := List.mem_range.1 hk
      exact g0 (I + k) (by omega)
    · apply List.map_congr_left
      intro k hk; have := List.mem_range.1 hk
      exact g1 (I + k) (by omega)

/-- **the two-slot einsum of two Kronecker chains, reshaped to `outshape`, is the Kronecker chain of
`A ++ L` in the factor order `σ`** -/
theorem slotEinsum_isChain (TA T : NArr α) (A L : List (NArr α)) (σ : List Nat)
    (hA : IsChain TA A) (hL : IsChain T L) (hσ : σ.Perm (List.range (A.length + L.length))) :
    IsChain ⟨[prod (rowsOf A) * prod (rowsOf L), prod (colsOf A) * prod (colsOf L)],
      (NArr.ofFn (gather σ (rowsOf (A ++ L)) ++ gather σ (colsOf (A ++ L)))
        (slotFn TA T A L σ)).data⟩ (σ.map fun k => (A ++ L).getD k default) := by
  have hσ' : σ.Perm (List.range (A ++ L).length) := by simpa using hσ
  have hr : (rowsOf (A ++ L)).length = (A ++ L).length := rowsOf_length _
  have hc : (colsOf (A ++ L)).length = (A ++ L).length := colsOf_length _
  have hR := prod_gather hσ' hr
  have hC := prod_gather hσ' hc
  have hRp : prod (rowsOf (A ++ L)) = prod (rowsOf A) * prod (rowsOf L) := by
    rw [rowsOf_append, prod_append]
  have hCp : prod (colsOf (A ++ L)) = prod (colsOf A) * prod (colsOf L) := by
    rw [colsOf_append, prod_append]
  refine ⟨?_, ?_, ?_⟩
  · rw [rowsOf_permuted _ σ hσ', colsOf_permuted _ σ hσ', hR, hC, hRp, hCp]
  · rw [rowsOf_permuted _ σ hσ', colsOf_permuted _ σ hσ', ofFn_size, prod_append]
  · intro i j hi hj
    rw [rowsOf_permuted _ σ hσ'] at hi ⊢
    rw [colsOf_permuted _ σ hσ'] at hj ⊢
    set rows' := gather σ (rowsOf (A ++ L))
    set cols' := gather σ (colsOf (A ++ L))
    have hlt : i * prod cols' + j < prod (rows' ++ cols') := by
      rw [prod_append]
      calc i * prod cols' + j < i * prod cols' + prod cols' := by omega
        _ = (i + 1) * prod cols' := by ring
        _ ≤ prod rows' * prod cols' := Nat.mul_le_mul_right _ hi
    have hpos : 0 < prod cols' := by omega
    show NArr.at (NArr.ofFn (rows' ++ cols') _) _ = _
    rw [at_ofFn _ _ _ hlt]
    unfold slotFn
    have h1 : (i * prod cols' + j) / prod cols' = i := by
      rw [Nat.add_comm, Nat.add_mul_div_right _ _ hpos, Nat.div_eq_of_lt hj, Nat.zero_add]
    have h2 : (i * prod cols' + j) % prod cols' = j := by
      rw [Nat.add_comm, Nat.add_mul_mod_self_right, Nat.mod_eq_of_lt hj]
    simp only
    rw [decode_append hlt, h1, h2]
    set x' := mixedRadixDecode rows' i
    set y' := mixedRadixDecode cols' j
    have hl := perm_length hσ
    have hx' : x'.length = A.length + L.length := by
      simp [x', rows', decode_length, hl]
    have hy' : y'.length = A.length + L.length := by
      simp [y', cols', decode_length, hl]
    obtain ⟨e1, e2⟩ := slot_source_digits hσ x' y' hx' hy'
    rw [e1, e2]
    set u := scatterInv σ x'
    set v := scatterInv σ y'
    have hu : u.length = A.length + L.length := by simp [u, hl]
    have hv : v.length = A.length + L.length := by simp [v, hl]
    have hbu : inBounds (rowsOf A ++ rowsOf L) u = true := by
      rw [← rowsOf_append]
      exact inBounds_scatterInv hσ' hr (decode_inBounds hi)
    have hbv : inBounds (colsOf A ++ colsOf L) v = true := by
      rw [← colsOf_append]
      exact inBounds_scatterInv hσ' hc (decode_inBounds hj)
    rw [← List.take_append_drop A.length u] at hbu
    rw [← List.take_append_drop A.length v] at hbv
    obtain ⟨bu1, bu2⟩ := inBounds_append (by simp [hu]) hbu
    obtain ⟨bv1, bv2⟩ := inBounds_append (by simp [hv]) hbv
    rw [isChain_atD hA _ _ bu1 bv1, isChain_atD hL _ _ bu2 bv2,
      ← kronEntry_append _ _ _ _ _ _ (by simp [hu]) (by simp [hv]),
      List.take_append_drop, List.take_append_drop,
      ← kronEntry_perm (A ++ L) u v σ (A ++ L).length rfl (by simp [hu]) (by simp [hv]) hσ',
      gather_scatterInv hσ' x' (by simpa using hx'), gather_scatterInv hσ' y' (by simpa using hy')]

/-! ### `tensor_merge` -/

/-- factor order of a merge / multi-insert as a list of indices into `A ++ L` -/
def mergeSigma (I N : Nat) (np : List Nat) : List Nat :=
  insertSpec 0 (List.range' I N) (np.zip (List.range I))

theorem mergeSigma_perm (I N : Nat) (np : List Nat) (hl : np.length = I) (hadm : ∀ q ∈ np, q ≤ N) :
    (mergeSigma I N np).Perm (List.range (I + N)) := by
  unfold mergeSigma
  rw [← insertSlot_eq_spec _ _ (by
    intro x hx
    have := hadm x.1 (List.of_mem_zip (a := x.1) (b := x.2) hx).1
    simpa using this)]
  refine (insertLoop_perm 0 _ _).trans ?_
  refine ((List.Perm.refl _).append ((sortByPos_perm _).map _)).trans ?_
  rw [List.map_snd_zip (by simp [hl]), List.range_add, ← List.range'_eq_map_range]
  exact List.perm_append_comm

theorem slotLetter_range_arr (I N r : Nat) (hr : r < 2) :
    List.range' (I * 2 + r * N) N = (List.range' I N).map (slotLetter I N r) := by
  apply List.ext_getElem
  · simp
  · intro k h1 h2
    simp [slotLetter]; omega

theorem slotLetter_range_ins (I N r : Nat) :
    List.range' (r * I) I = (List.range I).map (slotLetter I N r) := by
  apply List.ext_getElem
  · simp
  · intro k h1 h2
    have : k < I := by simpa using h1
    simp [slotLetter, this]

theorem mergeOut_eq (I N : Nat) (np : List Nat) (hl : np.length = I) (hadm : ∀ q ∈ np, q ≤ N)
    (hlet : (I + N) * 2 ≤ 52) :
    (mergeOutSlots N I 2 np).flatten = slotOut I N (mergeSigma I N np) := by
  have slot : ∀ r, r < 2 →
      insertLoop 0 (slice (slice letters (I * 2) ((I + N) * 2)) (r * N) ((r + 1) * N))
        (mergeSorted np (slice (slice letters 0 (I * 2)) (r * I) ((r + 1) * I)) I)
      = (mergeSigma I N np).map (slotLetter I N r) := by
    intro r hr
    rw [merge_arrPart_eq I N 2 r hr hlet, merge_insPart_eq I 2 r hr (by omega),
      mergeSlot_eq_spec _ _ _ _ (by simp) (by simpa using hadm),
      slotLetter_range_arr I N r hr, slotLetter_range_ins I N r, List.zip_map_right]
    unfold mergeSigma
    rw [map_insertSpec]
    rfl
  unfold mergeOutSlots slotOut
  simp only [List.range_succ, List.range_zero, List.nil_append, List.map_cons, List.map_nil,
    List.cons_append, List.flatten_cons, List.flatten_nil, List.append_nil]
  rw [slot 0 (by omega), slot 1 (by omega)]

theorem mergeSigma_factors (A L : List (NArr α)) (np : List Nat) (hl : np.length = A.length) :
    (mergeSigma A.length L.length np).map (fun k => (A ++ L).getD k default)
      = insertSpec 0 L (np.zip A) := by
  unfold mergeSigma
  rw [map_insertSpec]
  have e1 : (List.range' A.length L.length).map (fun k => (A ++ L).getD k default) = L := by
    apply List.ext_getElem
    · simp
    · intro k h1 h2
      simp [List.getD_eq_getElem?_getD, List.getElem?_append_right, h2]
  have e2 : (np.zip (List.range A.length)).map (fun x => (x.1, (A ++ L).getD x.2 default))
      = np.zip A := by
    have e3 : A = (List.range A.length).map (fun k => (A ++ L).getD k default) := by
      apply List.ext_getElem
      · simp
      · intro k h1 h2
        simp [List.getD_eq_getElem?_getD, List.getElem?_append_left, h1]
    conv_rhs => rw [e3, List.zip_map_right]
    rfl
  rw [e1, e2]

theorem reshapeStar_chain {T : NArr α} {L : List (NArr α)} (hT : IsChain T L) (hne : L ≠ []) :
    reshapeStar T (rowsOf L ++ colsOf L) = .ok ⟨rowsOf L ++ colsOf L, T.data⟩ := by
  have hne' : rowsOf L ++ colsOf L ≠ [] := by
    intro h
    have := congrArg List.length h
    simp at this
    exact hne this
  simp only [reshapeStar, if_neg hne', reshape, hT.shape]
  have h : prod (rowsOf L ++ colsOf L) = prod [prod (rowsOf L), prod (colsOf L)] := by
    simp [prod_append, prod]
  exact if_pos h

/-- `tensor_merge` of two Kronecker chains -/
theorem tensorMergeNum_isChain (T TA : NArr α) (L A : List (NArr α)) (pos : List Int)
    (hL : IsChain T L) (hA : IsChain TA A) (hLne : L ≠ []) (hAne : A ≠ [])
    (hl : pos.length = A.length)
    (hadm : ∀ p ∈ pos, -(L.length : Int) ≤ p ∧ p ≤ L.length)
    (hlet : (A.length + L.length) * 2 ≤ 52) :
    ∃ T', tensorMergeNum T TA pos [rowsOf L, colsOf L] [rowsOf A, colsOf A] = .ok T' ∧
      IsChain T' (insertSpec 0 L ((pos.map (normNat L.length)).zip A)) := by
  set np := pos.map (normNat L.length) with hnp
  have hnpl : np.length = A.length := by simp [np, hl]
  have hnpadm : ∀ q ∈ np, q ≤ L.length := by
    intro q hq
    obtain ⟨p, hp, rfl⟩ := List.mem_map.1 hq
    exact normNat_le (hadm p hp)
  have hσ := mergeSigma_perm A.length L.length np hnpl hnpadm
  have hnorm : normAll L.length pos = .ok np := normAll_admissible hadm
  have hins : slice letters 0 (A.length * 2) = List.range' 0 (A.length * 2) := by
    rw [letters_eq, slice_range']; congr 1; omega
  have harr : slice letters (A.length * 2) ((A.length + L.length) * 2)
      = List.range' (A.length * 2) (L.length * 2) := by
    rw [letters_eq, slice_range']; congr 1 <;> omega
  have hout := mergeOut_eq A.length L.length np hnpl hnpadm hlet
  have hps : productShape TA.shape T.shape
      = .ok [prod (rowsOf A) * prod (rowsOf L), prod (colsOf A) * prod (colsOf L)] := by
    rw [hA.shape, hL.shape]; rfl
  have hE := slotEinsum_eq TA T A L (mergeSigma A.length L.length np) hσ
  have hchain := slotEinsum_isChain TA T A L _ hA hL hσ
  have hσ' : (mergeSigma A.length L.length np).Perm (List.range (A ++ L).length) := by
    simpa using hσ
  have hprod : prod [prod (rowsOf A) * prod (rowsOf L), prod (colsOf A) * prod (colsOf L)]
      = prod (gather (mergeSigma A.length L.length np) (rowsOf (A ++ L))
          ++ gather (mergeSigma A.length L.length np) (colsOf (A ++ L))) := by
    rw [prod_append, prod_gather hσ' (rowsOf_length _), prod_gather hσ' (colsOf_length _),
      rowsOf_append, colsOf_append, prod_append, prod_append]
    simp [prod]
  have key : tensorMergeNum T TA pos [rowsOf L, colsOf L] [rowsOf A, colsOf A]
      = .ok ⟨[prod (rowsOf A) * prod (rowsOf L), prod (colsOf A) * prod (colsOf L)],
        (NArr.ofFn (gather (mergeSigma A.length L.length np) (rowsOf (A ++ L))
          ++ gather (mergeSigma A.length L.length np) (colsOf (A ++ L)))
          (slotFn TA T A L (mergeSigma A.length L.length np))).data⟩ := by
    simp only [tensorMergeNum, parseDims, rowsOf_length, colsOf_length, bind, Except.bind, hl,
        hnorm, hins, harr, hout, hps, reshapeStar_chain hA hAne, reshapeStar_chain hL hLne, hE,
        reshape, ofFn_shape, if_true, ne_eq, not_true_eq_false, if_false]
    exact if_pos hprod
  refine ⟨_, key, ?_⟩
  rw [← mergeSigma_factors A L np hnpl]
  exact hchain

/-! ### `tensor_insert`, one factor -/

/-- factor order of one insertion at `q`: `0` = the inserted factor, `1 + m` = factor `m` of `arr` -/
def insertSigma (N q : Nat) : List Nat := insertAt (List.range' 1 N) q 0

theorem insertSigma_perm (N q : Nat) : (insertSigma N q).Perm (List.range (1 + N)) := by
  unfold insertSigma
  refine (insertAt_perm _ q 0).trans ?_
  rw [List.range_eq_range', Nat.add_comm, List.range'_succ]

theorem insertAt_range'_split (N q : Nat) (hq : q ≤ N) (a : Nat) :
    insertAt (List.range' 1 N) q a = List.range' 1 q ++ a :: List.range' (1 + q) (N - q) := by
  have h : List.range' 1 N = List.range' 1 q ++ List.range' (1 + q) (N - q) := by
    rw [List.range'_append_1]; congr 1; omega
  unfold insertAt
  rw [h, List.take_left' (by simp), List.drop_left' (by simp)]

theorem slotLetters_eq (N q r : Nat) (hq : q ≤ N) :
    slotLetters 2 N q r = (insertSigma N q).map (slotLetter 1 N r) := by
  unfold insertSigma slotLetters
  rw [insertAt_range'_split N q hq, List.map_append, List.map_cons]
  congr 1
  · apply List.ext_getElem
    · simp
    · intro k h1 h2
      simp [slotLetter]
  · congr 1
    · simp [slotLetter]
    · apply List.ext_getElem
      · simp
      · intro k h1 h2
        simp [slotLetter]; omega

theorem insertSubscripts_eq (N q : Nat) (hq : q ≤ N) (hlet : (N + 1) * 2 ≤ 52) :
    insertSubscripts N q 2
      = (List.range' 0 (1 * 2), List.range' (1 * 2) (N * 2), slotOut 1 N (insertSigma N q)) := by
  have h3 := insertSubscripts_out N q 2 hq hlet
  have h1 : (insertSubscripts N q 2).1 = List.range' 0 (1 * 2) := by
    show slice letters 0 2 = _
    rw [letters_eq, slice_range']; rfl
  have h2 : (insertSubscripts N q 2).2.1 = List.range' (1 * 2) (N * 2) := by
    show slice letters 2 ((N + 1) * 2) = _
    rw [letters_eq, slice_range']; congr 1; omega
  have h3' : (insertSubscripts N q 2).2.2 = slotOut 1 N (insertSigma N q) := by
    rw [h3]
    unfold slotOut
    simp only [List.range_succ, List.range_zero, List.nil_append, List.flatMap_cons,
      List.flatMap_nil, List.append_nil, List.cons_append]
    rw [slotLetters_eq N q 0 hq, slotLetters_eq N q 1 hq]
  rw [← h1, ← h2, ← h3']

theorem insertSigma_factors (X : NArr α) (L : List (NArr α)) (q : Nat) :
    (insertSigma L.length q).map (fun k => ([X] ++ L).getD k default) = insertAt L q X := by
  have e1 : (List.range' 1 L.length).map (fun k => ([X] ++ L).getD k default) = L := by
    apply List.ext_getElem
    · simp
    · intro k h1 h2
      simp [List.getD_eq_getElem?_getD, h2]
      rw [Nat.add_comm]; simp [h2]
  unfold insertSigma insertAt
  rw [List.map_append, List.map_cons, List.map_take, List.map_drop, e1]
  rfl

theorem divmodPos_admissible {N : Nat} {p : Int} (h : -(N : Int) ≤ p ∧ p ≤ N) :
    ∃ dv, divmodPos N p = .ok (dv, normNat N p) ∧ (dv = -1 ∨ dv = 0) := by
  have hn := normPos_admissible h
  unfold normPos at hn
  unfold divmodPos
  by_cases h1 : p = (N : Int)
  · rw [if_pos h1] at hn ⊢
    refine ⟨0, ?_, Or.inr rfl⟩
    injection hn with hn
    rw [← hn]
  · rw [if_neg h1] at hn ⊢
    by_cases h2 : N = 0
    · rw [if_pos h2] at hn; cases hn
    · rw [if_neg h2] at hn ⊢
      simp only at hn
      split at hn
      · rename_i hdv
        injection hn with hn
        exact ⟨_, by rw [hn], hdv⟩
      · cases hn

theorem match_ite_ok {β : Type} (c : Prop) [Decidable c] (hc : c) (v : β) :
    (match (if c then Except.ok v else Except.error "ValueError" : Except String β) with
      | .error e => (Except.error e : Except String β)
      | .ok v => .ok v) = Except.ok v := by
  rw [if_pos hc]

/-- `tensor_insert` of a single factor into a Kronecker chain -/
theorem tensorInsertNum_single_isChain (T X : NArr α) (L : List (NArr α)) (p : Int)
    (hL : IsChain T L) (hX : IsMat X) (hLne : L ≠ [])
    (hadm : -(L.length : Int) ≤ p ∧ p ≤ L.length) (hlet : (L.length + 1) * 2 ≤ 52) :
    ∃ T', tensorInsertNum T [X] [p] [rowsOf L, colsOf L] = .ok T' ∧
      IsChain T' (insertAt L (normNat L.length p) X) := by
  obtain ⟨dv, hdm, hdv⟩ := divmodPos_admissible hadm
  have hq : normNat L.length p ≤ L.length := normNat_le hadm
  set q := normNat L.length p
  obtain ⟨sh, dat⟩ := X
  have hlen2 : sh.length = 2 := hX.1
  match sh, hlen2, hX with
  | [a, b], _, hX =>
  have hXc : IsChain (⟨[a, b], dat⟩ : NArr α) [⟨[a, b], dat⟩] := isChain_single _ hX
  have hσ : (insertSigma L.length q).Perm
      (List.range ([(⟨[a, b], dat⟩ : NArr α)].length + L.length)) := insertSigma_perm L.length q
  have hE : einsumOuter (List.range' 0 (1 * 2)) (List.range' (1 * 2) (L.length * 2))
      (slotOut 1 L.length (insertSigma L.length q)) (⟨[a, b], dat⟩ : NArr α)
      ⟨rowsOf L ++ colsOf L, T.data⟩ = _ :=
    slotEinsum_eq ⟨[a, b], dat⟩ T [⟨[a, b], dat⟩] L (insertSigma L.length q) hσ
  have hchain := slotEinsum_isChain ⟨[a, b], dat⟩ T [⟨[a, b], dat⟩] L _ hXc hL hσ
  have hsh : [prod (rowsOf [(⟨[a, b], dat⟩ : NArr α)]) * prod (rowsOf L),
      prod (colsOf [(⟨[a, b], dat⟩ : NArr α)]) * prod (colsOf L)]
      = [a * prod (rowsOf L), b * prod (colsOf L)] := by
    simp [rowsOf, colsOf, nrows, ncols, prod]
  rw [hsh] at hchain
  have hps : productShape [a, b] T.shape = .ok [a * prod (rowsOf L), b * prod (colsOf L)] := by
    rw [hL.shape]; rfl
  have hσ' : (insertSigma L.length q).Perm
      (List.range ([(⟨[a, b], dat⟩ : NArr α)] ++ L).length) := by
    rw [List.length_append]; exact hσ
  have hprod : prod [a * prod (rowsOf L), b * prod (colsOf L)]
      = prod (gather (insertSigma L.length q) (rowsOf ([(⟨[a, b], dat⟩ : NArr α)] ++ L))
          ++ gather (insertSigma L.length q) (colsOf ([(⟨[a, b], dat⟩ : NArr α)] ++ L))) := by
    rw [prod_append, prod_gather hσ' (rowsOf_length _), prod_gather hσ' (colsOf_length _)]
    simp [rowsOf, colsOf, nrows, ncols, prod]
  have hsub := insertSubscripts_eq L.length q hq hlet
  have key : tensorInsertNum T [⟨[a, b], dat⟩] [p] [rowsOf L, colsOf L]
      = .ok ⟨[a * prod (rowsOf L), b * prod (colsOf L)],
        (NArr.ofFn (gather (insertSigma L.length q) (rowsOf ([(⟨[a, b], dat⟩ : NArr α)] ++ L))
          ++ gather (insertSigma L.length q) (colsOf ([(⟨[a, b], dat⟩ : NArr α)] ++ L)))
          (slotFn ⟨[a, b], dat⟩ T [⟨[a, b], dat⟩] L (insertSigma L.length q))).data⟩ := by
    have hdv' : ¬ (dv ≠ -1 ∧ dv ≠ 0) := by
      rcases hdv with h | h <;> simp [h]
    have hsingle : singleInsertNum T (⟨[a, b], dat⟩ : NArr α) (rowsOf L) (colsOf L) (q + 0)
        = .ok ⟨[a * prod (rowsOf L), b * prod (colsOf L)],
          (NArr.ofFn (gather (insertSigma L.length q)
              (rowsOf ([(⟨[a, b], dat⟩ : NArr α)] ++ L))
            ++ gather (insertSigma L.length q) (colsOf ([(⟨[a, b], dat⟩ : NArr α)] ++ L)))
            (slotFn ⟨[a, b], dat⟩ T [⟨[a, b], dat⟩] L (insertSigma L.length q))).data⟩ := by
      simp only [singleInsertNum, rowsOf_length, Nat.add_zero, hsub, hps, bind, Except.bind,
        reshapeStar_chain hL hLne, hE, reshape, ofFn_shape]
      exact if_pos hprod
    simp only [tensorInsertNum, parseDims, rowsOf_length, colsOf_length, bind, Except.bind,
      divmodAll, hdm, List.length_cons, List.length_nil, pure, Except.pure, List.zip_cons_cons,
      List.zip_nil_right, List.map_cons, List.map_nil, sortByPos, stableSort, insertBy,
      insertLoopNum, hdv', hsingle, if_true, if_false, ne_eq, not_true_eq_false,
      Nat.zero_add, Nat.reduceAdd, OfNat.ofNat_ne_zero, one_ne_zero, not_false_eq_true]
  refine ⟨_, key, ?_⟩
  rw [← insertSigma_factors]
  exact hchain

end FFVerif.TensorNumAux
