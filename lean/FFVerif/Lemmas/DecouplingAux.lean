/-
Helper lemmas for C19 (closed-form dephasing filter functions of dynamical-decoupling sequences).
-/
import Mathlib.Analysis.SpecialFunctions.Trigonometric.Basic
import Mathlib.Analysis.Complex.Exponential
import Mathlib.Algebra.BigOperators.Intervals
import Mathlib.Algebra.Ring.GeomSum
import FFVerif.Spec.Decoupling

namespace FFVerif.DecouplingAux
open Complex

/-- `‖e^{ix} - 1‖² = 4 sin²(x/2)` -/
theorem normSq_expI_sub_one (x : ℝ) :
    ‖Complex.exp (Complex.I * x) - 1‖ ^ 2 = 4 * Real.sin (x / 2) ^ 2 := by
  rw [mul_comm, Complex.exp_mul_I, Complex.sq_norm, Complex.normSq_apply]
  simp only [Complex.sub_re, Complex.add_re, Complex.mul_re, Complex.I_re, Complex.I_im,
    Complex.one_re, Complex.sub_im, Complex.add_im, Complex.mul_im, Complex.one_im,
    ← Complex.ofReal_cos, ← Complex.ofReal_sin, Complex.ofReal_re, Complex.ofReal_im]
  have h1 := Real.sin_sq_add_cos_sq x
  have h2 := Real.cos_sq (x / 2)
  rw [mul_div_cancel₀ x (two_ne_zero)] at h2
  have h3 := Real.sin_sq_add_cos_sq (x / 2)
  nlinarith

/-- `‖e^{ix} + 1‖² = 4 cos²(x/2)` -/
theorem normSq_expI_add_one (x : ℝ) :
    ‖Complex.exp (Complex.I * x) + 1‖ ^ 2 = 4 * Real.cos (x / 2) ^ 2 := by
  rw [mul_comm, Complex.exp_mul_I, Complex.sq_norm, Complex.normSq_apply]
  simp only [Complex.add_re, Complex.mul_re, Complex.I_re, Complex.I_im,
    Complex.one_re, Complex.add_im, Complex.mul_im, Complex.one_im,
    ← Complex.ofReal_cos, ← Complex.ofReal_sin, Complex.ofReal_re, Complex.ofReal_im]
  have h1 := Real.sin_sq_add_cos_sq x
  have h2 := Real.cos_sq (x / 2)
  rw [mul_div_cancel₀ x (two_ne_zero)] at h2
  nlinarith

/-- `‖1 - e^{ix}‖² = 4 sin²(x/2)` -/
theorem normSq_one_sub_expI (x : ℝ) :
    ‖1 - Complex.exp (Complex.I * x)‖ ^ 2 = 4 * Real.sin (x / 2) ^ 2 := by
  rw [← norm_neg, neg_sub, normSq_expI_sub_one]

/-- `‖1 + e^{ix}‖² = 4 cos²(x/2)` -/
theorem normSq_one_add_expI (x : ℝ) :
    ‖1 + Complex.exp (Complex.I * x)‖ ^ 2 = 4 * Real.cos (x / 2) ^ 2 := by
  rw [add_comm, normSq_expI_add_one]

/-- Summation by parts for the alternating telescoping sum defining `Spec.ddY`. -/
theorem alt_sum_by_parts (E : ℕ → ℂ) (n : ℕ) :
    ∑ j ∈ Finset.range (n + 1), (-1 : ℂ) ^ j * (E (j + 1) - E j) =
      (-1 : ℂ) ^ n * E (n + 1) - E 0 + 2 * ∑ j ∈ Finset.range n, (-1 : ℂ) ^ j * E (j + 1) := by
  induction n with
  | zero => simp
  | succ n ih =>
    rw [Finset.sum_range_succ, ih, Finset.sum_range_succ]
    ring

/-- `‖1 - (-1)^m e^{ix}‖²` is `4 sin²(x/2)` for even `m` and `4 cos²(x/2)` for odd `m`. -/
theorem normSq_one_sub_sign_expI (m : ℕ) (x : ℝ) :
    ‖1 - (-1 : ℂ) ^ m * Complex.exp (Complex.I * x)‖ ^ 2 =
      if Even m then 4 * Real.sin (x / 2) ^ 2 else 4 * Real.cos (x / 2) ^ 2 := by
  by_cases h : Even m
  · rw [if_pos h, h.neg_one_pow, one_mul, normSq_one_sub_expI]
  · rw [if_neg h, (Nat.not_even_iff_odd.mp h).neg_one_pow, neg_one_mul, sub_neg_eq_add,
      normSq_one_add_expI]

/-- PDD: with `q = e^{iz/(n+1)}`, `(1 + q) y = (q - 1)(1 - (-1)^{n+1} e^{iz})`. -/
theorem ddY_pdd (n : ℕ) (z : ℝ) :
    (1 + Complex.exp (Complex.I * ((z / (n + 1) : ℝ) : ℂ))) * Spec.ddY n (Spec.pddTimes n) z =
      (Complex.exp (Complex.I * ((z / (n + 1) : ℝ) : ℂ)) - 1) *
        (1 - (-1 : ℂ) ^ (n + 1) * Complex.exp (Complex.I * z)) := by
  set q := Complex.exp (Complex.I * ((z / (n + 1) : ℝ) : ℂ)) with hq
  have hpow : ∀ j : ℕ, Complex.exp (Complex.I * z * ((Spec.pddTimes n j : ℝ) : ℂ)) = q ^ j := by
    intro j
    rw [hq, ← Complex.exp_nat_mul]; congr 1
    simp only [Spec.pddTimes]; push_cast; ring
  have hqn : q ^ (n + 1) = Complex.exp (Complex.I * z) := by
    rw [hq, ← Complex.exp_nat_mul]; congr 1
    have : ((n : ℂ) + 1) ≠ 0 := by exact_mod_cast Nat.succ_ne_zero n
    push_cast; field_simp
  unfold Spec.ddY
  simp only [hpow]
  have hterm : ∀ j : ℕ, (-1 : ℂ) ^ j * (q ^ (j + 1) - q ^ j) = (q - 1) * (-q) ^ j := by
    intro j; rw [neg_pow q j]; ring
  simp only [hterm, ← Finset.mul_sum]
  rw [mul_left_comm, show (1 + q) = 1 - (-q) by ring, mul_neg_geom_sum, neg_pow, hqn]

/-- CPMG: with `a = e^{iz/(2n)}`, `(1 + a²) y = -(a - 1)² (1 - (-1)^n e^{iz})`. -/
theorem ddY_cpmg (n : ℕ) (hn : 1 ≤ n) (z : ℝ) :
    (1 + Complex.exp (Complex.I * ((z / n : ℝ) : ℂ))) * Spec.ddY n (Spec.cpmgTimes n) z =
      -(Complex.exp (Complex.I * ((z / (2 * n) : ℝ) : ℂ)) - 1) ^ 2 *
        (1 - (-1 : ℂ) ^ n * Complex.exp (Complex.I * z)) := by
  have hn0 : (n : ℂ) ≠ 0 := by exact_mod_cast (Nat.pos_iff_ne_zero.mp hn)
  set a := Complex.exp (Complex.I * ((z / (2 * n) : ℝ) : ℂ)) with ha
  have hq : Complex.exp (Complex.I * ((z / n : ℝ) : ℂ)) = a ^ 2 := by
    rw [ha, ← Complex.exp_nat_mul]; congr 1; push_cast; field_simp
  have hE0 : Complex.exp (Complex.I * z * ((Spec.cpmgTimes n 0 : ℝ) : ℂ)) = 1 := by
    simp [Spec.cpmgTimes]
  have hE1 : Complex.exp (Complex.I * z * ((Spec.cpmgTimes n (n + 1) : ℝ) : ℂ)) =
      Complex.exp (Complex.I * z) := by
    simp [Spec.cpmgTimes]
  have hEj : ∀ j ∈ Finset.range n,
      (-1 : ℂ) ^ j * Complex.exp (Complex.I * z * ((Spec.cpmgTimes n (j + 1) : ℝ) : ℂ)) =
        a * (-(a ^ 2)) ^ j := by
    intro j hj
    have hj' : j < n := Finset.mem_range.mp hj
    have h1 : j + 1 ≠ n + 1 := by omega
    have : Complex.exp (Complex.I * z * ((Spec.cpmgTimes n (j + 1) : ℝ) : ℂ)) = a ^ (2 * j + 1) := by
      rw [ha, ← Complex.exp_nat_mul]; congr 1
      simp only [Spec.cpmgTimes, if_neg (Nat.succ_ne_zero j), if_neg h1]
      push_cast; field_simp; ring
    rw [this, neg_pow (a ^ 2) j]; ring
  have hqn : (a ^ 2) ^ n = Complex.exp (Complex.I * z) := by
    rw [ha, ← pow_mul, ← Complex.exp_nat_mul]; congr 1; push_cast; field_simp
  have hE := alt_sum_by_parts (fun j => Complex.exp (Complex.I * z * ((Spec.cpmgTimes n j : ℝ) : ℂ))) n
  unfold Spec.ddY
  rw [hE, hE0, hE1, Finset.sum_congr rfl hEj, ← Finset.mul_sum, hq]
  have hg := mul_neg_geom_sum (-(a ^ 2)) n
  rw [neg_pow, hqn, sub_neg_eq_add] at hg
  linear_combination (2 * a) * hg

/-- list fold of additions is a `Finset.range` sum -/
theorem foldl_range_add {M : Type} [AddCommMonoid M] (f : ℕ → M) (m : ℕ) :
    (List.range m).foldl (fun acc j => acc + f j) 0 = ∑ j ∈ Finset.range m, f j := by
  induction m with
  | zero => simp
  | succ m ih => rw [List.range_succ, List.foldl_append, ih, Finset.sum_range_succ]; simp

/-- list fold of multiplications is a `Finset.range` product -/
theorem foldl_range_mul {M : Type} [CommMonoid M] (f : ℕ → M) (m : ℕ) :
    (List.range m).foldl (fun acc j => acc * f j) 1 = ∏ j ∈ Finset.range m, f j := by
  induction m with
  | zero => simp
  | succ m ih => rw [List.range_succ, List.foldl_append, ih, Finset.prod_range_succ]; simp

/-- summand of the shipped UDD sum: `(-1)^k e^{i z/2 cos(π k/(n+1))}`, `k ∈ ℤ` -/
noncomputable def uddTerm (n : ℕ) (z : ℝ) (k : ℤ) : ℂ :=
  (-1 : ℂ) ^ k * Complex.exp (Complex.I * ((z / 2 * Real.cos (Real.pi * k / (n + 1)) : ℝ) : ℂ))

/-- the summand is even in `k` -/
theorem uddTerm_neg (n : ℕ) (z : ℝ) (k : ℤ) : uddTerm n z (-k) = uddTerm n z k := by
  unfold uddTerm
  rw [zpow_neg, ← inv_zpow, inv_neg, inv_one]
  congr 4
  push_cast
  rw [mul_neg, neg_div, Real.cos_neg]

/-- the summand at a natural index, with a natural power of `-1` -/
theorem uddTerm_natCast (n : ℕ) (z : ℝ) (j : ℕ) :
    uddTerm n z (j : ℤ) =
      (-1 : ℂ) ^ j * Complex.exp (Complex.I * ((z / 2 * Real.cos (Real.pi * j / (n + 1)) : ℝ) : ℂ)) := by
  unfold uddTerm
  rw [zpow_natCast]
  push_cast
  rfl

/-- the shipped sum over `k = -n-1..n` folded onto `j = 0..n` using the symmetry `k ↦ -k` -/
theorem uddTerm_sum_reindex (n : ℕ) (z : ℝ) :
    ∑ j ∈ Finset.range (2 * n + 2), uddTerm n z ((j : ℤ) - (n : ℤ) - 1) =
      ∑ j ∈ Finset.range (n + 1), (uddTerm n z ((j + 1 : ℕ) : ℤ) + uddTerm n z (j : ℤ)) := by
  rw [show 2 * n + 2 = (n + 1) + (n + 1) by ring, Finset.sum_range_add, Finset.sum_add_distrib]
  congr 1
  · rw [← Finset.sum_range_reflect]
    apply Finset.sum_congr rfl
    intro j hj
    have hj' : j < n + 1 := Finset.mem_range.mp hj
    rw [← uddTerm_neg]
    congr 1
    have : ((n + 1 - 1 - j : ℕ) : ℤ) = (n : ℤ) - j := by omega
    rw [this]; push_cast; ring
  · apply Finset.sum_congr rfl
    intro j _
    congr 1
    push_cast; ring

/-- UDD: `y = -e^{iz/2} · conj(S)` with `S` the shipped sum. -/
theorem ddY_udd (n : ℕ) (z : ℝ) :
    Spec.ddY n (Spec.uddTimes n) z =
      -Complex.exp (Complex.I * ((z / 2 : ℝ) : ℂ)) *
        (starRingEnd ℂ) (∑ j ∈ Finset.range (2 * n + 2), uddTerm n z ((j : ℤ) - (n : ℤ) - 1)) := by
  rw [uddTerm_sum_reindex, map_sum, Finset.mul_sum]
  unfold Spec.ddY
  apply Finset.sum_congr rfl
  intro j _
  have hE : ∀ i : ℕ, Complex.exp (Complex.I * z * ((Spec.uddTimes n i : ℝ) : ℂ)) =
      Complex.exp (Complex.I * ((z / 2 : ℝ) : ℂ)) *
        (starRingEnd ℂ) (Complex.exp
          (Complex.I * ((z / 2 * Real.cos (Real.pi * i / (n + 1)) : ℝ) : ℂ))) := by
    intro i
    rw [← Complex.exp_conj, ← Complex.exp_add]
    congr 1
    have hn : ((n : ℝ) + 1) ≠ 0 := by exact_mod_cast Nat.succ_ne_zero n
    have h2 : 2 * (Real.pi * i / (2 * n + 2)) = Real.pi * i / (n + 1) := by field_simp
    simp only [Spec.uddTimes, map_mul, Complex.conj_I, Complex.conj_ofReal]
    rw [Real.sin_sq_eq_half_sub, h2]
    push_cast
    ring
  rw [uddTerm_natCast, uddTerm_natCast, hE, hE]
  simp only [map_add, map_mul, map_pow, map_neg, map_one]
  push_cast
  ring

/-- UDD: `‖y‖ = ‖S‖` since `‖e^{iz/2}‖ = 1` and conjugation preserves the norm -/
theorem norm_ddY_udd (n : ℕ) (z : ℝ) :
    ‖Spec.ddY n (Spec.uddTimes n) z‖ =
      ‖∑ j ∈ Finset.range (2 * n + 2), uddTerm n z ((j : ℤ) - (n : ℤ) - 1)‖ := by
  rw [ddY_udd, norm_mul, norm_neg, Complex.norm_conj, mul_comm Complex.I, Complex.norm_exp_ofReal_mul_I,
    one_mul]

end FFVerif.DecouplingAux
