/-
Helper lemmas for `Props/C16Kron`, transposition part: permuting the digits of a mixed-radix index
(`gather` / `scatter`), invariance of `kronEntry` under a simultaneous permutation of factors and
digits, and the source digits that `transposeNum` reads for the axes list of `tensor_transpose`.
-/
import FFVerif.Lemmas.TensorNumAux

set_option linter.unusedSectionVars false
set_option linter.unusedSimpArgs false

namespace FFVerif.TensorNumAux
open FFVerif.Model.Tensor FFVerif.Model.TensorNum FFVerif.TensorAux

variable {α : Type} [CommSemiring α]

/-! ### permutations of `0..n-1` given as lists -/

theorem perm_length {o : List Nat} {n : Nat} (hp : o.Perm (List.range n)) : o.length = n := by
  simpa using hp.length_eq

theorem perm_lt {o : List Nat} {n : Nat} (hp : o.Perm (List.range n)) {m : Nat} (hm : m ∈ o) :
    m < n := List.mem_range.1 (hp.mem_iff.1 hm)

theorem perm_mem {o : List Nat} {n : Nat} (hp : o.Perm (List.range n)) {m : Nat} (hm : m < n) :
    m ∈ o := hp.mem_iff.2 (List.mem_range.2 hm)

theorem perm_nodup {o : List Nat} {n : Nat} (hp : o.Perm (List.range n)) : o.Nodup :=
  hp.nodup_iff.2 List.nodup_range

/-- `new[k] = old[o[k]]` -/
def gather (o v : List Nat) : List Nat := o.map fun k => v.getD k 0

/-- the inverse: `old[m] = new[o.index(m)]` -/
def scatterInv (o v' : List Nat) : List Nat :=
  (List.range o.length).map fun m => v'.getD (o.idxOf m) 0

@[simp] theorem gather_length (o v : List Nat) : (gather o v).length = o.length := by
  simp [gather]
@[simp] theorem scatterInv_length (o v : List Nat) : (scatterInv o v).length = o.length := by
  simp [scatterInv]

theorem scatterInv_getD {o : List Nat} {n : Nat} (hp : o.Perm (List.range n)) (v' : List Nat)
    (m : Nat) (hm : m < n) : (scatterInv o v').getD m 0 = v'.getD (o.idxOf m) 0 := by
  have hl := perm_length hp
  simp [scatterInv, List.getD_eq_getElem?_getD, hl, hm]

theorem gather_scatterInv {o : List Nat} {n : Nat} (hp : o.Perm (List.range n)) (v' : List Nat)
    (hv : v'.length = n) : gather o (scatterInv o v') = v' := by
  have hl := perm_length hp
  apply List.ext_getElem
  · simp [hl, hv]
  · intro k h1 h2
    have hk : k < o.length := by simpa using h1
    have hlt : o[k] < n := perm_lt hp (List.getElem_mem hk)
    simp only [gather, List.getElem_map]
    rw [scatterInv_getD hp v' _ hlt, (perm_nodup hp).idxOf_getElem k hk]
    simp [List.getD_eq_getElem?_getD, h2]

theorem prod_perm {l l' : List Nat} (h : l.Perm l') : prod l = prod l' := by
  induction h with
  | nil => rfl
  | cons x _ ih => simp [prod, ih]
  | swap x y l => simp only [prod]; ring
  | trans _ _ ih1 ih2 => exact ih1.trans ih2

theorem prod_gather {o ds : List Nat} {n : Nat} (hp : o.Perm (List.range n)) (hd : ds.length = n) :
    prod (gather o ds) = prod ds :=
  prod_perm (map_getD_perm_range ds o n hd hp)

theorem inBounds_iff (ds xs : List Nat) :
    inBounds ds xs = true ↔ xs.length = ds.length ∧ ∀ k, k < ds.length → xs.getD k 0 < ds.getD k 0 := by
  induction ds generalizing xs with
  | nil => cases xs <;> simp [inBounds]
  | cons d ds ih =>
    cases xs with
    | nil => simp [inBounds]
    | cons x xs =>
      simp only [inBounds, Bool.and_eq_true, decide_eq_true_eq, ih, List.length_cons,
        Nat.add_right_cancel_iff]
      constructor
      · rintro ⟨h0, hl, h⟩
        refine ⟨hl, ?_⟩
        intro k hk
        cases k with
        | zero => simpa using h0
        | succ k => simpa using h k (by omega)
      · rintro ⟨hl, h⟩
        refine ⟨by simpa using h 0 (by omega), hl, ?_⟩
        intro k hk
        simpa using h (k + 1) (by omega)

theorem inBounds_scatterInv {o ds v' : List Nat} {n : Nat} (hp : o.Perm (List.range n))
    (hd : ds.length = n) (hb : inBounds (gather o ds) v' = true) :
    inBounds ds (scatterInv o v') = true := by
  have hl := perm_length hp
  rw [inBounds_iff] at hb ⊢
  obtain ⟨hlen, hb⟩ := hb
  refine ⟨by simp [hl, hd], ?_⟩
  intro m hm
  rw [hd] at hm
  rw [scatterInv_getD hp v' m hm]
  have hmem := perm_mem hp hm
  have hidx : o.idxOf m < o.length := List.idxOf_lt_length_of_mem hmem
  have := hb (o.idxOf m) (by simpa using hidx)
  have e : (gather o ds).getD (o.idxOf m) 0 = ds.getD m 0 := by
    simp [gather, List.getD_eq_getElem?_getD, hidx]
  rw [e] at this
  exact this

/-! ### `kronEntry` under a permutation -/

theorem zip3_eq_map_range (L : List (NArr α)) (x y : List Nat) (n : Nat) (hL : L.length = n)
    (hx : x.length = n) (hy : y.length = n) :
    L.zip (x.zip y) = (List.range n).map fun m => (L.getD m default, x.getD m 0, y.getD m 0) := by
  apply List.ext_getElem
  · simp [hL, hx, hy]
  · intro k h1 h2
    have hk : k < n := by simpa using h2
    simp [List.getD_eq_getElem?_getD, hL, hx, hy, hk]

/-- permuting factors and digits alike does not change `∏ₖ L[k][x[k], y[k]]` -/
theorem kronEntry_perm (L : List (NArr α)) (x y o : List Nat) (n : Nat) (hL : L.length = n)
    (hx : x.length = n) (hy : y.length = n) (hp : o.Perm (List.range n)) :
    kronEntry (o.map fun k => L.getD k default) (gather o x) (gather o y) = kronEntry L x y := by
  unfold kronEntry gather
  rw [zip3_eq_map_range L x y n hL hx hy, List.zip_map', List.zip_map', List.map_map, List.map_map]
  exact (hp.map _).prod_eq

/-! ### the digits read by `transposeNum` for the axes of `tensor_transpose` -/

theorem transposeAxes_two (n : Nat) (o : List Nat) :
    transposeAxes 2 n o = o ++ o.map (n + ·) := by
  simp [transposeAxes, List.range_succ]

theorem idxOf_map_add (o : List Nat) (n m : Nat) : (o.map (n + ·)).idxOf (n + m) = o.idxOf m := by
  induction o with
  | nil => rfl
  | cons a o ih =>
    by_cases h : a = m
    · simp [List.idxOf_cons, h]
    · simp [List.idxOf_cons, ih, h]

/-- source digits for `axes = o ++ o.map (n + ·)` and target digits `x' ++ y'` -/
theorem transpose_source_digits {o : List Nat} {n : Nat} (hp : o.Perm (List.range n))
    (x' y' : List Nat) (hx : x'.length = n) :
    ((List.range (n + n)).map fun m => (x' ++ y').getD ((o ++ o.map (n + ·)).idxOf m) 0)
      = scatterInv o x' ++ scatterInv o y' := by
  have hl := perm_length hp
  rw [List.range_add, List.map_append, List.map_map]
  congr 1
  · unfold scatterInv
    rw [hl]
    apply List.map_congr_left
    intro m hm
    have hm' : m < n := List.mem_range.1 hm
    have hmem := perm_mem hp hm'
    have hidx : o.idxOf m < o.length := List.idxOf_lt_length_of_mem hmem
    rw [List.idxOf_append_of_mem hmem]
    simp [List.getD_eq_getElem?_getD, List.getElem?_append_left, hx, ← hl, hidx]
  · unfold scatterInv
    rw [hl]
    apply List.map_congr_left
    intro m hm
    have hnot : n + m ∉ o := fun h => by have := perm_lt hp h; omega
    simp only [Function.comp]
    rw [List.idxOf_append_of_notMem hnot, idxOf_map_add, hl]
    simp [List.getD_eq_getElem?_getD, List.getElem?_append_right, hx]

/-! ### `tensor_transpose` -/

theorem transpose_outShape {o rows cols : List Nat} {n : Nat} (hp : o.Perm (List.range n))
    (hr : rows.length = n) :
    (o ++ o.map (n + ·)).map (fun a => (rows ++ cols).getD a 0) = gather o rows ++ gather o cols := by
  rw [List.map_append, List.map_map]
  unfold gather
  congr 1
  · apply List.map_congr_left
    intro a ha
    have := perm_lt hp ha
    simp [List.getD_eq_getElem?_getD, List.getElem?_append_left, hr, this]
  · apply List.map_congr_left
    intro a _
    simp [List.getD_eq_getElem?_getD, List.getElem?_append_right, hr]

/-- the buffer entries computed by `transposeNum` inside `tensor_transpose` -/
def transFn (T : NArr α) (rows cols o : List Nat) (n : Nat) (k : Nat) : α :=
  T.at (mixedRadixEncode (rows ++ cols) ((List.range (n + n)).map fun m =>
    (mixedRadixDecode (gather o rows ++ gather o cols) k).getD ((o ++ o.map (n + ·)).idxOf m) 0))

theorem tensorTransposeNum_eq (T : NArr α) (rows cols o : List Nat) (n : Nat) (hn : 0 < n)
    (hr : rows.length = n) (hc : cols.length = n) (hp : o.Perm (List.range n))
    (hs : T.shape = [prod rows, prod cols]) :
    tensorTransposeNum T (o.map Int.ofNat) [rows, cols]
      = .ok ⟨T.shape, (NArr.ofFn (gather o rows ++ gather o cols)
          (transFn T rows cols o n)).data⟩ := by
  have hne : rows ++ cols ≠ [] := by
    intro h; have := congrArg List.length h; simp [hr] at this; omega
  have hany : (o.map Int.ofNat).any (fun o => decide (o < 0)) = false := by
    simp
  have hmap : (o.map Int.ofNat).map Int.toNat = o := by
    rw [List.map_map]; exact (List.map_congr_left (fun a _ => by simp)).trans (List.map_id _)
  have hrange : orderIsRange o n = true := (orderIsRange_iff o n).2 hp
  have hvalid := transpose_valid_of_perm 2 n o hp
  have hresh : reshapeStar T (rows ++ cols) = .ok ⟨rows ++ cols, T.data⟩ := by
    simp only [reshapeStar, if_neg hne, reshape, hs]
    have h : prod (rows ++ cols) = prod [prod rows, prod cols] := by simp [prod_append, prod]
    exact if_pos h
  have htr : transposeNum (transposeAxes 2 n o) (⟨rows ++ cols, T.data⟩ : NArr α)
      = .ok (NArr.ofFn (gather o rows ++ gather o cols)
          (transFn T rows cols o n)) := by
    have hlen : (rows ++ cols).length = n + n := by simp [hr, hc]
    have hvalid' : validAxes (transposeAxes 2 n o) (n + n) = true := by rw [← Nat.two_mul]; exact hvalid
    unfold transposeNum
    simp only [hlen, hvalid', Bool.not_true, Bool.false_eq_true, if_false]
    rw [transposeAxes_two, transpose_outShape hp hr]
    rfl
  have hprod : prod [prod rows, prod cols] = prod (gather o rows ++ gather o cols) := by
    simp [prod_append, prod, prod_gather hp hr, prod_gather hp hc]
  simp only [tensorTransposeNum, parseDims, hr, hc, bind, Except.bind, hany, hmap, hs, hrange,
    hresh, htr, if_true, Bool.false_eq_true, if_false, Bool.not_true, List.length_cons,
    List.length_nil, ne_eq, not_true_eq_false, reshape, ofFn_shape]
  exact if_pos hprod

omit [CommSemiring α] in
theorem rowsOf_permuted (L : List (NArr α)) (o : List Nat) (hp : o.Perm (List.range L.length)) :
    rowsOf (o.map fun k => L.getD k default) = gather o (rowsOf L) := by
  unfold rowsOf gather
  rw [List.map_map]
  apply List.map_congr_left
  intro k hk
  have := perm_lt hp hk
  simp [List.getD_eq_getElem?_getD, this]

omit [CommSemiring α] in
theorem colsOf_permuted (L : List (NArr α)) (o : List Nat) (hp : o.Perm (List.range L.length)) :
    colsOf (o.map fun k => L.getD k default) = gather o (colsOf L) := by
  unfold colsOf gather
  rw [List.map_map]
  apply List.map_congr_left
  intro k hk
  have := perm_lt hp hk
  simp [List.getD_eq_getElem?_getD, this]

/-- **transposing the formed product gives the chain of the permuted factor list** -/
theorem tensorTransposeNum_isChain (T : NArr α) (L : List (NArr α)) (o : List Nat)
    (hne : L ≠ []) (hT : IsChain T L) (hp : o.Perm (List.range L.length)) :
    ∃ T', tensorTransposeNum T (o.map Int.ofNat) [rowsOf L, colsOf L] = .ok T' ∧
      IsChain T' (o.map fun k => L.getD k default) := by
  have hn : 0 < L.length := List.length_pos_iff.2 hne
  have hr := rowsOf_length L
  have hc := colsOf_length L
  refine ⟨_, tensorTransposeNum_eq T (rowsOf L) (colsOf L) o L.length hn hr hc hp hT.shape, ?_⟩
  have hR := prod_gather hp hr
  have hC := prod_gather hp hc
  refine ⟨?_, ?_, ?_⟩
  · rw [rowsOf_permuted L o hp, colsOf_permuted L o hp, hR, hC]; exact hT.shape
  · rw [rowsOf_permuted L o hp, colsOf_permuted L o hp, ofFn_size, prod_append]
  · intro i j hi hj
    rw [rowsOf_permuted L o hp] at hi ⊢
    rw [colsOf_permuted L o hp] at hj ⊢
    set rows' := gather o (rowsOf L)
    set cols' := gather o (colsOf L)
    have hlt : i * prod cols' + j < prod (rows' ++ cols') := by
      rw [prod_append]
      calc i * prod cols' + j < i * prod cols' + prod cols' := by omega
        _ = (i + 1) * prod cols' := by ring
        _ ≤ prod rows' * prod cols' := Nat.mul_le_mul_right _ hi
    have hpos : 0 < prod cols' := by omega
    show NArr.at (NArr.ofFn (rows' ++ cols') _) _ = _
    rw [at_ofFn _ _ _ hlt]
    unfold transFn
    have h1 : (i * prod cols' + j) / prod cols' = i := by
      rw [Nat.add_comm, Nat.add_mul_div_right _ _ hpos, Nat.div_eq_of_lt hj, Nat.zero_add]
    have h2 : (i * prod cols' + j) % prod cols' = j := by
      rw [Nat.add_comm, Nat.add_mul_mod_self_right, Nat.mod_eq_of_lt hj]
    rw [decode_append hlt, h1, h2]
    set x' := mixedRadixDecode rows' i
    set y' := mixedRadixDecode cols' j
    have hx' : x'.length = L.length := by simp [x', rows', decode_length, perm_length hp]
    have hy' : y'.length = L.length := by simp [y', cols', decode_length, perm_length hp]
    rw [transpose_source_digits hp x' y' hx']
    have hbx : inBounds (rowsOf L) (scatterInv o x') = true :=
      inBounds_scatterInv hp hr (decode_inBounds hi)
    have hby : inBounds (colsOf L) (scatterInv o y') = true :=
      inBounds_scatterInv hp hc (decode_inBounds hj)
    rw [encode_append (by simp [perm_length hp]),
      hT.entry _ _ (encode_lt hbx) (encode_lt hby), decode_encode hbx, decode_encode hby]
    rw [← kronEntry_perm L _ _ o L.length rfl (by simp [perm_length hp]) (by simp [perm_length hp])
      hp, gather_scatterInv hp x' hx', gather_scatterInv hp y' hy']

/-! ### `einsumOuter` in general (entry point for the insert / merge theorems, not yet used) -/

/-- semantics of `einsumOuter` whenever its side conditions hold: the buffer entry at flat index
`k` is the product of the operand entries addressed by the digits of `k` under the letters -/
theorem einsumOuter_ok (sa sb so : List Nat) (A B : NArr α) (ha : sa.length = A.shape.length)
    (hb : sb.length = B.shape.length)
    (hc : (decide (sa ++ sb).Nodup && decide so.Nodup && so.all (· ∈ sa ++ sb)
      && (sa ++ sb).all (· ∈ so)) = true) :
    einsumOuter sa sb so A B = .ok (NArr.ofFn
      (so.map fun c => (A.shape ++ B.shape).getD ((sa ++ sb).idxOf c) 0) fun k =>
        let dg := mixedRadixDecode
          (so.map fun c => (A.shape ++ B.shape).getD ((sa ++ sb).idxOf c) 0) k
        A.at (mixedRadixEncode A.shape (sa.map fun c => dg.getD (so.idxOf c) 0)) *
        B.at (mixedRadixEncode B.shape (sb.map fun c => dg.getD (so.idxOf c) 0))) := by
  unfold einsumOuter
  rw [if_neg (by simp [ha, hb]), hc]
  rfl

end FFVerif.TensorNumAux
