/-
Linearity of the per-segment numbers of the second-order filter function in the (scaled,
transformed) noise operators.  Helpers for `Props/C13Second.lean`.
-/
import FFVerif.Lemmas.SecondOrderInvAux

namespace FFVerif.SecondOrderInv
open FFVerif FFVerif.Model Complex Finset Matrix

variable {d : ℕ}

theorem nMat_coeff_linear (V B : Mat ℂ d d) (c s₁ s₂ : ℝ) :
    nMat V B (c * s₁ + s₂) = (c : ℂ) • nMat V B s₁ + nMat V B s₂ := by
  unfold nMat
  rw [smul_smul, ← add_smul]
  push_cast
  rfl

theorem nMat_coeff_mul (V B : Mat ℂ d d) (c s : ℝ) :
    nMat V B (c * s) = (c : ℂ) • nMat V B s := by
  unfold nMat
  rw [smul_smul]
  push_cast
  rfl

theorem nMat_oper_linear (V B B₁ B₂ : Mat ℂ d d) (c : ℂ) (s : ℝ)
    (h : B.toMatrix = c • B₁.toMatrix + B₂.toMatrix) :
    nMat V B s = c • nMat V B₁ s + nMat V B₂ s := by
  unfold nMat
  rw [h, Matrix.mul_add, Matrix.add_mul, Matrix.mul_smul, Matrix.smul_mul, smul_add, smul_comm]

theorem nMat_congr (V B B' : Mat ℂ d d) (s : ℝ) (h : B.toMatrix = B'.toMatrix) :
    nMat V B s = nMat V B' s := by
  unfold nMat; rw [h]

theorem segStep_linear_left (ev : Fin d → ℝ) (ω dt : ℝ) (c : ℂ)
    (N₁ N₂ Nb Tk Tl : Matrix (Fin d) (Fin d) ℂ) :
    segStep ev ω dt (c • N₁ + N₂) Nb Tk Tl
      = c * segStep ev ω dt N₁ Nb Tk Tl + segStep ev ω dt N₂ Nb Tk Tl := by
  unfold segStep
  simp only [Finset.mul_sum, ← Finset.sum_add_distrib]
  refine Finset.sum_congr rfl fun i _ => Finset.sum_congr rfl fun j _ =>
    Finset.sum_congr rfl fun m _ => Finset.sum_congr rfl fun n _ => ?_
  rw [Matrix.add_apply, Matrix.smul_apply, smul_eq_mul]
  ring

theorem segStep_linear_right (ev : Fin d → ℝ) (ω dt : ℝ) (c : ℂ)
    (Na N₁ N₂ Tk Tl : Matrix (Fin d) (Fin d) ℂ) :
    segStep ev ω dt Na (c • N₁ + N₂) Tk Tl
      = c * segStep ev ω dt Na N₁ Tk Tl + segStep ev ω dt Na N₂ Tk Tl := by
  unfold segStep
  simp only [Finset.mul_sum, ← Finset.sum_add_distrib]
  refine Finset.sum_congr rfl fun i _ => Finset.sum_congr rfl fun j _ =>
    Finset.sum_congr rfl fun m _ => Finset.sum_congr rfl fun n _ => ?_
  rw [Matrix.add_apply, Matrix.smul_apply, smul_eq_mul]
  ring

theorem segCm_linear (kind : MaskKind) (thr : ℝ) (ev : Fin d → ℝ) (ω dt t : ℝ) (c : ℂ)
    (N₁ N₂ T : Matrix (Fin d) (Fin d) ℂ) :
    segCm kind thr ev ω dt t (c • N₁ + N₂) T
      = c * segCm kind thr ev ω dt t N₁ T + segCm kind thr ev ω dt t N₂ T := by
  unfold segCm
  simp only [Finset.mul_sum, ← Finset.sum_add_distrib]
  refine Finset.sum_congr rfl fun m _ => Finset.sum_congr rfl fun n _ => ?_
  rw [Matrix.add_apply, Matrix.smul_apply, smul_eq_mul]
  ring

theorem segStep_smul (ev : Fin d → ℝ) (ω dt : ℝ) (c e : ℂ)
    (Na Nb Tk Tl : Matrix (Fin d) (Fin d) ℂ) :
    segStep ev ω dt (c • Na) (e • Nb) Tk Tl = c * e * segStep ev ω dt Na Nb Tk Tl := by
  unfold segStep
  simp only [Finset.mul_sum]
  refine Finset.sum_congr rfl fun i _ => Finset.sum_congr rfl fun j _ =>
    Finset.sum_congr rfl fun m _ => Finset.sum_congr rfl fun n _ => ?_
  rw [Matrix.smul_apply, Matrix.smul_apply, smul_eq_mul, smul_eq_mul]
  ring

theorem segCm_smul (kind : MaskKind) (thr : ℝ) (ev : Fin d → ℝ) (ω dt t : ℝ) (c : ℂ)
    (N T : Matrix (Fin d) (Fin d) ℂ) :
    segCm kind thr ev ω dt t (c • N) T = c * segCm kind thr ev ω dt t N T := by
  unfold segCm
  simp only [Finset.mul_sum]
  refine Finset.sum_congr rfl fun m _ => Finset.sum_congr rfl fun n _ => ?_
  rw [Matrix.smul_apply, smul_eq_mul]
  ring

end FFVerif.SecondOrderInv
