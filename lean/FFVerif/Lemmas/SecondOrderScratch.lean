/-
Entry-wise unfolding of the control-matrix model (one-segment call and full call) in the factor
order used by C10, Hermiticity of `transformByUnitary`, entry of `filterFunctionGen`.
Helpers for `Props/C10Asm.lean`.
-/
import FFVerif.Props.C01Seg
import FFVerif.Lemmas.SecondOrderAsm

namespace FFVerif.SecondOrderAsm
open FFVerif FFVerif.Model Complex Finset Matrix

theorem cm_single_entry {d nO nA nK : ℕ} (kind : MaskKind) (thr : ℝ) (ev : Vec ℝ d)
    (V Q : Mat ℂ d d) (omega : Vec ℝ nO) (basis : Vector (Mat ℂ d d) nK)
    (nOpers : Vector (Mat ℂ d d) nA) (c : Fin nA → ℝ) (dt t : ℝ)
    (a : Fin nA) (k : Fin nK) (o : Fin nO) :
    (controlMatrixFromScratch kind thr #v[ev] #v[V] #v[Q] omega basis nOpers
        (Vector.ofFn fun a => #v[c a]) #v[dt] #v[t])[a][k][o]
      = ∑ m : Fin d, ∑ n : Fin d,
          (CplxOps.expI (omega[o] * t) : ℂ)
            * (Mat.smul (CplxOps.ofReal (c a)) (transformByUnitary V nOpers[a]))[m][n]
            * (firstOrderEntry kind thr (omega[o] + (ev[m] - ev[n])) dt : ℂ)
            * (transformByUnitary (Mat.mul (Mat.adjoint Q) V) basis[k])[n][m] := by
  unfold controlMatrixFromScratch
  rw [vec_ofFn_get, vec_ofFn_get, vec_ofFn_get, fsum_eq_sum, Fin.sum_univ_one, vec_ofFn_get,
    C01.einsum_cm_entry]
  refine Finset.sum_congr rfl fun m _ => Finset.sum_congr rfl fun n _ => ?_
  rw [C01.firstOrderIntegral_get, vec_ofFn_get, vec_ofFn_get, vec_ofFn_get, vec_ofFn_get,
    vec_ofFn_get]
  rfl
theorem cm_multi_entry {nG d nO nA nK : ℕ} (kind : MaskKind) (thr : ℝ)
    (eigvals : Mat ℝ nG d) (eigvecs props : Vector (Mat ℂ d d) nG)
    (omega : Vec ℝ nO) (basis : Vector (Mat ℂ d d) nK) (nOpers : Vector (Mat ℂ d d) nA)
    (nCoeffs : Mat ℝ nA nG) (dt t : Vec ℝ nG) (a : Fin nA) (k : Fin nK) (o : Fin nO) :
    (controlMatrixFromScratch kind thr eigvals eigvecs props omega basis nOpers nCoeffs dt t)[a][k][o]
      = ∑ g : Fin nG, ∑ m : Fin d, ∑ n : Fin d,
          (CplxOps.expI (omega[o] * t[g]) : ℂ)
            * (Mat.smul (CplxOps.ofReal nCoeffs[a][g]) (transformByUnitary eigvecs[g] nOpers[a]))[m][n]
            * (firstOrderEntry kind thr (omega[o] + (eigvals[g][m] - eigvals[g][n])) dt[g] : ℂ)
            * (transformByUnitary (Mat.mul (Mat.adjoint props[g]) eigvecs[g]) basis[k])[n][m] := by
  unfold controlMatrixFromScratch
  rw [vec_ofFn_get, vec_ofFn_get, vec_ofFn_get, fsum_eq_sum]
  refine Finset.sum_congr rfl fun g _ => ?_
  rw [vec_ofFn_get, C01.einsum_cm_entry]
  refine Finset.sum_congr rfl fun m _ => Finset.sum_congr rfl fun n _ => ?_
  rw [C01.firstOrderIntegral_get, vec_ofFn_get, vec_ofFn_get, vec_ofFn_get, vec_ofFn_get]

theorem transformByUnitary_herm {d : ℕ} (U A : Mat ℂ d d)
    (hA : ∀ i j : Fin d, (starRingEnd ℂ) A[i][j] = A[j][i]) (i j : Fin d) :
    (starRingEnd ℂ) (transformByUnitary U A)[i][j] = (transformByUnitary U A)[j][i] := by
  rw [C01.transformByUnitary_getElem, C01.transformByUnitary_getElem]
  have hAH : A.toMatrixᴴ = A.toMatrix := by
    ext i j
    rw [Matrix.conjTranspose_apply, Mat.toMatrix_apply, Mat.toMatrix_apply, ← starRingEnd_apply,
      hA]
  have h : (U.toMatrixᴴ * A.toMatrix * U.toMatrix)ᴴ = U.toMatrixᴴ * A.toMatrix * U.toMatrix := by
    rw [Matrix.conjTranspose_mul, Matrix.conjTranspose_mul, Matrix.conjTranspose_conjTranspose,
      hAH, Matrix.mul_assoc]
  conv_rhs => rw [← h]
  rw [Matrix.conjTranspose_apply, starRingEnd_apply]

theorem ffgen_entry {nA nK nO : ℕ} (B : Ten3 ℂ nA nK nO) (a b : Fin nA) (k l : Fin nK)
    (o : Fin nO) :
    (filterFunctionGen B)[a][b][k][l][o] = (starRingEnd ℂ) B[a][k][o] * B[b][l][o] := by
  unfold filterFunctionGen Gen.numeric_calculate_filter_function_1
  rw [vec_ofFn_get, vec_ofFn_get, vec_ofFn_get, vec_ofFn_get, vec_ofFn_get, conj_map_get]

end FFVerif.SecondOrderAsm
