/-
Helper lemmas for the model of `_concatenate_Hamiltonian` (`FFVerif/Model/Pulse.lean`), used by
`Props/C03a` (and by the slicing round trip of `Props/C17`).  Core Lean only.
-/
import FFVerif.Lemmas.PulseAux

namespace FFVerif.Model.Pulse

/-! ### `dedup` -/

section Dedup
variable {α : Type} [BEq α] [LawfulBEq α]

theorem mem_dedup {x : α} {l : List α} : x ∈ dedup l ↔ x ∈ l := by
  induction l with
  | nil => simp [dedup]
  | cons a as ih =>
    simp only [dedup, List.mem_cons, List.mem_filter, ih, bne_iff_ne, ne_eq]
    constructor
    · rintro (h | ⟨h, _⟩)
      · exact Or.inl h
      · exact Or.inr h
    · rintro (h | h)
      · exact Or.inl h
      · by_cases hx : x = a
        · exact Or.inl hx
        · exact Or.inr ⟨h, hx⟩

theorem nodup_dedup (l : List α) : (dedup l).Nodup := by
  induction l with
  | nil => exact List.nodup_nil
  | cons a as ih =>
    simp only [dedup, List.nodup_cons, List.mem_filter, bne_self_eq_false, Bool.false_eq_true,
      and_false, not_false_eq_true, true_and]
    exact List.Pairwise.filter _ ih

/-- `dedup l` has at most one element iff all elements of `l` are equal -/
theorem length_dedup_le_one_iff (l : List α) :
    (dedup l).length ≤ 1 ↔ ∀ a ∈ l, ∀ b ∈ l, a = b := by
  constructor
  · intro h a ha b hb
    have ha' := mem_dedup.mpr ha
    have hb' := mem_dedup.mpr hb
    match hd : dedup l, h with
    | [], _ => rw [hd] at ha'; cases ha'
    | [x], _ =>
      rw [hd] at ha' hb'
      simp only [List.mem_singleton] at ha' hb'
      rw [ha', hb']
    | _ :: _ :: _, h => simp at h
  · intro h
    match hd : dedup l with
    | [] => simp
    | [x] => simp
    | x :: y :: r =>
      exfalso
      have hn := nodup_dedup l
      rw [hd] at hn
      have hx : x ∈ l := mem_dedup.mp (by rw [hd]; simp)
      have hy : y ∈ l := mem_dedup.mp (by rw [hd]; simp)
      have := h x hx y hy
      subst this
      simp at hn

end Dedup

/-- decidable equality of results (for `decide`d examples) -/
instance instDecidableEqExcept {ε α : Type} [DecidableEq ε] [DecidableEq α] :
    DecidableEq (Except ε α) := fun a b =>
  match a, b with
  | .ok x, .ok y => if h : x = y then isTrue (by rw [h]) else isFalse (fun e => h (by cases e; rfl))
  | .error x, .error y =>
    if h : x = y then isTrue (by rw [h]) else isFalse (fun e => h (by cases e; rfl))
  | .ok _, .error _ => isFalse (fun e => by cases e)
  | .error _, .ok _ => isFalse (fun e => by cases e)

/-! ### `mapM` in `Except` -/

section MapM
variable {α β ε : Type}

theorem mapM_ok_iff (f : α → Except ε β) (l : List α) (ys : List β) :
    l.mapM f = .ok ys ↔ l.map f = ys.map .ok := by
  induction l generalizing ys with
  | nil =>
    simp only [List.mapM_nil, List.map_nil]
    constructor
    · intro h; cases h; rfl
    · intro h
      cases ys with
      | nil => rfl
      | cons _ _ => simp at h
  | cons a as ih =>
    rw [List.mapM_cons]
    cases hfa : f a with
    | error e =>
      simp only [List.map_cons, hfa]
      constructor
      · intro h; cases h
      · intro h; cases ys with
        | nil => simp at h
        | cons y ys => simp at h
    | ok b =>
      cases hm : as.mapM f with
      | error e =>
        simp only [List.map_cons, hfa]
        constructor
        · intro h; cases h
        · intro h
          cases ys with
          | nil => simp at h
          | cons y ys =>
            simp only [List.map_cons, List.cons.injEq] at h
            have := (ih ys).mpr h.2
            rw [hm] at this; cases this
      | ok bs =>
        have hbs := (ih bs).mp hm
        simp only [List.map_cons, hfa]
        constructor
        · intro h
          have : ys = b :: bs := by cases h; rfl
          rw [this, List.map_cons, hbs]
        · intro h
          cases ys with
          | nil => simp at h
          | cons y ys =>
            simp only [List.map_cons, List.cons.injEq, Except.ok.injEq] at h
            have := (ih ys).mpr h.2
            rw [hm] at this
            cases this
            rw [h.1]; rfl

theorem mapM_error_mem (f : α → Except ε β) (l : List α) (e : ε) (h : l.mapM f = .error e) :
    ∃ x ∈ l, f x = .error e := by
  induction l with
  | nil => cases h
  | cons a as ih =>
    rw [List.mapM_cons] at h
    cases hfa : f a with
    | error e' =>
      rw [hfa] at h
      have : e' = e := by cases h; rfl
      exact ⟨a, List.mem_cons_self .., by rw [hfa, this]⟩
    | ok b =>
      rw [hfa] at h
      cases hm : as.mapM f with
      | error e' =>
        rw [hm] at h
        have : e' = e := by cases h; rfl
        obtain ⟨x, hx, hfx⟩ := ih (by rw [hm, this])
        exact ⟨x, List.mem_cons_of_mem _ hx, hfx⟩
      | ok bs => rw [hm] at h; cases h

theorem mapM_isOk_iff (f : α → Except ε β) (l : List α) :
    (∃ ys, l.mapM f = .ok ys) ↔ ∀ x ∈ l, ∃ y, f x = .ok y := by
  constructor
  · rintro ⟨ys, h⟩ x hx
    rw [mapM_ok_iff] at h
    have : f x ∈ ys.map .ok := by rw [← h]; exact List.mem_map.mpr ⟨x, hx, rfl⟩
    obtain ⟨y, _, hy⟩ := List.mem_map.mp this
    exact ⟨y, hy.symm⟩
  · intro h
    cases hm : l.mapM f with
    | ok ys => exact ⟨ys, rfl⟩
    | error e =>
      obtain ⟨x, hx, hfx⟩ := mapM_error_mem f l e hm
      obtain ⟨y, hy⟩ := h x hx
      rw [hy] at hfx; cases hfx

end MapM

/-! ### the flat list of tagged terms -/

section Flat

theorem mem_flatTagged {pulses : List (List Term)} {p : Nat} {t : Term} :
    (p, t) ∈ flatTagged pulses ↔ ∃ ts, pulses[p]? = some ts ∧ t ∈ ts := by
  unfold flatTagged
  simp only [List.mem_flatMap, List.mem_map, Prod.mk.injEq]
  constructor
  · rintro ⟨⟨ts, q⟩, hq, t', ht', rfl, rfl⟩
    exact ⟨ts, List.mem_zipIdx_iff_getElem?.mp hq, ht'⟩
  · rintro ⟨ts, hp, ht⟩
    exact ⟨(ts, p), List.mem_zipIdx_iff_getElem?.mpr hp, t, ht, rfl, rfl⟩

theorem mem_flatTagged_of_mem {pulses : List (List Term)} {ts : List Term} {t : Term}
    (hts : ts ∈ pulses) (ht : t ∈ ts) : ∃ p, (p, t) ∈ flatTagged pulses ∧ pulses[p]? = some ts := by
  obtain ⟨p, hp, rfl⟩ := List.getElem_of_mem hts
  exact ⟨p, mem_flatTagged.mpr ⟨_, List.getElem?_eq_getElem hp, ht⟩, List.getElem?_eq_getElem hp⟩

/-- all operators occurring in the inputs -/
def allOps (pulses : List (List Term)) : List Nat := (flatTagged pulses).map (·.2.op)

theorem mem_allOps {pulses : List (List Term)} {u : Nat} :
    u ∈ allOps pulses ↔ ∃ ts ∈ pulses, ∃ t ∈ ts, t.op = u := by
  unfold allOps
  simp only [List.mem_map]
  constructor
  · rintro ⟨⟨p, t⟩, h, rfl⟩
    obtain ⟨ts, hp, ht⟩ := mem_flatTagged.mp h
    exact ⟨ts, List.mem_of_getElem? hp, t, ht, rfl⟩
  · rintro ⟨ts, hts, t, ht, rfl⟩
    obtain ⟨p, hp, _⟩ := mem_flatTagged_of_mem hts ht
    exact ⟨(p, t), hp, rfl⟩

/-- no operator appears under two different identifiers -/
def NoOpClash (pulses : List (List Term)) : Prop :=
  ∀ p t q t', (p, t) ∈ flatTagged pulses → (q, t') ∈ flatTagged pulses → t.op = t'.op → t.id = t'.id

theorem mem_idsOfOp {flat : List (Nat × Term)} {u : Nat} {s : String} :
    s ∈ idsOfOp flat u ↔ ∃ x ∈ flat, x.2.op = u ∧ x.2.id = s := by
  unfold idsOfOp
  rw [mem_dedup]
  simp only [List.mem_map, List.mem_filter, beq_iff_eq]
  constructor
  · rintro ⟨x, ⟨hx, hu⟩, rfl⟩; exact ⟨x, hx, hu, rfl⟩
  · rintro ⟨x, hx, hu, rfl⟩; exact ⟨x, ⟨hx, hu⟩, rfl⟩

theorem mem_opsOfId {flat : List (Nat × Term)} {s : String} {u : Nat} :
    u ∈ opsOfId flat s ↔ ∃ x ∈ flat, x.2.id = s ∧ x.2.op = u := by
  unfold opsOfId
  rw [mem_dedup]
  simp only [List.mem_map, List.mem_filter, beq_iff_eq]
  constructor
  · rintro ⟨x, ⟨hx, hu⟩, rfl⟩; exact ⟨x, hx, hu, rfl⟩
  · rintro ⟨x, hx, hu, rfl⟩; exact ⟨x, ⟨hx, hu⟩, rfl⟩

/-- the first `ValueError` check: some operator has more than one identifier -/
theorem opClash_check_iff (pulses : List (List Term)) (uniq : List Nat)
    (hu : ∀ u, u ∈ uniq ↔ u ∈ allOps pulses) :
    (uniq.any fun u => decide ((idsOfOp (flatTagged pulses) u).length > 1)) = true ↔
      ¬ NoOpClash pulses := by
  rw [List.any_eq_true]
  constructor
  · rintro ⟨u, _, hlen⟩ hno
    simp only [decide_eq_true_eq] at hlen
    have : (idsOfOp (flatTagged pulses) u).length ≤ 1 := by
      unfold idsOfOp
      rw [length_dedup_le_one_iff]
      intro a ha b hb
      simp only [List.mem_map, List.mem_filter, beq_iff_eq] at ha hb
      obtain ⟨x, ⟨hx, hxu⟩, rfl⟩ := ha
      obtain ⟨y, ⟨hy, hyu⟩, rfl⟩ := hb
      exact hno x.1 x.2 y.1 y.2 hx hy (by rw [hxu, hyu])
    omega
  · intro hno
    unfold NoOpClash at hno
    simp only [Classical.not_forall] at hno
    obtain ⟨p, t, q, t', h1, h2, hop, hid⟩ := hno
    refine ⟨t.op, (hu _).mpr (List.mem_map.mpr ⟨(p, t), h1, rfl⟩), ?_⟩
    simp only [decide_eq_true_eq]
    apply Nat.lt_of_not_le
    intro hle
    unfold idsOfOp at hle
    rw [length_dedup_le_one_iff] at hle
    apply hid
    apply hle
    · exact List.mem_map.mpr ⟨(p, t), List.mem_filter.mpr ⟨h1, by simp⟩, rfl⟩
    · exact List.mem_map.mpr ⟨(q, t'), List.mem_filter.mpr ⟨h2, by simp [hop]⟩, rfl⟩

end Flat

/-! ### blocks of a concatenated row -/

section Blocks

theorem flatMap_block {α β : Type} (f : α → List β) :
    ∀ (L : List α) (p : Nat) (h : p < L.length),
      ((L.flatMap f).drop ((L.take p).map fun a => (f a).length).sum).take (f L[p]).length
        = f L[p] := by
  intro L
  induction L with
  | nil => intro p h; simp at h
  | cons a L ih =>
    intro p h
    cases p with
    | zero => simp
    | succ p =>
      have := ih p (by simpa using h)
      simp only [List.take_succ_cons, List.map_cons, List.sum_cons, List.flatMap_cons,
        List.drop_length_add_append, List.getElem_cons_succ]
      exact this

/-- index of the first segment of pulse `p` in the concatenation (`seg_idx[p]`) -/
def segOffset (pulses : List (List Term)) (p : Nat) : Nat := ((pulses.take p).map segCount).sum

/-- the slice `row[seg_idx[p] : seg_idx[p+1]]` of a concatenated row -/
def blockAt (pulses : List (List Term)) (p : Nat) (row : List Int) : List Int :=
  (row.drop (segOffset pulses p)).take (segCount (pulses.getD p []))

/-- every coefficient row of a pulse has the pulse's number of segments -/
def Rect (pulses : List (List Term)) : Prop := ∀ ts ∈ pulses, ∀ t ∈ ts, t.coeffs.length = segCount ts

/-- identifiers are unique within each pulse (class invariant) -/
def IdsUnique (pulses : List (List Term)) : Prop := ∀ ts ∈ pulses, (ts.map (·.id)).Nodup

theorem length_blockOf (u : Nat) (ts : List Term) (h : ∀ t ∈ ts, t.coeffs.length = segCount ts) :
    (blockOf u ts).length = segCount ts := by
  unfold blockOf
  split
  · rename_i t ht
    simp [h t (List.mem_of_find?_eq_some ht)]
  · simp

/-- `seg_idx = list(accumulate([0] + n_dt))`: its `p`-th entry is `segOffset` -/
theorem accumulate_getElem? (ns : List Nat) (acc p : Nat) (h : p < ns.length) :
    (accumulate ns acc)[p]? = some (acc + (ns.take (p + 1)).sum) := by
  induction ns generalizing acc p with
  | nil => simp at h
  | cons n ns ih =>
    cases p with
    | zero => simp [accumulate]
    | succ p =>
      simp only [accumulate, List.getElem?_cons_succ, List.take_succ_cons, List.sum_cons]
      rw [ih (acc + n) p (by simpa using h)]
      simp [Nat.add_assoc]

theorem segIdx_eq_segOffset (pulses : List (List Term)) (p : Nat) (h : p ≤ pulses.length) :
    (accumulate (0 :: pulses.map segCount))[p]? = some (segOffset pulses p) := by
  rw [accumulate_getElem? _ _ _ (by simpa using Nat.lt_succ_of_le h)]
  simp [segOffset, List.map_take]

/-- `bisect(pulse_idx, ind)` is the position of the pulse containing the flat index `ind` -/
theorem bisect_pulseIdx (pulses : List (List Term)) (p j : Nat) (hp : p < pulses.length)
    (hj : j < (pulses[p]).length) :
    bisect (accumulate (pulses.map List.length)) (((pulses.take p).map List.length).sum + j) = p := by
  have key : ∀ (L : List (List Term)) (acc p j : Nat) (hp : p < L.length), j < (L[p]).length →
      bisect (accumulate (L.map List.length) acc) (acc + ((L.take p).map List.length).sum + j) = p := by
    intro L
    induction L with
    | nil => intro acc p j hp; simp at hp
    | cons ts L ih =>
      intro acc p j hp hj
      cases p with
      | zero =>
        simp only [List.map_cons, accumulate, bisect, List.take_zero, List.map_nil, List.sum_nil,
          Nat.add_zero, List.getElem_cons_zero] at *
        rw [List.countP_cons_of_neg (by simp; omega)]
        rw [List.countP_eq_zero]
        intro x hx
        have hge : ∀ (l : List Nat) (a : Nat), ∀ y ∈ accumulate l a, a ≤ y := by
          intro l
          induction l with
          | nil => intro a y hy; simp [accumulate] at hy
          | cons n l ih' =>
            intro a y hy
            simp only [accumulate, List.mem_cons] at hy
            rcases hy with rfl | hy
            · omega
            · have := ih' (a + n) y hy; omega
        have := hge _ _ x hx
        simp; omega
      | succ p =>
        simp only [List.map_cons, accumulate, bisect, List.take_succ_cons, List.sum_cons,
          List.getElem_cons_succ] at *
        rw [List.countP_cons_of_pos (by simp; omega)]
        have := ih (acc + ts.length) p j (by simpa using hp) hj
        unfold bisect at this
        rw [show acc + (ts.length + ((L.take p).map List.length).sum) + j
            = acc + ts.length + ((L.take p).map List.length).sum + j by omega, this]
  have := key pulses 0 p j hp hj
  simpa using this

end Blocks

/-! ### `fillRow` -/

section FillRow

/-- the non-`nan` entries of a row -/
def present (row : List (Option Int)) : List Int := row.filterMap id

theorem fillRow_control (row : List (Option Int)) :
    fillRow .control row = .ok (row.map (·.getD 0)) := rfl

theorem map_getD_of_all_some (row : List (Option Int)) (h : row.any (·.isNone) = false) (x y : Int) :
    row.map (·.getD x) = row.map (·.getD y) := by
  apply List.map_congr_left
  intro o ho
  have := (List.any_eq_false.mp h) o ho
  cases o <;> simp_all

/-- result of a successful `fillRow`: every `nan` replaced by one value `x`; for the control
Hamiltonian `x = 0`, for the noise Hamiltonian all present entries equal `x` whenever something
had to be filled. -/
theorem fillRow_ok_spec (kind : Kind) (row : List (Option Int)) (r : List Int)
    (h : fillRow kind row = .ok r) :
    ∃ x, r = row.map (·.getD x) ∧ (kind = .control → x = 0) ∧
      (kind = .noise → row.any (·.isNone) = true → ∀ v ∈ present row, v = x) := by
  cases kind with
  | control =>
    rw [fillRow_control] at h
    exact ⟨0, (by cases h; rfl), (fun _ => rfl), (fun hk => by cases hk)⟩
  | noise =>
    unfold fillRow at h
    simp only at h
    split at h
    · rename_i hany
      split at h
      · cases h
      · rename_i x xs hx
        split at h
        · rename_i hall
          refine ⟨x, (by cases h; rfl), (fun hk => by cases hk), fun _ _ v hv => ?_⟩
          unfold present at hv
          rw [hx] at hv
          have := (List.all_eq_true.mp hall) v hv
          simpa using this
        · cases h
    · rename_i hany
      refine ⟨0, (by cases h; rfl), (fun hk => by cases hk), fun _ hc => ?_⟩
      exact absurd hc hany

theorem fillRow_error (kind : Kind) (row : List (Option Int)) (e : String)
    (h : fillRow kind row = .error e) :
    kind = .noise ∧ row.any (·.isNone) = true ∧
      ((e = "IndexError" ∧ present row = []) ∨
       (e = "ValueError" ∧ ∃ v ∈ present row, ∃ w ∈ present row, v ≠ w)) := by
  cases kind with
  | control => rw [fillRow_control] at h; cases h
  | noise =>
    unfold fillRow at h
    simp only at h
    split at h
    · rename_i hany
      refine ⟨rfl, hany, ?_⟩
      split at h
      · rename_i hx
        exact Or.inl ⟨by cases h; rfl, hx⟩
      · rename_i x xs hx
        split at h
        · cases h
        · rename_i hall
          refine Or.inr ⟨by cases h; rfl, ?_⟩
          have : ¬ ∀ v ∈ (x :: xs), (v == x) = true := by
            intro hc; exact hall (List.all_eq_true.mpr hc)
          simp only [Classical.not_forall] at this
          obtain ⟨v, hv, hne⟩ := this
          unfold present
          rw [hx]
          exact ⟨v, hv, x, List.mem_cons_self .., by simpa using hne⟩
    · cases h

theorem fillRow_noise_ok_of (row : List (Option Int))
    (h : row.any (·.isNone) = false ∨ (present row ≠ [] ∧ ∀ v ∈ present row, ∀ w ∈ present row, v = w)) :
    ∃ r, fillRow .noise row = .ok r := by
  cases hr : fillRow .noise row with
  | ok r => exact ⟨r, rfl⟩
  | error e =>
    obtain ⟨_, hany, hc⟩ := fillRow_error _ _ _ hr
    rcases h with h | ⟨hne, hall⟩
    · rw [h] at hany; cases hany
    · rcases hc with ⟨_, hp⟩ | ⟨_, v, hv, w, hw, hvw⟩
      · exact absurd hp hne
      · exact absurd (hall v hv w hw) hvw

end FillRow

/-! ### `_concatenate_Hamiltonian`: characterisation of success -/

section Concat

/-- the identifier mappings returned by `_concatenate_Hamiltonian` -/
def mappingOf (pulses : List (List Term)) : List (List (String × String)) :=
  pulses.map fun ts => ts.map fun t => (t.id, newId (flatTagged pulses) t.op)

/-- the order in which `np.unique` presents the distinct operators is a permutation of them -/
def VisitOk (pulses : List (List Term)) (visit : List Nat → List Nat) : Prop :=
  (visit (dedup (allOps pulses))).Perm (dedup (allOps pulses))

theorem visitOk_id (pulses : List (List Term)) : VisitOk pulses id := List.Perm.refl _

theorem mem_visit {pulses : List (List Term)} {visit : List Nat → List Nat}
    (hv : VisitOk pulses visit) (u : Nat) :
    u ∈ visit (dedup (allOps pulses)) ↔ u ∈ allOps pulses := by
  rw [hv.mem_iff, mem_dedup]

theorem rowOf_ok_iff (pulses : List (List Term)) (flat : List (Nat × Term)) (kind : Kind) (u : Nat)
    (r : Term) : rowOf pulses flat kind u = .ok r ↔
      fillRow kind (rawRow pulses u) = .ok r.coeffs ∧ r.op = u ∧ r.id = newId flat u := by
  unfold rowOf
  cases h : fillRow kind (rawRow pulses u) with
  | error e => simp
  | ok c =>
    simp only [Except.ok.injEq]
    constructor
    · rintro rfl; exact ⟨rfl, rfl, rfl⟩
    · rintro ⟨h1, h2, h3⟩; cases r; simp_all

theorem rowOf_error_iff (pulses : List (List Term)) (flat : List (Nat × Term)) (kind : Kind) (u : Nat)
    (e : String) : rowOf pulses flat kind u = .error e ↔ fillRow kind (rawRow pulses u) = .error e := by
  unfold rowOf
  cases h : fillRow kind (rawRow pulses u) <;> simp

theorem map_ok_inv {α β ε : Type} (f : α → Except ε β) (g : β → α) (P : β → Prop)
    (hf : ∀ x y, f x = .ok y → g y = x ∧ P y) :
    ∀ (l : List α) (ys : List β), l.map f = ys.map .ok → ys.map g = l ∧ ∀ y ∈ ys, P y := by
  intro l
  induction l with
  | nil =>
    intro ys h
    cases ys with
    | nil => simp
    | cons _ _ => simp at h
  | cons a l ih =>
    intro ys h
    cases ys with
    | nil => simp at h
    | cons y ys =>
      simp only [List.map_cons, List.cons.injEq] at h
      obtain ⟨h1, h2⟩ := ih ys h.2
      obtain ⟨h3, h4⟩ := hf a y h.1
      refine ⟨by simp [h3, h1], ?_⟩
      intro z hz
      rcases List.mem_cons.mp hz with rfl | hz
      · exact h4
      · exact h2 z hz

/-- what a successful `_concatenate_Hamiltonian` returns -/
theorem concat_ok_iff (pulses : List (List Term)) (kind : Kind) (visit : List Nat → List Nat)
    (hv : VisitOk pulses visit) (H : List Term) (M : List (List (String × String))) :
    concatHamiltonian pulses kind visit = .ok (H, M) ↔
      NoOpClash pulses ∧ M = mappingOf pulses ∧
      ∃ rows, (visit (dedup (allOps pulses))).map (rowOf pulses (flatTagged pulses) kind)
          = rows.map .ok ∧ H = sortBy (·.id) rows := by
  have hcheck := opClash_check_iff pulses (visit (dedup (allOps pulses))) (mem_visit hv)
  unfold concatHamiltonian
  simp only
  show (if ((visit (dedup (allOps pulses))).any fun u =>
      decide ((idsOfOp (flatTagged pulses) u).length > 1)) = true then Except.error "ValueError"
    else match (visit (dedup (allOps pulses))).mapM (rowOf pulses (flatTagged pulses) kind) with
      | .error e => .error e
      | .ok rows => .ok (sortBy (·.id) rows, mappingOf pulses)) = .ok (H, M) ↔ _
  by_cases hc : ((visit (dedup (allOps pulses))).any fun u =>
      decide ((idsOfOp (flatTagged pulses) u).length > 1)) = true
  · rw [if_pos hc]
    have := hcheck.mp hc
    constructor
    · intro h; cases h
    · rintro ⟨hno, _⟩; exact absurd hno this
  · rw [if_neg hc]
    have hno : NoOpClash pulses := Classical.not_not.mp (fun h => hc (hcheck.mpr h))
    cases hm : (visit (dedup (allOps pulses))).mapM (rowOf pulses (flatTagged pulses) kind) with
    | error e =>
      constructor
      · intro h; cases h
      · rintro ⟨_, _, rows, hrows, _⟩
        have := (mapM_ok_iff _ _ rows).mpr hrows
        rw [hm] at this; cases this
    | ok rows =>
      have hrows := (mapM_ok_iff _ _ rows).mp hm
      constructor
      · intro h
        have h1 : H = sortBy (·.id) rows := by cases h; rfl
        have h2 : M = mappingOf pulses := by cases h; rfl
        exact ⟨hno, h2, rows, hrows, h1⟩
      · rintro ⟨_, h2, rows', hrows', h1⟩
        have : rows' = rows := by
          have := hrows'.symm.trans hrows
          exact (List.map_inj_right (fun a b h => by cases h; rfl)).mp this
        rw [h1, h2, this]

theorem concat_error_iff (pulses : List (List Term)) (kind : Kind) (visit : List Nat → List Nat)
    (hv : VisitOk pulses visit) (e : String) :
    concatHamiltonian pulses kind visit = .error e ↔
      (¬ NoOpClash pulses ∧ e = "ValueError") ∨
      (NoOpClash pulses ∧
        (visit (dedup (allOps pulses))).mapM (rowOf pulses (flatTagged pulses) kind) = .error e) := by
  have hcheck := opClash_check_iff pulses (visit (dedup (allOps pulses))) (mem_visit hv)
  unfold concatHamiltonian
  simp only
  show (if ((visit (dedup (allOps pulses))).any fun u =>
      decide ((idsOfOp (flatTagged pulses) u).length > 1)) = true then Except.error "ValueError"
    else match (visit (dedup (allOps pulses))).mapM (rowOf pulses (flatTagged pulses) kind) with
      | .error e => .error e
      | .ok rows => .ok (sortBy (·.id) rows, mappingOf pulses)) = .error e ↔ _
  by_cases hc : ((visit (dedup (allOps pulses))).any fun u =>
      decide ((idsOfOp (flatTagged pulses) u).length > 1)) = true
  · rw [if_pos hc]
    have := hcheck.mp hc
    constructor
    · intro h; exact Or.inl ⟨this, by cases h; rfl⟩
    · rintro (⟨_, rfl⟩ | ⟨hno, _⟩)
      · rfl
      · exact absurd hno this
  · rw [if_neg hc]
    have hno : NoOpClash pulses := Classical.not_not.mp (fun h => hc (hcheck.mpr h))
    cases hm : (visit (dedup (allOps pulses))).mapM (rowOf pulses (flatTagged pulses) kind) with
    | error e' =>
      constructor
      · intro h; exact Or.inr ⟨hno, by cases h; rfl⟩
      · rintro (⟨h, _⟩ | ⟨_, h⟩)
        · exact absurd hno h
        · cases h; rfl
    | ok rows =>
      constructor
      · intro h; cases h
      · rintro (⟨h, _⟩ | ⟨_, h⟩)
        · exact absurd hno h
        · cases h

/-- consequences of success that do not mention the visiting order -/
theorem concat_ok_rows (pulses : List (List Term)) (kind : Kind) (visit : List Nat → List Nat)
    (hv : VisitOk pulses visit) (H : List Term) (M : List (List (String × String)))
    (h : concatHamiltonian pulses kind visit = .ok (H, M)) :
    NoOpClash pulses ∧ M = mappingOf pulses ∧ (H.map (·.op)).Perm (dedup (allOps pulses)) ∧
    ∀ r ∈ H, r.id = newId (flatTagged pulses) r.op ∧
      fillRow kind (rawRow pulses r.op) = .ok r.coeffs := by
  obtain ⟨hno, hM, rows, hrows, hH⟩ := (concat_ok_iff pulses kind visit hv H M).mp h
  obtain ⟨h1, h2⟩ := map_ok_inv (rowOf pulses (flatTagged pulses) kind) (·.op)
    (fun r => r.id = newId (flatTagged pulses) r.op ∧
      fillRow kind (rawRow pulses r.op) = .ok r.coeffs)
    (fun u r hr => by
      obtain ⟨a, b, c⟩ := (rowOf_ok_iff _ _ _ _ _).mp hr
      exact ⟨b, by rw [b]; exact ⟨c, a⟩⟩) _ _ hrows
  refine ⟨hno, hM, ?_, ?_⟩
  · rw [hH]
    exact ((sortBy_perm _ rows).map _).trans (by rw [h1]; exact hv)
  · intro r hr
    rw [hH] at hr
    exact h2 r ((mem_sortBy _).mp hr)

/-! #### where the coefficients go -/

theorem idOfOp_eq {pulses : List (List Term)} (hno : NoOpClash pulses) {p : Nat} {t : Term}
    (h : (p, t) ∈ flatTagged pulses) : idOfOp (flatTagged pulses) t.op = t.id := by
  unfold idOfOp
  cases hf : (flatTagged pulses).find? (fun x => x.2.op == t.op) with
  | none =>
    have := (List.find?_eq_none.mp hf) (p, t) h
    simp at this
  | some x =>
    have hx := List.mem_of_find?_eq_some hf
    have hop := List.find?_some hf
    simp only [beq_iff_eq] at hop
    simp only [Option.map_some, Option.getD_some]
    exact hno x.1 x.2 p t hx h hop

theorem firstPulse_spec {pulses : List (List Term)} {p : Nat} {t : Term}
    (h : (p, t) ∈ flatTagged pulses) :
    ∃ t', (firstPulse (flatTagged pulses) t.op, t') ∈ flatTagged pulses ∧ t'.op = t.op := by
  unfold firstPulse
  cases hf : (flatTagged pulses).find? (fun x => x.2.op == t.op) with
  | none =>
    have := (List.find?_eq_none.mp hf) (p, t) h
    simp at this
  | some x =>
    have hx := List.mem_of_find?_eq_some hf
    have hop := List.find?_some hf
    simp only [beq_iff_eq] at hop
    exact ⟨x.2, by simpa using hx, hop⟩

theorem find_term {pulses : List (List Term)} (hno : NoOpClash pulses) (hid : IdsUnique pulses)
    {p : Nat} {ts : List Term} {t : Term} (hts : pulses[p]? = some ts) (ht : t ∈ ts) :
    ts.find? (·.op == t.op) = some t := by
  cases hf : ts.find? (·.op == t.op) with
  | none =>
    have := (List.find?_eq_none.mp hf) t ht
    simp at this
  | some t' =>
    have ht' := List.mem_of_find?_eq_some hf
    have hop := List.find?_some hf
    simp only [beq_iff_eq] at hop
    have hid' := hno p t' p t (mem_flatTagged.mpr ⟨ts, hts, ht'⟩) (mem_flatTagged.mpr ⟨ts, hts, ht⟩) hop
    rw [inj_of_nodup_map (hid ts (List.mem_of_getElem? hts)) ht' ht hid']

theorem blockOf_present {pulses : List (List Term)} (hno : NoOpClash pulses) (hid : IdsUnique pulses)
    {p : Nat} {ts : List Term} {t : Term} (hts : pulses[p]? = some ts) (ht : t ∈ ts) :
    blockOf t.op ts = t.coeffs.map some := by
  unfold blockOf
  rw [find_term hno hid hts ht]

theorem blockOf_absent {u : Nat} {ts : List Term} (h : ∀ t ∈ ts, t.op ≠ u) :
    blockOf u ts = List.replicate (segCount ts) none := by
  unfold blockOf
  have : ts.find? (·.op == u) = none := by
    rw [List.find?_eq_none]; intro t ht; simpa using h t ht
  rw [this]

theorem blockAt_filled {pulses : List (List Term)} (hrect : Rect pulses) (u : Nat)
    (g : Option Int → Int) (p : Nat) (hp : p < pulses.length) :
    blockAt pulses p ((rawRow pulses u).map g) = (blockOf u pulses[p]).map g := by
  unfold blockAt rawRow segOffset
  rw [List.map_flatMap]
  have hlen : ∀ ts ∈ pulses, ((blockOf u ts).map g).length = segCount ts := by
    intro ts hts
    rw [List.length_map, length_blockOf u ts (hrect ts hts)]
  have h1 : (pulses.take p).map segCount
      = (pulses.take p).map fun a => ((blockOf u a).map g).length := by
    apply List.map_congr_left
    intro ts hts
    exact (hlen ts (List.mem_of_mem_take hts)).symm
  have h2 : segCount (pulses.getD p []) = ((blockOf u pulses[p]).map g).length := by
    rw [hlen _ (List.getElem_mem hp)]
    simp [List.getD, List.getElem?_eq_getElem hp]
  rw [h1, h2]
  exact flatMap_block (fun ts => (blockOf u ts).map g) pulses p hp

theorem present_map_some (l : List Int) : present (l.map some) = l := by
  unfold present
  induction l with
  | nil => rfl
  | cons a l ih => simp [ih]

theorem present_replicate_none (n : Nat) : present (List.replicate n none) = [] := by
  unfold present
  induction n with
  | zero => rfl
  | succ n ih => simp [List.replicate_succ, ih]

theorem mem_present_rawRow {pulses : List (List Term)} {u : Nat} {v : Int} :
    v ∈ present (rawRow pulses u) ↔ ∃ ts ∈ pulses, v ∈ present (blockOf u ts) := by
  unfold present rawRow
  simp only [List.mem_filterMap, List.mem_flatMap, id]
  constructor
  · rintro ⟨o, ⟨ts, hts, ho⟩, rfl⟩; exact ⟨ts, hts, _, ho, rfl⟩
  · rintro ⟨ts, hts, o, ho, rfl⟩; exact ⟨_, ⟨ts, hts, ho⟩, rfl⟩

theorem rawRow_any_none {pulses : List (List Term)} {u : Nat} :
    (rawRow pulses u).any (·.isNone) = true ↔ ∃ ts ∈ pulses, none ∈ blockOf u ts := by
  unfold rawRow
  simp only [List.any_eq_true, List.mem_flatMap]
  constructor
  · rintro ⟨o, ⟨ts, hts, ho⟩, hn⟩
    cases o with
    | none => exact ⟨ts, hts, ho⟩
    | some _ => simp at hn
  · rintro ⟨ts, hts, ho⟩; exact ⟨none, ⟨ts, hts, ho⟩, rfl⟩

theorem absent_iff {pulses : List (List Term)} {u : Nat} :
    (rawRow pulses u).any (·.isNone) = true ↔
      ∃ ts ∈ pulses, 0 < segCount ts ∧ ∀ t ∈ ts, t.op ≠ u := by
  rw [rawRow_any_none]
  constructor
  · rintro ⟨ts, hts, hn⟩
    refine ⟨ts, hts, ?_⟩
    unfold blockOf at hn
    split at hn
    · simp at hn
    · rename_i hf
      rw [List.find?_eq_none] at hf
      simp only [List.mem_replicate] at hn
      exact ⟨Nat.pos_of_ne_zero hn.1, fun t ht => by simpa using hf t ht⟩
  · rintro ⟨ts, hts, hpos, habs⟩
    refine ⟨ts, hts, ?_⟩
    rw [blockOf_absent habs]
    exact List.mem_replicate.mpr ⟨by omega, rfl⟩

theorem mem_present_of {pulses : List (List Term)} {u : Nat} {v : Int}
    (h : v ∈ present (rawRow pulses u)) : ∃ ts ∈ pulses, ∃ t ∈ ts, t.op = u ∧ v ∈ t.coeffs := by
  obtain ⟨ts, hts, hv⟩ := mem_present_rawRow.mp h
  unfold blockOf at hv
  split at hv
  · rename_i t hf
    rw [present_map_some] at hv
    exact ⟨ts, hts, t, List.mem_of_find?_eq_some hf, by simpa using List.find?_some hf, hv⟩
  · rw [present_replicate_none] at hv; cases hv

theorem mem_present_iff {pulses : List (List Term)} (hno : NoOpClash pulses) (hid : IdsUnique pulses)
    {u : Nat} {v : Int} :
    v ∈ present (rawRow pulses u) ↔ ∃ ts ∈ pulses, ∃ t ∈ ts, t.op = u ∧ v ∈ t.coeffs := by
  constructor
  · exact mem_present_of
  · rintro ⟨ts, hts, t, ht, rfl, hv⟩
    obtain ⟨p, hp, rfl⟩ := List.getElem_of_mem hts
    refine mem_present_rawRow.mpr ⟨_, hts, ?_⟩
    rw [blockOf_present hno hid (List.getElem?_eq_getElem hp) ht, present_map_some]
    exact hv

/-- the new identifier of an operator when no identifier is shared by two operators -/
def NoIdClash (pulses : List (List Term)) : Prop :=
  ∀ p t q t', (p, t) ∈ flatTagged pulses → (q, t') ∈ flatTagged pulses → t.id = t'.id → t.op = t'.op

theorem opsOfId_length_le_one {pulses : List (List Term)} (h : NoIdClash pulses) (s : String) :
    (opsOfId (flatTagged pulses) s).length ≤ 1 := by
  unfold opsOfId
  rw [length_dedup_le_one_iff]
  intro a ha b hb
  simp only [List.mem_map, List.mem_filter, beq_iff_eq] at ha hb
  obtain ⟨x, ⟨hx, hxs⟩, rfl⟩ := ha
  obtain ⟨y, ⟨hy, hys⟩, rfl⟩ := hb
  exact h x.1 x.2 y.1 y.2 hx hy (by rw [hxs, hys])

theorem newId_of_noIdClash {pulses : List (List Term)} (h : NoIdClash pulses) (u : Nat) :
    newId (flatTagged pulses) u = idOfOp (flatTagged pulses) u := by
  unfold newId
  simp only
  rw [if_neg]
  have := opsOfId_length_le_one h (idOfOp (flatTagged pulses) u)
  omega

end Concat

/-! ### injectivity of the new identifiers -/

section NewIdInj

theorem append_cons_inj_of_not_mem {α : Type} {a : α} :
    ∀ (l₁ l₂ r₁ r₂ : List α), a ∉ r₁ → a ∉ r₂ → l₁ ++ a :: r₁ = l₂ ++ a :: r₂ →
      l₁ = l₂ ∧ r₁ = r₂ := by
  intro l₁
  induction l₁ with
  | nil =>
    intro l₂ r₁ r₂ h₁ _ h
    cases l₂ with
    | nil => simp at h; exact ⟨rfl, h⟩
    | cons x l₂ =>
      simp only [List.nil_append, List.cons_append, List.cons.injEq] at h
      exact absurd (by rw [h.2]; simp) h₁
  | cons y l₁ ih =>
    intro l₂ r₁ r₂ h₁ h₂ h
    cases l₂ with
    | nil =>
      simp only [List.nil_append, List.cons_append, List.cons.injEq] at h
      exact absurd (by rw [← h.2]; simp) h₂
    | cons x l₂ =>
      simp only [List.cons_append, List.cons.injEq] at h
      obtain ⟨e1, e2⟩ := ih l₂ r₁ r₂ h₁ h₂ h.2
      exact ⟨by rw [h.1, e1], e2⟩

/-- a suffixed identifier determines the identifier and the pulse position -/
theorem suffixed_inj (s s' : String) (p p' : Nat)
    (h : s ++ "_" ++ toString p = s' ++ "_" ++ toString p') : s = s' ∧ p = p' := by
  have h' := congrArg String.toList h
  simp only [String.toList_append, Nat.toString_eq_repr, Nat.toList_repr, List.append_assoc] at h'
  have hu : ("_" : String).toList = ['_'] := by decide
  rw [hu] at h'
  simp only [List.singleton_append] at h'
  obtain ⟨e1, e2⟩ := append_cons_inj_of_not_mem _ _ _ _ Nat.underscore_not_in_toDigits
    Nat.underscore_not_in_toDigits h'
  refine ⟨String.toList_inj.mp e1, ?_⟩
  apply Nat.repr_inj.mp
  apply String.toList_inj.mp
  simpa using e2

/-- no identifier of the inputs coincides with a generated (suffixed) identifier -/
def NoSuffixCollision (pulses : List (List Term)) : Prop :=
  ∀ u ∈ allOps pulses,
    (opsOfId (flatTagged pulses) (idOfOp (flatTagged pulses) u)).length > 1 →
    ∀ x ∈ flatTagged pulses,
      x.2.id ≠ idOfOp (flatTagged pulses) u ++ "_" ++ toString (firstPulse (flatTagged pulses) u)

theorem first_occurrence {pulses : List (List Term)} {u : Nat} (hu : u ∈ allOps pulses) :
    ∃ t, (firstPulse (flatTagged pulses) u, t) ∈ flatTagged pulses ∧ t.op = u ∧
      t.id = idOfOp (flatTagged pulses) u := by
  obtain ⟨x, hx, hxu⟩ := List.mem_map.mp hu
  unfold firstPulse idOfOp
  cases hf : (flatTagged pulses).find? (fun y => y.2.op == u) with
  | none =>
    have := (List.find?_eq_none.mp hf) x hx
    simp [hxu] at this
  | some y =>
    have hy := List.mem_of_find?_eq_some hf
    have hop := List.find?_some hf
    simp only [beq_iff_eq] at hop
    exact ⟨y.2, by simpa using hy, hop, rfl⟩

theorem newId_injOn {pulses : List (List Term)} (hid : IdsUnique pulses)
    (hcoll : NoSuffixCollision pulses) {u v : Nat} (hu : u ∈ allOps pulses) (hv : v ∈ allOps pulses)
    (h : newId (flatTagged pulses) u = newId (flatTagged pulses) v) : u = v := by
  obtain ⟨tu, hfu, hopu, hidu⟩ := first_occurrence hu
  obtain ⟨tv, hfv, hopv, hidv⟩ := first_occurrence hv
  unfold newId at h
  simp only at h
  by_cases cu : (opsOfId (flatTagged pulses) (idOfOp (flatTagged pulses) u)).length > 1 <;>
  by_cases cv : (opsOfId (flatTagged pulses) (idOfOp (flatTagged pulses) v)).length > 1
  · rw [if_pos cu, if_pos cv] at h
    obtain ⟨hs, hp⟩ := suffixed_inj _ _ _ _ h
    rw [hp] at hfu
    obtain ⟨ts, hts, htu⟩ := mem_flatTagged.mp hfu
    obtain ⟨ts', hts', htv⟩ := mem_flatTagged.mp hfv
    rw [hts] at hts'
    cases hts'
    have : tu = tv := inj_of_nodup_map (hid ts (List.mem_of_getElem? hts)) htu htv
      (by rw [hidu, hidv, hs])
    rw [← hopu, ← hopv, this]
  · rw [if_pos cu, if_neg cv] at h
    exact absurd (hidv.trans h.symm) (hcoll u hu cu (_, tv) hfv)
  · rw [if_neg cu, if_pos cv] at h
    exact absurd (hidu.trans h) (hcoll v hv cv (_, tu) hfu)
  · rw [if_neg cu, if_neg cv] at h
    have hle : (opsOfId (flatTagged pulses) (idOfOp (flatTagged pulses) u)).length ≤ 1 := by omega
    unfold opsOfId at hle
    rw [length_dedup_le_one_iff] at hle
    rw [← hopu, ← hopv]
    apply hle
    · exact List.mem_map.mpr ⟨_, List.mem_filter.mpr ⟨hfu, by simp [hidu]⟩, rfl⟩
    · exact List.mem_map.mpr ⟨_, List.mem_filter.mpr ⟨hfv, by simp [hidv, h]⟩, rfl⟩

end NewIdInj

/-! ### slicing and re-concatenating -/

section SliceConcat

theorem dedup_of_nodup {α : Type} [BEq α] [LawfulBEq α] (l : List α) (h : l.Nodup) : dedup l = l := by
  induction l with
  | nil => rfl
  | cons a l ih =>
    rw [List.nodup_cons] at h
    simp only [dedup, ih h.2, List.cons.injEq, true_and]
    rw [List.filter_eq_self]
    intro x hx
    simp only [bne_iff_ne, ne_eq]
    rintro rfl
    exact h.1 hx

theorem dedup_append {α : Type} [BEq α] [LawfulBEq α] (a b : List α) :
    dedup (a ++ b) = dedup a ++ (dedup b).filter (fun x => !a.contains x) := by
  induction a with
  | nil =>
    simp only [List.nil_append, dedup, List.contains_nil, Bool.not_false]
    exact (List.filter_eq_self.mpr (fun _ _ => rfl)).symm
  | cons x a ih =>
    simp only [List.cons_append, dedup, ih, List.filter_append, List.filter_filter,
      List.cons.injEq, true_and, List.append_cancel_left_eq]
    apply List.filter_congr
    intro y _
    simp only [List.contains_cons, Bool.not_or, bne]

theorem dedup_append_self {α : Type} [BEq α] [LawfulBEq α] (l : List α) (h : l.Nodup) :
    dedup (l ++ l) = l := by
  rw [dedup_append, dedup_of_nodup l h]
  have : l.filter (fun x => !l.contains x) = [] := by
    rw [List.filter_eq_nil_iff]
    intro x hx
    simp [hx]
  rw [this, List.append_nil]

theorem pySlice_getElem? {α : Type} (l : List α) (a b i : Nat) :
    (pySlice l a b)[i]? = if a + i < b then l[a + i]? else none := by
  unfold pySlice
  rw [List.getElem?_drop, List.getElem?_take]

theorem pySlice_zero {α : Type} (l : List α) (k : Nat) : pySlice l 0 k = l.take k := by
  simp [pySlice]

theorem pySlice_to_length {α : Type} (l : List α) (k n : Nat) (h : l.length = n) :
    pySlice l k n = l.drop k := by
  unfold pySlice
  rw [List.take_of_length_le (by omega)]

theorem pySlice_full {α : Type} (l : List α) (n : Nat) (h : l.length = n) : pySlice l 0 n = l := by
  rw [pySlice_zero, List.take_of_length_le (by omega)]

theorem pySlice_single {α : Type} (l : List α) (i : Nat) (d : α) (h : i < l.length) :
    pySlice l i (i + 1) = [l.getD i d] := by
  unfold pySlice
  rw [List.drop_take, List.drop_eq_getElem_cons h, show i + 1 - i = 1 by omega,
    List.take_succ_cons, List.take_zero]
  simp [List.getD, List.getElem?_eq_getElem h]

theorem length_pySlice {α : Type} (l : List α) (a b : Nat) :
    (pySlice l a b).length = min b l.length - a := by
  simp [pySlice]

/-- the operator and identifier bookkeeping of two pulses that carry the same terms up to their
coefficients -/
theorem mem_flat_two {c₁ c₂ : List Term} {p : Nat} {t : Term}
    (h : (p, t) ∈ flatTagged [c₁, c₂]) : (p = 0 ∧ t ∈ c₁) ∨ (p = 1 ∧ t ∈ c₂) := by
  obtain ⟨ts, hp, ht⟩ := mem_flatTagged.mp h
  match p, hp with
  | 0, hp => simp at hp; subst hp; exact Or.inl ⟨rfl, ht⟩
  | 1, hp => simp at hp; subst hp; exact Or.inr ⟨rfl, ht⟩
  | p + 2, hp => simp at hp

/-- **Re-concatenating the two halves of a Hamiltonian** (`ts` with pairwise distinct operators and
pairwise distinct identifiers, sorted by identifier, rows of length `n`, split at `k`). -/
theorem concat_split (kind : Kind) (ts : List Term) (n k : Nat)
    (hlen : ∀ t ∈ ts, t.coeffs.length = n) (hops : (ts.map (·.op)).Nodup)
    (hids : (ts.map (·.id)).Nodup) (hsorted : SortedBy (·.id) ts) :
    concatHamiltonian [ts.map (mapCoeffs fun c => pySlice c 0 k),
        ts.map (mapCoeffs fun c => pySlice c k n)] kind
      = .ok (ts, [ts.map fun t => (t.id, t.id), ts.map fun t => (t.id, t.id)]) := by
  let c₁ := ts.map (mapCoeffs fun c => pySlice c 0 k)
  let c₂ := ts.map (mapCoeffs fun c => pySlice c k n)
  show concatHamiltonian [c₁, c₂] kind = _
  -- every flat entry comes from a term of `ts`
  have horigin : ∀ p t, (p, t) ∈ flatTagged [c₁, c₂] → ∃ u ∈ ts, t.op = u.op ∧ t.id = u.id := by
    intro p t h
    rcases mem_flat_two h with ⟨_, ht⟩ | ⟨_, ht⟩
    · obtain ⟨u, hu, rfl⟩ := List.mem_map.mp ht; exact ⟨u, hu, rfl, rfl⟩
    · obtain ⟨u, hu, rfl⟩ := List.mem_map.mp ht; exact ⟨u, hu, rfl, rfl⟩
  have hno : NoOpClash [c₁, c₂] := by
    intro p t q t' h1 h2 hop
    obtain ⟨u, hu, ho, hi⟩ := horigin p t h1
    obtain ⟨u', hu', ho', hi'⟩ := horigin q t' h2
    have : u = u' := inj_of_nodup_map hops hu hu' (by rw [← ho, ← ho', hop])
    rw [hi, hi', this]
  have hidc : NoIdClash [c₁, c₂] := by
    intro p t q t' h1 h2 hid
    obtain ⟨u, hu, ho, hi⟩ := horigin p t h1
    obtain ⟨u', hu', ho', hi'⟩ := horigin q t' h2
    have : u = u' := inj_of_nodup_map hids hu hu' (by rw [← hi, ← hi', hid])
    rw [ho, ho', this]
  have hidu : IdsUnique [c₁, c₂] := by
    intro l hl
    simp only [List.mem_cons, List.not_mem_nil, or_false] at hl
    rcases hl with rfl | rfl
    · show ((ts.map _).map _).Nodup
      rw [List.map_map]; exact hids
    · show ((ts.map _).map _).Nodup
      rw [List.map_map]; exact hids
  have hall : allOps [c₁, c₂] = ts.map (·.op) ++ ts.map (·.op) := by
    simp [allOps, flatTagged, c₁, c₂, List.map_map, Function.comp_def]
  rw [concat_ok_iff [c₁, c₂] kind id (visitOk_id _)]
  refine ⟨hno, ?_, ts, ?_, (sortBy_of_sorted _ hsorted).symm⟩
  · -- the mapping is the identity
    have hnew : ∀ (l : List Term) (q : Nat), (q = 0 ∧ l = c₁) ∨ (q = 1 ∧ l = c₂) → ∀ t ∈ l,
        newId (flatTagged [c₁, c₂]) t.op = t.id := by
      intro l q hq t ht
      rw [newId_of_noIdClash hidc]
      have : (q, t) ∈ flatTagged [c₁, c₂] := by
        rcases hq with ⟨rfl, rfl⟩ | ⟨rfl, rfl⟩
        · exact mem_flatTagged.mpr ⟨c₁, rfl, ht⟩
        · exact mem_flatTagged.mpr ⟨c₂, rfl, ht⟩
      exact idOfOp_eq hno this
    simp only [mappingOf, List.map_cons, List.map_nil, List.cons.injEq, and_true]
    constructor
    · have : c₁.map (fun t => (t.id, newId (flatTagged [c₁, c₂]) t.op)) = c₁.map fun t => (t.id, t.id) :=
        List.map_congr_left fun t ht => by rw [hnew c₁ 0 (Or.inl ⟨rfl, rfl⟩) t ht]
      rw [this]; simp [c₁, List.map_map, Function.comp_def]
    · have : c₂.map (fun t => (t.id, newId (flatTagged [c₁, c₂]) t.op)) = c₂.map fun t => (t.id, t.id) :=
        List.map_congr_left fun t ht => by rw [hnew c₂ 1 (Or.inr ⟨rfl, rfl⟩) t ht]
      rw [this]; simp [c₂, List.map_map, Function.comp_def]
  · -- the rows are the original terms
    simp only [id, hall, dedup_append_self _ hops, List.map_map]
    apply List.map_congr_left
    intro t ht
    simp only [Function.comp]
    rw [rowOf_ok_iff]
    have m1 : mapCoeffs (fun c => pySlice c 0 k) t ∈ c₁ := List.mem_map.mpr ⟨t, ht, rfl⟩
    have m2 : mapCoeffs (fun c => pySlice c k n) t ∈ c₂ := List.mem_map.mpr ⟨t, ht, rfl⟩
    refine ⟨?_, rfl, ?_⟩
    · have b1 := blockOf_present hno hidu (p := 0) (ts := c₁) rfl m1
      have b2 := blockOf_present hno hidu (p := 1) (ts := c₂) rfl m2
      simp only [mapCoeffs_op, mapCoeffs_coeffs] at b1 b2
      have hrow : rawRow [c₁, c₂] t.op = (pySlice t.coeffs 0 k ++ pySlice t.coeffs k n).map some := by
        simp [rawRow, b1, b2]
      have hcat : pySlice t.coeffs 0 k ++ pySlice t.coeffs k n = t.coeffs := by
        rw [pySlice_zero, pySlice_to_length _ _ _ (hlen t ht), List.take_append_drop]
      rw [hrow, hcat]
      have hnone : (t.coeffs.map some).any (·.isNone) = false := by
        rw [List.any_eq_false]; intro o ho
        obtain ⟨v, _, rfl⟩ := List.mem_map.mp ho; simp
      cases kind with
      | control => rw [fillRow_control, List.map_map]; congr 1; exact List.map_id _
      | noise =>
        unfold fillRow
        simp only [hnone, Bool.false_eq_true, if_false, List.map_map]
        congr 1; exact List.map_id _
    · rw [newId_of_noIdClash hidc]
      have := idOfOp_eq hno (p := 0) (mem_flatTagged.mpr ⟨c₁, rfl, m1⟩)
      simpa using this.symm

end SliceConcat

end FFVerif.Model.Pulse
