/-
Helper lemmas for C09EtmChoi: the predicate "the Choi matrix computed by `liouville_to_choi` is
positive semidefinite" is a `Spec.CPCone` that contains the maps `ρ ↦ AρA†` (complete orthonormal
Hermitian basis).

* `Spec.choiLiou C S` — the matrix `liouville_to_choi` computes from a Liouville matrix `S`;
* `Spec.mapOfLiou C S` — the linear map with Liouville matrix `S`;
* `Spec.choiLiou_liou` — Choi matrix of `ρ ↦ AρA†` is `|A⟫⟨⟨A|`;
* `Spec.exists_kraus` — `Choi(S) ⪰ 0` ⇒ `S = Σ_m L(A_m)` (Kraus form);
* `Spec.isCPChoi_sum_liou` — conversely sums of sandwiches have `Choi ⪰ 0`;
* `Spec.cpCone_isCPChoi` — the cone properties (unit, sums, non-negative multiples, products via
  Kraus forms and `liou_mul`, closedness).
-/
import Mathlib.Topology.Algebra.Module.FiniteDimension
import Mathlib.Topology.Instances.Matrix
import FFVerif.Lemmas.C09EtmCPAux
import FFVerif.Props.C15

namespace FFVerif.Spec
open Matrix
open scoped ComplexOrder

variable {N d : Nat} {C : Fin N → Matrix (Fin d) (Fin d) ℂ}

/-- the Choi matrix `liouville_to_choi` computes from the Liouville matrix `S`
(`FFVerif.C15.choi_entries`): entry at row `r = (a, c)`, column `s = (b, e)` is
`Σ_ij S_ij (C_j)_{ba} (C_i)_{ce}` -/
def choiLiou (C : Fin N → Matrix (Fin d) (Fin d) ℂ) (S : Matrix (Fin N) (Fin N) ℂ) :
    Matrix (Fin (d * d)) (Fin (d * d)) ℂ :=
  fun r s => ∑ i, ∑ j, S i j * C j (Fin.hi s) (Fin.hi r) * C i (Fin.lo r) (Fin.lo s)

/-- complete positivity in Choi form: `choi(S) ⪰ 0` -/
def IsCPChoi (C : Fin N → Matrix (Fin d) (Fin d) ℂ) (S : Matrix (Fin N) (Fin N) ℂ) : Prop :=
  (choiLiou C S).PosSemidef

/-- the model's `liouvilleToChoi` is `choiLiou` -/
theorem liouvilleToChoi_toMatrix (S : Mat ℂ N N) (B : Vector (Mat ℂ d d) N) :
    (Model.liouvilleToChoi S B).toMatrix = choiLiou (basisOf B) S.toMatrix := by
  ext r s
  rw [Mat.toMatrix_apply, Model.choi_getElem]
  rfl

/-! ### linearity and continuity of `choiLiou` -/

theorem choiLiou_add (S T : Matrix (Fin N) (Fin N) ℂ) :
    choiLiou C (S + T) = choiLiou C S + choiLiou C T := by
  ext r s
  simp only [choiLiou, Matrix.add_apply, add_mul, Finset.sum_add_distrib]

theorem choiLiou_smul (c : ℂ) (S : Matrix (Fin N) (Fin N) ℂ) :
    choiLiou C (c • S) = c • choiLiou C S := by
  ext r s
  simp only [choiLiou, Matrix.smul_apply, smul_eq_mul, Finset.mul_sum, mul_assoc]

theorem choiLiou_zero : choiLiou C (0 : Matrix (Fin N) (Fin N) ℂ) = 0 := by
  ext r s
  simp only [choiLiou, Matrix.zero_apply, zero_mul, Finset.sum_const_zero]

theorem choiLiou_sum {ι : Type} (s : Finset ι) (f : ι → Matrix (Fin N) (Fin N) ℂ) :
    choiLiou C (∑ a ∈ s, f a) = ∑ a ∈ s, choiLiou C (f a) := by
  classical
  induction s using Finset.induction_on with
  | empty => simp [choiLiou_zero]
  | insert a s ha ih => rw [Finset.sum_insert ha, Finset.sum_insert ha, choiLiou_add, ih]

theorem continuous_choiLiou : Continuous (choiLiou C) := by
  refine continuous_pi fun r => continuous_pi fun s => ?_
  refine continuous_finsetSum _ fun i _ => continuous_finsetSum _ fun j _ => ?_
  exact ((continuous_apply_apply i j).mul continuous_const).mul continuous_const

/-- the set of positive-semidefinite matrices is closed -/
theorem isClosed_posSemidef_fin {n : Nat} :
    IsClosed {M : Matrix (Fin n) (Fin n) ℂ | M.PosSemidef} := by
  have h : {M : Matrix (Fin n) (Fin n) ℂ | M.PosSemidef}
      = {M | Mᴴ = M} ∩ ⋂ x : Fin n → ℂ, {M | 0 ≤ star x ⬝ᵥ (M *ᵥ x)} := by
    ext M
    simp only [Set.mem_ofPred_eq, Set.mem_inter_iff, Set.mem_iInter,
      Matrix.posSemidef_iff_dotProduct_mulVec, Matrix.IsHermitian]
  rw [h]
  refine IsClosed.inter (isClosed_eq continuous_id.matrix_conjTranspose continuous_id)
    (isClosed_iInter fun x => ?_)
  refine isClosed_le continuous_const ?_
  exact continuous_const.dotProduct (continuous_id.matrix_mulVec continuous_const)

/-! ### sandwiches -/

/-- Choi matrix of `ρ ↦ AρA†`: `|A⟫⟨⟨A|` -/
theorem choiLiou_liou (hC : IsComplete C) (A : Matrix (Fin d) (Fin d) ℂ) :
    choiLiou C (liou C A) = vecMulVec (vecOp A) (star (vecOp A)) := by
  ext r s
  rw [choiLiou, choi_sum_liou hC A (Fin.hi r) (Fin.hi s) (Fin.lo r) (Fin.lo s), vecMulVec_apply]
  rfl

theorem isCPChoi_liou (hC : IsComplete C) (A : Matrix (Fin d) (Fin d) ℂ) :
    IsCPChoi C (liou C A) := by
  rw [IsCPChoi, choiLiou_liou hC]
  exact posSemidef_vecMulVec_self_star _

/-- sums of sandwiches are completely positive -/
theorem isCPChoi_sum_liou (hC : IsComplete C) {ι : Type} (s : Finset ι)
    (A : ι → Matrix (Fin d) (Fin d) ℂ) : IsCPChoi C (∑ m ∈ s, liou C (A m)) := by
  rw [IsCPChoi, choiLiou_sum]
  exact posSemidef_sum s fun m _ => isCPChoi_liou hC (A m)

/-! ### the linear map of a Liouville matrix and the Kraus form -/

/-- the linear map `ρ ↦ Σ_ij S_ij tr(C_j ρ) C_i` -/
def mapOfLiou (C : Fin N → Matrix (Fin d) (Fin d) ℂ) (S : Matrix (Fin N) (Fin N) ℂ) :
    Matrix (Fin d) (Fin d) ℂ →ₗ[ℂ] Matrix (Fin d) (Fin d) ℂ where
  toFun ρ := ∑ i, ∑ j, (S i j * trace (C j * ρ)) • C i
  map_add' x y := by
    simp only [trace_add, mul_add, add_smul, Finset.sum_add_distrib]
  map_smul' c x := by
    simp only [Matrix.mul_smul, trace_smul, smul_eq_mul, RingHom.id_apply, Finset.smul_sum,
      smul_smul]
    refine Finset.sum_congr rfl fun i _ => Finset.sum_congr rfl fun j _ => ?_
    congr 1
    ring

/-- for an orthonormal family, `S` is the Liouville matrix of `mapOfLiou C S` -/
theorem liou_mapOfLiou (hO : ∀ i j, trace (C i * C j) = if i = j then 1 else 0)
    (S : Matrix (Fin N) (Fin N) ℂ) (i j : Fin N) :
    trace (C i * mapOfLiou C S (C j)) = S i j := by
  show trace (C i * ∑ i', ∑ j', (S i' j' * trace (C j' * C j)) • C i') = S i j
  simp only [Matrix.mul_sum, Matrix.mul_smul, trace_sum, trace_smul, hO, smul_eq_mul, mul_ite,
    mul_one, mul_zero]
  rw [Finset.sum_eq_single i (fun x _ hx => by simp [Ne.symm hx])
    (fun h => absurd (Finset.mem_univ _) h)]
  simp

/-- `choiLiou C S` is the Choi matrix of `mapOfLiou C S` (complete orthonormal family) -/
theorem choiLiou_eq_choiMap (hC : IsComplete C)
    (hO : ∀ i j, trace (C i * C j) = if i = j then 1 else 0) (S : Matrix (Fin N) (Fin N) ℂ) :
    choiLiou C S = choiMap (mapOfLiou C S) := by
  ext r s
  rw [choiMap, ← choi_sum_liouFun hC (mapOfLiou C S)]
  simp only [choiLiou, liou_mapOfLiou hO]

/-- two linear maps with the same Choi matrix are equal -/
theorem eq_of_choiMap_eq (Φ Ψ : Matrix (Fin d) (Fin d) ℂ →ₗ[ℂ] Matrix (Fin d) (Fin d) ℂ)
    (h : choiMap Φ = choiMap Ψ) : Φ = Ψ := by
  apply Matrix.ext_linearMap
  intro a b
  apply LinearMap.ext_ring
  show Φ (Matrix.single a b 1) = Ψ (Matrix.single a b 1)
  ext c e
  have := congrFun (congrFun h (Fin.flat a c)) (Fin.flat b e)
  simpa only [choiMap, Fin.hi_flat, Fin.lo_flat] using this

/-- **Kraus form**: a Liouville matrix with positive-semidefinite Choi matrix is a sum of
Liouville matrices of maps `ρ ↦ A_m ρ A_m†` (complete orthonormal family). -/
theorem exists_kraus (hC : IsComplete C)
    (hO : ∀ i j, trace (C i * C j) = if i = j then 1 else 0) (S : Matrix (Fin N) (Fin N) ℂ)
    (hS : IsCPChoi C S) :
    ∃ A : Fin (d * d) → Matrix (Fin d) (Fin d) ℂ, S = ∑ m, liou C (A m) := by
  obtain ⟨B, hB⟩ := exists_factor_of_posSemidef (choiLiou C S) hS
  let A : Fin (d * d) → Matrix (Fin d) (Fin d) ℂ := fun m => fun c a => star (B m (Fin.flat a c))
  have hV : vecOps A = Bᴴ := by
    ext r m
    simp only [vecOps, vecOp, A, Fin.flat_hi_lo, Matrix.conjTranspose_apply]
  have hchoi : choiMap (mapOfLiou C S) = choiMap (gksLin (1 : Matrix (Fin (d * d)) (Fin (d * d)) ℂ)
      A 0 0) := by
    rw [← choiLiou_eq_choiMap hC hO, hB]
    show _ = choiMap (gksMap 1 A 0 0)
    rw [choiMap_gks, hV, conjTranspose_conjTranspose, Matrix.mul_one]
    have h0 : vecOp (0 : Matrix (Fin d) (Fin d) ℂ) = 0 := rfl
    rw [conjTranspose_zero, h0, zero_vecMulVec, star_zero, vecMulVec_zero, add_zero, add_zero]
  have hΦ := eq_of_choiMap_eq _ _ hchoi
  refine ⟨A, ?_⟩
  ext i j
  rw [← liou_mapOfLiou hO S i j, hΦ, gksLin_apply, Matrix.sum_apply]
  simp only [gksMap, Matrix.zero_mul, Matrix.mul_zero, add_zero, Matrix.one_apply, ite_smul,
    one_smul, zero_smul, Finset.sum_ite_eq, Finset.mem_univ, if_true, Matrix.mul_sum, trace_sum,
    liou, Matrix.mul_assoc]

/-! ### the cone -/

/-- **`Choi ⪰ 0` is a CP cone**: for a complete orthonormal Hermitian family the predicate
`IsCPChoi C` has all the closure properties of `CPCone`. -/
theorem cpCone_isCPChoi (hC : IsComplete C) (hO : IsOrthoHerm C) : CPCone (IsCPChoi C) where
  one := by
    rw [← FFVerif.C15.liou_one hO]
    exact isCPChoi_liou hC 1
  add := by
    intro S T hS hT
    rw [IsCPChoi, choiLiou_add]
    exact PosSemidef.add hS hT
  smul_nonneg := by
    intro c S hc hS
    rw [IsCPChoi, choiLiou_smul]
    exact PosSemidef.smul hS (Complex.zero_le_real.mpr hc)
  mul := by
    intro S T hS hT
    obtain ⟨A, rfl⟩ := exists_kraus hC hO.ortho S hS
    obtain ⟨B, rfl⟩ := exists_kraus hC hO.ortho T hT
    rw [Finset.sum_mul_sum]
    simp only [← FFVerif.C15.liou_mul hC]
    rw [IsCPChoi, choiLiou_sum]
    refine posSemidef_sum _ fun m _ => ?_
    exact isCPChoi_sum_liou hC _ _
  closed := isClosed_posSemidef_fin.preimage continuous_choiLiou

end FFVerif.Spec
