/-
Helper lemmas for C03c (algebra of concatenation): access lemmas for the models of
`calculate_control_matrix_from_atomic` / `calculate_pulse_correlation_filter_function`, the
sandwich identity behind the concatenation rule, appended vectors, the recursions of `concatenate`.
-/
import Mathlib.LinearAlgebra.Matrix.Trace
import Mathlib.LinearAlgebra.Matrix.ConjTranspose
import Mathlib.Analysis.Complex.Basic
import Mathlib.Analysis.Complex.Exponential
import Mathlib.Algebra.BigOperators.Fin
import FFVerif.Lemmas.Inst
import FFVerif.Lemmas.Bridge
import FFVerif.Lemmas.MatBridge
import FFVerif.Lemmas.InvarianceAux
import FFVerif.Lemmas.LiouvilleAux
import FFVerif.Spec.Basis
import FFVerif.Model.Periodic
import FFVerif.Model.Concat

namespace FFVerif.ConcatAux
open FFVerif FFVerif.Model Matrix

/-! ### access lemmas -/

theorem vec_ofFn_get {α : Type} {n : Nat} (F : Fin n → α) (i : Fin n) : (Vector.ofFn F)[i] = F i := by
  simp only [Fin.getElem_fin, Vector.getElem_ofFn]

theorem vec_map_get {α β : Type} {n : Nat} (f : α → β) (v : Vector α n) (i : Fin n) :
    (v.map f)[i] = f v[i] := by
  simp only [Fin.getElem_fin, Vector.getElem_map]

theorem append_castAdd {α : Type} {n m : Nat} (x : Vector α n) (y : Vector α m) (i : Fin n) :
    (x ++ y)[Fin.castAdd m i] = x[i] := by
  simp only [Fin.getElem_fin, Fin.val_castAdd]
  exact Vector.getElem_append_left i.2

theorem append_natAdd {α : Type} {n m : Nat} (x : Vector α n) (y : Vector α m) (i : Fin m) :
    (x ++ y)[Fin.natAdd n i] = y[i] := by
  simp only [Fin.getElem_fin, Fin.val_natAdd]
  rw [Vector.getElem_append_right (by omega) (by omega)]
  congr 1
  omega

/-- entry of the generated contraction `ijo,jk->iko` -/
theorem einsum_atomic_entry {n_i n_j n_o n_k : Nat} (x0 : Ten3 ℂ n_i n_j n_o) (x1 : Mat ℂ n_j n_k)
    (i : Fin n_i) (k : Fin n_k) (o : Fin n_o) :
    (Gen.numeric_calculate_control_matrix_from_atomic_0 x0 x1)[i][k][o]
      = ∑ j : Fin n_j, x0[i][j][o] * x1[j][k] := by
  simp only [Gen.numeric_calculate_control_matrix_from_atomic_0, fsum_eq_sum, Fin.getElem_fin,
    Vector.getElem_ofFn]

theorem fromAtomicCorr_get {nP nA N nO : Nat} (phases : Mat ℂ nP nO)
    (Bat : Vector (Ten3 ℂ nA N nO) nP) (L : Vector (Mat ℂ N N) nP) (g : Fin nP) (a : Fin nA)
    (k : Fin N) (o : Fin nO) :
    (controlMatrixFromAtomicCorr phases Bat L)[g][a][k][o]
      = ∑ j : Fin N, phases[g][o] * Bat[g][a][j][o] * L[g][j][k] := by
  unfold controlMatrixFromAtomicCorr
  rw [vec_ofFn_get, einsum_atomic_entry]
  refine Finset.sum_congr rfl fun j _ => ?_
  rw [vec_ofFn_get, vec_ofFn_get, vec_ofFn_get]

theorem fromAtomic_get {nP nA N nO : Nat} (phases : Mat ℂ nP nO)
    (Bat : Vector (Ten3 ℂ nA N nO) nP) (L : Vector (Mat ℂ N N) nP) (a : Fin nA)
    (k : Fin N) (o : Fin nO) :
    (controlMatrixFromAtomic phases Bat L)[a][k][o]
      = ∑ g : Fin nP, (controlMatrixFromAtomicCorr phases Bat L)[g][a][k][o] := by
  unfold controlMatrixFromAtomic
  rw [vec_ofFn_get, vec_ofFn_get, vec_ofFn_get, fsum_eq_sum]

theorem sumPulses_get {nP nA nK nO : Nat} (B : Vector (Ten3 ℂ nA nK nO) nP) (a : Fin nA)
    (k : Fin nK) (o : Fin nO) :
    (sumPulses B)[a][k][o] = ∑ g : Fin nP, B[g][a][k][o] := by
  unfold sumPulses
  rw [vec_ofFn_get, vec_ofFn_get, vec_ofFn_get, fsum_eq_sum]

theorem conjPc_get {nP nA nK nO : Nat} (B : Vector (Ten3 ℂ nA nK nO) nP) (g : Fin nP)
    (a : Fin nA) (k : Fin nK) (o : Fin nO) :
    (conjPc B)[g][a][k][o] = starRingEnd ℂ B[g][a][k][o] := by
  unfold conjPc
  rw [vec_map_get, vec_map_get, vec_map_get, vec_map_get, copsConj]

theorem pcFid_get {nP nA nK nO : Nat} (B : Vector (Ten3 ℂ nA nK nO) nP) (g h : Fin nP)
    (a b : Fin nA) (o : Fin nO) :
    (pulseCorrelationFFFid B)[g][h][a][b][o]
      = ∑ k : Fin nK, starRingEnd ℂ B[g][a][k][o] * B[h][b][k][o] := by
  unfold pulseCorrelationFFFid Gen.numeric_calculate_pulse_correlation_filter_function_0
  rw [vec_ofFn_get, vec_ofFn_get, vec_ofFn_get, vec_ofFn_get, vec_ofFn_get, fsum_eq_sum]
  refine Finset.sum_congr rfl fun k _ => ?_
  rw [conjPc_get]

theorem pcGen_get {nP nA nK nO : Nat} (B : Vector (Ten3 ℂ nA nK nO) nP) (g h : Fin nP)
    (a b : Fin nA) (k l : Fin nK) (o : Fin nO) :
    (pulseCorrelationFFGen B)[g][h][a][b][k][l][o]
      = starRingEnd ℂ B[g][a][k][o] * B[h][b][l][o] := by
  unfold pulseCorrelationFFGen Gen.numeric_calculate_pulse_correlation_filter_function_1
  rw [vec_ofFn_get, vec_ofFn_get, vec_ofFn_get, vec_ofFn_get, vec_ofFn_get, vec_ofFn_get,
    vec_ofFn_get, conjPc_get]

theorem pcSumFid_get {nP nA nO : Nat} (F : Vector (Vector (Ten3 ℂ nA nA nO) nP) nP)
    (a b : Fin nA) (o : Fin nO) :
    (pcSumFid F)[a][b][o] = ∑ g : Fin nP, ∑ h : Fin nP, F[g][h][a][b][o] := by
  unfold pcSumFid
  rw [vec_ofFn_get, vec_ofFn_get, vec_ofFn_get, fsum_eq_sum]
  refine Finset.sum_congr rfl fun g _ => ?_
  rw [fsum_eq_sum]

theorem pcSumGen_get {nP nA nK nO : Nat}
    (F : Vector (Vector (Vector (Vector (Ten3 ℂ nK nK nO) nA) nA) nP) nP)
    (a b : Fin nA) (k l : Fin nK) (o : Fin nO) :
    (pcSumGen F)[a][b][k][l][o] = ∑ g : Fin nP, ∑ h : Fin nP, F[g][h][a][b][k][l][o] := by
  unfold pcSumGen
  rw [vec_ofFn_get, vec_ofFn_get, vec_ofFn_get, vec_ofFn_get, vec_ofFn_get, fsum_eq_sum]
  refine Finset.sum_congr rfl fun g _ => ?_
  rw [fsum_eq_sum]

/-! ### the sandwich identity behind the concatenation rule -/

variable {N d : Nat} {C : Fin N → Matrix (Fin d) (Fin d) ℂ}

/-- expansion coefficients of `Qp C_k Qp†` are a column of the Liouville representation -/
theorem trace_conj_basis (Qp : Matrix (Fin d) (Fin d) ℂ) (j k : Fin N) :
    trace (Qp * C k * Qpᴴ * C j) = Spec.liou C Qp j k := by
  unfold Spec.liou
  rw [trace_mul_comm]
  simp only [Matrix.mul_assoc]

/-- **Sandwich identity.** For a complete family, replacing the cumulative propagator `Q` by
`Q * Qp` turns the propagated basis element `(Q†V)† C_k (Q†V)` into the combination
`Σ_j L(Qp)_{jk} (Q†V)† C_j (Q†V)`; `Q`, `Qp`, `V` arbitrary matrices. -/
theorem shift_sandwich (hC : Spec.IsComplete C) (Q Qp V : Matrix (Fin d) (Fin d) ℂ) (k : Fin N)
    (n m : Fin d) :
    (((Q * Qp)ᴴ * V)ᴴ * C k * ((Q * Qp)ᴴ * V)) n m
      = ∑ j, Spec.liou C Qp j k * ((Qᴴ * V)ᴴ * C j * (Qᴴ * V)) n m := by
  have h1 : ((Q * Qp)ᴴ * V)ᴴ * C k * ((Q * Qp)ᴴ * V)
      = (Qᴴ * V)ᴴ * (Qp * C k * Qpᴴ) * (Qᴴ * V) := by
    simp only [Matrix.conjTranspose_mul, Matrix.conjTranspose_conjTranspose, Matrix.mul_assoc]
  rw [h1]
  conv_lhs => rw [hC (Qp * C k * Qpᴴ)]
  rw [InvAux.sandwich_sum]
  refine Finset.sum_congr rfl fun j _ => ?_
  rw [trace_conj_basis]

/-- `e^{iω(t+T)} = e^{iωT} e^{iωt}` -/
theorem expI_shift (ω t T : ℝ) :
    Complex.exp (Complex.I * ((ω : ℂ) * ((t + T : ℝ) : ℂ)))
      = Complex.exp (Complex.I * ((ω : ℂ) * (T : ℂ))) * Complex.exp (Complex.I * ((ω : ℂ) * (t : ℂ))) := by
  rw [← Complex.exp_add]
  congr 1
  push_cast
  ring

/-! ### the recursions of `concatenate` -/

theorem concatPhases_get {nP nO : Nat} (tp : Mat ℂ nP nO) (p : Fin nP) (o : Fin nO) :
    (concatPhases tp)[p][o] = cumPhase tp o p.1 := Mat.ofFn_get _ p o

theorem concatL_get {nP N : Nat} (Lt : Vector (Mat ℂ N N) nP) (p : Fin nP) :
    (concatL Lt)[p] = cumL Lt p.1 := vec_ofFn_get _ p

theorem cumPhase_zero {nP nO : Nat} (tp : Mat ℂ nP nO) (o : Fin nO) : cumPhase tp o 0 = 1 := rfl

theorem cumPhase_succ {nP nO : Nat} (tp : Mat ℂ nP nO) (o : Fin nO) (i : Nat) (h : i < nP) :
    cumPhase tp o (i + 1) = cumPhase tp o i * tp[i][o] := by
  have : cumPhase tp o (i + 1)
      = if h : i < nP then cumPhase tp o i * tp[i][o] else cumPhase tp o i := rfl
  rw [this, dif_pos h]

theorem cumL_zero {nP N : Nat} (Lt : Vector (Mat ℂ N N) nP) : cumL Lt 0 = Mat.one := rfl

theorem cumL_succ {nP N : Nat} (Lt : Vector (Mat ℂ N N) nP) (i : Nat) (h : i < nP) :
    cumL Lt (i + 1) = Mat.mul Lt[i] (cumL Lt i) := by
  have : cumL Lt (i + 1) = if h : i < nP then Mat.mul Lt[i] (cumL Lt i) else cumL Lt i := rfl
  rw [this, dif_pos h]

/-- the cumulative phase is the product of the total phases of the earlier pulses -/
theorem cumPhase_eq_prod {nP nO : Nat} (tp : Mat ℂ nP nO) (o : Fin nO) (i : Nat) (hi : i ≤ nP) :
    cumPhase tp o i = ∏ q : Fin i, tp[q.1][o] := by
  induction i with
  | zero => simp [cumPhase_zero]
  | succ i ih =>
    rw [cumPhase_succ tp o i (by omega), ih (by omega), Fin.prod_univ_castSucc]
    rfl

/-- peeling off the first pulse: the cumulative phases of `A :: rest` are `tp_A` times those of
`rest` -/
theorem cumPhase_cons {n nO : Nat} (tp : Mat ℂ (n + 1) nO) (tp' : Mat ℂ n nO)
    (h : ∀ (i : Nat) (hi : i < n), tp[i + 1] = tp'[i]) (o : Fin nO) (i : Nat) (hi : i ≤ n) :
    cumPhase tp o (i + 1) = tp[0][o] * cumPhase tp' o i := by
  induction i with
  | zero => rw [cumPhase_succ tp o 0 (by omega), cumPhase_zero, cumPhase_zero, one_mul, mul_one]
  | succ i ih =>
    rw [cumPhase_succ tp o (i + 1) (by omega), ih (by omega), cumPhase_succ tp' o i (by omega),
      h i (by omega), mul_assoc]

/-- peeling off the first pulse: `L` of `A :: rest` is `L` of `rest` times `L_A` -/
theorem cumL_cons {n N : Nat} (Lt : Vector (Mat ℂ N N) (n + 1)) (Lt' : Vector (Mat ℂ N N) n)
    (h : ∀ (i : Nat) (hi : i < n), Lt[i + 1] = Lt'[i]) (i : Nat) (hi : i ≤ n) :
    (cumL Lt (i + 1)).toMatrix = (cumL Lt' i).toMatrix * Lt[0].toMatrix := by
  induction i with
  | zero =>
    rw [cumL_succ Lt 0 (by omega), cumL_zero, cumL_zero, Mat.toMatrix_mul, Mat.toMatrix_one,
      Matrix.mul_one, Matrix.one_mul]
  | succ i ih =>
    rw [cumL_succ Lt (i + 1) (by omega), Mat.toMatrix_mul, ih (by omega),
      cumL_succ Lt' i (by omega), Mat.toMatrix_mul, h i (by omega), Matrix.mul_assoc]

/-! ### `G` copies of one pulse -/

theorem periodicApply_get {nA N nO : Nat} (B : Ten3 ℂ nA N nO) (S : Vector (Mat ℂ N N) nO)
    (a : Fin nA) (k : Fin N) (o : Fin nO) :
    (periodicApply B S)[a][k][o] = ∑ j : Fin N, B[a][j][o] * S[o][j][k] := by
  unfold periodicApply
  rw [vec_ofFn_get, vec_ofFn_get, vec_ofFn_get, fsum_eq_sum]

theorem cumPhase_const {nP nO : Nat} (tp : Mat ℂ nP nO) (ph : Vec ℂ nO)
    (h : ∀ (i : Nat) (hi : i < nP), tp[i] = ph) (o : Fin nO) (i : Nat) (hi : i ≤ nP) :
    cumPhase tp o i = ph[o] ^ i := by
  induction i with
  | zero => rw [cumPhase_zero, pow_zero]
  | succ i ih => rw [cumPhase_succ tp o i (by omega), ih (by omega), h i (by omega), pow_succ]

theorem cumL_const {nP N : Nat} (Lt : Vector (Mat ℂ N N) nP) (Lq : Mat ℂ N N)
    (h : ∀ (i : Nat) (hi : i < nP), Lt[i] = Lq) (i : Nat) (hi : i ≤ nP) :
    (cumL Lt i).toMatrix = Lq.toMatrix ^ i := by
  induction i with
  | zero => rw [cumL_zero, Mat.toMatrix_one, pow_zero]
  | succ i ih =>
    rw [cumL_succ Lt i (by omega), Mat.toMatrix_mul, ih (by omega), h i (by omega), pow_succ']

/-! ### rows of the inputs `concatenate` assembles -/

section atomic
variable {d nA nO nK : Nat}

theorem atomicPhases_get (omega : Vec ℝ nO) (ps : List (PulseData ℝ ℂ d nA)) (i : Nat)
    (hi : i < ps.length) :
    (PulseData.atomicPhases omega ps)[i] = ps[i].totalPhases omega := by
  unfold PulseData.atomicPhases
  rw [Vector.getElem_ofFn]
  rfl

theorem atomicCMs_get (kind : MaskKind) (thr : ℝ) (omega : Vec ℝ nO)
    (basis : Vector (Mat ℂ d d) nK) (nOpers : Vector (Mat ℂ d d) nA)
    (ps : List (PulseData ℝ ℂ d nA)) (i : Nat) (hi : i < ps.length) :
    (PulseData.atomicCMs kind thr omega basis nOpers ps)[i]
      = ps[i].cm kind thr omega basis nOpers := by
  unfold PulseData.atomicCMs
  rw [Vector.getElem_ofFn]
  rfl

theorem atomicLiou_get (basis : Vector (Mat ℂ d d) nK) (b : Bool)
    (ps : List (PulseData ℝ ℂ d nA)) (i : Nat) (hi : i < ps.length) :
    (PulseData.atomicLiou basis b ps)[i] = liouville ps[i].Qtot basis b := by
  unfold PulseData.atomicLiou
  rw [Vector.getElem_ofFn]
  rfl

end atomic

end FFVerif.ConcatAux
