/-
Helper lemmas for `Props/C12Frame.lean`: extensionality of the nested-`Vector` tensors, the
per-segment matrices `nMat` / `bMat` of the second-order loop under a change of frame and of the
energy zero, traces of products of conjugated matrices.
-/
import FFVerif.Lemmas.SecondOrderInvAux
import FFVerif.Lemmas.InvarianceAux
import FFVerif.Lemmas.BoundAux

namespace FFVerif.FrameAux
open FFVerif FFVerif.Model FFVerif.SecondOrderInv Complex Matrix

/-! ### extensionality of nested vectors (entries addressed by `Fin`) -/

theorem ten3_ext {K : Type} {a b c : ℕ} {X Y : Ten3 K a b c}
    (h : ∀ (i : Fin a) (j : Fin b) (k : Fin c), X[i][j][k] = Y[i][j][k]) : X = Y := by
  apply Vector.ext; intro i hi
  apply Vector.ext; intro j hj
  apply Vector.ext; intro k hk
  exact h ⟨i, hi⟩ ⟨j, hj⟩ ⟨k, hk⟩

theorem ten4_ext {K : Type} {a b c e : ℕ} {X Y : Ten4 K a b c e}
    (h : ∀ (i : Fin a) (j : Fin b) (k : Fin c) (l : Fin e), X[i][j][k][l] = Y[i][j][k][l]) :
    X = Y := by
  apply Vector.ext; intro i hi
  apply Vector.ext; intro j hj
  apply Vector.ext; intro k hk
  apply Vector.ext; intro l hl
  exact h ⟨i, hi⟩ ⟨j, hj⟩ ⟨k, hk⟩ ⟨l, hl⟩

theorem ten5_ext {K : Type} {a b c e f : ℕ} {X Y : Ten5 K a b c e f}
    (h : ∀ (i : Fin a) (j : Fin b) (k : Fin c) (l : Fin e) (o : Fin f),
      X[i][j][k][l][o] = Y[i][j][k][l][o]) : X = Y := by
  apply Vector.ext; intro i hi
  apply Vector.ext; intro j hj
  apply Vector.ext; intro k hk
  apply Vector.ext; intro l hl
  apply Vector.ext; intro o ho
  exact h ⟨i, hi⟩ ⟨j, hj⟩ ⟨k, hk⟩ ⟨l, hl⟩ ⟨o, ho⟩

variable {d : ℕ}

/-! ### the per-segment matrices under a change of frame -/

/-- `W X W†` formed with the model's own `Mat.mul` / `Mat.adjoint` -/
theorem conj_toMatrix (W X : Mat ℂ d d) :
    (Mat.mul (Mat.mul W X) (Mat.adjoint W)).toMatrix = W.toMatrix * X.toMatrix * (W.toMatrix)ᴴ := by
  rw [Mat.toMatrix_mul, Mat.toMatrix_mul, Mat.toMatrix_adjoint]

theorem nMat_frame (W V B : Mat ℂ d d) (s : ℝ) (hW : (W.toMatrix)ᴴ * W.toMatrix = 1) :
    nMat (Mat.mul W V) (Mat.mul (Mat.mul W B) (Mat.adjoint W)) s = nMat V B s := by
  unfold nMat
  rw [conj_toMatrix, Mat.toMatrix_mul, InvAux.frame_sandwich_noise _ _ _ hW]

theorem bMat_frame (W V Q C : Mat ℂ d d) (hW : (W.toMatrix)ᴴ * W.toMatrix = 1) :
    bMat (Mat.mul W V) (Mat.mul (Mat.mul W Q) (Mat.adjoint W))
        (Mat.mul (Mat.mul W C) (Mat.adjoint W)) = bMat V Q C := by
  unfold bMat
  rw [conj_toMatrix, conj_toMatrix, Mat.toMatrix_mul, InvAux.frame_sandwich_basis _ _ _ _ hW]

/-- a unit-modulus factor on the cumulative propagator drops out of `basis_transformed` -/
theorem bMat_phase (u : ℂ) (hu : ‖u‖ = 1) (V Q C : Mat ℂ d d) :
    bMat V (Mat.smul u Q) C = bMat V Q C := by
  unfold bMat
  rw [Mat.toMatrix_smul, InvAux.phase_sandwich _ hu]

/-! ### energy zero: the per-segment numbers see eigenvalue differences only -/

theorem segStep_shift (ev : Fin d → ℝ) (c ω dt : ℝ) (Na Nb Tk Tl : Matrix (Fin d) (Fin d) ℂ) :
    segStep (fun i => ev i + c) ω dt Na Nb Tk Tl = segStep ev ω dt Na Nb Tk Tl := by
  unfold segStep
  simp only [add_sub_add_right_eq_sub]

theorem segCm_shift (kind : MaskKind) (thr : ℝ) (ev : Fin d → ℝ) (c ω dt t : ℝ)
    (N T : Matrix (Fin d) (Fin d) ℂ) :
    segCm kind thr (fun i => ev i + c) ω dt t N T = segCm kind thr ev ω dt t N T := by
  unfold segCm
  simp only [add_sub_add_right_eq_sub]

/-! ### traces of products of conjugated matrices -/

/-- `tr(W X W†) = tr X` for an isometry `W` -/
theorem trace_conj (W X : Matrix (Fin d) (Fin d) ℂ) (hW : Wᴴ * W = 1) :
    trace (W * X * Wᴴ) = trace X := by
  rw [Matrix.trace_mul_comm, ← Matrix.mul_assoc, hW, Matrix.one_mul]

/-- products of conjugated matrices are conjugated products -/
theorem conj_mul_conj (W X Y : Matrix (Fin d) (Fin d) ℂ) (hW : Wᴴ * W = 1) :
    (W * X * Wᴴ) * (W * Y * Wᴴ) = W * (X * Y) * Wᴴ := by
  have hW' : ∀ Z : Matrix (Fin d) (Fin d) ℂ, Wᴴ * (W * Z) = Z := by
    intro Z; rw [← Matrix.mul_assoc, hW, Matrix.one_mul]
  simp only [Matrix.mul_assoc, hW']

/-- the four-element trace is frame invariant -/
theorem trace4_conj (W A B C D : Matrix (Fin d) (Fin d) ℂ) (hW : Wᴴ * W = 1) :
    trace ((W * A * Wᴴ) * (W * B * Wᴴ) * (W * C * Wᴴ) * (W * D * Wᴴ)) = trace (A * B * C * D) := by
  rw [conj_mul_conj _ _ _ hW, conj_mul_conj _ _ _ hW, conj_mul_conj _ _ _ hW, trace_conj _ _ hW]

/-- the two-element trace is frame invariant -/
theorem trace2_conj (W A B : Matrix (Fin d) (Fin d) ℂ) (hW : Wᴴ * W = 1) :
    trace ((W * A * Wᴴ) * (W * B * Wᴴ)) = trace (A * B) := by
  rw [conj_mul_conj _ _ _ hW, trace_conj _ _ hW]

end FFVerif.FrameAux

/-! ### complete families of NOT necessarily Hermitian matrices -/

namespace FFVerif.Spec
open Matrix

variable {N d : ℕ}

/-- Hilbert–Schmidt orthonormal family: `tr(C_k† C_l) = δ_kl` (no Hermiticity) -/
def IsOrthoHS (C : Fin N → Matrix (Fin d) (Fin d) ℂ) : Prop :=
  ∀ k l, Matrix.trace ((C k)ᴴ * C l) = if k = l then 1 else 0

/-- completeness in the Hilbert–Schmidt sense: every matrix is reconstructed from its expansion
coefficients `⟨C_j, M⟩ = tr(C_j† M)`.  For Hermitian elements this is `Spec.IsComplete`
(`isCompleteHS_iff_of_herm`); for an orthonormal family it says that the family spans
(`isCompleteHS_of_ortho_of_span`). -/
def IsCompleteHS (C : Fin N → Matrix (Fin d) (Fin d) ℂ) : Prop :=
  ∀ M : Matrix (Fin d) (Fin d) ℂ, M = ∑ j, Matrix.trace ((C j)ᴴ * M) • C j

theorem isCompleteHS_iff_of_herm (C : Fin N → Matrix (Fin d) (Fin d) ℂ)
    (hH : ∀ k, (C k)ᴴ = C k) : IsCompleteHS C ↔ IsComplete C := by
  unfold IsCompleteHS IsComplete
  simp only [hH, Matrix.trace_mul_comm (C _)]

/-- an orthonormal family that spans all matrices is complete -/
theorem isCompleteHS_of_ortho_of_span (C : Fin N → Matrix (Fin d) (Fin d) ℂ) (hO : IsOrthoHS C)
    (hS : ∀ M : Matrix (Fin d) (Fin d) ℂ, ∃ c : Fin N → ℂ, M = ∑ j, c j • C j) :
    IsCompleteHS C := by
  intro M
  obtain ⟨c, hc⟩ := hS M
  have hk : ∀ k, Matrix.trace ((C k)ᴴ * M) = c k := by
    intro k
    rw [hc, Matrix.mul_sum, Matrix.trace_sum]
    simp only [Matrix.mul_smul, Matrix.trace_smul, hO k, smul_eq_mul, mul_ite, mul_one, mul_zero]
    rw [Finset.sum_ite_eq Finset.univ k c, if_pos (Finset.mem_univ k)]
  simp only [hk]
  exact hc

/-- the adjoint family of a complete family is complete (`{C_k†}` is an orthonormal basis too) -/
theorem IsCompleteHS.adjoint {C : Fin N → Matrix (Fin d) (Fin d) ℂ} (hC : IsCompleteHS C) :
    IsCompleteHS fun k => (C k)ᴴ := by
  intro M
  have h := congrArg Matrix.conjTranspose (hC Mᴴ)
  rw [Matrix.conjTranspose_conjTranspose, Matrix.conjTranspose_sum] at h
  conv_lhs => rw [h]
  refine Finset.sum_congr rfl fun j _ => ?_
  rw [Matrix.conjTranspose_smul, Matrix.conjTranspose_conjTranspose]
  congr 1
  rw [← Matrix.trace_conjTranspose, Matrix.conjTranspose_mul, Matrix.conjTranspose_conjTranspose,
    Matrix.conjTranspose_conjTranspose, Matrix.trace_mul_comm]

end FFVerif.Spec

namespace FFVerif.FrameAux
open FFVerif FFVerif.BoundAux Matrix

variable {N d : ℕ}

/-- **Parseval** for a complete family, Hermitian or not: `Σ_k |tr(X C_k)|² = ‖X‖_F²`. -/
theorem parseval_general {C : Fin N → Matrix (Fin d) (Fin d) ℂ} (hC : Spec.IsCompleteHS C)
    (X : Matrix (Fin d) (Fin d) ℂ) :
    ∑ k, ‖Matrix.trace (X * C k)‖ ^ 2 = frob X ^ 2 := by
  have he : Matrix.trace (X * Xᴴ)
      = ∑ j, Matrix.trace ((C j)ᴴ * Xᴴ) * Matrix.trace (X * C j) := by
    conv_lhs => rw [hC Xᴴ]
    rw [Matrix.mul_sum, Matrix.trace_sum]
    refine Finset.sum_congr rfl fun j _ => ?_
    rw [Matrix.mul_smul, Matrix.trace_smul, smul_eq_mul]
  have h : ((∑ k, ‖Matrix.trace (X * C k)‖ ^ 2 : ℝ) : ℂ) = ((frob X ^ 2 : ℝ) : ℂ) := by
    rw [frob_sq_trace, Matrix.trace_mul_comm, he]
    push_cast
    refine Finset.sum_congr rfl fun k _ => ?_
    rw [← Complex.conj_mul']
    congr 1
    rw [← Matrix.conjTranspose_mul, Matrix.trace_conjTranspose]
    rfl
  exact_mod_cast h

open FFVerif.SecondOrderAux Complex in
/-- the first-order integral at `x·dt = π`: `∫₀¹ e^{iπs} ds = 2i/π` -/
theorem segI_pi : segI Real.pi 1 = ((2 / Real.pi : ℝ) : ℂ) * I := by
  rw [segI_closed _ _ Real.pi_ne_zero]
  have hpi : (Real.pi : ℂ) ≠ 0 := by exact_mod_cast Real.pi_ne_zero
  have e : I * (Real.pi : ℂ) * ((1 : ℝ) : ℂ) = Real.pi * I := by push_cast; ring
  rw [e, Complex.exp_pi_mul_I]
  push_cast
  field_simp
  rw [Complex.I_sq]
  ring

/-- `conj((U†AU)_nm) = (U†A†U)_mn` -/
theorem adj_sandwich_apply (U A : Matrix (Fin d) (Fin d) ℂ) (m n : Fin d) :
    starRingEnd ℂ ((Uᴴ * A * U) n m) = (Uᴴ * Aᴴ * U) m n := by
  have h : (Uᴴ * A * U)ᴴ = Uᴴ * Aᴴ * U := by
    rw [Matrix.conjTranspose_mul, Matrix.conjTranspose_mul, Matrix.conjTranspose_conjTranspose,
      Matrix.mul_assoc]
  rw [← h, Matrix.conjTranspose_apply]
  rfl

end FFVerif.FrameAux
