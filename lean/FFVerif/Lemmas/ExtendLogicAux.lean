/-
Helper lemmas for `Props/C05d` (decision logic of `extend`, model `Model/ExtendLogic`): the
vocabulary of the property theorems (`AllCm`, `GridsAgree`, `AllPauli`, `FFOn`, …), the list
helpers of the model in declarative form, and the complete case analysis of `extendLogic`
(`extendLogic_branch`).
-/
import FFVerif.Model.ExtendLogic

namespace FFVerif.Model.ExtendLogic

/-- outcomes can be compared (for the `decide` examples) -/
instance : DecidableEq (Except Err Decision) := fun a b =>
  match a, b with
  | .ok x, .ok y => if h : x = y then isTrue (by rw [h]) else isFalse (fun h' => h (by cases h'; rfl))
  | .error x, .error y =>
    if h : x = y then isTrue (by rw [h]) else isFalse (fun h' => h (by cases h'; rfl))
  | .ok _, .error _ => isFalse (fun h' => by cases h')
  | .error _, .ok _ => isFalse (fun h' => by cases h')

/-! ### vocabulary -/

/-- every mapped pulse has a control matrix cached (`is_cached` of the code) -/
def AllCm (ps : List PulseState) : Prop := ∀ p ∈ ps, p.cmCached = true

/-- every mapped pulse has `eigvals`, `eigvecs` and `propagators` cached -/
def AllDiag (ps : List PulseState) : Prop := ∀ p ∈ ps, p.diagCached = true

/-- every mapped pulse has its total propagator cached -/
def AllTp (ps : List PulseState) : Prop := ∀ p ∈ ps, p.tpCached = true

/-- `equal_omega` of the code, on grid `g`: there is a pulse and EVERY pulse has grid `g` cached
(a pulse without cached frequencies makes it false) -/
def GridsAgree (ps : List PulseState) (g : Nat) : Prop := ps ≠ [] ∧ ∀ p ∈ ps, p.omega = some g

/-- the new pulse gets the Pauli basis: there is a pulse and every pulse has the Pauli basis -/
def AllPauli (ps : List PulseState) : Prop := ps ≠ [] ∧ ∀ p ∈ ps, p.btype = .pauli

instance (ps : List PulseState) : Decidable (AllCm ps) := by unfold AllCm; infer_instance
instance (ps : List PulseState) : Decidable (AllDiag ps) := by unfold AllDiag; infer_instance
instance (ps : List PulseState) : Decidable (AllTp ps) := by unfold AllTp; infer_instance
instance (ps : List PulseState) (g : Nat) : Decidable (GridsAgree ps g) := by
  unfold GridsAgree; infer_instance
instance (ps : List PulseState) : Decidable (AllPauli ps) := by unfold AllPauli; infer_instance

/-- a filter function is cached on grid `g` by this call — the three ways:
forced with `omega=`; forced without `omega=`, all cached grids equal `g`; automatic, all control
matrices cached and all cached grids equal `g` (whatever was passed as `omega=`) -/
def FFOn (ps : List PulseState) (o : Opts) (g : Nat) : Prop :=
  (o.cacheFF = some true ∧ o.omegaGiven = some g) ∨
  (o.cacheFF = some true ∧ o.omegaGiven = none ∧ GridsAgree ps g) ∨
  (o.cacheFF = none ∧ AllCm ps ∧ GridsAgree ps g)

/-- no filter function is cached and no error: disabled, or automatic and not everything there -/
def NoFF (ps : List PulseState) (o : Opts) : Prop :=
  o.cacheFF = some false ∨ (o.cacheFF = none ∧ ¬ (AllCm ps ∧ ∃ g, GridsAgree ps g))

/-- the condition of the `ValueError` of l. 2367 -/
def OmegaErr (ps : List PulseState) (o : Opts) : Prop :=
  o.cacheFF = some true ∧ o.omegaGiven = none ∧ ¬ ∃ g, GridsAgree ps g

/-- the condition of the `ValueError` of l. 2384 -/
def DiagErr (o : Opts) : Prop := o.cacheDiag = some false ∧ o.additional = true

/-- state of the filter function decision: `some g` = cached on `g`, `none` = not cached -/
def FFState (ps : List PulseState) (o : Opts) : Option Nat → Prop
  | some g => FFOn ps o g
  | none => NoFF ps o

/-- a control matrix / filter function is cached by the call -/
def FFKind.Cached (k : FFKind) : Prop := k ≠ .none

instance (k : FFKind) : Decidable k.Cached := by unfold FFKind.Cached; infer_instance

/-! ### list helpers -/

theorem gridsAgree_unique {ps : List PulseState} {g g' : Nat}
    (h : GridsAgree ps g) (h' : GridsAgree ps g') : g = g' := by
  obtain ⟨hne, hg⟩ := h
  cases ps with
  | nil => exact absurd rfl hne
  | cons p ps =>
    have h1 := hg p List.mem_cons_self
    have h2 := h'.2 p List.mem_cons_self
    rw [h1] at h2
    exact Option.some.inj h2

theorem equalOmega_iff (ps : List PulseState) :
    equalOmega ps = true ↔ ∃ g, GridsAgree ps g := by
  cases ps with
  | nil =>
    constructor
    · intro h; simp [equalOmega, allArrayEqual] at h
    · rintro ⟨g, h, _⟩; exact absurd rfl h
  | cons p ps =>
    cases hp : p.omega with
    | none =>
      constructor
      · intro h; simp [equalOmega, allArrayEqual, hp] at h
      · rintro ⟨g, _, h⟩
        have := h p List.mem_cons_self
        rw [hp] at this; cases this
    | some g =>
      by_cases hany : (ps.map (·.omega)).any (·.isNone) = true
      · constructor
        · intro h; simp [equalOmega, allArrayEqual, hp, hany] at h
        · rintro ⟨g', _, h⟩
          obtain ⟨x, hx, hxn⟩ := List.any_eq_true.mp hany
          obtain ⟨q, hq, rfl⟩ := List.mem_map.mp hx
          have := h q (List.mem_cons_of_mem _ hq)
          rw [this] at hxn; cases hxn
      · have hany' : (ps.map (·.omega)).any (·.isNone) = false := by
          cases h : (ps.map (·.omega)).any (·.isNone) with
          | true => exact absurd h hany
          | false => rfl
        have hval : equalOmega (p :: ps) = (ps.map (·.omega)).all (· == some g) := by
          simp only [equalOmega, allArrayEqual, List.map_cons, List.any_cons, hp, hany']
          rfl
        rw [hval]
        constructor
        · intro h
          refine ⟨g, by simp, ?_⟩
          intro q hq
          rcases List.mem_cons.mp hq with rfl | hq
          · exact hp
          · have := List.all_eq_true.mp h q.omega (List.mem_map.mpr ⟨q, hq, rfl⟩)
            simpa using this
        · rintro ⟨g', _, h⟩
          have hg' : g' = g := by
            have := h p List.mem_cons_self
            rw [hp] at this; exact (Option.some.inj this).symm
          subst hg'
          apply List.all_eq_true.mpr
          intro x hx
          obtain ⟨q, hq, rfl⟩ := List.mem_map.mp hx
          have := h q (List.mem_cons_of_mem _ hq)
          simp [this]

theorem firstOmega_of_agree {ps : List PulseState} {g : Nat} (h : GridsAgree ps g) :
    firstOmega ps = some g := by
  cases ps with
  | nil => exact absurd rfl h.1
  | cons p ps => exact h.2 p List.mem_cons_self

theorem allCm_iff (ps : List PulseState) : ps.all (·.cmCached) = true ↔ AllCm ps := by
  simp [AllCm, List.all_eq_true]

theorem allDiag_iff (ps : List PulseState) : ps.all (·.diagCached) = true ↔ AllDiag ps := by
  simp [AllDiag, List.all_eq_true]

theorem allTp_iff (ps : List PulseState) : ps.all (·.tpCached) = true ↔ AllTp ps := by
  simp [AllTp, List.all_eq_true]

theorem newBasisPauli_iff (ps : List PulseState) : newBasisPauli ps = true ↔ AllPauli ps := by
  cases ps with
  | nil =>
    constructor
    · intro h; cases h
    · rintro ⟨h, _⟩; exact absurd rfl h
  | cons p ps =>
    simp only [newBasisPauli, Bool.and_eq_true, List.all_eq_true, beq_iff_eq, AllPauli]
    constructor
    · rintro ⟨h1, h2⟩
      refine ⟨by simp, ?_⟩
      intro q hq
      rcases List.mem_cons.mp hq with rfl | hq
      · exact h2
      · rw [h1 q hq]; exact h2
    · rintro ⟨_, h⟩
      have hp := h p List.mem_cons_self
      refine ⟨fun q hq => ?_, hp⟩
      rw [h q (List.mem_cons_of_mem _ hq), hp]

/-! ### the three stages in declarative form -/

theorem ffOn_unique {ps : List PulseState} {o : Opts} {g g' : Nat}
    (h : FFOn ps o g) (h' : FFOn ps o g') : g = g' := by
  rcases h with ⟨h1, h2⟩ | ⟨h1, h2, h3⟩ | ⟨h1, _, h3⟩ <;>
  rcases h' with ⟨h1', h2'⟩ | ⟨h1', h2', h3'⟩ | ⟨h1', _, h3'⟩
  · rw [h2] at h2'; exact Option.some.inj h2'
  · rw [h2] at h2'; cases h2'
  · rw [h1] at h1'; cases h1'
  · rw [h2] at h2'; cases h2'
  · exact gridsAgree_unique h3 h3'
  · rw [h1] at h1'; cases h1'
  · rw [h1] at h1'; cases h1'
  · rw [h1] at h1'; cases h1'
  · exact gridsAgree_unique h3 h3'

theorem ffOn_not_noFF {ps : List PulseState} {o : Opts} {g : Nat} (h : FFOn ps o g) :
    ¬ NoFF ps o := by
  rintro (h' | ⟨h1', h2'⟩)
  · rcases h with ⟨h1, _⟩ | ⟨h1, _⟩ | ⟨h1, _⟩ <;> (rw [h1] at h'; cases h')
  · rcases h with ⟨h1, _⟩ | ⟨h1, _⟩ | ⟨_, h2, h3⟩
    · rw [h1] at h1'; cases h1'
    · rw [h1] at h1'; cases h1'
    · exact h2' ⟨h2, g, h3⟩

theorem ffOn_not_omegaErr {ps : List PulseState} {o : Opts} {g : Nat} (h : FFOn ps o g) :
    ¬ OmegaErr ps o := by
  rintro ⟨h1', h2', h3'⟩
  rcases h with ⟨_, h2⟩ | ⟨_, _, h3⟩ | ⟨h1, _⟩
  · rw [h2] at h2'; cases h2'
  · exact h3' ⟨g, h3⟩
  · rw [h1] at h1'; cases h1'

theorem noFF_not_omegaErr {ps : List PulseState} {o : Opts} (h : NoFF ps o) :
    ¬ OmegaErr ps o := by
  rintro ⟨h1', _⟩
  rcases h with h1 | ⟨h1, _⟩ <;> (rw [h1] at h1'; cases h1')

theorem ffState_unique {ps : List PulseState} {o : Opts} {a b : Option Nat}
    (ha : FFState ps o a) (hb : FFState ps o b) : a = b := by
  cases a with
  | none =>
    cases b with
    | none => rfl
    | some g => exact absurd ha (ffOn_not_noFF hb)
  | some g =>
    cases b with
    | none => exact absurd hb (ffOn_not_noFF ha)
    | some g' => rw [ffOn_unique ha hb]

theorem ffState_not_omegaErr {ps : List PulseState} {o : Opts} {a : Option Nat}
    (ha : FFState ps o a) : ¬ OmegaErr ps o := by
  cases a with
  | none => exact noFF_not_omegaErr ha
  | some g => exact ffOn_not_omegaErr ha

/-- complete case analysis of `chooseFF` -/
theorem chooseFF_cases (ps : List PulseState) (o : Opts) :
    (∃ g, FFOn ps o g ∧ chooseFF ps o = .ok (true, some g)) ∨
    (NoFF ps o ∧ chooseFF ps o = .ok (false, o.omegaGiven)) ∨
    (OmegaErr ps o ∧ chooseFF ps o = .error .omegaNotInferable) := by
  unfold chooseFF
  cases hf : o.cacheFF with
  | none =>
    by_cases hc : AllCm ps ∧ ∃ g, GridsAgree ps g
    · obtain ⟨hcm, g, hg⟩ := hc
      left
      refine ⟨g, .inr (.inr ⟨hf, hcm, hg⟩), ?_⟩
      have h1 := (allCm_iff ps).mpr hcm
      have h2 := (equalOmega_iff ps).mpr ⟨g, hg⟩
      simp [h1, h2, firstOmega_of_agree hg]
    · right; left
      refine ⟨.inr ⟨hf, hc⟩, ?_⟩
      have : (ps.all (·.cmCached) && equalOmega ps) = false := by
        cases h1 : ps.all (·.cmCached) with
        | false => rfl
        | true =>
          cases h2 : equalOmega ps with
          | false => rfl
          | true => exact absurd ⟨(allCm_iff ps).mp h1, (equalOmega_iff ps).mp h2⟩ hc
      simp [this]
  | some b =>
    cases b with
    | false => right; left; exact ⟨.inl hf, rfl⟩
    | true =>
      cases hg : o.omegaGiven with
      | some g => left; exact ⟨g, .inl ⟨hf, hg⟩, rfl⟩
      | none =>
        cases he : equalOmega ps with
        | false =>
          right; right
          refine ⟨⟨hf, hg, fun h => ?_⟩, by simp⟩
          rw [(equalOmega_iff ps).mpr h] at he; cases he
        | true =>
          obtain ⟨g, hga⟩ := (equalOmega_iff ps).mp he
          left
          exact ⟨g, .inr (.inl ⟨hf, hg, hga⟩), by simp [firstOmega_of_agree hga]⟩

/-- final value of `cache_diagonalization` (when l. 2384 does not raise); `fg` = grid of the
filter function that will be cached, if any -/
def wantDiag (ps : List PulseState) (o : Opts) (fg : Option Nat) : Bool :=
  match o.cacheDiag with
  | some b => b
  | none => (fg.isSome && o.additional) || ps.all (·.diagCached)

theorem chooseDiag_err {ps : List PulseState} {o : Opts} (ff : Bool) (h : DiagErr o) :
    chooseDiag ps o ff = .error .diagRequired := by
  unfold chooseDiag; rw [h.1, h.2]; rfl

theorem chooseDiag_ok {ps : List PulseState} {o : Opts} (fg : Option Nat) (h : ¬ DiagErr o) :
    chooseDiag ps o fg.isSome = .ok (wantDiag ps o fg) := by
  unfold chooseDiag wantDiag
  cases hc : o.cacheDiag with
  | none =>
    cases h1 : (fg.isSome && o.additional) <;> simp
  | some b =>
    cases b with
    | true => rfl
    | false =>
      cases ha : o.additional with
      | false => rfl
      | true => exact absurd ⟨hc, ha⟩ h

/-- what `extend` does once the grid of the filter function (`fg`, `none` = no filter function)
and the final `cache_diagonalization` (`cd`) are known — `build` without its unreachable error -/
def decision (ps : List PulseState) (o : Opts) (fg : Option Nat) (cd : Bool) : Decision :=
  let nobody := ps.map fun _ => false
  if newBasisPauli ps then
    match fg with
    | some g =>
      { returnedInput := false, diagWanted := cd,
        diag := if cd then .extended else if o.additional then .recomputed
                else if ps.all (·.tpCached) then .none else .recomputed,
        tpExtended := !cd && ps.all (·.tpCached), ff := .extended g, addRows := o.additional,
        inputDiag := ps.map fun p => !p.diagCached && (cd || cmMiss p g),
        inputCM := ps.map fun p => cmMiss p g }
    | none =>
      { returnedInput := false, diagWanted := cd, diag := if cd then .extended else .none,
        tpExtended := !cd && ps.all (·.tpCached), ff := .none, addRows := false,
        inputDiag := ps.map fun p => !p.diagCached && cd, inputCM := nobody }
  else
    match fg with
    | some g =>
      { returnedInput := false, diagWanted := cd, diag := .recomputed, tpExtended := false,
        ff := .recomputed g, addRows := false, inputDiag := nobody, inputCM := nobody }
    | none =>
      { returnedInput := false, diagWanted := cd, diag := if cd then .recomputed else .none,
        tpExtended := false, ff := .none, addRows := false, inputDiag := nobody,
        inputCM := nobody }

theorem build_some (ps : List PulseState) (o : Opts) (g : Nat) (cd : Bool) :
    build ps o true (some g) cd = .ok (decision ps o (some g) cd) := by
  unfold build decision
  cases newBasisPauli ps <;> simp

theorem build_none (ps : List PulseState) (o : Opts) (om : Option Nat) (cd : Bool) :
    build ps o false om cd = .ok (decision ps o none cd) := by
  unfold build decision
  cases newBasisPauli ps <;> simp

/-! ### the complete case analysis -/

/-- the paths through `extendLogic`, each with the declarative conditions under which it is
taken -/
inductive Branch (ps : List PulseState) (o : Opts) : Except Err Decision → Prop
  /-- the shortcut -/
  | early : o.earlyReturn = true → Branch ps o (.ok Decision.returned)
  /-- l. 2367 -/
  | errOmega : o.earlyReturn = false → OmegaErr ps o → Branch ps o (.error .omegaNotInferable)
  /-- l. 2384 -/
  | errDiag (fg : Option Nat) : o.earlyReturn = false → FFState ps o fg → DiagErr o →
      Branch ps o (.error .diagRequired)
  /-- a new pulse is built -/
  | built (fg : Option Nat) : o.earlyReturn = false → FFState ps o fg → ¬ DiagErr o →
      Branch ps o (.ok (decision ps o fg (wantDiag ps o fg)))

theorem extendLogic_branch (ps : List PulseState) (o : Opts) : Branch ps o (extendLogic ps o) := by
  unfold extendLogic
  cases he : o.earlyReturn with
  | true => exact .early he
  | false =>
    simp only [Bool.false_eq_true, if_false]
    rcases chooseFF_cases ps o with ⟨g, hon, hc⟩ | ⟨hno, hc⟩ | ⟨herr, hc⟩
    · rw [hc]
      by_cases hd : DiagErr o
      · have := chooseDiag_err (ps := ps) true hd
        simp only [this]
        exact .errDiag (some g) he hon hd
      · have := chooseDiag_ok (ps := ps) (some g) hd
        simp only [Option.isSome_some] at this
        simp only [this, build_some]
        exact .built (some g) he hon hd
    · rw [hc]
      by_cases hd : DiagErr o
      · have := chooseDiag_err (ps := ps) false hd
        simp only [this]
        exact .errDiag none he hno hd
      · have := chooseDiag_ok (ps := ps) none hd
        simp only [Option.isSome_none] at this
        simp only [this, build_none]
        exact .built none he hno hd
    · rw [hc]
      exact .errOmega he herr

/-! ### fields of `decision` -/

theorem decision_ff (ps : List PulseState) (o : Opts) (fg : Option Nat) (cd : Bool) :
    (decision ps o fg cd).ff =
      match fg with
      | none => .none
      | some g => if newBasisPauli ps then .extended g else .recomputed g := by
  unfold decision
  cases newBasisPauli ps <;> cases fg <;> rfl

theorem decision_grid (ps : List PulseState) (o : Opts) (fg : Option Nat) (cd : Bool) :
    (decision ps o fg cd).ff.grid? = fg := by
  rw [decision_ff]
  cases fg with
  | none => rfl
  | some g => cases newBasisPauli ps <;> rfl

theorem decision_cached (ps : List PulseState) (o : Opts) (fg : Option Nat) (cd : Bool) :
    (decision ps o fg cd).ff.Cached ↔ fg.isSome = true := by
  unfold FFKind.Cached
  rw [decision_ff]
  cases fg with
  | none => simp
  | some g => cases newBasisPauli ps <;> simp

theorem decision_diagWanted (ps : List PulseState) (o : Opts) (fg : Option Nat) (cd : Bool) :
    (decision ps o fg cd).diagWanted = cd := by
  unfold decision
  cases newBasisPauli ps <;> cases fg <;> rfl

theorem decision_returnedInput (ps : List PulseState) (o : Opts) (fg : Option Nat) (cd : Bool) :
    (decision ps o fg cd).returnedInput = false := by
  unfold decision
  cases newBasisPauli ps <;> cases fg <;> rfl

theorem decision_addRows (ps : List PulseState) (o : Opts) (fg : Option Nat) (cd : Bool) :
    (decision ps o fg cd).addRows = (newBasisPauli ps && fg.isSome && o.additional) := by
  unfold decision
  cases newBasisPauli ps <;> cases fg <;> simp

theorem decision_diag (ps : List PulseState) (o : Opts) (fg : Option Nat) (cd : Bool) :
    (decision ps o fg cd).diag =
      if newBasisPauli ps then
        (if cd then .extended
         else if fg.isSome && o.additional then .recomputed
         else if fg.isSome && !ps.all (·.tpCached) then .recomputed else .none)
      else (if cd || fg.isSome then .recomputed else .none) := by
  unfold decision
  generalize ps.all (·.tpCached) = t
  generalize newBasisPauli ps = b
  generalize o.additional = a
  cases b <;> cases fg <;> cases cd <;> cases t <;> cases a <;> rfl

/-- with an additional noise Hamiltonian and a filter function the final `cache_diagonalization`
is `True` (or l. 2384 has raised) -/
theorem wantDiag_of_additional {ps : List PulseState} {o : Opts} {g : Nat}
    (ha : o.additional = true) (hd : ¬ DiagErr o) : wantDiag ps o (some g) = true := by
  unfold wantDiag
  cases hc : o.cacheDiag with
  | none => simp [ha]
  | some b =>
    cases b with
    | true => rfl
    | false => exact absurd ⟨hc, ha⟩ hd

end FFVerif.Model.ExtendLogic
