/-
Helper lemmas for C11Deriv: derivative of the exponential along a line in a (non-commutative)
complete normed algebra by termwise differentiation of the power series, the scalar divided
difference of `exp`, and the product rule for a chain of propagators.
-/
import Mathlib.Analysis.Normed.Algebra.Exponential
import Mathlib.Analysis.Normed.Algebra.MatrixExponential
import Mathlib.Analysis.SpecialFunctions.Exponential
import Mathlib.Analysis.Calculus.SmoothSeries
import Mathlib.Analysis.Calculus.Deriv.Pow
import Mathlib.Analysis.Calculus.Deriv.Mul
import Mathlib.Analysis.Calculus.Deriv.Prod
import Mathlib.Analysis.Calculus.Deriv.Star
import Mathlib.Analysis.SpecificLimits.Normed
import Mathlib.Algebra.Field.GeomSum
import Mathlib.Analysis.Complex.RealDeriv
import Mathlib.LinearAlgebra.Matrix.Hadamard
import Mathlib.LinearAlgebra.Matrix.Trace

namespace FFVerif.ExpDerivAux
open scoped Nat
open Finset

/-! ### 1. termwise differentiation of `exp (X + u • Y)` -/

section series
variable {𝕂 𝔸 : Type*} [RCLike 𝕂] [NormedRing 𝔸] [NormedAlgebra 𝕂 𝔸]

/-- `‖a ^ k‖ ≤ max 1 ‖1‖ · ‖a‖ ^ k` in any normed ring (no `NormOneClass` needed). -/
theorem norm_pow_le_max (a : 𝔸) (k : ℕ) : ‖a ^ k‖ ≤ max 1 ‖(1 : 𝔸)‖ * ‖a‖ ^ k := by
  rcases Nat.eq_zero_or_pos k with rfl | hk
  · simp
  · calc ‖a ^ k‖ ≤ ‖a‖ ^ k := norm_pow_le' a hk
      _ ≤ max 1 ‖(1 : 𝔸)‖ * ‖a‖ ^ k :=
        le_mul_of_one_le_left (pow_nonneg (norm_nonneg _) _) (le_max_left _ _)

/-- the `n`-th term of the differentiated series at the point `Z` in direction `Y` -/
def dTerm (Z Y : 𝔸) (n : ℕ) : 𝔸 := ∑ i ∈ range n, Z ^ (n.pred - i) * Y * Z ^ i

theorem norm_dTerm_le (Z Y : 𝔸) (R : ℝ) (hZ : ‖Z‖ ≤ R) (n : ℕ) :
    ‖dTerm Z Y n‖ ≤ (max 1 ‖(1 : 𝔸)‖) ^ 2 * ‖Y‖ * (n * R ^ n.pred) := by
  have hR : 0 ≤ R := le_trans (norm_nonneg _) hZ
  have hc : 0 ≤ max 1 ‖(1 : 𝔸)‖ := le_trans zero_le_one (le_max_left _ _)
  unfold dTerm
  refine le_trans (norm_sum_le _ _) ?_
  have hterm : ∀ i ∈ range n, ‖Z ^ (n.pred - i) * Y * Z ^ i‖
      ≤ (max 1 ‖(1 : 𝔸)‖) ^ 2 * ‖Y‖ * R ^ n.pred := by
    intro i hi
    have hi' : i < n := mem_range.mp hi
    have e : n.pred - i + i = n.pred := by
      have : i ≤ n.pred := Nat.le_pred_of_lt hi'
      omega
    have h1 : ‖Z ^ (n.pred - i)‖ ≤ max 1 ‖(1 : 𝔸)‖ * R ^ (n.pred - i) :=
      le_trans (norm_pow_le_max Z _)
        (mul_le_mul_of_nonneg_left (pow_le_pow_left₀ (norm_nonneg _) hZ _) hc)
    have h2 : ‖Z ^ i‖ ≤ max 1 ‖(1 : 𝔸)‖ * R ^ i :=
      le_trans (norm_pow_le_max Z _)
        (mul_le_mul_of_nonneg_left (pow_le_pow_left₀ (norm_nonneg _) hZ _) hc)
    calc ‖Z ^ (n.pred - i) * Y * Z ^ i‖
        ≤ ‖Z ^ (n.pred - i)‖ * ‖Y‖ * ‖Z ^ i‖ :=
          le_trans (norm_mul_le _ _) (mul_le_mul_of_nonneg_right (norm_mul_le _ _) (norm_nonneg _))
      _ ≤ (max 1 ‖(1 : 𝔸)‖ * R ^ (n.pred - i)) * ‖Y‖ * (max 1 ‖(1 : 𝔸)‖ * R ^ i) := by
          gcongr
      _ = (max 1 ‖(1 : 𝔸)‖) ^ 2 * ‖Y‖ * (R ^ (n.pred - i) * R ^ i) := by ring
      _ = (max 1 ‖(1 : 𝔸)‖) ^ 2 * ‖Y‖ * R ^ n.pred := by rw [← pow_add, e]
  calc ∑ i ∈ range n, ‖Z ^ (n.pred - i) * Y * Z ^ i‖
      ≤ ∑ _i ∈ range n, (max 1 ‖(1 : 𝔸)‖) ^ 2 * ‖Y‖ * R ^ n.pred := sum_le_sum hterm
    _ = (max 1 ‖(1 : 𝔸)‖) ^ 2 * ‖Y‖ * (n * R ^ n.pred) := by
        rw [sum_const, card_range, nsmul_eq_mul]; ring

/-- the majorant `n ↦ c · (n · R^(n-1) / n!)` is summable -/
theorem summable_majorant (c R : ℝ) :
    Summable fun n : ℕ => ((n ! : ℝ))⁻¹ * (c * (n * R ^ n.pred)) := by
  rw [← summable_nat_add_iff 1]
  have h : (fun n : ℕ => (((n + 1) ! : ℝ))⁻¹ * (c * ((n + 1 : ℕ) * R ^ (n + 1).pred)))
      = fun n : ℕ => c * (R ^ n / (n ! : ℝ)) := by
    funext n
    have h1 : ((n + 1 : ℕ) : ℝ) ≠ 0 := by positivity
    have h2 : ((n ! : ℕ) : ℝ) ≠ 0 := by positivity
    rw [Nat.factorial_succ, Nat.pred_succ]
    push_cast
    field_simp
  rw [h]
  exact (Real.summable_pow_div_factorial R).mul_left c

variable [CompleteSpace 𝔸]

/-- **Termwise differentiation of the exponential series along a line** (any complete normed
algebra over `ℝ` or `ℂ`, `X` and `Y` need not commute), raw form: the `n`-th term of the derivative
is `(1/n!) Σ_{i<n} X^(n-1-i) Y X^i`. -/
theorem exp_line_hasDerivAt_raw (X Y : 𝔸) :
    HasDerivAt (fun u : 𝕂 => NormedSpace.exp (X + u • Y))
      (∑' n : ℕ, ((n ! : 𝕂))⁻¹ • dTerm X Y n) 0 := by
  set c : ℝ := (max 1 ‖(1 : 𝔸)‖) ^ 2 * ‖Y‖ with hc
  set R : ℝ := ‖X‖ + ‖Y‖ with hR
  have hfun : (fun u : 𝕂 => NormedSpace.exp (X + u • Y))
      = fun u : 𝕂 => ∑' n : ℕ, ((n ! : 𝕂))⁻¹ • (X + u • Y) ^ n := by
    funext u
    rw [NormedSpace.exp_eq_tsum 𝕂]
  rw [hfun]
  have hline : ∀ u : 𝕂, HasDerivAt (fun u : 𝕂 => X + u • Y) Y u := by
    intro u
    have := ((hasDerivAt_id u).smul_const Y).const_add X
    simpa using this
  have key := hasDerivAt_tsum_of_isPreconnected (𝕜 := 𝕂) (F := 𝔸)
    (g := fun n u => ((n ! : 𝕂))⁻¹ • (X + u • Y) ^ n)
    (g' := fun n u => ((n ! : 𝕂))⁻¹ • dTerm (X + u • Y) Y n)
    (u := fun n => ((n ! : ℝ))⁻¹ * (c * (n * R ^ n.pred)))
    (t := Metric.ball (0 : 𝕂) 1) (y₀ := 0) (y := 0)
    (summable_majorant c R) Metric.isOpen_ball (convex_ball (0 : 𝕂) 1).isPreconnected
    ?_ ?_ (Metric.mem_ball_self one_pos) ?_ (Metric.mem_ball_self one_pos)
  · simpa using key
  · intro n u _
    exact ((hline u).fun_pow' n).const_smul ((n ! : 𝕂))⁻¹
  · intro n u hu
    have hu1 : ‖u‖ ≤ 1 := by
      have := Metric.mem_ball.mp hu
      rw [dist_zero_right] at this
      exact this.le
    have hZ : ‖X + u • Y‖ ≤ R := by
      refine le_trans (norm_add_le _ _) (add_le_add le_rfl ?_)
      rw [norm_smul]
      exact mul_le_of_le_one_left (norm_nonneg _) hu1
    rw [norm_smul, norm_inv, RCLike.norm_natCast]
    exact mul_le_mul_of_nonneg_left (norm_dTerm_le _ Y R hZ n) (by positivity)
  · simpa using NormedSpace.expSeries_summable' (𝕂 := 𝕂) X

/-- the differentiated series is (absolutely) summable -/
theorem summable_dTerm (X Y : 𝔸) : Summable fun n : ℕ => ((n ! : 𝕂))⁻¹ • dTerm X Y n := by
  refine Summable.of_norm_bounded
    (summable_majorant ((max 1 ‖(1 : 𝔸)‖) ^ 2 * ‖Y‖) ‖X‖) fun n => ?_
  rw [norm_smul, norm_inv, RCLike.norm_natCast]
  exact mul_le_mul_of_nonneg_left (norm_dTerm_le X Y ‖X‖ le_rfl n) (by positivity)

omit [CompleteSpace 𝔸] in
theorem dTerm_succ (X Y : 𝔸) (n : ℕ) :
    dTerm X Y (n + 1) = ∑ k ∈ range (n + 1), X ^ k * Y * X ^ (n - k) := by
  unfold dTerm
  rw [← Finset.sum_range_reflect (fun k => X ^ k * Y * X ^ (n - k)) (n + 1)]
  refine Finset.sum_congr rfl fun i hi => ?_
  have hi' : i ≤ n := Nat.lt_succ_iff.mp (mem_range.mp hi)
  have e1 : (n + 1).pred - i = n + 1 - 1 - i := rfl
  have e2 : n - (n + 1 - 1 - i) = i := by omega
  rw [e1, e2]

/-- **`exp_line_hasDerivAt_series`** — termwise differentiation of the exponential series: in any
complete normed algebra over `ℝ` or `ℂ` (`X`, `Y` need not commute) the map `u ↦ exp (X + u • Y)`
has at `u = 0` the derivative `Σ_n (1/(n+1)!) Σ_{k ≤ n} X^k Y X^(n-k)`. -/
theorem exp_line_hasDerivAt_series (X Y : 𝔸) :
    HasDerivAt (fun u : 𝕂 => NormedSpace.exp (X + u • Y))
      (∑' n : ℕ, (((n + 1) ! : 𝕂))⁻¹ • ∑ k ∈ range (n + 1), X ^ k * Y * X ^ (n - k)) 0 := by
  have h := exp_line_hasDerivAt_raw (𝕂 := 𝕂) X Y
  rw [(summable_dTerm (𝕂 := 𝕂) X Y).tsum_eq_zero_add] at h
  have h0 : dTerm X Y 0 = 0 := by simp [dTerm]
  rw [h0, smul_zero, zero_add] at h
  simpa only [dTerm_succ] using h

end series

/-! ### 2. the divided difference of the scalar exponential as a power series -/

section scalar
open Complex

/-- the `N`-th term of the series of the divided difference `(e^a - e^b)/(a - b)` -/
noncomputable def ddTerm (a b : ℂ) (N : ℕ) : ℂ :=
  (((N + 1) ! : ℂ))⁻¹ * ∑ k ∈ range (N + 1), a ^ k * b ^ (N - k)

/-- `Σ_N a^(N+1)/(N+1)! = e^a - 1` -/
theorem hasSum_exp_shift (a : ℂ) :
    HasSum (fun N : ℕ => a ^ (N + 1) / ((N + 1) ! : ℂ)) (Complex.exp a - 1) := by
  have h : HasSum (fun n : ℕ => a ^ n / (n ! : ℂ)) (Complex.exp a) := by
    rw [Complex.exp_eq_exp_ℂ]
    exact NormedSpace.expSeries_div_hasSum_exp a
  have := (hasSum_nat_add_iff' 1).2 h
  simpa using this

theorem hasSum_ddTerm_of_ne {a b : ℂ} (hab : a ≠ b) :
    HasSum (ddTerm a b) ((Complex.exp a - Complex.exp b) / (a - b)) := by
  have hsub : a - b ≠ 0 := sub_ne_zero.mpr hab
  have h := ((hasSum_exp_shift a).sub (hasSum_exp_shift b)).div_const (a - b)
  have e : (Complex.exp a - 1 - (Complex.exp b - 1)) / (a - b)
      = (Complex.exp a - Complex.exp b) / (a - b) := by ring
  rw [e] at h
  refine h.congr_fun ?_
  intro N
  unfold ddTerm
  have hg := (Commute.all a b).geom_sum₂ hab (N + 1)
  simp only [Nat.add_sub_cancel] at hg
  rw [hg]
  have hN : (((N + 1) ! : ℕ) : ℂ) ≠ 0 := by exact_mod_cast (Nat.factorial_ne_zero _)
  field_simp

theorem hasSum_ddTerm_self (a : ℂ) : HasSum (ddTerm a a) (Complex.exp a) := by
  have h : HasSum (fun n : ℕ => a ^ n / (n ! : ℂ)) (Complex.exp a) := by
    rw [Complex.exp_eq_exp_ℂ]
    exact NormedSpace.expSeries_div_hasSum_exp a
  refine h.congr_fun ?_
  intro N
  unfold ddTerm
  have hk : ∀ k ∈ range (N + 1), a ^ k * a ^ (N - k) = a ^ N := by
    intro k hk
    rw [← pow_add]
    congr 1
    have := mem_range.mp hk
    omega
  rw [Finset.sum_congr rfl hk, sum_const, card_range, nsmul_eq_mul, Nat.factorial_succ]
  have h1 : ((N + 1 : ℕ) : ℂ) ≠ 0 := by exact_mod_cast Nat.succ_ne_zero N
  have h2 : ((N ! : ℕ) : ℂ) ≠ 0 := by exact_mod_cast (Nat.factorial_ne_zero _)
  push_cast
  field_simp

/-- the divided difference of `exp`: `(e^a - e^b)/(a - b)`, and `e^a` on the diagonal -/
noncomputable def divDiffExp (a b : ℂ) : ℂ :=
  if a = b then Complex.exp a else (Complex.exp a - Complex.exp b) / (a - b)

theorem hasSum_ddTerm (a b : ℂ) : HasSum (ddTerm a b) (divDiffExp a b) := by
  unfold divDiffExp
  split_ifs with h
  · subst h; exact hasSum_ddTerm_self a
  · exact hasSum_ddTerm_of_ne h

theorem divDiffExp_mul_sub (a b : ℂ) : divDiffExp a b * (a - b) = Complex.exp a - Complex.exp b := by
  unfold divDiffExp
  split_ifs with h
  · subst h; simp
  · exact div_mul_cancel₀ _ (sub_ne_zero.mpr h)

theorem divDiffExp_self (a : ℂ) : divDiffExp a a = Complex.exp a := by simp [divDiffExp]

end scalar

/-! ### 3. complex matrices: diagonal `X`, and conjugation by a unitary -/

section matrix
open Matrix Complex
variable {d : ℕ}

theorem diag_sandwich_apply (x : Fin d → ℂ) (Y : Matrix (Fin d) (Fin d) ℂ) (k l : ℕ)
    (m n : Fin d) :
    ((diagonal x) ^ k * Y * (diagonal x) ^ l) m n = x m ^ k * Y m n * x n ^ l := by
  rw [Matrix.diagonal_pow, Matrix.diagonal_pow, Matrix.mul_diagonal, Matrix.diagonal_mul]
  simp [Pi.pow_apply]

/-- for diagonal `X = diag(x)` the differentiated exponential series has the entries
`Y_mn · (e^{x_m} - e^{x_n})/(x_m - x_n)` (`Y_mn e^{x_m}` where `x_m = x_n`). -/
theorem tsum_dSeries_diagonal (x : Fin d → ℂ) (Y : Matrix (Fin d) (Fin d) ℂ) :
    (∑' N : ℕ, (((N + 1) ! : ℂ))⁻¹ •
        ∑ k ∈ range (N + 1), (diagonal x) ^ k * Y * (diagonal x) ^ (N - k))
      = Matrix.of fun m n => divDiffExp (x m) (x n) * Y m n := by
  refine HasSum.tsum_eq ?_
  refine (Pi.hasSum (f := fun N : ℕ => (((((N + 1) ! : ℂ))⁻¹ •
        ∑ k ∈ range (N + 1), (diagonal x) ^ k * Y * (diagonal x) ^ (N - k) :
          Matrix (Fin d) (Fin d) ℂ) : Fin d → Fin d → ℂ))).2 fun m => ?_
  refine Pi.hasSum.2 fun n => ?_
  have h := (hasSum_ddTerm (x m) (x n)).mul_right (Y m n)
  refine h.congr_fun ?_
  intro N
  show ((((N + 1) ! : ℂ))⁻¹ •
        ∑ k ∈ range (N + 1), (diagonal x) ^ k * Y * (diagonal x) ^ (N - k)) m n = _
  rw [Matrix.smul_apply, Matrix.sum_apply, smul_eq_mul]
  unfold ddTerm
  rw [mul_assoc, Finset.sum_mul]
  congr 1
  refine Finset.sum_congr rfl fun k _ => ?_
  rw [diag_sandwich_apply]
  ring

/-- **derivative of `exp` along a line through a diagonal matrix** -/
theorem exp_diag_line_hasDerivAt (x : Fin d → ℂ) (Y : Matrix (Fin d) (Fin d) ℂ) :
    HasDerivAt (fun u : ℂ => NormedSpace.exp (diagonal x + u • Y))
      (Matrix.of fun m n => divDiffExp (x m) (x n) * Y m n) 0 := by
  let _ : SeminormedRing (Matrix (Fin d) (Fin d) ℂ) := Matrix.linftyOpSemiNormedRing
  let _ : NormedRing (Matrix (Fin d) (Fin d) ℂ) := Matrix.linftyOpNormedRing
  let _ : NormedAlgebra ℂ (Matrix (Fin d) (Fin d) ℂ) := Matrix.linftyOpNormedAlgebra
  have h := exp_line_hasDerivAt_series (𝕂 := ℂ) (diagonal x) Y
  rw [← tsum_dSeries_diagonal x Y]
  exact h

/-- the same after conjugation with a unitary `V` -/
theorem exp_conj_line_hasDerivAt (V : Matrix (Fin d) (Fin d) ℂ) (hl : Vᴴ * V = 1)
    (hr : V * Vᴴ = 1) (x : Fin d → ℂ) (Y : Matrix (Fin d) (Fin d) ℂ) :
    HasDerivAt (fun u : ℂ => NormedSpace.exp (V * diagonal x * Vᴴ + u • (V * Y * Vᴴ)))
      (V * (Matrix.of fun m n => divDiffExp (x m) (x n) * Y m n) * Vᴴ) 0 := by
  let _ : SeminormedRing (Matrix (Fin d) (Fin d) ℂ) := Matrix.linftyOpSemiNormedRing
  let _ : NormedRing (Matrix (Fin d) (Fin d) ℂ) := Matrix.linftyOpNormedRing
  let _ : NormedAlgebra ℂ (Matrix (Fin d) (Fin d) ℂ) := Matrix.linftyOpNormedAlgebra
  have hinv : V⁻¹ = Vᴴ := Matrix.inv_eq_right_inv hr
  have hunit : IsUnit V := ⟨⟨V, Vᴴ, hr, hl⟩, rfl⟩
  have hfun : (fun u : ℂ => NormedSpace.exp (V * diagonal x * Vᴴ + u • (V * Y * Vᴴ)))
      = fun u : ℂ => V * NormedSpace.exp (diagonal x + u • Y) * Vᴴ := by
    funext u
    have e : V * diagonal x * Vᴴ + u • (V * Y * Vᴴ) = V * (diagonal x + u • Y) * V⁻¹ := by
      rw [hinv, Matrix.mul_add, Matrix.add_mul, Matrix.mul_smul, Matrix.smul_mul]
    rw [e, Matrix.exp_conj _ _ hunit, hinv]
  rw [hfun]
  exact ((exp_diag_line_hasDerivAt x Y).const_mul V).mul_const Vᴴ

end matrix

/-! ### 4. matrix-valued functions of a real parameter -/

section realparam
open Matrix Complex
variable {d : ℕ}

/-- a matrix-valued function of a real parameter is differentiable iff all its entries are -/
theorem matrix_hasDerivAt_iff (F : ℝ → Matrix (Fin d) (Fin d) ℂ) (F' : Matrix (Fin d) (Fin d) ℂ)
    (u0 : ℝ) :
    HasDerivAt F F' u0 ↔ ∀ i j, HasDerivAt (fun u => F u i j) (F' i j) u0 := by
  have h1 : HasDerivAt (fun u => (F u : Fin d → Fin d → ℂ)) (F' : Fin d → Fin d → ℂ) u0
      ↔ ∀ i, HasDerivAt (fun u => (F u i : Fin d → ℂ)) (F' i : Fin d → ℂ) u0 := hasDerivAt_pi
  refine Iff.trans h1 ?_
  refine forall_congr' fun i => ?_
  exact hasDerivAt_pi

/-- restriction of a complex-parameter derivative to the real line -/
theorem matrix_hasDerivAt_comp_ofReal (F : ℂ → Matrix (Fin d) (Fin d) ℂ)
    (F' : Matrix (Fin d) (Fin d) ℂ) (u0 : ℝ) (h : HasDerivAt F F' (u0 : ℂ)) :
    HasDerivAt (fun u : ℝ => F (u : ℂ)) F' u0 := by
  let _ : SeminormedRing (Matrix (Fin d) (Fin d) ℂ) := Matrix.linftyOpSemiNormedRing
  let _ : NormedRing (Matrix (Fin d) (Fin d) ℂ) := Matrix.linftyOpNormedRing
  let _ : NormedAlgebra ℂ (Matrix (Fin d) (Fin d) ℂ) := Matrix.linftyOpNormedAlgebra
  let _ : NormedSpace ℝ (Matrix (Fin d) (Fin d) ℂ) := Matrix.linftyOpNormedSpace
  have h2 : HasDerivAt (fun u : ℝ => (u : ℂ)) (1 : ℂ) u0 := Complex.ofRealCLM.hasDerivAt
  have h3 := HasDerivAt.scomp (𝕜 := ℝ) (𝕜' := ℂ) u0 h h2
  rw [one_smul] at h3
  exact h3

/-- product of two differentiable matrix-valued functions of a real parameter -/
theorem matrix_hasDerivAt_mul {F G : ℝ → Matrix (Fin d) (Fin d) ℂ}
    {F' G' : Matrix (Fin d) (Fin d) ℂ} {u0 : ℝ} (hF : HasDerivAt F F' u0)
    (hG : HasDerivAt G G' u0) :
    HasDerivAt (fun u => F u * G u) (F' * G u0 + F u0 * G') u0 := by
  let _ : SeminormedRing (Matrix (Fin d) (Fin d) ℂ) := Matrix.linftyOpSemiNormedRing
  let _ : NormedRing (Matrix (Fin d) (Fin d) ℂ) := Matrix.linftyOpNormedRing
  let _ : NormedAlgebra ℝ (Matrix (Fin d) (Fin d) ℂ) := Matrix.linftyOpNormedAlgebra
  exact HasDerivAt.fun_mul hF hG

/-- conjugate transpose of a differentiable matrix-valued function of a real parameter -/
theorem matrix_hasDerivAt_conjTranspose {F : ℝ → Matrix (Fin d) (Fin d) ℂ}
    {F' : Matrix (Fin d) (Fin d) ℂ} {u0 : ℝ} (hF : HasDerivAt F F' u0) :
    HasDerivAt (fun u => (F u)ᴴ) F'ᴴ u0 := by
  rw [matrix_hasDerivAt_iff] at hF ⊢
  intro i j
  simp only [Matrix.conjTranspose_apply]
  exact (hF j i).star

theorem matrix_hasDerivAt_const (A : Matrix (Fin d) (Fin d) ℂ) (u0 : ℝ) :
    HasDerivAt (fun _ : ℝ => A) 0 u0 := by
  rw [matrix_hasDerivAt_iff]
  intro i j
  exact hasDerivAt_const u0 (A i j)

/-- trace of a differentiable matrix-valued function of a real parameter -/
theorem matrix_hasDerivAt_trace {F : ℝ → Matrix (Fin d) (Fin d) ℂ}
    {F' : Matrix (Fin d) (Fin d) ℂ} {u0 : ℝ} (hF : HasDerivAt F F' u0) :
    HasDerivAt (fun u => Matrix.trace (F u)) (Matrix.trace F') u0 := by
  rw [matrix_hasDerivAt_iff] at hF
  simp only [Matrix.trace, Matrix.diag_apply]
  exact HasDerivAt.fun_sum fun i _ => hF i i

/-- **Product rule for a chain of propagators.**  `Q_0 = 1`, `Q_{g+1}(u) = P_g(u) Q_g(u)` for
`g < N`; only the factor `P_{g'}` depends on `u` and has the derivative `dP` at `u = 0`; `Q_{g'+1}(0)`
is (right-)unitary.  Then for every `g ≤ N` the derivative of `Q_g` at `u = 0` is
`Q_g Q_{g'+1}† dP Q_{g'}` (all at `u = 0`) if `g' < g`, and `0` if `g' ≥ g`. -/
theorem chain_hasDerivAt (N : ℕ) (P Q : ℕ → ℝ → Matrix (Fin d) (Fin d) ℂ) (g' : ℕ)
    (dP : Matrix (Fin d) (Fin d) ℂ)
    (hQ0 : ∀ u, Q 0 u = 1) (hQs : ∀ g, g < N → ∀ u, Q (g + 1) u = P g u * Q g u)
    (hconst : ∀ g, g < N → g ≠ g' → ∀ u, P g u = P g 0)
    (hP : HasDerivAt (P g') dP 0)
    (hU : Q (g' + 1) 0 * (Q (g' + 1) 0)ᴴ = 1) (g : ℕ) (hg : g ≤ N) :
    HasDerivAt (Q g)
      (if g' < g then Q g 0 * (Q (g' + 1) 0)ᴴ * dP * Q g' 0 else 0) 0 := by
  induction g with
  | zero =>
    have : Q 0 = fun _ => (1 : Matrix (Fin d) (Fin d) ℂ) := funext hQ0
    rw [this, if_neg (Nat.not_lt_zero _)]
    exact matrix_hasDerivAt_const 1 0
  | succ g ih =>
    have hgN : g < N := hg
    have ih' := ih (Nat.le_of_succ_le hg)
    have hfun : Q (g + 1) = fun u => P g u * Q g u := funext (hQs g hgN)
    by_cases hgg : g = g'
    · subst hgg
      rw [if_neg (Nat.lt_irrefl _)] at ih'
      rw [if_pos (Nat.lt_succ_self _), hU, Matrix.one_mul, hfun]
      have h := matrix_hasDerivAt_mul hP ih'
      rw [Matrix.mul_zero, add_zero] at h
      exact h
    · have hfun' : Q (g + 1) = fun u => P g 0 * Q g u :=
        funext fun u => by rw [hQs g hgN u, hconst g hgN hgg u]
      have h := matrix_hasDerivAt_mul (matrix_hasDerivAt_const (P g 0) 0) ih'
      have hval : (0 * Q g 0
            + P g 0 * (if g' < g then Q g 0 * (Q (g' + 1) 0)ᴴ * dP * Q g' 0 else 0))
          = (if g' < g + 1 then Q (g + 1) 0 * (Q (g' + 1) 0)ᴴ * dP * Q g' 0 else 0) := by
        rw [Matrix.zero_mul, zero_add]
        by_cases hlt : g' < g
        · rw [if_pos hlt, if_pos (Nat.lt_succ_of_lt hlt), hQs g hgN 0]
          simp only [Matrix.mul_assoc]
        · rw [if_neg hlt, if_neg (by omega), Matrix.mul_zero]
      rw [hval, ← hfun'] at h
      exact h

/-- **Derivative of an entry of the Liouville representation.**  For a differentiable family
`Q(u)` and Hermitian `C_j`, `C_k`:
`d/du tr(C_j Q C_k Q†) = 2 Re tr((dQ)† C_j Q C_k)`. -/
theorem liou_entry_hasDerivAt {Q : ℝ → Matrix (Fin d) (Fin d) ℂ} {dQ : Matrix (Fin d) (Fin d) ℂ}
    {u0 : ℝ} (hQ : HasDerivAt Q dQ u0) (Cj Ck : Matrix (Fin d) (Fin d) ℂ) (hj : Cjᴴ = Cj)
    (hk : Ckᴴ = Ck) :
    HasDerivAt (fun u => Matrix.trace (Cj * Q u * Ck * (Q u)ᴴ))
      (((2 * (Matrix.trace (dQᴴ * Cj * Q u0 * Ck)).re : ℝ) : ℂ)) u0 := by
  have h1 := matrix_hasDerivAt_mul (matrix_hasDerivAt_const Cj u0) hQ
  have h2 := matrix_hasDerivAt_mul h1 (matrix_hasDerivAt_const Ck u0)
  have h3 := matrix_hasDerivAt_mul h2 (matrix_hasDerivAt_conjTranspose hQ)
  have h4 := matrix_hasDerivAt_trace h3
  refine h4.congr_deriv ?_
  rw [Matrix.zero_mul, zero_add, Matrix.mul_zero, add_zero, Matrix.trace_add]
  set z : ℂ := Matrix.trace (dQᴴ * Cj * Q u0 * Ck) with hz
  have e2 : Matrix.trace (Cj * Q u0 * Ck * dQᴴ) = z := by
    rw [hz, Matrix.trace_mul_comm]
    simp only [Matrix.mul_assoc]
  have e1 : Matrix.trace (Cj * dQ * Ck * (Q u0)ᴴ) = (starRingEnd ℂ) z := by
    have : Cj * dQ * Ck * (Q u0)ᴴ = (Q u0 * Ck * dQᴴ * Cj)ᴴ := by
      simp only [Matrix.conjTranspose_mul, Matrix.conjTranspose_conjTranspose, hj, hk,
        Matrix.mul_assoc]
    rw [this, Matrix.trace_conjTranspose, hz]
    congr 1
    simp only [Matrix.mul_assoc]
    rw [← Matrix.mul_assoc (Q u0), ← Matrix.mul_assoc dQᴴ, Matrix.trace_mul_comm]
  rw [e1, e2, add_comm, Complex.add_conj]

end realparam

/-! ### 5. squared Frobenius norm (as a plain sum; no norm instance on matrices) -/

section frob
open Matrix Complex
variable {d : ℕ}

/-- `Σ_ij |M_ij|²` -/
noncomputable def frobSq (M : Matrix (Fin d) (Fin d) ℂ) : ℝ := ∑ i, ∑ j, ‖M i j‖ ^ 2

theorem frobSq_nonneg (M : Matrix (Fin d) (Fin d) ℂ) : 0 ≤ frobSq M :=
  Finset.sum_nonneg fun _ _ => Finset.sum_nonneg fun _ _ => sq_nonneg _

theorem frobSq_eq_trace (M : Matrix (Fin d) (Fin d) ℂ) :
    ((frobSq M : ℝ) : ℂ) = Matrix.trace (Mᴴ * M) := by
  unfold frobSq
  simp only [Matrix.trace, Matrix.diag_apply, Matrix.mul_apply, Matrix.conjTranspose_apply]
  rw [Finset.sum_comm]
  push_cast
  refine Finset.sum_congr rfl fun j _ => Finset.sum_congr rfl fun i _ => ?_
  rw [RCLike.star_def, Complex.conj_mul']

theorem frobSq_unitary_mul (U M : Matrix (Fin d) (Fin d) ℂ) (hU : Uᴴ * U = 1) :
    frobSq (U * M) = frobSq M := by
  apply Complex.ofReal_injective
  rw [frobSq_eq_trace, frobSq_eq_trace, Matrix.conjTranspose_mul]
  congr 1
  calc Mᴴ * Uᴴ * (U * M) = Mᴴ * (Uᴴ * U) * M := by simp only [Matrix.mul_assoc]
    _ = Mᴴ * M := by rw [hU, Matrix.mul_one]

theorem frobSq_mul_unitary (M W : Matrix (Fin d) (Fin d) ℂ) (hW : W * Wᴴ = 1) :
    frobSq (M * W) = frobSq M := by
  apply Complex.ofReal_injective
  rw [frobSq_eq_trace, frobSq_eq_trace, Matrix.conjTranspose_mul, Matrix.mul_assoc,
    Matrix.trace_mul_comm]
  congr 1
  calc Mᴴ * (M * W) * Wᴴ = Mᴴ * M * (W * Wᴴ) := by simp only [Matrix.mul_assoc]
    _ = Mᴴ * M := by rw [hW, Matrix.mul_one]

theorem frobSq_smul (c : ℂ) (M : Matrix (Fin d) (Fin d) ℂ) :
    frobSq (c • M) = ‖c‖ ^ 2 * frobSq M := by
  unfold frobSq
  simp only [Matrix.smul_apply, smul_eq_mul, norm_mul, mul_pow, Finset.mul_sum]

theorem frobSq_hadamard_le (E M : Matrix (Fin d) (Fin d) ℂ) (ε : ℝ)
    (hE : ∀ i j, ‖E i j‖ ≤ ε) : frobSq (Matrix.hadamard E M) ≤ ε ^ 2 * frobSq M := by
  unfold frobSq
  rw [Finset.mul_sum]
  refine Finset.sum_le_sum fun i _ => ?_
  rw [Finset.mul_sum]
  refine Finset.sum_le_sum fun j _ => ?_
  rw [Matrix.hadamard_apply, norm_mul, mul_pow]
  exact mul_le_mul_of_nonneg_right
    (pow_le_pow_left₀ (norm_nonneg _) (hE i j) 2) (sq_nonneg _)

end frob

end FFVerif.ExpDerivAux
