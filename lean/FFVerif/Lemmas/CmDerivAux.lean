/-
Helper lemmas for C11Asm, stage 3 (the control-matrix derivative IS the derivative):
an entrywise ℓ¹ bound for matrices (no norm instance on `Matrix` is used), the Daleckii–Krein
derivative at an arbitrary parameter value, differentiation of the segment integral under the
integral sign.
-/
import Mathlib.Analysis.Calculus.ParametricIntervalIntegral
import Mathlib.LinearAlgebra.Matrix.Hadamard
import FFVerif.Props.C01Seg
import FFVerif.Props.C11Deriv
import FFVerif.Lemmas.LiouvilleAux

namespace FFVerif.CmDerivAux
open FFVerif Matrix Complex MeasureTheory intervalIntegral
open FFVerif.C02 (IsEigh segProp piecewise_is_exp)
open FFVerif.C11 (dkA)
open FFVerif.C01 (segIntegral segIntegrand Useg)
open FFVerif.GradientAux (nestedIntegral continuous_segIntegral)
open FFVerif.ExpDerivAux
open scoped Matrix

/-! ### 1. entrywise ℓ¹ size of a matrix -/

section l1
variable {d : ℕ}

/-- `Σ_ij |M_ij|` (a plain sum; submultiplicative) -/
noncomputable def l1 (M : Matrix (Fin d) (Fin d) ℂ) : ℝ := ∑ i, ∑ j, ‖M i j‖

theorem l1_nonneg (M : Matrix (Fin d) (Fin d) ℂ) : 0 ≤ l1 M :=
  Finset.sum_nonneg fun _ _ => Finset.sum_nonneg fun _ _ => norm_nonneg _

theorem norm_entry_le_l1 (M : Matrix (Fin d) (Fin d) ℂ) (i j : Fin d) : ‖M i j‖ ≤ l1 M := by
  unfold l1
  calc ‖M i j‖ ≤ ∑ j', ‖M i j'‖ :=
        Finset.single_le_sum (f := fun j' => ‖M i j'‖) (fun _ _ => norm_nonneg _) (Finset.mem_univ j)
    _ ≤ ∑ i', ∑ j', ‖M i' j'‖ :=
        Finset.single_le_sum (f := fun i' => ∑ j', ‖M i' j'‖)
          (fun _ _ => Finset.sum_nonneg fun _ _ => norm_nonneg _) (Finset.mem_univ i)

theorem l1_mul_le (X Y : Matrix (Fin d) (Fin d) ℂ) : l1 (X * Y) ≤ l1 X * l1 Y := by
  unfold l1
  calc ∑ i, ∑ j, ‖(X * Y) i j‖
      ≤ ∑ i, ∑ j, ∑ k, ‖X i k‖ * ‖Y k j‖ := by
        refine Finset.sum_le_sum fun i _ => Finset.sum_le_sum fun j _ => ?_
        rw [Matrix.mul_apply]
        refine (norm_sum_le _ _).trans (Finset.sum_le_sum fun k _ => ?_)
        rw [norm_mul]
    _ = ∑ i, ∑ k, ‖X i k‖ * ∑ j, ‖Y k j‖ := by
        refine Finset.sum_congr rfl fun i _ => ?_
        rw [Finset.sum_comm]
        refine Finset.sum_congr rfl fun k _ => ?_
        rw [Finset.mul_sum]
    _ ≤ ∑ i, ∑ k, ‖X i k‖ * ∑ k', ∑ j, ‖Y k' j‖ := by
        refine Finset.sum_le_sum fun i _ => Finset.sum_le_sum fun k _ => ?_
        refine mul_le_mul_of_nonneg_left ?_ (norm_nonneg _)
        exact Finset.single_le_sum (f := fun k' => ∑ j, ‖Y k' j‖)
          (fun _ _ => Finset.sum_nonneg fun _ _ => norm_nonneg _) (Finset.mem_univ k)
    _ = (∑ i, ∑ k, ‖X i k‖) * ∑ k', ∑ j, ‖Y k' j‖ := by
        rw [Finset.sum_mul]
        refine Finset.sum_congr rfl fun i _ => ?_
        rw [Finset.sum_mul]

theorem norm_trace_le_l1 (M : Matrix (Fin d) (Fin d) ℂ) : ‖Matrix.trace M‖ ≤ l1 M := by
  unfold l1 Matrix.trace
  refine (norm_sum_le _ _).trans (Finset.sum_le_sum fun i _ => ?_)
  exact Finset.single_le_sum (f := fun j => ‖M i j‖) (fun _ _ => norm_nonneg _)
    (Finset.mem_univ i)

theorem l1_conjTranspose (M : Matrix (Fin d) (Fin d) ℂ) : l1 Mᴴ = l1 M := by
  unfold l1
  rw [Finset.sum_comm]
  refine Finset.sum_congr rfl fun i _ => Finset.sum_congr rfl fun j _ => ?_
  rw [Matrix.conjTranspose_apply, norm_star]

theorem l1_smul (c : ℂ) (M : Matrix (Fin d) (Fin d) ℂ) : l1 (c • M) = ‖c‖ * l1 M := by
  unfold l1
  rw [Finset.mul_sum]
  refine Finset.sum_congr rfl fun i _ => ?_
  rw [Finset.mul_sum]
  refine Finset.sum_congr rfl fun j _ => ?_
  rw [Matrix.smul_apply, smul_eq_mul, norm_mul]

theorem l1_add_le (X Y : Matrix (Fin d) (Fin d) ℂ) : l1 (X + Y) ≤ l1 X + l1 Y := by
  unfold l1
  rw [← Finset.sum_add_distrib]
  refine Finset.sum_le_sum fun i _ => ?_
  rw [← Finset.sum_add_distrib]
  refine Finset.sum_le_sum fun j _ => ?_
  rw [Matrix.add_apply]
  exact norm_add_le _ _

theorem l1_hadamard_le (A X : Matrix (Fin d) (Fin d) ℂ) (a : ℝ) (hA : ∀ i j, ‖A i j‖ ≤ a) :
    l1 (A ⊙ X) ≤ a * l1 X := by
  unfold l1
  rw [Finset.mul_sum]
  refine Finset.sum_le_sum fun i _ => ?_
  rw [Finset.mul_sum]
  refine Finset.sum_le_sum fun j _ => ?_
  rw [Matrix.hadamard_apply, norm_mul]
  exact mul_le_mul_of_nonneg_right (hA i j) (norm_nonneg _)

/-- the entries of a matrix with orthonormal columns have modulus `≤ 1` -/
theorem norm_entry_le_one_of_unitary (U : Matrix (Fin d) (Fin d) ℂ) (hU : Uᴴ * U = 1)
    (i j : Fin d) : ‖U i j‖ ≤ 1 := by
  have h1 : (Uᴴ * U) j j = 1 := by rw [hU, Matrix.one_apply_eq]
  rw [Matrix.mul_apply] at h1
  have h2 : ∑ k, ‖U k j‖ ^ 2 = 1 := by
    have : (∑ k, ((‖U k j‖ ^ 2 : ℝ) : ℂ)) = 1 := by
      rw [← h1]
      refine Finset.sum_congr rfl fun k _ => ?_
      rw [Matrix.conjTranspose_apply, RCLike.star_def, Complex.conj_mul']
      push_cast
      rfl
    exact_mod_cast this
  have h3 : ‖U i j‖ ^ 2 ≤ 1 := by
    rw [← h2]
    exact Finset.single_le_sum (f := fun k => ‖U k j‖ ^ 2) (fun _ _ => sq_nonneg _)
      (Finset.mem_univ i)
  have := abs_le_one_iff_mul_self_le_one.mpr (by nlinarith [h3] : ‖U i j‖ * ‖U i j‖ ≤ 1)
  exact (abs_le.mp this).2

theorem l1_le_of_unitary (U : Matrix (Fin d) (Fin d) ℂ) (hU : Uᴴ * U = 1) :
    l1 U ≤ (d : ℝ) * d := by
  unfold l1
  calc ∑ i, ∑ j, ‖U i j‖ ≤ ∑ _i : Fin d, ∑ _j : Fin d, (1 : ℝ) :=
        Finset.sum_le_sum fun i _ => Finset.sum_le_sum fun j _ =>
          norm_entry_le_one_of_unitary U hU i j
    _ = (d : ℝ) * d := by simp

end l1

/-! ### 2. Daleckii–Krein at an arbitrary parameter value; the segment integrand -/

section dk
variable {d : ℕ}

/-- `exp(-i s (H + u C))` -/
noncomputable def Eprop (H C : Matrix (Fin d) (Fin d) ℂ) (s u : ℝ) : Matrix (Fin d) (Fin d) ℂ :=
  NormedSpace.exp ((-(I * (s : ℂ))) • (H + (u : ℂ) • C))

/-- the Daleckii–Krein derivative of `u ↦ exp(-i s (H + u C))` written with the eigen-data
`(lam, V)` of `H + u C` -/
noncomputable def dEprop (H C : Matrix (Fin d) (Fin d) ℂ) (lam : Fin d → ℝ)
    (V : Matrix (Fin d) (Fin d) ℂ) (s u : ℝ) : Matrix (Fin d) (Fin d) ℂ :=
  (-I) • (Eprop H C s u * V * (dkA lam s ⊙ (Vᴴ * C * V)) * Vᴴ)

theorem Eprop_hasDerivAt {H C V : Matrix (Fin d) (Fin d) ℂ} {lam : Fin d → ℝ} {u0 : ℝ}
    (hE : IsEigh (H + (u0 : ℂ) • C) lam V) (s : ℝ) :
    HasDerivAt (fun u : ℝ => Eprop H C s u) (dEprop H C lam V s u0) u0 := by
  have h := C11.exp_hasDerivAt_eigenbasis hE C s
  rw [matrix_hasDerivAt_iff] at h ⊢
  intro i j
  have hij := h i j
  have h0 : HasDerivAt (fun w : ℝ =>
      NormedSpace.exp ((-(I * (s : ℂ))) • (H + (u0 : ℂ) • C + (w : ℂ) • C)) i j)
      (((-I) • (NormedSpace.exp ((-(I * (s : ℂ))) • (H + (u0 : ℂ) • C)) * V
        * (dkA lam s ⊙ (Vᴴ * C * V)) * Vᴴ)) i j) (u0 - u0) := by
    rw [sub_self]; exact hij
  have h1 := HasDerivAt.comp_sub_const u0 u0 h0
  have hfun : (fun u : ℝ => Eprop H C s u i j) = fun u : ℝ =>
      NormedSpace.exp ((-(I * (s : ℂ))) • (H + (u0 : ℂ) • C + ((u - u0 : ℝ) : ℂ) • C)) i j := by
    funext u
    unfold Eprop
    have e : H + (u0 : ℂ) • C + ((u - u0 : ℝ) : ℂ) • C = H + (u : ℂ) • C := by
      rw [add_assoc, ← add_smul]
      congr 2
      push_cast
      ring
    rw [e]
  rw [hfun]
  exact h1

theorem Eprop_eq_segProp {H C V : Matrix (Fin d) (Fin d) ℂ} {lam : Fin d → ℝ} {u : ℝ}
    (hE : IsEigh (H + (u : ℂ) • C) lam V) (s : ℝ) : Eprop H C s u = segProp lam V s :=
  (piecewise_is_exp hE s).symm

theorem Eprop_unitary {H C V : Matrix (Fin d) (Fin d) ℂ} {lam : Fin d → ℝ} {u : ℝ}
    (hE : IsEigh (H + (u : ℂ) • C) lam V) (s : ℝ) :
    (Eprop H C s u)ᴴ * Eprop H C s u = 1 ∧ Eprop H C s u * (Eprop H C s u)ᴴ = 1 := by
  rw [Eprop_eq_segProp hE]
  exact C02.segProp_unitary lam V hE.left s

theorem norm_segIntegral_le (Ω s : ℝ) : ‖C01.segIntegral Ω s‖ ≤ |s| := by
  unfold C01.segIntegral
  have h := intervalIntegral.norm_integral_le_of_norm_le_const (a := (0 : ℝ)) (b := s) (C := 1)
    (f := fun r : ℝ => Complex.exp (Complex.I * Ω * r)) (fun r _ => by
      rw [GradientAux.norm_cexp_I_mul_mul])
  simpa using h

theorem norm_dkA_le (lam : Fin d → ℝ) (s : ℝ) (m n : Fin d) : ‖dkA lam s m n‖ ≤ |s| := by
  rw [C11.dkA_eq_segIntegral]
  exact norm_segIntegral_le _ _

theorem l1_dEprop_le {H C V : Matrix (Fin d) (Fin d) ℂ} {lam : Fin d → ℝ} {u : ℝ}
    (hE : IsEigh (H + (u : ℂ) • C) lam V) (s : ℝ) :
    l1 (dEprop H C lam V s u) ≤ ((d : ℝ) * d) ^ 5 * |s| * l1 C := by
  set D : ℝ := (d : ℝ) * d with hD
  have hD0 : 0 ≤ D := by positivity
  have hV : l1 V ≤ D := l1_le_of_unitary V hE.left
  have hVh : l1 Vᴴ ≤ D := by rw [l1_conjTranspose]; exact hV
  have hEn : l1 (Eprop H C s u) ≤ D := l1_le_of_unitary _ (Eprop_unitary hE s).1
  have hCb : l1 (Vᴴ * C * V) ≤ D * l1 C * D :=
    (l1_mul_le _ _).trans (mul_le_mul ((l1_mul_le _ _).trans
      (mul_le_mul_of_nonneg_right hVh (l1_nonneg _))) hV (l1_nonneg _)
      (mul_nonneg hD0 (l1_nonneg _)))
  have hA : l1 (dkA lam s ⊙ (Vᴴ * C * V)) ≤ |s| * (D * l1 C * D) :=
    (l1_hadamard_le _ _ |s| (norm_dkA_le lam s)).trans
      (mul_le_mul_of_nonneg_left hCb (abs_nonneg _))
  unfold dEprop
  rw [l1_smul, norm_neg, Complex.norm_I, one_mul]
  have hC0 := l1_nonneg C
  have hs0 := abs_nonneg s
  calc l1 (Eprop H C s u * V * (dkA lam s ⊙ (Vᴴ * C * V)) * Vᴴ)
      ≤ l1 (Eprop H C s u * V * (dkA lam s ⊙ (Vᴴ * C * V))) * l1 Vᴴ := l1_mul_le _ _
    _ ≤ (l1 (Eprop H C s u * V) * l1 (dkA lam s ⊙ (Vᴴ * C * V))) * l1 Vᴴ :=
        mul_le_mul_of_nonneg_right (l1_mul_le _ _) (l1_nonneg _)
    _ ≤ ((l1 (Eprop H C s u) * l1 V) * l1 (dkA lam s ⊙ (Vᴴ * C * V))) * l1 Vᴴ :=
        mul_le_mul_of_nonneg_right
          (mul_le_mul_of_nonneg_right (l1_mul_le _ _) (l1_nonneg _)) (l1_nonneg _)
    _ ≤ ((D * D) * (|s| * (D * l1 C * D))) * D := by
        have := l1_nonneg (Eprop H C s u)
        have := l1_nonneg V
        have := l1_nonneg (dkA lam s ⊙ (Vᴴ * C * V))
        have := l1_nonneg Vᴴ
        gcongr
    _ = D ^ 5 * |s| * l1 C := by ring

/-- the integrand `e^{iωs} tr(E(u,s)† B E(u,s) Y)`, `E(u,s) = exp(-i s (H + u C))` -/
noncomputable def segF (H C B Y : Matrix (Fin d) (Fin d) ℂ) (ω u s : ℝ) : ℂ :=
  Complex.exp (I * ω * s) * Matrix.trace ((Eprop H C s u)ᴴ * B * Eprop H C s u * Y)

/-- its derivative with respect to `u`, written with the eigen-data `(lam, V)` of `H + u C` -/
noncomputable def segF' (H C B Y : Matrix (Fin d) (Fin d) ℂ) (lam : Fin d → ℝ)
    (V : Matrix (Fin d) (Fin d) ℂ) (ω u s : ℝ) : ℂ :=
  Complex.exp (I * ω * s) * Matrix.trace
    (((dEprop H C lam V s u)ᴴ * B * Eprop H C s u + (Eprop H C s u)ᴴ * B * dEprop H C lam V s u) * Y)

theorem segF_hasDerivAt {H C V : Matrix (Fin d) (Fin d) ℂ} {lam : Fin d → ℝ} {u0 : ℝ}
    (hE : IsEigh (H + (u0 : ℂ) • C) lam V) (B Y : Matrix (Fin d) (Fin d) ℂ) (ω s : ℝ) :
    HasDerivAt (fun u : ℝ => segF H C B Y ω u s) (segF' H C B Y lam V ω u0 s) u0 := by
  have hEd := Eprop_hasDerivAt hE s
  have hEh := matrix_hasDerivAt_conjTranspose hEd
  have h1 := matrix_hasDerivAt_mul hEh (matrix_hasDerivAt_const B u0)
  have h2 := matrix_hasDerivAt_mul h1 hEd
  have h3 := matrix_hasDerivAt_mul h2 (matrix_hasDerivAt_const Y u0)
  have h4 := (matrix_hasDerivAt_trace h3).const_mul (Complex.exp (I * ω * s))
  unfold segF segF'
  refine h4.congr_deriv ?_
  rw [Matrix.mul_zero, add_zero, Matrix.mul_zero, add_zero]

theorem norm_segF'_le {H C V : Matrix (Fin d) (Fin d) ℂ} {lam : Fin d → ℝ} {u : ℝ}
    (hE : IsEigh (H + (u : ℂ) • C) lam V) (B Y : Matrix (Fin d) (Fin d) ℂ) (ω s : ℝ) :
    ‖segF' H C B Y lam V ω u s‖
      ≤ 2 * ((d : ℝ) * d) ^ 6 * |s| * l1 C * l1 B * l1 Y := by
  set D : ℝ := (d : ℝ) * d with hD
  have hD0 : 0 ≤ D := by positivity
  have hEn : l1 (Eprop H C s u) ≤ D := l1_le_of_unitary _ (Eprop_unitary hE s).1
  have hdE := l1_dEprop_le hE s
  rw [← hD] at hdE
  set E := Eprop H C s u
  set dE := dEprop H C lam V s u
  have hB0 := l1_nonneg B
  have hE0 := l1_nonneg E
  have hdE0 := l1_nonneg dE
  have hY0 := l1_nonneg Y
  have hC0 := l1_nonneg C
  have hs0 := abs_nonneg s
  have t1 : l1 (dEᴴ * B * E) ≤ (D ^ 5 * |s| * l1 C) * l1 B * D := by
    calc l1 (dEᴴ * B * E) ≤ l1 (dEᴴ * B) * l1 E := l1_mul_le _ _
      _ ≤ (l1 dEᴴ * l1 B) * l1 E := mul_le_mul_of_nonneg_right (l1_mul_le _ _) hE0
      _ ≤ ((D ^ 5 * |s| * l1 C) * l1 B) * D := by
          rw [l1_conjTranspose]
          gcongr
  have t2 : l1 (Eᴴ * B * dE) ≤ D * l1 B * (D ^ 5 * |s| * l1 C) := by
    calc l1 (Eᴴ * B * dE) ≤ l1 (Eᴴ * B) * l1 dE := l1_mul_le _ _
      _ ≤ (l1 Eᴴ * l1 B) * l1 dE := mul_le_mul_of_nonneg_right (l1_mul_le _ _) hdE0
      _ ≤ (D * l1 B) * (D ^ 5 * |s| * l1 C) := by
          rw [l1_conjTranspose]
          gcongr
  unfold segF'
  rw [norm_mul, GradientAux.norm_cexp_I_mul_mul, one_mul]
  calc ‖Matrix.trace ((dEᴴ * B * E + Eᴴ * B * dE) * Y)‖
      ≤ l1 ((dEᴴ * B * E + Eᴴ * B * dE) * Y) := norm_trace_le_l1 _
    _ ≤ l1 (dEᴴ * B * E + Eᴴ * B * dE) * l1 Y := l1_mul_le _ _
    _ ≤ (l1 (dEᴴ * B * E) + l1 (Eᴴ * B * dE)) * l1 Y :=
        mul_le_mul_of_nonneg_right (l1_add_le _ _) hY0
    _ ≤ ((D ^ 5 * |s| * l1 C) * l1 B * D + D * l1 B * (D ^ 5 * |s| * l1 C)) * l1 Y := by
        gcongr
    _ = 2 * D ^ 6 * |s| * l1 C * l1 B * l1 Y := by ring

end dk
/-! ### 3. the integrand and its derivative in the eigenbasis -/

section spectral
variable {d : ℕ}

theorem trace_mul3 (A B C : Matrix (Fin d) (Fin d) ℂ) :
    Matrix.trace (A * B * C) = ∑ i, ∑ j, ∑ k, A i j * B j k * C k i := by
  simp only [Matrix.trace, Matrix.diag_apply, Matrix.mul_apply, Finset.sum_mul]
  refine Finset.sum_congr rfl fun i _ => ?_
  rw [Finset.sum_comm]

/-- the diagonal factor of the spectral form of the segment propagator -/
noncomputable def Dg (lam : Fin d → ℝ) (s : ℝ) : Matrix (Fin d) (Fin d) ℂ :=
  diagonal (fun j => Complex.exp (-(I * ((s : ℂ) * (lam j : ℂ)))))

theorem segProp_eq (lam : Fin d → ℝ) (V : Matrix (Fin d) (Fin d) ℂ) (s : ℝ) :
    segProp lam V s = V * Dg lam s * Vᴴ := rfl

theorem Dg_sandwich (lam : Fin d → ℝ) (s : ℝ) (M : Matrix (Fin d) (Fin d) ℂ) (m n : Fin d) :
    ((Dg lam s)ᴴ * M * Dg lam s) m n
      = Complex.exp (I * ((lam m - lam n : ℝ) : ℂ) * (s : ℂ)) * M m n := by
  unfold Dg
  rw [Matrix.diagonal_conjTranspose, Matrix.mul_diagonal, Matrix.diagonal_mul]
  simp only [Pi.star_apply, RCLike.star_def, ← Complex.exp_conj, map_neg, map_mul,
    Complex.conj_I, Complex.conj_ofReal, neg_mul, neg_neg]
  have : Complex.exp (I * ((lam m - lam n : ℝ) : ℂ) * (s : ℂ))
      = Complex.exp (I * ((s : ℂ) * (lam m : ℂ))) * Complex.exp (-(I * ((s : ℂ) * (lam n : ℂ)))) := by
    rw [← Complex.exp_add]
    congr 1
    push_cast
    ring
  rw [this]
  ring

theorem segIntegral_conj (Ω s : ℝ) :
    (starRingEnd ℂ) (segIntegral Ω s) = segIntegral (-Ω) s := by
  by_cases h : Ω = 0
  · subst h
    rw [neg_zero, C01.segIntegral_zero, Complex.conj_ofReal]
  · rw [C01.segIntegral_closed Ω s h, C01.segIntegral_closed (-Ω) s (neg_ne_zero.mpr h)]
    simp only [map_div₀, map_sub, map_one, map_mul, Complex.conj_I, Complex.conj_ofReal,
      ← Complex.exp_conj]
    push_cast
    have hΩ : (Ω : ℂ) ≠ 0 := by exact_mod_cast h
    have e : -I * ((Ω : ℂ) * (s : ℂ)) = I * (-(Ω : ℂ) * (s : ℂ)) := by ring
    rw [e]
    field_simp

theorem dkA_conj (lam : Fin d → ℝ) (s : ℝ) (m n : Fin d) :
    (starRingEnd ℂ) (dkA lam s m n) = dkA lam s n m := by
  rw [C11.dkA_eq_segIntegral, C11.dkA_eq_segIntegral, segIntegral_conj, neg_sub]

/-- trace of the derivative of `E† B E` against `Y`, in the eigenbasis (pure matrix algebra) -/
theorem trace_dG_alg (V D X B Y : Matrix (Fin d) (Fin d) ℂ) (hl : Vᴴ * V = 1) :
    Matrix.trace
      (((((-I) • (V * D * Vᴴ * V * X * Vᴴ))ᴴ * B * (V * D * Vᴴ)
        + (V * D * Vᴴ)ᴴ * B * ((-I) • (V * D * Vᴴ * V * X * Vᴴ))) * Y))
      = I * Matrix.trace (Xᴴ * (Dᴴ * (Vᴴ * B * V) * D) * (Vᴴ * Y * V))
        - I * Matrix.trace ((Dᴴ * (Vᴴ * B * V) * D) * X * (Vᴴ * Y * V)) := by
  have hVl : ∀ Z : Matrix (Fin d) (Fin d) ℂ, Vᴴ * (V * Z) = Z := fun Z => by
    rw [← Matrix.mul_assoc, hl, Matrix.one_mul]
  have e1 : ((-I) • (V * D * Vᴴ * V * X * Vᴴ))ᴴ * B * (V * D * Vᴴ)
      = I • (V * (Xᴴ * (Dᴴ * (Vᴴ * B * V) * D)) * Vᴴ) := by
    rw [Matrix.conjTranspose_smul]
    simp only [Matrix.conjTranspose_mul, Matrix.conjTranspose_conjTranspose, star_neg,
      RCLike.star_def, Complex.conj_I, neg_neg, Matrix.smul_mul, Matrix.mul_assoc, hVl]
  have e2 : (V * D * Vᴴ)ᴴ * B * ((-I) • (V * D * Vᴴ * V * X * Vᴴ))
      = (-I) • (V * ((Dᴴ * (Vᴴ * B * V) * D) * X) * Vᴴ) := by
    simp only [Matrix.conjTranspose_mul, Matrix.conjTranspose_conjTranspose, Matrix.mul_smul,
      Matrix.mul_assoc, hVl]
  have tr1 : ∀ M : Matrix (Fin d) (Fin d) ℂ,
      Matrix.trace (V * M * Vᴴ * Y) = Matrix.trace (M * (Vᴴ * Y * V)) := fun M => by
    rw [Matrix.mul_assoc, Matrix.mul_assoc, Matrix.trace_mul_comm]
    simp only [Matrix.mul_assoc]
  rw [e1, e2, Matrix.add_mul, Matrix.trace_add, Matrix.smul_mul, Matrix.smul_mul,
    Matrix.trace_smul, Matrix.trace_smul, tr1, tr1, smul_eq_mul, smul_eq_mul]
  simp only [Matrix.mul_assoc]
  ring

theorem cexp_add_freq (ω x s : ℝ) :
    Complex.exp (I * ω * s) * Complex.exp (I * (x : ℂ) * (s : ℂ))
      = Complex.exp (I * ((ω + x : ℝ) : ℂ) * (s : ℂ)) := by
  rw [← Complex.exp_add]
  congr 1
  push_cast
  ring

/-- **the `u`-derivative of the segment integrand in the eigenbasis**: a finite sum of terms
`const · e^{i x s} ∫₀^s e^{i Ω r} dr`. -/
theorem segF'_spectral {H C V : Matrix (Fin d) (Fin d) ℂ} {lam : Fin d → ℝ} {u : ℝ}
    (hE : IsEigh (H + (u : ℂ) • C) lam V) (hC : Cᴴ = C) (B Y : Matrix (Fin d) (Fin d) ℂ)
    (ω s : ℝ) :
    segF' H C B Y lam V ω u s
      = I * ((∑ a, ∑ m, ∑ v, ((Vᴴ * C * V) a m * (Vᴴ * B * V) m v * (Vᴴ * Y * V) v a)
              * (Complex.exp (I * ((ω + (lam m - lam v) : ℝ) : ℂ) * (s : ℂ))
                  * segIntegral (lam a - lam m) s))
            - ∑ a, ∑ n, ∑ v, ((Vᴴ * B * V) a n * (Vᴴ * C * V) n v * (Vᴴ * Y * V) v a)
              * (Complex.exp (I * ((ω + (lam a - lam n) : ℝ) : ℂ) * (s : ℂ))
                  * segIntegral (lam n - lam v) s)) := by
  have hCb : (Vᴴ * C * V)ᴴ = Vᴴ * C * V := by
    rw [Matrix.conjTranspose_mul, Matrix.conjTranspose_mul, Matrix.conjTranspose_conjTranspose, hC,
      Matrix.mul_assoc]
  have hX : ∀ a m : Fin d, (dkA lam s ⊙ (Vᴴ * C * V))ᴴ a m
      = segIntegral (lam a - lam m) s * (Vᴴ * C * V) a m := by
    intro a m
    rw [Matrix.conjTranspose_apply, Matrix.hadamard_apply, star_mul', RCLike.star_def,
      dkA_conj, C11.dkA_eq_segIntegral]
    congr 1
    have := congrFun (congrFun hCb a) m
    rw [Matrix.conjTranspose_apply, RCLike.star_def] at this
    exact this
  unfold segF' dEprop
  rw [Eprop_eq_segProp hE, segProp_eq, trace_dG_alg _ _ _ _ _ hE.left]
  have h1 : Complex.exp (I * ω * s) * Matrix.trace ((dkA lam s ⊙ (Vᴴ * C * V))ᴴ
        * ((Dg lam s)ᴴ * (Vᴴ * B * V) * Dg lam s) * (Vᴴ * Y * V))
      = ∑ a, ∑ m, ∑ v, ((Vᴴ * C * V) a m * (Vᴴ * B * V) m v * (Vᴴ * Y * V) v a)
              * (Complex.exp (I * ((ω + (lam m - lam v) : ℝ) : ℂ) * (s : ℂ))
                  * segIntegral (lam a - lam m) s) := by
    rw [trace_mul3, Finset.mul_sum]
    refine Finset.sum_congr rfl fun a _ => ?_
    rw [Finset.mul_sum]
    refine Finset.sum_congr rfl fun m _ => ?_
    rw [Finset.mul_sum]
    refine Finset.sum_congr rfl fun v _ => ?_
    rw [hX, Dg_sandwich, ← cexp_add_freq]
    ring
  have h2 : Complex.exp (I * ω * s) * Matrix.trace (((Dg lam s)ᴴ * (Vᴴ * B * V) * Dg lam s)
        * (dkA lam s ⊙ (Vᴴ * C * V)) * (Vᴴ * Y * V))
      = ∑ a, ∑ n, ∑ v, ((Vᴴ * B * V) a n * (Vᴴ * C * V) n v * (Vᴴ * Y * V) v a)
              * (Complex.exp (I * ((ω + (lam a - lam n) : ℝ) : ℂ) * (s : ℂ))
                  * segIntegral (lam n - lam v) s) := by
    rw [trace_mul3, Finset.mul_sum]
    refine Finset.sum_congr rfl fun a _ => ?_
    rw [Finset.mul_sum]
    refine Finset.sum_congr rfl fun n _ => ?_
    rw [Finset.mul_sum]
    refine Finset.sum_congr rfl fun v _ => ?_
    rw [Dg_sandwich, Matrix.hadamard_apply, C11.dkA_eq_segIntegral, ← cexp_add_freq]
    ring
  rw [← h1, ← h2]
  ring

end spectral
/-! ### 4. differentiation under the integral sign -/

section integral
variable {d : ℕ}

theorem segF_spectral {H C V : Matrix (Fin d) (Fin d) ℂ} {lam : Fin d → ℝ} {u : ℝ}
    (hE : IsEigh (H + (u : ℂ) • C) lam V) (B Y : Matrix (Fin d) (Fin d) ℂ) (ω s : ℝ) :
    segF H C B Y ω u s
      = ∑ m, ∑ n, ((Vᴴ * B * V) m n * (Vᴴ * Y * V) n m)
          * Complex.exp (I * ((ω + (lam m - lam n) : ℝ) : ℂ) * (s : ℂ)) := by
  unfold segF
  rw [Eprop_eq_segProp hE, segProp_eq]
  have e : (V * Dg lam s * Vᴴ)ᴴ * B * (V * Dg lam s * Vᴴ) * Y
      = V * (((Dg lam s)ᴴ * (Vᴴ * B * V) * Dg lam s) * (Vᴴ * Y)) := by
    simp only [Matrix.conjTranspose_mul, Matrix.conjTranspose_conjTranspose, Matrix.mul_assoc]
  rw [e, Matrix.trace_mul_comm, Matrix.mul_assoc]
  simp only [Matrix.trace, Matrix.diag_apply, Matrix.mul_apply (M := (Dg lam s)ᴴ * (Vᴴ * B * V) * Dg lam s)]
  rw [Finset.mul_sum]
  refine Finset.sum_congr rfl fun m _ => ?_
  rw [Finset.mul_sum]
  refine Finset.sum_congr rfl fun n _ => ?_
  rw [Dg_sandwich, ← cexp_add_freq]
  ring

theorem continuous_term (c : ℂ) (x Ω : ℝ) :
    Continuous fun s : ℝ => c * (Complex.exp (I * (x : ℂ) * (s : ℂ)) * segIntegral Ω s) := by
  have := continuous_segIntegral Ω
  fun_prop

theorem integral_triple_sum (c : Fin d → Fin d → Fin d → ℂ) (x Ω : Fin d → Fin d → Fin d → ℝ)
    (dt : ℝ) :
    Continuous (fun s : ℝ => ∑ a, ∑ m, ∑ v,
        c a m v * (Complex.exp (I * (x a m v : ℂ) * (s : ℂ)) * segIntegral (Ω a m v) s)) ∧
    ∫ s in (0:ℝ)..dt, ∑ a, ∑ m, ∑ v,
        c a m v * (Complex.exp (I * (x a m v : ℂ) * (s : ℂ)) * segIntegral (Ω a m v) s)
      = ∑ a, ∑ m, ∑ v, c a m v * nestedIntegral (x a m v) (Ω a m v) dt := by
  have hc3 : ∀ a m, Continuous fun s : ℝ => ∑ v,
      c a m v * (Complex.exp (I * (x a m v : ℂ) * (s : ℂ)) * segIntegral (Ω a m v) s) :=
    fun a m => continuous_finsetSum _ fun v _ => continuous_term _ _ _
  have hc2 : ∀ a, Continuous fun s : ℝ => ∑ m, ∑ v,
      c a m v * (Complex.exp (I * (x a m v : ℂ) * (s : ℂ)) * segIntegral (Ω a m v) s) :=
    fun a => continuous_finsetSum _ fun m _ => hc3 a m
  refine ⟨continuous_finsetSum _ fun a _ => hc2 a, ?_⟩
  rw [intervalIntegral.integral_finsetSum fun a _ => (hc2 a).intervalIntegrable _ _]
  refine Finset.sum_congr rfl fun a _ => ?_
  rw [intervalIntegral.integral_finsetSum fun m _ => (hc3 a m).intervalIntegrable _ _]
  refine Finset.sum_congr rfl fun m _ => ?_
  rw [intervalIntegral.integral_finsetSum fun v _ => (continuous_term _ _ _).intervalIntegrable _ _]
  refine Finset.sum_congr rfl fun v _ => ?_
  rw [intervalIntegral.integral_const_mul]
  rfl

theorem abs_le_of_mem_uIoc {s dt : ℝ} (hs : s ∈ Set.uIoc 0 dt) : |s| ≤ |dt| := by
  rcases Set.mem_uIoc.mp hs with ⟨h1, h2⟩ | ⟨h1, h2⟩
  · rw [abs_of_pos h1, abs_of_pos (lt_of_lt_of_le h1 h2)]; exact h2
  · rw [abs_of_nonpos h2, abs_of_neg (lt_of_lt_of_le h1 h2)]; linarith

/-- a family `H + u C` that meets the `eigh` contract for `u = 0` and `u = 1` has Hermitian `C` -/
theorem herm_of_family {H C : Matrix (Fin d) (Fin d) ℂ} {lam : ℝ → Fin d → ℝ}
    {V : ℝ → Matrix (Fin d) (Fin d) ℂ} (hE : ∀ u : ℝ, IsEigh (H + (u : ℂ) • C) (lam u) (V u)) :
    Cᴴ = C := by
  have h0 := (hE 0).isHermitian
  have h1 := (hE 1).isHermitian
  simp only [Complex.ofReal_zero, zero_smul, add_zero, Complex.ofReal_one, one_smul] at h0 h1
  have : C = (H + C) - H := by abel
  rw [this, Matrix.conjTranspose_sub, h1.eq, h0.eq]

/-- **Differentiation of the segment integral under the integral sign.**  For a family
`H + u C` with `eigh` data for every `u` (not assumed continuous in `u`), arbitrary `B`, `Y`, real
`ω`, `dt`: `u ↦ ∫₀^dt e^{iωs} tr(E(u,s)† B E(u,s) Y) ds`, `E(u,s) = exp(-i s (H + u C))`, has at
`u = 0` the derivative given by the nested integrals
`∫₀^dt e^{i x t} ∫₀^t e^{i Ω r} dr dt` in the eigenbasis of `H`. -/
theorem segment_integral_hasDerivAt {H C : Matrix (Fin d) (Fin d) ℂ} (lam : ℝ → Fin d → ℝ)
    (V : ℝ → Matrix (Fin d) (Fin d) ℂ) (hE : ∀ u : ℝ, IsEigh (H + (u : ℂ) • C) (lam u) (V u))
    (B Y : Matrix (Fin d) (Fin d) ℂ) (ω dt : ℝ) :
    HasDerivAt (fun u : ℝ => ∫ s in (0:ℝ)..dt, segF H C B Y ω u s)
      (I * ((∑ a, ∑ m, ∑ v,
              (((V 0)ᴴ * C * V 0) a m * ((V 0)ᴴ * B * V 0) m v * ((V 0)ᴴ * Y * V 0) v a)
                * nestedIntegral (ω + (lam 0 m - lam 0 v)) (lam 0 a - lam 0 m) dt)
            - ∑ a, ∑ n, ∑ v,
              (((V 0)ᴴ * B * V 0) a n * ((V 0)ᴴ * C * V 0) n v * ((V 0)ᴴ * Y * V 0) v a)
                * nestedIntegral (ω + (lam 0 a - lam 0 n)) (lam 0 n - lam 0 v) dt)) 0 := by
  have hC : Cᴴ = C := herm_of_family hE
  set K : ℝ := 2 * ((d : ℝ) * d) ^ 6 * |dt| * l1 C * l1 B * l1 Y with hK
  have hE0 : IsEigh (H + ((0 : ℝ) : ℂ) • C) (lam 0) (V 0) := hE 0
  have hcont : ∀ u : ℝ, Continuous fun s : ℝ => segF H C B Y ω u s := by
    intro u
    have : (fun s : ℝ => segF H C B Y ω u s) = fun s : ℝ =>
        ∑ m, ∑ n, (((V u)ᴴ * B * V u) m n * ((V u)ᴴ * Y * V u) n m)
          * Complex.exp (I * ((ω + (lam u m - lam u n) : ℝ) : ℂ) * (s : ℂ)) :=
      funext fun s => segF_spectral (hE u) B Y ω s
    rw [this]
    fun_prop
  obtain ⟨hc1, hi1⟩ := integral_triple_sum
    (fun a m v => ((V 0)ᴴ * C * V 0) a m * ((V 0)ᴴ * B * V 0) m v * ((V 0)ᴴ * Y * V 0) v a)
    (fun _ m v => ω + (lam 0 m - lam 0 v)) (fun a m _ => lam 0 a - lam 0 m) dt
  obtain ⟨hc2, hi2⟩ := integral_triple_sum
    (fun a n v => ((V 0)ᴴ * B * V 0) a n * ((V 0)ᴴ * C * V 0) n v * ((V 0)ᴴ * Y * V 0) v a)
    (fun a n _ => ω + (lam 0 a - lam 0 n)) (fun _ n v => lam 0 n - lam 0 v) dt
  have hF' : (fun s : ℝ => segF' H C B Y (lam 0) (V 0) ω 0 s) = fun s : ℝ =>
      I * ((∑ a, ∑ m, ∑ v,
              (((V 0)ᴴ * C * V 0) a m * ((V 0)ᴴ * B * V 0) m v * ((V 0)ᴴ * Y * V 0) v a)
              * (Complex.exp (I * ((ω + (lam 0 m - lam 0 v) : ℝ) : ℂ) * (s : ℂ))
                  * segIntegral (lam 0 a - lam 0 m) s))
            - ∑ a, ∑ n, ∑ v,
              (((V 0)ᴴ * B * V 0) a n * ((V 0)ᴴ * C * V 0) n v * ((V 0)ᴴ * Y * V 0) v a)
              * (Complex.exp (I * ((ω + (lam 0 a - lam 0 n) : ℝ) : ℂ) * (s : ℂ))
                  * segIntegral (lam 0 n - lam 0 v) s)) :=
    funext fun s => segF'_spectral hE0 hC B Y ω s
  have hcont' : Continuous fun s : ℝ => segF' H C B Y (lam 0) (V 0) ω 0 s := by
    rw [hF']
    exact continuous_const.mul (hc1.sub hc2)
  have key := intervalIntegral.hasDerivAt_integral_of_dominated_loc_of_deriv_le
    (μ := volume) (F := fun u s => segF H C B Y ω u s)
    (F' := fun u s => segF' H C B Y (lam u) (V u) ω u s) (x₀ := (0 : ℝ)) (s := Set.univ)
    (a := (0 : ℝ)) (b := dt) (bound := fun _ => K) Filter.univ_mem
    (Filter.Eventually.of_forall fun u => (hcont u).aestronglyMeasurable)
    ((hcont 0).intervalIntegrable _ _) hcont'.aestronglyMeasurable
    (Filter.Eventually.of_forall fun s hs u _ => by
      refine (norm_segF'_le (hE u) B Y ω s).trans ?_
      rw [hK]
      have h1 := abs_le_of_mem_uIoc hs
      have := l1_nonneg C
      have := l1_nonneg B
      have := l1_nonneg Y
      gcongr)
    intervalIntegrable_const
    (Filter.Eventually.of_forall fun s _ u _ => segF_hasDerivAt (hE u) B Y ω s)
  refine key.2.congr_deriv ?_
  rw [hF', intervalIntegral.integral_const_mul,
    intervalIntegral.integral_sub (hc1.intervalIntegrable _ _) (hc2.intervalIntegrable _ _),
    hi1, hi2]

end integral
/-! ### 5. one segment of the control matrix, amplitude varied in the segment -/

section step
variable {d : ℕ}

/-- the closed form of the derivative of the segment integral in the eigenbasis (`Cb`, `Bb`, `Yb`:
control operator, noise operator and `Q C_k Q†` transformed to the eigenbasis): the two triple sums
of nested integrals -/
noncomputable def dkSum (lam : Fin d → ℝ) (Cb Bb Yb : Matrix (Fin d) (Fin d) ℂ) (ω dt : ℝ) : ℂ :=
  (∑ a, ∑ m, ∑ v, (Cb a m * Bb m v * Yb v a)
      * nestedIntegral (ω + (lam m - lam v)) (lam a - lam m) dt)
  - ∑ a, ∑ n, ∑ v, (Bb a n * Cb n v * Yb v a)
      * nestedIntegral (ω + (lam a - lam n)) (lam n - lam v) dt

theorem Useg_eq_segProp_mul (lam : Fin d → ℝ) (V Q : Matrix (Fin d) (Fin d) ℂ) (s : ℝ) :
    Useg lam V Q s = segProp lam V s * Q := by
  unfold Useg segProp
  congr 4
  funext m
  rw [mul_comm ((lam m : ℝ) : ℂ)]

theorem segIntegrand_eq_segF {H C V : Matrix (Fin d) (Fin d) ℂ} {lam : Fin d → ℝ} {u : ℝ}
    (hE : IsEigh (H + (u : ℂ) • C) lam V) (Q B Ck : Matrix (Fin d) (Fin d) ℂ) (ω t0 sa s : ℝ) :
    segIntegrand lam V Q B Ck ω t0 sa s
      = (Complex.exp (I * ((ω : ℂ) * (t0 : ℂ))) * (sa : ℂ)) * segF H C B (Q * Ck * Qᴴ) ω u s := by
  unfold segIntegrand segF
  rw [Useg_eq_segProp_mul, ← Eprop_eq_segProp hE]
  have e1 : Complex.exp (I * ((ω : ℂ) * ((t0 + s : ℝ) : ℂ)))
      = Complex.exp (I * ((ω : ℂ) * (t0 : ℂ))) * Complex.exp (I * ω * s) := by
    rw [← Complex.exp_add]
    congr 1
    push_cast
    ring
  have e2 : Matrix.trace ((Eprop H C s u * Q)ᴴ * B * (Eprop H C s u * Q) * Ck)
      = Matrix.trace ((Eprop H C s u)ᴴ * B * Eprop H C s u * (Q * Ck * Qᴴ)) := by
    rw [Matrix.conjTranspose_mul]
    simp only [Matrix.mul_assoc]
    rw [Matrix.trace_mul_comm]
    simp only [Matrix.mul_assoc]
  rw [e1, e2]
  ring

/-- **One segment, the amplitude of `C` varied in this segment** (the defining integral of the
control matrix on the segment; `Q` = the cumulative propagator before the segment, independent of
`u`): the derivative at `u = 0`. -/
theorem step_integral_hasDerivAt {H C : Matrix (Fin d) (Fin d) ℂ} (lam : ℝ → Fin d → ℝ)
    (V : ℝ → Matrix (Fin d) (Fin d) ℂ) (hE : ∀ u : ℝ, IsEigh (H + (u : ℂ) • C) (lam u) (V u))
    (Q B Ck : Matrix (Fin d) (Fin d) ℂ) (ω t0 sa dt : ℝ) :
    HasDerivAt (fun u : ℝ => ∫ s in (0:ℝ)..dt, segIntegrand (lam u) (V u) Q B Ck ω t0 sa s)
      ((Complex.exp (I * ((ω : ℂ) * (t0 : ℂ))) * (sa : ℂ))
        * (I * dkSum (lam 0) ((V 0)ᴴ * C * V 0) ((V 0)ᴴ * B * V 0)
            ((V 0)ᴴ * (Q * Ck * Qᴴ) * V 0) ω dt)) 0 := by
  have hfun : (fun u : ℝ => ∫ s in (0:ℝ)..dt, segIntegrand (lam u) (V u) Q B Ck ω t0 sa s)
      = fun u : ℝ => (Complex.exp (I * ((ω : ℂ) * (t0 : ℂ))) * (sa : ℂ))
          * ∫ s in (0:ℝ)..dt, segF H C B (Q * Ck * Qᴴ) ω u s := by
    funext u
    rw [← intervalIntegral.integral_const_mul]
    exact intervalIntegral.integral_congr fun s _ => segIntegrand_eq_segF (hE u) Q B Ck ω t0 sa s
  rw [hfun]
  exact (segment_integral_hasDerivAt lam V hE B (Q * Ck * Qᴴ) ω dt).const_mul _

end step
/-! ### 6. separation of the Liouville propagator -/

section liou
variable {d N : ℕ}

theorem continuous_segIntegrand (lam : Fin d → ℝ) (V Q B C : Matrix (Fin d) (Fin d) ℂ)
    (ω t0 sa : ℝ) : Continuous fun s : ℝ => segIntegrand lam V Q B C ω t0 sa s := by
  have : (fun s : ℝ => segIntegrand lam V Q B C ω t0 sa s) = fun s : ℝ =>
      ∑ m, ∑ n, (Complex.exp (Complex.I * ((ω : ℂ) * (t0 : ℂ))) *
          ((sa : ℂ) * (Vᴴ * B * V) m n) * ((Qᴴ * V)ᴴ * C * (Qᴴ * V)) n m) *
          Complex.exp (Complex.I * ((ω + (lam m - lam n) : ℝ) : ℂ) * (s : ℂ)) :=
    funext fun s => C01.segIntegrand_eq_sum lam V Q B C ω t0 sa s
  rw [this]
  fun_prop

/-- the integrand of a segment does not depend on the eigen-decomposition chosen for the segment
Hamiltonian -/
theorem segIntegrand_indep {H V V' : Matrix (Fin d) (Fin d) ℂ} {lam lam' : Fin d → ℝ}
    (h : IsEigh H lam V) (h' : IsEigh H lam' V') (Q B C : Matrix (Fin d) (Fin d) ℂ)
    (ω t0 sa s : ℝ) :
    segIntegrand lam V Q B C ω t0 sa s = segIntegrand lam' V' Q B C ω t0 sa s := by
  unfold segIntegrand
  rw [Useg_eq_segProp_mul, Useg_eq_segProp_mul, piecewise_is_exp h, piecewise_is_exp h']

/-- **Separation of the Liouville propagator** (complete basis `Cb`): the segment integrand with the
cumulative propagator `Q` is the basis sum of the integrands with `Q = 1` against the Liouville
representation `L(Q)_{jk} = tr(C_j Q C_k Q†)` — pointwise in `s`. -/
theorem segIntegrand_liou (Cb : Fin N → Matrix (Fin d) (Fin d) ℂ) (hC : Spec.IsComplete Cb)
    (lam : Fin d → ℝ) (V Q B : Matrix (Fin d) (Fin d) ℂ) (k : Fin N) (ω t0 sa s : ℝ) :
    segIntegrand lam V Q B (Cb k) ω t0 sa s
      = ∑ j, segIntegrand lam V 1 B (Cb j) ω t0 sa s * Spec.liou Cb Q j k := by
  unfold segIntegrand
  rw [Useg_eq_segProp_mul, Useg_eq_segProp_mul, Matrix.mul_one]
  set P := segProp lam V s
  have e : Matrix.trace ((P * Q)ᴴ * B * (P * Q) * Cb k)
      = Matrix.trace ((Pᴴ * B * P) * (Q * Cb k * Qᴴ) * 1) := by
    rw [Matrix.conjTranspose_mul, Matrix.mul_one]
    simp only [Matrix.mul_assoc]
    rw [Matrix.trace_mul_comm]
    simp only [Matrix.mul_assoc]
  rw [e, Spec.trace_expand hC, Finset.mul_sum]
  refine Finset.sum_congr rfl fun j _ => ?_
  have e2 : Matrix.trace (Q * Cb k * Qᴴ * Cb j) = Spec.liou Cb Q j k := by
    unfold Spec.liou
    rw [Matrix.trace_mul_comm]
    simp only [Matrix.mul_assoc]
  rw [e2, Matrix.mul_one]
  ring

theorem segment_integral_liou (Cb : Fin N → Matrix (Fin d) (Fin d) ℂ) (hC : Spec.IsComplete Cb)
    (lam : Fin d → ℝ) (V Q B : Matrix (Fin d) (Fin d) ℂ) (k : Fin N) (ω t0 sa dt : ℝ) :
    ∫ s in (0:ℝ)..dt, segIntegrand lam V Q B (Cb k) ω t0 sa s
      = ∑ j, (∫ s in (0:ℝ)..dt, segIntegrand lam V 1 B (Cb j) ω t0 sa s) * Spec.liou Cb Q j k := by
  simp only [segIntegrand_liou Cb hC lam V Q B k]
  have hc : ∀ j : Fin N, Continuous fun s : ℝ =>
      segIntegrand lam V 1 B (Cb j) ω t0 sa s * Spec.liou Cb Q j k :=
    fun j => (continuous_segIntegrand lam V 1 B (Cb j) ω t0 sa).mul continuous_const
  rw [intervalIntegral.integral_finsetSum fun j _ => (hc j).intervalIntegrable _ _]
  refine Finset.sum_congr rfl fun j _ => ?_
  rw [intervalIntegral.integral_mul_const]

end liou
end FFVerif.CmDerivAux
