/-
Helper lemmas for `FFVerif.Props.C13Prop` (invariance of the cumulative propagators of the model of
`numeric.diagonalize` under re-segmentation, operator order and change of the time unit).
-/
import FFVerif.Props.C02
import FFVerif.Props.C01Seg
import FFVerif.Lemmas.InvarianceAux

namespace FFVerif.PropInvAux
open FFVerif FFVerif.Model FFVerif.C02 Matrix Complex

/-! ### `exp(-i s H)` -/

section expSeg
variable {d : Nat}

/-- `exp(-i s H)` (Mathlib's matrix exponential), the propagator of a constant Hamiltonian `H`
over the time `s`. -/
noncomputable def expSeg (H : Matrix (Fin d) (Fin d) ℂ) (s : ℝ) : Matrix (Fin d) (Fin d) ℂ :=
  NormedSpace.exp ((-(I * (s : ℂ))) • H)

theorem expSeg_def (H : Matrix (Fin d) (Fin d) ℂ) (s : ℝ) :
    expSeg H s = NormedSpace.exp ((-(I * (s : ℂ))) • H) := rfl

theorem expSeg_zero (H : Matrix (Fin d) (Fin d) ℂ) : expSeg H 0 = 1 := by
  simp [expSeg, NormedSpace.exp_zero]

theorem expSeg_add (H : Matrix (Fin d) (Fin d) ℂ) (s r : ℝ) :
    expSeg H (s + r) = expSeg H s * expSeg H r := by
  unfold expSeg
  rw [← Matrix.exp_add_of_commute _ _ (((Commute.refl H).smul_left _).smul_right _), ← add_smul]
  congr 2
  push_cast
  ring

/-- measuring time in another unit: `exp(-i (λ s) (H/λ)) = exp(-i s H)` -/
theorem expSeg_time_unit (H : Matrix (Fin d) (Fin d) ℂ) (lam s : ℝ) (hl : lam ≠ 0) :
    expSeg (((1 / lam : ℝ) : ℂ) • H) (lam * s) = expSeg H s := by
  have hlc : (lam : ℂ) ≠ 0 := by exact_mod_cast hl
  unfold expSeg
  rw [smul_smul]
  congr 2
  push_cast
  field_simp

/-- a segment of zero duration or with the same Hamiltonian has the same propagator -/
theorem expSeg_congr_or {H H' : Matrix (Fin d) (Fin d) ℂ} {s : ℝ} (h : H' = H ∨ s = 0) :
    expSeg H' s = expSeg H s := by
  rcases h with h | h
  · rw [h]
  · rw [h, expSeg_zero, expSeg_zero]

theorem segProp_eq_expSeg {H : Matrix (Fin d) (Fin d) ℂ} {D : Fin d → ℝ}
    {V : Matrix (Fin d) (Fin d) ℂ} (h : IsEigh H D V) (s : ℝ) : segProp D V s = expSeg H s :=
  piecewise_is_exp h s

/-- the `eigh` contract in another time unit: eigenvalues divided by `lam`, same eigenvectors
(every real `lam`; for `lam = 0` both sides are zero by Lean's convention `x / 0 = 0`). -/
theorem isEigh_time_unit {H : Matrix (Fin d) (Fin d) ℂ} {D : Fin d → ℝ}
    {V : Matrix (Fin d) (Fin d) ℂ} (h : IsEigh H D V) (lam : ℝ) :
    IsEigh (((1 / lam : ℝ) : ℂ) • H) (fun j => D j / lam) V := by
  refine ⟨?_, h.left, h.right⟩
  rw [Matrix.smul_mul, h.eig, ← Matrix.mul_smul, ← Matrix.diagonal_smul]
  congr 2
  funext j
  simp only [Pi.smul_apply, smul_eq_mul]
  push_cast
  ring

end expSeg

/-! ### one step of the cumulative product -/

section step
variable {nG d : Nat} (eigvals : Mat ℝ nG d) (eigvecs : Vector (Mat ℂ d d) nG) (dt : Vec ℝ nG)

/-- the factor `piecewise[g] = V_g diag(e^{-i dt_g λ_g}) V_g†` as a Mathlib matrix -/
noncomputable def stepMat (g : Nat) (hg : g < nG) : Matrix (Fin d) (Fin d) ℂ :=
  segProp (fun j => eigvals[g][j]) eigvecs[g].toMatrix dt[g]

theorem propagators_step (g : Nat) (hg : g < nG) :
    (propagators eigvals eigvecs dt)[g + 1].toMatrix
      = stepMat eigvals eigvecs dt g hg * (propagators eigvals eigvecs dt)[g].toMatrix :=
  propagators_succ eigvals eigvecs dt g hg

theorem stepMat_eq_expSeg (H : Matrix (Fin d) (Fin d) ℂ) (g : Nat) (hg : g < nG)
    (hE : IsEigh H (fun j => eigvals[g][j]) eigvecs[g].toMatrix) :
    stepMat eigvals eigvecs dt g hg = expSeg H dt[g] :=
  piecewise_is_exp hE _

theorem propagators_step_exp (H : Matrix (Fin d) (Fin d) ℂ) (g : Nat) (hg : g < nG)
    (hE : IsEigh H (fun j => eigvals[g][j]) eigvecs[g].toMatrix) :
    (propagators eigvals eigvecs dt)[g + 1].toMatrix
      = expSeg H dt[g] * (propagators eigvals eigvecs dt)[g].toMatrix := by
  rw [propagators_step eigvals eigvecs dt g hg, stepMat_eq_expSeg eigvals eigvecs dt H g hg hE]

end step

/-! ### comparing two pulses -/

section compare
variable {n1 n2 d : Nat}
  (ev1 : Mat ℝ n1 d) (V1 : Vector (Mat ℂ d d) n1) (dt1 : Vec ℝ n1)
  (ev2 : Mat ℝ n2 d) (V2 : Vector (Mat ℂ d d) n2) (dt2 : Vec ℝ n2)

/-- if the cumulative propagators of two pulses agree at positions `p1`, `p2` and the next `n`
factors agree, the next `n` cumulative propagators agree -/
theorem propagators_congr_shift (p1 p2 n : Nat) (h1 : p1 + n ≤ n1) (h2 : p2 + n ≤ n2)
    (h0 : (propagators ev2 V2 dt2)[p2].toMatrix = (propagators ev1 V1 dt1)[p1].toMatrix)
    (hstep : ∀ (j : Nat) (hj : j < n),
      stepMat ev2 V2 dt2 (p2 + j) (by omega) = stepMat ev1 V1 dt1 (p1 + j) (by omega))
    (j : Nat) (hj : j ≤ n) :
    (propagators ev2 V2 dt2)[p2 + j].toMatrix = (propagators ev1 V1 dt1)[p1 + j].toMatrix := by
  induction j with
  | zero => exact h0
  | succ j ih =>
    show (propagators ev2 V2 dt2)[p2 + j + 1].toMatrix = (propagators ev1 V1 dt1)[p1 + j + 1].toMatrix
    rw [propagators_step ev2 V2 dt2 (p2 + j) (by omega),
      propagators_step ev1 V1 dt1 (p1 + j) (by omega), hstep j hj, ih (Nat.le_of_succ_le hj)]

/-- `propagators_congr_shift` with free indices `k1 = p1 + j`, `k2 = p2 + j` -/
theorem propagators_congr_shift' (p1 p2 n : Nat) (h1 : p1 + n ≤ n1) (h2 : p2 + n ≤ n2)
    (h0 : (propagators ev2 V2 dt2)[p2].toMatrix = (propagators ev1 V1 dt1)[p1].toMatrix)
    (hstep : ∀ (j : Nat) (hj : j < n),
      stepMat ev2 V2 dt2 (p2 + j) (by omega) = stepMat ev1 V1 dt1 (p1 + j) (by omega))
    (j : Nat) (hj : j ≤ n) (k1 k2 : Nat) (hk1 : k1 = p1 + j) (hk2 : k2 = p2 + j) :
    (propagators ev2 V2 dt2)[k2].toMatrix = (propagators ev1 V1 dt1)[k1].toMatrix := by
  subst hk1 hk2
  exact propagators_congr_shift ev1 V1 dt1 ev2 V2 dt2 p1 p2 n h1 h2 h0 hstep j hj

/-- if the first `p` factors of two pulses agree, so do the first `p + 1` cumulative propagators -/
theorem propagators_congr_prefix (p : Nat) (h1 : p ≤ n1) (h2 : p ≤ n2)
    (hstep : ∀ (j : Nat) (hj : j < p),
      stepMat ev2 V2 dt2 j (by omega) = stepMat ev1 V1 dt1 j (by omega))
    (j : Nat) (hj : j ≤ p) :
    (propagators ev2 V2 dt2)[j].toMatrix = (propagators ev1 V1 dt1)[j].toMatrix := by
  induction j with
  | zero => rw [propagators_zero, propagators_zero]
  | succ j ih =>
    rw [propagators_step ev2 V2 dt2 j (by omega), propagators_step ev1 V1 dt1 j (by omega),
      hstep j hj, ih (Nat.le_of_succ_le hj)]

end compare

/-! ### a run of fine segments with one Hamiltonian -/

section run
variable {nG d : Nat} (eigvals : Mat ℝ nG d) (eigvecs : Vector (Mat ℂ d d) nG) (dt : Vec ℝ nG)

/-- over a run of segments `l0 ≤ m < l` each of which has the Hamiltonian `Hg` or duration zero,
the cumulative propagator advances by `exp(-i (t_l - t_{l0}) Hg)` -/
theorem propagators_run (H : Fin nG → Matrix (Fin d) (Fin d) ℂ)
    (hE : ∀ g : Fin nG, IsEigh (H g) (fun j => eigvals[g.1][j]) eigvecs[g.1].toMatrix)
    (Hg : Matrix (Fin d) (Fin d) ℂ) (l0 l : Nat) (hl0 : l0 ≤ l) (hl : l ≤ nG)
    (hrun : ∀ (m : Nat) (hm : m < nG), l0 ≤ m → m < l → H ⟨m, hm⟩ = Hg ∨ dt[m] = 0) :
    (propagators eigvals eigvecs dt)[l].toMatrix
      = expSeg Hg ((times dt)[l] - (times dt)[l0])
        * (propagators eigvals eigvecs dt)[l0].toMatrix := by
  induction l, hl0 using Nat.le_induction with
  | base => rw [sub_self, expSeg_zero, Matrix.one_mul]
  | succ l hl0 ih =>
    have hl' : l < nG := hl
    rw [propagators_step_exp eigvals eigvecs dt (H ⟨l, hl'⟩) l hl' (hE ⟨l, hl'⟩),
      ih (Nat.le_of_succ_le hl) (fun m hm h1 h2 => hrun m hm h1 (Nat.lt_succ_of_lt h2)),
      expSeg_congr_or (hrun l hl' hl0 (Nat.lt_succ_self l)), ← Matrix.mul_assoc, ← expSeg_add,
      times_succ dt l hl']
    congr 2
    ring

end run

/-! ### entries of the model Hamiltonian -/

theorem hamiltonian_getElem {nC nG d : Nat} (cOpers : Ten3 ℂ nC d d) (cCoeffs : Mat ℝ nC nG)
    (g : Nat) (hg : g < nG) (j : Nat) (hj : j < d) (k : Nat) (hk : k < d) :
    (hamiltonian cOpers cCoeffs)[g][j][k]
      = ∑ i : Fin nC, cOpers[i][j][k] * ((cCoeffs[i][g] : ℝ) : ℂ) := by
  simp only [hamiltonian, Gen.pulse_sequence_PulseSequence_diagonalize_0,
    Fin.getElem_fin, Vector.getElem_ofFn, Vector.getElem_map, fsum_eq_sum, copsOfReal]

/-! ### times -/

theorem times_map_mul {nG : Nat} (dt : Vec ℝ nG) (lam : ℝ) (g : Nat) (hg : g ≤ nG) :
    (times (Vector.map (lam * ·) dt))[g] = lam * (times dt)[g] := by
  induction g with
  | zero => rw [times_zero, times_zero, mul_zero]
  | succ g ih =>
    rw [times_succ _ g hg, times_succ _ g hg, ih (Nat.le_of_succ_le hg), Vector.getElem_map, mul_add]

/-! ### index bookkeeping for `Fin.succAbove`, link to `C01.Useg` -/

/-- `g₀.succ.succAbove` skips position `g₀ + 1`: `i ↦ i` for `i ≤ g₀`, `i ↦ i + 1` above -/
theorem succ_succAbove_val {n : Nat} (g₀ i : Fin n) :
    (g₀.succ.succAbove i).1 = if i.1 ≤ g₀.1 then i.1 else i.1 + 1 := by
  unfold Fin.succAbove
  simp only [Fin.lt_def, Fin.val_castSucc, Fin.val_succ]
  split_ifs <;> simp <;> omega

theorem vec_get_of_val_eq {α : Type} {n : Nat} (v : Vector α n) (i : Fin n) (l : Nat) (hl : l < n)
    (h : i.1 = l) : v[i] = v[l] := by
  subst h; rfl

theorem vec_get_congr {α : Type} {n : Nat} (v : Vector α n) (a b : Nat) (ha : a < n) (hb : b < n)
    (h : a = b) : v[a] = v[b] := by
  subst h; rfl

/-- `C01.Useg` (used by the control-matrix theorems) is the spectral segment propagator of `C02`
times the cumulative propagator -/
theorem Useg_eq_segProp_mul {d : Nat} (lam : Fin d → ℝ) (V Q : Matrix (Fin d) (Fin d) ℂ) (s : ℝ) :
    C01.Useg lam V Q s = segProp lam V s * Q := by
  unfold C01.Useg segProp
  congr 4
  funext m
  congr 2
  ring

end FFVerif.PropInvAux
