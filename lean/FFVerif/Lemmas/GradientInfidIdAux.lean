/-
Helper lemmas for C11Infid, part 2: the identity row of the control matrix, and the relation of
`fidelityIntegral` (what `infidelity_derivative` differentiates) to the model of `numeric.infidelity`
(`Model.infidelityFromCM1/2`, traceless-basis branch).
-/
import FFVerif.Lemmas.GradientInfidAux

namespace FFVerif.GradientInfidAux
open FFVerif FFVerif.Model FFVerif.GradientAux FFVerif.GradientAsmAux Matrix Complex
open scoped Matrix

/-! ### the identity row of the control matrix -/

/-- **Closed form of the identity row.**  If the basis element `k0` is `c·1` and the eigenvector
matrices and cumulative propagators are unitary, the row `k0` of the control matrix is

  `B[a][k0](ω_o) = Σ_g e^{iω_o t_g} · s_a^{(g)} · I(ω_o, dt_g) · c · tr(B_a)`,

`I(ω, dt)` the entry of `_first_order_integral` for a vanishing level difference
(`∫₀^dt e^{iωs} ds`, or `dt` in the truncated branch): it depends on the noise operator, its
sensitivities and the time grid only — NOT on the control Hamiltonian. -/
theorem cm_identity_row {nG d nO nA nK : Nat} (kind : MaskKind) (thr : ℝ)
    (eigvals : Mat ℝ nG d) (eigvecs props : Vector (Mat ℂ d d) nG)
    (omega : Vec ℝ nO) (basis : Vector (Mat ℂ d d) nK) (nOpers : Vector (Mat ℂ d d) nA)
    (nCoeffs : Mat ℝ nA nG) (dt t : Vec ℝ nG) (k0 : Fin nK) (c : ℂ)
    (h0 : basis[k0].toMatrix = c • (1 : Matrix (Fin d) (Fin d) ℂ))
    (hV : ∀ g : Fin nG, (eigvecs[g].toMatrix)ᴴ * eigvecs[g].toMatrix = 1)
    (hQ : ∀ g : Fin nG, (props[g].toMatrix)ᴴ * props[g].toMatrix = 1)
    (a : Fin nA) (o : Fin nO) :
    (controlMatrixFromScratch kind thr eigvals eigvecs props omega basis nOpers nCoeffs dt t)[a][k0][o]
      = ∑ g : Fin nG, Complex.exp (Complex.I * ((omega[o] : ℂ) * (t[g] : ℂ))) * (nCoeffs[a][g] : ℂ) *
          (firstOrderEntry kind thr omega[o] dt[g] : ℂ) * c * trace nOpers[a].toMatrix := by
  rw [C01.cm_entry]
  refine Finset.sum_congr rfl fun g _ => ?_
  have hQ' : props[g].toMatrix * (props[g].toMatrix)ᴴ = 1 := _root_.mul_eq_one_comm.mp (hQ g)
  have hV' : eigvecs[g].toMatrix * (eigvecs[g].toMatrix)ᴴ = 1 := _root_.mul_eq_one_comm.mp (hV g)
  have hW : ((props[g].toMatrix)ᴴ * eigvecs[g].toMatrix)ᴴ * basis[k0].toMatrix *
      ((props[g].toMatrix)ᴴ * eigvecs[g].toMatrix) = c • (1 : Matrix (Fin d) (Fin d) ℂ) := by
    rw [h0, Matrix.mul_smul, Matrix.mul_one, Matrix.smul_mul, Matrix.conjTranspose_mul,
      Matrix.conjTranspose_conjTranspose, Matrix.mul_assoc,
      ← Matrix.mul_assoc (props[g].toMatrix), hQ', Matrix.one_mul, hV g]
  rw [hW]
  have hin : ∀ m : Fin d, ∑ n : Fin d,
      Complex.exp (Complex.I * ((omega[o] : ℂ) * (t[g] : ℂ))) *
        ((nCoeffs[a][g] : ℂ) * ((eigvecs[g].toMatrix)ᴴ * nOpers[a].toMatrix * eigvecs[g].toMatrix) m n) *
        (firstOrderEntry kind thr (omega[o] + (eigvals[g][m] - eigvals[g][n])) dt[g] : ℂ) *
        (c • (1 : Matrix (Fin d) (Fin d) ℂ)) n m
      = Complex.exp (Complex.I * ((omega[o] : ℂ) * (t[g] : ℂ))) * (nCoeffs[a][g] : ℂ) *
        (firstOrderEntry kind thr omega[o] dt[g] : ℂ) * c *
        ((eigvecs[g].toMatrix)ᴴ * nOpers[a].toMatrix * eigvecs[g].toMatrix) m m := by
    intro m
    rw [Finset.sum_eq_single m]
    · simp only [Matrix.smul_apply, Matrix.one_apply_eq, smul_eq_mul, mul_one, sub_self, add_zero]
      ring
    · intro n _ hn
      simp [Matrix.one_apply_ne hn]
    · simp
  simp only [hin]
  rw [← Finset.mul_sum]
  have htr' : ∑ m : Fin d, ((eigvecs[g].toMatrix)ᴴ * nOpers[a].toMatrix * eigvecs[g].toMatrix) m m
      = trace nOpers[a].toMatrix := by
    have : trace ((eigvecs[g].toMatrix)ᴴ * nOpers[a].toMatrix * eigvecs[g].toMatrix)
        = trace nOpers[a].toMatrix := by
      rw [Matrix.trace_mul_comm, ← Matrix.mul_assoc, hV', Matrix.one_mul]
    simpa [Matrix.trace] using this
  rw [htr']

/-- `x[:-1]`, entry -/
theorem dropLast_get {α : Type} {n : Nat} (v : Vector α (n + 1)) (g : Fin n) :
    (dropLast v)[g] = v[g.1]'(by omega) := by
  unfold dropLast
  rw [vget]

/-- in an `AmplitudeFamily` the eigenvector matrices and the model's cumulative propagators are
unitary for every `u` -/
theorem family_unitary {nG d : Nat} {H : Fin nG → Matrix (Fin d) (Fin d) ℂ} {C : Mat ℂ d d}
    {g' : Fin nG} {eigvals : ℝ → Mat ℝ nG d} {eigvecs : ℝ → Vector (Mat ℂ d d) nG}
    (hE : AmplitudeFamily H C g' eigvals eigvecs) (dt : Vec ℝ nG) (u : ℝ) :
    (∀ g : Fin nG, (((eigvecs u)[g]).toMatrix)ᴴ * ((eigvecs u)[g]).toMatrix = 1) ∧
    (∀ g : Fin nG, (((dropLast (propagators (eigvals u) (eigvecs u) dt))[g]).toMatrix)ᴴ
        * ((dropLast (propagators (eigvals u) (eigvecs u) dt))[g]).toMatrix = 1) := by
  have hV : ∀ g : Fin nG, (((eigvecs u)[g]).toMatrix)ᴴ * ((eigvecs u)[g]).toMatrix = 1 :=
    fun g => (hE u g).left
  refine ⟨hV, fun g => ?_⟩
  rw [dropLast_get]
  exact (C02.propagators_unitary (eigvals u) (eigvecs u) dt (fun g hg => hV ⟨g, hg⟩) g.1
    (by omega)).1

/-! ### relation to the model of `numeric.infidelity` -/

/-- a real spectrum `(k, n_omega)` as the complex array the model of `numeric.infidelity` takes -/
def ofRealSpec {m nO : Nat} (S : Mat ℝ m nO) : Mat ℂ m nO :=
  Vector.ofFn fun a => Vector.ofFn fun o => ((S[a][o] : ℝ) : ℂ)

/-- `util.integrate` as modelled for `numeric.py` and for `gradient.py` is the same function -/
theorem integrateR_eq_integrate {n : Nat} (x f : Vec ℝ n) : integrateR x f = integrate f x := rfl

/-- the trapezoid rule is additive -/
theorem integrate_sub {n : Nat} (f g x : Vec ℝ n) :
    integrate (Vector.ofFn fun o : Fin n => f[o] - g[o]) x = integrate f x - integrate g x := by
  simp only [integrate_eq, Fin.getElem_fin, Vector.getElem_ofFn]
  rw [← sub_div, ← Finset.sum_sub_distrib]
  congr 1
  refine Finset.sum_congr rfl fun i _ => ?_
  ring

theorem re_conj_mul_self_mul_ofReal (z : ℂ) (s : ℝ) :
    ((starRingEnd ℂ z * z) * (s : ℂ)).re = Complex.normSq z * s := by
  rw [← Complex.normSq_eq_conj_mul_self, ← Complex.ofReal_mul, Complex.ofReal_re]

/-- **What the traceless-basis branch of the model of `numeric.infidelity` returns**, for a real
spectrum of shape `(k, n_omega)`, in terms of `fidelityIntegral`:
* no identity element in the basis (`_identity_element_index` returns nothing): the integral that
  `infidelity_derivative` differentiates;
* identity element `k0`: that integral MINUS the identity component
  `util.integrate(S · |B[a][k0]|², ω)/(2π·dim)`. -/
theorem infidelityFromCM2_fidelityIntegral {nA N nO m : Nat} (dim : Nat) (ω : Vec ℝ nO)
    (B : Ten3 ℂ nA N nO) (T : Ten4 ℂ N N N N) (idx : Vec (Fin nA) m) (S : Mat ℝ m nO) (a : Fin m) :
    (infidelityFromCM2 true dim ω B T (#v[] : Vec (Fin N) 0) idx (ofRealSpec S))[a]
      = fidelityIntegral dim ω S[a] B[idx[a]] ∧
    ∀ k0 : Fin N, (infidelityFromCM2 true dim ω B T #v[k0] idx (ofRealSpec S))[a]
      = fidelityIntegral dim ω S[a] B[idx[a]]
        - fidelityIntegral dim ω S[a] (#v[B[idx[a]][k0]] : Mat ℂ 1 nO) := by
  have hS : ∀ o : Fin nO, (ofRealSpec S)[a][o] = ((S[a][o] : ℝ) : ℂ) := fun o => by
    unfold ofRealSpec
    rw [vget, vget]
  have hsum : ∀ o : Fin nO, (∑ k : Fin N, starRingEnd ℂ B[idx[a]][k][o] * B[idx[a]][k][o])
      = ((∑ k : Fin N, Complex.normSq B[idx[a]][k][o] : ℝ) : ℂ) := fun o => by
    push_cast
    refine Finset.sum_congr rfl fun k _ => ?_
    rw [Complex.normSq_eq_conj_mul_self]
  constructor
  · rw [infidelityFromCM2_getElem]
    unfold infidPair infidEntry fidelityIntegral
    rw [integrateR_eq_integrate]
    have e : (fun o : Fin nO => ((ffPair true dim B[idx[a]] B[idx[a]] T
          (#v[] : Vec (Fin N) 0))[o] * (ofRealSpec S)[a][o]).re)
        = fun o : Fin nO => S[a][o] * ∑ k : Fin N, Complex.normSq B[idx[a]][k][o] := by
      funext o
      rw [ffPair_true_getElem, hS, hsum]
      simp only [Finset.univ_eq_empty, Finset.sum_empty, sub_zero]
      rw [← Complex.ofReal_mul, Complex.ofReal_re, mul_comm]
    rw [e]
  · intro k0
    rw [infidelityFromCM2_getElem]
    unfold infidPair infidEntry fidelityIntegral
    rw [integrateR_eq_integrate, ← sub_div, ← integrate_sub]
    have e : (fun o : Fin nO => ((ffPair true dim B[idx[a]] B[idx[a]] T
          (#v[k0] : Vec (Fin N) 1))[o] * (ofRealSpec S)[a][o]).re)
        = fun o : Fin nO =>
          (Vector.ofFn fun o : Fin nO => S[a][o] * ∑ k : Fin N, Complex.normSq B[idx[a]][k][o])[o]
          - (Vector.ofFn fun o : Fin nO => S[a][o]
              * ∑ k : Fin 1, Complex.normSq (#v[B[idx[a]][k0]] : Mat ℂ 1 nO)[k][o])[o] := by
      funext o
      rw [ffPair_true_getElem, hS, hsum, vget, vget, Fin.sum_univ_one, Fin.sum_univ_one]
      have e1 : (#v[k0] : Vec (Fin N) 1)[(0 : Fin 1)] = k0 := rfl
      have e2 : (#v[B[idx[a]][k0]] : Mat ℂ 1 nO)[(0 : Fin 1)] = B[idx[a]][k0] := rfl
      simp only [e1, e2]
      rw [← Complex.normSq_eq_conj_mul_self, ← Complex.ofReal_sub, ← Complex.ofReal_mul,
        Complex.ofReal_re]
      ring
    rw [e]

end FFVerif.GradientInfidAux
