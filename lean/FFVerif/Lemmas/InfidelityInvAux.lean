/-
Helper lemmas for `FFVerif.Props.C08Inv` (invariances of the infidelity model):

* more about the trapezoid `Spec.trapz` (difference, absolute bound, rescaled grid, sorted grid);
* the filter function `fidelityFF` and the infidelity models `infidelityFromCM1/2/3` as functions
  of TWO ROWS of the control matrix (`ffPair`, `infidPair`), with a Lipschitz bound and the
  behaviour under real rescaling;
* behaviour of `ffPair` under an isometric change of the operator basis;
* a few facts about `controlMatrixFromScratch` (row proportional to a basis element, row
  proportional to the sensitivities) and about trace tensors of conjugated bases.
-/
import Mathlib.Analysis.Complex.Basic
import Mathlib.Analysis.Complex.Norm
import Mathlib.LinearAlgebra.FiniteDimensional.Basic
import Mathlib.Tactic.Ring
import Mathlib.Tactic.Positivity
import Mathlib.Tactic.GCongr
import Mathlib.Tactic.FieldSimp
import FFVerif.Lemmas.FidelityTraceAux
import FFVerif.Lemmas.InvarianceAux
import FFVerif.Props.C01Seg

/-! ### The trapezoid -/

namespace FFVerif.Spec
variable {n : Nat}

theorem trapz_sub {F : Type} [Field F] (emb : ℝ → F) (x : Fin n → ℝ) (f g : Fin n → F) :
    trapz emb x (fun i => f i - g i) = trapz emb x f - trapz emb x g := by
  unfold trapz
  rw [← Finset.sum_sub_distrib]
  exact Finset.sum_congr rfl fun i _ => by ring

/-- `|∫ f| ≤ ∫ g |dx|` for `|f| ≤ g` (any grid, sorted or not) -/
theorem trapz_abs_le (x : Fin n → ℝ) (f g : Fin n → ℝ) (h : ∀ i, |f i| ≤ g i) :
    |trapz (fun r : ℝ => r) x f| ≤ trapz (fun r : ℝ => |r|) x g := by
  unfold trapz
  refine (Finset.abs_sum_le_sum_abs _ _).trans (Finset.sum_le_sum fun i _ => ?_)
  rw [abs_div, abs_mul, abs_two]
  have h3 : |f ⟨i.1, by have := i.2; omega⟩ + f ⟨i.1 + 1, by have := i.2; omega⟩|
      ≤ g ⟨i.1, by have := i.2; omega⟩ + g ⟨i.1 + 1, by have := i.2; omega⟩ :=
    (abs_add_le _ _).trans (add_le_add (h _) (h _))
  gcongr

/-- dividing the grid by `lam` divides the trapezoid sum by `lam` (any `lam`, also negative) -/
theorem trapz_scale_grid (x : Fin n → ℝ) (f : Fin n → ℝ) (lam : ℝ) :
    trapz (fun r : ℝ => r) (fun i => x i / lam) f = trapz (fun r : ℝ => r) x f / lam := by
  unfold trapz
  rw [Finset.sum_div]
  exact Finset.sum_congr rfl fun i _ => by ring

/-- on a sorted grid `|dx| = dx` -/
theorem trapz_abs_sorted (x : Fin n → ℝ) (hx : ∀ i j : Fin n, i ≤ j → x i ≤ x j) (g : Fin n → ℝ) :
    trapz (fun r : ℝ => |r|) x g = trapz (fun r : ℝ => r) x g := by
  unfold trapz
  refine Finset.sum_congr rfl fun i _ => ?_
  dsimp only
  rw [abs_of_nonneg (sub_nonneg.mpr (hx _ _ (by simp [Fin.le_def])))]

theorem trapz_abs_nonneg (x : Fin n → ℝ) (g : Fin n → ℝ) (hg : ∀ i, 0 ≤ g i) :
    0 ≤ trapz (fun r : ℝ => |r|) x g := by
  unfold trapz
  refine Finset.sum_nonneg fun i _ => ?_
  have h1 := hg ⟨i.1, by have := i.2; omega⟩
  have h2 := hg ⟨i.1 + 1, by have := i.2; omega⟩
  positivity

end FFVerif.Spec

namespace FFVerif.Model
open FFVerif Matrix

variable {nA nA' m N N' nO q q' : Nat}

/-! ### `infidEntry`: Lipschitz bound and rescaling -/

/-- `∫ |S(ω)| |dω|` by the trapezoid (with `|ω_{i+1} - ω_i|`, so that it is non-negative on every
grid; on a sorted grid it is `integrateR ω |S|`, see `absIntegral_sorted`) -/
noncomputable def absIntegral (ω : Vec ℝ nO) (S : Vec ℂ nO) : ℝ :=
  Spec.trapz (fun r : ℝ => |r|) (fun i => ω[i]) (fun i => ‖S[i]‖)

theorem absIntegral_nonneg (ω : Vec ℝ nO) (S : Vec ℂ nO) : 0 ≤ absIntegral ω S :=
  Spec.trapz_abs_nonneg _ _ fun _ => norm_nonneg _

theorem absIntegral_sorted (ω : Vec ℝ nO) (hω : ∀ i j : Fin nO, i ≤ j → ω[i] ≤ ω[j])
    (S : Vec ℂ nO) :
    absIntegral ω S = integrateR ω (Vector.ofFn fun o => ‖S[o]‖) := by
  unfold absIntegral
  rw [Spec.trapz_abs_sorted _ hω, integrateR_eq_trapz]
  simp only [Fin.getElem_fin, Vector.getElem_ofFn]

/-- the tail of `infidelity` is Lipschitz in the filter function -/
theorem infidEntry_sub_le (ω : Vec ℝ nO) (F F' S : Vec ℂ nO) (d : Nat) (c : ℝ)
    (h : ∀ o : Fin nO, ‖F'[o] - F[o]‖ ≤ c) :
    |infidEntry ω F' S d - infidEntry ω F S d|
      ≤ c * absIntegral ω S / (2 * Real.pi * (d : ℝ)) := by
  unfold infidEntry absIntegral
  have hden : 0 ≤ 2 * Real.pi * (d : ℝ) := by positivity
  rw [← sub_div, abs_div, abs_of_nonneg hden]
  refine div_le_div_of_nonneg_right ?_ hden
  rw [integrateR_eq_trapz, integrateR_eq_trapz, ← Spec.trapz_sub, ← Spec.trapz_smul]
  refine Spec.trapz_abs_le _ _ _ fun i => ?_
  have hi := h i
  simp only [Fin.getElem_fin, Vector.getElem_ofFn] at hi ⊢
  rw [← Complex.sub_re, ← sub_mul]
  refine (Complex.abs_re_le_norm _).trans ?_
  rw [norm_mul]
  exact mul_le_mul_of_nonneg_right hi (norm_nonneg _)

/-- rescaling: filter function `× c`, spectrum `× s` (real factors), frequencies `÷ lam` -/
theorem infidEntry_scale (ω : Vec ℝ nO) (F F' S S' : Vec ℂ nO) (d : Nat) (lam c s : ℝ)
    (hF : ∀ o : Fin nO, F'[o] = (c : ℂ) * F[o]) (hS : ∀ o : Fin nO, S'[o] = (s : ℂ) * S[o]) :
    infidEntry (Vector.map (· / lam) ω) F' S' d = c * s / lam * infidEntry ω F S d := by
  unfold infidEntry
  rw [integrateR_eq_trapz, integrateR_eq_trapz]
  have h1 : (fun i : Fin nO => (Vector.map (· / lam) ω)[i]) = fun i => ω[i] / lam := by
    funext i
    simp only [Fin.getElem_fin, Vector.getElem_map]
  have h2 : (fun i : Fin nO => (Vector.ofFn fun o : Fin nO => (F'[o] * S'[o]).re)[i])
      = fun i => (c * s) * (Vector.ofFn fun o : Fin nO => (F[o] * S[o]).re)[i] := by
    funext i
    have hf := hF i
    have hs := hS i
    simp only [Fin.getElem_fin, Vector.getElem_ofFn] at hf hs ⊢
    rw [hf, hs, ← Complex.re_ofReal_mul]
    push_cast
    ring_nf
  rw [h1, h2, Spec.trapz_scale_grid, Spec.trapz_smul]
  ring

/-! ### The filter function of `infidelity` as a function of two rows of the control matrix -/

/-- the variable `filter_function` of `infidelity(which='total')` for ONE pair `(a, b)` of noise
operators, from the rows `Ba = B[a]`, `Bb = B[b]` of the control matrix (both branches) -/
noncomputable def ffPair (istl : Bool) (d : Nat) (Ba Bb : Mat ℂ N nO) (T : Ten4 ℂ N N N N)
    (idIdx : Vec (Fin N) q) : Vec ℂ nO :=
  Vector.ofFn fun o =>
    if istl then
      (∑ k : Fin N, starRingEnd ℂ Ba[k][o] * Bb[k][o])
        - ∑ r : Fin q, starRingEnd ℂ Ba[idIdx[r]][o] * Bb[idIdx[r]][o]
    else
      (∑ k : Fin N, ∑ l : Fin N, starRingEnd ℂ Ba[k][o] * Bb[l][o] * (tracesDiag T)[k][l]) / (d : ℂ)

theorem ffPair_true_getElem (d : Nat) (Ba Bb : Mat ℂ N nO) (T : Ten4 ℂ N N N N)
    (idIdx : Vec (Fin N) q) (o : Fin nO) :
    (ffPair true d Ba Bb T idIdx)[o]
      = (∑ k : Fin N, starRingEnd ℂ Ba[k][o] * Bb[k][o])
        - ∑ r : Fin q, starRingEnd ℂ Ba[idIdx[r]][o] * Bb[idIdx[r]][o] := by
  simp only [ffPair, Fin.getElem_fin, Vector.getElem_ofFn, if_true]

theorem ffPair_false_getElem (d : Nat) (Ba Bb : Mat ℂ N nO) (T : Ten4 ℂ N N N N)
    (idIdx : Vec (Fin N) q) (o : Fin nO) :
    (ffPair false d Ba Bb T idIdx)[o]
      = (∑ k : Fin N, ∑ l : Fin N, starRingEnd ℂ Ba[k][o] * Bb[l][o] * (tracesDiag T)[k][l])
        / (d : ℂ) := by
  simp only [ffPair, Fin.getElem_fin, Vector.getElem_ofFn, Bool.false_eq_true, if_false]

/-- `fidelityFF` entry `(a, b)` depends on the rows `a`, `b` of the control matrix only -/
theorem fidelityFF_row (istl : Bool) (d : Nat) (B : Ten3 ℂ nA N nO) (T : Ten4 ℂ N N N N)
    (idIdx : Vec (Fin N) q) (a b : Fin nA) :
    (fidelityFF istl d B T idIdx)[a][b] = ffPair istl d B[a] B[b] T idIdx := by
  apply Vector.ext
  intro o ho
  cases istl
  · have h := fidelityFF_false_getElem d B T idIdx a b ⟨o, ho⟩
    have h2 := ffPair_false_getElem d B[a] B[b] T idIdx ⟨o, ho⟩
    simp only [Fin.getElem_fin] at h h2 ⊢
    rw [h, h2]
  · have h := fidelityFF_true_getElem d B T idIdx a b ⟨o, ho⟩
    have h2 := ffPair_true_getElem d B[a] B[b] T idIdx ⟨o, ho⟩
    simp only [Fin.getElem_fin] at h h2 ⊢
    rw [h, h2]

/-- the infidelity of ONE pair of noise operators from the two rows of the control matrix, the
trace data and the spectrum of that pair -/
noncomputable def infidPair (istl : Bool) (d : Nat) (ω : Vec ℝ nO) (Ba Bb : Mat ℂ N nO)
    (T : Ten4 ℂ N N N N) (idIdx : Vec (Fin N) q) (Sab : Vec ℂ nO) : ℝ :=
  infidEntry ω (ffPair istl d Ba Bb T idIdx) Sab d

theorem infidelityFromCM3_getElem (istl : Bool) (d : Nat) (ω : Vec ℝ nO) (B : Ten3 ℂ nA N nO)
    (T : Ten4 ℂ N N N N) (idIdx : Vec (Fin N) q) (idx : Vec (Fin nA) m) (S : Ten3 ℂ m m nO)
    (a b : Fin m) :
    (infidelityFromCM3 istl d ω B T idIdx idx S)[a][b]
      = infidPair istl d ω B[idx[a]] B[idx[b]] T idIdx S[a][b] := by
  unfold infidelityFromCM3 infidPair
  rw [infidelityFull_getElem, fidelityFF_row]

theorem infidelityFromCM2_getElem (istl : Bool) (d : Nat) (ω : Vec ℝ nO) (B : Ten3 ℂ nA N nO)
    (T : Ten4 ℂ N N N N) (idIdx : Vec (Fin N) q) (idx : Vec (Fin nA) m) (S : Mat ℂ m nO)
    (a : Fin m) :
    (infidelityFromCM2 istl d ω B T idIdx idx S)[a]
      = infidPair istl d ω B[idx[a]] B[idx[a]] T idIdx S[a] := by
  unfold infidelityFromCM2 infidPair
  rw [infidelityDiag_getElem, fidelityFF_row]

theorem infidelityFromCM1_getElem (istl : Bool) (d : Nat) (ω : Vec ℝ nO) (B : Ten3 ℂ nA N nO)
    (T : Ten4 ℂ N N N N) (idIdx : Vec (Fin N) q) (idx : Vec (Fin nA) m) (S : Vec ℂ nO)
    (a : Fin m) :
    (infidelityFromCM1 istl d ω B T idIdx idx S)[a]
      = infidPair istl d ω B[idx[a]] B[idx[a]] T idIdx S := by
  unfold infidelityFromCM1
  rw [infidelityFromCM2_getElem, InvAux.vec_ofFn_get]

/-! ### Extensionality with `Fin` indices, whole-array statements from pair statements -/

theorem vec_ext_fin {α : Type} {n : Nat} {v w : Vector α n} (h : ∀ i : Fin n, v[i] = w[i]) :
    v = w := by
  apply Vector.ext
  intro i hi
  exact h ⟨i, hi⟩

theorem mat_ext_fin {α : Type} {k n : Nat} {A B : Vector (Vector α n) k}
    (h : ∀ (i : Fin k) (j : Fin n), A[i][j] = B[i][j]) : A = B :=
  vec_ext_fin fun i => vec_ext_fin fun j => h i j

/-- if the filter functions of all selected pairs agree, the three infidelity models agree
(possibly different branches, bases, trace data; the same `d`) -/
theorem infidelity_of_ffPair_eq (istl istl' : Bool) (d : Nat) (ω : Vec ℝ nO)
    (B : Ten3 ℂ nA N nO) (B' : Ten3 ℂ nA' N' nO) (T : Ten4 ℂ N N N N) (T' : Ten4 ℂ N' N' N' N')
    (idIdx : Vec (Fin N) q) (idIdx' : Vec (Fin N') q') (idx : Vec (Fin nA) m)
    (idx' : Vec (Fin nA') m)
    (h : ∀ a b : Fin m, ffPair istl' d B'[idx'[a]] B'[idx'[b]] T' idIdx'
      = ffPair istl d B[idx[a]] B[idx[b]] T idIdx)
    (S1 : Vec ℂ nO) (S2 : Mat ℂ m nO) (S3 : Ten3 ℂ m m nO) :
    infidelityFromCM1 istl' d ω B' T' idIdx' idx' S1 = infidelityFromCM1 istl d ω B T idIdx idx S1 ∧
    infidelityFromCM2 istl' d ω B' T' idIdx' idx' S2 = infidelityFromCM2 istl d ω B T idIdx idx S2 ∧
    infidelityFromCM3 istl' d ω B' T' idIdx' idx' S3 = infidelityFromCM3 istl d ω B T idIdx idx S3 := by
  refine ⟨vec_ext_fin fun a => ?_, vec_ext_fin fun a => ?_, mat_ext_fin fun a b => ?_⟩
  · rw [infidelityFromCM1_getElem, infidelityFromCM1_getElem, infidPair, infidPair, h]
  · rw [infidelityFromCM2_getElem, infidelityFromCM2_getElem, infidPair, infidPair, h]
  · rw [infidelityFromCM3_getElem, infidelityFromCM3_getElem, infidPair, infidPair, h]

/-! ### Lipschitz bound -/

/-- the constant by which the entrywise perturbation `εa·Mb + Ma·εb` of `conj(B_ak) B_bl` is
amplified in the filter function: `N + q` on the traceless branch (`N` terms of the fidelity
filter function plus the `q` subtracted identity terms), `Σ_kl |traces_diag_kl| / d` on the
trace-tensor branch -/
noncomputable def cmWeight (istl : Bool) (d : Nat) (T : Ten4 ℂ N N N N) (q : Nat) : ℝ :=
  if istl then (N : ℝ) + (q : ℝ)
  else (∑ k : Fin N, ∑ l : Fin N, ‖(tracesDiag T)[k][l]‖) / (d : ℝ)

theorem conj_mul_sub_le (a a' b b' : ℂ) (εa εb Ma Mb : ℝ) (h1 : ‖a' - a‖ ≤ εa)
    (h2 : ‖b' - b‖ ≤ εb) (h3 : ‖a‖ ≤ Ma) (h4 : ‖b'‖ ≤ Mb) :
    ‖starRingEnd ℂ a' * b' - starRingEnd ℂ a * b‖ ≤ εa * Mb + Ma * εb := by
  have e : starRingEnd ℂ a' * b' - starRingEnd ℂ a * b
      = starRingEnd ℂ (a' - a) * b' + starRingEnd ℂ a * (b' - b) := by
    rw [map_sub]; ring
  rw [e]
  refine (norm_add_le _ _).trans (add_le_add ?_ ?_)
  · rw [norm_mul, Complex.norm_conj]
    exact mul_le_mul h1 h4 (norm_nonneg _) ((norm_nonneg _).trans h1)
  · rw [norm_mul, Complex.norm_conj]
    exact mul_le_mul h3 h2 (norm_nonneg _) ((norm_nonneg _).trans h3)

theorem ffPair_sub_le (istl : Bool) (d : Nat) (Ba Bb Ba' Bb' : Mat ℂ N nO) (T : Ten4 ℂ N N N N)
    (idIdx : Vec (Fin N) q) (εa εb Ma Mb : ℝ) (o : Fin nO)
    (hεa : ∀ k : Fin N, ‖Ba'[k][o] - Ba[k][o]‖ ≤ εa)
    (hεb : ∀ k : Fin N, ‖Bb'[k][o] - Bb[k][o]‖ ≤ εb)
    (hMa : ∀ k : Fin N, ‖Ba[k][o]‖ ≤ Ma) (hMb : ∀ k : Fin N, ‖Bb'[k][o]‖ ≤ Mb) :
    ‖(ffPair istl d Ba' Bb' T idIdx)[o] - (ffPair istl d Ba Bb T idIdx)[o]‖
      ≤ (εa * Mb + Ma * εb) * cmWeight istl d T q := by
  have hp : ∀ k l : Fin N, ‖starRingEnd ℂ Ba'[k][o] * Bb'[l][o] - starRingEnd ℂ Ba[k][o] * Bb[l][o]‖
      ≤ εa * Mb + Ma * εb := fun k l =>
    conj_mul_sub_le _ _ _ _ _ _ _ _ (hεa k) (hεb l) (hMa k) (hMb l)
  cases istl
  · rw [ffPair_false_getElem, ffPair_false_getElem, ← sub_div, ← Finset.sum_sub_distrib, norm_div,
      Complex.norm_natCast]
    simp only [cmWeight, Bool.false_eq_true, if_false]
    rw [← mul_div_assoc]
    refine div_le_div_of_nonneg_right ?_ (Nat.cast_nonneg d)
    rw [Finset.mul_sum]
    refine (norm_sum_le _ _).trans (Finset.sum_le_sum fun k _ => ?_)
    rw [← Finset.sum_sub_distrib, Finset.mul_sum]
    refine (norm_sum_le _ _).trans (Finset.sum_le_sum fun l _ => ?_)
    rw [← sub_mul, norm_mul]
    exact mul_le_mul_of_nonneg_right (hp k l) (norm_nonneg _)
  · rw [ffPair_true_getElem, ffPair_true_getElem]
    simp only [cmWeight, if_true]
    have e : ∀ x y x' y' : ℂ, (x' - y') - (x - y) = (x' - x) - (y' - y) := by intros; ring
    rw [e, ← Finset.sum_sub_distrib, ← Finset.sum_sub_distrib, mul_add]
    refine (norm_sub_le _ _).trans (add_le_add ?_ ?_)
    · refine (norm_sum_le _ _).trans ((Finset.sum_le_sum fun k _ => hp k k).trans_eq ?_)
      rw [Finset.sum_const, Finset.card_univ, Fintype.card_fin, nsmul_eq_mul, mul_comm]
    · refine (norm_sum_le _ _).trans
        ((Finset.sum_le_sum fun r _ => hp idIdx[r] idIdx[r]).trans_eq ?_)
      rw [Finset.sum_const, Finset.card_univ, Fintype.card_fin, nsmul_eq_mul, mul_comm]

/-- Lipschitz bound for the infidelity of one pair of noise operators in the two rows of the
control matrix -/
theorem infidPair_sub_le (istl : Bool) (d : Nat) (ω : Vec ℝ nO) (Ba Bb Ba' Bb' : Mat ℂ N nO)
    (T : Ten4 ℂ N N N N) (idIdx : Vec (Fin N) q) (Sab : Vec ℂ nO) (εa εb Ma Mb : ℝ)
    (hεa : ∀ (k : Fin N) (o : Fin nO), ‖Ba'[k][o] - Ba[k][o]‖ ≤ εa)
    (hεb : ∀ (k : Fin N) (o : Fin nO), ‖Bb'[k][o] - Bb[k][o]‖ ≤ εb)
    (hMa : ∀ (k : Fin N) (o : Fin nO), ‖Ba[k][o]‖ ≤ Ma)
    (hMb : ∀ (k : Fin N) (o : Fin nO), ‖Bb'[k][o]‖ ≤ Mb) :
    |infidPair istl d ω Ba' Bb' T idIdx Sab - infidPair istl d ω Ba Bb T idIdx Sab|
      ≤ (εa * Mb + Ma * εb) * cmWeight istl d T q * absIntegral ω Sab
          / (2 * Real.pi * (d : ℝ)) :=
  infidEntry_sub_le ω _ _ Sab d _ fun o =>
    ffPair_sub_le istl d Ba Bb Ba' Bb' T idIdx εa εb Ma Mb o (fun k => hεa k o) (fun k => hεb k o)
      (fun k => hMa k o) (fun k => hMb k o)

/-! ### Real rescaling of the control matrix -/

theorem ffPair_smul (istl : Bool) (d : Nat) (Ba Bb Ba' Bb' : Mat ℂ N nO) (T : Ten4 ℂ N N N N)
    (idIdx : Vec (Fin N) q) (c : ℝ)
    (hA : ∀ (k : Fin N) (o : Fin nO), Ba'[k][o] = (c : ℂ) * Ba[k][o])
    (hB : ∀ (k : Fin N) (o : Fin nO), Bb'[k][o] = (c : ℂ) * Bb[k][o]) (o : Fin nO) :
    (ffPair istl d Ba' Bb' T idIdx)[o] = ((c ^ 2 : ℝ) : ℂ) * (ffPair istl d Ba Bb T idIdx)[o] := by
  have hp : ∀ k l : Fin N, starRingEnd ℂ Ba'[k][o] * Bb'[l][o]
      = ((c ^ 2 : ℝ) : ℂ) * (starRingEnd ℂ Ba[k][o] * Bb[l][o]) := by
    intro k l
    rw [hA, hB, map_mul, Complex.conj_ofReal]
    push_cast
    ring
  cases istl
  · rw [ffPair_false_getElem, ffPair_false_getElem, ← mul_div_assoc, Finset.mul_sum]
    congr 1
    refine Finset.sum_congr rfl fun k _ => ?_
    rw [Finset.mul_sum]
    refine Finset.sum_congr rfl fun l _ => ?_
    rw [hp, mul_assoc]
  · rw [ffPair_true_getElem, ffPair_true_getElem, mul_sub, Finset.mul_sum, Finset.mul_sum]
    congr 1
    · exact Finset.sum_congr rfl fun k _ => hp k k
    · exact Finset.sum_congr rfl fun r _ => hp _ _

/-- rows of the control matrix `× c`, spectrum `× s`, frequencies `÷ lam`:
the infidelity is multiplied by `c² s / lam` -/
theorem infidPair_scale (istl : Bool) (d : Nat) (ω : Vec ℝ nO) (Ba Bb Ba' Bb' : Mat ℂ N nO)
    (T : Ten4 ℂ N N N N) (idIdx : Vec (Fin N) q) (Sab Sab' : Vec ℂ nO) (lam c s : ℝ)
    (hA : ∀ (k : Fin N) (o : Fin nO), Ba'[k][o] = (c : ℂ) * Ba[k][o])
    (hB : ∀ (k : Fin N) (o : Fin nO), Bb'[k][o] = (c : ℂ) * Bb[k][o])
    (hS : ∀ o : Fin nO, Sab'[o] = (s : ℂ) * Sab[o]) :
    infidPair istl d (Vector.map (· / lam) ω) Ba' Bb' T idIdx Sab'
      = c ^ 2 * s / lam * infidPair istl d ω Ba Bb T idIdx Sab := by
  unfold infidPair
  exact infidEntry_scale ω _ _ Sab Sab' d lam (c ^ 2) s
    (fun o => ffPair_smul istl d Ba Bb Ba' Bb' T idIdx c hA hB o) hS

/-! ### Change of the operator basis -/

/-- the weights `D δ_kl - τ_k τ_l` (real `τ`) split the double sum into a diagonal part and a
product of two single sums -/
theorem weighted_sum_split (x y τ : Fin N → ℂ) (hr : ∀ l, starRingEnd ℂ (τ l) = τ l) (D : ℂ) :
    ∑ k : Fin N, ∑ l : Fin N,
        starRingEnd ℂ (x k) * y l * (D * (if k = l then 1 else 0) - τ k * τ l)
      = D * ∑ k : Fin N, starRingEnd ℂ (x k) * y k
        - (∑ k : Fin N, starRingEnd ℂ (x k) * τ k) * ∑ l : Fin N, starRingEnd ℂ (τ l) * y l := by
  simp only [mul_sub, Finset.sum_sub_distrib]
  congr 1
  · rw [Finset.mul_sum]
    refine Finset.sum_congr rfl fun k _ => ?_
    simp only [mul_ite, mul_one, mul_zero, Finset.sum_ite_eq, Finset.mem_univ, if_true]
    ring
  · rw [Finset.sum_mul_sum]
    refine Finset.sum_congr rfl fun k _ => Finset.sum_congr rfl fun l _ => ?_
    rw [hr]
    ring

/-- traceless branch: if both rows of the control matrix transform with an isometry `O`
(`O†O = 1`) and the subtracted identity-element terms agree, the filter function of the pair is
the same for both bases -/
theorem ffPair_true_basis (d d' : Nat) (Ba Bb : Mat ℂ N nO) (Ba' Bb' : Mat ℂ N' nO)
    (T : Ten4 ℂ N N N N) (T' : Ten4 ℂ N' N' N' N') (idIdx : Vec (Fin N) q)
    (idIdx' : Vec (Fin N') q') (O : Matrix (Fin N') (Fin N) ℂ) (hiso : Oᴴ * O = 1)
    (hA : ∀ (k : Fin N') (o : Fin nO), Ba'[k][o] = ∑ l : Fin N, O k l * Ba[l][o])
    (hB : ∀ (k : Fin N') (o : Fin nO), Bb'[k][o] = ∑ l : Fin N, O k l * Bb[l][o])
    (hid : ∀ o : Fin nO,
      ∑ r : Fin q', starRingEnd ℂ Ba'[idIdx'[r]][o] * Bb'[idIdx'[r]][o]
        = ∑ r : Fin q, starRingEnd ℂ Ba[idIdx[r]][o] * Bb[idIdx[r]][o]) :
    ffPair true d' Ba' Bb' T' idIdx' = ffPair true d Ba Bb T idIdx := by
  apply Vector.ext
  intro o ho
  have h1 := ffPair_true_getElem d' Ba' Bb' T' idIdx' ⟨o, ho⟩
  have h2 := ffPair_true_getElem d Ba Bb T idIdx ⟨o, ho⟩
  rw [hid ⟨o, ho⟩] at h1
  simp only [hA, hB] at h1
  rw [InvAux.unitary_mix_sum O hiso (fun l => Ba[l][(⟨o, ho⟩ : Fin nO)])
    (fun l => Bb[l][(⟨o, ho⟩ : Fin nO)])] at h1
  simp only [Fin.getElem_fin] at h1 h2 ⊢
  rw [h1, h2]

/-- trace-tensor branch: if both rows of the control matrix and the (real) traces `τ` of the basis
elements transform with an isometry `O`, and `traces_diag` is `d δ_kl - τ_k τ_l` for both bases (as
it is for complete orthonormal Hermitian bases), the filter function of the pair is the same -/
theorem ffPair_false_basis (d : Nat) (Ba Bb : Mat ℂ N nO) (Ba' Bb' : Mat ℂ N' nO)
    (T : Ten4 ℂ N N N N) (T' : Ten4 ℂ N' N' N' N') (idIdx : Vec (Fin N) q)
    (idIdx' : Vec (Fin N') q') (O : Matrix (Fin N') (Fin N) ℂ) (hiso : Oᴴ * O = 1)
    (hA : ∀ (k : Fin N') (o : Fin nO), Ba'[k][o] = ∑ l : Fin N, O k l * Ba[l][o])
    (hB : ∀ (k : Fin N') (o : Fin nO), Bb'[k][o] = ∑ l : Fin N, O k l * Bb[l][o])
    (τ : Fin N → ℂ) (τ' : Fin N' → ℂ) (hτ : ∀ k, τ' k = ∑ l : Fin N, O k l * τ l)
    (hr : ∀ l, starRingEnd ℂ (τ l) = τ l) (hr' : ∀ k, starRingEnd ℂ (τ' k) = τ' k)
    (ht : ∀ k l : Fin N, (tracesDiag T)[k][l] = (d : ℂ) * (if k = l then 1 else 0) - τ k * τ l)
    (ht' : ∀ k l : Fin N', (tracesDiag T')[k][l]
      = (d : ℂ) * (if k = l then 1 else 0) - τ' k * τ' l) :
    ffPair false d Ba' Bb' T' idIdx' = ffPair false d Ba Bb T idIdx := by
  apply Vector.ext
  intro o ho
  have h1 := ffPair_false_getElem d Ba' Bb' T' idIdx' ⟨o, ho⟩
  have h2 := ffPair_false_getElem d Ba Bb T idIdx ⟨o, ho⟩
  simp only [ht'] at h1
  simp only [ht] at h2
  rw [weighted_sum_split (fun k => Ba'[k][(⟨o, ho⟩ : Fin nO)]) (fun k => Bb'[k][(⟨o, ho⟩ : Fin nO)])
    τ' hr' (d : ℂ)] at h1
  rw [weighted_sum_split (fun k => Ba[k][(⟨o, ho⟩ : Fin nO)]) (fun k => Bb[k][(⟨o, ho⟩ : Fin nO)])
    τ hr (d : ℂ)] at h2
  simp only [hA, hB, hτ] at h1
  rw [InvAux.unitary_mix_sum O hiso (fun l => Ba[l][(⟨o, ho⟩ : Fin nO)])
      (fun l => Bb[l][(⟨o, ho⟩ : Fin nO)]),
    InvAux.unitary_mix_sum O hiso (fun l => Ba[l][(⟨o, ho⟩ : Fin nO)]) τ,
    InvAux.unitary_mix_sum O hiso τ (fun l => Bb[l][(⟨o, ho⟩ : Fin nO)])] at h1
  simp only [Fin.getElem_fin] at h1 h2 ⊢
  rw [h1, h2]

end FFVerif.Model

/-! ### Two complete orthonormal Hermitian bases are related by an isometry -/

namespace FFVerif.Spec
open Matrix

variable {N N' d : Nat}

/-- the transition coefficients `O k l = tr(C'_k C_l)` between two complete orthonormal Hermitian
bases expand the new elements in the old ones and form an isometry -/
theorem basis_transition (C : Fin N → Matrix (Fin d) (Fin d) ℂ) (C' : Fin N' → Matrix (Fin d) (Fin d) ℂ)
    (hC : IsComplete C) (hH : IsOrthoHerm C) (hC' : IsComplete C') (hH' : IsOrthoHerm C') :
    (∀ k : Fin N', C' k = ∑ l : Fin N, (Matrix.of fun k l => trace (C' k * C l)) k l • C l) ∧
    (Matrix.of fun k l => trace (C' k * C l) : Matrix (Fin N') (Fin N) ℂ)ᴴ
      * (Matrix.of fun k l => trace (C' k * C l)) = 1 := by
  refine ⟨fun k => by simpa using hC (C' k), ?_⟩
  ext l l'
  rw [Matrix.mul_apply]
  simp only [Matrix.conjTranspose_apply, Matrix.of_apply, RCLike.star_def]
  have e : ∀ k : Fin N', starRingEnd ℂ (trace (C' k * C l)) * trace (C' k * C l')
      = trace (C l * (trace (C l' * C' k) • C' k)) := by
    intro k
    rw [trace_mul_herm_conj _ _ (hH'.herm k) (hH.herm l), Matrix.mul_smul, trace_smul, smul_eq_mul,
      trace_mul_comm (C' k) (C l), trace_mul_comm (C' k) (C l'), mul_comm]
  simp only [e]
  rw [← trace_sum, ← Matrix.mul_sum, ← hC' (C l'), hH.ortho, Matrix.one_apply]

/-- the coefficient of an identity element of an orthonormal Hermitian family: `c² d = 1` -/
theorem identity_element_coeff {C : Fin N → Matrix (Fin d) (Fin d) ℂ} (hH : IsOrthoHerm C)
    (k0 : Fin N) (c : ℂ) (h0 : C k0 = c • (1 : Matrix (Fin d) (Fin d) ℂ)) :
    c * c * (d : ℂ) = 1 ∧ starRingEnd ℂ c = c := by
  have h := hH.ortho k0 k0
  rw [h0, Matrix.smul_mul, Matrix.one_mul, trace_smul, trace_smul, trace_one, Fintype.card_fin,
    if_pos rfl, smul_eq_mul, smul_eq_mul] at h
  have hd : (d : ℂ) ≠ 0 := by
    intro hd
    rw [hd] at h
    simp at h
  refine ⟨by rw [← h]; ring, ?_⟩
  have hh := hH.herm k0
  rw [h0, Matrix.conjTranspose_smul, Matrix.conjTranspose_one] at hh
  have h00 := congrArg Matrix.trace hh
  rw [trace_smul, trace_smul, trace_one, Fintype.card_fin, smul_eq_mul, smul_eq_mul] at h00
  exact mul_right_cancel₀ hd h00

/-- two identity elements of orthonormal Hermitian families (of the same dimension) have
coefficients of the same modulus -/
theorem identity_element_norm {C : Fin N → Matrix (Fin d) (Fin d) ℂ}
    {C' : Fin N' → Matrix (Fin d) (Fin d) ℂ} (hH : IsOrthoHerm C) (hH' : IsOrthoHerm C')
    (k0 : Fin N) (k0' : Fin N') (c c' : ℂ) (h0 : C k0 = c • (1 : Matrix (Fin d) (Fin d) ℂ))
    (h0' : C' k0' = c' • (1 : Matrix (Fin d) (Fin d) ℂ)) : c ≠ 0 ∧ ‖c'‖ = ‖c‖ := by
  obtain ⟨h1, _⟩ := identity_element_coeff hH k0 c h0
  obtain ⟨h1', _⟩ := identity_element_coeff hH' k0' c' h0'
  have hc : c ≠ 0 := by
    rintro rfl
    simp at h1
  have hd : (d : ℂ) ≠ 0 := by
    intro hd
    rw [hd] at h1
    simp at h1
  refine ⟨hc, ?_⟩
  have hsq : c' * c' = c * c := mul_right_cancel₀ hd (h1'.trans h1.symm)
  have hn := congrArg (‖·‖) hsq
  simp only [norm_mul] at hn
  exact (mul_self_inj (norm_nonneg _) (norm_nonneg _)).mp hn

/-- re-ordering a complete family keeps it complete -/
theorem IsComplete.comp_equiv {C : Fin N → Matrix (Fin d) (Fin d) ℂ} (hC : IsComplete C)
    (e : Fin N' ≃ Fin N) : IsComplete (fun i => C (e i)) := by
  intro M
  conv_lhs => rw [hC M]
  exact (Equiv.sum_comp e (fun j => trace (M * C j) • C j)).symm

/-- re-ordering an orthonormal Hermitian family keeps it orthonormal Hermitian -/
theorem IsOrthoHerm.comp_equiv {C : Fin N → Matrix (Fin d) (Fin d) ℂ} (hH : IsOrthoHerm C)
    (e : Fin N' ≃ Fin N) : IsOrthoHerm (fun i => C (e i)) where
  herm i := hH.herm (e i)
  ortho i j := by
    rw [hH.ortho (e i) (e j)]
    simp only [e.injective.eq_iff]

end FFVerif.Spec

/-! ### Facts about `controlMatrixFromScratch` and about conjugated bases -/

namespace FFVerif.Model
open FFVerif Matrix FFVerif.C01

/-- a basis element proportional to one of another basis gives a proportional row of the control
matrix (every guard, both branches) -/
theorem cm_row_smul {nG d nO nA nK nK' : Nat} (kind : MaskKind) (thr : ℝ)
    (eigvals : Mat ℝ nG d) (eigvecs props : Vector (Mat ℂ d d) nG)
    (omega : Vec ℝ nO) (basis : Vector (Mat ℂ d d) nK) (basis' : Vector (Mat ℂ d d) nK')
    (nOpers : Vector (Mat ℂ d d) nA) (nCoeffs : Mat ℝ nA nG) (dt t : Vec ℝ nG)
    (k : Fin nK) (k' : Fin nK') (z : ℂ) (h : basis'[k'].toMatrix = z • basis[k].toMatrix)
    (a : Fin nA) (o : Fin nO) :
    (controlMatrixFromScratch kind thr eigvals eigvecs props omega basis' nOpers nCoeffs dt t)[a][k'][o]
      = z * (controlMatrixFromScratch kind thr eigvals eigvecs props omega basis nOpers nCoeffs dt t)[a][k][o] := by
  rw [cm_entry, cm_entry, Finset.mul_sum]
  refine Finset.sum_congr rfl fun g _ => ?_
  rw [Finset.mul_sum]
  refine Finset.sum_congr rfl fun m _ => ?_
  rw [Finset.mul_sum]
  refine Finset.sum_congr rfl fun n _ => ?_
  rw [h]
  simp only [Matrix.mul_smul, Matrix.smul_mul, Matrix.smul_apply, smul_eq_mul]
  ring

/-- multiplying all sensitivities by a real factor multiplies the control matrix by it -/
theorem cm_coeffs_smul {nG d nO nA nK : Nat} (kind : MaskKind) (thr : ℝ)
    (eigvals : Mat ℝ nG d) (eigvecs props : Vector (Mat ℂ d d) nG)
    (omega : Vec ℝ nO) (basis : Vector (Mat ℂ d d) nK) (nOpers : Vector (Mat ℂ d d) nA)
    (nCoeffs nCoeffs' : Mat ℝ nA nG) (dt t : Vec ℝ nG) (c : ℝ) (a : Fin nA)
    (h : ∀ g : Fin nG, nCoeffs'[a][g] = c * nCoeffs[a][g]) (k : Fin nK) (o : Fin nO) :
    (controlMatrixFromScratch kind thr eigvals eigvecs props omega basis nOpers nCoeffs' dt t)[a][k][o]
      = (c : ℂ) * (controlMatrixFromScratch kind thr eigvals eigvecs props omega basis nOpers nCoeffs dt t)[a][k][o] := by
  rw [cm_entry, cm_entry, Finset.mul_sum]
  refine Finset.sum_congr rfl fun g _ => ?_
  rw [Finset.mul_sum]
  refine Finset.sum_congr rfl fun m _ => ?_
  rw [Finset.mul_sum]
  refine Finset.sum_congr rfl fun n _ => ?_
  rw [h]
  push_cast
  ring

/-- the identity component of a traceless noise operator vanishes: the row of the control matrix
belonging to a basis element `c·1` is zero when `tr B_a = 0` (unitary eigenvector matrices and
cumulative propagators; every guard, both branches) -/
theorem cm_identity_row_traceless {nG d nO nA nK : Nat} (kind : MaskKind) (thr : ℝ)
    (eigvals : Mat ℝ nG d) (eigvecs props : Vector (Mat ℂ d d) nG)
    (omega : Vec ℝ nO) (basis : Vector (Mat ℂ d d) nK) (nOpers : Vector (Mat ℂ d d) nA)
    (nCoeffs : Mat ℝ nA nG) (dt t : Vec ℝ nG) (k0 : Fin nK) (c : ℂ)
    (h0 : basis[k0].toMatrix = c • (1 : Matrix (Fin d) (Fin d) ℂ))
    (hV : ∀ g : Fin nG, (eigvecs[g].toMatrix)ᴴ * eigvecs[g].toMatrix = 1)
    (hQ : ∀ g : Fin nG, (props[g].toMatrix)ᴴ * props[g].toMatrix = 1)
    (a : Fin nA) (htr : trace nOpers[a].toMatrix = 0) (o : Fin nO) :
    (controlMatrixFromScratch kind thr eigvals eigvecs props omega basis nOpers nCoeffs dt t)[a][k0][o]
      = 0 := by
  rw [cm_entry]
  refine Finset.sum_eq_zero fun g _ => ?_
  have hQ' : props[g].toMatrix * (props[g].toMatrix)ᴴ = 1 := _root_.mul_eq_one_comm.mp (hQ g)
  have hV' : eigvecs[g].toMatrix * (eigvecs[g].toMatrix)ᴴ = 1 := _root_.mul_eq_one_comm.mp (hV g)
  have hW : ((props[g].toMatrix)ᴴ * eigvecs[g].toMatrix)ᴴ * basis[k0].toMatrix *
      ((props[g].toMatrix)ᴴ * eigvecs[g].toMatrix) = c • (1 : Matrix (Fin d) (Fin d) ℂ) := by
    rw [h0, Matrix.mul_smul, Matrix.mul_one, Matrix.smul_mul, Matrix.conjTranspose_mul,
      Matrix.conjTranspose_conjTranspose, Matrix.mul_assoc,
      ← Matrix.mul_assoc (props[g].toMatrix), hQ', Matrix.one_mul, hV g]
  rw [hW]
  have hin : ∀ m : Fin d, ∑ n : Fin d,
      Complex.exp (Complex.I * ((omega[o] : ℂ) * (t[g] : ℂ))) *
        ((nCoeffs[a][g] : ℂ) * ((eigvecs[g].toMatrix)ᴴ * nOpers[a].toMatrix * eigvecs[g].toMatrix) m n) *
        (firstOrderEntry kind thr (omega[o] + (eigvals[g][m] - eigvals[g][n])) dt[g] : ℂ) *
        (c • (1 : Matrix (Fin d) (Fin d) ℂ)) n m
      = Complex.exp (Complex.I * ((omega[o] : ℂ) * (t[g] : ℂ))) * (nCoeffs[a][g] : ℂ) *
        (firstOrderEntry kind thr omega[o] dt[g] : ℂ) * c *
        ((eigvecs[g].toMatrix)ᴴ * nOpers[a].toMatrix * eigvecs[g].toMatrix) m m := by
    intro m
    rw [Finset.sum_eq_single m]
    · simp only [Matrix.smul_apply, Matrix.one_apply_eq, smul_eq_mul, mul_one, sub_self, add_zero]
      ring
    · intro n _ hn
      simp [Matrix.one_apply_ne hn]
    · simp
  simp only [hin]
  rw [← Finset.mul_sum]
  have htr' : ∑ m : Fin d, ((eigvecs[g].toMatrix)ᴴ * nOpers[a].toMatrix * eigvecs[g].toMatrix) m m
      = 0 := by
    have : trace ((eigvecs[g].toMatrix)ᴴ * nOpers[a].toMatrix * eigvecs[g].toMatrix) = 0 := by
      rw [Matrix.trace_mul_comm, ← Matrix.mul_assoc, hV', Matrix.one_mul, htr]
    simpa [Matrix.trace] using this
  rw [htr', mul_zero]

/-- the trace tensor does not change when every basis element is conjugated by an isometry -/
theorem fourElementTraces_conj {N d : Nat} (W : Mat ℂ d d) (hW : (W.toMatrix)ᴴ * W.toMatrix = 1)
    (C : Vector (Mat ℂ d d) N) :
    fourElementTraces (Vector.map (fun C => Mat.mul (Mat.mul W C) (Mat.adjoint W)) C)
      = fourElementTraces C := by
  apply Vector.ext; intro i hi
  apply Vector.ext; intro j hj
  apply Vector.ext; intro k hk
  apply Vector.ext; intro l hl
  have h1 := fourElementTraces_eq (Vector.map (fun C => Mat.mul (Mat.mul W C) (Mat.adjoint W)) C)
    ⟨i, hi⟩ ⟨j, hj⟩ ⟨k, hk⟩ ⟨l, hl⟩
  have h2 := fourElementTraces_eq C ⟨i, hi⟩ ⟨j, hj⟩ ⟨k, hk⟩ ⟨l, hl⟩
  simp only [Fin.getElem_fin] at h1 h2
  rw [h1, h2]
  simp only [Spec.T4, Spec.basisOf, Fin.getElem_fin, Vector.getElem_map, Mat.toMatrix_mul,
    Mat.toMatrix_adjoint]
  have hW' : ∀ X : Matrix (Fin d) (Fin d) ℂ, (W.toMatrix)ᴴ * (W.toMatrix * X) = X := by
    intro X; rw [← Matrix.mul_assoc, hW, Matrix.one_mul]
  simp only [Matrix.mul_assoc, hW']
  rw [Matrix.trace_mul_comm]
  simp only [Matrix.mul_assoc, hW, Matrix.mul_one]

/-- an identity element stays an identity element under conjugation by a unitary -/
theorem conj_identity_element {d : Nat} (W : Mat ℂ d d) (hW : (W.toMatrix)ᴴ * W.toMatrix = 1)
    (C : Mat ℂ d d) (c : ℂ) (h : C.toMatrix = c • (1 : Matrix (Fin d) (Fin d) ℂ)) :
    (Mat.mul (Mat.mul W C) (Mat.adjoint W)).toMatrix = c • (1 : Matrix (Fin d) (Fin d) ℂ) := by
  rw [Mat.toMatrix_mul, Mat.toMatrix_mul, Mat.toMatrix_adjoint, h, Matrix.mul_smul, Matrix.mul_one,
    Matrix.smul_mul, _root_.mul_eq_one_comm.mp hW]

end FFVerif.Model
