/-
Helper lemmas for `Props/C16KronLoop`: the loop of `tensor_insert` over several arguments.
The dimension lists handed to `single_tensor_insert` are recorded at `p`, not at `p + i`, so they
list the factor dimensions in an order that differs from the true factor order in front of the
split position.  `singleInsertNum_congr`: the result of `single_tensor_insert` depends on the
dimension lists only through their products in front of / behind the split; hence the bookkeeping
is harmless also numerically and every pass computes the chain with the new factor inserted.
-/
import FFVerif.Lemmas.TensorNumInsAux

set_option linter.unusedSectionVars false
set_option linter.unusedSimpArgs false

namespace FFVerif.TensorNumAux
open FFVerif.Model.Tensor FFVerif.Model.TensorNum FFVerif.TensorAux

variable {α : Type} [CommSemiring α]

/-! ### digits of one insertion -/

theorem scatterInv_gather {o : List Nat} {n : Nat} (hp : o.Perm (List.range n)) (z : List Nat)
    (hz : z.length = n) : scatterInv o (gather o z) = z := by
  have hl := perm_length hp
  apply List.ext_getElem
  · simp [hl, hz]
  · intro m h1 h2
    have hm : m < n := by omega
    have hmem := perm_mem hp hm
    have hidx : o.idxOf m < o.length := List.idxOf_lt_length_of_mem hmem
    have e := scatterInv_getD hp (gather o z) m hm
    rw [List.getD_eq_getElem?_getD, List.getElem?_eq_getElem h1] at e
    simp only [Option.getD_some] at e
    rw [e]
    simp [gather, List.getD_eq_getElem?_getD, hidx, List.getElem_idxOf, h2]

theorem gather_insertSigma (N s w : Nat) (Z : List Nat) (hZ : Z.length = N) :
    gather (insertSigma N s) (w :: Z) = insertAt Z s w := by
  have e1 : (List.range' 1 N).map (fun k => (w :: Z).getD k 0) = Z := by
    apply List.ext_getElem
    · simp [hZ]
    · intro k h1 h2
      simp [List.getD_eq_getElem?_getD, h2]
      rw [Nat.add_comm]; simp [h2]
  unfold gather insertSigma insertAt
  rw [List.map_append, List.map_cons, List.map_take, List.map_drop, e1]
  rfl

theorem scatterInv_insertSigma (N s w : Nat) (xa xb : List Nat) (hxa : xa.length = s)
    (hlen : xa.length + xb.length = N) :
    scatterInv (insertSigma N s) (xa ++ w :: xb) = w :: (xa ++ xb) := by
  have hg := gather_insertSigma N s w (xa ++ xb) (by simp [hlen])
  have e : insertAt (xa ++ xb) s w = xa ++ w :: xb := by
    unfold insertAt
    rw [List.take_left' hxa, List.drop_left' hxa]
  rw [← e, ← hg]
  exact scatterInv_gather (insertSigma_perm N s) _ (by simp; omega)

/-- the digit of the inserted factor in a slot index `i` -/
def srcW (a Pb i : Nat) : Nat := (i % (a * Pb)) / Pb
/-- the slot index of `arr` read for the slot index `i` of the result -/
def srcE (a Pb i : Nat) : Nat := (i / (a * Pb)) * Pb + (i % (a * Pb)) % Pb

theorem insert_digits (R : List Nat) (N s a i : Nat) (hR : R.length = N) (hs : s ≤ N)
    (hi : i < a * prod R) :
    let u := scatterInv (insertSigma N s) (mixedRadixDecode (gather (insertSigma N s) (a :: R)) i)
    u.take 1 = [srcW a (prod (R.drop s)) i] ∧
      mixedRadixEncode R (u.drop 1) = srcE a (prod (R.drop s)) i ∧ (u.drop 1).length = N := by
  intro u
  have hsplit : prod R = prod (R.take s) * prod (R.drop s) := by
    rw [← prod_append, List.take_append_drop]
  set Pa := prod (R.take s)
  set Pb := prod (R.drop s)
  have hg : gather (insertSigma N s) (a :: R) = R.take s ++ a :: R.drop s :=
    gather_insertSigma N s a R hR
  have hlt : i < prod (R.take s ++ a :: R.drop s) := by
    rw [prod_append]; simp only [prod]
    calc i < a * prod R := hi
      _ = Pa * (a * Pb) := by rw [hsplit]; ring
  have hpos : 0 < a * Pb := by
    rcases Nat.eq_zero_or_pos (a * Pb) with h | h
    · rw [hsplit, show a * (Pa * Pb) = Pa * (a * Pb) by ring, h] at hi; omega
    · exact h
  have hPb : 0 < Pb := Nat.pos_of_mul_pos_left hpos
  have hdec : mixedRadixDecode (R.take s ++ a :: R.drop s) i
      = mixedRadixDecode (R.take s) (i / (a * Pb))
        ++ (i % (a * Pb)) / Pb :: mixedRadixDecode (R.drop s) ((i % (a * Pb)) % Pb) := by
    rw [decode_append hlt]
    simp only [prod, mixedRadixDecode]
    rfl
  have hu : u = (i % (a * Pb)) / Pb ::
      (mixedRadixDecode (R.take s) (i / (a * Pb))
        ++ mixedRadixDecode (R.drop s) ((i % (a * Pb)) % Pb)) := by
    show scatterInv _ (mixedRadixDecode (gather _ _) i) = _
    rw [hg, hdec]
    apply scatterInv_insertSigma
    · rw [decode_length, List.length_take]; omega
    · rw [decode_length, decode_length, List.length_take, List.length_drop]; omega
  have h1 : i / (a * Pb) < Pa := by
    rw [Nat.div_lt_iff_lt_mul hpos]
    calc i < a * prod R := hi
      _ = Pa * (a * Pb) := by rw [hsplit]; ring
  have h2 : (i % (a * Pb)) % Pb < Pb := Nat.mod_lt _ hPb
  refine ⟨by rw [hu]; rfl, ?_, ?_⟩
  · rw [hu]
    simp only [List.drop_succ_cons, List.drop_zero]
    have hR' : ∀ z, mixedRadixEncode R z = mixedRadixEncode (R.take s ++ R.drop s) z := by
      intro z; rw [List.take_append_drop]
    rw [hR', encode_append (by rw [decode_length]), encode_decode h1, encode_decode h2]
    rfl
  · rw [hu]
    simp only [List.drop_succ_cons, List.drop_zero, List.length_append, decode_length,
      List.length_take, List.length_drop]
    omega

/-! ### `single_tensor_insert` with arbitrary recorded dimensions -/

theorem reshapeStar_dims (T : NArr α) (D : List (NArr α)) (hne : D ≠ [])
    (hTs : T.shape = [prod (rowsOf D), prod (colsOf D)]) :
    reshapeStar T (rowsOf D ++ colsOf D) = .ok ⟨rowsOf D ++ colsOf D, T.data⟩ := by
  have hne' : rowsOf D ++ colsOf D ≠ [] := by
    intro h
    have := congrArg List.length h
    simp at this
    exact hne this
  simp only [reshapeStar, if_neg hne', reshape, hTs]
  have h : prod (rowsOf D ++ colsOf D) = prod [prod (rowsOf D), prod (colsOf D)] := by
    simp [prod_append, prod]
  exact if_pos h

theorem prod_insert_shapes (a b : Nat) (dat : Array α) (D : List (NArr α)) (s : Nat) :
    prod (gather (insertSigma D.length s) (rowsOf ([(⟨[a, b], dat⟩ : NArr α)] ++ D)))
        = a * prod (rowsOf D) ∧
    prod (gather (insertSigma D.length s) (colsOf ([(⟨[a, b], dat⟩ : NArr α)] ++ D)))
        = b * prod (colsOf D) := by
  have hσ' : (insertSigma D.length s).Perm
      (List.range ([(⟨[a, b], dat⟩ : NArr α)] ++ D).length) := by
    rw [List.length_append]; exact insertSigma_perm D.length s
  rw [prod_gather hσ' (rowsOf_length _), prod_gather hσ' (colsOf_length _)]
  constructor <;> rfl

/-- explicit result of `single_tensor_insert` for arbitrary recorded dimension lists -/
theorem singleInsertNum_eq (T : NArr α) (a b : Nat) (dat : Array α) (D : List (NArr α)) (s : Nat)
    (hTs : T.shape = [prod (rowsOf D), prod (colsOf D)]) (hne : D ≠ []) (hs : s ≤ D.length)
    (hlet : (D.length + 1) * 2 ≤ 52) :
    singleInsertNum T (⟨[a, b], dat⟩ : NArr α) (rowsOf D) (colsOf D) s
      = .ok ⟨[a * prod (rowsOf D), b * prod (colsOf D)],
          (NArr.ofFn (gather (insertSigma D.length s) (rowsOf ([(⟨[a, b], dat⟩ : NArr α)] ++ D))
            ++ gather (insertSigma D.length s) (colsOf ([(⟨[a, b], dat⟩ : NArr α)] ++ D)))
            (slotFn ⟨[a, b], dat⟩ T [⟨[a, b], dat⟩] D (insertSigma D.length s))).data⟩ := by
  have hσ : (insertSigma D.length s).Perm
      (List.range ([(⟨[a, b], dat⟩ : NArr α)].length + D.length)) := insertSigma_perm D.length s
  have hE : einsumOuter (List.range' 0 (1 * 2)) (List.range' (1 * 2) (D.length * 2))
      (slotOut 1 D.length (insertSigma D.length s)) (⟨[a, b], dat⟩ : NArr α)
      ⟨rowsOf D ++ colsOf D, T.data⟩ = _ :=
    slotEinsum_eq ⟨[a, b], dat⟩ T [⟨[a, b], dat⟩] D (insertSigma D.length s) hσ
  have hps : productShape [a, b] T.shape = .ok [a * prod (rowsOf D), b * prod (colsOf D)] := by
    rw [hTs]; rfl
  obtain ⟨p1, p2⟩ := prod_insert_shapes a b dat D s
  have hprod : prod [a * prod (rowsOf D), b * prod (colsOf D)]
      = prod (gather (insertSigma D.length s) (rowsOf ([(⟨[a, b], dat⟩ : NArr α)] ++ D))
          ++ gather (insertSigma D.length s) (colsOf ([(⟨[a, b], dat⟩ : NArr α)] ++ D))) := by
    rw [prod_append, p1, p2]; simp [prod]
  have hsub := insertSubscripts_eq D.length s hs hlet
  simp only [singleInsertNum, rowsOf_length, hsub, hps, bind, Except.bind,
    reshapeStar_dims T D hne hTs, hE, reshape, ofFn_shape]
  exact if_pos hprod

/-- the buffer entries of one insertion depend on the recorded dimensions only through the products
behind the split -/
theorem slotFn_insert_value (T : NArr α) (a b : Nat) (dat : Array α) (D : List (NArr α))
    (s k : Nat) (hs : s ≤ D.length)
    (hk : k < (a * prod (rowsOf D)) * (b * prod (colsOf D))) :
    slotFn ⟨[a, b], dat⟩ T [⟨[a, b], dat⟩] D (insertSigma D.length s) k
      = (⟨[a, b], dat⟩ : NArr α).at (mixedRadixEncode [a, b]
          ([srcW a (prod ((rowsOf D).drop s)) (k / (b * prod (colsOf D)))]
            ++ [srcW b (prod ((colsOf D).drop s)) (k % (b * prod (colsOf D)))])) *
        T.at (srcE a (prod ((rowsOf D).drop s)) (k / (b * prod (colsOf D))) * prod (colsOf D)
          + srcE b (prod ((colsOf D).drop s)) (k % (b * prod (colsOf D)))) := by
  have hσ : (insertSigma D.length s).Perm (List.range (1 + D.length)) :=
    insertSigma_perm D.length s
  obtain ⟨p1, p2⟩ := prod_insert_shapes a b dat D s
  have hro : rowsOf ([(⟨[a, b], dat⟩ : NArr α)] ++ D) = a :: rowsOf D := rfl
  have hco : colsOf ([(⟨[a, b], dat⟩ : NArr α)] ++ D) = b :: colsOf D := rfl
  rw [hro] at p1
  rw [hco] at p2
  unfold slotFn
  simp only [List.length_singleton, hro, hco]
  have p1' := p1
  have p2' := p2
  have hlt : k < prod (gather (insertSigma D.length s) (a :: rowsOf D)
      ++ gather (insertSigma D.length s) (b :: colsOf D)) := by
    rw [prod_append, p1', p2']; exact hk
  have hpos : 0 < b * prod (colsOf D) := by
    rcases Nat.eq_zero_or_pos (b * prod (colsOf D)) with h | h
    · rw [h] at hk; omega
    · exact h
  have hi : k / (b * prod (colsOf D)) < a * prod (rowsOf D) := by
    rw [Nat.div_lt_iff_lt_mul hpos]; exact hk
  have hj : k % (b * prod (colsOf D)) < b * prod (colsOf D) := Nat.mod_lt _ hpos
  rw [decode_append hlt, p2']
  set i := k / (b * prod (colsOf D))
  set j := k % (b * prod (colsOf D))
  have hl := perm_length hσ
  obtain ⟨e1, e2⟩ := slot_source_digits hσ
    (mixedRadixDecode (gather (insertSigma D.length s) (a :: rowsOf D)) i)
    (mixedRadixDecode (gather (insertSigma D.length s) (b :: colsOf D)) j)
    (by simp [decode_length, hl]) (by simp [decode_length, hl])
  rw [e1, e2]
  obtain ⟨r1, r2, r3⟩ := insert_digits (rowsOf D) D.length s a i (rowsOf_length D) hs hi
  obtain ⟨c1, c2, c3⟩ := insert_digits (colsOf D) D.length s b j (colsOf_length D) hs hj
  rw [r1, c1, encode_append (d1 := rowsOf D) (by rw [r3]; simp), r2, c2]
  rfl

/-- **the `carr_dims` bookkeeping is harmless numerically**: `single_tensor_insert` gives the same
array for two recorded dimension lists of the same length with the same total products and the same
products behind the split -/
theorem singleInsertNum_congr (T : NArr α) (a b : Nat) (dat : Array α) (C D : List (NArr α))
    (s : Nat) (hTs : T.shape = [prod (rowsOf C), prod (colsOf C)]) (hne : C ≠ [])
    (hlen : D.length = C.length) (hs : s ≤ C.length) (hlet : (C.length + 1) * 2 ≤ 52)
    (hrt : prod (rowsOf D) = prod (rowsOf C)) (hct : prod (colsOf D) = prod (colsOf C))
    (hr : prod ((rowsOf D).drop s) = prod ((rowsOf C).drop s))
    (hc : prod ((colsOf D).drop s) = prod ((colsOf C).drop s)) :
    singleInsertNum T (⟨[a, b], dat⟩ : NArr α) (rowsOf D) (colsOf D) s
      = singleInsertNum T (⟨[a, b], dat⟩ : NArr α) (rowsOf C) (colsOf C) s := by
  have hDne : D ≠ [] := by
    intro h; rw [h] at hlen; exact hne (List.length_eq_zero_iff.1 hlen.symm)
  rw [singleInsertNum_eq T a b dat D s (by rw [hrt, hct]; exact hTs) hDne (by omega) (by omega),
    singleInsertNum_eq T a b dat C s hTs hne hs hlet]
  congr 1
  obtain ⟨d1, d2⟩ := prod_insert_shapes a b dat D s
  obtain ⟨c1, c2⟩ := prod_insert_shapes a b dat C s
  apply narr_ext
  · simp only [hrt, hct]
  · simp only [ofFn_size, prod_append, d1, d2, c1, c2, hrt, hct]
  · intro k hk
    simp only [ofFn_size, prod_append, d1, d2] at hk
    show NArr.at (NArr.ofFn _ _) k = NArr.at (NArr.ofFn _ _) k
    rw [at_ofFn _ _ _ (by rw [prod_append, d1, d2]; exact hk),
      at_ofFn _ _ _ (by rw [prod_append, c1, c2, ← hrt, ← hct]; exact hk),
      slotFn_insert_value T a b dat D s k (by omega) hk,
      slotFn_insert_value T a b dat C s k hs (by rw [← hrt, ← hct]; exact hk),
      hr, hc, hct]

/-- one pass of the loop on a Kronecker chain with possibly reordered recorded dimensions -/
theorem singleInsertNum_isChain (T X : NArr α) (C D : List (NArr α)) (s : Nat)
    (hT : IsChain T C) (hX : IsMat X) (hne : C ≠ [])
    (hlen : D.length = C.length) (hs : s ≤ C.length) (hlet : (C.length + 1) * 2 ≤ 52)
    (hrt : prod (rowsOf D) = prod (rowsOf C)) (hct : prod (colsOf D) = prod (colsOf C))
    (hr : prod ((rowsOf D).drop s) = prod ((rowsOf C).drop s))
    (hc : prod ((colsOf D).drop s) = prod ((colsOf C).drop s)) :
    ∃ T', singleInsertNum T X (rowsOf D) (colsOf D) s = .ok T' ∧ IsChain T' (insertAt C s X) := by
  obtain ⟨sh, dat⟩ := X
  have hlen2 : sh.length = 2 := hX.1
  match sh, hlen2, hX with
  | [a, b], _, hX =>
  rw [singleInsertNum_congr T a b dat C D s hT.shape hne hlen hs hlet hrt hct hr hc,
    singleInsertNum_eq T a b dat C s hT.shape hne hs hlet]
  refine ⟨_, rfl, ?_⟩
  have hXc : IsChain (⟨[a, b], dat⟩ : NArr α) [⟨[a, b], dat⟩] := isChain_single _ hX
  have hσ : (insertSigma C.length s).Perm
      (List.range ([(⟨[a, b], dat⟩ : NArr α)].length + C.length)) := insertSigma_perm C.length s
  have hchain := slotEinsum_isChain ⟨[a, b], dat⟩ T [⟨[a, b], dat⟩] C _ hXc hT hσ
  have hsh : [prod (rowsOf [(⟨[a, b], dat⟩ : NArr α)]) * prod (rowsOf C),
      prod (colsOf [(⟨[a, b], dat⟩ : NArr α)]) * prod (colsOf C)]
      = [a * prod (rowsOf C), b * prod (colsOf C)] := by
    simp [rowsOf, colsOf, nrows, ncols, prod]
  rw [hsh] at hchain
  rw [← insertSigma_factors]
  exact hchain

/-! ### the loop -/

theorem rowsOf_insertAt (D : List (NArr α)) (p : Nat) (X : NArr α) :
    insertAt (rowsOf D) p (nrows X) = rowsOf (insertAt D p X) := by
  simp [insertAt, rowsOf, List.map_take, List.map_drop]

theorem colsOf_insertAt (D : List (NArr α)) (p : Nat) (X : NArr α) :
    insertAt (colsOf D) p (ncols X) = colsOf (insertAt D p X) := by
  simp [insertAt, colsOf, List.map_take, List.map_drop]

theorem insertAt_length {β : Type} (l : List β) (p : Nat) (x : β) (hp : p ≤ l.length) :
    (insertAt l p x).length = l.length + 1 := by
  simp [insertAt]; omega

/-- the loop of `tensor_insert` on a Kronecker chain: invariant as in `insertTrace_invariant`
(recorded and true factor lists agree behind the split and are permutations of each other in front
of it), conclusion: the final array is the chain in the order computed by `insertLoop` -/
theorem insertLoopNum_isChain (sp : List (Nat × (Int × NArr α))) (i k : Nat) (T : NArr α)
    (chain dims : List (NArr α)) (hs : SortedPos sp)
    (hadm : ∀ x ∈ sp, k ≤ x.1 ∧ x.1 + i ≤ chain.length)
    (hdv : ∀ x ∈ sp, x.2.1 = -1 ∨ x.2.1 = 0) (hmat : ∀ x ∈ sp, IsMat x.2.2)
    (hsuf : chain.drop (k + i) = dims.drop (k + i))
    (hpre : (chain.take (k + i)).Perm (dims.take (k + i)))
    (hT : IsChain T chain) (hne : chain ≠ []) (hlet : (chain.length + sp.length) * 2 ≤ 52) :
    ∃ T', insertLoopNum i T (rowsOf dims) (colsOf dims) sp = .ok T' ∧
      IsChain T' (insertLoop i chain (sp.map fun x => (x.1, x.2.2))) := by
  induction sp generalizing i k T chain dims with
  | nil => exact ⟨T, rfl, hT⟩
  | cons x rest ih =>
    obtain ⟨p, dv, X⟩ := x
    have hp := hadm (p, dv, X) (by simp)
    have hdv0 := hdv (p, dv, X) (by simp)
    have hX := hmat (p, dv, X) (by simp)
    simp only at hp hdv0 hX
    unfold SortedPos at hs
    rw [List.pairwise_cons] at hs
    obtain ⟨d, rfl⟩ : ∃ d, p = k + d := ⟨p - k, by omega⟩
    have hlen : chain.length = dims.length := by
      have h1 := congrArg List.length hsuf
      have h2 := hpre.length_eq
      simp only [List.length_drop, List.length_take] at h1 h2
      omega
    have hD : ∀ l : List (NArr α), l.drop (k + d + i) = (l.drop (k + i)).drop d := fun l => by
      rw [List.drop_drop]; congr 1; omega
    have hTk : ∀ l : List (NArr α),
        l.take (k + d + i) = l.take (k + i) ++ (l.drop (k + i)).take d :=
      fun l => by rw [← List.take_add]; congr 1; omega
    have hsuf' : chain.drop (k + d + i) = dims.drop (k + d + i) := by rw [hD, hD, hsuf]
    have hpre' : (chain.take (k + d + i)).Perm (dims.take (k + d + i)) := by
      rw [hTk, hTk, hsuf]; exact hpre.append_right _
    have hperm : chain.Perm dims := by
      rw [← List.take_append_drop (k + d + i) chain, ← List.take_append_drop (k + d + i) dims,
        hsuf']
      exact hpre'.append_right _
    have hrt : prod (rowsOf dims) = prod (rowsOf chain) := prod_perm (hperm.symm.map _)
    have hct : prod (colsOf dims) = prod (colsOf chain) := prod_perm (hperm.symm.map _)
    have hr : prod ((rowsOf dims).drop (k + d + i)) = prod ((rowsOf chain).drop (k + d + i)) := by
      unfold rowsOf; rw [← List.map_drop, ← List.map_drop, hsuf']
    have hc : prod ((colsOf dims).drop (k + d + i)) = prod ((colsOf chain).drop (k + d + i)) := by
      unfold colsOf; rw [← List.map_drop, ← List.map_drop, hsuf']
    have hlen1 : (rest.length + 1) = ((k + d, dv, X) :: rest).length := rfl
    obtain ⟨T1, hT1, hc1⟩ := singleInsertNum_isChain T X chain dims (k + d + i) hT hX hne
      hlen.symm hp.2 (by simp only [List.length_cons] at hlet; omega) hrt hct hr hc
    have hshape := hX.shape_eq
    have e : k + d + (i + 1) = (k + d + i) + 1 := by omega
    have hins : (insertAt chain (k + d + i) X).length = chain.length + 1 :=
      insertAt_length _ _ _ hp.2
    obtain ⟨T2, hT2, hc2⟩ := ih (i + 1) (k + d) T1 (insertAt chain (k + d + i) X)
      (insertAt dims (k + d) X) hs.2
      (by
        intro y hy
        have h1 := hs.1 y hy
        have h2 := hadm y (by simp [hy])
        simp only at h1
        omega)
      (fun y hy => hdv y (by simp [hy])) (fun y hy => hmat y (by simp [hy]))
      (by rw [e, drop_insertAt_of_le chain _ _ X (Nat.le_refl _) hp.2,
          drop_insertAt_of_le dims _ _ X (by omega) (by omega), hsuf'])
      (by rw [e]
          exact (take_insertAt_of_le chain _ _ X (Nat.le_refl _) hp.2).trans
            ((List.Perm.cons X hpre').trans
              (take_insertAt_of_le dims _ _ X (by omega) (by omega)).symm))
      hc1 (by unfold insertAt; simp)
      (by rw [hins]; simp only [List.length_cons] at hlet; omega)
    refine ⟨T2, ?_, ?_⟩
    · have hdv' : ¬ (dv ≠ -1 ∧ dv ≠ 0) := by
        rcases hdv0 with h | h <;> simp [h]
      rw [← rowsOf_insertAt, ← colsOf_insertAt] at hT2
      simp only [insertLoopNum, hdv', if_false, hT1, bind, Except.bind, hshape]
      exact hT2
    · simpa [insertLoop] using hc2

/-! ### `tensor_insert` -/

theorem divmodAll_admissible {N : Nat} {pos : List Int}
    (h : ∀ p ∈ pos, -(N : Int) ≤ p ∧ p ≤ N) :
    ∃ dm, divmodAll N pos = .ok dm ∧ dm.map (·.2) = pos.map (normNat N) ∧
      ∀ x ∈ dm, x.1 = -1 ∨ x.1 = 0 := by
  induction pos with
  | nil => exact ⟨[], rfl, rfl, by simp⟩
  | cons p ps ih =>
    obtain ⟨dv, hdm, hdv⟩ := divmodPos_admissible (h p (by simp))
    obtain ⟨dm, h1, h2, h3⟩ := ih (fun q hq => h q (by simp [hq]))
    refine ⟨(dv, normNat N p) :: dm, ?_, ?_, ?_⟩
    · simp [divmodAll, hdm, h1, bind, Except.bind, pure, Except.pure]
    · simp [h2]
    · intro x hx
      rcases List.mem_cons.1 hx with rfl | hx
      · exact hdv
      · exact h3 x hx

/-- `tensor_insert` of several factors into a Kronecker chain -/
theorem tensorInsertNum_isChain (T : NArr α) (L A : List (NArr α)) (pos : List Int)
    (hL : IsChain T L) (hLne : L ≠ []) (hAne : A ≠ []) (hmA : ∀ X ∈ A, IsMat X)
    (hl : pos.length = A.length)
    (hadm : ∀ p ∈ pos, -(L.length : Int) ≤ p ∧ p ≤ L.length)
    (hlet : (L.length + A.length) * 2 ≤ 52) :
    ∃ T', tensorInsertNum T A pos [rowsOf L, colsOf L] = .ok T' ∧
      IsChain T' (insertSpec 0 L ((pos.map (normNat L.length)).zip A)) := by
  obtain ⟨dm, hdm, hdm2, hdm3⟩ := divmodAll_admissible hadm
  have hdml : dm.length = A.length := by
    have := congrArg List.length hdm2; simpa [hl] using this
  set triples := (dm.zip A).map fun x => (x.1.2, (x.1.1, x.2)) with htr
  have hmem : ∀ x ∈ sortByPos triples,
      x.1 ≤ L.length ∧ (x.2.1 = -1 ∨ x.2.1 = 0) ∧ IsMat x.2.2 := by
    intro x hx
    have hx' := (sortByPos_perm triples).mem_iff.1 hx
    rw [htr, List.mem_map] at hx'
    obtain ⟨y, hy, rfl⟩ := hx'
    have hy1 := (List.of_mem_zip (a := y.1) (b := y.2) hy)
    refine ⟨?_, hdm3 _ hy1.1, hmA _ hy1.2⟩
    have : y.1.2 ∈ dm.map (·.2) := List.mem_map.2 ⟨y.1, hy1.1, rfl⟩
    rw [hdm2, List.mem_map] at this
    obtain ⟨p, hp, e⟩ := this
    simp only
    rw [← e]; exact normNat_le (hadm p hp)
  have hsplen : (sortByPos triples).length = A.length := by
    rw [(sortByPos_perm triples).length_eq, htr]; simp [hdml]
  obtain ⟨T', hT', hc'⟩ := insertLoopNum_isChain (sortByPos triples) 0 0 T L L
    (sortByPos_sorted _) (fun x hx => ⟨Nat.zero_le _, by simpa using (hmem x hx).1⟩)
    (fun x hx => (hmem x hx).2.1) (fun x hx => (hmem x hx).2.2) rfl (List.Perm.refl _) hL hLne
    (by rw [hsplen]; exact hlet)
  refine ⟨T', ?_, ?_⟩
  · have hA0 : ¬ A.length = 0 := by simpa using hAne
    simp only [tensorInsertNum, hA0, if_false, hl, ne_eq, not_true_eq_false, parseDims,
      rowsOf_length, colsOf_length, if_true, bind, Except.bind, hdm]
    exact hT'
  · have hsorted : SortedPos ((sortByPos triples).map fun x => (x.1, x.2.2)) := by
      unfold SortedPos
      rw [List.pairwise_map]
      exact sortByPos_sorted triples
    have h1 := insertLoop_eq_spec _ 0 0 [] L hsorted (by
      intro x hx
      rw [List.mem_map] at hx
      obtain ⟨y, hy, rfl⟩ := hx
      have := (hmem y hy).1
      simp only; omega) rfl
    simp only [List.nil_append] at h1
    rw [h1] at hc'
    have h2 : insertSpec 0 L ((sortByPos triples).map fun x => (x.1, x.2.2))
        = insertSpec 0 L ((pos.map (normNat L.length)).zip A) := by
      apply insertSpec_congr
      intro k
      rw [← map_argsAt (fun x : Int × NArr α => x.2) k, argsAt_sortByPos, map_argsAt, htr,
        List.map_map, ← hdm2, List.zip_map_left]
      rfl
    rw [h2] at hc'
    exact hc'

/-! ### integer `pos`: block insertion -/

theorem decode_three (r1 r2 rm : List Nat) (i : Nat) (h : i < prod (r1 ++ (rm ++ r2))) :
    mixedRadixDecode (r1 ++ (rm ++ r2)) i
      = mixedRadixDecode r1 (i / (prod rm * prod r2))
        ++ (mixedRadixDecode rm ((i % (prod rm * prod r2)) / prod r2)
          ++ mixedRadixDecode r2 ((i % (prod rm * prod r2)) % prod r2)) := by
  have hpos : 0 < prod (rm ++ r2) := by
    rcases Nat.eq_zero_or_pos (prod (rm ++ r2)) with h0 | h0
    · rw [prod_append, h0] at h; omega
    · exact h0
  rw [decode_append h, decode_append (Nat.mod_lt _ hpos), prod_append]

/-- a factor that is itself a Kronecker chain may be replaced by its factors -/
theorem isChain_flatten (T B : NArr α) (L1 L2 A : List (NArr α))
    (hT : IsChain T (L1 ++ ([B] ++ L2))) (hB : IsChain B A) : IsChain T (L1 ++ (A ++ L2)) := by
  have hnB : nrows B = prod (rowsOf A) := by unfold nrows; rw [hB.shape]; rfl
  have hcB : ncols B = prod (colsOf A) := by unfold ncols; rw [hB.shape]; rfl
  have hr : prod (rowsOf (L1 ++ ([B] ++ L2))) = prod (rowsOf (L1 ++ (A ++ L2))) := by
    simp only [rowsOf_append, prod_append]; simp [rowsOf, prod, hnB]
  have hc : prod (colsOf (L1 ++ ([B] ++ L2))) = prod (colsOf (L1 ++ (A ++ L2))) := by
    simp only [colsOf_append, prod_append]; simp [colsOf, prod, hcB]
  refine ⟨by rw [← hr, ← hc]; exact hT.shape, by rw [← hr, ← hc]; exact hT.size, ?_⟩
  intro i j hi hj
  rw [← hc, hT.entry i j (by rw [hr]; exact hi) (by rw [hc]; exact hj)]
  have hi' : i < prod (rowsOf L1 ++ (rowsOf A ++ rowsOf L2)) := by simpa using hi
  have hj' : j < prod (colsOf L1 ++ (colsOf A ++ colsOf L2)) := by simpa using hj
  have hi'' : i < prod (rowsOf L1 ++ ([nrows B] ++ rowsOf L2)) := by
    rw [hnB]; simpa [prod_append, prod] using hi'
  have hj'' : j < prod (colsOf L1 ++ ([ncols B] ++ colsOf L2)) := by
    rw [hcB]; simpa [prod_append, prod] using hj'
  have eB : rowsOf [B] = [nrows B] := rfl
  have eB' : colsOf [B] = [ncols B] := rfl
  simp only [rowsOf_append, colsOf_append, eB, eB']
  rw [decode_three _ _ _ i hi', decode_three _ _ _ j hj', decode_three _ _ _ i hi'',
    decode_three _ _ _ j hj'']
  rw [kronEntry_append _ _ _ _ _ _ (by simp [decode_length]) (by simp [decode_length]),
    kronEntry_append _ _ _ _ _ _ (by simp [decode_length]) (by simp [decode_length]),
    kronEntry_append _ _ _ _ _ _ (by simp [decode_length]) (by simp [decode_length]),
    kronEntry_append _ _ _ _ _ _ (by simp [decode_length]) (by simp [decode_length])]
  have hp1 : prod [nrows B] = prod (rowsOf A) := by simp [prod, hnB]
  have hp2 : prod [ncols B] = prod (colsOf A) := by simp [prod, hcB]
  rw [hp1, hp2]
  congr 2
  -- the block factor
  have hP2 : 0 < prod (rowsOf L2) := by
    rcases Nat.eq_zero_or_pos (prod (rowsOf L2)) with h0 | h0
    · simp [prod_append, h0] at hi'
    · exact h0
  have hQ2 : 0 < prod (colsOf L2) := by
    rcases Nat.eq_zero_or_pos (prod (colsOf L2)) with h0 | h0
    · simp [prod_append, h0] at hj'
    · exact h0
  have hPA : 0 < prod (rowsOf A) * prod (rowsOf L2) := by
    rcases Nat.eq_zero_or_pos (prod (rowsOf A) * prod (rowsOf L2)) with h0 | h0
    · simp [prod_append, h0] at hi'
    · exact h0
  have hQA : 0 < prod (colsOf A) * prod (colsOf L2) := by
    rcases Nat.eq_zero_or_pos (prod (colsOf A) * prod (colsOf L2)) with h0 | h0
    · simp [prod_append, h0] at hj'
    · exact h0
  have hw : i % (prod (rowsOf A) * prod (rowsOf L2)) / prod (rowsOf L2) < prod (rowsOf A) := by
    rw [Nat.div_lt_iff_lt_mul hP2]; exact Nat.mod_lt _ hPA
  have hw' : j % (prod (colsOf A) * prod (colsOf L2)) / prod (colsOf L2) < prod (colsOf A) := by
    rw [Nat.div_lt_iff_lt_mul hQ2]; exact Nat.mod_lt _ hQA
  have := hB.entry _ _ hw hw'
  rw [← this]
  simp [kronEntry, mixedRadixDecode, prod, entry, hcB]

theorem isChain_isMat {B : NArr α} {A : List (NArr α)} (hB : IsChain B A) : IsMat B := by
  refine ⟨by rw [hB.shape]; rfl, ?_⟩
  rw [hB.size, hB.shape]; simp [prod]

/-- `tensor_insert` with an integer `pos`: the arguments are tensored first and inserted as a block -/
theorem tensorInsertNumInt_isChain (T : NArr α) (L A : List (NArr α)) (p : Int)
    (hL : IsChain T L) (hLne : L ≠ []) (hAne : A ≠ []) (hmA : ∀ X ∈ A, IsMat X)
    (hadm : -(L.length : Int) ≤ p ∧ p ≤ L.length) (hlet : (L.length + 1) * 2 ≤ 52) :
    ∃ T', tensorInsertNumInt T A p [rowsOf L, colsOf L] = .ok T' ∧
      IsChain T' (L.take (normNat L.length p) ++ (A ++ L.drop (normNat L.length p))) := by
  have hblock : ∃ B, (if A.length > 1 then tensorChainNum A else pure (A.headD default))
      = Except.ok B ∧ IsChain B A := by
    by_cases h : A.length > 1
    · obtain ⟨B, hB, hc⟩ := tensorChainNum_isChain A hAne hmA
      exact ⟨B, by rw [if_pos h]; exact hB, hc⟩
    · match A, hAne, h, hmA with
      | [X], _, _, hmA => exact ⟨X, by simp [pure, Except.pure], isChain_single X (hmA X (by simp))⟩
      | _ :: _ :: _, _, h, _ => simp at h
  obtain ⟨B, hB, hcB⟩ := hblock
  obtain ⟨T', hT', hc'⟩ := tensorInsertNum_single_isChain T B L p hL (isChain_isMat hcB) hLne
    hadm hlet
  refine ⟨T', ?_, ?_⟩
  · have hA0 : ¬ A.length = 0 := by simpa using hAne
    simp only [tensorInsertNumInt, hA0, if_false, bind, Except.bind]
    by_cases h : A.length > 1
    · rw [if_pos h] at hB ⊢
      simp only [hB]; exact hT'
    · rw [if_neg h] at hB ⊢
      simp only [hB]; exact hT'
  · exact isChain_flatten T' B _ _ A hc' hcB

end FFVerif.TensorNumAux
