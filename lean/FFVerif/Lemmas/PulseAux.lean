/-
Helper lemmas for the bookkeeping model `FFVerif/Model/Pulse.lean` (used by `Props/C17`,
`Props/C03a`).  Core Lean only.
-/
import FFVerif.Model.Pulse
import Std.Data.String.ToNat

namespace FFVerif.Model.Pulse

theorem inj_of_nodup_map {α β : Type} {f : α → β} {l : List α} (hn : (l.map f).Nodup) {a b : α}
    (ha : a ∈ l) (hb : b ∈ l) (h : f a = f b) : a = b := by
  induction l with
  | nil => cases ha
  | cons x xs ih =>
    rw [List.map_cons, List.nodup_cons] at hn
    rcases List.mem_cons.mp ha with rfl | ha' <;> rcases List.mem_cons.mp hb with rfl | hb'
    · rfl
    · exact absurd (List.mem_map.mpr ⟨b, hb', h.symm⟩ : f a ∈ xs.map f) hn.1
    · exact absurd (List.mem_map.mpr ⟨a, ha', h⟩ : f b ∈ xs.map f) hn.1
    · exact ih hn.2 ha' hb'

/-! ### stable insertion sort by a string key -/

section SortLemmas
variable {α β : Type} (key : α → String)

/-- sorted by key (non-strictly) -/
def SortedBy (l : List α) : Prop := l.Pairwise fun a b => key a ≤ key b

theorem insertBy_perm (a : α) (l : List α) : (insertBy key a l).Perm (a :: l) := by
  induction l with
  | nil => simp [insertBy]
  | cons b bs ih =>
    simp only [insertBy]
    split
    · exact (List.Perm.cons b ih).trans (List.Perm.swap a b bs)
    · exact List.Perm.refl _

theorem sortBy_perm (l : List α) : (sortBy key l).Perm l := by
  induction l with
  | nil => simp [sortBy]
  | cons a as ih => exact (insertBy_perm key a _).trans (List.Perm.cons a ih)

theorem mem_insertBy {a x : α} {l : List α} : x ∈ insertBy key a l ↔ x = a ∨ x ∈ l := by
  rw [(insertBy_perm key a l).mem_iff]; simp

theorem mem_sortBy {x : α} {l : List α} : x ∈ sortBy key l ↔ x ∈ l :=
  (sortBy_perm key l).mem_iff

theorem length_sortBy (l : List α) : (sortBy key l).length = l.length :=
  (sortBy_perm key l).length_eq

theorem insertBy_sorted (a : α) {l : List α} (h : SortedBy key l) :
    SortedBy key (insertBy key a l) := by
  induction l with
  | nil => simp [insertBy, SortedBy]
  | cons b bs ih =>
    simp only [insertBy]
    have hb := List.pairwise_cons.mp h
    split
    · rename_i hlt
      refine List.pairwise_cons.mpr ⟨?_, ih hb.2⟩
      intro x hx
      rcases (mem_insertBy key).mp hx with rfl | hx
      · exact String.not_lt.mp (String.lt_asymm hlt)
      · exact hb.1 x hx
    · rename_i hnlt
      have hab : key a ≤ key b := String.not_lt.mp hnlt
      refine List.pairwise_cons.mpr ⟨?_, h⟩
      intro x hx
      rcases List.mem_cons.mp hx with rfl | hx
      · exact hab
      · exact String.le_trans hab (hb.1 x hx)

theorem sortBy_sorted (l : List α) : SortedBy key (sortBy key l) := by
  induction l with
  | nil => simp [sortBy, SortedBy]
  | cons a as ih => exact insertBy_sorted key a ih

theorem insertBy_of_le (a : α) {l : List α} (h : ∀ b ∈ l, key a ≤ key b) :
    insertBy key a l = a :: l := by
  cases l with
  | nil => rfl
  | cons b bs =>
    simp only [insertBy]
    rw [if_neg]
    exact String.not_lt.mpr (h b (List.mem_cons_self ..))

/-- a list that is already sorted is left unchanged (also in the presence of ties) -/
theorem sortBy_of_sorted {l : List α} (h : SortedBy key l) : sortBy key l = l := by
  induction l with
  | nil => rfl
  | cons a as ih =>
    have ha := List.pairwise_cons.mp h
    simp only [sortBy, ih ha.2]
    exact insertBy_of_le key a ha.1

theorem insertBy_map (key' : β → String) (f : α → β) (hf : ∀ a, key' (f a) = key a) (a : α)
    (l : List α) : insertBy key' (f a) (l.map f) = (insertBy key a l).map f := by
  induction l with
  | nil => rfl
  | cons b bs ih =>
    simp only [List.map_cons, insertBy, hf]
    split <;> simp [ih]

/-- sorting commutes with a map that preserves the keys -/
theorem sortBy_map (key' : β → String) (f : α → β) (hf : ∀ a, key' (f a) = key a) (l : List α) :
    sortBy key' (l.map f) = (sortBy key l).map f := by
  induction l with
  | nil => rfl
  | cons a as ih => simp only [List.map_cons, sortBy, ih, insertBy_map key key' f hf]

/-- with pairwise distinct keys the sorted list depends only on the multiset of the input -/
theorem sortBy_eq_of_perm {l₁ l₂ : List α} (hp : l₁.Perm l₂) (hn : (l₁.map key).Nodup) :
    sortBy key l₁ = sortBy key l₂ := by
  have hperm : (sortBy key l₁).Perm (sortBy key l₂) :=
    (sortBy_perm key l₁).trans (hp.trans (sortBy_perm key l₂).symm)
  refine List.Perm.eq_of_pairwise (le := fun a b => key a ≤ key b) ?_ (sortBy_sorted key l₁)
    (sortBy_sorted key l₂) hperm
  intro a b ha hb hab hba
  have hk : key a = key b := String.le_antisymm hab hba
  have ha1 : a ∈ l₁ := (mem_sortBy key).mp ha
  have hb1 : b ∈ l₁ := hp.mem_iff.mpr ((mem_sortBy key).mp hb)
  exact inj_of_nodup_map hn ha1 hb1 hk

theorem sortBy_map_key (l : List α) : SortedBy id ((sortBy key l).map key) := by
  have := sortBy_sorted key l
  unfold SortedBy at *
  exact List.pairwise_map.mpr this

end SortLemmas

/-! ### `_join_equal_segments`: from index bookkeeping to a mask recursion -/

section Join
variable {α : Type}

/-- drop element `k` iff `mask[k]`; elements beyond the mask are kept -/
def keepMask : List Bool → List α → List α
  | [], l => l
  | _ :: _, [] => []
  | true :: m, _ :: xs => keepMask m xs
  | false :: m, x :: xs => x :: keepMask m xs

/-- add `c` to the head -/
def addHead (c : Int) : List Int → List Int
  | [] => []
  | x :: xs => (c + x) :: xs

/-- durations after merging: a dropped duration is carried to the end of its run -/
def accMask : List Bool → List Int → Int → List Int
  | [], l, c => addHead c l
  | _ :: _, [], _ => []
  | true :: m, d :: ds, c => accMask m ds (c + d)
  | false :: m, d :: ds, c => (c + d) :: accMask m ds 0

/-- the `(old, new)` pairs of the accumulation loop, generated from the mask:
`pos` = current index, `cnt` = number of dropped indices so far -/
def pairsMask : List Bool → Nat → Nat → List (Nat × Nat)
  | [], _, _ => []
  | true :: m, pos, cnt => (pos, pos - cnt) :: pairsMask m (pos + 1) (cnt + 1)
  | false :: m, pos, cnt => pairsMask m (pos + 1) cnt

@[simp] theorem addHead_zero (l : List Int) : addHead 0 l = l := by
  cases l <;> simp [addHead]

theorem deleteIdx_nil (l : List α) : deleteIdx [] l = l := by
  have : ∀ (l : List α) i, deleteIdx.go [] l i = l := by
    intro l; induction l with
    | nil => intro i; rfl
    | cons x xs ih => intro i; simp [deleteIdx.go, ih]
  exact this l 0

theorem deleteIdx_go_filter (p : Nat → Bool) (N : Nat) :
    ∀ (len pos : Nat) (ds : List α), pos + len = N → ds.length = len + 1 →
      deleteIdx.go ((List.range N).filter p) ds pos = keepMask ((List.range' pos len).map p) ds := by
  intro len
  induction len with
  | zero =>
    intro pos ds hN hl
    match ds, hl with
    | [d], _ =>
      have : ((List.range N).filter p).contains pos = false := by
        simp only [List.contains_eq_mem, List.mem_filter, List.mem_range, decide_eq_false_iff_not]
        intro h; omega
      simp only [deleteIdx.go, this]; rfl
  | succ len ih =>
    intro pos ds hN hl
    match ds, hl with
    | d :: ds', hl =>
      have hc : ((List.range N).filter p).contains pos = p pos := by
        have : pos < N := by omega
        cases hp : p pos <;> simp [List.mem_filter, List.mem_range, hp, this]
      have ih' := ih (pos + 1) ds' (by omega) (by simpa using hl)
      simp only [deleteIdx.go, hc, List.range'_succ, List.map_cons]
      cases hp : p pos <;> simp [keepMask, ih']

theorem deleteIdx_filter_range (p : Nat → Bool) (N : Nat) (l : List α) (h : l.length = N + 1) :
    deleteIdx ((List.range N).filter p) l = keepMask ((List.range N).map p) l := by
  have := deleteIdx_go_filter p N N 0 l (by omega) h
  rw [← List.range_eq_range'] at this
  exact this

theorem joinPairs_go (p : Nat → Bool) :
    ∀ (len pos cnt : Nat),
      (((List.range' pos len).filter p).zipIdx cnt).map (fun (x : Nat × Nat) => (x.1, x.1 - x.2))
        = pairsMask ((List.range' pos len).map p) pos cnt := by
  intro len
  induction len with
  | zero => intro pos cnt; rfl
  | succ len ih =>
    intro pos cnt
    simp only [List.range'_succ, List.map_cons, List.filter_cons]
    cases hp : p pos
    · simp [pairsMask, ih]
    · simp [pairsMask, ih]

theorem joinPairs_filter_range (p : Nat → Bool) (N : Nat) :
    joinPairs ((List.range N).filter p) = pairsMask ((List.range N).map p) 0 0 := by
  rw [List.range_eq_range']
  exact joinPairs_go p N 0 0

theorem modify_append_length (pre l : List Int) (f : Int → Int) :
    (pre ++ l).modify pre.length f = pre ++ l.modify 0 f := by
  induction pre with
  | nil => rfl
  | cons x xs ih => simp [List.modify_succ_cons, ih]

theorem modify_zero_addHead (c d : Int) (l : List Int) :
    (addHead c l).modify 0 (· + d) = addHead (c + d) l := by
  cases l with
  | nil => rfl
  | cons x xs => simp [addHead]; omega

theorem accumulate_go (dtAll : List Int) :
    ∀ (m : List Bool) (ds : List Int) (pos cnt : Nat) (pre : List Int) (carry : Int),
      ds.length = m.length + 1 → dtAll.drop pos = ds → cnt ≤ pos → pre.length = pos - cnt →
      accumulateDt dtAll (pairsMask m pos cnt) (pre ++ addHead carry (keepMask m ds))
        = pre ++ accMask m ds carry := by
  intro m
  induction m with
  | nil => intro ds pos cnt pre carry _ _ _ _; rfl
  | cons b m ih =>
    intro ds pos cnt pre carry hl hd hc hp
    match ds, hl with
    | d :: ds', hl =>
      have hget : dtAll.getD pos 0 = d := by
        have : (dtAll.drop pos)[0]? = some d := by rw [hd]; rfl
        rw [List.getElem?_drop, Nat.add_zero] at this
        simp [this]
      have hdrop : dtAll.drop (pos + 1) = ds' := by
        have : (dtAll.drop pos).drop 1 = ds' := by rw [hd]; rfl
        rw [List.drop_drop] at this
        exact this
      cases b with
      | true =>
        simp only [pairsMask, accumulateDt, List.foldl_cons, keepMask, accMask]
        have hidx : pos - cnt = pre.length := hp.symm
        rw [hidx, modify_append_length, hget, modify_zero_addHead]
        exact ih ds' (pos + 1) (cnt + 1) pre (carry + d) (by simpa using hl) hdrop (by omega)
          (by omega)
      | false =>
        simp only [pairsMask, keepMask, accMask, addHead]
        have := ih ds' (pos + 1) cnt (pre ++ [carry + d]) 0 (by simpa using hl) hdrop (by omega)
          (by simp; omega)
        simpa using this

theorem accumulate_filter_range (p : Nat → Bool) (N : Nat) (dt : List Int) (h : dt.length = N + 1) :
    accumulateDt dt (joinPairs ((List.range N).filter p)) (deleteIdx ((List.range N).filter p) dt)
      = accMask ((List.range N).map p) dt 0 := by
  rw [joinPairs_filter_range, deleteIdx_filter_range p N dt h]
  have := accumulate_go dt ((List.range N).map p) dt 0 0 [] 0 (by simp [h]) rfl (Nat.le_refl _) rfl
  simpa using this

end Join

/-! ### runs of equal values: merging and unrolling -/

section Runs
variable {β : Type} [DecidableEq β]

/-- `mask[k] = (V[k] = V[k+1])` -/
def adjMask : List β → List Bool
  | a :: b :: r => decide (a = b) :: adjMask (b :: r)
  | _ => []

/-- no two consecutive entries are equal -/
def NoAdjEq : List β → Prop
  | a :: b :: r => a ≠ b ∧ NoAdjEq (b :: r)
  | _ => True

/-- unit-step unrolling of a step function: value `vs[k]` repeated `ds[k]` times -/
def unroll (vs : List β) (ds : List Int) : List β :=
  (vs.zip ds).flatMap fun x => List.replicate x.2.toNat x.1

omit [DecidableEq β] in
@[simp] theorem unroll_cons (v : β) (vs : List β) (d : Int) (ds : List Int) :
    unroll (v :: vs) (d :: ds) = List.replicate d.toNat v ++ unroll vs ds := by
  simp [unroll]

omit [DecidableEq β] in
@[simp] theorem unroll_nil_left (ds : List Int) : unroll ([] : List β) ds = [] := by
  simp [unroll]

omit [DecidableEq β] in
@[simp] theorem unroll_nil_right (vs : List β) : unroll vs [] = [] := by
  simp [unroll]

theorem length_adjMask (V : List β) : (adjMask V).length = V.length - 1 := by
  induction V with
  | nil => rfl
  | cons a r ih =>
    cases r with
    | nil => rfl
    | cons b r => simp only [adjMask, List.length_cons, ih]; omega

omit [DecidableEq β] in
theorem keepMask_map {γ : Type} (f : β → γ) (m : List Bool) (l : List β) :
    keepMask m (l.map f) = (keepMask m l).map f := by
  induction m generalizing l with
  | nil => rfl
  | cons b m ih =>
    cases l with
    | nil => rfl
    | cons x xs => cases b <;> simp [keepMask, ih]

omit [DecidableEq β] in
theorem length_keepMask_congr {γ : Type} (m : List Bool) (l : List β) (l' : List γ)
    (h : l.length = l'.length) : (keepMask m l).length = (keepMask m l').length := by
  induction m generalizing l l' with
  | nil => exact h
  | cons b m ih =>
    cases l with
    | nil => cases l' with
      | nil => rfl
      | cons _ _ => simp at h
    | cons x xs => cases l' with
      | nil => simp at h
      | cons y ys =>
        have := ih xs ys (by simpa using h)
        cases b <;> simp [keepMask, this]

theorem length_accMask (m : List Bool) (ds : List Int) (c : Int) :
    (accMask m ds c).length = (keepMask m ds).length := by
  induction m generalizing ds c with
  | nil => cases ds <;> simp [accMask, keepMask, addHead]
  | cons b m ih =>
    cases ds with
    | nil => rfl
    | cons d ds => cases b <;> simp [accMask, keepMask, ih]

theorem sum_accMask (m : List Bool) (ds : List Int) (c : Int) (h : ds.length = m.length + 1) :
    (accMask m ds c).sum = c + ds.sum := by
  induction m generalizing ds c with
  | nil =>
    match ds, h with
    | [d], _ => simp [accMask, addHead]
  | cons b m ih =>
    match ds, h with
    | d :: ds, h =>
      have h' : ds.length = m.length + 1 := by simpa using h
      cases b
      · simp only [accMask, List.sum_cons, ih ds 0 h']; omega
      · simp only [accMask, List.sum_cons, ih ds (c + d) h']; omega

theorem accMask_pos (m : List Bool) (ds : List Int) (c : Int) (hc : 0 ≤ c)
    (hd : ∀ d ∈ ds, 0 < d) : ∀ d ∈ accMask m ds c, 0 < d := by
  induction m generalizing ds c with
  | nil =>
    cases ds with
    | nil => simp [accMask, addHead]
    | cons d ds =>
      intro x hx
      simp only [accMask, addHead, List.mem_cons] at hx
      rcases hx with rfl | hx
      · have := hd d (List.mem_cons_self ..); omega
      · exact hd x (List.mem_cons_of_mem _ hx)
  | cons b m ih =>
    cases ds with
    | nil => simp [accMask]
    | cons d ds =>
      have hd0 := hd d (List.mem_cons_self ..)
      have hds : ∀ x ∈ ds, 0 < x := fun x hx => hd x (List.mem_cons_of_mem _ hx)
      cases b
      · intro x hx
        simp only [accMask, List.mem_cons] at hx
        rcases hx with rfl | hx
        · omega
        · exact ih ds 0 (Int.le_refl _) hds x hx
      · simp only [accMask]
        exact ih ds (c + d) (by omega) hds

theorem accMask_nonneg (m : List Bool) (ds : List Int) (c : Int) (hc : 0 ≤ c)
    (hd : ∀ d ∈ ds, 0 ≤ d) : ∀ d ∈ accMask m ds c, 0 ≤ d := by
  induction m generalizing ds c with
  | nil =>
    cases ds with
    | nil => simp [accMask, addHead]
    | cons d ds =>
      intro x hx
      simp only [accMask, addHead, List.mem_cons] at hx
      rcases hx with rfl | hx
      · have := hd d (List.mem_cons_self ..); omega
      · exact hd x (List.mem_cons_of_mem _ hx)
  | cons b m ih =>
    cases ds with
    | nil => simp [accMask]
    | cons d ds =>
      have hd0 := hd d (List.mem_cons_self ..)
      have hds : ∀ x ∈ ds, 0 ≤ x := fun x hx => hd x (List.mem_cons_of_mem _ hx)
      cases b
      · intro x hx
        simp only [accMask, List.mem_cons] at hx
        rcases hx with rfl | hx
        · omega
        · exact ih ds 0 (Int.le_refl _) hds x hx
      · simp only [accMask]
        exact ih ds (c + d) (by omega) hds

theorem head?_keepMask_adj (v : β) (r : List β) :
    (keepMask (adjMask (v :: r)) (v :: r)).head? = some v := by
  induction r generalizing v with
  | nil => rfl
  | cons w r ih =>
    by_cases h : v = w
    · subst h; simp only [adjMask, decide_true, keepMask]; exact ih v
    · simp [adjMask, h, keepMask]

/-- the merged sequence has no two equal consecutive values -/
theorem noAdjEq_keepMask (V : List β) : NoAdjEq (keepMask (adjMask V) V) := by
  induction V with
  | nil => simp [adjMask, keepMask, NoAdjEq]
  | cons v r ih =>
    cases r with
    | nil => simp [adjMask, keepMask, NoAdjEq]
    | cons w r =>
      by_cases h : v = w
      · subst h; simpa only [adjMask, decide_true, keepMask] using ih
      · simp only [adjMask, h, decide_false, keepMask]
        have hh := head?_keepMask_adj w r
        match hk : keepMask (adjMask (w :: r)) (w :: r), hh with
        | x :: xs, hh =>
          simp only [List.head?_cons, Option.some.injEq] at hh
          subst hh
          rw [hk] at ih
          exact ⟨h, ih⟩

omit [DecidableEq β] in
theorem replicate_toNat_add (a b : Int) (ha : 0 ≤ a) (hb : 0 ≤ b) (v : β) :
    List.replicate (a + b).toNat v = List.replicate a.toNat v ++ List.replicate b.toNat v := by
  rw [List.replicate_append_replicate, Int.toNat_add ha hb]

/-- a pending carry `c` belongs to the first value -/
def carryRun (c : Int) : List β → List β
  | [] => []
  | v :: _ => List.replicate c.toNat v

/-- merging preserves the unrolled step function (durations `≥ 0`); `c` is a pending carry -/
theorem unroll_keepMask (V : List β) (ds : List Int) (c : Int) (hl : V.length = ds.length)
    (hc : 0 ≤ c) (hd : ∀ d ∈ ds, 0 ≤ d) :
    unroll (keepMask (adjMask V) V) (accMask (adjMask V) ds c)
      = carryRun c V ++ unroll V ds := by
  induction V generalizing ds c with
  | nil => simp [adjMask, keepMask, carryRun]
  | cons v r ih =>
    match ds, hl with
    | d :: ds, hl =>
      have hd0 := hd d (List.mem_cons_self ..)
      have hds : ∀ x ∈ ds, 0 ≤ x := fun x hx => hd x (List.mem_cons_of_mem _ hx)
      cases r with
      | nil =>
        have : ds = [] := by simpa using hl.symm
        subst this
        simp [adjMask, keepMask, accMask, addHead, carryRun, replicate_toNat_add c d hc hd0]
      | cons w r =>
        have hl' : (w :: r).length = ds.length := by simpa using hl
        by_cases h : v = w
        · subst h
          simp only [adjMask, decide_true, keepMask, accMask]
          rw [ih ds (c + d) hl' (by omega) hds]
          simp only [carryRun, unroll_cons, replicate_toNat_add c d hc hd0, List.append_assoc]
        · simp only [adjMask, h, decide_false, keepMask, accMask, unroll_cons]
          rw [ih ds 0 hl' (Int.le_refl _) hds]
          simp only [carryRun, replicate_toNat_add c d hc hd0, List.append_assoc, Int.toNat_zero,
            List.replicate_zero, List.nil_append]

omit [DecidableEq β] in
theorem replicate_append_inj (v : β) :
    ∀ (n k : Nat) (U₁ U₂ : List β), List.replicate n v ++ U₁ = List.replicate k v ++ U₂ →
      U₁.head? ≠ some v → U₂.head? ≠ some v → n = k ∧ U₁ = U₂ := by
  intro n
  induction n with
  | zero =>
    intro k U₁ U₂ h h₁ _
    cases k with
    | zero => exact ⟨rfl, by simpa using h⟩
    | succ k => exfalso; apply h₁; simp at h; simp [h, List.replicate_succ]
  | succ n ih =>
    intro k U₁ U₂ h h₁ h₂
    cases k with
    | zero => exfalso; apply h₂; simp at h; simp [← h, List.replicate_succ]
    | succ k =>
      simp only [List.replicate_succ, List.cons_append, List.cons.injEq, true_and] at h
      obtain ⟨rfl, hu⟩ := ih k U₁ U₂ h h₁ h₂
      exact ⟨rfl, hu⟩

omit [DecidableEq β] in
theorem head?_unroll_pos (v : β) (r : List β) (d : Int) (e : List Int) (hd : 0 < d) :
    (unroll (v :: r) (d :: e)).head? = some v := by
  obtain ⟨n, hn⟩ : ∃ n, d.toNat = n + 1 := ⟨d.toNat - 1, by omega⟩
  simp [hn, List.replicate_succ]

omit [DecidableEq β] in
/-- run-length encodings with positive run lengths and no equal neighbours are unique -/
theorem rle_unique (V₁ V₂ : List β) (D₁ D₂ : List Int) (h₁ : NoAdjEq V₁) (h₂ : NoAdjEq V₂)
    (l₁ : V₁.length = D₁.length) (l₂ : V₂.length = D₂.length) (p₁ : ∀ d ∈ D₁, 0 < d)
    (p₂ : ∀ d ∈ D₂, 0 < d) (hu : unroll V₁ D₁ = unroll V₂ D₂) : V₁ = V₂ ∧ D₁ = D₂ := by
  induction V₁ generalizing V₂ D₁ D₂ with
  | nil =>
    have : D₁ = [] := by simpa using l₁.symm
    subst this
    match V₂, D₂, l₂ with
    | [], [], _ => exact ⟨rfl, rfl⟩
    | v :: r, d :: e, _ =>
      have := head?_unroll_pos v r d e (p₂ d (List.mem_cons_self ..))
      rw [← hu] at this; simp at this
  | cons v₁ r₁ ih =>
    match D₁, l₁ with
    | d₁ :: e₁, l₁ =>
      have hd₁ := p₁ d₁ (List.mem_cons_self ..)
      match V₂, D₂, l₂ with
      | [], [], _ =>
        have := head?_unroll_pos v₁ r₁ d₁ e₁ hd₁
        rw [hu] at this; simp at this
      | v₂ :: r₂, d₂ :: e₂, l₂ =>
        have hd₂ := p₂ d₂ (List.mem_cons_self ..)
        have hv : v₁ = v₂ := by
          have a := head?_unroll_pos v₁ r₁ d₁ e₁ hd₁
          have b := head?_unroll_pos v₂ r₂ d₂ e₂ hd₂
          rw [hu, b] at a; exact (Option.some.inj a).symm
        subst hv
        have hne : ∀ (r : List β) (e : List Int), NoAdjEq (v₁ :: r) → r.length = e.length →
            (∀ d ∈ e, 0 < d) → (unroll r e).head? ≠ some v₁ := by
          intro r e hn hl hp
          match r, e, hl with
          | [], _, _ => simp
          | w :: r, d :: e, _ =>
            rw [head?_unroll_pos w r d e (hp d (List.mem_cons_self ..))]
            intro hw; exact hn.1 (Option.some.inj hw).symm
        have pe₁ : ∀ d ∈ e₁, 0 < d := fun x hx => p₁ x (List.mem_cons_of_mem _ hx)
        have pe₂ : ∀ d ∈ e₂, 0 < d := fun x hx => p₂ x (List.mem_cons_of_mem _ hx)
        have le₁ : r₁.length = e₁.length := by simpa using l₁
        have le₂ : r₂.length = e₂.length := by simpa using l₂
        rw [unroll_cons, unroll_cons] at hu
        obtain ⟨hn, hrest⟩ := replicate_append_inj v₁ _ _ _ _ hu (hne r₁ e₁ h₁ le₁ pe₁)
          (hne r₂ e₂ h₂ le₂ pe₂)
        have hr₁ : NoAdjEq r₁ := by
          cases r₁ with
          | nil => trivial
          | cons _ _ => exact h₁.2
        have hr₂ : NoAdjEq r₂ := by
          cases r₂ with
          | nil => trivial
          | cons _ _ => exact h₂.2
        obtain ⟨rfl, rfl⟩ := ih r₂ e₁ e₂ hr₁ hr₂ le₁ le₂ pe₁ pe₂ hrest
        have : d₁ = d₂ := by omega
        subst this
        exact ⟨rfl, rfl⟩

end Runs

/-! ### pulses: segment view, merged pulse -/

section PulseView

/-- class invariant: every coefficient row has one entry per segment -/
def WF (p : PulseData) : Prop :=
  (∀ t ∈ p.cTerms, t.coeffs.length = p.dt.length) ∧ (∀ t ∈ p.nTerms, t.coeffs.length = p.dt.length)

/-- column `k` of a coefficient table -/
def colAt (rows : List (List Int)) (k : Nat) : List Int := rows.map (·.getD k 0)

/-- the value of the Hamiltonians on segment `k`: all control and all noise coefficients
(in the stored order of the operators) -/
def segVal (p : PulseData) (k : Nat) : List Int × List Int :=
  (colAt (p.cTerms.map (·.coeffs)) k, colAt (p.nTerms.map (·.coeffs)) k)

/-- the sequence of segment values -/
def segVals (p : PulseData) : List (List Int × List Int) := (List.range p.dt.length).map (segVal p)

/-- unit-step unrolling of the piecewise constant coefficient functions of a pulse
(durations are integers; a segment of duration `n` contributes `n` samples) -/
def unrollPulse (p : PulseData) : List (List Int × List Int) := unroll (segVals p) p.dt

/-- replace the coefficient rows -/
def setRows (ts : List Term) (rows : List (List Int)) : List Term :=
  List.zipWith (fun t r => { t with coeffs := r }) ts rows

/-- the pulse described by the output of `_join_equal_segments` -/
def merged (p : PulseData) : PulseData :=
  { p with
    cTerms := setRows p.cTerms (joinEqualSegments p).1
    nTerms := setRows p.nTerms (joinEqualSegments p).2.1
    dt := (joinEqualSegments p).2.2 }

/-- the mask of segments that are dropped by `_join_equal_segments` -/
def joinMask (p : PulseData) : List Bool := adjMask (segVals p)

theorem diffZeroAll_iff (rows : List (List Int)) (k : Nat) :
    diffZeroAll rows k = true ↔ colAt rows k = colAt rows (k + 1) := by
  induction rows with
  | nil => simp [diffZeroAll, colAt]
  | cons r rs ih =>
    have ih' : (rs.all fun r => r.getD (k + 1) 0 - r.getD k 0 == 0) = true ↔
        colAt rs k = colAt rs (k + 1) := ih
    simp only [diffZeroAll, List.all_cons, Bool.and_eq_true, colAt, List.map_cons, List.cons.injEq,
      beq_iff_eq] at *
    rw [ih']
    constructor
    · rintro ⟨h1, h2⟩; exact ⟨by omega, h2⟩
    · rintro ⟨h1, h2⟩; exact ⟨by omega, h2⟩

theorem map_range'_adj {β : Type} [DecidableEq β] (g : Nat → β) :
    ∀ (len s : Nat), (List.range' s len).map (fun k => decide (g k = g (k + 1)))
      = adjMask ((List.range' s (len + 1)).map g) := by
  intro len
  induction len with
  | zero => intro s; rfl
  | succ len ih =>
    intro s
    rw [List.range'_succ, List.map_cons, ih (s + 1)]
    simp [List.range'_succ, adjMask]

theorem equalInd_eq (p : PulseData) :
    equalInd (p.cTerms.map (·.coeffs)) (p.nTerms.map (·.coeffs)) p.dt.length
      = (List.range (p.dt.length - 1)).filter fun k => decide (segVal p k = segVal p (k + 1)) := by
  unfold equalInd
  apply List.filter_congr
  intro k _
  rw [Bool.eq_iff_iff]
  simp only [Bool.and_eq_true, diffZeroAll_iff, decide_eq_true_eq, segVal, Prod.mk.injEq]

theorem joinMask_eq (p : PulseData) (h : p.dt ≠ []) :
    (List.range (p.dt.length - 1)).map (fun k => decide (segVal p k = segVal p (k + 1)))
      = joinMask p := by
  obtain ⟨n, hn⟩ : ∃ n, p.dt.length = n + 1 :=
    ⟨p.dt.length - 1, by have := List.length_pos_iff.mpr h; omega⟩
  unfold joinMask segVals
  rw [hn, List.range_eq_range', List.range_eq_range', Nat.add_sub_cancel]
  exact map_range'_adj (segVal p) n 0

/-- `_join_equal_segments` written with the mask recursion -/
theorem joinEqualSegments_eq_mask (p : PulseData) (hwf : WF p) :
    joinEqualSegments p =
      ((p.cTerms.map (·.coeffs)).map (keepMask (joinMask p)),
       (p.nTerms.map (·.coeffs)).map (keepMask (joinMask p)),
       accMask (joinMask p) p.dt 0) := by
  by_cases hdt : p.dt = []
  · have hE : equalInd (p.cTerms.map (·.coeffs)) (p.nTerms.map (·.coeffs)) p.dt.length = [] := by
      simp [equalInd, hdt]
    have hm : joinMask p = [] := by simp [joinMask, segVals, hdt, adjMask]
    simp only [joinEqualSegments, hE, hm]
    simp [keepMask, accMask, hdt, addHead]
  · obtain ⟨n, hn⟩ : ∃ n, p.dt.length = n + 1 :=
      ⟨p.dt.length - 1, by have := List.length_pos_iff.mpr hdt; omega⟩
    have hN : p.dt.length - 1 = n := by omega
    have hmask := joinMask_eq p hdt
    rw [hN] at hmask
    have hE := equalInd_eq p
    rw [hN] at hE
    have hrows : ∀ (ts : List Term), (∀ t ∈ ts, t.coeffs.length = p.dt.length) →
        (ts.map (·.coeffs)).map (deleteIdx ((List.range n).filter fun k =>
          decide (segVal p k = segVal p (k + 1))))
        = (ts.map (·.coeffs)).map (keepMask (joinMask p)) := by
      intro ts hts
      apply List.map_congr_left
      intro r hr
      obtain ⟨t, ht, rfl⟩ := List.mem_map.mp hr
      rw [deleteIdx_filter_range _ n _ (by rw [hts t ht, hn]), hmask]
    have hdt' := accumulate_filter_range (fun k => decide (segVal p k = segVal p (k + 1))) n p.dt hn
    rw [hmask] at hdt'
    unfold joinEqualSegments
    simp only [hE]
    split
    · rw [hrows _ hwf.1, hrows _ hwf.2, hdt']
    · rename_i hlen
      have hnil : ((List.range n).filter fun k => decide (segVal p k = segVal p (k + 1))) = [] := by
        apply List.eq_nil_of_length_eq_zero; omega
      rw [← hrows _ hwf.1, ← hrows _ hwf.2, ← hdt', hnil]
      simp [deleteIdx_nil, joinPairs, accumulateDt]

/-- apply `f` to the coefficient row of a term -/
def mapCoeffs (f : List Int → List Int) (t : Term) : Term := { t with coeffs := f t.coeffs }

@[simp] theorem mapCoeffs_id' (t : Term) : mapCoeffs (fun r => r) t = t := rfl
@[simp] theorem mapCoeffs_op (f : List Int → List Int) (t : Term) : (mapCoeffs f t).op = t.op := rfl
@[simp] theorem mapCoeffs_idf (f : List Int → List Int) (t : Term) : (mapCoeffs f t).id = t.id := rfl
@[simp] theorem mapCoeffs_coeffs (f : List Int → List Int) (t : Term) :
    (mapCoeffs f t).coeffs = f t.coeffs := rfl

theorem setRows_map (ts : List Term) (f : List Int → List Int) :
    setRows ts ((ts.map (·.coeffs)).map f) = ts.map (mapCoeffs f) := by
  induction ts with
  | nil => rfl
  | cons t ts ih =>
    simp only [setRows, List.map_cons, List.zipWith_cons_cons, List.cons.injEq] at *
    exact ⟨rfl, ih⟩

theorem merged_eq (p : PulseData) (hwf : WF p) :
    merged p = { p with
      cTerms := p.cTerms.map (mapCoeffs (keepMask (joinMask p)))
      nTerms := p.nTerms.map (mapCoeffs (keepMask (joinMask p)))
      dt := accMask (joinMask p) p.dt 0 } := by
  unfold merged
  rw [joinEqualSegments_eq_mask p hwf]
  simp only [setRows_map]

theorem map_getD_range {γ : Type} (f : Nat → γ) (K : List Nat) :
    (List.range K.length).map (fun i => f (K.getD i 0)) = K.map f := by
  apply List.ext_getElem
  · simp
  · intro i h1 h2
    simp at h1
    simp [h1]

theorem keepMask_eq_map_idx (m : List Bool) (r : List Int) :
    keepMask m r = (keepMask m (List.range r.length)).map (fun i => r.getD i 0) := by
  have h : (List.range r.length).map (fun i => r.getD i 0) = r := by
    apply List.ext_getElem
    · simp
    · intro i h1 h2; simp [List.getElem?_eq_getElem h2]
  conv => lhs; rw [← h]
  rw [keepMask_map]

theorem colAt_keepMask (m : List Bool) (rows : List (List Int)) (n : Nat)
    (hrows : ∀ r ∈ rows, r.length = n) (k' : Nat)
    (hk : k' < (keepMask m (List.range n)).length) :
    colAt (rows.map (keepMask m)) k' = colAt rows ((keepMask m (List.range n)).getD k' 0) := by
  unfold colAt
  rw [List.map_map]
  apply List.map_congr_left
  intro r hr
  simp only [Function.comp]
  rw [keepMask_eq_map_idx m r, hrows r hr]
  simp [hk]

theorem length_merged_dt (p : PulseData) (hwf : WF p) :
    (merged p).dt.length = (keepMask (joinMask p) (List.range p.dt.length)).length := by
  rw [merged_eq p hwf]
  simp only [length_accMask]
  exact length_keepMask_congr _ _ _ (by simp)

/-- the segment values of the merged pulse are the kept segment values -/
theorem segVals_merged (p : PulseData) (hwf : WF p) :
    segVals (merged p) = keepMask (joinMask p) (segVals p) := by
  have hlen := length_merged_dt p hwf
  unfold segVals
  rw [hlen, keepMask_map,
    ← map_getD_range (segVal p) (keepMask (joinMask p) (List.range p.dt.length))]
  apply List.map_congr_left
  intro k' hk'
  have hk : k' < (keepMask (joinMask p) (List.range p.dt.length)).length := by
    simpa using hk'
  rw [merged_eq p hwf]
  simp only [segVal, List.map_map]
  have hc : (p.cTerms.map ((·.coeffs) ∘ mapCoeffs (keepMask (joinMask p))))
      = (p.cTerms.map (·.coeffs)).map (keepMask (joinMask p)) := by
    rw [List.map_map]; rfl
  have hn : (p.nTerms.map ((·.coeffs) ∘ mapCoeffs (keepMask (joinMask p))))
      = (p.nTerms.map (·.coeffs)).map (keepMask (joinMask p)) := by
    rw [List.map_map]; rfl
  rw [hc, hn, colAt_keepMask _ _ p.dt.length (by
        intro r hr; obtain ⟨t, ht, rfl⟩ := List.mem_map.mp hr; exact hwf.1 t ht) k' hk,
    colAt_keepMask _ _ p.dt.length (by
        intro r hr; obtain ⟨t, ht, rfl⟩ := List.mem_map.mp hr; exact hwf.2 t ht) k' hk]

theorem length_segVals (p : PulseData) : (segVals p).length = p.dt.length := by
  simp [segVals]

theorem wf_merged (p : PulseData) (hwf : WF p) : WF (merged p) := by
  rw [merged_eq p hwf]
  constructor
  · intro t ht
    obtain ⟨u, hu, rfl⟩ := List.mem_map.mp ht
    simp only [mapCoeffs_coeffs, length_accMask]
    exact length_keepMask_congr _ _ _ (hwf.1 u hu)
  · intro t ht
    obtain ⟨u, hu, rfl⟩ := List.mem_map.mp ht
    simp only [mapCoeffs_coeffs, length_accMask]
    exact length_keepMask_congr _ _ _ (hwf.2 u hu)

theorem noAdjEq_segVals_merged (p : PulseData) (hwf : WF p) : NoAdjEq (segVals (merged p)) := by
  rw [segVals_merged p hwf]; exact noAdjEq_keepMask _

theorem sum_dt_merged (p : PulseData) (hwf : WF p) : (merged p).dt.sum = p.dt.sum := by
  rw [merged_eq p hwf]
  by_cases h : p.dt = []
  · simp [h, joinMask, segVals, adjMask, accMask, addHead]
  · have := List.length_pos_iff.mpr h
    rw [sum_accMask _ _ _ (by rw [joinMask, length_adjMask, length_segVals]; omega)]
    omega

theorem unrollPulse_merged (p : PulseData) (hwf : WF p) (hd : ∀ d ∈ p.dt, 0 ≤ d) :
    unrollPulse (merged p) = unrollPulse p := by
  unfold unrollPulse
  rw [segVals_merged p hwf]
  have : (merged p).dt = accMask (joinMask p) p.dt 0 := by rw [merged_eq p hwf]
  rw [this, joinMask, unroll_keepMask _ _ 0 (length_segVals p) (Int.le_refl _) hd]
  cases segVals p <;> simp [carryRun]

theorem pos_dt_merged (p : PulseData) (hwf : WF p) (hd : ∀ d ∈ p.dt, 0 < d) :
    ∀ d ∈ (merged p).dt, 0 < d := by
  rw [merged_eq p hwf]
  exact accMask_pos _ _ 0 (Int.le_refl _) hd

theorem nonneg_dt_merged (p : PulseData) (hwf : WF p) (hd : ∀ d ∈ p.dt, 0 ≤ d) :
    ∀ d ∈ (merged p).dt, 0 ≤ d := by
  rw [merged_eq p hwf]
  exact accMask_nonneg _ _ 0 (Int.le_refl _) hd

end PulseView

/-! ### `__eq__` compares canonical forms -/

section Canon

/-- sort both Hamiltonians by identifier -/
def sortedP (p : PulseData) : PulseData :=
  { p with cTerms := sortBy (·.id) p.cTerms, nTerms := sortBy (·.id) p.nTerms }

/-- canonical form used by `__eq__`: equal consecutive segments merged, operators sorted by
identifier -/
def canon (p : PulseData) : PulseData := sortedP (merged p)

theorem zipAll_beq_iff {α : Type} [DecidableEq α] (a b : List α) (h : a.length = b.length) :
    zipAll (· == ·) a b = true ↔ a = b := by
  induction a generalizing b with
  | nil => cases b with
    | nil => simp [zipAll]
    | cons _ _ => simp at h
  | cons x xs ih => cases b with
    | nil => simp at h
    | cons y ys =>
      have := ih ys (by simpa using h)
      simp only [zipAll, List.zip_cons_cons, List.all_cons, Bool.and_eq_true, beq_iff_eq,
        List.cons.injEq] at *
      rw [this]

theorem zipAll_terms_iff (a b : List Term) (h : a.length = b.length) :
    (zipAll (fun x y => x.op == y.op) a b = true ∧ zipAll (fun x y => x.id == y.id) a b = true ∧
      zipAll (fun x y => x.coeffs == y.coeffs) a b = true) ↔ a = b := by
  induction a generalizing b with
  | nil => cases b with
    | nil => simp [zipAll]
    | cons _ _ => simp at h
  | cons x xs ih => cases b with
    | nil => simp at h
    | cons y ys =>
      have := ih ys (by simpa using h)
      simp only [zipAll, List.zip_cons_cons, List.all_cons, Bool.and_eq_true, beq_iff_eq,
        List.cons.injEq] at *
      rw [← this]
      constructor
      · rintro ⟨⟨h1, h2⟩, ⟨h3, h4⟩, h5, h6⟩
        refine ⟨?_, h2, h4, h6⟩
        cases x; cases y; simp_all
      · rintro ⟨rfl, h2, h4, h6⟩
        exact ⟨⟨rfl, h2⟩, ⟨rfl, h4⟩, rfl, h6⟩

theorem length_join_fst (p : PulseData) : (joinEqualSegments p).1.length = p.cTerms.length := by
  unfold joinEqualSegments
  simp only
  split <;> simp

theorem length_join_snd (p : PulseData) : (joinEqualSegments p).2.1.length = p.nTerms.length := by
  unfold joinEqualSegments
  simp only
  split <;> simp

theorem length_canon_cTerms (p : PulseData) : (canon p).cTerms.length = p.cTerms.length := by
  simp [canon, sortedP, merged, length_sortBy, setRows, length_join_fst]

theorem length_canon_nTerms (p : PulseData) : (canon p).nTerms.length = p.nTerms.length := by
  simp [canon, sortedP, merged, length_sortBy, setRows, length_join_snd]

/-- the chain of checks of `__eq__` on the canonical data -/
def eqChecks (dtA dtB : List Int) (lcA lcB lnA lnB : Nat) (scA scB snA snB : List Term)
    (bA bB : Nat) : Bool :=
  if dtA.length != dtB.length then false
  else if !(zipAll (· == ·) dtA dtB) then false
  else if lcA != lcB || lnA != lnB then false
  else
    if !(zipAll (fun a b => a.op == b.op) scA scB) then false
    else if !(zipAll (fun a b => a.op == b.op) snA snB) then false
    else if !(zipAll (fun a b => a.id == b.id) scA scB) then false
    else if !(zipAll (fun a b => a.id == b.id) snA snB) then false
    else if !(zipAll (fun a b => a.coeffs == b.coeffs) scA scB) then false
    else if !(zipAll (fun a b => a.coeffs == b.coeffs) snA snB) then false
    else if !(bA == bB) then false
    else true

theorem pulseEq_unfold (A B : PulseData) :
    pulseEq A B = eqChecks (canon A).dt (canon B).dt A.cTerms.length B.cTerms.length
      A.nTerms.length B.nTerms.length (canon A).cTerms (canon B).cTerms (canon A).nTerms
      (canon B).nTerms A.basis B.basis := rfl

theorem eqChecks_iff (dtA dtB : List Int) (scA scB snA snB : List Term) (bA bB : Nat) :
    eqChecks dtA dtB scA.length scB.length snA.length snB.length scA scB snA snB bA bB = true ↔
      dtA = dtB ∧ scA = scB ∧ snA = snB ∧ bA = bB := by
  unfold eqChecks
  constructor
  · intro h
    by_cases h1 : dtA.length = dtB.length
    · by_cases h2 : scA.length = scB.length
      · by_cases h3 : snA.length = snB.length
        · simp only [h1, h2, h3, bne_self_eq_false, Bool.false_eq_true, if_false, Bool.or_self,
            Bool.not_eq_true', Bool.if_false_left, Bool.and_eq_true, Bool.if_true_right,
            Bool.or_false] at h
          simp only [decide_eq_false_iff_not, Bool.not_eq_false] at h
          obtain ⟨hdt, hco, hno, hci, hni, hcc, hnc, hb⟩ := h
          exact ⟨(zipAll_beq_iff _ _ h1).mp hdt, (zipAll_terms_iff _ _ h2).mp ⟨hco, hci, hcc⟩,
            (zipAll_terms_iff _ _ h3).mp ⟨hno, hni, hnc⟩, by simpa using hb⟩
        · simp [h1, h2, h3] at h
      · simp [h1, h2] at h
    · simp [h1] at h
  · rintro ⟨rfl, rfl, rfl, rfl⟩
    have h1 := (zipAll_beq_iff dtA dtA rfl).mpr rfl
    have ⟨h2, h3, h4⟩ := (zipAll_terms_iff scA scA rfl).mpr rfl
    have ⟨h5, h6, h7⟩ := (zipAll_terms_iff snA snA rfl).mpr rfl
    simp [h1, h2, h3, h4, h5, h6, h7]

/-- `__eq__` holds exactly when the canonical forms coincide -/
theorem pulseEq_iff_canon (A B : PulseData) : pulseEq A B = true ↔ canon A = canon B := by
  rw [pulseEq_unfold]
  have := eqChecks_iff (canon A).dt (canon B).dt (canon A).cTerms (canon B).cTerms
    (canon A).nTerms (canon B).nTerms A.basis B.basis
  rw [length_canon_cTerms, length_canon_cTerms, length_canon_nTerms, length_canon_nTerms] at this
  rw [this]
  have hbA : (canon A).basis = A.basis := rfl
  have hbB : (canon B).basis = B.basis := rfl
  constructor
  · rintro ⟨h1, h2, h3, h4⟩
    cases hA : canon A; cases hB : canon B
    rw [hA] at h1 h2 h3 hbA; rw [hB] at h1 h2 h3 hbB
    simp only at h1 h2 h3 hbA hbB
    rw [h1, h2, h3, hbA, hbB, h4]
  · intro h
    rw [← hbA, ← hbB, h]
    exact ⟨rfl, rfl, rfl, rfl⟩

/-! #### sorting commutes with merging -/

theorem wf_sortedP (p : PulseData) (h : WF p) : WF (sortedP p) :=
  ⟨fun t ht => h.1 t ((mem_sortBy _).mp ht), fun t ht => h.2 t ((mem_sortBy _).mp ht)⟩

theorem colAt_eq_iff (rows : List (List Int)) (k l : Nat) :
    colAt rows k = colAt rows l ↔ ∀ r ∈ rows, r.getD k 0 = r.getD l 0 := by
  unfold colAt
  exact List.map_inj_left

theorem segVal_eq_iff_sortedP (p : PulseData) (k l : Nat) :
    segVal (sortedP p) k = segVal (sortedP p) l ↔ segVal p k = segVal p l := by
  simp only [segVal, Prod.mk.injEq, colAt_eq_iff, sortedP, List.mem_map, mem_sortBy]

theorem joinMask_sortedP (p : PulseData) : joinMask (sortedP p) = joinMask p := by
  by_cases h : p.dt = []
  · simp [joinMask, segVals, sortedP, h]
  · have h' : (sortedP p).dt ≠ [] := h
    rw [← joinMask_eq p h, ← joinMask_eq (sortedP p) h']
    apply List.map_congr_left
    intro k _
    rw [Bool.eq_iff_iff]
    simp only [decide_eq_true_eq]
    exact segVal_eq_iff_sortedP p k (k + 1)

/-- the canonical form is the merged form of the identifier-sorted pulse -/
theorem canon_eq (p : PulseData) (hwf : WF p) : canon p = merged (sortedP p) := by
  unfold canon
  rw [merged_eq p hwf, merged_eq (sortedP p) (wf_sortedP p hwf), joinMask_sortedP]
  simp only [sortedP]
  congr 1
  · exact sortBy_map Term.id Term.id (mapCoeffs (keepMask (joinMask p))) (fun _ => rfl) p.cTerms
  · exact sortBy_map Term.id Term.id (mapCoeffs (keepMask (joinMask p))) (fun _ => rfl) p.nTerms

/-- the `(operator, identifier)` pairs of a Hamiltonian -/
def opIds (ts : List Term) : List (Nat × String) := ts.map fun t => (t.op, t.id)

theorem opIds_map_mapCoeffs (f : List Int → List Int) (ts : List Term) :
    opIds (ts.map (mapCoeffs f)) = opIds ts := by
  simp [opIds, List.map_map, Function.comp_def]

theorem rows_eq_of_cols_eq (n : Nat) (ts us : List Term) (hk : opIds ts = opIds us)
    (ht : ∀ t ∈ ts, t.coeffs.length = n) (hu : ∀ u ∈ us, u.coeffs.length = n)
    (hc : ∀ k, k < n → colAt (ts.map (·.coeffs)) k = colAt (us.map (·.coeffs)) k) : ts = us := by
  induction ts generalizing us with
  | nil => cases us with
    | nil => rfl
    | cons _ _ => simp [opIds] at hk
  | cons t ts ih => cases us with
    | nil => simp [opIds] at hk
    | cons u us =>
      simp only [opIds, List.map_cons, List.cons.injEq, Prod.mk.injEq] at hk
      simp only [colAt, List.map_cons, List.cons.injEq] at hc
      have hcoef : t.coeffs = u.coeffs := by
        apply List.ext_getElem
        · rw [ht t (List.mem_cons_self ..), hu u (List.mem_cons_self ..)]
        · intro i h1 h2
          have := (hc i (by rw [← ht t (List.mem_cons_self ..)]; exact h1)).1
          simpa [List.getD, List.getElem?_eq_getElem h1, List.getElem?_eq_getElem h2] using this
      have htl := ih us hk.2 (fun x hx => ht x (List.mem_cons_of_mem _ hx))
        (fun x hx => hu x (List.mem_cons_of_mem _ hx)) (fun k hk' => (hc k hk').2)
      obtain ⟨⟨h1, h2⟩, _⟩ := hk
      cases t; cases u; simp_all

/-- two well-formed pulses with the same operators/identifiers (in the same order), the same
durations and the same segment values are equal -/
theorem eq_of_segVals_eq (P Q : PulseData) (hP : WF P) (hQ : WF Q) (hb : P.basis = Q.basis)
    (hc : opIds P.cTerms = opIds Q.cTerms) (hn : opIds P.nTerms = opIds Q.nTerms)
    (hdt : P.dt = Q.dt) (hs : segVals P = segVals Q) : P = Q := by
  have hcols : ∀ k, k < P.dt.length → segVal P k = segVal Q k := by
    intro k hk
    unfold segVals at hs
    rw [← hdt] at hs
    exact List.map_inj_left.mp hs k (List.mem_range.mpr hk)
  have h1 := rows_eq_of_cols_eq P.dt.length P.cTerms Q.cTerms hc hP.1 (by rw [hdt]; exact hQ.1)
    (fun k hk => (Prod.mk.inj (hcols k hk)).1)
  have h2 := rows_eq_of_cols_eq P.dt.length P.nTerms Q.nTerms hn hP.2 (by rw [hdt]; exact hQ.2)
    (fun k hk => (Prod.mk.inj (hcols k hk)).2)
  cases P; cases Q; simp_all

theorem opIds_merged (p : PulseData) (hwf : WF p) :
    opIds (merged p).cTerms = opIds p.cTerms ∧ opIds (merged p).nTerms = opIds p.nTerms := by
  rw [merged_eq p hwf]
  exact ⟨opIds_map_mapCoeffs _ _, opIds_map_mapCoeffs _ _⟩

/-- merged forms coincide iff bases, operators/identifiers and the unrolled step functions
coincide (positive durations) -/
theorem merged_eq_iff (P Q : PulseData) (hP : WF P) (hQ : WF Q) (pP : ∀ d ∈ P.dt, 0 < d)
    (pQ : ∀ d ∈ Q.dt, 0 < d) :
    merged P = merged Q ↔ P.basis = Q.basis ∧ opIds P.cTerms = opIds Q.cTerms ∧
      opIds P.nTerms = opIds Q.nTerms ∧ unrollPulse P = unrollPulse Q := by
  have nP : ∀ d ∈ P.dt, 0 ≤ d := fun d hd => Int.le_of_lt (pP d hd)
  have nQ : ∀ d ∈ Q.dt, 0 ≤ d := fun d hd => Int.le_of_lt (pQ d hd)
  constructor
  · intro h
    refine ⟨?_, ?_, ?_, ?_⟩
    · have : (merged P).basis = (merged Q).basis := by rw [h]
      exact this
    · rw [← (opIds_merged P hP).1, ← (opIds_merged Q hQ).1, h]
    · rw [← (opIds_merged P hP).2, ← (opIds_merged Q hQ).2, h]
    · rw [← unrollPulse_merged P hP nP, ← unrollPulse_merged Q hQ nQ, h]
  · rintro ⟨hb, hc, hn, hu⟩
    rw [← unrollPulse_merged P hP nP, ← unrollPulse_merged Q hQ nQ] at hu
    have hl : ∀ p : PulseData, WF p → (segVals (merged p)).length = (merged p).dt.length :=
      fun p _ => length_segVals _
    obtain ⟨hs, hdt⟩ := rle_unique _ _ _ _ (noAdjEq_segVals_merged P hP)
      (noAdjEq_segVals_merged Q hQ) (hl P hP) (hl Q hQ) (pos_dt_merged P hP pP)
      (pos_dt_merged Q hQ pQ) hu
    exact eq_of_segVals_eq _ _ (wf_merged P hP) (wf_merged Q hQ) hb
      (by rw [(opIds_merged P hP).1, (opIds_merged Q hQ).1, hc])
      (by rw [(opIds_merged P hP).2, (opIds_merged Q hQ).2, hn]) hdt hs

end Canon

/-! ### further helpers for the equality theorems -/

section EqAux

theorem unroll_inj {β : Type} (V V' : List β) (D : List Int) (h : V.length = D.length)
    (h' : V'.length = D.length) (hp : ∀ d ∈ D, 0 < d) (hu : unroll V D = unroll V' D) : V = V' := by
  induction D generalizing V V' with
  | nil =>
    have a : V = [] := by simpa using h
    have b : V' = [] := by simpa using h'
    rw [a, b]
  | cons d D ih =>
    match V, V', h, h' with
    | v :: r, v' :: r', h, h' =>
      have hd := hp d (List.mem_cons_self ..)
      have a := head?_unroll_pos v r d D hd
      have b := head?_unroll_pos v' r' d D hd
      rw [hu, b] at a
      have hv : v' = v := Option.some.inj a
      subst hv
      rw [unroll_cons, unroll_cons] at hu
      have := ih r r' (by simpa using h) (by simpa using h')
        (fun x hx => hp x (List.mem_cons_of_mem _ hx)) (List.append_cancel_left hu)
      rw [this]

theorem perm_middle_inj {α : Type} [DecidableEq α] (k₁ k₂ : List α) (a b : α)
    (h : (k₁ ++ a :: k₂).Perm (k₁ ++ b :: k₂)) : a = b := by
  have h1 : (a :: (k₁ ++ k₂)).Perm (b :: (k₁ ++ k₂)) :=
    (List.perm_middle.symm.trans h).trans List.perm_middle
  have hc := h1.count_eq a
  simp only [List.count_cons_self, List.count_cons] at hc
  by_cases hab : b = a
  · exact hab.symm
  · simp [hab] at hc

theorem noAdjEq_getElem {β : Type} (l : List β) (h : NoAdjEq l) (k : Nat) (hk : k + 1 < l.length) :
    l[k] ≠ l[k + 1] := by
  induction l generalizing k with
  | nil => simp at hk
  | cons a r ih =>
    cases r with
    | nil => simp at hk
    | cons b r =>
      cases k with
      | zero => exact h.1
      | succ k => exact ih h.2 k (by simpa using hk)

theorem opIds_setRows (ts : List Term) (rows : List (List Int)) (h : rows.length = ts.length) :
    opIds (setRows ts rows) = opIds ts := by
  induction ts generalizing rows with
  | nil => simp [setRows, opIds]
  | cons t ts ih =>
    cases rows with
    | nil => simp at h
    | cons r rows =>
      have := ih rows (by simpa using h)
      simp only [opIds, setRows, List.zipWith_cons_cons, List.map_cons, List.cons.injEq] at *
      exact ⟨trivial, this⟩

theorem opIds_canon_perm (p : PulseData) :
    (opIds (canon p).cTerms).Perm (opIds p.cTerms) ∧ (opIds (canon p).nTerms).Perm (opIds p.nTerms) := by
  constructor
  · have := (sortBy_perm Term.id (merged p).cTerms).map (fun t => (t.op, t.id))
    refine this.trans ?_
    have h := opIds_setRows p.cTerms (joinEqualSegments p).1 (length_join_fst p)
    unfold opIds at h
    show (List.map (fun t => (t.op, t.id)) (setRows p.cTerms (joinEqualSegments p).1)).Perm _
    rw [h]; exact List.Perm.refl _
  · have := (sortBy_perm Term.id (merged p).nTerms).map (fun t => (t.op, t.id))
    refine this.trans ?_
    have h := opIds_setRows p.nTerms (joinEqualSegments p).2.1 (length_join_snd p)
    unfold opIds at h
    show (List.map (fun t => (t.op, t.id)) (setRows p.nTerms (joinEqualSegments p).2.1)).Perm _
    rw [h]; exact List.Perm.refl _

end EqAux

/-! ### `_parse_Hamiltonian` -/

section Parse

/-- the identifier `_parse_Hamiltonian` stores for the `i`-th listed term: the given one, or the
default `pre_i` -/
def idFor (pre : String) (i : Nat) (given : Option String) : String :=
  given.getD (defaultId pre i)

theorem defaultId_inj (pre : String) (i j : Nat) (h : defaultId pre i = defaultId pre j) : i = j := by
  unfold defaultId at h
  rw [String.append_right_inj] at h
  exact Nat.repr_inj.mp h

theorem fillIdentifiers_getElem? (terms : List (Nat × Option String × List Int)) (pre : String)
    (i : Nat) :
    (fillIdentifiers terms pre)[i]? =
      terms[i]?.map fun t => ⟨t.1, idFor pre i t.2.1, t.2.2⟩ := by
  unfold fillIdentifiers idFor
  simp [List.getElem?_zipIdx]
  cases terms[i]? <;> rfl

theorem length_fillIdentifiers (terms : List (Nat × Option String × List Int)) (pre : String) :
    (fillIdentifiers terms pre).length = terms.length := by
  unfold fillIdentifiers
  simp

/-- with explicit identifiers everywhere, filling does not look at the positions -/
theorem fillIdentifiers_all_some (terms : List (Nat × Option String × List Int)) (pre : String)
    (h : ∀ t ∈ terms, t.2.1.isSome) :
    fillIdentifiers terms pre = terms.map fun t => ⟨t.1, t.2.1.getD "", t.2.2⟩ := by
  apply List.ext_getElem?
  intro i
  rw [fillIdentifiers_getElem?, List.getElem?_map]
  cases hi : terms[i]? with
  | none => rfl
  | some t =>
    have ht : t ∈ terms := List.mem_of_getElem? hi
    have hs := h t ht
    simp only [Option.map_some, idFor]
    cases h' : t.2.1 <;> simp_all

theorem nodup_map_of_inj {α β : Type} (f : α → β) (l : List α) (hl : l.Nodup)
    (hf : ∀ a ∈ l, ∀ b ∈ l, f a = f b → a = b) : (l.map f).Nodup := by
  induction l with
  | nil => exact List.nodup_nil
  | cons x xs ih =>
    rw [List.nodup_cons] at hl
    rw [List.map_cons, List.nodup_cons]
    refine ⟨?_, ih hl.2 (fun a ha b hb => hf a (List.mem_cons_of_mem _ ha) b
      (List.mem_cons_of_mem _ hb))⟩
    intro hmem
    obtain ⟨y, hy, hxy⟩ := List.mem_map.mp hmem
    have := hf y (List.mem_cons_of_mem _ hy) x (List.mem_cons_self ..) hxy
    subst this
    exact hl.1 hy

end Parse

end FFVerif.Model.Pulse
