/-
Helper lemmas for `FFVerif.Props.C10Shifts` on the cumulant-function side: `O G Oᵀ` for the upcast
of a real array, and the fact that the second-order term `K2` of the cumulant function sees only the
antisymmetric part of the frequency shifts.
-/
import FFVerif.Props.C12Etm

namespace FFVerif.C12
open FFVerif Matrix

variable {N N' : Nat}

/-- entrywise `G' = O G Oᵀ` for real arrays gives the matrix identity for their complex upcasts -/
theorem toComplexMat_sandwich (G : Mat ℝ N N) (G' : Mat ℝ N' N') (O : Matrix (Fin N') (Fin N) ℝ)
    (h : ∀ k l : Fin N', G'[k][l] = ∑ k' : Fin N, ∑ l' : Fin N, O k k' * G[k'][l'] * O l l') :
    (toComplexMat G').toMatrix
      = Spec.toCplx O * (toComplexMat G).toMatrix * (Spec.toCplx O)ᵀ := by
  ext k l
  rw [Spec.sandwich_apply, toComplexMat_toMatrix, Spec.toCplx_apply, Mat.toMatrix_apply, h k l]
  push_cast
  refine Finset.sum_congr rfl fun k' _ => Finset.sum_congr rfl fun l' _ => ?_
  rw [toComplexMat_toMatrix, Spec.toCplx_apply, Spec.toCplx_apply, Spec.toCplx_apply,
    Mat.toMatrix_apply]

end FFVerif.C12

namespace FFVerif.Spec
open Matrix

variable {N d : Nat}

theorem comm_neg_left (X Y : Matrix (Fin d) (Fin d) ℂ) : comm (-X) Y = -comm X Y := by
  unfold comm
  rw [Matrix.neg_mul, Matrix.mul_neg]
  abel

/-- the trace weight of `K2` is antisymmetric in the two summation indices -/
theorem K2_weight_swap (C : Fin N → Matrix (Fin d) (Fin d) ℂ) (i j k l : Fin N) :
    trace (C i * comm (comm (C l) (C k)) (C j)) = -trace (C i * comm (comm (C k) (C l)) (C j)) := by
  rw [comm_swap (C l) (C k), comm_neg_left, Matrix.mul_neg, trace_neg]

/-- **`K2` sees only the antisymmetric part of `Δ`.** -/
theorem K2_antisymm_part (C : Fin N → Matrix (Fin d) (Fin d) ℂ) (Δ : Fin N → Fin N → ℂ)
    (i j : Fin N) : K2 C Δ i j = K2 C (fun k l => (Δ k l - Δ l k) / 2) i j := by
  unfold K2
  congr 1
  have hsw : (∑ k, ∑ l, Δ l k * trace (C i * comm (comm (C k) (C l)) (C j)))
      = -∑ k, ∑ l, Δ k l * trace (C i * comm (comm (C k) (C l)) (C j)) := by
    rw [Finset.sum_comm, ← Finset.sum_neg_distrib]
    refine Finset.sum_congr rfl fun k _ => ?_
    rw [← Finset.sum_neg_distrib]
    refine Finset.sum_congr rfl fun l _ => ?_
    rw [K2_weight_swap C i j k l]
    ring
  have e : ∀ k l, (Δ k l - Δ l k) / 2 * trace (C i * comm (comm (C k) (C l)) (C j))
      = (Δ k l * trace (C i * comm (comm (C k) (C l)) (C j))
          - Δ l k * trace (C i * comm (comm (C k) (C l)) (C j))) / 2 := by
    intro k l; ring
  simp only [e, ← Finset.sum_div, Finset.sum_sub_distrib]
  rw [hsw]
  ring

/-- two `Δ` with the same antisymmetric part give the same second-order term -/
theorem K2_congr_antisymm (C : Fin N → Matrix (Fin d) (Fin d) ℂ) (Δ Δ' : Fin N → Fin N → ℂ)
    (h : ∀ k l, Δ k l - Δ l k = Δ' k l - Δ' l k) (i j : Fin N) : K2 C Δ i j = K2 C Δ' i j := by
  rw [K2_antisymm_part C Δ, K2_antisymm_part C Δ']
  simp only [h]

/-- a symmetric `Δ` contributes nothing -/
theorem K2_symm_zero (C : Fin N → Matrix (Fin d) (Fin d) ℂ) (Δ : Fin N → Fin N → ℂ)
    (h : ∀ k l, Δ k l = Δ l k) (i j : Fin N) : K2 C Δ i j = 0 := by
  rw [K2_antisymm_part]
  unfold K2
  have : ∀ k l, (Δ k l - Δ l k) / 2 = 0 := fun k l => by rw [h k l]; simp
  simp only [this, zero_mul, Finset.sum_const_zero, mul_zero]

end FFVerif.Spec
