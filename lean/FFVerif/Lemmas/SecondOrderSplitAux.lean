/-
The per-segment facts behind `C13.secondOrder_split_segment`, read off `C13.IsSegmentCut` (second
piece listed directly after the first).  Helpers for `Props/C13Second.lean`.
-/
import FFVerif.Lemmas.SecondOrderCutAux
import FFVerif.Props.C13

namespace FFVerif.SecondOrderInv
open FFVerif FFVerif.Model FFVerif.C13 Complex Matrix

variable {nG d nO nA nK : ℕ} (kind : MaskKind) (thr : ℝ)
    (eigvals : Mat ℝ nG d) (eigvecs props : Vector (Mat ℂ d d) nG)
    (eigvals' : Mat ℝ (nG + 1) d) (eigvecs' props' : Vector (Mat ℂ d d) (nG + 1))
    (omega : Vec ℝ nO) (basis : Vector (Mat ℂ d d) nK) (nOpers : Vector (Mat ℂ d d) nA)
    (nCoeffs : Mat ℝ nA nG) (nCoeffs' : Mat ℝ nA (nG + 1)) (dt t : Vec ℝ nG)
    (dt' t' : Vec ℝ (nG + 1)) (g₀ : Fin nG) (τ₁ τ₂ : ℝ)

/-- the segments that are not cut carry the same "last interval" number -/
theorem cut_other_step
    (hcut : IsSegmentCut eigvals eigvecs props nCoeffs dt t eigvals' eigvecs' props' nCoeffs' dt' t'
      g₀ g₀.succ τ₁ τ₂) (a b : Fin nA) (k l : Fin nK) (o : Fin nO) (i : Fin nG) (hi : i ≠ g₀) :
    stepOf eigvals' eigvecs' props' omega basis nOpers nCoeffs' dt' a b k l o (g₀.succ.succAbove i)
      = stepOf eigvals eigvecs props omega basis nOpers nCoeffs dt a b k l o i := by
  obtain ⟨hdt, hev, hvec, hprop, hco, ht, hdt', hdt1, hev2, hvec2, hprop2, hco2, ht2, hdt2⟩ := hcut
  unfold stepOf
  rw [hev i, hvec i, hprop i, hco a i, hco b i, hdt' i hi]

include kind thr in
/-- … and the same control-matrix contribution -/
theorem cut_other_cm
    (hcut : IsSegmentCut eigvals eigvecs props nCoeffs dt t eigvals' eigvecs' props' nCoeffs' dt' t'
      g₀ g₀.succ τ₁ τ₂) (a : Fin nA) (k : Fin nK) (o : Fin nO) (i : Fin nG) (hi : i ≠ g₀) :
    cmOf kind thr eigvals' eigvecs' props' omega basis nOpers nCoeffs' dt' t' a k o
        (g₀.succ.succAbove i)
      = cmOf kind thr eigvals eigvecs props omega basis nOpers nCoeffs dt t a k o i := by
  obtain ⟨hdt, hev, hvec, hprop, hco, ht, hdt', hdt1, hev2, hvec2, hprop2, hco2, ht2, hdt2⟩ := hcut
  unfold cmOf
  rw [hev i, hvec i, hprop i, hco a i, hdt' i hi, ht i]

/-- the basis elements of the second piece carry the phases `e^{-iλ_n τ₁} e^{iλ_m τ₁}` -/
theorem cut_bMat
    (hcut : IsSegmentCut eigvals eigvecs props nCoeffs dt t eigvals' eigvecs' props' nCoeffs' dt' t'
      g₀ g₀.succ τ₁ τ₂)
    (hV : (eigvecs[g₀].toMatrix)ᴴ * eigvecs[g₀].toMatrix = 1) (k' : Fin nK) (n m : Fin d) :
    bMat eigvecs[g₀] props'[g₀.succ] basis[k'] n m
      = (starRingEnd ℂ) (Complex.exp (Complex.I * ((eigvals[g₀][n] : ℂ) * (τ₁ : ℂ))))
        * bMat eigvecs[g₀] props[g₀] basis[k'] n m
        * Complex.exp (Complex.I * ((eigvals[g₀][m] : ℂ) * (τ₁ : ℂ))) :=
  bMat_cut (fun m => eigvals[g₀][m]) eigvecs[g₀] props[g₀] props'[g₀.succ] basis[k'] τ₁
    hcut.2.2.2.2.2.2.2.2.2.2.1 hV n m

include kind thr in
/-- the control-matrix contributions of the two pieces add up to that of the cut segment -/
theorem cut_cm
    (hcut : IsSegmentCut eigvals eigvecs props nCoeffs dt t eigvals' eigvecs' props' nCoeffs' dt' t'
      g₀ g₀.succ τ₁ τ₂)
    (hV : (eigvecs[g₀].toMatrix)ᴴ * eigvecs[g₀].toMatrix = 1)
    (a : Fin nA) (k : Fin nK) (o : Fin nO)
    (h1 : ExactAt kind thr (fun m => eigvals[g₀][m]) omega[o] τ₁)
    (h2 : ExactAt kind thr (fun m => eigvals[g₀][m]) omega[o] τ₂)
    (h12 : ExactAt kind thr (fun m => eigvals[g₀][m]) omega[o] (τ₁ + τ₂)) :
    cmOf kind thr eigvals' eigvecs' props' omega basis nOpers nCoeffs' dt' t' a k o
        (g₀.succ.succAbove g₀)
      + cmOf kind thr eigvals' eigvecs' props' omega basis nOpers nCoeffs' dt' t' a k o g₀.succ
      = cmOf kind thr eigvals eigvecs props omega basis nOpers nCoeffs dt t a k o g₀ := by
  have hb := cut_bMat eigvals eigvecs props eigvals' eigvecs' props' basis nCoeffs nCoeffs' dt t dt'
    t' g₀ τ₁ τ₂ hcut hV k
  obtain ⟨hdt, hev, hvec, hprop, hco, ht, hdt', hdt1, hev2, hvec2, hprop2, hco2, ht2, hdt2⟩ := hcut
  unfold cmOf
  rw [hev g₀, hvec g₀, hprop g₀, hco a g₀, ht g₀, hdt1, hev2, hvec2, hco2 a, ht2, hdt2, hdt]
  exact segCm_cut kind thr (fun m => eigvals[g₀][m]) omega[o] t[g₀] τ₁ τ₂ _ _ _ hb h1 h2 h12

include kind thr in
/-- the "last interval" numbers of the two pieces plus the cross term of the second piece add up
to the "last interval" number of the cut segment -/
theorem cut_step
    (hcut : IsSegmentCut eigvals eigvecs props nCoeffs dt t eigvals' eigvecs' props' nCoeffs' dt' t'
      g₀ g₀.succ τ₁ τ₂)
    (hV : (eigvecs[g₀].toMatrix)ᴴ * eigvecs[g₀].toMatrix = 1)
    (hN : ∀ (a : Fin nA) (i j : Fin d), (starRingEnd ℂ) nOpers[a][i][j] = nOpers[a][j][i])
    (hC : ∀ (k : Fin nK) (i j : Fin d), (starRingEnd ℂ) basis[k][i][j] = basis[k][j][i])
    (a b : Fin nA) (k l : Fin nK) (o : Fin nO)
    (h1 : ExactAt kind thr (fun m => eigvals[g₀][m]) omega[o] τ₁)
    (h2 : ExactAt kind thr (fun m => eigvals[g₀][m]) omega[o] τ₂) :
    stepOf eigvals' eigvecs' props' omega basis nOpers nCoeffs' dt' a b k l o (g₀.succ.succAbove g₀)
      + stepOf eigvals' eigvecs' props' omega basis nOpers nCoeffs' dt' a b k l o g₀.succ
      + (starRingEnd ℂ) (cmOf kind thr eigvals' eigvecs' props' omega basis nOpers nCoeffs' dt'
          t' a k o g₀.succ)
        * cmOf kind thr eigvals' eigvecs' props' omega basis nOpers nCoeffs' dt' t' b l o
          (g₀.succ.succAbove g₀)
      = stepOf eigvals eigvecs props omega basis nOpers nCoeffs dt a b k l o g₀ := by
  have hb := cut_bMat eigvals eigvecs props eigvals' eigvecs' props' basis nCoeffs nCoeffs' dt t dt'
    t' g₀ τ₁ τ₂ hcut hV
  obtain ⟨hdt, hev, hvec, hprop, hco, ht, hdt', hdt1, hev2, hvec2, hprop2, hco2, ht2, hdt2⟩ := hcut
  unfold stepOf cmOf
  rw [hev g₀, hvec g₀, hprop g₀, hco a g₀, hco b g₀, ht g₀, hdt1, hev2, hvec2, hco2 a, hco2 b,
    ht2, hdt2, hdt]
  exact segStep_cut kind thr (fun m => eigvals[g₀][m]) omega[o] t[g₀] τ₁ τ₂ _ _ _ _ _ _
    (nMat_herm _ _ _ (hN a)) (bMat_herm _ _ _ (hC k)) (hb k) (hb l) h1 h2

end FFVerif.SecondOrderInv
